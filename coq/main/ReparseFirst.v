From Coq Require Import List ZArith Lia Bool.
Import ListNotations.
Require Import Base Tree LP Rules Starts Driver Rec17 Rec18 Cursor L2Bnd L2BndS L2CC StreamFuel BlankPrefix TDefs Total TilBase SliceBase SliceReparse
  ReparseDefs ReparseLocal.
Open Scope Z_scope.

(* ================= roots that are cut at the position read so far: the re-parse is the root, flag included ================= *)

Lemma cutOf_first : forall f st ch ls B b rest bij st', 0 <= ls <= len B -> cutOf f st ch ls B = Some (b, rest, bij, st') -> lineEnd B ls <= bij.
Proof.
  destruct f as [|f]; intros st ch ls B b rest bij st' Hls E; [discriminate|]. cbn [cutOf] in E. cbv zeta in E.
  destruct (lineEnd_spec B ls Hls) as [A _].
  destruct (processLine st ch ls (upto B (lineEnd B ls))) as [[ch' st1] pn]. destruct (negb (pn =? 0)); [discriminate|].
  assert (Hrec : cutOf f st1 ch' (lineEnd B ls) B = Some (b, rest, bij, st') -> lineEnd B ls <= bij).
  { intros E'. destruct (cutOf_bounds f st1 ch' (lineEnd B ls) B b rest bij st' ltac:(lia) E'). lia. }
  destruct ch' as [|b0 rest0]; [exact (Hrec E)|]. destruct (isOpen b0); [exact (Hrec E)|]. inversion E; subst. lia.
Qed.

Lemma noNul_upto l n : noNul l -> noNul (upto l n).
Proof. unfold noNul, upto. revert l. induction (Z.to_nat n) as [|k IH]; intros l H; [constructor|]. destruct l; [constructor|]. inversion H; subst. constructor; [assumption|apply IH; assumption]. Qed.
Lemma noNul_from l n : noNul l -> noNul (from_ l n).
Proof. unfold noNul, from_. revert l. induction (Z.to_nat n) as [|k IH]; intros l H; [exact H|]. destruct l; [constructor|]. inversion H; subst. apply IH; assumption. Qed.

(* the whole run on the source of a root that was cut at the end of the line just read *)
Theorem reparse_cut_at_read B f b st' n : noNul B ->
  cutOf f 0 [] 0 B = Some (b, [], n, st') -> bend b = n ->
  0 < lineEnd B 0 -> isBlankLine (upto B (lineEnd B 0)) = false ->
  parseBlocks (upto B n) = ([{| rb_line := 1; rb_start := 0; rb_end := n; rb_src := upto B n; rb_blk := b |}], 0).
Proof.
  intros HnB Hcut Hbe Hpos Hnb.
  pose proof (len_nonneg B) as HlB.
  destruct (cutOf_bounds f 0 [] 0 B b [] n st' ltac:(lia) Hcut) as [Hb Hcl].
  pose proof (cutOf_first f 0 [] 0 B b [] n st' ltac:(lia) Hcut) as Hf1.
  set (A := upto B n).
  assert (HlA : len A = n) by (apply len_upto; lia).
  assert (HnA : noNul A) by (apply noNul_upto, HnB).
  assert (HcA : cutOf f 0 [] 0 A = Some (b, [], n, st')) by (apply cutOf_prefix; [lia|exact Hcut|lia]).
  assert (HeA : lineEnd A 0 = lineEnd B 0) by (apply lineEnd_upto; lia).
  rewrite parseBlocks_st0, (pad_noNul A HnA).
  assert (Hlen : exists k, length A = S k).
  { destruct A as [|x t] eqn:EA; [unfold len in HlA; cbn in HlA; lia|eexists; reflexivity]. }
  destruct Hlen as (k & Ek). rewrite allBlocks_S, nextBlock_st0. cbn [buf st0].
  (* skipLoop enters lineLoop on the first line *)
  assert (Hsk : skipLoop (3 + length A) (st0 A) = lineLoop (2 + length A) 0 [] 0 {| buf := A; bi := lineEnd A 0; boff := 0; bline := 1; pending := [] |}).
  { change (3 + length A)%nat with (S (2 + length A)). cbn [skipLoop]. cbv zeta. cbn [buf bi st0 boff bline pending]. rewrite HeA.
    destruct (Z.ltb_spec 0 (lineEnd B 0)); [|lia]. cbn [negb]. unfold A at 1. rewrite upto_upto by lia. rewrite Hnb. reflexivity. }
  rewrite Hsk.
  set (sA := {| buf := A; bi := lineEnd A 0; boff := 0; bline := 1; pending := [] |}).
  destruct (rootAt sA b [] n) as [r1 s1] eqn:Er.
  assert (HL : lineLoop f 0 [] 0 sA = NBBlock r1 s1).
  { apply (lineLoop_cutOf f 0 [] 0 sA r1 s1 eq_refl). exists b, [], n, st'. split; [exact HcA|symmetry; exact Er]. }
  assert (HL2 : lineLoop (2 + length A) 0 [] 0 sA = NBBlock r1 s1).
  { destruct (le_lt_dec f (2 + length A)) as [Le|Gt].
    - rewrite (lineLoop_mono f 0 [] 0 sA ltac:(rewrite HL; discriminate) (2 + length A)%nat Le). exact HL.
    - rewrite <- HL. symmetry. apply lineLoop_adequate; cbn [buf bi sA]; [lia|reflexivity|left; reflexivity|unfold len; lia|lia]. }
  rewrite HL2.
  (* the root and the state after it *)
  unfold rootAt in Er. cbn [buf boff bline sA] in Er. rewrite Hbe in Er.
  assert (EuA : upto A n = A) by (rewrite <- HlA; apply upto_all).
  assert (EfA : from_ A n = []) by (rewrite <- HlA; apply from_all).
  rewrite EuA, EfA, (unpadded_noNul A HnA), (fillNulls_noNul A HnA), HlA in Er. inversion Er; subst r1 s1. clear Er.
  rewrite Ek. rewrite allBlocks_S. cbn [buf length]. unfold nextBlock. cbn [pending makeRoot buf bi].
  rewrite from_nil_any.
  cbn [skipLoop]. cbv zeta. cbn [buf bi]. change (lineEnd [] 0) with 0. cbn [Z.ltb negb]. reflexivity.
Qed.
