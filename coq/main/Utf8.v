From Coq Require Import List ZArith Lia Bool.
Import ListNotations.
Require Import Base Tables.
Open Scope Z_scope.

Definition RuneError := 65533.
Definition isCont (b : Z) := (128 <=? b) && (b <=? 191).

(* utf8.DecodeRune: (rune, width); invalid or short input gives (RuneError, 1); empty gives (RuneError, 0) *)
Definition decodeRune (p : bytes) : Z * Z :=
  match p with
  | [] => (RuneError, 0)
  | b0 :: r =>
    if b0 <? 128 then (b0, 1)
    else if (194 <=? b0) && (b0 <=? 223) then
      match r with b1 :: _ => if isCont b1 then ((b0 - 192) * 64 + (b1 - 128), 2) else (RuneError, 1) | _ => (RuneError, 1) end
    else if (224 <=? b0) && (b0 <=? 239) then
      match r with
      | b1 :: b2 :: _ =>
        let lo := if b0 =? 224 then 160 else 128 in
        let hi := if b0 =? 237 then 159 else 191 in
        if (lo <=? b1) && (b1 <=? hi) && isCont b2 then ((b0 - 224) * 4096 + (b1 - 128) * 64 + (b2 - 128), 3) else (RuneError, 1)
      | _ => (RuneError, 1)
      end
    else if (240 <=? b0) && (b0 <=? 244) then
      match r with
      | b1 :: b2 :: b3 :: _ =>
        let lo := if b0 =? 240 then 144 else 128 in
        let hi := if b0 =? 244 then 143 else 191 in
        if (lo <=? b1) && (b1 <=? hi) && isCont b2 && isCont b3
        then ((b0 - 240) * 262144 + (b1 - 128) * 4096 + (b2 - 128) * 64 + (b3 - 128), 4) else (RuneError, 1)
      | _ => (RuneError, 1)
      end
    else (RuneError, 1)
  end.

(* utf8.DecodeLastRune *)
Definition runeStart (b : Z) := negb ((128 <=? b) && (b <=? 191)).
Fixpoint dlr_back (fuel : nat) (p : bytes) (start lim : Z) : Z :=
  match fuel with
  | O => start
  | S f => if start <? lim then start else if runeStart (at_ p start) then start else dlr_back f p (start - 1) lim
  end.
Definition decodeLastRune (p : bytes) : Z * Z :=
  let e := len p in
  if e =? 0 then (RuneError, 0) else
  let start := e - 1 in
  let r := at_ p start in
  if r <? 128 then (r, 1) else
  let lim := if e - 4 <? 0 then 0 else e - 4 in
  let start := dlr_back 4 p (start - 1) lim in
  let start := if start <? 0 then 0 else start in
  let '(rn, size) := decodeRune (sub p start e) in
  if negb (start + size =? e) then (RuneError, 1) else (rn, size).

Definition encodeRune (r : Z) : bytes :=
  if r <? 128 then [r]
  else if r <? 2048 then [192 + r / 64; 128 + r mod 64]
  else if r <? 65536 then [224 + r / 4096; 128 + (r / 64) mod 64; 128 + r mod 64]
  else [240 + r / 262144; 128 + (r / 4096) mod 64; 128 + (r / 64) mod 64; 128 + r mod 64].

Definition inRanges (rs : list (Z * Z)) (c : Z) : bool := existsb (fun lh => (fst lh <=? c) && (c <=? snd lh)) rs.
Definition isUnicodeWhitespace (c : Z) : bool := ((c <=? 127) && isSpaceTabOrLineEnding c) || inRanges rangesZs c.
Definition isUnicodePunctuation (c : Z) : bool := if c <? 128 then isASCIIPunctuation c else inRanges rangesP c.

(* cases.Fold().String *)
Fixpoint lookupFold (t : list (Z * list Z)) (r : Z) : option bytes :=
  match t with [] => None | (k, v) :: rest => if k =? r then Some v else lookupFold rest r end.
Fixpoint foldString_loop (fuel : nat) (s : bytes) (acc : bytes) : bytes :=
  match fuel with
  | O => acc
  | S f =>
    match s with
    | [] => acc
    | b :: _ =>
      let '(r, w) := decodeRune s in
      let w := if w <? 1 then 1 else w in
      let chunk := upto s w in
      let out := if (r =? RuneError) && (w =? 1) then chunk
                 else match lookupFold foldTable r with Some v => v | None => chunk end in
      foldString_loop f (from_ s w) (acc ++ out)
    end
  end.
Definition foldString (s : bytes) : bytes := foldString_loop (S (length s)) s [].

(* isEntity (inlines.go:710) through html.UnescapeString's rules; x = "&name;" *)
Definition bytes_eqb (a b : bytes) : bool := (len a =? len b) && hasBytePrefix a b.
Definition memName (l : list bytes) (n : bytes) : bool := existsb (bytes_eqb n) l.
Fixpoint legacyPrefix (j : nat) (name : bytes) : option bytes :=
  match j with
  | O | S O => None
  | S j' => let pre := upto name (Z.of_nat j) in
            if memName entityNamesLegacy pre then Some pre else legacyPrefix j' name
  end.
Definition isEntityName (name : bytes) : bool :=
  if memName entityNamesSemi name then true else
  let maxLen := Z.to_nat (Z.min (len name) 6) in
  match legacyPrefix maxLen name with
  | Some pre => negb (bytes_eqb pre [97;109;112]) && negb (bytes_eqb pre [65;77;80])
  | None => false
  end.
