From Coq Require Import List ZArith Lia Bool.
Import ListNotations.
Require Import Base Tables Utf8 Tree Rdr Link Collect Html Recog Inl3a Inl3b Inl3c Inl3d Inl3e Render Props PEProof GI0 GI1 GI2 GI3 GI4.
Open Scope Z_scope.

(* ================================================================== *)
(* GI5: forming a link or image (wrap to the end of the root level,    *)
(* re-span / label / tail of the wrapper, finishLink).                 *)
(* ================================================================== *)

(* the state after the wrapper has been built: the root level is  pre ++ [wrapper over M ++ T] *)
Definition linkState (st0 : ist) (pre M : list pn) (kind : Z) (T : list pn) (rf : bytes) (st' : ist) : Prop :=
  (exists s e ind, rk st' = pre ++ [PN (nid st0) kind s e ind rf (M ++ T)]) /\
  nid st' = nid st0 + 1 /\ stk st' = stk st0 /\ unp st' = unp st0.

Lemma snd_wrap st k a b : snd (wrap st k a b) = nid st. Proof. reflexivity. Qed.

Lemma wrap_None_state st kind id pre M : In id (ids (rk st)) -> splitAtId id (rk st) = (pre, M) ->
  linkState st pre M kind [] [] (fst (wrap st kind id None)).
Proof.
  intros Hi Es. unfold wrap, linkState. cbn [fst bumpId setRk rk nid stk unp]. split; [|repeat split].
  destruct (fsize_S (rk st)) as [f ->]. cbn [wrapIn]. replace (hasId id (rk st)) with true by (symmetry; apply hasId_In, Hi).
  unfold wrapLevel. rewrite Es, splitBeforeId_none. rewrite !app_nil_r. eexists _, _, _. reflexivity.
Qed.

Lemma updN_last st' pre L g : rk st' = pre ++ [L] -> forallb (idb (pid L)) pre = true ->
  rk (updN st' (pid L) g) = pre ++ [g L].
Proof.
  intros Er Hb. unfold updN. cbn [setRk rk]. rewrite Er. destruct (fsize_S (pre ++ [L])) as [f ->]. cbn [updNode].
  rewrite map_app. cbn [map]. rewrite Z.eqb_refl. f_equal.
  apply map_id_in. intros n Hn. rewrite forallb_forall in Hb. specialize (Hb n Hn).
  pose proof (idb_kids _ _ Hb) as Hk. rewrite idb_eq in Hb. apply andb_true_iff in Hb. destruct Hb as [Hb _].
  apply andb_true_iff in Hb. destruct Hb as [_ Hb]. apply Z.ltb_lt in Hb.
  destruct (Z.eqb_spec (pid n) (pid L)) as [E|E]; [lia|].
  rewrite (updNode_fresh (pid L) (pid L) g ltac:(lia) f _ Hk). apply setKids_same.
Qed.

Section LinkState.
  Variables (st0 : ist) (pre M : list pn) (kind : Z).
  Hypothesis Hpre : forallb (idb (nid st0)) pre = true.

  Lemma LS_upd T rf T' rf' g st' :
    (forall s e ind, exists s' e' ind', g (PN (nid st0) kind s e ind rf (M ++ T)) = PN (nid st0) kind s' e' ind' rf' (M ++ T')) ->
    linkState st0 pre M kind T rf st' -> linkState st0 pre M kind T' rf' (updN st' (nid st0) g).
  Proof.
    intros Hg ((s & e & ind & Er) & E2 & E3 & E4). split; [|repeat split; assumption].
    destruct (Hg s e ind) as (s' & e' & ind' & Eg). exists s', e', ind'.
    pose proof (updN_last st' pre _ g Er) as Hu. cbn [pid] in Hu. rewrite (Hu Hpre), Eg. reflexivity.
  Qed.
  Lemma LS_span T rf a b st' : linkState st0 pre M kind T rf st' ->
    linkState st0 pre M kind T rf (updN st' (nid st0) (fun n => setSpan n a b)).
  Proof. apply LS_upd. intros s e ind. eexists _, _, _. reflexivity. Qed.
  Lemma LS_spanRef T rf a b lab st' : linkState st0 pre M kind T rf st' ->
    linkState st0 pre M kind T lab (updN st' (nid st0) (fun n => setRef (setSpan n a b) lab)).
  Proof. apply LS_upd. intros s e ind. eexists _, _, _. reflexivity. Qed.
  Lemma LS_append T rf k st' : linkState st0 pre M kind T rf st' ->
    linkState st0 pre M kind (T ++ [k]) rf (appendKid st' (nid st0) k).
  Proof. unfold appendKid. apply LS_upd. intros s e ind. eexists _, _, _. cbn [setKids pkids]. rewrite <- app_assoc. reflexivity. Qed.
  Lemma LS_advanceTo T rf p st' : linkState st0 pre M kind T rf st' -> linkState st0 pre M kind T rf (advanceTo st' p).
  Proof. intros H. unfold advanceTo. destruct (0 <=? _); exact H. Qed.
End LinkState.

(* tail nodes *)
Definition tailNode (tw : bool) (t : pn) : Prop := isLinkPart (pkind t) = true /\ pid t = 0 /\ gk tw t = true.
Lemma isLinkPart_notcont k : isLinkPart k = true -> cont k = false /\ (k =? LinkKind) = false.
Proof.
  unfold isLinkPart. intros H. repeat (apply orb_true_iff in H; destruct H as [H|H]); apply Z.eqb_eq in H; subst k; split; reflexivity.
Qed.
Lemma tailNode_facts tw t : tailNode tw t -> cont (pkind t) = false /\ zid t = true /\ nl t = true.
Proof.
  intros (H1 & H2 & H3). destruct (isLinkPart_notcont _ H1) as [Hc Hl]. split; [exact Hc|].
  rewrite gk_eq, Hc in H3. apply andb_true_iff in H3. destruct H3 as [_ H3]. apply andb_true_iff in H3. destruct H3 as [_ H3].
  split; [rewrite zid_eq, H2, H3; reflexivity|]. rewrite nl_eq, Hl, Hc. reflexivity.
Qed.

Lemma len_snoc {A} (l : list A) x : len (l ++ [x]) = len l + 1.
Proof. rewrite len_app. reflexivity. Qed.

Lemma hasFlag_clear d : hasFlag (clearFlag d fActive) fActive = false.
Proof.
  unfold clearFlag. destruct (hasFlag d fActive) eqn:E; [|exact E].
  unfold hasFlag in *. cbn [d_flags]. unfold fActive in *. rewrite Z.div_1_r in *. apply negb_true_iff in E. apply Z.eqb_neq in E.
  apply negb_false_iff. apply Z.eqb_eq.
  pose proof (Z.mod_pos_bound (d_flags d) 2 ltac:(lia)) as Hb.
  assert (Hm : d_flags d mod 2 = 1) by lia.
  rewrite (Z.div_mod (d_flags d) 2) by lia. rewrite Hm. replace (2 * (d_flags d / 2) + 1 - 1) with ((d_flags d / 2) * 2) by lia.
  apply Z.mod_mul. lia.
Qed.

(* the deactivation pass of finishLink *)
Definition deact (odi : Z) (s : list delim) : list delim :=
  map (fun id : Z * delim => let '(i, d) := id in if (i <? odi) && (d_typ d =? tLink) then clearFlag d fActive else d)
      (combine (map Z.of_nat (seq 0 (length s))) s).
Lemma deact_gen odi : forall s a, (Z.of_nat a + len s <= odi) ->
  let r := map (fun id : Z * delim => let '(i, d) := id in if (i <? odi) && (d_typ d =? tLink) then clearFlag d fActive else d)
               (combine (map Z.of_nat (seq a (length s))) s) in
  sids r = sids s /\ forall d, In d r -> actLink d = false.
Proof.
  induction s as [|x s IH]; intros a Ha; cbn [length seq map combine]; [split; [reflexivity|intros d []]|].
  unfold len in Ha. cbn [length] in Ha.
  destruct (IH (S a)) as [I1 I2]; [unfold len; lia|]. cbn zeta in I1, I2. split.
  - cbn [sids map] in *. f_equal; [|exact I1]. destruct (_ && _); [|reflexivity]. unfold clearFlag. destruct (hasFlag x fActive); reflexivity.
  - intros d [Hd|Hd]; [|apply I2, Hd]. subst d. replace (Z.of_nat a <? odi) with true by (symmetry; apply Z.ltb_lt; lia). cbn [andb].
    unfold actLink. destruct (d_typ x =? tLink) eqn:Et; [|rewrite Et; reflexivity].
    replace (d_typ (clearFlag x fActive)) with (d_typ x) by (unfold clearFlag; destruct (hasFlag x fActive); reflexivity).
    rewrite Et, hasFlag_clear. reflexivity.
Qed.
Lemma deact_spec s : sids (deact (len s) s) = sids s /\ forall d, In d (deact (len s) s) -> actLink d = false.
Proof. apply (deact_gen (len s) s 0). lia. Qed.

Lemma splitAtId_filter id o : id <> o -> forall l,
  snd (splitAtId id (filter (fun n => negb (pid n =? o)) l)) = filter (fun n => negb (pid n =? o)) (snd (splitAtId id l)).
Proof.
  intros Hne. induction l as [|x l IH]; [reflexivity|]. cbn [filter splitAtId].
  destruct (Z.eqb_spec (pid x) o) as [Eo|Eo]; cbn [negb].
  - destruct (Z.eqb_spec (pid x) id) as [Ei|Ei]; [congruence|]. rewrite IH. destruct (splitAtId id l). reflexivity.
  - cbn [splitAtId]. destruct (Z.eqb_spec (pid x) id) as [Ei|Ei]; [reflexivity|].
    destruct (splitAtId id (filter (fun n => negb (pid n =? o)) l)) as [a b], (splitAtId id l) as [a' b']. cbn [snd] in *. exact IH.
Qed.

(* ---------------------------------------------------------------- finishLink *)
Section Finish.
  Variable tw : bool.
  Variable U : list inline.

  Lemma finishLink_MI st0 low od high kind pre M T rf st3 :
    MI tw U st0 -> stk st0 = low ++ od :: high ->
    (d_typ od = tLink \/ d_typ od = tImage) -> hasFlag od fActive = true ->
    kind = (if d_typ od =? tImage then ImageKind else LinkKind) ->
    splitAtId (d_node od) (rk st0) = (pre, M) ->
    linkState st0 pre M kind T rf st3 ->
    (T = [] \/ (tailShape tw T = true /\ rf = [])) -> Forall (tailNode tw) T ->
    MI tw U (finishLink st3 kind (len low)).
  Proof.
    intros HM Es Htyp Hact Ekind Esplit ((s3 & e3 & ind3 & Er3) & En3 & Es3 & Eu3) HT HTn.
    pose proof HM as [M1 M2 M3 M4 M5 M6 M7 M8 M9 M10].
    set (S := sids (stk st0)) in *.
    assert (ES : S = sids low ++ d_node od :: sids high) by (unfold S; rewrite Es, sids_app; reflexivity).
    set (X := sids (low ++ [od])). set (H := sids high).
    assert (EX : X = sids low ++ [d_node od]) by (unfold X; rewrite sids_app; reflexivity).
    assert (ESXH : S = X ++ H) by (rewrite ES, EX, <- app_assoc; reflexivity).
    assert (Hod : In (d_node od) (ids (rk st0))).
    { apply (al_In S _ _ M6). rewrite ES. apply in_or_app. right. left. reflexivity. }
    destruct (splitAtId_spec _ _ _ _ Esplit Hod) as (A & nb & Epre & Enb & HodA & Erk).
    (* kinds *)
    assert (HK : (kind = LinkKind \/ kind = ImageKind) /\ (kind = LinkKind -> actLink od = true)).
    { subst kind. destruct Htyp as [Et|Et]; rewrite Et; cbn; split; try tauto.
      - intros _. unfold actLink. rewrite Et, Hact. reflexivity.
      - intros Hx. discriminate. }
    destruct HK as [HK HKact].
    assert (Kc : cont kind = true /\ isLI kind = true /\ phrasing kind = true /\ negb (kind =? UnparsedKind) = true)
      by (destruct HK as [-> | ->]; repeat split; reflexivity).
    destruct Kc as (Kc & Ki & Kp & Ku).
    (* where the stack identities sit *)
    assert (Hal : fl S (ids A) ++ d_node od :: fl S (ids M) = sids low ++ d_node od :: sids high).
    { rewrite <- ES. rewrite <- M6 at 3. rewrite Erk, ids_app. cbn [ids map]. rewrite Enb.
      change (d_node od :: map pid M) with ([d_node od] ++ ids M). rewrite !fl_app, fl_one_in; [reflexivity|].
      rewrite ES. apply in_or_app. right. left. reflexivity. }
    pose proof M5 as N5. fold S in N5. rewrite ES in N5. destruct (NoDup_mid_notin _ _ _ N5) as [HodL HodH].
    destruct (split_unique _ _ _ _ _ Hal) as [F1 F2]; [intros Hi; apply fl_In in Hi; tauto|exact HodL|].
    assert (Hdisj : forall x, In x (sids low) -> In x (sids high) -> False).
    { intros x H1 H2. apply (NoDup_app_disj _ _ x N5 H1). right. exact H2. }
    assert (HsubH : forall x, In x H -> In x S) by (intros x Hx; rewrite ESXH; apply in_or_app; right; exact Hx).
    assert (HsubX : forall x, In x X -> In x S) by (intros x Hx; rewrite ESXH; apply in_or_app; left; exact Hx).
    assert (HXH : forall x, In x X -> In x H -> False).
    { intros x H1 H2. rewrite EX in H1. apply in_app_or in H1. destruct H1 as [H1|[H1|[]]]; [exact (Hdisj x H1 H2)|]. subst x. exact (HodH H2). }
    assert (G2 : fl X (ids M) = []).
    { apply fl_nil_iff. intros x Hx HxX. assert (Hi : In x (fl S (ids M))) by (apply fl_In; split; [exact Hx|apply HsubX, HxX]).
      rewrite F2 in Hi. exact (HXH x HxX Hi). }
    assert (G3 : fl H (ids M) = H).
    { rewrite (fl_sub H S (ids M) HsubH), F2. apply fl_all. tauto. }
    assert (G1 : fl H (ids pre) = []).
    { apply fl_nil_iff. intros x Hx HxH. rewrite Epre, ids_app in Hx. cbn [ids map] in Hx. rewrite Enb in Hx.
      apply in_app_or in Hx. destruct Hx as [Hx|[Hx|[]]].
      - assert (Hi : In x (fl S (ids A))) by (apply fl_In; split; [exact Hx|apply HsubH, HxH]). rewrite F1 in Hi. exact (Hdisj x Hi HxH).
      - subst x. exact (HodH HxH). }
    assert (Hnid : ~ In (nid st0) S) by (intros Hi; apply M4 in Hi; lia).
    (* tail facts *)
    assert (HTf : forall t, In t T -> cont (pkind t) = false /\ zid t = true /\ nl t = true /\ pid t = 0 /\ gk tw t = true).
    { intros t Ht. rewrite Forall_forall in HTn. specialize (HTn t Ht). destruct (tailNode_facts tw t HTn) as (A1 & A2 & A3).
      destruct HTn as (_ & A4 & A5). tauto. }
    assert (HidsT : forall x, In x (ids T) -> x = 0).
    { intros x Hx. unfold ids in Hx. apply in_map_iff in Hx. destruct Hx as (t & <- & Ht). apply HTf, Ht. }
    assert (H0S : ~ In 0 S) by (intros Hi; apply M4 in Hi; lia).
    assert (HflT : forall Y, (forall x, In x Y -> In x S) -> fl Y (ids T) = []).
    { intros Y HY. apply fl_nil_iff. intros x Hx HxY. apply HidsT in Hx. subst x. apply H0S, HY, HxY. }
    (* the pieces of the old root level *)
    rewrite Erk in M3, M7, M8, M9. rewrite forallb_app in M3, M7, M8, M9. cbn [forallb] in M3, M7, M8, M9.
    apply andb_true_iff in M3, M7, M8, M9. destruct M3 as [IA M3], M7 as [PA M7], M8 as [GA M8], M9 as [LA M9].
    apply andb_true_iff in M3, M7, M8, M9. destruct M3 as [Inb IM], M7 as [Pnb PM], M8 as [Gnb GM], M9 as [Lnb LM].
    assert (Ipre : forallb (idb (nid st0)) pre = true) by (rewrite Epre, forallb_app; cbn [forallb]; rewrite IA, Inb; reflexivity).
    assert (Ppre : forallb phr pre = true) by (rewrite Epre, forallb_app; cbn [forallb]; rewrite PA, Pnb; reflexivity).
    assert (Gpre : forallb (gk tw) pre = true) by (rewrite Epre, forallb_app; cbn [forallb]; rewrite GA, Gnb; reflexivity).
    assert (Lpre : forallb (lvs S []) pre = true) by (rewrite Epre, forallb_app; cbn [forallb]; rewrite LA, Lnb; reflexivity).
    (* no link below an active link opener *)
    assert (NLM : kind = LinkKind -> forallb nl M = true).
    { intros Hk. specialize (M10 od ltac:(rewrite Es; apply in_or_app; right; left; reflexivity) (HKact Hk)).
      rewrite Esplit in M10. exact M10. }
    set (L := PN (nid st0) kind s3 e3 ind3 rf (M ++ T)) in *.
    (* grammar and position of the wrapper *)
    assert (PT_nl : forallb nl T = true) by (apply forallb_forall; intros t Ht; apply HTf, Ht).
    assert (GT : forallb (gk tw) T = true) by (apply forallb_forall; intros t Ht; apply HTf, Ht).
    assert (ZT : forallb zid T = true) by (apply forallb_forall; intros t Ht; apply HTf, Ht).
    assert (LT : forall Y Z0, forallb (lvs Y Z0) T = true).
    { intros Y Z0. apply forallb_forall. intros t Ht. rewrite lvs_eq. destruct (HTf t Ht) as (Hc & _). rewrite Hc. reflexivity. }
    assert (HbodyT : bodyTail tw (M ++ T) = true).
    { apply bodyTail_build; [exact PM|]. destruct HT as [->|[HT _]]; [reflexivity|apply tailShape_bodyTail, HT]. }
    assert (HgkL : gk tw L = true).
    { unfold L. cbn [gk]. rewrite Ku, Kc. unfold lvlG. rewrite Ki, HbodyT. cbn [andb].
      apply andb_true_iff. split; [apply andb_true_iff; split|].
      - destruct HT as [->|[_ ->]]; [rewrite app_nil_r, PM; apply orb_true_r|reflexivity].
      - destruct HK as [Hk|Hk]; [|rewrite Hk; reflexivity]. rewrite forallb_app, (NLM Hk), PT_nl. apply orb_true_r.
      - rewrite forallb_app, GM, GT. reflexivity. }
    assert (HlvsL : lvs X H L = true).
    { unfold L. cbn [lvs]. rewrite Kc. rewrite ids_app, !fl_app, G2, (HflT X HsubX). cbn [app nilb andb].
      rewrite forallb_app, (LT X H), andb_true_r. apply andb_true_iff. split.
      - apply lpb_spec. right. rewrite !fl_app, G2, G3, (HflT X HsubX), (HflT H HsubH), !app_nil_r. split; reflexivity.
      - apply lvsF_split. rewrite <- ESXH. exact LM. }
    assert (HP3 : PEI tw X H st3).
    { constructor.
      - lia.
      - rewrite En3, Er3, forallb_app. cbn [forallb]. rewrite (idbF_mono (nid st0) (nid st0 + 1) pre ltac:(lia) Ipre). cbn [andb]. rewrite andb_true_r.
        unfold L. cbn [idb]. replace (0 <=? nid st0) with true by (symmetry; apply Z.leb_le; lia).
        replace (nid st0 <? nid st0 + 1) with true by (symmetry; apply Z.ltb_lt; lia). cbn [andb].
        rewrite forallb_app, (idbF_mono (nid st0) (nid st0 + 1) M ltac:(lia) IM). apply zidF_idbF; [lia|exact ZT].
      - intros x Hx. specialize (M4 x (HsubH x Hx)). lia.
      - intros x Hx. specialize (M4 x (HsubX x Hx)). lia.
      - unfold H. apply NoDup_app_r in N5. inversion N5; assumption.
      - rewrite Er3. repeat split.
        + apply lpb_spec. left. rewrite ids_app, fl_app, G1. unfold L. cbn [ids map pid app]. apply fl_one_out. intros Hi. apply Hnid, HsubH, Hi.
        + rewrite forallb_app. cbn [forallb]. rewrite HlvsL, andb_true_r. apply lvsF_split. rewrite <- ESXH. exact Lpre.
        + unfold lvlG. cbn [isLI Z.eqb orb]. rewrite forallb_app, Ppre. cbn [forallb]. unfold phr, L. cbn [pkind]. rewrite Kp. reflexivity.
        + rewrite forallb_app, Gpre. cbn [forallb]. rewrite HgkL. reflexivity. }
    (* processEmphasis above the opener *)
    assert (Es3' : stk st3 = (low ++ [od]) ++ high) by (rewrite Es3, Es, <- app_assoc; reflexivity).
    destruct (processEmphasis_PEI tw (low ++ [od]) high st3 Es3' HP3) as (EsA & HPA & OA & FA).
    rewrite len_snoc in *.
    assert (FA' : RF (rk st3) (rk (processEmphasis st3 (len low + 1)))).
    { apply FA. change (sids high) with H. rewrite Er3, ids_app, fl_app, G1. unfold L. cbn [ids map pid app]. apply fl_one_out. intros Hi. apply Hnid, HsubH, Hi. }
    clear FA.
    unfold finishLink.
    assert (Ebr : d_node (nthD (stk st3) (len low)) = d_node od) by (rewrite Es3, Es, nthD_app_len; reflexivity).
    rewrite Ebr.
    set (stA := processEmphasis st3 (len low + 1)) in *.
    destruct HPA as [A1 A2 _ A4 _ (_ & A6 & A7 & A8)]. fold stA in A1, A2, A4, A6, A7, A8. fold X in A4, A6.
    destruct OA as (_ & OAu & _ & _ & _ & _ & OAn). fold stA in OAu, OAn.
    assert (EidsA : ids (rk stA) = ids A ++ [d_node od] ++ [nid st0]).
    { rewrite (RF_ids _ _ FA'), Er3, Epre, !ids_app. unfold L. cbn [ids map pid]. rewrite Enb, <- app_assoc. reflexivity. }
    set (keep := fun n : pn => negb (pid n =? d_node od)).
    assert (ErkB : rk (removeNode stA (d_node od)) = filter keep (rk stA)).
    { unfold removeNode. cbn [setRk rk]. destruct (fsize_S (rk stA)) as [f ->]. cbn [removeId].
      replace (hasId (d_node od) (rk stA)) with true; [reflexivity|]. symmetry. apply hasId_In. rewrite EidsA.
      apply in_or_app. right. left. reflexivity. }
    assert (Hfin : forall stF, unp stF = unp stA -> nid stF = nid stA -> rk stF = filter keep (rk stA) ->
              sids (stk stF) = sids low ->
              (forall d, In d (stk stF) -> actLink d = true -> kind <> LinkKind /\ In d low) -> MI tw U stF).
    { intros stF E1 E2 E3 E4 E5.
      assert (Hsub : forall (P : pn -> bool), forallb P (rk stA) = true -> forallb P (rk stF) = true).
      { intros P HPp. rewrite E3. rewrite forallb_forall in *. intros x Hx. apply filter_In in Hx. apply HPp. tauto. }
      assert (HlowX : forall x, In x (sids low) -> In x X) by (intros x Hx; rewrite EX; apply in_or_app; left; exact Hx).
      constructor; rewrite ?E1, ?E2, ?E4.
      - rewrite OAu, Eu3. exact M1.
      - exact A1.
      - apply Hsub. exact A2.
      - intros x Hx. specialize (M4 x (HsubX x (HlowX x Hx))). lia.
      - apply (NoDup_app_l _ _ N5).
      - rewrite E3. unfold keep. rewrite ids_filter, fl_filter_ne by exact HodL. rewrite EidsA, !fl_app.
        rewrite (fl_one_out (sids low) (d_node od) HodL).
        rewrite (fl_one_out (sids low) (nid st0)) by (intros Hi; apply Hnid, HsubX, HlowX, Hi).
        rewrite (fl_sub (sids low) S (ids A)) by (intros x Hx; apply HsubX, HlowX, Hx). rewrite F1, !app_nil_r. apply fl_all. tauto.
      - apply Hsub. exact A7.
      - apply Hsub. exact A8.
      - apply Hsub. apply (lvsF_sub X); [exact HlowX|exact A6].
      - intros d Hd Ha. destruct (E5 d Hd Ha) as [Hkl Hdl].
        assert (Hdne : d_node d <> d_node od).
        { intros Heq. apply HodL. rewrite <- Heq. unfold sids. apply in_map. exact Hdl. }
        rewrite E3. unfold keep. rewrite (splitAtId_filter _ _ Hdne).
        assert (Hnl : forallb nl (snd (splitAtId (d_node d) (rk stA))) = true).
        { apply (RF_nl _ _ (proj2 (RF_splitAt (d_node d) _ _ FA'))).
          assert (HdA : In (d_node d) (ids pre)).
          { rewrite Epre, ids_app. apply in_or_app. left.
            assert (Hi : In (d_node d) (fl S (ids A))) by (rewrite F1; unfold sids; apply in_map; exact Hdl).
            apply fl_In in Hi. tauto. }
          rewrite Er3, (splitAtId_app_in _ _ _ HdA). cbn [snd]. rewrite forallb_app. cbn [forallb].
          specialize (M10 d ltac:(rewrite Es; apply in_or_app; left; exact Hdl) Ha).
          rewrite Erk in M10. replace (A ++ nb :: M) with (pre ++ M) in M10 by (rewrite Epre, <- app_assoc; reflexivity).
          rewrite (splitAtId_app_in _ _ _ HdA) in M10. cbn [snd] in M10. rewrite forallb_app in M10.
          apply andb_true_iff in M10. destruct M10 as [N1 N2]. rewrite N1. cbn [andb]. rewrite andb_true_r.
          unfold L. cbn [nl]. rewrite Kc. replace (kind =? LinkKind) with false by (symmetry; apply Z.eqb_neq; exact Hkl).
          rewrite forallb_app, N2, PT_nl. reflexivity. }
        rewrite forallb_forall in *. intros x Hx. apply filter_In in Hx. apply Hnl. tauto. }
    assert (Edel : delStack (stk (removeNode stA (d_node od))) (len low) (len low + 1) = low).
    { rewrite stk_removeNode, EsA. pose proof (delStack_app3 low [od] []) as Hd. rewrite !app_nil_r in Hd. exact Hd. }
    rewrite Edel. rewrite !stk_setStk.
    destruct (Z.eqb_spec kind LinkKind) as [Hkl|Hkl].
    - fold (deact (len low) low). destruct (deact_spec low) as [D1 D2].
      apply Hfin; try reflexivity; try exact ErkB; try exact D1.
      intros d Hd0 Ha. cbn [stk setStk] in Hd0. rewrite (D2 d Hd0) in Ha. discriminate.
    - apply Hfin; try reflexivity; try exact ErkB.
      intros d Hd0 Ha. cbn [stk setStk] in Hd0. split; assumption.
  Qed.
End Finish.
