From Coq Require Import List ZArith Lia Bool.
Import ListNotations.
Require Import LADef.
Require Import Base Tree Rdr Link Collect Html Recog LP Rules Starts Driver Rec16 Rec17 Rec18 RecBounds Cursor CursorX L2Kind SpanSmall NoPanic12
  EolInv EolHtmlInv EolCRDefs EolCRBytes EolCRLFDefs EolCRLFSimBytes EolCRLFSimTree EolCRLFSimLP EolCRLFSimRules EolCRLFSimStarts ShEnv EolCRLFSimFuel EolCRLFSimLine L2CC EolCRLFGenHyp EolCRLFGenLP EolCRLFGenRules EolCRLFGenStarts.
Open Scope Z_scope.

Section GenLine.
  Context {O : OcpHyp}.

(* C14 (ii), CRLF clause, inputs without '[': openNewBlocks, addLineText, processLine. *)

Definition startCG (f : lp -> lp) : Prop := forall p q, CG O p q -> G p -> st_open p -> ccP p -> CG O (f p) (f q).
Lemma blockStarts_CG : Forall startCG blockStarts.
Proof.
  unfold blockStarts.
  apply Forall_cons; [intros p q H HG _ _; apply CG_startBlockQuote; assumption|]. apply Forall_cons; [intros p q H HG Hs _; apply CG_startATX; assumption|].
  apply Forall_cons; [intros p q H HG Hs _; apply CG_startFenced; assumption|].
  apply Forall_cons; [intros p q H HG Hs _; apply CG_startHTML; assumption|]. apply Forall_cons; [intros p q H _ Hs Hc; apply CG_startSetext; assumption|].
  apply Forall_cons; [intros p q H HG Hs _; apply CG_startThematic; assumption|].
  apply Forall_cons; [intros p q H HG _ _; apply CG_startListItem; assumption|]. apply Forall_cons; [intros p q H _ _ _; apply CG_startIndented, H|]. apply Forall_nil.
Qed.

Lemma CG_tryStarts : forall fs p q, Forall startCG fs -> Forall startOKG fs -> Forall startOKc fs -> CG O p q -> G p -> ccP p -> CG2 O (tryStarts fs p) (tryStarts fs q).
Proof.
  induction fs as [|f r IH]; intros p q Hs Hg Hc H HG HC; [split; [reflexivity|exact H]|]. cbn [tryStarts]. cbv zeta.
  pose proof (Forall_inv Hs) as Hf. pose proof (Forall_inv_tail Hs) as Hr. pose proof (Forall_inv Hg) as Gf. pose proof (Forall_inv_tail Hg) as Gr.
  pose proof (Forall_inv Hc) as Cf. pose proof (Forall_inv_tail Hc) as Cr.
  assert (So : st_open (withState p stOpening)) by (left; reflexivity).
  assert (H1 : CG O (f (withState p stOpening)) (f (withState q stOpening))) by (apply Hf; [apply CG_withState, H|exact HG|exact So|exact HC]).
  assert (G1 : G (f (withState p stOpening))) by (apply Gf; exact HG).
  assert (C1 : ccP (f (withState p stOpening))) by (apply Cf; [exact So|exact HC]).
  rewrite (CG_state _ _ H1). destruct (_ || _); [split; [reflexivity|exact H1]|]. apply IH; assumption.
Qed.

Lemma CG_opening_loop : forall fuel p q, CG O p q -> G p -> ccP p -> CG2 O (opening_loop fuel p) (opening_loop fuel q).
Proof.
  induction fuel as [|f IH]; intros p q H HG HC; [split; [reflexivity|exact H]|]. cbn [opening_loop].
  rewrite (CG_containerKind p q H). destruct (_ || _); [|split; [reflexivity|exact H]].
  pose proof (CG_tryStarts blockStarts p q blockStarts_CG blockStarts_okG blockStarts_okc H HG HC) as H1.
  pose proof (G_tryStarts blockStarts p blockStarts_okG HG) as G1.
  pose proof (ccP_tryStarts blockStarts p blockStarts_okc HC) as C1.
  destruct (tryStarts blockStarts p) as [b p1]. destruct (tryStarts blockStarts q) as [b' q1]. destruct H1 as [E H1]. cbn [fst snd] in E, H1, G1, C1. subst b'.
  destruct b; [|split; [reflexivity|exact H1]]. rewrite (CG_state p1 q1 H1). destruct (_ =? stLineConsumed); [split; [reflexivity|exact H1]|].
  apply IH; assumption.
Qed.

Lemma CG_deferredClose p q : CG O p q -> CG O (deferredClose p) (deferredClose q).
Proof.
  intros H. unfold deferredClose. cbv zeta. rewrite (CG_isRestBlank p q H), (CG_bheight p q H).
  assert (Et : tipDepth (bheight (root p)) (root q) = tipDepth (bheight (root p)) (root p)).
  { replace (root q) with (phiB (source p) (root p)) by (symmetry; apply H). apply tipDepth_M. }
  rewrite Et, (CG_getAt p q _ H).
  assert (Eb : match option_map (phiB (source p)) (getAt (tipDepth (bheight (root p)) (root p)) (root p)) with Some t => bkind t =? ParagraphKind | None => false end =
               match getAt (tipDepth (bheight (root p)) (root p)) (root p) with Some t => bkind t =? ParagraphKind | None => false end).
  { destruct (getAt _ (root p)); cbn [option_map]; [rewrite bkind_M|]; reflexivity. }
  rewrite Eb. destruct (negb _ && _); [apply CG_withCont, H|]. rewrite (CG_cdepth p q H), (CG_ls p q H). apply CG_closeLastChildAt; [exact H|apply (CG_ls0 p q H)].
Qed.

Lemma len_crlf_zero l : (len (crlf l) =? 0) = (len l =? 0).
Proof.
  rewrite len_crlf. pose proof (count10_nonneg l). pose proof (len_nonneg l).
  destruct (Z.eqb_spec (len l) 0) as [E|E]; [|apply Z.eqb_neq; lia].
  destruct l; [reflexivity|rewrite len_cons in E; pose proof (len_nonneg l); lia].
Qed.

Lemma CG_openNewBlocks p q am : CG O p q -> G p -> ccP p ->
  opening_loop (S (length (crlf (line p)))) p = opening_loop (S (length (line p))) p ->
  CG2 O (openNewBlocks p am) (openNewBlocks q am).
Proof.
  intros H HG HC Hf. unfold openNewBlocks.
  assert (Elq : line q = crlf (line p)) by apply H. rewrite Elq, len_crlf_zero.
  destruct (len (line p) =? 0).
  - split; [reflexivity|]. cbn [snd]. apply CG_withCont.
    assert (S13 : ~ In 13 (source p)) by apply H. assert (HP : PEH O (source p) (root p)) by apply H. destruct HP as [HL HP].
    assert (Hnn : nnB (root p) = true) by apply H. assert (Ls0 : 0 <= lineStart p) by apply H.
    rewrite (CG_src p q H), (CG_bheight p q H), (CG_ls p q H).
    replace (root q) with (phiB (source p) (root p)) by (symmetry; apply H).
    destruct (closeBlock_Mg O (source p) S13 HL (lineStart p) (bheight (root p)) (root p) Hnn (peB_weak O _ _ HP)) as [A Hc]. rewrite A.
    pose proof (peB_closeBlock O (source p) (lineStart p) Ls0 (bheight (root p)) (root p) HP) as Hq.
    destruct (closeBlock (bheight (root p)) (source p) (root p) (lineStart p)) as [|b r]; cbn [map].
    + apply CG_withRoot; assumption.
    + apply CG_withRoot; [exact H| |apply Hq]. cbn [forallb] in Hc. apply andb_true_iff in Hc. apply Hc.
  - pose proof (CG_opening_loop (S (length (crlf (line p)))) p q H HG HC) as H1. rewrite Hf in H1.
    pose proof (G_opening_loop (S (length (line p))) p HG) as G1.
    destruct (opening_loop (S (length (line p))) p) as [ht p1]. destruct (opening_loop (S (length (crlf (line p)))) q) as [ht' q1].
    destruct H1 as [E H1]. cbn [fst snd] in E, H1, G1. subst ht'.
    destruct am; split; cbn [fst snd]; try reflexivity; [exact H1|apply CG_deferredClose, H1].
Qed.

(* ---- addLineText ---- *)
Definition goT (p : lp) : lp :=
  let k := containerKind p in
  let inlineKind := if isCode k then TextKind else if k =? HTMLBlockKind then RawHTMLKind else UnparsedKind in
  let p := updCont p (fun b => set_bik b (bik b ++ [mkI inlineKind (lineStart p + li p) (lineStart p + len (line p))])) in
  if isCode k && negb (hasByteSuffixEOL (line p)) then
    updCont p (fun b => set_bik b (bik b ++ [mkI SoftLineBreakKind (lineStart p + len (line p)) (lineStart p + len (line p))]))
  else p.
Definition markBlank (b : block) : block := match lastBlock b with Some c => set_lastBlocks b [set_blast c true] | None => b end.
Definition addLineText' (p : lp) : lp :=
  let isBlank := isRestBlank p in
  let p := if isBlank then updCont p markBlank else p in
  let cb := contBlock p in
  let k := bkind cb in
  let llb := isBlank && negb ((k =? BlockQuoteKind) || (k =? FencedCodeBlockKind) ||
                              ((k =? ListItemKind) && (childCount cb =? 1) && (lineStart p <=? bstart cb))) in
  let p := withRoot p (setLastBlankUpTo (cdepth p) llb (root p)) in
  if acceptsLines k then
    let p :=
      if (li p <? len (line p)) && (at_ (line p) (li p) =? 9) && (0 <? tabRem p) && (tabRem p <? 4) then
        let p := updCont p (fun b => set_bik b (bik b ++ [Inl IndentKind (lineStart p + li p) (lineStart p + li p + 1) (tabRem p) [] []])) in
        consumeIndent p (tabRem p)
      else p in
    goT p
  else if negb isBlank then
    let p := openBlock p ParagraphKind in
    let p := consumeIndent p (indent p) in
    goT p
  else p.
Lemma addLineText_eq p : addLineText p = addLineText' p. Proof. unfold addLineText, addLineText', goT, markBlank. cbv zeta. reflexivity. Qed.

Lemma CG_end_pos p q : CG O p q -> lineStart q + len (line q) = phiP (source p) (lineStart p + len (line p)).
Proof.
  intros H. cgsplit H. flds. rewrite (pos_id S ls ln (len ln) Ls0 Eln (len_nonneg ln)), phiP_all. reflexivity.
Qed.

(* the weak relation of the final phase of addLineText: entries have been appended to the container, possibly an open
   paragraph, so the entry predicate of CG is gone; everything else still holds (stated by swapping in a good root) *)
Definition CW (p q : lp) : Prop :=
  exists rt0, CG O (withRoot p rt0) (withRoot q (phiB (source p) rt0)) /\ root q = phiB (source p) (root p) /\ nnB (root p) = true.
Lemma CG_CW p q : CG O p q -> CW p q.
Proof.
  intros H. exists (root p). assert (Er : root q = phiB (source p) (root p)) by apply H. split; [|split; [exact Er|apply H]]. rewrite <- Er.
  replace (withRoot p (root p)) with p by (destruct p; reflexivity). replace (withRoot q (root q)) with q by (destruct q; reflexivity). exact H.
Qed.
Lemma consumeIndent_loop_withRoot r : forall fuel p n, consumeIndent_loop fuel (withRoot p r) n = withRoot (consumeIndent_loop fuel p n) r.
Proof.
  induction fuel as [|f IH]; intros p n; [reflexivity|]. cbn [consumeIndent_loop]. destruct (n <=? 0); [reflexivity|]. cbv zeta.
  destruct p as [S0 rt cont ls ln i cl tr st pn]. unfold withRoot, withState, withCursor, panic, setLP.
  cbn [source root container lineStart line li col tabRem state panicked].
  destruct (st =? stOpening); cbn [source root container lineStart line li col tabRem state panicked];
  (destruct ((i <? len ln) && (at_ ln i =? 32)); [apply (IH {| source := S0; root := rt; container := cont; lineStart := ls; line := ln; li := i + 1; col := cl + 1; tabRem := computeTabRem ln (i + 1) (cl + 1); state := _; panicked := pn |})|];
   destruct ((i <? len ln) && (at_ ln i =? 9)); [|reflexivity]; destruct (n <? tr); [reflexivity|];
   apply (IH {| source := S0; root := rt; container := cont; lineStart := ls; line := ln; li := i + 1; col := cl + tr; tabRem := computeTabRem ln (i + 1) (cl + tr); state := _; panicked := pn |})).
Qed.
Lemma consumeIndent_withRoot p r n : consumeIndent (withRoot p r) n = withRoot (consumeIndent p n) r.
Proof. unfold consumeIndent. change (line (withRoot p r)) with (line p). apply consumeIndent_loop_withRoot. Qed.
Lemma CW_consumeIndent p q n : CW p q -> CW (consumeIndent p n) (consumeIndent q n).
Proof.
  intros (rt0 & H & Er & Hn). exists rt0. pose proof (CG_consumeIndent _ _ n H) as H1. rewrite !consumeIndent_withRoot in H1.
  destruct (same_consumeIndent p n) as [A _]. destruct (same_consumeIndent q n) as [A' _].
  pose proof (env_consumeIndent p n) as Ee. unfold envOf in Ee. injection Ee as E1 _ _. rewrite E1, A, A'. split; [exact H1|split; assumption].
Qed.
Lemma CW_updCont p q f f' : CW p q -> (forall b, nnB b = true -> phiB (source p) (f b) = f' (phiB (source p) b)) ->
  (forall b, nnB b = true -> nnB (f b) = true) -> CW (updCont p f) (updCont q f').
Proof.
  intros (rt0 & H & Er & Hn) Hf Hg. exists rt0. split; [exact H|].
  assert (Ec : cdepth q = cdepth p) by (apply (CG_cdepth _ _ H)).
  unfold updCont. cbn [root source withRoot setLP]. rewrite Ec, Er. split; [symmetry; apply updAt_Mc; assumption|apply nnB_updAt; assumption].
Qed.
Lemma CW_pos p q : CW p q -> lineStart q + li q = phiP (source p) (lineStart p + li p) /\
  lineStart q + len (line q) = phiP (source p) (lineStart p + len (line p)) /\ 0 <= lineStart p /\ 0 <= li p <= len (line p) /\ line q = crlf (line p).
Proof.
  intros (rt0 & H & _). split; [exact (CG_pos _ _ H)|]. split; [exact (CG_end_pos _ _ H)|]. split; [apply H|]. split; [apply H|apply H].
Qed.
Lemma CW_containerKind p q : CW p q -> containerKind q = containerKind p.
Proof.
  intros (rt0 & H & Er & _). unfold containerKind, contBlock. rewrite (CG_cdepth _ _ H : cdepth q = cdepth p), Er, getAt_M.
  destruct (getAt (cdepth p) (root p)); cbn [option_map]; [apply bkind_M|reflexivity].
Qed.
Lemma CW_append p q u u' : CW p q -> u' = phiI (source p) u -> 0 <= istart u ->
  CW (updCont p (fun b => set_bik b (bik b ++ [u]))) (updCont q (fun b => set_bik b (bik b ++ [u']))).
Proof.
  intros H -> Hu. apply CW_updCont; [exact H| |].
  - intros b _. rewrite M_set_bik, map_app, bik_M. reflexivity.
  - intros b Hb. apply nnB_append; assumption.
Qed.
Lemma CW_goT p q : CW p q -> CW (goT p) (goT q).
Proof.
  intros H. unfold goT. cbv zeta. rewrite (CW_containerKind p q H). destruct (CW_pos p q H) as (P1 & P2 & Ls0 & Li & El).
  set (ik := if isCode (containerKind p) then TextKind else if containerKind p =? HTMLBlockKind then RawHTMLKind else UnparsedKind).
  assert (H1 : CW (updCont p (fun b => set_bik b (bik b ++ [mkI ik (lineStart p + li p) (lineStart p + len (line p))])))
                  (updCont q (fun b => set_bik b (bik b ++ [mkI ik (lineStart q + li q) (lineStart q + len (line q))])))).
  { apply CW_append; [exact H| |cbn [mkI istart]; lia]. rewrite P1, P2. reflexivity. }
  assert (Eh : hasByteSuffixEOL (line (updCont q (fun b => set_bik b (bik b ++ [mkI ik (lineStart q + li q) (lineStart q + len (line q))])))) =
               hasByteSuffixEOL (line (updCont p (fun b => set_bik b (bik b ++ [mkI ik (lineStart p + li p) (lineStart p + len (line p))]))))).
  { change (hasByteSuffixEOL (line q) = hasByteSuffixEOL (line p)). rewrite El. apply hasByteSuffixEOL_crlf. }
  rewrite Eh. destruct (isCode _ && negb _); [|exact H1].
  apply CW_append; [exact H1| |cbn [mkI istart]; change (0 <= lineStart p + len (line p)); pose proof (len_nonneg (line p)); lia].
  change (mkI SoftLineBreakKind (lineStart q + len (line q)) (lineStart q + len (line q)) = phiI (source p) (mkI SoftLineBreakKind (lineStart p + len (line p)) (lineStart p + len (line p)))).
  rewrite P2. reflexivity.
Qed.

Lemma leb_phi R a b : (phiP R a <=? phiP R b) = (a <=? b).
Proof.
  destruct (Z.leb_spec a b) as [L|L]; [apply Z.leb_le, phiP_mono, L|apply Z.leb_gt, phiP_lt, L].
Qed.
Lemma markBlank_M S b : phiB S (markBlank b) = markBlank (phiB S b).
Proof.
  unfold markBlank. rewrite lastBlock_M. destruct (lastBlock b) as [c|]; cbn [option_map]; [|reflexivity].
  rewrite M_set_lastBlocks. cbn [map]. rewrite M_set_blast. reflexivity.
Qed.
Lemma nnB_markBlank b : nnB b = true -> nnB (markBlank b) = true.
Proof.
  intros H. unfold markBlank. destruct (lastBlock b) as [c|] eqn:El; [|exact H]. apply nnB_set_lastBlocks; [exact H|].
  cbn [forallb]. rewrite andb_true_r. pose proof (nnB_lastBlock b c H El) as Hc. destruct c; exact Hc.
Qed.
Lemma slb_M R v : forall d r, nnB r = true -> phiB R (setLastBlankUpTo d v r) = setLastBlankUpTo d v (phiB R r) /\ nnB (setLastBlankUpTo d v r) = true.
Proof.
  assert (Hu : forall d r, nnB r = true -> phiB R (updAt d (fun b => set_blast b v) r) = updAt d (fun b => set_blast b v) (phiB R r) /\ nnB (updAt d (fun b => set_blast b v) r) = true).
  { intros d r Hr. split; [apply updAt_Mc; [intros b _; apply M_set_blast|exact Hr]|apply nnB_updAt; [intros b Hb; destruct b; exact Hb|exact Hr]]. }
  induction d as [|d IH]; intros r Hr; cbn [setLastBlankUpTo]; [apply Hu, Hr|].
  destruct (Hu (S d) r Hr) as [A B]. destruct (IH _ B) as [C D]. split; [rewrite C, A; reflexivity|exact D].
Qed.

Lemma CG_tabcond p q : CG O p q ->
  ((li q <? len (line q)) && (at_ (line q) (li q) =? 9) && (0 <? tabRem q) && (tabRem q <? 4)) =
  ((li p <? len (line p)) && (at_ (line p) (li p) =? 9) && (0 <? tabRem p) && (tabRem p <? 4)) /\
  ((li p <? len (line p)) && (at_ (line p) (li p) =? 9) = true ->
     tabRem q = tabRem p /\ li q = li p /\ lineStart q + li q + 1 = phiP (source p) (lineStart p + li p + 1)).
Proof.
  intros H. pose proof (CG_pos p q H) as Hpos. cgsplit H. flds. cbv beta iota delta [lineStart li line source] in Hpos.
  destruct (Z.ltb_spec i (len ln)) as [L|L].
  - pose proof (lt_blen ln i Lok L) as Hb. destruct (Ect Hb) as [-> ->]. rewrite (phiP_blen ln i Lok Hb) in *.
    rewrite (at_test ln i 9 Lok ltac:(lia)) by discriminate.
    replace (i <? len (crlf ln)) with true by (symmetry; apply Z.ltb_lt; rewrite len_crlf; pose proof (count10_nonneg ln); lia).
    split; [reflexivity|]. cbn [andb]. intros E9. split; [reflexivity|]. split; [reflexivity|].
    assert (Hx : i + 1 <= blen ln).
    { destruct (Z.eq_dec i (blen ln)) as [E|N]; [|lia]. exfalso. subst i. apply Z.eqb_eq in E9.
      destruct (at_blen_end ln Lok) as [(A & _)|(A & _)]; rewrite A in E9; discriminate. }
    replace (ls + i + 1) with (ls + (i + 1)) by lia. rewrite (pos_id S ls ln (i + 1) Ls0 Eln) by lia. rewrite (phiP_blen ln (i + 1) Lok Hx). lia.
  - assert (E : i = len ln) by lia. subst i. rewrite phiP_all, Z.ltb_irrefl. cbn [andb]. split; [reflexivity|discriminate].
Qed.

Lemma peB_markBlank R b : peB O R true b -> peB O R true (markBlank b).
Proof.
  intros H. unfold markBlank. destruct (lastBlock b) as [c|] eqn:El; [|exact H]. apply peB_set_lastBlocks; [exact H|]. split; [|exact I].
  pose proof (peB_lastBlock O R true b c H El) as Hc. destruct c; exact Hc.
Qed.
Lemma peB_slb R v : forall d r, peB O R true r -> peB O R true (setLastBlankUpTo d v r).
Proof.
  assert (Hu : forall d r, peB O R true r -> peB O R true (updAt d (fun b => set_blast b v) r)).
  { intros d r Hr. apply peB_updAt_at; [exact Hr|]. intros x _ Hx. destruct x; exact Hx. }
  induction d as [|d IH]; intros r Hr; cbn [setLastBlankUpTo]; [apply Hu, Hr|]. apply IH, Hu, Hr.
Qed.

Lemma CG_addLineText p q : CG O p q -> G p -> CW (addLineText p) (addLineText q).
Proof.
  intros H HG. rewrite (addLineText_eq p), (addLineText_eq q). unfold addLineText'. cbv zeta. rewrite (CG_isRestBlank p q H).
  set (isBlank := isRestBlank p).
  assert (H1 : CG O (if isBlank then updCont p markBlank else p) (if isBlank then updCont q markBlank else q)).
  { destruct isBlank; [|exact H]. apply CG_updCont; [exact H|intros b _; apply markBlank_M|intros b Hb; apply nnB_markBlank, Hb|intros x _ Hx; apply peB_markBlank, Hx]. }
  assert (G1 : G (if isBlank then updCont p markBlank else p)) by (destruct isBlank; exact HG).
  set (p1 := if isBlank then updCont p markBlank else p) in *. set (q1 := if isBlank then updCont q markBlank else q) in *. clearbody p1 q1.
  rewrite (CG_contBlock p1 q1 H1), bkind_M, childCount_M, bstart_M, (CG_ls p1 q1 H1), leb_phi, (CG_cdepth p1 q1 H1).
  set (k := bkind (contBlock p1)).
  set (llb := isBlank && negb ((k =? BlockQuoteKind) || (k =? FencedCodeBlockKind) || ((k =? ListItemKind) && (childCount (contBlock p1) =? 1) && (lineStart p1 <=? bstart (contBlock p1))))).
  assert (Hnn : nnB (root p1) = true) by apply H1.
  assert (HP1 : peB O (source p1) true (root p1)) by apply H1.
  destruct (slb_M (source p1) llb (cdepth p1) (root p1) Hnn) as [Es Ns].
  replace (root q1) with (phiB (source p1) (root p1)) by (symmetry; apply H1). rewrite <- Es.
  pose proof (CG_withRoot p1 q1 _ H1 Ns (peB_slb _ llb (cdepth p1) _ HP1)) as H2.
  set (p2 := withRoot p1 (setLastBlankUpTo (cdepth p1) llb (root p1))) in *.
  set (q2 := withRoot q1 (phiB (source p1) (setLastBlankUpTo (cdepth p1) llb (root p1)))) in *.
  assert (G2 : G p2) by exact G1. clearbody p2 q2.
  destruct (acceptsLines k).
  - apply CW_goT. destruct (CG_tabcond p2 q2 H2) as [Ec Et]. rewrite Ec.
    destruct ((li p2 <? len (line p2)) && (at_ (line p2) (li p2) =? 9)) eqn:E9; cbn [andb]; [|apply CG_CW, H2].
    destruct (Et eq_refl) as (T1 & T2 & T3). destruct ((0 <? tabRem p2) && (tabRem p2 <? 4)); [|apply CG_CW, H2].
    match goal with |- CW (consumeIndent ?a ?n) (consumeIndent ?b ?m) => change m with (tabRem q2); change n with (tabRem p2) end.
    rewrite T1. apply CW_consumeIndent. apply CW_append; [apply CG_CW, H2| |cbn [istart]; destruct H2 as (_ & _ & _ & A & _ & _ & _ & _ & B & _); lia].
    cbn [phiI map]. rewrite <- T3, (CG_pos p2 q2 H2). reflexivity.
  - destruct (negb isBlank); [|apply CG_CW, H2]. apply CW_goT.
    pose proof (CG_openBlock p2 q2 ParagraphKind H2 ltac:(discriminate)) as H3. rewrite (CG_indent _ _ H3). apply CG_CW, CG_consumeIndent, H3.
Qed.

(* ---- processLine ---- *)
Lemma env_goT p : envOf (goT p) = envOf p.
Proof. unfold goT. cbv zeta. destruct (isCode _ && negb _); reflexivity. Qed.
Lemma env_addLineText p : envOf (addLineText p) = envOf p.
Proof.
  rewrite addLineText_eq. unfold addLineText'. cbv zeta.
  set (p1 := if isRestBlank p then updCont p markBlank else p).
  assert (E1 : envOf p1 = envOf p) by (unfold p1; destruct (isRestBlank p); reflexivity).
  set (p2 := withRoot p1 _). assert (E2 : envOf p2 = envOf p) by exact E1. clearbody p2.
  destruct (acceptsLines _).
  - rewrite env_goT. destruct (_ && _ && _ && _); [|exact E2]. rewrite env_consumeIndent. exact E2.
  - destruct (negb _); [|exact E2]. rewrite env_goT, env_consumeIndent, env_openBlock. exact E2.
Qed.

Theorem CG_processLine st children ls src :
  ~ In 13 src -> LIM src -> 0 <= ls -> lineOK (from_ src ls) -> forallb nnB children = true ->
  ccF children = true -> allQ (peB O src true) children ->
  processLine st (map (phiB src) children) (phiP src ls) (crlf src) =
    (map (phiB src) (fst (fst (processLine st children ls src))), snd (fst (processLine st children ls src)), snd (processLine st children ls src)) /\
  forallb nnB (fst (fst (processLine st children ls src))) = true.
Proof.
  intros S13 HL Hls Lok Hnn Hcc Hpe.
  assert (H0 : CG O (resetLP st children ls src) (resetLP st (map (phiB src) children) (phiP src ls) (crlf src))).
  { unfold resetLP. cbv zeta. rewrite (crlf_from src ls Hls).
    rewrite (computeTabRem_crlf (from_ src ls) 0 0 Lok) by (pose proof (blen_nonneg (from_ src ls)); lia).
    replace (Blk documentKind 0 (-1) (map (phiB src) children) [] 0 0 0 false false) with (phiB src (Blk documentKind 0 (-1) children [] 0 0 0 false false))
      by (cbn [phiB map]; rewrite phiP_0, (phiP_neg src (-1)) by lia; reflexivity).
    apply CG_mk'; [exact S13| |exact Hls|reflexivity|exact Lok|pose proof (len_nonneg (from_ src ls)); lia|symmetry; apply phiP_0|intros _; split; reflexivity|].
    - split; [exact HL|]. split; [|exact Hpe]. split; [intros _ _; discriminate|discriminate].
    - cbn [nnB forallb]. exact Hnn. }
  assert (G0 : G (resetLP st children ls src)).
  { unfold resetLP. split; [split; [cbn; lia|]|split; [cbn; apply len_nonneg|split; cbn; discriminate]].
    cbn [li line col tabRem]. intros Hl Ha. apply computeTabRem_spec; [lia|exact Hl|exact Ha]. }
  assert (C0 : ccP (resetLP st children ls src)).
  { unfold ccP, wf, resetLP, cdepth. cbn [root container]. split; [reflexivity|split; [exact Hcc|eexists; reflexivity]]. }
  pose proof (processLine_open_fuel st children ls src Hls) as Hfuel. cbv zeta in Hfuel.
  unfold processLine. cbv zeta.
  set (p0 := resetLP st children ls src) in *. set (q0 := resetLP st (map (phiB src) children) (phiP src ls) (crlf src)) in *.
  assert (Es0 : source p0 = src) by reflexivity.
  assert (W0 : exists x, getAt 0 (root p0) = Some x) by (eexists; reflexivity). clearbody p0 q0.
  pose proof (CG_descendOpenBlocks p0 q0 H0 G0) as H1. pose proof (G_descend_loop (bheight (root p0)) p0 0%nat G0) as G1.
  pose proof (ccP_descend_loop (bheight (root p0)) p0 0%nat C0 W0) as C1.
  pose proof (env_descend_loop (bheight (root p0)) p0 0%nat) as E1. fold (descendOpenBlocks p0) in G1, E1, C1.
  destruct (descendOpenBlocks p0) as [am p1]. destruct (descendOpenBlocks q0) as [am' q1]. destruct H1 as [E H1]. cbn [fst snd] in E, H1, G1, E1, C1, Hfuel. subst am'.
  rewrite (CG_state p1 q1 H1).
  set (x := if negb (state p1 =? stDescendTerminated) then openNewBlocks p1 am else (false, p1)).
  set (y := if negb (state p1 =? stDescendTerminated) then openNewBlocks q1 am else (false, q1)).
  assert (H2 : CG2 O x y /\ G (snd x) /\ envOf (snd x) = envOf p1).
  { unfold x, y. destruct (negb _); [|split; [split; [reflexivity|exact H1]|split; [exact G1|reflexivity]]].
    split; [|split; [apply G_openNewBlocks, G1|apply env_openNewBlocks]]. apply CG_openNewBlocks; [exact H1|exact G1|exact C1|].
    apply Hfuel. pose proof (len_crlf (line p1)) as Hl. pose proof (count10_nonneg (line p1)). unfold len in Hl. lia. }
  clearbody x y. destruct x as [ht p2]. destruct y as [ht' q2]. destruct H2 as ([E H2] & G2 & E2). cbn [fst snd] in E, H2, G2, E2. subst ht'.
  assert (H3 : CW (if ht then addLineText p2 else p2) (if ht then addLineText q2 else q2)) by (destruct ht; [apply CG_addLineText; assumption|apply CG_CW, H2]).
  assert (E3 : envOf (if ht then addLineText p2 else p2) = envOf p2) by (destruct ht; [apply env_addLineText|reflexivity]).
  set (p3 := if ht then addLineText p2 else p2) in *. set (q3 := if ht then addLineText q2 else q2) in *. clearbody p3 q3.
  assert (Es : source p3 = src).
  { rewrite E2, E1 in E3. unfold envOf in E3. injection E3 as A _ _. rewrite A. exact Es0. }
  destruct H3 as (rt0 & H3 & Er & Hn3). rewrite Es in Er.
  split.
  - rewrite Er, bkids_M. pose proof (CG_state _ _ H3) as Est. change (state q3 = state p3) in Est. rewrite Est.
    assert (Epn : panicked q3 = panicked p3) by (apply H3). rewrite Epn. reflexivity.
  - cbn [fst snd]. rewrite nnB_eq in Hn3. apply andb_true_iff in Hn3. apply Hn3.
Qed.
Print Assumptions CG_processLine.
End GenLine.
