(* ItemSimSpec.v -- T65: the maps of the simulation theorem are the maps of the statement (ItemSimDefs): MOI KK D o b = iB KK D (shiftB o b) on every
   root block of a document without tab, CR and NUL, including the link reference definition blocks (QuoteSimSpec.v / QS2Spec.v with K in place of 2). *)
From Coq Require Import List ZArith Lia Bool.
Import ListNotations.
Require Import Base Tree LP Driver Props SliceBase L2BndS BShDef BlockShapes LADef LA1 LA12 SpanHypDef DefSpans DefSpansOcp DefSpansWalk DefSpansDrv
  QuoteSimDefs QuoteSimNest QuoteSimMap QuoteSimReloc QuoteSimAux QuoteSimLines QuoteSimDrv1 QuoteSimDrv2 QuoteSimSpec
  QCutsDef QCuts QRdrCollect QRdrOcp QS2Reloc QS2Drv1 QS2Drv2 QS2Spec ItemSimDefs ItemSimDrv1.
Open Scope Z_scope.

(* ---- one entry whose span lies in one line ---- *)
Lemma iI_one KK D k a b ind r kids : noCR D -> 0 <= a <= b -> b <= len D -> (a < b -> nl D (b - 1) = nl D a) ->
  iI KK D (Inl k a b ind r kids) = [Inl k (sigmaK KK D a) (sigmaK KK D a + (b - a)) ind r (flat_map (iI KK D) kids)].
Proof.
  intros Hcr Ha Hb Hl. cbn [iI]. cbv zeta.
  assert (Ee : epsilonK KK D a b = sigmaK KK D a + (b - a)).
  { unfold epsilonK. destruct (Z.ltb_spec b 0); [lia|]. destruct (Z.ltb_spec a b) as [L|L]; [|lia]. unfold sigmaK. rewrite (Hl L). lia. }
  destruct ((k =? TextKind) && (a <? b)) eqn:Et; [|rewrite Ee; reflexivity].
  apply andb_true_iff in Et. destruct Et as [_ Et]. apply Z.ltb_lt in Et.
  rewrite splitAt_one by (apply lineEnd_ge; [exact Hcr|lia|lia|apply Hl, Et]). cbn [map fst snd]. rewrite Ee. reflexivity.
Qed.

Section EntI.
  Variables (KK : Z) (D : bytes) (o : Z).
  Hypothesis KK_nn : 1 <= KK.
  Hypothesis D_cr : noCR D.
  Hypothesis o_nonneg : 0 <= o.

  Lemma sgI_nn x : 0 <= x -> sgI KK D o x = sigmaK KK D (o + x).
  Proof. intros H. unfold sgI. cbv zeta. destruct (Z.ltb_spec (o + x) 0); [lia|reflexivity]. Qed.

  Lemma rI_iI sD sQ u : len sD <= len D - o -> ceI sD sQ (sgI KK D o) u -> iI KK D (shiftI o u) = [rI (sgI KK D o) idI u].
  Proof.
    intros HsD (Hk & Hin & Hse & He & _ & _ & _ & Hkin & Hline). unfold rI. rewrite Hk.
    destruct u as [k s e ind r kids]. cbn [istart iend ikind ikids] in *. unfold insideI, kidsIn in *. cbn [istart iend ikids] in *.
    assert (Hnl : forall x, s <= x < e -> nl D (o + x) = nl D (o + s)).
    { intros x Hx. pose proof (Hline x Hx) as E. rewrite !sgI_nn in E by lia. unfold sigmaK in E. nia. }
    cbn [shiftI mvI]. destruct (Z.leb_spec 0 e); [|lia].
    rewrite (iI_one KK D); [|exact D_cr|lia|lia|intros L; replace (e + o - 1) with (o + (e - 1)) by lia; replace (s + o) with (o + s) by lia; apply Hnl; lia].
    rewrite sgI_nn by lia. replace (s + o) with (o + s) by lia. f_equal. f_equal; try lia.
    (* the children *)
    rewrite Forall_forall in Hin, Hkin. rewrite flat_map_concat_map, map_map.
    assert (Ek : map (fun x => iI KK D (shiftI o x)) kids = map (fun x => [mvI (sigmaK KK D (o + s) - s) x]) kids).
    { apply map_ext_in. intros c Hc. destruct (Hin c Hc) as (_ & _ & Hck). destruct (Hkin c Hc) as (K1 & K2 & K3).
      destruct c as [kk sk ek ik rk kk']. cbn [istart iend ikids] in *. subst kk'. cbn [shiftI mvI map]. destruct (Z.leb_spec 0 ek); [|lia].
      rewrite (iI_one KK D); [|exact D_cr|lia|lia|intros _; replace (ek + o - 1) with (o + (ek - 1)) by lia; replace (sk + o) with (o + sk) by lia; rewrite (Hnl (ek - 1)), (Hnl sk) by lia; reflexivity].
      cbn [flat_map]. pose proof (Hline sk ltac:(lia)) as E. rewrite !sgI_nn in E by lia. replace (sk + o) with (o + sk) by lia. rewrite E. f_equal. f_equal; lia. }
    rewrite Ek. clear. induction kids as [|c kids IH]; [reflexivity|]. cbn [map concat app]. rewrite IH. reflexivity.
  Qed.

End EntI.

Section Ent2I.
  Variables (KK : Z) (D : bytes) (o : Z).
  Hypothesis KK_nn : 1 <= KK.
  Hypothesis D_cr : noCR D.
  Hypothesis o_nonneg : 0 <= o.

  Lemma D_cr_at : forall x, 0 <= x < len D -> at_ D x <> 13.
  Proof. intros x Hx. apply (Forall_at (fun c => c <> 13)); [exact D_cr|exact Hx]. Qed.

  (* a child of a link part: a node without children *)
  Lemma qK_iI c : 0 <= istart c <= iend c -> iend c + o <= len D -> ikids c = [] ->
    iI KK D (shiftI o c) = QRdrCollect.qK (from_ D o) (sgI KK D o) c.
  Proof.
    intros Hse He Hk. destruct c as [k s e ind rf kids]. cbn [istart iend ikids] in *. subst kids. cbn [shiftI map iI flat_map]. cbv zeta.
    destruct (Z.leb_spec 0 e); [|lia]. unfold QRdrCollect.qK.
    replace (s + o <? e + o) with (s <? e) by (destruct (Z.ltb_spec s e), (Z.ltb_spec (s + o) (e + o)); lia || reflexivity).
    destruct ((k =? TextKind) && (s <? e)) eqn:Et.
    - apply andb_true_iff in Et. destruct Et as [_ Et]. apply Z.ltb_lt in Et.
      replace (Z.to_nat (e + o - (s + o))) with (Z.to_nat (e - s)) by lia.
      pose proof (cuts_splitAt D (s + o) (e + o) D_cr_at ltac:(lia) ltac:(lia) He) as E1. replace (e + o - (s + o)) with (e - s) in E1 by lia. rewrite <- E1.
      pose proof (cuts_shift D o (s + o) (e + o) ltac:(lia)) as E2. replace (s + o - o) with s in E2 by lia. replace (e + o - o) with e in E2 by lia.
      rewrite E2, map_map. apply map_ext_in. intros p Hp. cbn [fst snd].
      destruct (cuts_bounds D (s + o) (e + o) p ltac:(lia) Hp) as (B1 & B2 & B3).
      rewrite !(sgI_nn KK D o) by lia. replace (o + (fst p - o)) with (fst p) by lia. replace (o + (snd p - o - 1)) with (snd p - 1) by lia.
      unfold epsilonK. destruct (Z.ltb_spec (snd p) 0); [lia|]. destruct (Z.ltb_spec (fst p) (snd p)); [reflexivity|lia].
    - replace (s + o) with (o + s) by lia. unfold epsilonK. destruct (Z.ltb_spec (e + o) 0); [lia|].
      destruct (Z.ltb_spec s e); destruct (Z.ltb_spec (o + s) (e + o)); try lia.
      + rewrite !(sgI_nn KK D o) by lia. replace (o + (e - 1)) with (e + o - 1) by lia. reflexivity.
      + rewrite !(sgI_nn KK D o) by lia. reflexivity.
  Qed.

  (* a label / destination / title entry *)
  Lemma lpI_iI u : QuoteSimMap.isLinkPart (ikind u) = true -> 0 <= istart u <= iend u ->
    Forall (fun c => 0 <= istart c <= iend c /\ iend c + o <= len D /\ ikids c = []) (ikids u) ->
    iI KK D (shiftI o u) = [lpI KK D o u].
  Proof.
    intros Hk Hse Hkids. destruct u as [k s e ind rf kids]. cbn [istart iend ikids ikind] in *. cbn [shiftI iI]. cbv zeta.
    destruct (Z.leb_spec 0 e); [|lia].
    assert (Ent : (k =? TextKind) = false).
    { unfold QuoteSimMap.isLinkPart in Hk. destruct (Z.eqb_spec k TextKind) as [->|_]; [discriminate Hk|reflexivity]. }
    rewrite Ent. cbn [andb]. unfold lpI. replace (s + o) with (o + s) by lia. f_equal. f_equal.
    - rewrite (sgI_nn KK D o) by lia. reflexivity.
    - unfold epsilonK, QRdrOcp.epsG. destruct (Z.ltb_spec (e + o) 0); [lia|]. destruct (Z.ltb_spec e 0); [lia|].
      destruct (Z.ltb_spec s e); destruct (Z.ltb_spec (o + s) (e + o)); try lia.
      + rewrite (sgI_nn KK D o) by lia. replace (o + (e - 1)) with (e + o - 1) by lia. reflexivity.
      + rewrite (sgI_nn KK D o) by lia. reflexivity.
    - clear -Hkids D_cr o_nonneg. induction kids as [|c r IH]; [reflexivity|]. inversion Hkids as [|? ? (C1 & C2 & C3) Hr]; subst.
      cbn [map flat_map]. rewrite (IH Hr). f_equal. apply qK_iI; assumption.
  Qed.

  Lemma MOI_iB sD sQ M : len sD <= len D - o -> M <= len sD ->
    forall b, nnB b -> QS2Reloc.ceB0 sD sQ (sgI KK D o) b -> la sD M b -> invD b = true -> MOI KK D o b = iB KK D (shiftB o b).
  Proof.
    intros HsD HM. apply (QS2Reloc.block_kids_ind2 (fun b => nnB b -> QS2Reloc.ceB0 sD sQ (sgI KK D o) b -> la sD M b -> invD b = true -> MOI KK D o b = iB KK D (shiftB o b))).
    intros b IH Hn Hc Hla Hinv.
    apply nnB_eq in Hn. destruct Hn as (N1 & N2 & N3). apply QS2Reloc.ceB0_eq in Hc. destruct Hc as (Ci & _ & L4 & Ck).
    apply la_eq in Hla. destruct Hla as (B1 & B2 & _ & _ & Hlk). apply QuoteSimDrv2.allQ_Forall in Hlk.
    apply invD_parts in Hinv. destruct Hinv as [Hloc Hik]. unfold invDL in Hik. rewrite forallb_forall in Hik.
    destruct b as [k s e bk ik a n c l lb0]. cbn [bstart bend bkids bik bkind] in *. unfold MOI. cbn [rB shiftB iB].
    destruct (Z.leb_spec 0 e); [|lia]. f_equal.
    - rewrite (sgI_nn KK D o) by lia. f_equal. lia.
    - unfold eBI. destruct (Z.ltb_spec e 0); [lia|]. f_equal. lia.
    - rewrite map_map. apply map_ext_in. intros x Hx. unfold QS2Reloc.ceL0 in Ck. rewrite Forall_forall in N3, Ck, Hlk. apply (IH x Hx (N3 x Hx) (Ck x Hx) (Hlk x Hx) (Hik x Hx)).
    - rewrite flat_map_concat_map, map_map.
      assert (Ek : map (fun x => iI KK D (shiftI o x)) ik = map (fun x => [rI (sgI KK D o) (lpI KK D o) x]) ik).
      { apply map_ext_in. intros u Hu. destruct (Z.eq_dec k LinkReferenceDefinitionKind) as [Ek|Nk].
        - (* a definition block *)
          rewrite Forall_forall in L4. destruct (L4 u Hu) as [Lk Lp]. specialize (Lp Ek). specialize (Lk Lp). unfold rI. rewrite Lp.
          unfold locD in Hloc. cbn [bkind bstart bend bik] in Hloc. rewrite Ek in Hloc. change (LinkReferenceDefinitionKind =? LinkReferenceDefinitionKind) with true in Hloc. cbn [negb orb] in Hloc.
          destruct (Z.leb_spec 0 s) as [_|]; [|lia]. cbn [negb orb] in Hloc. apply andb_true_iff in Hloc. destruct Hloc as [Hloc HD]. apply andb_true_iff in Hloc. destruct Hloc as [_ HO].
          assert (Hvs : forall x, In x ik -> istart x <= iend x).
          { intros x Hx. rewrite forallb_forall in HD. specialize (HD x Hx). unfold entD in HD. apply andb_true_iff in HD. destruct HD as [HD _]. apply andb_true_iff in HD. destruct HD as [HD _]. apply Z.leb_le, HD. }
          destruct (ordX_In _ _ _ u HO Hvs Hu) as [P1 P2]. specialize (Hvs u Hu).
          rewrite forallb_forall in HD. specialize (HD u Hu). unfold entD in HD. apply andb_true_iff in HD. destruct HD as [HD HV]. apply andb_true_iff in HD. destruct HD as [_ HOk].
          assert (Hev : forall x, In x (ikids u) -> istart x <= iend x) by (intros x Hx; rewrite forallb_forall in HV; specialize (HV x Hx); unfold vkid in HV; apply Z.leb_le, HV).
          apply lpI_iI; [exact Lp|lia|]. rewrite Forall_forall in *. intros c0 Hc0.
          destruct (ordX_In _ _ _ c0 HOk Hev Hc0) as [Q1 Q2]. specialize (Hev c0 Hc0).
          split; [lia|]. split; [|apply Lk, Hc0]. destruct B2 as [B2|[B2 _]]; lia.
        - specialize (Ci Nk). rewrite Forall_forall in Ci. pose proof (Ci u Hu) as Hcu. rewrite (rI_iI KK D o KK_nn D_cr o_nonneg sD sQ u HsD Hcu).
          destruct Hcu as (Hlp & _). unfold rI. rewrite Hlp. reflexivity. }
      rewrite Ek. clear. induction ik as [|u ik IH]; [reflexivity|]. cbn [map concat app]. rewrite <- IH. reflexivity.
  Qed.
End Ent2I.
