(* SliceSpans.v -- the inline tokeniser on a paragraph of SEVERAL text lines: one Unparsed span per line, a SoftLineBreak node
   between consecutive lines; each line is E-escaped text (SliceTok.v) preceded in the source by an arbitrary prefix that is
   not part of the paragraph ("" for a top-level paragraph, "> " inside a block quote). *)
From Coq Require Import List ZArith Lia Bool.
Import ListNotations.
Require Import Base Tables Utf8 Tree Rdr Link Collect Html Recog LP Rules Starts Driver Inl3a Inl3b Inl3c Inl3d Inl3e Render Fmt
  SliceBase SlicePara SliceText SliceTok.
Open Scope Z_scope.

Definition ISm (st : ist) (L : bytes) (U : list inline) (i : Z) : Prop :=
  isrc st = L /\ unp st = U /\ upos st = i /\ stk st = [].
Definition frameOK (U : list inline) (i e : Z) (lastF : bool) : Prop :=
  0 <= i /\ i < len U /\ iend (nth (Z.to_nat i) U (mkI 0 0 0)) = e /\ (len U - 1 <=? i) = lastF.

Lemma ISm_spanEnd st L U i e lf : ISm st L U i -> frameOK U i e lf -> spanEnd st = e.
Proof.
  intros (H1 & H2 & H3 & H4) (F1 & F2 & F3 & F4). unfold spanEnd. rewrite H2, H3.
  destruct (Z.leb_spec (len U) i); [lia|]. exact F3.
Qed.
Lemma ISm_isLast st L U i e lf : ISm st L U i -> frameOK U i e lf -> isLastSpan st = lf.
Proof. intros (H1 & H2 & H3 & H4) (F1 & F2 & F3 & F4). unfold isLastSpan. rewrite H2, H3. exact F4. Qed.
Lemma ISm_inspan st L U i e lf : ISm st L U i -> frameOK U i e lf -> (upos st <? len (unp st)) = true.
Proof. intros (H1 & H2 & H3 & H4) (F1 & F2 & F3 & F4). rewrite H2, H3. apply Z.ltb_lt. exact F2. Qed.

Lemma addText_nodes_m st L U i s e : ISm st L U i -> 0 <= s <= e ->
  ISm (addText st s e) L U i /\ ign (addText st s e) = ign st /\ map toInline (rk (addText st s e)) = map toInline (rk st) ++ textNode s e.
Proof.
  intros HI Hse. unfold addText, addNode, spanLen, textNode.
  assert (E : (0 <=? s) && (0 <=? e) && (s <=? e) = true).
  { repeat (apply andb_true_iff; split); apply Z.leb_le; lia. }
  rewrite E. destruct (Z.eqb_spec (e - s) 0) as [Z0|NZ]; cbn [fst].
  - split; [exact HI|]. split; [reflexivity|]. rewrite app_nil_r. reflexivity.
  - split; [exact HI|]. split; [reflexivity|]. cbn [rk bumpId setRk]. rewrite map_app. reflexivity.
Qed.
Lemma addSoft_nodes st L U i pos : ISm st L U i -> 0 <= pos ->
  ISm (fst (addNode st SoftLineBreakKind pos (pos + 1) [])) L U i /\ ign (fst (addNode st SoftLineBreakKind pos (pos + 1) [])) = ign st /\
  map toInline (rk (fst (addNode st SoftLineBreakKind pos (pos + 1) []))) = map toInline (rk st) ++ [mkI SoftLineBreakKind pos (pos + 1)].
Proof.
  intros HI Hp. unfold addNode, spanLen.
  assert (E : (0 <=? pos) && (0 <=? pos + 1) && (pos <=? pos + 1) = true).
  { repeat (apply andb_true_iff; split); apply Z.leb_le; lia. }
  rewrite E. replace (pos + 1 - pos) with 1 by lia. change (1 =? 0) with false. cbv iota. cbn [fst].
  split; [exact HI|]. split; [reflexivity|]. cbn [rk bumpId setRk]. rewrite map_app. reflexivity.
Qed.

Lemma istep_lf_soft st pos plainStart : at_ (isrc st) pos = 10 -> isLastSpan st = false ->
  istep st pos plainStart = (fst (addNode (addText st plainStart pos) SoftLineBreakKind pos (pos + 1) []), pos + 1, pos + 1).
Proof.
  intros Hc Hl. unfold istep. cbv zeta. rewrite Hc.
  change (10 =? 42) with false. change (10 =? 95) with false. change (10 =? 91) with false. change (10 =? 93) with false.
  change (10 =? 33) with false. change (10 =? 32) with false. change (10 =? 96) with false. change (10 =? 60) with false.
  change (10 =? 92) with false. change (10 =? 38) with false. change (10 =? 10) with true. cbn [orb]. cbv iota.
  assert (El : isLastSpan (addText st plainStart pos) = isLastSpan st).
  { unfold addText, addNode. destruct (spanLen plainStart pos =? 0); reflexivity. }
  rewrite El, Hl. reflexivity.
Qed.

Lemma sub_mid_x (pre0 mid x rest : bytes) : sub (pre0 ++ mid ++ x ++ rest) (len pre0 + len mid) (len pre0 + len mid + len x) = x.
Proof. rewrite app_assoc. rewrite <- sl_len_app. apply sl_sub_app. Qed.

Section EscM.
Variable E : Z -> bool.
Hypothesis E32 : E 32 = false.

(* one span: L = pre0 ++ mid ++ genEsc t ++ [10] ++ rest, the span ends just after the LF *)
Lemma iloop_span : forall t prevSp, okTextE E prevSp t = true ->
  forall pre0 mid rest L U i e lf fuel st, L = pre0 ++ mid ++ genEsc E t ++ [10] ++ rest ->
  e = len pre0 + len mid + len (genEsc E t) + 1 ->
  ISm st L U i -> frameOK U i e lf -> (length (genEsc E t) < fuel)%nat ->
  exists st', iloop fuel st (len pre0 + len mid) (len pre0) = (st', e) /\ ISm st' L U i /\ ign st' = ign st /\
              map toInline (rk st') = map toInline (rk st) ++ tokSpec E (len pre0) (len pre0 + len mid) t ++
                                      (if lf then [] else [mkI SoftLineBreakKind (e - 1) e]).
Proof.
  induction t as [|c r IH]; intros prevSp Hok pre0 mid rest L U i e lf fuel st HL He HI HF Hfuel.
  - destruct fuel as [|f]; [cbn in Hfuel; lia|]. cbn [genEsc flat_map app length] in HL, He. rewrite sl_len_nil in He.
    pose proof (sl_len_nonneg pre0) as Hp0. pose proof (sl_len_nonneg mid) as Hm0.
    rewrite iloop_S. rewrite (ISm_inspan st L U i e lf HI HF), (ISm_spanEnd st L U i e lf HI HF).
    destruct (Z.ltb_spec (len pre0 + len mid) e); [|lia]. cbn [andb].
    assert (Hat : at_ (isrc st) (len pre0 + len mid) = 10).
    { destruct HI as (Hsrc & _). rewrite Hsrc, HL. apply at_mid. }
    destruct (addText_nodes_m st L U i (len pre0) (len pre0 + len mid) HI ltac:(lia)) as (HI1 & Hg1 & HR1).
    destruct lf.
    + rewrite (istep_lf st _ _ Hat (ISm_isLast st L U i e true HI HF)).
      exists (addText st (len pre0) (len pre0 + len mid)). split.
      { destruct f as [|f]; [cbn [iloop]; f_equal; lia|].
        rewrite iloop_S. rewrite (ISm_inspan _ L U i e true HI1 HF), (ISm_spanEnd _ L U i e true HI1 HF).
        destruct (Z.ltb_spec (len pre0 + len mid + 1) e); [lia|]. rewrite andb_false_r. f_equal. lia. }
      split; [exact HI1|]. split; [exact Hg1|]. cbn [tokSpec]. rewrite app_nil_r. exact HR1.
    + rewrite (istep_lf_soft st _ _ Hat (ISm_isLast st L U i e false HI HF)).
      destruct (addSoft_nodes _ L U i (len pre0 + len mid) HI1 ltac:(lia)) as (HI2 & Hg2 & HR2).
      eexists. split.
      { destruct f as [|f]; [cbn [iloop]; f_equal; lia|].
        rewrite iloop_S. rewrite (ISm_inspan _ L U i e false HI2 HF), (ISm_spanEnd _ L U i e false HI2 HF).
        destruct (Z.ltb_spec (len pre0 + len mid + 1) e); [lia|]. rewrite andb_false_r. f_equal. lia. }
      split; [exact HI2|]. split; [rewrite Hg2; exact Hg1|]. cbn [tokSpec]. rewrite HR2, HR1. rewrite <- app_assoc.
      replace (e - 1) with (len pre0 + len mid) by lia. replace e with (len pre0 + len mid + 1) at 1 by lia. reflexivity.
  - cbn [okTextE] in Hok.
    pose proof (sl_len_nonneg pre0) as Hp0. pose proof (sl_len_nonneg mid) as Hm0.
    destruct (Z.eqb_spec c 32) as [E32'|N32].
    + subst c. apply andb_true_iff in Hok. destruct Hok as [_ Hok].
      rewrite (genEsc_raw E 32 r E32) in HL, Hfuel, He. cbn [length] in Hfuel. destruct fuel as [|f]; [lia|].
      rewrite sl_len_cons in He. pose proof (sl_len_nonneg (genEsc E r)) as Hr0.
      rewrite iloop_S. rewrite (ISm_inspan st L U i e lf HI HF), (ISm_spanEnd st L U i e lf HI HF).
      destruct (Z.ltb_spec (len pre0 + len mid) e); [|lia]. cbn [andb].
      assert (Hat : at_ (isrc st) (len pre0 + len mid) = 32).
      { destruct HI as (Hsrc & _). rewrite Hsrc, HL. cbn [app]. apply at_mid. }
      assert (Hh : parseHardLineBreakSpace (sub (isrc st) (len pre0 + len mid) (spanEnd st)) = (1, false)).
      { rewrite (ISm_spanEnd st L U i e lf HI HF). destruct HI as (Hsrc & _). rewrite Hsrc. rewrite HL.
        replace ((32 :: genEsc E r) ++ [10] ++ rest) with ((32 :: genEsc E r ++ [10]) ++ rest) by (cbn [app]; rewrite <- app_assoc; reflexivity).
        replace e with (len pre0 + len mid + len (32 :: genEsc E r ++ [10])) by (lensimp; lia).
        rewrite sub_mid_x.
        destruct r as [|c' r']; [discriminate Hok|]. cbn [okTextE] in Hok.
        destruct (Z.eqb_spec c' 32) as [->|Nc']; [discriminate Hok|].
        destruct (E c') eqn:Ep.
        - rewrite (genEsc_E E c' r' Ep). cbn [app]. apply hlbs_single. lia.
        - rewrite (genEsc_raw E c' r' Ep). cbn [app]. apply hlbs_single. exact Nc'. }
      rewrite (istep_space st _ _ Hat Hh).
      destruct (IH true Hok pre0 (mid ++ [32]) rest L U i e lf f st) as (st' & Hrun & HI' & Hg' & HR').
      { rewrite HL. rewrite <- !app_assoc. reflexivity. }
      { lensimp. lia. } { exact HI. } { exact HF. } { lia. }
      exists st'. rewrite sl_len_app in Hrun, HR'. change (len [32]) with 1 in Hrun, HR'. rewrite Z.add_assoc in Hrun, HR'.
      split; [exact Hrun|]. split; [exact HI'|]. split; [exact Hg'|]. cbn [tokSpec]. rewrite E32. exact HR'.
    + apply andb_true_iff in Hok. destruct Hok as [Hcl Hok].
      destruct (E c) eqn:Ep.
      * rewrite (genEsc_E E c r Ep) in HL, Hfuel, He. cbn [length] in Hfuel. destruct fuel as [|f]; [lia|].
        rewrite !sl_len_cons in He. pose proof (sl_len_nonneg (genEsc E r)) as Hr0.
        rewrite iloop_S. rewrite (ISm_inspan st L U i e lf HI HF), (ISm_spanEnd st L U i e lf HI HF).
        destruct (Z.ltb_spec (len pre0 + len mid) e); [|lia]. cbn [andb].
        assert (Hat : at_ (isrc st) (len pre0 + len mid) = 92).
        { destruct HI as (Hsrc & _). rewrite Hsrc, HL. cbn [app]. apply at_mid. }
        assert (Hat1 : at_ (isrc st) (len pre0 + len mid + 1) = c).
        { destruct HI as (Hsrc & _). rewrite Hsrc, HL. cbn [app]. apply at_mid1. }
        rewrite (istep_escape st _ _ c Hat Hat1 Hcl) by (rewrite (ISm_spanEnd st L U i e lf HI HF); lia).
        destruct (addText_nodes_m st L U i (len pre0) (len pre0 + len mid) HI ltac:(lia)) as (HI1 & Hg1 & HR1).
        destruct (addText_nodes_m _ L U i (len pre0 + len mid + 1) (len pre0 + len mid + 2) HI1 ltac:(lia)) as (HI2 & Hg2 & HR2).
        destruct (IH false Hok (pre0 ++ mid ++ [92; c]) [] rest L U i e lf f
                     (addText (addText st (len pre0) (len pre0 + len mid)) (len pre0 + len mid + 1) (len pre0 + len mid + 2)))
          as (st' & Hrun & HI' & Hg' & HR').
        { rewrite HL. rewrite <- !app_assoc. reflexivity. }
        { lensimp. lia. } { exact HI2. } { exact HF. } { lia. }
        exists st'. rewrite !sl_len_app in Hrun, HR'. change (len [92; c]) with 2 in Hrun, HR'. rewrite sl_len_nil in Hrun, HR'.
        rewrite Z.add_0_r in Hrun, HR'. rewrite Z.add_assoc in Hrun, HR'.
        split; [exact Hrun|]. split; [exact HI'|]. split; [rewrite Hg', Hg2; exact Hg1|]. cbn [tokSpec]. rewrite Ep. rewrite HR', HR2, HR1.
        unfold textNode at 2. replace (len pre0 + len mid + 2 - (len pre0 + len mid + 1)) with 1 by lia. change (1 =? 0) with false. cbv iota.
        rewrite <- !app_assoc. reflexivity.
      * rewrite (genEsc_raw E c r Ep) in HL, Hfuel, He. cbn [length] in Hfuel. destruct fuel as [|f]; [lia|].
        rewrite sl_len_cons in He. pose proof (sl_len_nonneg (genEsc E r)) as Hr0.
        rewrite iloop_S. rewrite (ISm_inspan st L U i e lf HI HF), (ISm_spanEnd st L U i e lf HI HF).
        destruct (Z.ltb_spec (len pre0 + len mid) e); [|lia]. cbn [andb].
        assert (Hat : at_ (isrc st) (len pre0 + len mid) = c).
        { destruct HI as (Hsrc & _). rewrite Hsrc, HL. cbn [app]. apply at_mid. }
        assert (Hat1 : at_ (isrc st) (len pre0 + len mid + 1) = hd 0 (genEsc E r ++ [10])).
        { destruct HI as (Hsrc & _). rewrite Hsrc, HL. cbn [app].
          replace (genEsc E r ++ 10 :: rest) with ((genEsc E r ++ [10]) ++ rest) by (rewrite <- app_assoc; reflexivity).
          destruct (genEsc E r ++ [10]) as [|y z] eqn:Ey.
          - destruct (genEsc E r); discriminate Ey.
          - cbn [hd app]. apply at_mid1. }
        rewrite (rawOK_first c Hcl N32 _ (fun _ => genEsc_hd_ne91 E E32 r false Hok) st _ _ Hat Hat1).
        destruct (IH false Hok pre0 (mid ++ [c]) rest L U i e lf f st) as (st' & Hrun & HI' & Hg' & HR').
        { rewrite HL. rewrite <- !app_assoc. reflexivity. }
        { lensimp. lia. } { exact HI. } { exact HF. } { lia. }
        exists st'. rewrite sl_len_app in Hrun, HR'. change (len [c]) with 1 in Hrun, HR'. rewrite Z.add_assoc in Hrun, HR'.
        split; [exact Hrun|]. split; [exact HI'|]. split; [exact Hg'|]. cbn [tokSpec]. rewrite Ep. exact HR'.
Qed.
End EscM.

(* ---- a paragraph of several lines: (prefix, text) pairs ---- *)
Section Lines.
Variable E : Z -> bool.
Hypothesis E32 : E 32 = false.

Fixpoint srcOf (ps : list (bytes * bytes)) : bytes :=
  match ps with [] => [] | (p, t) :: r => p ++ genEsc E t ++ [10] ++ srcOf r end.
Fixpoint spansAt (off : Z) (ps : list (bytes * bytes)) : list inline :=
  match ps with
  | [] => []
  | (p, t) :: r => mkI UnparsedKind (off + len p) (off + len p + len (genEsc E t) + 1) :: spansAt (off + len p + len (genEsc E t) + 1) r
  end.
Fixpoint nodesAt (off : Z) (ps : list (bytes * bytes)) : list inline :=
  match ps with
  | [] => []
  | (p, t) :: r => tokSpec E (off + len p) (off + len p) t ++
                   (match r with [] => [] | _ => [mkI SoftLineBreakKind (off + len p + len (genEsc E t) + 1 - 1) (off + len p + len (genEsc E t) + 1)] end) ++
                   nodesAt (off + len p + len (genEsc E t) + 1) r
  end.

Lemma srcOf_app a b : srcOf (a ++ b) = srcOf a ++ srcOf b.
Proof. induction a as [|[p t] r IH]; [reflexivity|]. cbn [app srcOf]. rewrite IH. rewrite <- !app_assoc. reflexivity. Qed.
Lemma len_srcOf_cons p t r : len (srcOf ((p, t) :: r)) = len p + len (genEsc E t) + 1 + len (srcOf r).
Proof. cbn [srcOf]. lensimp. lia. Qed.
Lemma spansAt_app : forall a b off, spansAt off (a ++ b) = spansAt off a ++ spansAt (off + len (srcOf a)) b.
Proof.
  induction a as [|[p t] r IH]; intros b off; [cbn [app spansAt srcOf]; rewrite sl_len_nil, Z.add_0_r; reflexivity|].
  cbn [app spansAt]. rewrite IH. rewrite len_srcOf_cons. f_equal. f_equal. f_equal. lia.
Qed.
Lemma len_spansAt : forall a off, len (spansAt off a) = len a.
Proof. induction a as [|[p t] r IH]; intros off; [reflexivity|]. cbn [spansAt]. rewrite !sl_len_cons, IH. reflexivity. Qed.
Lemma nth_spansAt a x b off : nth (Z.to_nat (len a)) (spansAt off (a ++ x :: b)) (mkI 0 0 0) = hd (mkI 0 0 0) (spansAt (off + len (srcOf a)) (x :: b)).
Proof.
  rewrite spansAt_app. rewrite <- (len_spansAt a off). rewrite sl_len_length. rewrite app_nth2 by lia. rewrite Nat.sub_diag.
  destruct x as [p t]. reflexivity.
Qed.

Lemma outer_lines : forall post done fuel st L U,
  L = srcOf (done ++ post) -> U = spansAt 0 (done ++ post) -> ISm st L U (len done) -> ign st = false ->
  Forall (fun pt => okTextE E true (snd pt) = true) post -> (length post < fuel)%nat ->
  map toInline (rk (outer fuel st)) = map toInline (rk st) ++ nodesAt (len (srcOf done)) post /\ stk (outer fuel st) = [].
Proof.
  induction post as [|[p t] post' IH]; intros done fuel st L U HL HU HI Hig Hok Hfuel.
  - destruct fuel as [|f]; [cbn [length] in Hfuel; lia|]. cbn [outer]. destruct HI as (H1 & H2 & H3 & H4).
    rewrite H2, H3, HU, len_spansAt, app_nil_r. destruct (Z.leb_spec (len done) (len done)); [|lia].
    cbn [nodesAt]. rewrite app_nil_r. split; [reflexivity|exact H4].
  - destruct fuel as [|f]; [cbn [length] in Hfuel; lia|]. apply Forall_cons_iff in Hok. destruct Hok as [Ht Hok']. cbn [snd] in Ht.
    set (s := len (srcOf done) + len p). set (e := s + len (genEsc E t) + 1).
    pose proof (sl_len_nonneg done) as Hd0. pose proof (sl_len_nonneg post') as Hp0.
    assert (HlenU : len U = len done + 1 + len post') by (rewrite HU, len_spansAt; lensimp; lia).
    assert (Hnth : nth (Z.to_nat (len done)) U (mkI 0 0 0) = mkI UnparsedKind s e).
    { rewrite HU. rewrite nth_spansAt. cbn [spansAt hd]. rewrite Z.add_0_l. reflexivity. }
    assert (HF : frameOK U (len done) e (match post' with [] => true | _ => false end)).
    { unfold frameOK. split; [lia|]. split; [lia|]. split; [rewrite Hnth; reflexivity|]. rewrite HlenU.
      destruct post' as [|x y]; [rewrite sl_len_nil; apply Z.leb_le; lia|rewrite sl_len_cons; apply Z.leb_gt; pose proof (sl_len_nonneg y); lia]. }
    pose proof HI as (H1 & H2 & H3 & H4).
    cbn [outer]. rewrite H2, H3. destruct (Z.leb_spec (len U) (len done)); [lia|]. rewrite Hnth.
    change (ikind (mkI UnparsedKind s e)) with UnparsedKind.
    change (UnparsedKind =? 0) with false. change (UnparsedKind =? IndentKind) with false. change (UnparsedKind =? UnparsedKind) with true.
    cbv iota. rewrite Hig. cbv iota. change (istart (mkI UnparsedKind s e)) with s.
    assert (HI0 : ISm (setIgn st false) L U (len done)) by (repeat split; assumption).
    change (isrc (setIgn st false)) with (isrc st).
    assert (HL2 : L = (srcOf done ++ p) ++ [] ++ genEsc E t ++ [10] ++ srcOf post').
    { rewrite HL, srcOf_app. cbn [srcOf app]. rewrite <- !app_assoc. reflexivity. }
    destruct (iloop_span E E32 t true Ht (srcOf done ++ p) [] (srcOf post') L U (len done) e (match post' with [] => true | _ => false end) (S (length (isrc st))) (setIgn st false) HL2)
      as (st' & Hrun & HI' & Hg' & HR').
    { unfold e, s. lensimp. lia. } { exact HI0. } { exact HF. }
    { rewrite H1, HL2, !app_length. cbn [length]. lia. }
    rewrite sl_len_nil, Z.add_0_r in Hrun, HR'. rewrite sl_len_app in Hrun, HR'. fold s in Hrun, HR'. rewrite Hrun.
    rewrite (ISm_spanEnd st' L U (len done) e _ HI' HF).
    assert (Ea : addText st' e e = st').
    { unfold addText, addNode, spanLen. rewrite Z.sub_diag. destruct ((0 <=? e) && (0 <=? e) && (e <=? e)); reflexivity. }
    rewrite Ea. destruct HI' as (H1' & H2' & H3' & H4'). rewrite H3'.
    destruct (IH (done ++ [(p, t)]) f (setUpos st' (len done + 1)) L U) as (IHr & IHs).
    { rewrite HL. rewrite <- app_assoc. reflexivity. }
    { rewrite HU. rewrite <- app_assoc. reflexivity. }
    { repeat split; try assumption. cbn [upos setUpos]. lensimp. lia. }
    { cbn [ign setUpos]. rewrite Hg'. reflexivity. }
    { exact Hok'. } { cbn [length] in Hfuel. lia. }
    split; [|exact IHs]. rewrite IHr. cbn [rk setUpos]. rewrite HR'. cbn [rk setIgn]. cbn [nodesAt].
    rewrite srcOf_app. cbn [srcOf]. rewrite app_nil_r.
    assert (Hes : len (srcOf done ++ p ++ genEsc E t ++ [10]) = e) by (unfold e, s; lensimp; lia).
    rewrite Hes. fold s. fold e. rewrite <- !app_assoc. f_equal. f_equal.
    destruct post'; reflexivity.
Qed.

Theorem parseInlines_lines ps m (b : block) : ps <> [] -> Forall (fun pt => okTextE E true (snd pt) = true) ps ->
  bik b = spansAt 0 ps -> parseInlines (srcOf ps) m b = nodesAt 0 ps.
Proof.
  intros Hne Hok Hb. unfold parseInlines. rewrite Hb.
  set (st0 := {| rk := []; isrc := srcOf ps; unp := spansAt 0 ps; upos := 0; stk := []; ign := false; nid := 1; rootEnd := bend b; matcher := m |}).
  destruct (outer_lines ps [] (S (length (spansAt 0 ps))) st0 (srcOf ps) (spansAt 0 ps) eq_refl eq_refl) as (Hr & Hs).
  { repeat split. } { reflexivity. } { exact Hok. }
  { assert (length (spansAt 0 ps) = length ps) by (pose proof (len_spansAt ps 0) as Hl; unfold len in Hl; lia). lia. }
  rewrite processEmphasis_nostack by exact Hs. rewrite Hr. reflexivity.
Qed.
End Lines.
