From Coq Require Import List ZArith Lia Bool.
Import ListNotations.
Require Import Base Tables Utf8 Tree Rdr Link Collect LP ShapesBase ShapesR IFBase IFLink IFCollect EolCRLFDefs EolCRLFSimBytes EolCRLFSimStream
  EolGenCrlfRdrDefs EolGenCrlfRdrStep EolGenCrlfRdrNext EolGenCrlfRdrLink EolGenCrlfRdrLink2 EolGenCrlfRdrLink3
  EolGenCrlfRdrColl EolGenCrlfRdrColl2 EolGenCrlfRdrTlr EolGenCrlfRdrOcp EolGenCrlfRdrOcp2.
Open Scope Z_scope.

(* C14 (ii), CRLF clause: onCloseParagraph commutes with LF -> CR LF. *)

(* the degenerate entry list: nothing is read, the paragraph is returned unchanged *)
Lemma ocp_single_empty src b a : bik b = [mkI UnparsedKind a a] -> onCloseParagraph src b = [b].
Proof.
  intros E. unfold onCloseParagraph. rewrite E. cbv zeta. cbn [length]. rewrite ocp_loop_S.
  set (rf := (2 * length src + 10)%nat). set (r := newReader src [mkI UnparsedKind a a] (istart (mkI UnparsedKind a a))).
  assert (Ecn : curNode r = (None, withSpans r [])).
  { destruct (curNode_cases r) as [Ec|(pre & n & rest & E1 & Ec & E3)]; [exact Ec|exfalso].
    assert (Hn : n = mkI UnparsedKind a a).
    { unfold r in E1. cbn [newReader r_spans] in E1. destruct pre as [|x pre]; [inversion E1; reflexivity|]. inversion E1 as [[Ex Ep]]. destruct pre; discriminate Ep. }
    subst n. apply spanHas_range in E3. cbn [mkI istart iend] in E3. lia. }
  assert (Hl : fst (fst (parseLinkLabel rf r)) = nullSpan).
  { unfold parseLinkLabel. destruct (current r) as [c r0] eqn:Ecu.
    destruct (negb (c =? 91)); [reflexivity|].
    assert (Er0 : next r0 = (false, withSpans r [])).
    { replace r0 with (snd (current r)) by (rewrite Ecu; reflexivity). rewrite next_current. unfold next. rewrite Ecn. reflexivity. }
    unfold rf. replace (2 * length src + 10)%nat with (S (2 * length src + 9)) by lia. cbn [ll_skip]. rewrite Er0. reflexivity. }
  destruct (parseLinkLabel rf r) as [[lspan linner] r1]. cbn [fst] in Hl. subst lspan. reflexivity.
Qed.

Section Main.
  Variable R : bytes.
  Hypothesis R13 : ~ In 13 R.
  Notation P := (phiP R).
  Notation R' := (crlf R).
  Notation F := (phiI R).
  Notation B := (phiB R).

  Lemma skipSpTabIdx_F : forall f f' i, 0 <= i -> len R - i <= Z.of_nat f -> len R' - P i <= Z.of_nat f' ->
    skipSpTabIdx f' R' (P i) = P (skipSpTabIdx f R i).
  Proof.
    induction f as [|f IH]; intros f' i Hi Hf Hf'.
    - cbn [skipSpTabIdx]. destruct f' as [|f']; [reflexivity|]. cbn [skipSpTabIdx]. rewrite at_P, at_beyond by lia. reflexivity.
    - cbn [skipSpTabIdx]. destruct (isSpTab (at_ R i)) eqn:Es.
      + assert (Hlt : i < len R).
        { destruct (Z.lt_ge_cases i (len R)) as [L|L]; [exact L|]. rewrite at_beyond in Es by lia. discriminate Es. }
        assert (N10 : at_ R i <> 10) by (intros Q; rewrite Q in Es; discriminate Es).
        pose proof (P_succ_n R i N10) as Hs. pose proof (phiP_lt R i (len R) Hlt) as Hl. rewrite phiP_all in Hl.
        destruct f' as [|f']; [lia|]. cbn [skipSpTabIdx]. rewrite at_P. destruct (Z.eqb_spec (at_ R i) 10); [contradiction|]. rewrite Es, <- Hs.
        apply IH; lia.
      + destruct f' as [|f']; [reflexivity|]. cbn [skipSpTabIdx]. rewrite at_P.
        destruct (Z.eqb_spec (at_ R i) 10) as [Q|Q]; [reflexivity|]. rewrite Es. reflexivity.
  Qed.

  Lemma SPI_of_PEn ik : PEn R ik -> SPI R (endOf ik) ik.
  Proof.
    intros (A & B1 & B2 & B3 & _). split; [exact A|]. split; [exact B1|]. split; [exact B2|]. split; [exact B3|].
    apply forallb_forall. intros u Hu. apply Z.leb_le. apply (in_le_last R); assumption.
  Qed.

  Theorem ocp_crlf b : len (crlf R) + ibudget (bik b) < 999 -> PEc R (bik b) ->
    onCloseParagraph (crlf R) (phiB R b) = map (phiB R) (onCloseParagraph R b).
  Proof.
    intros Hlim [HP|(a & Ea & Ha)].
    2:{ rewrite (ocp_single_empty R b a Ea). rewrite (ocp_single_empty R' (B b) (P a)); [reflexivity|]. rewrite bik_phiB, Ea. reflexivity. }
    pose proof (SPI_of_PEn _ HP) as G. destruct HP as (A & _ & _ & _ & Hbud).
    destruct (bik b) as [|first rest] eqn:Eik.
    { unfold onCloseParagraph. rewrite bik_phiB, Eik. reflexivity. }
    unfold onCloseParagraph. rewrite bik_phiB, Eik. cbn [map]. cbv zeta.
    change (F first :: map F rest) with (map F (first :: rest)).
    rewrite bkind_phiB, bend_phiB, map_length, istart_phiI.
    set (ik := first :: rest) in *. set (Eb := endOf ik) in *.
    (* the orphan *)
    match goal with |- ocp_loop _ _ _ _ ?o' _ _ = map B (ocp_loop _ _ _ _ ?o _ _) => assert (Eo : o' = option_map B o) end.
    { destruct (bkind b =? SetextHeadingKind); [|reflexivity]. cbn [option_map]. f_equal.
      rewrite <- map_rev. set (bs := match rev ik with l :: _ => iend l | [] => 0 end).
      assert (Ebs : match map F (rev ik) with l :: _ => iend l | [] => 0 end = P bs).
      { unfold bs. destruct (rev ik) as [|l t]; [symmetry; apply phiP_0|]. cbn [map]. apply iend_phiI. }
      assert (Hbs : 0 <= bs).
      { unfold bs. destruct (rev ik) as [|l t] eqn:Er; [lia|]. assert (Hin : In l ik) by (apply in_rev; rewrite Er; left; reflexivity).
        destruct (spW_in R ik l A Hin). lia. }
      rewrite Ebs. pose proof (phiP_ge R bs Hbs) as Hg. pose proof (len_nonneg R). pose proof (len_nonneg R').
      rewrite (skipSpTabIdx_F (length R) (length R') bs Hbs) by (unfold len in *; lia). reflexivity. }
    rewrite Eo.
    pose proof (len_crlf R) as Hlc. pose proof (count10_nonneg R) as Hc10.
    assert (Hne : ik <> []) by (unfold ik; discriminate).
    assert (Hin : In (last ik (mkI 0 0 0)) ik).
    { destruct (exists_last Hne) as (l' & x & E). rewrite E, last_last. apply in_or_app. right. left. reflexivity. }
    destruct (spW_in R ik _ A Hin) as (E1 & E2 & _).
    pose proof (nu_new R ik (istart first) A) as M. pose proof (nu_new R' (map F ik) (P (istart first)) (spW_F R _ A)) as M'. rewrite ibudget_F in M'.
    apply (ocp_loop_sim R Eb R13 (S (length ik)) (2 * length R + 10) (2 * length R' + 10) b _ (newReader R ik (istart first)) (newReader R' (map F ik) (P (istart first))) []); rewrite ?Eik; try (unfold len in *; lia).
    - apply RR_new, G.
    - exact G.
    - unfold Eb, endOf. lia.
  Qed.
End Main.
Print Assumptions ocp_crlf.
