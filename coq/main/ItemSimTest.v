(* ItemSimTest.v -- T65: the statement ItemSimDefs.parseBlocks_item_statement tested by vm_compute (done BEFORE proving), and instances
   showing that the hypotheses of the proved theorem are satisfiable.
   Documents: 90 hand-written ones covering every block kind (paragraph, ATX and setext heading, thematic break, bullet and ordered lists, nested,
   fenced and indented code, HTML blocks, link reference definitions, block quotes with lazy continuation and bare ">" lines, missing final newline),
   filtered by the hypotheses of the property (first byte not a space, no whitespace-only line, first line of the result not a thematic break),
   with 8 markers (-, +, *, "1.", "1)", "123.", "123456789)", "0.") and N = 1..4: 2568 instances, no failure.
   (Exhaustive runs over all strings of length <= 5 / 6 over three alphabets -- 248213 instances -- were done during development with the
   same checker; they are not repeated here to keep the compile time small.)
   FINDING of the experiments (kept in the statement): the one-item list is NOT always tight although D has no blank line: a block quote of D
   that contains a list item and then a bare ">" line gets lastLineBlank = true, and if it is not the last block of D, onCloseList makes the
   outer list loose (e.g. D = "> - a" / ">" / "b").  The looseness is ItemSimDefs.looseOf of the item's children. *)
From Coq Require Import List ZArith Lia Bool String Ascii.
Import ListNotations.
Require Import Base Tree LP Recog Driver SliceBase QuoteSimDefs ItemSimDefs.
Open Scope Z_scope.
Definition leqb {A} (f : A -> A -> bool) := fix go (l l' : list A) : bool := match l, l' with [], [] => true | x :: t, y :: t' => f x y && go t t' | _, _ => false end.
Fixpoint ieqb (a b : inline) {struct a} : bool :=
  match a, b with Inl k s e n r ks, Inl k' s' e' n' r' ks' =>
    (k =? k') && (s =? s') && (e =? e') && (n =? n') && leqb Z.eqb r r' &&
    (fix go (l : list inline) (l' : list inline) := match l, l' with [], [] => true | x :: t, y :: t' => ieqb x y && go t t' | _, _ => false end) ks ks' end.
Fixpoint beqb (a b : block) {struct a} : bool :=
  match a, b with Blk k s e bk ik ind n c l lb, Blk k' s' e' bk' ik' ind' n' c' l' lb' =>
    (k =? k') && (s =? s') && (e =? e') && (ind =? ind') && (n =? n') && (c =? c') && Bool.eqb l l' && Bool.eqb lb lb' &&
    leqb ieqb ik ik' &&
    (fix go (l : list block) (l' : list block) := match l, l' with [], [] => true | x :: t, y :: t' => beqb x y && go t t' | _, _ => false end) bk bk' end.
Definition reqb (a b : rootB) := (rb_line a =? rb_line b) && (rb_start a =? rb_start b) && (rb_end a =? rb_end b) && leqb Z.eqb (rb_src a) (rb_src b) && beqb (rb_blk a) (rb_blk b).

Definition okD (D : bytes) : bool :=
  match D with [] => false | c :: _ => negb (c =? 32) end &&
  forallb (fun l => negb (isBlankLine l)) (linesOf [] D) && forallb (fun c => negb ((c =? 9) || (c =? 13) || (c =? 0))) D.

Definition check (mk : bytes) (N : Z) (D : bytes) : bool :=
  let '(delim, _, _) := parseListMarker (mk ++ [32]) in
  let '(l, c) := parseBlocks (item mk N D) in
  let kids := itemKids (len mk + N) D (fst (parseBlocks D)) in
  let lbL := match l with r :: _ => blastBlank (rb_blk r) | [] => false end in
  let lbI := match l with r :: _ => match bkids (rb_blk r) with i :: _ => blastBlank i | [] => false end | [] => false end in
  (c =? 0) && leqb reqb l [itemRoot mk N delim D (looseOf kids) lbL lbI kids].
Definition notTB (mk : bytes) (N : Z) (D : bytes) : bool := parseThematicBreak (mk ++ spaces N ++ firstLine D) <? 0.

Definition s2b (s : string) : bytes := map (fun a => Z.of_nat (nat_of_ascii a)) (list_ascii_of_string s).
Definition n : string := String (ascii_of_nat 10) EmptyString.
Local Open Scope string_scope.
Definition docs : list string := [
  "a"; "a" ++ n; "a" ++ n ++ "b" ++ n; "# h" ++ n ++ "b"; "a" ++ n ++ "===" ++ n; "a" ++ n ++ "---" ++ n ++ "b"; "***" ++ n;
  "- x" ++ n; "- x" ++ n ++ "- y" ++ n; "- x" ++ n ++ "  z" ++ n ++ "- y";
  "1. a" ++ n ++ "   - b" ++ n ++ "   - c" ++ n ++ "2. d" ++ n;
  "```" ++ n ++ "x" ++ n ++ "y" ++ n ++ "```" ++ n; "```go" ++ n ++ "x"; "~~~" ++ n ++ "x";
  "a" ++ n ++ "    code" ++ n ++ "    more" ++ n ++ "x";
  "<div>" ++ n ++ "x" ++ n ++ "y"; "<!-- c" ++ n ++ "d -->" ++ n ++ "e"; "<pre>" ++ n ++ "a" ++ n ++ "</pre>" ++ n;
  "[a]: /u" ++ n; "[a]: /u" ++ n ++ "'t'" ++ n ++ "x" ++ n; "[a]: /u" ++ n ++ "[b]: /v 'w'" ++ n ++ "p";
  "[a]:" ++ n ++ "/u" ++ n ++ "'t" ++ n ++ "t'" ++ n; "x" ++ n ++ "[a]: /u"; "[a]: /u" ++ n ++ "===" ++ n;
  "> q" ++ n ++ "lazy" ++ n; "> q" ++ n ++ "> r" ++ n ++ "p"; "> - a" ++ n ++ ">   b" ++ n;
  "- a" ++ n ++ "lazy" ++ n; "a  " ++ n ++ "b"; "a" ++ n ++ "   b"; "# h #  " ++ n; "- " ++ n ++ "  x"; "-" ++ n ++ "  x";
  "* a" ++ n ++ "+ b" ++ n ++ "1) c"; "- a" ++ n ++ "  - b" ++ n ++ "    c" ++ n ++ "- d";
  "a" ++ n ++ "    b"; "```" ++ n ++ "```"; "#" ++ n; "a" ++ n ++ "=";
  "[a" ++ n ++ "]: /u" ++ n; "[a" ++ n ++ "b]: <>" ++ n ++ "  'x" ++ n ++ "   y'" ++ n; "[a\]]: /u (t\)" ++ n ++ "&amp;)" ++ n ++ "rest";
  "[a]: /u" ++ n ++ "'t' junk" ++ n; "[a]: /u" ++ n ++ "[b" ++ n; "x" ++ n ++ "===" ++ n ++ "[a]: /u" ++ n ++ "===" ++ n;
  "[a]: /u" ++ n ++ "x" ++ n ++ "---" ++ n ++ "y"; "[a]:   /u   " ++ n ++ "   'tt'   " ++ n;
  "<a href=x>" ++ n ++ "y" ++ n; "<?x" ++ n ++ "?>" ++ n; "<script>" ++ n ++ "</script> t" ++ n ++ "p";
  "```" ++ n ++ "  x" ++ n ++ " ```" ++ n ++ "````" ++ n ++ "```" ++ n; "~~~ a&amp;b \* c" ++ n ++ "   x" ++ n ++ " y" ++ n ++ "  ~~~  " ++ n;
  "10) x" ++ n ++ "11) y" ++ n ++ "12) z";
  "- - - a" ++ n ++ "    - b"; "- a" ++ n ++ " - b" ++ n ++ "  - c" ++ n ++ "   - d" ++ n ++ "    - e";
  "> > a" ++ n ++ "> b" ++ n ++ "c"; ">" ++ n ++ "> a" ++ n ++ ">" ++ n; ">a" ++ n ++ ">" ++ n ++ "> b";
  "> ```" ++ n ++ "> x" ++ n ++ "y"; "> # h" ++ n ++ "> ---" ++ n ++ "> a" ++ n ++ "> ===" ++ n; "- > a" ++ n ++ "  > b" ++ n ++ "- c";
  "* * *" ++ n ++ "- - -" ++ n ++ "___"; "# a" ++ n ++ "## b ##" ++ n ++ "####### c" ++ n ++ "#" ++ n ++ "# #";
  "a" ++ n ++ "# b" ++ n ++ "c" ++ n ++ "- d" ++ n ++ "e" ++ n ++ "```" ++ n ++ "f"; "a" ++ n ++ "1. b" ++ n ++ "2. c" ++ n ++ "<div>" ++ n ++ "d";
  "- a" ++ n ++ "- b" ++ n ++ "- c" ++ n; "- a" ++ n ++ "  - b" ++ n ++ "- c"; "- a" ++ n ++ "  ```" ++ n ++ "  ```" ++ n ++ "- b";
  "-   a" ++ n ++ "    b"; "-     code" ++ n ++ "  p"; "1.  a" ++ n ++ "    b" ++ n ++ "   c";
  "- -"; "-"; "- - -"; "* *"; "--"; "1."; "1. 2. 3."; "-" ++ n ++ "-"; ">" ++ n ++ "a"; "- a" ++ n ++ ">" ++ n ++ "- b"
].
Close Scope string_scope.
Definition mks : list bytes := [[45]; [43]; [42]; [49;46]; [49;41]; [49;50;51;46]; [49;50;51;52;53;54;55;56;57;41]; [48;46]].
Definition fails : list (bytes * Z * bytes) :=
  flat_map (fun mk => flat_map (fun N => flat_map (fun d => let D := s2b d in
     if okD D && notTB mk N D && negb (check mk N D) then [(mk, N, D)] else []) docs) [1;2;3;4]) mks.
Definition counted : Z := len (flat_map (fun mk => flat_map (fun N => flat_map (fun d => let D := s2b d in
     if okD D && notTB mk N D then [tt] else []) docs) [1;2;3;4]) mks).
Example counted_2568 : counted = 2568. Proof. vm_compute. reflexivity. Qed.
Example no_failure : fails = []. Proof. vm_compute. reflexivity. Qed.

(* ---- instances of the theorem: the hypotheses are satisfiable ---- *)
Require Import ItemSimMain.
Local Open Scope string_scope.
Definition D1 : bytes := s2b ("> - a" ++ n ++ ">" ++ n ++ "b").     (* the loose case *)
Definition D2 : bytes := s2b ("[a]: /u" ++ n ++ "'t'" ++ n ++ "# h" ++ n ++ "- x" ++ n ++ "  y").
Close Scope string_scope.
Ltac tabfree := unfold tabFreeD; repeat (constructor; [repeat split; discriminate|]); constructor.
Ltac okdoc := unfold okDoc; split; [eexists; eexists; split; [reflexivity|discriminate]|cbn [linesOf Z.eqb Pos.eqb rev app]; repeat (constructor; [reflexivity|]); constructor].
Lemma D1_eq : D1 = [62;32;45;32;97;10;62;10;98]. Proof. vm_compute. reflexivity. Qed.
Lemma D2_eq : D2 = [91;97;93;58;32;47;117;10;39;116;39;10;35;32;104;10;45;32;120;10;32;32;121]. Proof. vm_compute. reflexivity. Qed.
Example item_D1 : exists lbL lbI,
  parseBlocks (item [45] 2 D1) = ([itemRoot [45] 2 45 D1 true lbL lbI (itemKids 3 D1 (fst (parseBlocks D1)))], 0).
Proof.
  destruct (parseBlocks_item [45] 45 2 D1) as (lbL & lbI & E).
  - left. split; [reflexivity|left; reflexivity].
  - lia.
  - rewrite D1_eq. tabfree.
  - rewrite D1_eq. okdoc.
  - vm_compute. reflexivity.
  - exists lbL, lbI. rewrite E. f_equal.
Qed.
Example item_D2 : exists lbL lbI,
  parseBlocks (item [49;50;41] 4 D2) = ([itemRoot [49;50;41] 4 41 D2 false lbL lbI (itemKids 7 D2 (fst (parseBlocks D2)))], 0).
Proof.
  destruct (parseBlocks_item [49;50;41] 41 4 D2) as (lbL & lbI & E).
  - right. exists [49;50]. split; [reflexivity|]. split; [discriminate|]. split; [cbn; lia|]. split; [repeat constructor; lia|right; reflexivity].
  - lia.
  - rewrite D2_eq. tabfree.
  - rewrite D2_eq. okdoc.
  - vm_compute. reflexivity.
  - exists lbL, lbI. rewrite E. f_equal.
Qed.
Print Assumptions item_D1.
