(* IFull4.v -- T71: the looseness of the one-item list can be read off the tree after the inline pass as well:
   looseOf depends only on the kinds, the lastLineBlank flags and the nesting of the blocks, which neither the inline pass nor the
   position maps change.  Hence parseFull_item with `looseOf` of the final children. *)
From Coq Require Import List ZArith Lia Bool.
Import ListNotations.
Require Import Base Tree Recog LP Driver Inl3a Inl3e QuoteSimDefs ItemSimDefs QFull1 IFullDefs IFull1 IFull3.
Open Scope Z_scope.

Inductive sh : Type := Sh (k : Z) (lb : bool) (kids : list sh).
Fixpoint shapeOf (b : block) : sh := match b with Blk k _ _ bk _ _ _ _ _ lb => Sh k lb (map shapeOf bk) end.
Lemma shapeOf_eq b : shapeOf b = Sh (bkind b) (blastBlank b) (map shapeOf (bkids b)). Proof. destruct b; reflexivity. Qed.

Lemma map_eq_rev_head {A B} (f : A -> B) (l l' : list A) : map f l = map f l' ->
  match rev l, rev l' with x :: _, y :: _ => f x = f y | [], [] => True | _, _ => False end.
Proof.
  intros E. assert (E' : map f (rev l) = map f (rev l')) by (rewrite !map_rev, E; reflexivity).
  destruct (rev l) as [|x r], (rev l') as [|y r']; try discriminate E'; [exact I|]. cbn [map] in E'. injection E' as E1 _. exact E1.
Qed.
Lemma ewbl_shape : forall h b b', shapeOf b = shapeOf b' -> endsWithBlankLine h b = endsWithBlankLine h b'.
Proof.
  induction h as [|h IH]; intros b b' E; [reflexivity|]. rewrite (shapeOf_eq b), (shapeOf_eq b') in E. injection E as Ek El Ekids.
  cbn [endsWithBlankLine]. rewrite Ek, El. destruct (blastBlank b'); [reflexivity|]. destruct (negb _); [reflexivity|].
  unfold lastBlock. pose proof (map_eq_rev_head shapeOf _ _ Ekids) as X.
  destruct (rev (bkids b)) as [|x r], (rev (bkids b')) as [|y r']; try contradiction; [reflexivity|]. apply IH, X.
Qed.
Lemma bheight_shape : forall b b', shapeOf b = shapeOf b' -> bheight b = bheight b'.
Proof.
  fix IH 1. intros [k s e bk ik a n c l lb] [k' s' e' bk' ik' a' n' c' l' lb'] E. cbn [shapeOf] in E. injection E as _ _ Ekids. cbn [bheight]. f_equal.
  clear -IH Ekids. revert bk' Ekids. induction bk as [|x r IHr]; intros [|y r'] Ekids; try discriminate Ekids; [reflexivity|].
  cbn [map] in Ekids. injection Ekids as Ex Er. cbn [map fold_right]. rewrite (IH x y Ex), (IHr r' Er). reflexivity.
Qed.
Lemma looseOf_shape : forall l l', map shapeOf l = map shapeOf l' -> looseOf l = looseOf l'.
Proof.
  assert (G : forall l l', map shapeOf l = map shapeOf l' -> existsb ewbl l = existsb ewbl l').
  { induction l as [|x r IH]; intros [|y r'] E; try discriminate E; [reflexivity|]. cbn [map] in E. injection E as Ex Er. cbn [existsb].
    rewrite (IH r' Er). f_equal. unfold ewbl. rewrite (bheight_shape x y Ex). apply ewbl_shape, Ex. }
  intros l l' E. unfold looseOf. apply G.
  revert l' E. induction l as [|x r IH]; intros [|y r'] E; try discriminate E; [reflexivity|]. cbn [map] in E. injection E as Ex Er.
  destruct r as [|x2 r2], r' as [|y2 r2']; try discriminate Er; [reflexivity|].
  change (removelast (x :: x2 :: r2)) with (x :: removelast (x2 :: r2)). change (removelast (y :: y2 :: r2')) with (y :: removelast (y2 :: r2')).
  cbn [map]. rewrite Ex. f_equal. apply IH, Er.
Qed.

(* the maps and the inline pass keep the shape *)
Lemma shape_map (g : block -> block) : (forall b, bkind (g b) = bkind b /\ blastBlank (g b) = blastBlank b /\ bkids (g b) = map g (bkids b)) ->
  forall b, shapeOf (g b) = shapeOf b.
Proof.
  intros Hg. fix IH 1. intros b. rewrite (shapeOf_eq (g b)), (shapeOf_eq b). destruct (Hg b) as (-> & -> & ->). f_equal.
  destruct b as [k s e bk ik a n c l lb]. cbn [bkids]. rewrite map_map. clear -IH. induction bk as [|x r IHr]; [reflexivity|]. cbn [map]. rewrite IH, IHr. reflexivity.
Qed.
Lemma shape_shiftB n b : shapeOf (shiftB n b) = shapeOf b.
Proof. apply shape_map. intros x. destruct x; repeat split. Qed.
Lemma shape_iB K D b : shapeOf (iB K D b) = shapeOf b.
Proof. apply shape_map. intros x. destruct x; repeat split. Qed.
Lemma shape_iB3 K D b : shapeOf (iB3 K D b) = shapeOf b.
Proof. apply shape_map. intros x. destruct x; repeat split. Qed.
Lemma shape_rewriteB src m : forall f b, shapeOf (rewriteB f src m b) = shapeOf b.
Proof.
  induction f as [|f IH]; intros b; [reflexivity|]. cbn [rewriteB]. destruct (_ && _).
  - destruct b; reflexivity.
  - rewrite (shapeOf_eq (set_bkids _ _)), (shapeOf_eq b). destruct b as [k s e bk ik a n c l lb]. cbn [set_bkids bkind blastBlank bkids]. f_equal.
    rewrite map_map. apply map_ext. intros x. apply IH.
Qed.

Lemma looseOf_final K D : looseOf (itemKids3 K D (fst (parseFull D))) = looseOf (itemKids K D (fst (parseBlocks D))).
Proof.
  apply looseOf_shape. unfold parseFull. destruct (parseBlocks D) as [roots code]. cbn [fst]. unfold itemKids3, itemKids. rewrite !map_map.
  apply map_ext. intros r. cbn [rb_start rb_blk]. rewrite shape_iB3, shape_iB, !shape_shiftB. apply shape_rewriteB.
Qed.

(* (1) with the looseness read off the final tree *)
Theorem parseFull_item_final : forall mk delim N D, itemHyps mk delim N D ->
  let kids := itemKids3 (len mk + N) D (fst (parseFull D)) in
  exists lbL lbI, parseFull (item mk N D) = ([itemRoot mk N delim D (looseOf kids) lbL lbI kids], 0).
Proof.
  intros mk delim N D HH. cbv zeta. rewrite looseOf_final. apply (parseFull_item mk delim N D HH).
Qed.
Print Assumptions parseFull_item_final.
