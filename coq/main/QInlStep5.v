(* QInlStep5.v -- T64 (asm): the statement of the ']' branch (parseEndBracket on the two sides), proved in QInlStep7.v, and one whole
   step of the tokeniser (Inl3e.istep) on the two sides, given that statement. *)
From Coq Require Import List ZArith Lia Bool.
Import ListNotations.
Require Import Base Tables Utf8 Tree Rdr Link Collect Html Recog Inl3a Inl3b Inl3c Inl3d Driver Inl3e.
Require Import ShapesBase ShapesR IFBase IFCollect GI4 GI6 IS0 IS3 IS6a IS6b IS6 IFTokDef IFTokAux IFTokUm IFFrame IFTokLoop IFTk1 IFTk2 IFTk3 IFTk4.
Require Import SpanSmall.
Require Import QCutsDef QCuts QIRdrBase QIRdrLink QIRdrCollect QInlDefs QInlBytes QInlBytesEmph QInlHtml QInlTree1 QInlTree2 QInlTree3 QInlTree.
Require Import QInlStep0 QInlStep1 QInlStep2 QInlStep3 QInlStep4 QInlStepF.
Open Scope Z_scope.

Section Step5.
  Variables (sD sQ : bytes) (sg : Z -> Z) (U : list inline).
  Hypothesis SG : SGood sD sQ sg.
  Hypothesis GP : GapSp sD sQ sg.
  Hypothesis HG : Forall (gsp sD sg U) U.
  Hypothesis HOK : spOK sD U = true.
  Hypothesis HKl : forall u, In u U -> ikids u = [].
  Hypothesis HLn : IS6b.linesOK sD U = true.
  Hypothesis HNG : NoGtBehindLast sD U.
  Set Default Proof Using "All".
  Local Notation Hy l := (l sD sQ sg U SG GP HG HOK HKl HLn HNG) (only parsing).
  Notation tr := (QInlBytes.tr sg).
  Notation IR := (QInlDefs.IR sD sQ sg).
  Notation SL := (QInlTree1.SL sD).
  Notation curU := QInlTree3.curU.
  Notation Ctx := (Ctx sD sQ sg U).
  Notation T3 := (T3 sD sQ sg U).
  Notation PosR := (PosR sg U).

  (* the ']' branch: the plain state satisfies the single-run invariants of IS3 / GI4 / IFTk1 *)
  Definition BracketOK : Prop := forall st st' u start hi,
    Ctx st st' u -> istart u <= start < iend u -> at_ sD start = 93 ->
    MI true U st -> J sD U hi st -> hi <= start -> TKb (nid st) st -> load st <= len sD ->
    (forall v, In v U -> iend v <= rootEnd st) ->
    IR (fst (parseEndBracket st start)) (fst (parseEndBracket st' (tr u start))) /\ SL (rk (fst (parseEndBracket st start))) /\
    PosR (fst (parseEndBracket st start)) (fst (parseEndBracket st' (tr u start)))
         (snd (parseEndBracket st start)) (snd (parseEndBracket st start))
         (snd (parseEndBracket st' (tr u start))) (snd (parseEndBracket st' (tr u start))).

  Lemma LI_K st pos : LI sD U st pos -> K sD U st pos.
  Proof.
    intros [A B C D E]. pose proof (j_src _ _ _ _ C) as Es. pose proof (j_unp _ _ _ _ C) as Eu.
    split; [exact Es|]. split; [exact Eu|]. split; [|split; [lia|]].
    - destruct (Z.ltb_spec (upos st) (len U)) as [L|L].
      + destruct (E L) as [E1 _]. destruct (nthU_range sD U HOK (upos st) ltac:(lia)) as (R1 & _). lia.
      + destruct C as [_ _ _ _ _ _ G _]. pose proof (chain_le sD _ _ _ _ G). lia.
    - intros L. apply (E L).
  Qed.

  Lemma T3_unfold x y : T3 x y = (IR (fst (fst x)) (fst (fst y)) /\ SL (rk (fst (fst x))) /\ PosR (fst (fst x)) (fst (fst y)) (snd (fst x)) (snd x) (snd (fst y)) (snd y)).
  Proof. reflexivity. Qed.

  (* ---------------------------------------------------------------- one step *)
  Lemma istep_q st st' u pos pl : BracketOK -> Ctx st st' u -> LI sD U st pos -> TKL sD U st pos ->
    (forall v, In v U -> iend v <= rootEnd st) -> istart u <= pl -> pl <= pos -> pos < iend u ->
    T3 (istep st pos pl) (istep st' (tr u pos) (tr u pl)).
  Proof.
    intros HB HC HLI HT HR H1 H2 H3. pose proof HC as (HI & HS & Eu & Hu & Ecu).
    destruct ((Hy Ctx_facts) st st' u HC) as (Hin & Gu & Es & Es' & Ee & Ee' & El & _). pose proof Gu as (Ua & Ub & Uc & _).
    pose proof ((Hy Ctx_addText) st st' u pl pos HC H1 H2 ltac:(lia)) as HCa. pose proof HCa as (HIa & HSa & Eua & Hua & Ecua).
    destruct ((Hy Ctx_facts) _ _ u HCa) as (_ & _ & Esa & Esa' & Eea & Eea' & Ela & _).
    unfold istep. cbv zeta. rewrite Es, Es', Ee, Ee', El.
    rewrite (at_tr sD sQ sg U SG u Gu pos) by lia.
    set (c := at_ sD pos).
    destruct ((c =? 42) || (c =? 95)) eqn:E1.
    { apply (Hy q_branch_delim); try assumption. fold c. intros E10. rewrite E10 in E1. discriminate E1. }
    destruct (c =? 91) eqn:E2.
    { apply ((Hy q_branch_open) st st' u pos pl 1 tLink HC H1 H2); lia. }
    destruct (c =? 93) eqn:E3.
    { apply Z.eqb_eq in E3. unfold c in E3.
      destruct (cur_facts sD U HOK st pos HLI ltac:(lia) ltac:(rewrite Ee; lia)) as (_ & _ & _ & _ & _ & HJ). cbv zeta in HJ.
      assert (HMa : MI true U (addText st pl pos)) by (apply MI_addText, (li_mi _ _ _ _ HLI)).
      assert (HJa : J sD U pos (addText st pl pos)) by (apply J_addText; [exact HJ|lia]).
      destruct HT as (T1 & T2 & T3').
      destruct (G_nid _ _ _ (G_addText (nid st) st st pl pos (Good_refl _ _ T1))) as [Ta La].
      assert (HRa : forall v, In v U -> iend v <= rootEnd (addText st pl pos)).
      { intros v Hv. destruct (rE_addText st pl pos) as [-> _]. apply HR, Hv. }
      destruct (HB (addText st pl pos) (addText st' (tr u pl) (tr u pos)) u pos pos HCa ltac:(lia) E3 HMa HJa ltac:(lia) Ta ltac:(lia) HRa) as (B1 & B2 & B3).
      destruct (parseEndBracket (addText st pl pos) pos) as [s1 e1]. destruct (parseEndBracket (addText st' (tr u pl) (tr u pos)) (tr u pos)) as [s1' e1'].
      cbn [fst snd] in *. rewrite T3_unfold. cbn [fst snd]. split; [exact B1|]. split; [exact B2|exact B3]. }
    destruct (c =? 33) eqn:E4.
    { rewrite (test_or_neg sD sQ sg U SG u Gu pos 1 91) by lia.
      destruct ((iend u <=? pos + 1) || negb (at_ sD (pos + 1) =? 91)) eqn:Et.
      - apply ((Hy q_branch_skip) st st' u pos pl 1 HC H1 H2); lia.
      - apply orb_false_iff in Et. destruct Et as [Et _]. apply Z.leb_gt in Et.
        apply ((Hy q_branch_open) st st' u pos pl 2 tImage HC H1 H2); lia. }
    destruct (c =? 32) eqn:E5.
    { rewrite (parseHardLineBreakSpace_tr sD sQ sg U SG u Gu pos) by lia.
      pose proof (hlb_bounds (sub sD pos (iend u))) as Hb. rewrite (len_sub_tr sD sg U u Gu pos (iend u)) in Hb by lia.
      destruct (parseHardLineBreakSpace (sub sD pos (iend u))) as [e ok]. cbn [fst] in Hb.
      destruct (ok && negb (isLastSpan st)).
      - apply ((Hy q_branch_node) st st' u pos pl e HardLineBreakKind [] (fun s => setIgn s true) HC H1 H2); try lia; [constructor| |].
        + intros a a' Ha. apply (IR_setIgn sD sQ sg), Ha.
        + intros a. split; [reflexivity|split; reflexivity].
      - apply ((Hy q_branch_skip) st st' u pos pl e HC H1 H2); lia. }
    destruct (c =? 96) eqn:E6.
    { apply ((Hy q_branch_code) st st' u pos pl HC H1 H2 H3). }
    destruct (c =? 60) eqn:E7.
    { rewrite (parseAutolink_tr sD sQ sg U SG u Gu pos) by lia.
      destruct (Z.leb_spec 0 (parseAutolink (sub sD pos (iend u)))) as [La|La].
      - pose proof (parseAutolink_bounds _ La) as Hb. rewrite (len_sub_tr sD sg U u Gu pos (iend u)) in Hb by lia.
        set (ae := parseAutolink (sub sD pos (iend u))) in *.
        replace (ae + pos) with (pos + ae) by lia. replace (ae + tr u pos) with (tr u pos + ae) by lia.
        replace (tr u pos + ae - 1) with (tr u (pos + ae) - 1) by (rewrite tr_add; reflexivity).
        rewrite <- (autolink_kid sD sQ sg U SG GP HG HOK HKl HLn HNG u pos (pos + ae) Gu ltac:(lia) ltac:(lia) ltac:(lia)).
        apply ((Hy q_branch_node) st st' u pos pl ae AutolinkKind [PN 0 TextKind (pos + 1) (pos + ae - 1) 0 [] []] (fun s => s) HC H1 H2); try lia.
        + apply SL_cons. split; [|constructor]. constructor; [intros N; exfalso; apply N; reflexivity|constructor].
        + intros a a' Ha. exact Ha.
        + intros a. split; [reflexivity|split; reflexivity].
      - apply ((Hy q_branch_html) st st' u pos pl HC H1 H2 H3). }
    destruct (c =? 92) eqn:E8.
    { apply ((Hy q_branch_backslash) st st' u pos pl HC H1 H2 H3). }
    destruct (c =? 38) eqn:E9.
    { rewrite (parseCharacterEscape_tr sD sQ sg U SG u Gu pos) by lia.
      destruct (Z.ltb_spec (parseCharacterEscape (sub sD pos (iend u))) 0) as [La|La].
      - apply ((Hy q_branch_skip) st st' u pos pl 1 HC H1 H2); lia.
      - pose proof (parseCharacterEscape_bounds _ La) as Hb. rewrite (len_sub_tr sD sg U u Gu pos (iend u)) in Hb by lia.
        apply ((Hy q_branch_node) st st' u pos pl _ CharacterReferenceKind [] (fun s => s) HC H1 H2); try lia; [constructor| |].
        + intros a a' Ha. exact Ha.
        + intros a. split; [reflexivity|split; reflexivity]. }
    assert (Hsoft : forall w, 0 <= w -> pos + w <= iend u ->
      T3 (let st0 := addText st pl pos in
          let st1 := if negb (isLastSpan st0) then fst (addNode st0 SoftLineBreakKind pos (pos + w) []) else st0 in (st1, pos + w, pos + w))
         (let st0 := addText st' (tr u pl) (tr u pos) in
          let st1 := if negb (isLastSpan st0) then fst (addNode st0 SoftLineBreakKind (tr u pos) (tr u pos + w) []) else st0 in (st1, tr u pos + w, tr u pos + w))).
    { intros w Hw0 Hw. cbv zeta. rewrite Ela. destruct (negb (isLastSpan (addText st pl pos))).
      - apply ((Hy q_branch_node) st st' u pos pl w SoftLineBreakKind [] (fun s => s) HC H1 H2); try lia; [constructor| |].
        + intros a a' Ha. exact Ha.
        + intros a. split; [reflexivity|split; reflexivity].
      - rewrite <- tr_add. apply ((Hy T3_same) _ _ u _ _ (pos + w) (pos + w) HCa HIa HSa eq_refl eq_refl); lia. }
    destruct (c =? 10) eqn:E10.
    { apply (Hsoft 1); lia. }
    destruct (c =? 13) eqn:E11.
    { rewrite Eea, Eea'. rewrite (test_and sD sQ sg U SG u Gu pos 1 10) by lia.
      destruct ((pos + 1 <? iend u) && (at_ sD (pos + 1) =? 10)) eqn:Et.
      - apply andb_true_iff in Et. destruct Et as [Et _]. apply Z.ltb_lt in Et. apply (Hsoft 2); lia.
      - apply (Hsoft 1); lia. }
    apply ((Hy q_branch_skip) st st' u pos pl 1 HC H1 H2); lia.
  Qed.
End Step5.
