From Coq Require Import List ZArith Lia Bool.
Import ListNotations.
Require Import Base Tree Rdr Link Collect Html Recog LP Rules Starts Driver Render L2Kind L2CC GramDefs GramTree GramLP GramLP2 GramLP3 GramLP4
  Rec17 Rec18 BSLine1 BSLine3 BSLine4 TilBase TilDefs TilLP1 TilLP2 TilLP3 TilLP6 TilLP7 TilLP10 TilLP11.
Open Scope Z_scope.

(* ================= the frame: no step of the line parser changes source, line start or line ================= *)

Ltac frt :=
  lazymatch goal with
  | |- fr _ (consumeIndent ?q _) => apply (fr_trans _ q); [|apply fr_cstep, cstep_consumeIndent]; frt
  | |- fr _ (advance ?q _) => apply (fr_trans _ q); [|apply fr_cstep, cstep_advance]; frt
  | |- fr _ (consumeLine ?q) => apply (fr_trans _ q); [|apply fr_cstep, cstep_consumeLine]; frt
  | |- fr _ (updCont ?q _) => apply (fr_trans _ q); [|apply fr_updCont]; frt
  | |- fr _ (openBlock ?q _) => apply (fr_trans _ q); [|apply fr_openBlock]; frt
  | |- fr _ (endBlock ?q) => apply (fr_trans _ q); [|apply fr_endBlock]; frt
  | |- fr _ (collectInline ?q _ _) => apply (fr_trans _ q); [|apply fr_collectInline]; frt
  | |- fr _ (withState ?q _) => apply (fr_trans _ q); [|apply fr_fields; reflexivity]; frt
  | |- fr _ (withCont ?q _) => apply (fr_trans _ q); [|apply fr_fields; reflexivity]; frt
  | |- fr _ (closeLastChildAt ?q _ _) => apply (fr_trans _ q); [|apply fr_closeAt]; frt
  | |- fr ?p ?q => tryif constr_eq p q then apply fr_refl else idtac
  | |- _ => idtac
  end.

Lemma fr_matchRule q : fr q (snd (matchRule q)).
Proof.
  destruct (matchRule_cases q) as [Hc|[_ Eq]]; [exact (fr_cstep _ _ Hc)|]. rewrite Eq.
  eapply fr_trans; [|apply fr_cstep, cstep_consumeLine]. apply fr_collectInline.
Qed.
Lemma fr_descend_loop : forall fuel p d, fr p (snd (descend_loop fuel p d)).
Proof.
  induction fuel as [|f IH]; intros p d; [cbn [descend_loop snd]; frt|]. cbn [descend_loop]. cbv zeta.
  destruct (getAt (S d) (root p)) as [c|]; [|cbn [snd]; frt].
  destruct (negb (isOpen c)); [cbn [snd]; frt|]. destruct (negb (hasMatch _)); [cbn [snd]; frt|].
  set (q := withState (withCont p (Some (S d))) stDescending).
  assert (Fq : fr p q) by (unfold q; frt).
  pose proof (fr_matchRule q) as F2. destruct (matchRule q) as [ok p2]. cbn [snd] in F2.
  assert (F02 : fr p p2) by (apply (fr_trans p q p2); assumption).
  destruct (state p2 =? stDescendTerminated); [cbn [snd]; eapply fr_trans; [exact F02|frt]|].
  destruct (negb ok); [cbn [snd]; eapply fr_trans; [exact F02|frt]|]. eapply fr_trans; [exact F02|apply IH].
Qed.

Definition startFr (f : lp -> lp) : Prop := forall p, fr p (f p).
Lemma blockStarts_fr : Forall startFr blockStarts.
Proof.
  unfold blockStarts. repeat apply Forall_cons; try apply Forall_nil; intros p.
  - unfold startBlockQuote. cbv zeta. destruct (_ <=? _); [frt|]. destruct (negb _); [frt|]. destruct (0 <? _); frt.
  - unfold startATX. cbv zeta. destruct (_ <=? _); [frt|]. destruct (parseATXHeading _) as [[level cs] ce]. destruct (level <? 1); frt.
  - unfold startFenced. cbv zeta. destruct (_ <=? _); [frt|]. destruct (parseCodeFence _) as [[[fc fnn] is_] ie]. destruct (fnn =? 0); [frt|].
    eapply fr_trans; [|apply fr_cstep, cstep_consumeLine]. destruct (spanValid _); frt.
  - unfold startHTML. cbv zeta. destruct (_ <=? _); [frt|]. destruct (negb _); [frt|]. destruct (_ <? 0); [frt|]. destruct (negb _ && _); [frt|].
    destruct (htmlEnd _ _); frt.
  - unfold startSetext. cbv zeta. destruct (negb _); [frt|]. destruct (_ <=? _); [frt|]. destruct (_ =? 0); [frt|]. destruct (negb _); frt.
  - unfold startThematic. cbv zeta. destruct (_ <=? _); [frt|]. destruct (_ <? 0); frt.
  - unfold startListItem. cbv zeta. destruct (_ <=? _); [frt|].
    destruct (parseListMarker _) as [[delim n] mend]. destruct (_ || _); [frt|]. destruct (_ && _); [frt|].
    set (p1 := consumeIndent p (indent p)).
    set (p2 := if negb (containerKind p1 =? ListKind) || negb (_ =? delim) then _ else p1).
    assert (F2 : fr p p2) by (unfold p2; destruct (_ || _); unfold p1; frt).
    match goal with |- context [endBlock ?X] => set (q := endBlock X) end.
    assert (Fq : fr p q) by (unfold q; eapply fr_trans; [exact F2|frt]).
    destruct (isRestBlank q); [eapply fr_trans; [exact Fq|frt]|].
    destruct (indent q <? 1); [cbv beta iota; eapply fr_trans; [exact Fq|frt]|].
    destruct (4 <? indent q); cbv beta iota; (eapply fr_trans; [exact Fq|frt]).
  - unfold startIndented. destruct (_ || _ || _); frt.
Qed.
Lemma fr_tryStarts : forall fs p, Forall startFr fs -> fr p (snd (tryStarts fs p)).
Proof.
  induction fs as [|f r IH]; intros p Hfs; [apply fr_refl|]. cbn [tryStarts]. cbv zeta. inversion Hfs as [|? ? Hf Hr]; subst.
  assert (F1 : fr p (f (withState p stOpening))) by (eapply fr_trans; [|apply Hf]; frt).
  destruct (_ || _); [exact F1|]. eapply fr_trans; [exact F1|apply IH, Hr].
Qed.
Lemma fr_opening_loop : forall fuel p, fr p (snd (opening_loop fuel p)).
Proof.
  induction fuel as [|f IH]; intros p; [apply fr_refl|]. cbn [opening_loop].
  destruct (_ || _); [|apply fr_refl].
  pose proof (fr_tryStarts blockStarts p blockStarts_fr) as F1. destruct (tryStarts blockStarts p) as [[|] p1]; cbn [snd] in *; [|exact F1].
  destruct (_ =? stLineConsumed); [exact F1|]. eapply fr_trans; [exact F1|apply IH].
Qed.
Lemma fr_deferredClose p : fr p (deferredClose p).
Proof. unfold deferredClose. cbv zeta. destruct (_ && _); frt. Qed.
Lemma fr_openNewBlocks p am : fr p (snd (openNewBlocks p am)).
Proof.
  unfold openNewBlocks. destruct (_ =? 0); [cbn [snd]; apply fr_fields; reflexivity|].
  pose proof (fr_opening_loop (S (length (line p))) p) as F1. destruct (opening_loop _ p) as [ht p1]. cbn [snd] in F1.
  destruct am; cbn [snd]; [exact F1|]. eapply fr_trans; [exact F1|apply fr_deferredClose].
Qed.
Lemma fr_goF q : fr q (goF q).
Proof. unfold goF. cbv zeta. destruct (_ && _); frt. Qed.
Lemma fr_addLineText p : fr p (addLineText p).
Proof.
  rewrite addLineText_eq.
  assert (F1 : fr p (alP1 p)) by (unfold alP1; destruct (isRestBlank p); frt).
  assert (F2 : fr p (alP2 p)) by (eapply fr_trans; [exact F1|apply fr_fields; reflexivity]).
  destruct (acceptsLines _).
  - eapply fr_trans; [|apply fr_goF]. destruct (tabCond _); [|exact F2]. eapply fr_trans; [exact F2|]. unfold addInd. frt.
  - destruct (negb _); [|exact F2]. eapply fr_trans; [|apply fr_goF]. eapply fr_trans; [exact F2|]. frt.
Qed.
