From Coq Require Import List ZArith Lia Bool.
Import ListNotations.
Require Import Base Tree Rdr Link Collect Html Recog LP Rules Starts Driver.
Open Scope Z_scope.

(* T50 continuation, file 1: replacing the tree and the container of a line parser commutes with everything that only moves the
   cursor.  swapRC p rt ct is p with root rt and container ct. *)
Definition swapRC (p : lp) (rt : block) (ct : option nat) : lp :=
  setLP p rt ct (li p) (col p) (tabRem p) (state p) (panicked p).

Lemma swapRC_id p : swapRC p (root p) (container p) = p.
Proof. destruct p; reflexivity. Qed.
Lemma swapRC_swapRC p rt ct rt' ct' : swapRC (swapRC p rt ct) rt' ct' = swapRC p rt' ct'.
Proof. reflexivity. Qed.
Lemma root_swapRC p rt ct : root (swapRC p rt ct) = rt. Proof. reflexivity. Qed.
Lemma container_swapRC p rt ct : container (swapRC p rt ct) = ct. Proof. reflexivity. Qed.
Lemma state_swapRC p rt ct : state (swapRC p rt ct) = state p. Proof. reflexivity. Qed.
Lemma li_swapRC p rt ct : li (swapRC p rt ct) = li p. Proof. reflexivity. Qed.
Lemma line_swapRC p rt ct : line (swapRC p rt ct) = line p. Proof. reflexivity. Qed.
Lemma lineStart_swapRC p rt ct : lineStart (swapRC p rt ct) = lineStart p. Proof. reflexivity. Qed.
Lemma source_swapRC p rt ct : source (swapRC p rt ct) = source p. Proof. reflexivity. Qed.
Lemma panicked_swapRC p rt ct : panicked (swapRC p rt ct) = panicked p. Proof. reflexivity. Qed.

Lemma withState_swapRC p rt ct s : withState (swapRC p rt ct) s = swapRC (withState p s) rt ct.
Proof. reflexivity. Qed.
Lemma withCursor_swapRC p rt ct a b c : withCursor (swapRC p rt ct) a b c = swapRC (withCursor p a b c) rt ct.
Proof. reflexivity. Qed.
Lemma panic_swapRC p rt ct s : panic (swapRC p rt ct) s = swapRC (panic p s) rt ct.
Proof. reflexivity. Qed.

Lemma rest_swapRC p rt ct : rest (swapRC p rt ct) = rest p. Proof. reflexivity. Qed.
Lemma bytesAfterIndent_swapRC p rt ct : bytesAfterIndent (swapRC p rt ct) = bytesAfterIndent p. Proof. reflexivity. Qed.
Lemma isRestBlank_swapRC p rt ct : isRestBlank (swapRC p rt ct) = isRestBlank p. Proof. reflexivity. Qed.
Lemma indent_swapRC p rt ct : indent (swapRC p rt ct) = indent p. Proof. reflexivity. Qed.

Lemma opened_swapRC p rt ct :
  (if state (swapRC p rt ct) =? stOpening then withState (swapRC p rt ct) stOpenMatched else swapRC p rt ct) =
  swapRC (if state p =? stOpening then withState p stOpenMatched else p) rt ct.
Proof. rewrite state_swapRC. destruct (state p =? stOpening); reflexivity. Qed.

Lemma advance_swapRC p rt ct n : advance (swapRC p rt ct) n = swapRC (advance p n) rt ct.
Proof.
  unfold advance. destruct (n <? 0); [reflexivity|]. destruct (n =? 0); [reflexivity|]. cbv zeta.
  rewrite opened_swapRC. set (q := if state p =? stOpening then withState p stOpenMatched else p).
  rewrite li_swapRC, line_swapRC. destruct (len (line q) <? li q + n); [reflexivity|]. reflexivity.
Qed.

Lemma consumeLine_swapRC p rt ct : consumeLine (swapRC p rt ct) = swapRC (consumeLine p) rt ct.
Proof.
  unfold consumeLine. cbv zeta. rewrite line_swapRC, li_swapRC, advance_swapRC, state_swapRC.
  set (q := advance p (len (line p) - li p)).
  destruct ((state q =? stOpening) || (state q =? stOpenMatched)); [reflexivity|].
  destruct (state q =? stDescending); reflexivity.
Qed.

Lemma consumeIndent_loop_swapRC rt ct : forall fuel p n,
  consumeIndent_loop fuel (swapRC p rt ct) n = swapRC (consumeIndent_loop fuel p n) rt ct.
Proof.
  induction fuel as [|f IH]; intros p n; [reflexivity|]. cbn [consumeIndent_loop]. cbv zeta.
  destruct (n <=? 0); [reflexivity|]. rewrite opened_swapRC.
  set (q := if state p =? stOpening then withState p stOpenMatched else p).
  rewrite li_swapRC, line_swapRC.
  destruct ((li q <? len (line q)) && (at_ (line q) (li q) =? 32)).
  - rewrite withCursor_swapRC. apply IH.
  - destruct ((li q <? len (line q)) && (at_ (line q) (li q) =? 9)); [|reflexivity].
    change (tabRem (swapRC q rt ct)) with (tabRem q). change (col (swapRC q rt ct)) with (col q).
    destruct (n <? tabRem q); [reflexivity|]. rewrite withCursor_swapRC. apply IH.
Qed.
Lemma consumeIndent_swapRC p rt ct n : consumeIndent (swapRC p rt ct) n = swapRC (consumeIndent p n) rt ct.
Proof. unfold consumeIndent. rewrite line_swapRC. apply consumeIndent_loop_swapRC. Qed.

(* the cursor operations leave root and container alone *)
Lemma root_advance p n : root (advance p n) = root p.
Proof.
  unfold advance. destruct (n <? 0); [reflexivity|]. destruct (n =? 0); [reflexivity|]. cbv zeta.
  destruct (state p =? stOpening); match goal with |- context [if ?c then _ else _] => destruct c end; reflexivity.
Qed.
Lemma container_advance p n : container (advance p n) = container p.
Proof.
  unfold advance. destruct (n <? 0); [reflexivity|]. destruct (n =? 0); [reflexivity|]. cbv zeta.
  destruct (state p =? stOpening); match goal with |- context [if ?c then _ else _] => destruct c end; reflexivity.
Qed.
Lemma root_consumeIndent_loop : forall fuel p n, root (consumeIndent_loop fuel p n) = root p /\ container (consumeIndent_loop fuel p n) = container p.
Proof.
  induction fuel as [|f IH]; intros p n; [split; reflexivity|]. cbn [consumeIndent_loop]. cbv zeta.
  destruct (n <=? 0); [split; reflexivity|].
  set (q := if state p =? stOpening then withState p stOpenMatched else p).
  assert (Eq : root q = root p /\ container q = container p) by (unfold q; destruct (state p =? stOpening); split; reflexivity).
  destruct ((li q <? len (line q)) && (at_ (line q) (li q) =? 32)).
  - match goal with |- context [consumeIndent_loop f ?x ?m] => destruct (IH x m) as [A B] end. rewrite A, B. exact Eq.
  - destruct ((li q <? len (line q)) && (at_ (line q) (li q) =? 9)); [|exact Eq].
    destruct (n <? tabRem q); [exact Eq|].
    match goal with |- context [consumeIndent_loop f ?x ?m] => destruct (IH x m) as [A B] end. rewrite A, B. exact Eq.
Qed.
Lemma root_consumeIndent p n : root (consumeIndent p n) = root p. Proof. apply root_consumeIndent_loop. Qed.
Lemma container_consumeIndent p n : container (consumeIndent p n) = container p. Proof. apply root_consumeIndent_loop. Qed.
Lemma root_consumeLine p : root (consumeLine p) = root p.
Proof.
  unfold consumeLine. cbv zeta. set (q := advance p _). assert (E : root q = root p) by apply root_advance.
  destruct ((state q =? stOpening) || (state q =? stOpenMatched)); [exact E|]. destruct (state q =? stDescending); exact E.
Qed.
Lemma container_consumeLine p : container (consumeLine p) = container p.
Proof.
  unfold consumeLine. cbv zeta. set (q := advance p _). assert (E : container q = container p) by apply container_advance.
  destruct ((state q =? stOpening) || (state q =? stOpenMatched)); [exact E|]. destruct (state q =? stDescending); exact E.
Qed.
