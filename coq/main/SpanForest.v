From Coq Require Import List ZArith Lia Bool.
Import ListNotations.
Require Import Base Tree Inl3a.
Open Scope Z_scope.

(* ================================================================================================
   Layer 1 of property C02 at the inline level: "valid + nested + ordered" for parse-time forests,
   and its preservation by the tree-surgery primitives of Inl3a.v.
   ================================================================================================ *)

(* okN n: the span of n is valid (0 <= s <= e) and its children form an ordered chain inside [s, e], recursively.
   okF lo hi l: the forest l is an ordered, non-overlapping chain inside [lo, hi] of good nodes. *)
Fixpoint okN (n : pn) : Prop :=
  match n with PN _ _ s e _ _ ks =>
    0 <= s /\ s <= e /\
    (fix go (lo : Z) (l : list pn) : Prop :=
       match l with [] => lo <= e | k :: r => lo <= ps k /\ okN k /\ go (pe k) r end) s ks
  end.
Fixpoint okF (lo hi : Z) (l : list pn) : Prop :=
  match l with [] => lo <= hi | k :: r => lo <= ps k /\ okN k /\ okF (pe k) hi r end.

Lemma okN_eq id k s e ind r ks : okN (PN id k s e ind r ks) <-> 0 <= s /\ s <= e /\ okF s e ks.
Proof.
  cbn [okN].
  assert (H : forall lo, (fix go (lo : Z) (l : list pn) : Prop :=
       match l with [] => lo <= e | k :: r => lo <= ps k /\ okN k /\ go (pe k) r end) lo ks <-> okF lo e ks).
  { induction ks as [|x ks IH]; intros lo; [cbn; tauto|]. cbn [okF]. rewrite <- IH. tauto. }
  rewrite H. tauto.
Qed.
Lemma okN_iff n : okN n <-> 0 <= ps n /\ ps n <= pe n /\ okF (ps n) (pe n) (pkids n).
Proof. destruct n. apply okN_eq. Qed.
Lemma okN_valid n : okN n -> 0 <= ps n /\ ps n <= pe n.
Proof. intros H. apply okN_iff in H. tauto. Qed.
Lemma okN_leaf id k s e ind r : 0 <= s -> s <= e -> okN (PN id k s e ind r []).
Proof. intros A B. apply okN_eq. cbn. tauto. Qed.

Lemma okF_le : forall l lo hi, okF lo hi l -> lo <= hi.
Proof.
  induction l as [|x l IH]; intros lo hi H; cbn in H; [exact H|].
  destruct H as (A & B & C). apply IH in C. apply okN_valid in B. lia.
Qed.
Lemma okF_weaken : forall l lo hi lo' hi', okF lo hi l -> lo' <= lo -> hi <= hi' -> okF lo' hi' l.
Proof.
  induction l as [|x l IH]; intros lo hi lo' hi' H A B; cbn in *; [lia|].
  destruct H as (H1 & H2 & H3). repeat split; [lia|exact H2|]. eapply IH; [exact H3|lia|exact B].
Qed.
Lemma okF_app : forall a b lo hi, okF lo hi (a ++ b) <-> exists m, okF lo m a /\ okF m hi b.
Proof.
  induction a as [|x a IH]; intros b lo hi; cbn [app okF].
  - split.
    + intros H. exists lo. split; [lia|exact H].
    + intros (m & A & B). eapply okF_weaken; [exact B|exact A|lia].
  - rewrite IH. split.
    + intros (A & B & m & C & D). exists m. tauto.
    + intros (m & (A & B & C) & D). repeat split; try assumption. exists m. tauto.
Qed.
Lemma okF_snoc l lo le n : okF lo le l -> le <= ps n -> okN n -> okF lo (pe n) (l ++ [n]).
Proof.
  intros A B C. apply okF_app. exists le. split; [exact A|]. cbn. repeat split; try assumption.
  apply okN_valid in C. lia.
Qed.
Lemma okF_one lo hi n : okF lo hi [n] <-> lo <= ps n /\ okN n /\ pe n <= hi.
Proof. cbn. tauto. Qed.

(* removing one node of a chain *)
Lemma okF_remove pre n post lo hi : okF lo hi (pre ++ n :: post) -> okF lo hi (pre ++ post).
Proof.
  intros H. apply okF_app in H. destruct H as (m & A & B). cbn in B. destruct B as (B1 & B2 & B3).
  apply okF_app. exists m. split; [exact A|]. eapply okF_weaken; [exact B3| |lia]. apply okN_valid in B2. lia.
Qed.
(* replacing a node by a good node with a span inside the old one *)
Lemma okF_replace pre n n' post lo hi : okF lo hi (pre ++ n :: post) -> okN n' -> ps n <= ps n' -> pe n' <= pe n ->
  okF lo hi (pre ++ n' :: post).
Proof.
  intros H Hn A B. apply okF_app in H. destruct H as (m & H1 & H2). cbn in H2. destruct H2 as (C1 & C2 & C3).
  apply okF_app. exists m. split; [exact H1|]. cbn. repeat split; [lia|exact Hn|]. eapply okF_weaken; [exact C3|lia|lia].
Qed.
(* wrapping the nodes strictly between a and b into a new node spanning [pe a, ps b] *)
Lemma okF_wrap pre a mid b rest lo hi id k ind r :
  okF lo hi (pre ++ a :: mid ++ b :: rest) ->
  okF lo hi (pre ++ a :: PN id k (pe a) (ps b) ind r mid :: b :: rest).
Proof.
  intros H. apply okF_app in H. destruct H as (m & H1 & H2). cbn [okF] in H2. destruct H2 as (A1 & A2 & A3).
  apply okF_app in A3. destruct A3 as (m2 & B1 & B2). cbn [okF] in B2. destruct B2 as (C1 & C2 & C3).
  pose proof (okN_valid _ A2) as Va. pose proof (okF_le _ _ _ B1) as Vm.
  apply okF_app. exists m. split; [exact H1|]. cbn [okF ps pe].
  split; [exact A1|]. split; [exact A2|]. split; [lia|]. split.
  - apply okN_eq. split; [lia|]. split; [lia|]. eapply okF_weaken; [exact B1|lia|lia].
  - split; [lia|]. split; [exact C2|exact C3].
Qed.
(* wrapping everything after a into a new node spanning [pe a, e] *)
Lemma okF_wrap_tail pre a post lo hi id k e ind r :
  okF lo hi (pre ++ a :: post) -> hi <= e ->
  okF lo e (pre ++ a :: [PN id k (pe a) e ind r post]).
Proof.
  intros H He. apply okF_app in H. destruct H as (m & H1 & H2). cbn [okF] in H2. destruct H2 as (A1 & A2 & A3).
  pose proof (okN_valid _ A2) as Va. pose proof (okF_le _ _ _ A3) as Vm.
  apply okF_app. exists m. split; [exact H1|]. cbn [okF ps pe].
  split; [exact A1|]. split; [exact A2|]. split; [lia|]. split; [|lia].
  apply okN_eq. split; [lia|]. split; [lia|]. eapply okF_weaken; [exact A3|lia|lia].
Qed.

(* ---- setters ---- *)
Lemma ps_setSpan n s e : ps (setSpan n s e) = s. Proof. destruct n; reflexivity. Qed.
Lemma pe_setSpan n s e : pe (setSpan n s e) = e. Proof. destruct n; reflexivity. Qed.
Lemma pid_setSpan n s e : pid (setSpan n s e) = pid n. Proof. destruct n; reflexivity. Qed.
Lemma pkids_setSpan n s e : pkids (setSpan n s e) = pkids n. Proof. destruct n; reflexivity. Qed.
Lemma pkind_setSpan n s e : pkind (setSpan n s e) = pkind n. Proof. destruct n; reflexivity. Qed.
Lemma ps_setKids n k : ps (setKids n k) = ps n. Proof. destruct n; reflexivity. Qed.
Lemma pe_setKids n k : pe (setKids n k) = pe n. Proof. destruct n; reflexivity. Qed.
Lemma pid_setKids n k : pid (setKids n k) = pid n. Proof. destruct n; reflexivity. Qed.
Lemma pkids_setKids n k : pkids (setKids n k) = k. Proof. destruct n; reflexivity. Qed.
Lemma ps_setRef n k : ps (setRef n k) = ps n. Proof. destruct n; reflexivity. Qed.
Lemma pe_setRef n k : pe (setRef n k) = pe n. Proof. destruct n; reflexivity. Qed.
Lemma pid_setRef n k : pid (setRef n k) = pid n. Proof. destruct n; reflexivity. Qed.
Lemma pkids_setRef n k : pkids (setRef n k) = pkids n. Proof. destruct n; reflexivity. Qed.
Lemma setKids_same n : setKids n (pkids n) = n. Proof. destruct n; reflexivity. Qed.

Lemma okN_setSpan_leaf n s e : pkids n = [] -> 0 <= s -> s <= e -> okN (setSpan n s e).
Proof. destruct n as [i k s0 e0 ind r ks]. cbn [pkids setSpan]. intros -> A B. apply okN_leaf; assumption. Qed.
Lemma okN_setKids n ks : 0 <= ps n -> ps n <= pe n -> okF (ps n) (pe n) ks -> okN (setKids n ks).
Proof. destruct n as [i k s0 e0 ind r ks0]. cbn [ps pe setKids]. intros A B C. apply okN_eq. tauto. Qed.
Lemma okN_setRef n r : okN n -> okN (setRef n r).
Proof. destruct n as [i k s0 e0 ind r0 ks0]. cbn [setRef]. intros H. apply okN_eq in H. apply okN_eq. exact H. Qed.

(* plen on good nodes *)
Lemma plen_ok n : 0 <= ps n -> ps n <= pe n -> plen n = pe n - ps n.
Proof.
  intros A B. unfold plen, spanLen.
  replace (0 <=? ps n) with true by (symmetry; apply Z.leb_le; lia).
  replace (0 <=? pe n) with true by (symmetry; apply Z.leb_le; lia).
  replace (ps n <=? pe n) with true by (symmetry; apply Z.leb_le; lia). reflexivity.
Qed.
Lemma spanLen_pos s e : spanLen s e =? 0 = false -> 0 <= s /\ s < e.
Proof.
  unfold spanLen. destruct (Z.leb_spec 0 s) as [A|A]; destruct (Z.leb_spec 0 e) as [B|B]; destruct (Z.leb_spec s e) as [C|C]; cbn [andb];
    intros E; apply Z.eqb_neq in E; lia.
Qed.
Lemma spanLen_zero s e : spanLen s e =? 0 = true -> ~ (0 <= s /\ s < e).
Proof.
  unfold spanLen. destruct (Z.leb_spec 0 s) as [A|A]; destruct (Z.leb_spec 0 e) as [B|B]; destruct (Z.leb_spec s e) as [C|C]; cbn [andb];
    intros E; apply Z.eqb_eq in E; lia.
Qed.
