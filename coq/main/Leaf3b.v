From Coq Require Import List ZArith Lia Bool.
Import ListNotations.
Require Import Base Tables Utf8 Tree Rdr Link Collect Html Recog Inl3a Inl3b Inl3c Inl3d Inl3e Render Safe Leaf3a.
Open Scope Z_scope.

(* inertness is inherited by sub-ranges *)
Lemma inert_sub_shrink src s e s' e' : s <= s' -> e' <= e ->
  inertb (sub src s e) = true -> inertb (sub src s' e') = true.
Proof.
  intros Hs He Hi.
  destruct (Z.le_gt_cases e' s') as [Hle|Hgt]; [rewrite sub_nil_when by lia; reflexivity|].
  unfold sub, upto, from_ in *.
  destruct (firstn_skipn_sub src (Z.to_nat s) (Z.to_nat s + Z.to_nat (e - s)) (Z.to_nat s') (Z.to_nat s' + Z.to_nat (e' - s'))
              ltac:(lia) ltac:(lia)) as (pre & post & Heq).
  replace (Z.to_nat s + Z.to_nat (e - s) - Z.to_nat s)%nat with (Z.to_nat (e - s)) in Heq by lia.
  replace (Z.to_nat s' + Z.to_nat (e' - s') - Z.to_nat s')%nat with (Z.to_nat (e' - s')) in Heq by lia.
  rewrite Heq in Hi. rewrite !inertb_app in Hi. apply andb_true_iff in Hi. destruct Hi as [_ Hi].
  apply andb_true_iff in Hi. tauto.
Qed.

Lemma localok_shrink src k s e s' e' : s <= s' -> e' <= e ->
  localok src k s e = true -> localok src k s' e' = true.
Proof.
  unfold localok. intros Hs He H. apply andb_true_iff in H. destruct H as [H1 H2].
  destruct (k =? CharacterReferenceKind); destruct (k =? SoftLineBreakKind); cbn [andb];
    try reflexivity; try (apply (inert_sub_shrink src s e s' e'); assumption);
    rewrite (inert_sub_shrink src s e s' e') by assumption; reflexivity.
Qed.

(* For the nodes that matter (CharRef, Soft) spans are non-negative; we carry that as part of the predicate's use:
   shrink lemmas are applied only where the start is known non-negative, or the kind makes localok trivial. *)
Definition trivKind (k : Z) : bool := negb (k =? CharacterReferenceKind) && negb (k =? SoftLineBreakKind).
Lemma localok_triv src k s e : trivKind k = true -> localok src k s e = true.
Proof. unfold trivKind, localok. intros H. apply andb_true_iff in H. destruct H as [H1 H2].
       destruct (k =? CharacterReferenceKind), (k =? SoftLineBreakKind); try discriminate. reflexivity. Qed.

(* updNode with g that preserves gok on every node *)
Lemma updNode_gok b src id g : (forall n, gok b src n = true -> gok b src (g n) = true) ->
  forall fuel l, gokF b src l = true -> gokF b src (updNode fuel id g l) = true.
Proof.
  intros Hg. induction fuel as [|f IH]; intros l H; [assumption|]. cbn [updNode].
  unfold gokF in *. rewrite forallb_forall in *. intros x Hx. apply in_map_iff in Hx. destruct Hx as (n & <- & Hn).
  specialize (H n Hn). destruct (pid n =? id); [apply Hg; assumption|].
  destruct n as [i k s e ind r ks]. cbn [setKids gok pkids] in *.
  apply andb_true_iff in H. destruct H as [H Hk]. rewrite H. cbn [andb].
  destruct (skipKind k); [reflexivity|]. apply IH. exact Hk.
Qed.

(* wrapLevel / wrapIn: a new node of a trivial, non-skip kind with a fresh identity *)
Lemma splitAtId_app id l : let '(a, b) := splitAtId id l in l = a ++ b.
Proof. induction l as [|n r IH]; [reflexivity|]. cbn [splitAtId]. destruct (pid n =? id); [reflexivity|].
       destruct (splitAtId id r) as [a b]. cbn. f_equal. exact IH. Qed.
Lemma splitBeforeId_app id l : let '(a, b) := splitBeforeId id l in l = a ++ b.
Proof. induction l as [|n r IH]; [reflexivity|]. cbn [splitBeforeId]. destruct id as [i|].
       - destruct (pid n =? i); [reflexivity|]. destruct (splitBeforeId (Some i) r) as [a b]. cbn. f_equal. exact IH.
       - destruct (splitBeforeId None r) as [a b]. cbn. f_equal. exact IH. Qed.

Lemma wrapLevel_gok b src newId kind startId endId endStart parentEnd l :
  newId <? b = true -> trivKind kind = true -> skipKind kind = false ->
  gokF b src l = true -> gokF b src (wrapLevel newId kind startId endId endStart parentEnd l) = true.
Proof.
  intros Hid Ht Hs H. unfold wrapLevel.
  pose proof (splitAtId_app startId l) as E1. destruct (splitAtId startId l) as [pre post].
  pose proof (splitBeforeId_app endId post) as E2. destruct (splitBeforeId endId post) as [mid rest].
  subst l post. rewrite !gokF_app in H. apply andb_true_iff in H. destruct H as [Hpre H].
  apply andb_true_iff in H. destruct H as [Hmid Hrest].
  rewrite !gokF_app, Hpre, Hrest. cbn [andb]. unfold gokF at 1. cbn [forallb gok].
  rewrite Hid, (localok_triv src kind _ _ Ht), Hs. cbn [andb]. rewrite ?andb_true_r. exact Hmid.
Qed.

Lemma wrapIn_gok b src newId kind startId endId endStart :
  newId <? b = true -> trivKind kind = true -> skipKind kind = false ->
  forall fuel parentEnd l, gokF b src l = true -> gokF b src (wrapIn fuel newId kind startId endId endStart parentEnd l) = true.
Proof.
  intros Hid Ht Hs. induction fuel as [|f IH]; intros parentEnd l H; [assumption|]. cbn [wrapIn].
  destruct (hasId startId l); [apply wrapLevel_gok; assumption|].
  unfold gokF in *. rewrite forallb_forall in *. intros x Hx. apply in_map_iff in Hx. destruct Hx as (n & <- & Hn).
  specialize (H n Hn). destruct n as [i k s e ind r ks]. cbn [setKids gok pkids pe] in *.
  apply andb_true_iff in H. destruct H as [H Hk]. rewrite H. cbn [andb].
  destruct (skipKind k); [reflexivity|]. apply IH. exact Hk.
Qed.

(* ---- the state invariant and the state-level operations ---- *)
Definition Inv3 (st : ist) : Prop := 1 <= nid st /\ gokF (nid st) (isrc st) (rk st) = true.

Lemma addNode_inv st kind s e kids : Inv3 st ->
  localok (isrc st) kind s e = true ->
  (skipKind kind = true \/ gokF (nid st + 1) (isrc st) kids = true) ->
  Inv3 (fst (addNode st kind s e kids)).
Proof.
  intros (Hn & Hg) Hl Hk. unfold addNode. destruct (spanLen s e =? 0); [split; assumption|].
  cbn [fst]. unfold Inv3, bumpId, setRk; cbn [nid isrc rk]. split; [lia|].
  rewrite gokF_app. rewrite (gokF_mono _ _ (nid st) (nid st + 1)) by (lia || assumption). cbn [andb].
  unfold gokF. cbn [forallb gok]. replace (nid st <? nid st + 1) with true by (symmetry; apply Z.ltb_lt; lia).
  rewrite Hl. cbn [andb]. rewrite andb_true_r. destruct Hk as [Hk|Hk]; [rewrite Hk; reflexivity|].
  destruct (skipKind kind); [reflexivity|exact Hk].
Qed.

Lemma addText_inv st s e : Inv3 st -> Inv3 (addText st s e).
Proof. intros H. unfold addText. apply addNode_inv; [assumption|reflexivity|right; reflexivity]. Qed.

Lemma wrap_inv st kind startId endId : Inv3 st -> trivKind kind = true -> skipKind kind = false ->
  Inv3 (fst (wrap st kind startId endId)).
Proof.
  intros (Hn & Hg) Ht Hs. unfold wrap. cbn [fst]. unfold Inv3, bumpId, setRk; cbn [nid isrc rk]. split; [lia|].
  apply wrapIn_gok; [apply Z.ltb_lt; lia|assumption|assumption|].
  apply (gokF_mono _ _ (nid st)); [lia|assumption].
Qed.

Lemma removeNode_inv st id : Inv3 st -> Inv3 (removeNode st id).
Proof. intros (Hn & Hg). split; [assumption|]. apply removeId_gok. assumption. Qed.

Lemma setStk_inv st v : Inv3 st -> Inv3 (setStk st v). Proof. intros H; exact H. Qed.
Lemma setUpos_inv st v : Inv3 st -> Inv3 (setUpos st v). Proof. intros H; exact H. Qed.
Lemma setIgn_inv st v : Inv3 st -> Inv3 (setIgn st v). Proof. intros H; exact H. Qed.
Lemma advanceTo_inv st p : Inv3 st -> Inv3 (advanceTo st p).
Proof. intros H. unfold advanceTo. destruct (0 <=? _); apply setUpos_inv; assumption. Qed.

Lemma updN_inv st id g : Inv3 st -> (forall n, gok (nid st) (isrc st) n = true -> gok (nid st) (isrc st) (g n) = true) ->
  Inv3 (updN st id g).
Proof. intros (Hn & Hg) Hgg. split; [assumption|]. apply updNode_gok; assumption. Qed.
