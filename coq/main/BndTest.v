From Coq Require Import List ZArith Lia Bool String Ascii.
Import ListNotations.
Require Import Base Tables Utf8 Tree Recog Driver Inl3e Render Props.
Open Scope Z_scope.

Fixpoint bndI (src : bytes) (i : inline) : bool :=
  match i with Inl _ s e _ _ ks => boundary_ok src s && boundary_ok src e && forallb (bndI src) ks end.
Fixpoint bndB (src : bytes) (b : block) : bool :=
  match b with Blk _ s e bk ik _ _ _ _ _ => boundary_ok src s && boundary_ok src e && forallb (bndB src) bk && forallb (bndI src) ik end.

(* '|' = LF, '~' = 0xC3 0xA9 (e-acute), '^' = E2 82 AC (euro), '%' = F0 9F 98 80 (emoji), '#'... keep, '$' = NUL, '!'.. *)
Fixpoint s2b (s : string) : bytes :=
  match s with EmptyString => [] | String a r =>
    let z := Z.of_N (N_of_ascii a) in
    (if z =? 124 then [10] else if z =? 126 then [195;169] else if z =? 94 then [226;130;172] else if z =? 37 then [240;159;152;128]
     else if z =? 36 then [0] else if z =? 64 then [13] else [z]) ++ s2b r end.
Definition chk (s : string) : bool * bool * bool :=
  let input := s2b s in
  (validUtf8 input, forallb (fun r => bndB (rb_src r) (rb_blk r)) (fst (parseFull input)),
   forallb (chk_C02_root (validUtf8 input)) (fst (parseFull input))).
Open Scope string_scope.
Definition tests : list string := [
  "~*~a~*~ ~**~b~**~ ~_~c~_~ ~__~d~__~|";
  "*~* **~** _~_ __~__ ***^*** ~***%***~|";
  "~`~c~`~ ``~`%``~ ~[~l~](~d~ ""~t~"")~ ~![~i~](<~d ~> '~t~')~ ~[~r~][~R~] ~[~R~][] [~R~]~||[~R~]: ~u~ (~t~)|";
  "~<http://~x.~y>~ ~<a@b.c>~ ~<b ~=""~"">~ ~</b>~ ~<!-- ~ -->~ ~<?~?>~ ~&amp;~ ~&#35;~ ~\*~ \~ \% ~\|";
  "~  |~\|~|~";
  "# ~h~ #|~# ~|## ~ ##~|~|===|^|---|";
  "```~info~ ^|~code~|```~|~~~ ~|%|~~~|    ~indented|";
  "- ~item|  ~cont|-  ~|1. ~|10) ^||> ~quote|> > %|>~|";
  "<div ~>|~|</div>||<!-- ~|~ -->~|";
  "~[~a ~[~b~](~c~)~](~d~)~ ~[~a~ ![~b~ [~c~](~d~)~](~e~)~](~f~)~|";
  "[~a~](~<~b~> ""~t|~"")~ [~](~) [~]( ~) [~](~ ) [a](~ '~'~)|";
  "~$~ $~$ *$* `$` [$]($) <$> &$; \$|$|# $|";
  "~@|~@^@|*~*@|";
  "a~b *~ ~* ** ~ ** `~ ~` [ ~ ]( ~ ) ~|~|";
  "[~]: ~|[^]: <~> '~'|[%]: % ""%|%""||[~] [^] [%]|";
  "***~***~ ___~___~ *~_~*~_ **~*~**~*|";
  "`~|~` ``|~|`` <a|~=~|> [~|~](~|""~|~"")|";
  "&~; &#~; &amp~; &~amp; \&~|";
  "> ```~|> ~|> ```|- # ~|- ~|  ===|";
  "|~|| ~||^  |"
].
Eval vm_compute in (map chk tests).
(* invalid UTF-8 *)
Definition bad : list bytes := [[195;42;169;42;10]; [42;169;42;10]; [226;130;96;172;96;10]; [91;195;93;40;169;41;10]].
Eval vm_compute in (map (fun input => (validUtf8 input, forallb (fun r => bndB (rb_src r) (rb_blk r)) (fst (parseFull input)))) bad).
