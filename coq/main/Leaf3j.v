From Coq Require Import List ZArith Lia Bool.
Import ListNotations.
Require Import Base Tables Utf8 Tree Rdr Link Collect Html Recog Inl3a Inl3b Inl3c Inl3d Inl3e Render Safe Leaf3a Leaf3b Leaf3c Leaf3d Leaf3e Leaf3f Leaf3g Leaf3h Leaf3i.
Open Scope Z_scope.

Section L3j.
  Variable src : bytes.
  Variable U : list inline.
  Hypothesis HU : Forall (fun u => gok 1 src (ofInline u) = true) U.
  Notation InvS := (InvS src U).

  Lemma S_iloop : forall fuel st pos pl, InvS st -> InvS (fst (iloop fuel st pos pl)).
  Proof.
    induction fuel as [|f IH]; intros st pos pl H; [exact H|]. cbn [iloop].
    destruct (_ && _); [|exact H].
    pose proof (S_istep src U HU st pos pl H) as H2. destruct (istep st pos pl) as [[st2 pos2] pl2]. cbn [fst] in H2.
    apply IH. assumption.
  Qed.

  Lemma S_pushU st u : InvS st -> gok 1 src (ofInline u) = true -> InvS (setRk st (rk st ++ [ofInline u])).
  Proof.
    intros (E1 & E2 & Hn & Hg) Hu. unfold InvS, setRk. cbn [isrc unp nid rk]. repeat split; try assumption.
    rewrite gokF_app, Hg. cbn [andb gokF forallb]. rewrite (gok_mono src _ 1 (nid st) Hn Hu). reflexivity.
  Qed.

  Lemma nthU_ok st : InvS st -> gok 1 src (ofInline (nth (Z.to_nat (upos st)) (unp st) (mkI 0 0 0))) = true.
  Proof.
    intros (_ & E2 & _). rewrite E2.
    destruct (nth_in_or_default (Z.to_nat (upos st)) U (mkI 0 0 0)) as [Hin|Hd].
    - rewrite Forall_forall in HU. apply HU. assumption.
    - rewrite Hd. reflexivity.
  Qed.

  Lemma S_outer : forall fuel st, InvS st -> InvS (outer fuel st).
  Proof.
    induction fuel as [|f IH]; intros st H; [exact H|]. cbn [outer].
    destruct (len (unp st) <=? upos st); [exact H|].
    apply IH. apply S_setUpos.
    pose proof (nthU_ok st H) as Hu.
    destruct (ikind _ =? 0); [apply S_setIgn; assumption|].
    destruct (ikind _ =? IndentKind).
    { destruct (negb (ign st)); [apply S_pushU; assumption|assumption]. }
    destruct (ikind _ =? UnparsedKind).
    { match goal with |- context [iloop ?a ?b ?c ?d] =>
        pose proof (S_iloop a b c d (S_setIgn src U st false H)) as H2; destruct (iloop a b c d) as [st2 pl2] end.
      cbn [fst] in H2. apply S_addText. assumption. }
    apply (S_pushU (setIgn st false)); [apply S_setIgn; assumption|assumption].
  Qed.
End L3j.

(* the inline children produced by parseInlines: every node satisfies the creation-site invariant *)
Theorem parseInlines_gok src matcher container :
  Forall (fun u => gok 1 src (ofInline u) = true) (bik container) ->
  exists b l, parseInlines src matcher container = map toInline l /\ gokF b src l = true.
Proof.
  intros HU. unfold parseInlines.
  set (st0 := {| rk := []; isrc := src; unp := bik container; upos := 0; stk := []; ign := false; nid := 1;
                 rootEnd := bend container; matcher := matcher |}).
  assert (H0 : InvS src (bik container) st0) by (repeat split; cbn; lia).
  pose proof (S_outer src (bik container) HU (S (length (bik container))) st0 H0) as H1.
  pose proof (S_processEmphasis src (bik container) _ 0 H1) as H2.
  destruct H2 as (_ & _ & _ & Hg).
  eexists _, _. split; [reflexivity|exact Hg].
Qed.
Print Assumptions parseInlines_gok.
