(* QuoteSimDrv1.v -- T51: one line of the quoted run against one line of the plain run (stages 1 and 2 combined),
   for a document D without tab, CR, NUL and '['. *)
From Coq Require Import List ZArith Lia Bool Arith.
Import ListNotations.
Require Import Base Tree Rdr Link Collect Html Recog LP Rules Starts Driver Rec16 Rec17 Rec18 L2Kind L2CC NoPanic47 StreamFuel
  QuoteSimDefs QuoteSimTree QuoteSimNest QuoteSimQLine QuoteSimMap QuoteSimReloc QuoteSimAux QuoteSimLines.
Require BlankPrefix.
Open Scope Z_scope.

(* ---- sources: prefixes ---- *)
Lemma from_upto {A} (X : list A) n x : 0 <= x -> from_ (upto X n) x = upto (from_ X x) (n - x).
Proof.
  intros H. unfold from_, upto. destruct (Z.le_gt_cases x n) as [L|L].
  - rewrite skipn_firstn_comm. f_equal. lia.
  - replace (Z.to_nat (n - x)) with O by lia. cbn [firstn]. apply skipn_all2. rewrite firstn_length. lia.
Qed.
Lemma upto_upto {A} (X : list A) n m : m <= n -> upto (upto X n) m = upto X m.
Proof. intros H. unfold upto. rewrite firstn_firstn. f_equal. lia. Qed.
Lemma sub_upto {A} (X : list A) n x y : 0 <= x -> y <= n -> sub (upto X n) x y = sub X x y.
Proof. intros Hx Hy. unfold sub. rewrite from_upto by lia. apply upto_upto. lia. Qed.
Lemma len_upto_le {A} (X : list A) n : len (upto X n) <= len X.
Proof. unfold len, upto. rewrite firstn_length. lia. Qed.

Lemma sub_upto_len {A} (X : list A) n x y : 0 <= x -> y <= len (upto X n) -> sub (upto X n) x y = sub X x y.
Proof.
  intros Hx Hy. destruct (Z.le_gt_cases 0 n) as [L|L].
  - apply sub_upto; [exact Hx|]. unfold len, upto in Hy. rewrite firstn_length in Hy. lia.
  - unfold len, upto in Hy. rewrite firstn_length in Hy. unfold sub, upto. replace (Z.to_nat (y - x)) with O by lia. reflexivity.
Qed.
Lemma sub_neg_start {A} (X : list A) x y : x <= 0 -> sub X x y = upto X (y - x).
Proof. intros H. unfold sub, from_. replace (Z.to_nat x) with O by lia. reflexivity. Qed.
Lemma ceI_ext sD sQ sg X Y nD nQ u : sD = upto X nD -> sQ = upto Y nQ -> ceI sD sQ sg u -> ceI X Y sg u.
Proof.
  intros -> -> (A & I0 & B & C & P & E & F & KL). pose proof (len_upto_le X nD). pose proof (len_upto_le Y nQ).
  split; [exact A|]. split; [exact I0|]. split; [exact B|]. split; [exact (Z.le_trans _ _ _ C H)|]. split; [exact P|]. split; [exact (Z.le_trans _ _ _ E H0)|].
  split; [|exact KL].
  rewrite (sub_upto_len X nD) in F by lia. rewrite (sub_upto_len Y nQ) in F by lia. exact F.
Qed.
(* induction on blocks through their children *)
Lemma block_kids_ind (P : block -> Prop) : (forall b, (forall c, In c (bkids b) -> P c) -> P b) -> forall b, P b.
Proof.
  intros H. fix IH 1. intros [k s e bk ik a n c l lb]. apply H. cbn [bkids].
  induction bk as [|x bk IHl]; intros c0 Hc; [destruct Hc|]. destruct Hc as [<-|Hc]; [apply IH|apply IHl, Hc].
Qed.
Lemma ceB_ext sD sQ sg X Y nD nQ : sD = upto X nD -> sQ = upto Y nQ -> forall b, ceB sD sQ sg b -> ceB X Y sg b.
Proof.
  intros ED EQ. apply (block_kids_ind (fun b => ceB sD sQ sg b -> ceB X Y sg b)). intros b IH H.
  apply ceB_eq in H. destruct H as (H0 & Hi & Hk). apply ceB_eq. split; [exact H0|]. split.
  - revert Hi. apply Forall_impl. intros u. apply (ceI_ext sD sQ sg X Y nD nQ u ED EQ).
  - unfold ceL in *. rewrite Forall_forall in *. intros x Hx. apply IH; [exact Hx|apply Hk, Hx].
Qed.

(* ---- the maps of a document ---- *)
Section Doc.
  Variable D : bytes.
  Definition Qd : bytes := quote D.
  Definition sgO (o x : Z) : Z := let y := o + x in if y <? 0 then y else sigma D y.
  Definition eBO (o e : Z) : Z := if e <? 0 then e else epsB D (o + e).
  Definition idI (u : inline) : inline := u.
  Definition MO (o : Z) : block -> block := rB (sgO o) (eBO o) idI.

  Lemma eBO_neg o e : e < 0 -> eBO o e = e.
  Proof. intros H. unfold eBO. destruct (Z.ltb_spec e 0); [reflexivity|lia]. Qed.
  Lemma eBO_pos o e : 0 <= o -> 0 <= e -> 0 <= eBO o e.
  Proof. intros Ho H. unfold eBO. destruct (Z.ltb_spec e 0); [lia|]. apply epsB_nonneg. lia. Qed.

  (* kinds and containment are untouched *)
  Lemma cc_rB sg eB lp : forall b, cc (rB sg eB lp b) = cc b.
  Proof.
    fix IH 1. intros [k s e bk ik a n c l lb]. cbn [rB cc]. f_equal.
    - induction bk as [|x bk IHl]; [reflexivity|]. cbn [map forallb]. rewrite bkind_rB, IHl. reflexivity.
    - induction bk as [|x bk IHl]; [reflexivity|]. cbn [map forallb]. rewrite IH, IHl. reflexivity.
  Qed.
  Lemma ccF_map_rB sg eB lp ks : ccF (map (rB sg eB lp) ks) = ccF ks.
  Proof.
    unfold ccF, ccL. f_equal; induction ks as [|x ks IH]; try reflexivity; cbn [map forallb]; rewrite ?bkind_rB, ?cc_rB, IH; reflexivity.
  Qed.

  (* ---- facts about the bytes ---- *)
  Hypothesis D_tab : noTab D.
  Hypothesis D_cr : noCR D.
  Hypothesis D_91 : no91 D.

  Lemma Forall_quoteAux (P : Z -> Prop) : P 62 -> P 32 -> forall l b, Forall P l -> Forall P (quoteAux b l).
  Proof.
    intros H1 H2. induction l as [|c l IH]; intros b H; [constructor|]. inversion H as [|? ? Hc Hl]. cbn [quoteAux].
    apply Forall_app. split; [destruct b; repeat constructor; assumption|]. constructor; [exact Hc|apply IH, Hl].
  Qed.
  Lemma Q_91 : no91 Qd. Proof. apply Forall_quoteAux; [discriminate|discriminate|exact D_91]. Qed.
  Lemma Forall_upto (P : Z -> Prop) (l : bytes) n : Forall P l -> Forall P (upto l n).
  Proof. intros H. apply Forall_forall. intros x Hx. rewrite Forall_forall in H. apply H. eapply firstn_In. exact Hx. Qed.
  Lemma Forall_from (P : Z -> Prop) (l : bytes) n : Forall P l -> Forall P (from_ l n).
  Proof. intros H. apply Forall_forall. intros x Hx. rewrite Forall_forall in H. apply H. eapply skipn_In'. exact Hx. Qed.

  Lemma upto_from_comm {A} (X : list A) o n : 0 <= o -> 0 <= n -> upto (from_ X o) n = from_ (upto X (o + n)) o.
  Proof. intros Ho Hn. unfold upto, from_. rewrite firstn_skipn_comm. do 2 f_equal. lia. Qed.

  (* ---- one line, both runs ---- *)
  Lemma line_step o ls a pre body eol post st stQ ks bq (fr : frame) :
    0 <= o -> 0 <= ls -> a = o + ls -> lineAt D a pre body eol post ->
    let bi := ls + len body + len eol in
    let sD := upto (from_ D o) bi in
    let lsq := epsB D a in
    let sQ := upto Qd (lsq + 2 + len body + len eol) in
    ccF ks = true -> ceL sD sQ (sgO o) ks -> (st = stDescendTerminated -> HMk ks) ->
    bkind bq = BlockQuoteKind -> isOpen bq = true -> auxOf bq = snd fr -> bkids bq = fst fr ++ map (MO o) ks -> Forall closedB (fst fr) ->
    exists bq' done',
      processLine stQ [bq] lsq sQ = ([bq'], snd (fst (processLine st ks ls sD)), snd (processLine st ks ls sD)) /\
      bkind bq' = BlockQuoteKind /\ isOpen bq' = true /\ auxOf bq' = snd fr /\
      map er done' = map er (fst fr) /\ Forall closedB done' /\
      bkids bq' = done' ++ map (MO o) (fst (fst (processLine st ks ls sD))) /\
      ceL sD sQ (sgO o) (fst (fst (processLine st ks ls sD))).
  Proof.
    intros Ho Hls Ea L. cbv zeta. intros Hcc Hce Hst Hk Hop Hax Hkids Hcl.
    set (bi := ls + len body + len eol). set (sD := upto (from_ D o) bi). set (lsq := epsB D a). set (sQ := upto Qd (lsq + 2 + len body + len eol)).
    pose proof L as (ED & Ha & Hb & He & Hp & Hne). pose proof (len_nonneg body) as Hlb. pose proof (len_nonneg eol) as Hle.
    destruct (lineAt_Q D a pre body eol post D_cr L) as (Q1 & Q2 & Q3 & Q4). fold lsq in Q1, Q2, Q3, Q4. fold Qd in Q2, Q3, Q4.
    assert (EsD : from_ sD ls = body ++ eol).
    { unfold sD, bi. rewrite upto_from_comm by lia. rewrite from_from by lia. replace (o + (ls + len body + len eol)) with (a + len body + len eol) by lia.
      rewrite <- Ea. apply (lineAt_line D a pre body eol post L). }
    assert (EsQ : from_ sQ lsq = lnq (body ++ eol)) by exact Q3.
    assert (Hlsq : 0 <= lsq) by (apply epsB_nonneg; lia).
    assert (HlenD : a + len body + len eol <= len D).
    { rewrite ED, !len_app. pose proof (len_nonneg post). lia. }
    assert (LsD : len sD = bi).
    { unfold sD. apply len_upto'. rewrite len_from by lia. unfold bi. lia. }
    assert (LsQ : len sQ = lsq + 2 + len body + len eol) by (unfold sQ; apply len_upto'; lia).
    assert (N91D : no91 sD) by (apply Forall_upto, Forall_from, D_91).
    assert (N91Q : no91 sQ) by (apply Forall_upto, Q_91).
    assert (Hne' : from_ sD ls <> []) by (rewrite EsD; exact Hne).
    rewrite (processLine_state st ks ls sD Hne' Hst).
    destruct (processLine_quoted fr stQ bq (map (MO o) ks) lsq sQ (body ++ eol) EsQ Hk Hop Hax Hkids Hcl ltac:(unfold MO; rewrite ccF_map_rB; exact Hcc))
      as (bq' & done' & EP & K1 & K2 & K3 & K4 & K5 & K6).
    assert (RL : processLineAt 2 2 stDescending (map (MO o) ks) lsq sQ =
                 (map (MO o) (fst (fst (processLine stDescending ks ls sD))), snd (fst (processLine stDescending ks ls sD)), snd (processLine stDescending ks ls sD)) /\
                 ceL sD sQ (sgO o) (fst (fst (processLine stDescending ks ls sD)))).
    { apply (reloc_line sD sQ (sgO o) (eBO o) idI ls lsq (body ++ eol) (len body)); try assumption.
      - apply eBO_neg.
      - intros e He0. apply eBO_pos; assumption.
      - rewrite <- EsD. apply noTab_from, noTab_upto, noTab_from, D_tab.
      - rewrite len_app. lia.
      - intros x Hx. unfold sgO. cbv zeta. replace (o + (ls + x)) with (a + x) by lia. destruct (Z.ltb_spec (a + x) 0); [lia|].
        apply (lineAt_sigma D a pre body eol post x L Hx).
      - unfold eBO. destruct (Z.ltb_spec ls 0); [lia|]. rewrite <- Ea. reflexivity.
      - intros x Hx. rewrite len_app in Hx. unfold eBO. destruct (Z.ltb_spec (ls + x) 0); [lia|]. replace (o + (ls + x)) with (a + x) by lia.
        apply (lineAt_epsB_in D a pre body eol post x L Hx).
      - intros x Hx. unfold sgO. cbv zeta. destruct (Z.ltb_spec (o + x) 0); [lia|]. apply (lineAt_mono_ge D a pre body eol post (o + x) L). lia.
      - intros x Hx. unfold sgO. cbv zeta. destruct (Z.ltb_spec (o + x) 0); [lia|]. apply (lineAt_mono_lt D a pre body eol post (o + x) L). lia.
      - reflexivity.
      - intros b Hb0. rewrite (onCloseParagraph_no91 sQ _ N91Q), (onCloseParagraph_no91 sD _ N91D). split; [reflexivity|constructor; [exact Hb0|constructor]].
      - intros Hlt. rewrite len_app in Hlt. destruct He as [->|[-> _]]; [|change (len (@nil Z)) with 0 in Hlt; lia].
        rewrite at_app_r by lia. replace (len body - len body) with 0 by lia. reflexivity.
      - rewrite LsD. unfold bi. lia.
      - rewrite LsQ. lia.
      - rewrite len_app. destruct He as [->|[-> _]]; [right|left; change (len (@nil Z)) with 0; lia].
        change (len [10]) with 1. split; [lia|]. rewrite at_app_r by lia. replace (len body - len body) with 0 by lia. reflexivity.
      - rewrite len_app. destruct body as [|c0 b0]; [|rewrite len_cons; pose proof (len_nonneg b0); lia]. destruct eol; [contradiction|rewrite len_cons; pose proof (len_nonneg eol); cbn [app]; change (len (@nil Z)) with 0; lia]. }
    destruct RL as [RL1 RL2]. rewrite RL1 in EP, K6. cbn [fst snd] in EP, K6.
    exists bq', done'. repeat split; assumption.
  Qed.
End Doc.

Check line_step.
Print Assumptions line_step.
