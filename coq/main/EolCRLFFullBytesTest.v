From Coq Require Import List ZArith Lia Bool.
Import ListNotations.
Require Import Base Utf8 Inl3a Inl3b Inl3c Inl3e Collect EolCRLFDefs EolCRLFFullNode.
Require Import EolCRLFFullBytes EolCRLFFullBytes1 EolCRLFFullBytes2 EolCRLFFullBytes3 EolCRLFFullBytes4.
Open Scope Z_scope.
(* executable sanity checks: the proved statements are exercised on inputs where the functions do something *)
Definition R1 : bytes := [32;32;10;10;42;42;97;10;60;97;64;98;46;99;62;10;226;128;148;10;42].
Example t_eol : eolRun 30 (crlf R1) (phiP R1 2) (phiP R1 21) = phiP R1 (eolRun 21 R1 2 21) /\ eolRun 21 R1 2 21 = 4. Proof. vm_compute. split; reflexivity. Qed.
Example t_run : runEnd 30 (crlf R1) (phiP R1 4) (phiP R1 21) 42 = phiP R1 (runEnd 21 R1 4 21 42) /\ runEnd 21 R1 4 21 42 = 6. Proof. vm_compute. split; reflexivity. Qed.
Example t_skip : skipSpTab 30 (crlf R1) (phiP R1 0) (phiP R1 21) = phiP R1 (skipSpTab 21 R1 0 21) /\ skipSpTab 21 R1 0 21 = 2. Proof. vm_compute. split; reflexivity. Qed.
Example t_hlb : parseHardLineBreakSpace (crlf [32;32;10;10;32]) = (7, true) /\ parseHardLineBreakSpace [32;32;10;10;32] = (5, true) /\ phiP [32;32;10;10;32] 5 = 7.
Proof. vm_compute. repeat split; reflexivity. Qed.
Example t_al : parseAutolink (from_ R1 8) = 7 /\ parseAutolink (crlf (from_ R1 8)) = 7. Proof. vm_compute. split; reflexivity. Qed.
Example t_al2 : parseAutolink [60;97;98;58;10;62] = -1 /\ parseAutolink (crlf [60;97;98;58;10;62]) = -1. Proof. vm_compute. split; reflexivity. Qed.
Example t_al3 : parseAutolink [60;97;98;58;120;62;10] = 6 /\ parseAutolink (crlf [60;97;98;58;120;62;10]) = 6. Proof. vm_compute. split; reflexivity. Qed.
Example t_ef : emphasisFlags (crlf R1) (phiP R1 4) (phiP R1 6) = emphasisFlags R1 4 6 /\ emphasisFlags R1 4 6 <> 0. Proof. vm_compute. split; [reflexivity|discriminate]. Qed.
Example t_ef2 : emphasisFlags (crlf R1) (phiP R1 20) (phiP R1 21) = emphasisFlags R1 20 21. Proof. vm_compute. reflexivity. Qed.
Example t_dlr : decodeLastRune (crlf (upto R1 19)) = (8212, 3) /\ decodeLastRune (upto R1 19) = (8212, 3). Proof. vm_compute. split; reflexivity. Qed.
Example t_dlr2 : decodeLastRune (crlf [10;128;148]) = decodeLastRune [10;128;148]. Proof. vm_compute. reflexivity. Qed.
Example t_cs : cs_addSpan (crlf R1) [] (phiP R1 4) (phiP R1 8) = map (phiN R1) (cs_addSpan R1 [] 4 8) /\ length (cs_addSpan R1 [] 4 8) = 2%nat.
Proof. vm_compute. split; reflexivity. Qed.
Definition R2 : bytes := [32;97;10;98;32].
Example t_strip : stripCodeSpanSpace (crlf R2) (map (phiN R2) (cs_addSpan R2 (cs_addSpan R2 [] 0 3) 3 5)) =
  map (phiN R2) (stripCodeSpanSpace R2 (cs_addSpan R2 (cs_addSpan R2 [] 0 3) 3 5)) /\
  stripCodeSpanSpace R2 (cs_addSpan R2 (cs_addSpan R2 [] 0 3) 3 5) <> cs_addSpan R2 (cs_addSpan R2 [] 0 3) 3 5.
Proof. vm_compute. split; [reflexivity|discriminate]. Qed.
Example t_pce : parseCharacterEscape [38;97;109;112;59;10] = 5. Proof. vm_compute. reflexivity. Qed.
