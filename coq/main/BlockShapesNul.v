From Coq Require Import List ZArith Lia Bool.
Import ListNotations.
Require Import Base Tree Driver Inl3e Props Rec17 Rec18 BShDef ShDef ShRecog ShSetext BlockShapes.
Open Scope Z_scope.

(* What is missing for the statement as asked on inputs with NUL bytes, made exact:
   if the text `pre` of a root block (a segment of the NUL-padded input) is cut at a NUL-triple boundary (`tri pre`),
   then filling the NULs keeps every block shape. *)

(* NUL bytes occur in complete triples only *)
Inductive tri : bytes -> Prop :=
| tri_nil : tri []
| tri_cons b r : b <> 0 -> tri r -> tri (b :: r)
| tri_nul r : tri r -> tri (0 :: 0 :: 0 :: r).

Definition sim (a b : Z) : Prop := (a <> 0 /\ b = a) \/ (a = 0 /\ (b = 239 \/ b = 191 \/ b = 189)).

Lemma fill_tri l : tri l -> Forall2 sim l (fillNulls l).
Proof.
  unfold fillNulls. induction 1 as [|b r Hb Ht IH|r Ht IH]; [constructor| |].
  - cbn [fill_aux]. destruct (Z.eqb_spec b 0); [contradiction|]. constructor; [left; split; [exact Hb|reflexivity]|exact IH].
  - cbn [fill_aux]. change (0 =? 0) with true. cbv iota.
    constructor; [right; split; [reflexivity|tauto]|]. constructor; [right; split; [reflexivity|tauto]|]. constructor; [right; split; [reflexivity|tauto]|exact IH].
Qed.

Lemma F2_len l l' : Forall2 sim l l' -> len l' = len l.
Proof. intros H. unfold len. f_equal. induction H; [reflexivity|cbn [length]; congruence]. Qed.
Lemma F2_skipn : forall n l l', Forall2 sim l l' -> Forall2 sim (skipn n l) (skipn n l').
Proof. induction n as [|n IH]; intros l l' H; [exact H|]. destruct H; [constructor|]. cbn [skipn]. apply IH. assumption. Qed.
Lemma F2_firstn : forall n l l', Forall2 sim l l' -> Forall2 sim (firstn n l) (firstn n l').
Proof. induction n as [|n IH]; intros l l' H; [constructor|]. destruct H; [constructor|]. cbn [firstn]. constructor; [assumption|apply IH; assumption]. Qed.
Lemma F2_sub l l' s e : Forall2 sim l l' -> Forall2 sim (sub l s e) (sub l' s e).
Proof. intros H. unfold sub, upto, from_. apply F2_firstn, F2_skipn, H. Qed.
Lemma F2_upto l l' n : Forall2 sim l l' -> Forall2 sim (upto l n) (upto l' n).
Proof. intros H. apply F2_firstn, H. Qed.
Lemma F2_app a a' b b' : Forall2 sim a a' -> Forall2 sim b b' -> Forall2 sim (a ++ b) (a' ++ b').
Proof. intros H1 H2. apply Forall2_app; assumption. Qed.
Lemma F2_rev l l' : Forall2 sim l l' -> Forall2 sim (rev l) (rev l').
Proof. induction 1; [constructor|]. cbn [rev]. apply F2_app; [assumption|constructor; [assumption|constructor]]. Qed.

(* a list without NUL is unchanged *)
Lemma F2_nz u u' : Forall2 sim u u' -> Forall (fun a => a <> 0) u -> u' = u.
Proof.
  induction 1 as [|a b u u' Hab H IH]; intros Hn; [reflexivity|]. inversion Hn as [|? ? Ha Hu]; subst.
  rewrite (IH Hu). destruct Hab as [[_ ->]|[E _]]; [reflexivity|contradiction].
Qed.
Lemma forallb_nz (p : Z -> bool) u : p 0 = false -> forallb p u = true -> Forall (fun a => a <> 0) u.
Proof.
  intros H0 H. rewrite forallb_forall in H. apply Forall_forall. intros x Hx E. subst x. rewrite (H 0 Hx) in H0. discriminate.
Qed.

Definition simz (a b : Z) : Prop := sim a b \/ (a = 0 /\ b = 0).
Lemma F2_at : forall l l' i, Forall2 sim l l' -> simz (at_ l i) (at_ l' i).
Proof.
  intros l l' i H. unfold at_. destruct (i <? 0); [right; split; reflexivity|]. generalize (Z.to_nat i). intros n. revert n.
  induction H as [|a b l l' Hab H IH]; intros n; [destruct n; right; split; reflexivity|]. destruct n as [|n]; [left; exact Hab|apply IH].
Qed.
Lemma simz_eq a b c : simz a b -> a = c -> c <> 0 -> b = c.
Proof. intros [[[_ ->]|[E _]]|[E _]] H N; congruence. Qed.
Lemma simz_neq35 a b : simz a b -> a <> 35 -> b <> 35.
Proof. intros [[[_ ->]|[_ [->|[->| ->]]]]|[_ ->]] H; try assumption; discriminate. Qed.
Lemma F2_lastZ l l' c : Forall2 sim l l' -> lastZ l = c -> c <> 0 -> c <> -1 -> lastZ l' = c.
Proof.
  intros H E N N1. unfold lastZ in *. pose proof (F2_rev _ _ H) as Hr. destruct Hr as [|a b r r' Hab _]; [congruence|].
  destruct Hab as [[_ ->]|[E0 _]]; [exact E|congruence].
Qed.

(* trimming goes in lockstep *)
Lemma sim_eol a b : sim a b -> ((b =? 10) || (b =? 13)) = ((a =? 10) || (a =? 13)).
Proof. intros [[_ ->]|[-> [->|[->| ->]]]]; reflexivity. Qed.
Lemma sim_sptab a b : sim a b -> isSpTab b = isSpTab a.
Proof. intros [[_ ->]|[-> [->|[->| ->]]]]; reflexivity. Qed.
Lemma F2_dropEOL l l' : Forall2 sim l l' -> Forall2 sim (dropWhileEOL l) (dropWhileEOL l').
Proof.
  induction 1 as [|a b l l' Hab H IH]; [constructor|]. cbn [dropWhileEOL]. rewrite (sim_eol a b Hab).
  destruct ((a =? 10) || (a =? 13)); [exact IH|constructor; assumption].
Qed.
Lemma F2_dropSp l l' : Forall2 sim l l' -> Forall2 sim (ShSetext.dropSp l) (ShSetext.dropSp l').
Proof.
  induction 1 as [|a b l l' Hab H IH]; [constructor|]. cbn [ShSetext.dropSp]. rewrite (sim_sptab a b Hab).
  destruct (isSpTab a); [exact IH|constructor; assumption].
Qed.
Lemma F2_trim t t' : Forall2 sim t t' -> Forall2 sim (trimRightSpTab (trimEOLr t)) (trimRightSpTab (trimEOLr t')).
Proof.
  intros H. rewrite !ShSetext.trimRightSpTab_eq. unfold trimEOLr. apply F2_rev, F2_dropSp, F2_rev, F2_rev, F2_dropEOL, F2_rev, H.
Qed.

Lemma shape_sim t t' b : Forall2 sim t t' -> shapeBlock t b = true -> shapeBlock t' b = true.
Proof.
  intros H. pose proof (F2_len _ _ H) as Hl. unfold shapeBlock. cbv zeta. rewrite Hl.
  destruct (bkind b =? ListMarkerKind).
  { intros Hs. apply orb_true_iff in Hs. apply orb_true_iff. destruct Hs as [Hs|Hs]; [left|right].
    - apply andb_true_iff in Hs. destruct Hs as [A B]. rewrite A. cbn [andb]. pose proof (F2_at t t' 0 H) as Hz.
      apply orb_true_iff in B. destruct B as [B|B]; [apply orb_true_iff in B; destruct B as [B|B]|]; apply Z.eqb_eq in B;
        rewrite (simz_eq _ _ _ Hz B ltac:(discriminate)); reflexivity.
    - apply andb_true_iff in Hs. destruct Hs as [Hs D]. apply andb_true_iff in Hs. destruct Hs as [Hs C]. rewrite Hs. cbn [andb].
      rewrite (F2_nz _ _ (F2_upto t t' (len t - 1) H) (forallb_nz isASCIIDigit _ eq_refl D)), D, andb_true_r.
      apply orb_true_iff in C. destruct C as [C|C]; apply Z.eqb_eq in C; rewrite (F2_lastZ t t' _ H C) by discriminate; reflexivity. }
  destruct (bkind b =? ATXHeadingKind).
  { intros Hs. apply andb_true_iff in Hs. destruct Hs as [Hs C]. apply andb_true_iff in Hs. destruct Hs as [A B]. rewrite A. cbn [andb].
    unfold allOf in *. rewrite (F2_nz _ _ (F2_upto t t' (bn b) H) (forallb_nz (fun x => x =? 35) _ eq_refl B)), B. cbn [andb].
    destruct (bn b <? len t); [|reflexivity]. cbn [andb] in *. apply negb_true_iff, Z.eqb_neq in C. apply negb_true_iff, Z.eqb_neq.
    eapply simz_neq35; [apply F2_at, H|exact C]. }
  destruct (bkind b =? SetextHeadingKind).
  { intros Hs. apply andb_true_iff in Hs. destruct Hs as [A B]. pose proof (F2_trim t t' H) as Ht. rewrite (F2_len _ _ Ht), A. cbn [andb].
    apply Z.eqb_eq in B. apply Z.eqb_eq. apply (F2_lastZ _ _ _ Ht B); destruct (bn b =? 2); discriminate. }
  destruct (bkind b =? FencedCodeBlockKind).
  { intros Hs. apply andb_true_iff in Hs. destruct Hs as [Hs D]. apply andb_true_iff in Hs. destruct Hs as [Hs C]. apply andb_true_iff in Hs. destruct Hs as [A B].
    rewrite A. cbn [andb]. pose proof (F2_at t t' 0 H) as Hz0. pose proof (F2_at t t' 1 H) as Hz1. pose proof (F2_at t t' 2 H) as Hz2.
    apply Z.eqb_eq in C. apply Z.eqb_eq in D.
    assert (E0 : at_ t 0 <> 0) by (apply orb_true_iff in B; destruct B as [B|B]; apply Z.eqb_eq in B; rewrite B; discriminate).
    rewrite (simz_eq _ _ _ Hz0 eq_refl E0), (simz_eq _ _ _ Hz1 C E0), (simz_eq _ _ _ Hz2 D E0), B, !Z.eqb_refl. reflexivity. }
  destruct (bkind b =? BlockQuoteKind); [|tauto].
  intros Hs. apply andb_true_iff in Hs. destruct Hs as [A B]. rewrite A. cbn [andb]. apply Z.eqb_eq in B.
  rewrite (simz_eq _ _ _ (F2_at t t' 0 H) B ltac:(discriminate)). reflexivity.
Qed.

Lemma bshapes_sim pre pre' : Forall2 sim pre pre' -> forall b, bshapes pre b = true -> bshapes pre' b = true.
Proof.
  intros H. fix IH 1. intros [K s e bk ik a n c l lb].
  change (bshapes pre (Blk K s e bk ik a n c l lb)) with
    (span_valid (len pre) s e && shapeBlock (sub pre s e) (Blk K s e bk ik a n c l lb) && forallb (bshapes pre) bk).
  change (bshapes pre' (Blk K s e bk ik a n c l lb)) with
    (span_valid (len pre') s e && shapeBlock (sub pre' s e) (Blk K s e bk ik a n c l lb) && forallb (bshapes pre') bk).
  rewrite (F2_len _ _ H). intros Hs. apply andb_true_iff in Hs. destruct Hs as [Hs C]. apply andb_true_iff in Hs. destruct Hs as [A B].
  rewrite A, (shape_sim _ _ _ (F2_sub pre pre' s e H) B). cbn [andb]. clear A B.
  induction bk as [|x r IHr]; [reflexivity|]. cbn [forallb] in *. apply andb_true_iff in C. destruct C as [C1 C2]. rewrite (IH x C1). apply IHr, C2.
Qed.

(* every input: the statement as asked holds for each root block whose text is cut at NUL-triple boundaries *)
Theorem parseBlocks_block_shapes_aligned_partial : forall input,
  Forall (fun r => exists pre, seg (pad input) pre /\ rb_src r = fillNulls pre /\ (tri pre -> bshapes (rb_src r) (rb_blk r) = true))
         (fst (parseBlocks input)).
Proof.
  intros input. eapply Forall_impl; [|apply parseBlocks_block_shapes_prefill_partial]. intros r (pre & S & A & B).
  exists pre. split; [exact S|split; [exact A|]]. intros Ht. rewrite A. eapply bshapes_sim; [apply fill_tri, Ht|exact B].
Qed.
Print Assumptions parseBlocks_block_shapes_aligned_partial.

Corollary parseFull_block_shapes_aligned_partial : forall input,
  Forall (fun r => exists pre, seg (pad input) pre /\ rb_src r = fillNulls pre /\ (tri pre -> bshapes (rb_src r) (rb_blk r) = true))
         (fst (parseFull input)).
Proof.
  intros input. eapply Forall_impl; [|apply parseFull_block_shapes_prefill_partial]. intros r (pre & S & A & B).
  exists pre. split; [exact S|split; [exact A|]]. intros Ht. rewrite A. eapply bshapes_sim; [apply fill_tri, Ht|exact B].
Qed.
Print Assumptions parseFull_block_shapes_aligned_partial.
