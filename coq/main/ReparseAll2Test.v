From Coq Require Import List ZArith Bool String Ascii.
Import ListNotations.
Require Import Base Tree Driver SliceReparse ReparseAll ReparseAll2.
Open Scope Z_scope.
Fixpoint bs (s : string) : list Z := match s with EmptyString => [] | String a r => Z.of_nat (nat_of_ascii a) :: bs r end.
Definition nl := String (ascii_of_nat 10) EmptyString.
Definition cat (l : list string) : list Z := bs (String.concat nl l).
Definition flags2 (d : list Z) : list (Z * bool) := map (fun r => (bkind (rb_blk r), covered2 d r)) (fst (parseBlocks d)).
Definition flagsR2 (d : list Z) : list (Z * bool) := map (fun r => (bkind (rb_blk r), coveredR2 d r)) (fst (parseBlocks d)).
Open Scope string_scope.
(* task lists, paragraphs beginning with links / images / brackets, cut by every kind of following line *)
Definition t1 := cat ["- [ ] task"; "- [x] done"; "# h"; "- [ ] again"; "***"; "- [ ] third"; "> q"; ""].
Definition t2 := cat ["[link](http://x) starts"; "# atx"; "[a] b"; "***"; "[c]"; "> quote"; "[d] e"; "- item"; "[e]"; "```"; "code"; "```"; "[f] g"; "<div>"; "x"; ""; "[g]"; ""; "end"; ""].
Definition t3 := cat ["![img](a.png)"; "# h"; "[not a def"; "second line"; "==="; "[x]: no-def-because-not-first"; "---"; "[foo]"; "bar"; "1. one"; ""].
Definition t4 := cat ["> [quoted bracket"; "> more"; "# h"; "> - [ ] task in quote"; "***"; "1. [ordered]"; "   cont"; "2. [two]"; "    code"; "[p]"; "    not code, lazy"; "~~~"; "f"; "~~~"; ""].
Definition t5 := cat ["[a]: "; "# h"; "[b]"; "[c]: <unterminated"; "***"; "[d]: /u 'unterminated title"; "> q"; ""].
Definition t6 := cat ["- [ ] a"; "  [nested para"; "  continues"; "- [ ] b"; "# cut"; "* [x"; "   y"; "<!-- c -->"; "[z]"; ""; ""].
(* with definitions: the remaining exceptions *)
Definition x1 := cat ["[foo]: /url"; ""; "para [foo]"; ""].
Definition x2 := cat ["[foo]: /url"; "rest of paragraph"; "# h"; ""].
Definition x5 := cat ["[foo]: /url"; "[bar]: /url2"; "# h"; "text"; "==="; ""].
Definition x8 := cat ["> [x]: /u"; "> more"; "# h"; "- [y]: /v"; "# h2"; ""].
Definition allTrue (l : list (Z * bool)) : bool := forallb snd l.
(* every root of the six documents (task lists, paragraphs beginning with links / images / brackets cut by a heading, a thematic
   break, a quote, a list item, a fence, an HTML block, a blank line, a setext underline) is covered -- except, in t3, the
   definition root and the root after it (exclusions (1) and (3)) *)
Example covered2_brackets :
  map (fun d => map snd (flags2 d)) [t1; t2; t4; t5; t6] =
  [ [true; true; true; true; true; true]; [true; true; true; true; true; true; true; true; true; true; true; true];
    [true; true; true; true; true; true]; [true; true; true; true; true; true]; [true; true; true; true; true] ] /\
  flags2 t3 = [(ParagraphKind, true); (ATXHeadingKind, true); (SetextHeadingKind, true); (LinkReferenceDefinitionKind, false);
               (ThematicBreakKind, false); (ParagraphKind, true); (ListKind, true)].
Proof. vm_compute. split; reflexivity. Qed.
(* what remains excluded: definition roots, and (without the computed re-synchronisation) the roots after a cut inside a paragraph holding definitions *)
Example covered2_exceptions :
  map flags2 [x1; x2; x5; x8] =
  [ [(LinkReferenceDefinitionKind, false); (ParagraphKind, true)];
    [(LinkReferenceDefinitionKind, false); (ParagraphKind, false); (ATXHeadingKind, false)];
    [(LinkReferenceDefinitionKind, false); (LinkReferenceDefinitionKind, false); (ATXHeadingKind, false); (SetextHeadingKind, true)];
    [(BlockQuoteKind, true); (ATXHeadingKind, true); (ListKind, true); (ATXHeadingKind, true)] ] /\
  map flagsR2 [x1; x2; x5; x8] =
  [ [(LinkReferenceDefinitionKind, false); (ParagraphKind, true)];
    [(LinkReferenceDefinitionKind, false); (ParagraphKind, true); (ATXHeadingKind, true)];
    [(LinkReferenceDefinitionKind, false); (LinkReferenceDefinitionKind, false); (ATXHeadingKind, true); (SetextHeadingKind, true)];
    [(BlockQuoteKind, true); (ATXHeadingKind, true); (ListKind, true); (ATXHeadingKind, true)] ].
Proof. vm_compute. split; reflexivity. Qed.
