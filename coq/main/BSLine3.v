From Coq Require Import List ZArith Lia Bool.
Import ListNotations.
Require Import Base Tree Rdr Link Collect Html Recog LP Rules Starts Driver L2Kind L2CC BSDef BSRdr BSTree BSOcp BSOrph BSClose BSLine1 BSLine2.
Open Scope Z_scope.

(* ---- parser-state bookkeeping ---- *)
Definition nd (p : lp) : Prop := state p = stOpening \/ state p = stOpenMatched \/ state p = stLineConsumed.
Definition ms (p : lp) : Prop := state p = stOpenMatched \/ state p = stLineConsumed.
Definition sstep (p p' : lp) : Prop := state p' = state p \/ (state p = stOpening /\ state p' = stOpenMatched).
Lemma sstep_refl p : sstep p p. Proof. left. reflexivity. Qed.
Lemma sstep_trans a b c : sstep a b -> sstep b c -> sstep a c.
Proof.
  intros [A|[A1 A2]] [B|[B1 B2]]; unfold sstep.
  - left. congruence.
  - right. split; congruence.
  - right. split; congruence.
  - rewrite A2 in B1. discriminate.
Qed.
Lemma sstep_opened p : sstep p (if state p =? stOpening then withState p stOpenMatched else p).
Proof. destruct (Z.eqb_spec (state p) stOpening) as [E|E]; [right; split; [exact E|reflexivity]|left; reflexivity]. Qed.
Lemma nd_sstep p p' : sstep p p' -> nd p -> nd p'.
Proof. intros [A|[A1 A2]] H; unfold nd in *; [rewrite A; exact H|rewrite A2; tauto]. Qed.
Lemma ms_sstep p p' : sstep p p' -> ms p -> ms p'.
Proof. intros [A|[A1 A2]] H; unfold ms in *; [rewrite A; exact H|rewrite A2; tauto]. Qed.
Lemma st_open_sstep p p' : sstep p p' -> st_open p -> st_open p'.
Proof. intros [A|[A1 A2]] H; unfold st_open in *; [rewrite A; exact H|rewrite A2; tauto]. Qed.
Lemma st_open_nd p : st_open p -> nd p. Proof. unfold st_open, nd. tauto. Qed.
Lemma ms_nd p : ms p -> nd p. Proof. unfold ms, nd. tauto. Qed.

Lemma sstep_advance p n : sstep p (advance p n).
Proof.
  unfold advance. destruct (n <? 0); [(left; reflexivity)|]. destruct (n =? 0); [(left; reflexivity)|]. cbv zeta.
  eapply sstep_trans; [apply sstep_opened|]. destruct (_ <? _); (left; reflexivity).
Qed.
Lemma sstep_consumeIndent_loop : forall fuel p n, sstep p (consumeIndent_loop fuel p n).
Proof.
  induction fuel as [|f IH]; intros p n; [(left; reflexivity)|]. cbn [consumeIndent_loop].
  destruct (n <=? 0); [(left; reflexivity)|]. cbv zeta.
  eapply sstep_trans; [apply sstep_opened|]. set (p0 := if state p =? stOpening then withState p stOpenMatched else p).
  destruct (_ && (_ =? 32)); [eapply sstep_trans; [|apply IH]; (left; reflexivity)|].
  destruct (_ && (_ =? 9)); [|(left; reflexivity)].
  destruct (n <? _); [(left; reflexivity)|]. eapply sstep_trans; [|apply IH]. (left; reflexivity).
Qed.
Lemma sstep_consumeIndent p n : sstep p (consumeIndent p n). Proof. apply sstep_consumeIndent_loop. Qed.
Lemma sstep_updCont p f : sstep p (updCont p f). Proof. (left; reflexivity). Qed.
Lemma sstep_collectInline p kind n : sstep p (collectInline p kind n).
Proof.
  unfold collectInline. destruct (_ =? stDescendTerminated); [(left; reflexivity)|]. cbv zeta.
  eapply sstep_trans; [|apply sstep_updCont]. eapply sstep_trans; [|apply sstep_advance].
  destruct (0 <? _); [|apply sstep_opened].
  eapply sstep_trans; [|apply sstep_updCont]. eapply sstep_trans; [|apply sstep_advance]. apply sstep_opened.
Qed.
Lemma sstep_endBlock p : sstep p (endBlock p).
Proof.
  unfold endBlock. destruct (_ || _); [(left; reflexivity)|]. cbv zeta. destruct (cdepth _); apply sstep_opened.
Qed.
Lemma state_openBlock_up : forall fuel p kind, state (openBlock_up fuel p kind) = state p.
Proof.
  induction fuel as [|f IH]; intros p kind; [reflexivity|]. cbn [openBlock_up]. destruct (canContain _ _); [reflexivity|].
  destruct (cdepth p); [reflexivity|]. rewrite IH. reflexivity.
Qed.
Lemma state_openBlock p kind : st_open p -> state (openBlock p kind) = stOpenMatched.
Proof.
  intros Hs. unfold openBlock.
  replace ((state p =? stDescending) || (state p =? stDescendTerminated)) with false by (destruct Hs as [-> | ->]; reflexivity).
  cbv zeta. cbn [state withCont updCont withRoot closeLastChildAt setLP]. rewrite state_openBlock_up.
  destruct Hs as [E|E]; rewrite E; [reflexivity|]. change (stOpenMatched =? stOpening) with false. cbv iota. exact E.
Qed.
Lemma ms_consumeLine p : nd p -> ms (consumeLine p) /\ nd (consumeLine p).
Proof.
  intros H. unfold consumeLine. cbv zeta. pose proof (sstep_advance p (len (line p) - li p)) as Hs.
  pose proof (nd_sstep _ _ Hs H) as H1. set (q := advance p (len (line p) - li p)) in *.
  destruct H1 as [E|[E|E]]; rewrite E; cbn [Z.eqb orb]; unfold ms, nd; cbn [state withState setLP]; [tauto|tauto|].
  change (stLineConsumed =? stOpening) with false. change (stLineConsumed =? stOpenMatched) with false.
  change (stLineConsumed =? stDescending) with false. cbn [orb]. rewrite E. tauto.
Qed.

(* ---- updating the container in place ---- *)
Lemma cc_ext a b : bkids a = bkids b -> bkind a = bkind b -> cc a = cc b.
Proof. intros E1 E2. rewrite !cc_eq, E1, E2. reflexivity. Qed.

Definition keeps (f : block -> block) : Prop :=
  forall x, bstart (f x) = bstart x /\ bend (f x) = bend x /\ bkids (f x) = bkids x /\ bkind (f x) = bkind x.

Lemma BPb_updCont M p f : BPb M p -> keeps f ->
  (forall x, getAt (cdepth p) (root p) = Some x -> sp M x -> sp M (f x)) -> BPb M (updCont p f).
Proof.
  intros (A & B & C & D) Hk Hf. split; [exact A|]. split; [|split].
  - cbn [root updCont withRoot setLP]. apply (sp_updAt_at M f (cdepth p) (root p) B). intros x Ex Sx.
    destruct (Hk x) as (K1 & K2 & _). split; [apply Hf; assumption|split; assumption].
  - change (updCont p f) with (withCont (withRoot p (updAt (cdepth p) f (root p))) (container p)).
    intros j y Hj Ey. cbn [root withCont withRoot setLP] in Ey.
    assert (Hj' : (j <= cdepth p)%nat) by exact Hj.
    destruct (getAt_updAt_low f ltac:(intros x; apply Hk) (cdepth p) j (root p) y Hj' Ey) as (x & E0 & Eb & _).
    rewrite Eb. apply (C j x Hj' E0).
  - apply ccP_updCont; [exact D|]. intros x _ Cx. destruct (Hk x) as (_ & _ & K3 & K4). split; [|exact K4].
    rewrite (cc_ext (f x) x K3 K4). exact Cx.
Qed.
Lemma getAt_below_updCont p f : keeps f -> getAt (S (cdepth p)) (root (updCont p f)) = getAt (S (cdepth p)) (root p).
Proof.
  intros Hk. cbn [root updCont withRoot setLP]. rewrite getAt_S_updAt, getAt_S_last.
  destruct (getAt (cdepth p) (root p)) as [x|]; [|reflexivity]. destruct (Hk x) as (_ & _ & K3 & _). unfold lastBlock. rewrite K3. reflexivity.
Qed.
Lemma C1_updCont p f : keeps f -> C1 p -> C1 (updCont p f).
Proof. intros Hk H c Ec. change (cdepth (updCont p f)) with (cdepth p) in Ec. rewrite getAt_below_updCont in Ec by exact Hk. apply H, Ec. Qed.
Lemma OPx_updCont p f : OPx p -> keeps f ->
  (forall x, getAt (cdepth p) (root p) = Some x -> sp (Mc p) x -> sp (Mc p) (f x)) -> OPx (updCont p f).
Proof. intros [A B] Hk Hf. split; [apply (BPb_updCont (Mc p)); assumption|apply C1_updCont; assumption]. Qed.

(* field setters *)
Lemma keeps_bn v : keeps (fun b => set_bn b v). Proof. intros x. destruct x; repeat split. Qed.
Lemma keeps_bchar v : keeps (fun b => set_bchar b v). Proof. intros x. destruct x; repeat split. Qed.
Lemma keeps_bindent v : keeps (fun b => set_bindent b v). Proof. intros x. destruct x; repeat split. Qed.
Lemma keeps_fence fc fnn : keeps (fun b => set_bn (set_bchar b fc) fnn). Proof. intros x. destruct x; repeat split. Qed.
Lemma keeps_bik g : keeps (fun b => set_bik b (g b)). Proof. intros x. destruct x; repeat split. Qed.

Lemma LI_updCont_field p f : keeps f -> (forall M x, sp M x -> sp M (f x)) -> LI p -> LI (updCont p f).
Proof.
  intros Hk Hf H y Ey. change (cdepth (updCont p f)) with (cdepth p) in Ey. cbn [root updCont withRoot setLP lineStart] in *.
  rewrite getAt_updAt_same in Ey. destruct (getAt (cdepth p) (root p)) as [x|] eqn:Ex; [|discriminate]. cbn in Ey. inversion Ey; subst y.
  destruct (Hk x) as (_ & _ & _ & K4). rewrite K4. destruct (H x Ex) as [S|W]; [left; apply Hf, S|right; exact W].
Qed.

Lemma sp_set_bik_nonpara M b ik : bkind b <> ParagraphKind -> sp M b -> sp M (set_bik b ik).
Proof.
  intros N. rewrite !sp_eq, bstart_set_bik, bend_set_bik, bk_set_bik, bkind_set_bik.
  intros (A & B & C & D & E). split; [exact A|]. split; [exact B|]. split; [|tauto].
  intros He. destruct (C He) as [C1 _]. split; [exact C1|intros; contradiction].
Qed.
Lemma OPx_addik p g K : OPx p -> ckind p K -> K <> ParagraphKind -> OPx (updCont p (fun b => set_bik b (g b))).
Proof.
  intros H Hc N. apply OPx_updCont; [exact H|apply keeps_bik|]. intros x Ex Sx. apply sp_set_bik_nonpara; [rewrite (Hc x Ex); exact N|exact Sx].
Qed.
Lemma ckind_cstep p p' K : cstep p p' -> ckind p K -> ckind p' K.
Proof. intros (H & _ & _). apply ckind_same, H. Qed.

Lemma OPx_collectInline p kind n K : OPx p -> ckind p K -> K <> ParagraphKind ->
  OPx (collectInline p kind n) /\ ckind (collectInline p kind n) K.
Proof.
  intros H Hc N. unfold collectInline. destruct (_ =? stDescendTerminated); [split; [exact H|exact Hc]|]. cbv zeta.
  set (p0 := if state p =? stOpening then withState p stOpenMatched else p).
  assert (H0 : OPx p0 /\ ckind p0 K) by (split; [eapply OPx_cstep|eapply ckind_cstep]; try apply cstep_opened; assumption).
  set (p1 := if 0 <? indent p0 then _ else p0).
  assert (H1 : OPx p1 /\ ckind p1 K).
  { unfold p1. destruct (0 <? indent p0); [|exact H0]. destruct H0 as [A B].
    pose proof (cstep_advance p0 (indentLength (rest p0))) as Hs.
    split; [apply (OPx_addik _ (fun b => bik b ++ [_]) K); [eapply OPx_cstep; eassumption|eapply ckind_cstep; eassumption|exact N]|].
    apply ckind_updCont; [intros b; apply bkind_set_bik|eapply ckind_cstep; eassumption]. }
  destruct H1 as [A B]. pose proof (cstep_advance p1 n) as Hs.
  split; [apply (OPx_addik _ (fun b => bik b ++ [_]) K); [eapply OPx_cstep; eassumption|eapply ckind_cstep; eassumption|exact N]|].
  apply ckind_updCont; [intros b; apply bkind_set_bik|eapply ckind_cstep; eassumption].
Qed.

(* ---- endBlock ---- *)
Lemma bheight_S b : exists n, bheight b = S n.
Proof. destruct b. cbn [bheight]. eexists. reflexivity. Qed.
Lemma bend_onCloseList b : bend (onCloseList b) = bend b.
Proof. unfold onCloseList. cbv zeta. destruct (bloose b || _); [|reflexivity]. rewrite bend_set_bkids. apply bend_set_bloose. Qed.
Lemma closeBlock_single f src c e y : bend c < 0 -> bkind c <> ParagraphKind -> bkind c <> SetextHeadingKind ->
  In y (closeBlock (S f) src c e) -> bend y = e.
Proof.
  intros Ho N1 N2. cbn [closeBlock]. unfold isOpen. destruct (Z.ltb_spec (bend c) 0); [|lia]. cbn [negb]. cbv zeta.
  assert (Hcl : forall x, bend (match lastBlock x with Some c0 => set_lastBlocks x (closeBlock f src c0 e) | None => x end) = bend x).
  { intros x. destruct (lastBlock x); [apply bend_set_lastBlocks|reflexivity]. }
  rewrite bkind_set_bend.
  destruct (bkind c =? ListKind); [intros [<-|[]]; rewrite Hcl, bend_onCloseList; apply bend_set_bend|].
  destruct (bkind c =? IndentedCodeBlockKind); [intros [<-|[]]; rewrite Hcl; unfold onCloseIndented; rewrite bend_set_bik; apply bend_set_bend|].
  replace (bkind c =? ParagraphKind) with false by (symmetry; apply Z.eqb_neq; exact N1).
  replace (bkind c =? SetextHeadingKind) with false by (symmetry; apply Z.eqb_neq; exact N2). cbn [orb].
  intros [<-|[]]. rewrite Hcl. apply bend_set_bend.
Qed.

Lemma LI_root p : ccP p -> cdepth p = O -> LI p.
Proof. intros (A & _) E x Ex. rewrite E in Ex. cbn in Ex. inversion Ex; subst x. right. left. exact A. Qed.

Lemma OPx_endBlock p K : OPx p -> nd p -> ckind p K -> K <> ParagraphKind -> K <> SetextHeadingKind ->
  OPx (endBlock p) /\ (K <> ListItemKind -> LI (endBlock p)).
Proof.
  intros H Hn Hc N1 N2. unfold endBlock.
  replace ((state p =? stDescending) || (state p =? stDescendTerminated)) with false by (destruct Hn as [-> |[-> | ->]]; reflexivity).
  cbv zeta. set (p0 := if state p =? stOpening then withState p stOpenMatched else p).
  pose proof (cstep_opened p) as Hc0. fold p0 in Hc0.
  assert (H0 : OPx p0) by (eapply OPx_cstep; eassumption). assert (C0 : ckind p0 K) by (eapply ckind_cstep; eassumption).
  destruct (cdepth p0) as [|d] eqn:Ed.
  { split; [exact H0|]. intros _. apply (LI_ext p0); try reflexivity. apply LI_root; [apply H0|exact Ed]. }
  destruct H0 as [HB0 H10]. pose proof HB0 as (A & B & C & D).
  destruct (wf_le p0 (S d) D ltac:(lia)) as (c & Ecx). destruct (wf_le p0 d D ltac:(lia)) as (y & Ey).
  assert (Kc : bkind c = K) by (apply C0; rewrite Ed; exact Ecx).
  assert (Oc : bend c < 0) by (apply (C (S d) c); [lia|exact Ecx]).
  set (q := withCont (closeLastChildAt p0 d (lineStart p0 + li p0)) (Some d)).
  assert (HBq : BP q).
  { change (BPb (Mc p0) q). apply BPb_closeAt; [exact HB0|unfold Mc; lia|lia|lia|].
    intros x c' Ex El _. rewrite getAt_S_last, Ex in Ecx. rewrite El in Ecx. inversion Ecx; subst c'. eapply sp_getAt; [exact B|].
    rewrite getAt_S_last, Ex. exact El. }
  split; [split; [exact HBq|]|].
  - intros z Ez Oz. exfalso. unfold q, cdepth in Ez. cbn [container root withCont closeLastChildAt withRoot setLP] in Ez.
    fold (closeF p0 (lineStart p0 + li p0)) in Ez.
    destruct (closeAt_child p0 d _ z Ez) as (x & c' & Ex & El & Hin).
    rewrite getAt_S_last, Ex in Ecx. rewrite El in Ecx. inversion Ecx; subst c'.
    destruct (bheight_S (root p0)) as (n & En). rewrite En in Hin.
    pose proof (closeBlock_single n (source p0) c _ z Oc ltac:(rewrite Kc; exact N1) ltac:(rewrite Kc; exact N2) Hin) as Ez'.
    destruct A. lia.
  - intros N3 z Ez. right. unfold q, cdepth in Ez. cbn [container root withCont closeLastChildAt withRoot setLP] in Ez.
    fold (closeF p0 (lineStart p0 + li p0)) in Ez. rewrite getAt_closeAt, Ey in Ez. cbn in Ez. inversion Ez; subst z.
    rewrite closeF_kind. eapply wide_of_child; [eapply (cc_spine d (root p0) y c); [apply D|exact Ey|exact Ecx]|rewrite Kc; exact N3].
Qed.
