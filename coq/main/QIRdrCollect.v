(* QIRdrCollect.v -- T64: QRdrCollect.v (T58) ported to the generalised base QIRdrBase and generalised from TextKind to any text
   kind tk: transformLinkReferenceSpan and collectTextNodes on two related readers (plain document / quoted document).
   The readers run over a suffix sp0 of the entry list IK of the leaf, up to a position e; the image of the end is e':
     either  e - 1 lies inside a span of IK and e' = sg (e - 1) + 1   (an end "behind a byte": labels, bare destinations, HTML tags)
     or      e lies inside a span of IK and e' = sg e                 (an end "at a byte": the closing delimiter of a title or of
                                                                       a <destination>, the closing bracket of a label).
   (When e is the position behind a line feed and e' = sg e is the position behind the "> " of the next line, but e is in no span --
   the range ends with the last span -- the statement would be false: the quoted reader stops in the gap.  The two alternatives
   above are exactly the ends that the scanners of QIRdrLink produce.)
   transformLinkReferenceSpan gives the same bytes.  collectTextNodes gives the same nodes, except that a node of kind tk which
   covers several lines of sD comes out split at the line ends on the sQ side, where the reader jumps at every line end (qKk). *)
From Coq Require Import List ZArith Lia Bool.
Import ListNotations.
Require Import Base Tree Rdr Link Collect ShapesBase ShapesR IFBase IFLink IFCollect LARpce LA2 LAR2 QuoteSimMap QCutsDef QCuts QIRdrBase QIRdrLink QInlDefs.
Open Scope Z_scope.

Section QC.
  Variables (sD sQ : bytes) (sg : Z -> Z).
  Hypothesis HS : SGood sD sQ sg.
  Variable IK : list inline.
  Hypothesis IK_w : spW sD IK = true.
  Hypothesis IK_g : Forall (gsp sD sg IK) IK.
  Variable tk : Z.   (* the kind of the collected text nodes: TextKind or RawHTMLKind in the inline pass *)
  Variables e e' : Z.
  Hypothesis e_rng : 0 <= e <= len sD.
  Hypothesis e_ok : (InIK IK (e - 1) /\ e' = sg (e - 1) + 1) \/ (InIK IK e /\ e' = sg e).
  Notation RR := (QIRdrBase.RR sD sQ sg IK true).
  Notation sgE := (QIRdrBase.sgE sD sg).
  Notation ExhMid := (QIRdrBase.ExhMid sD IK).

  Lemma IK_len u : In u IK -> 0 <= istart u /\ istart u < iend u /\ iend u <= len sD.
  Proof. intros Hu. pose proof IK_g as G. rewrite Forall_forall in G. destruct (G u Hu) as (A & B & C & _). lia. Qed.
  Lemma sgle x y : 0 <= x -> x <= y -> sg x <= sg y.
  Proof. intros Hx H. destruct (Z.eq_dec x y) as [->|N]; [lia|]. pose proof (SG_mono _ _ _ HS x y Hx ltac:(lia)). lia. Qed.

  (* comparisons with the end of the range *)
  Lemma e'_leb p : 0 <= p <= len sD -> (e' <=? sgE p) = (e <=? p).
  Proof.
    intros Hp. destruct e_ok as [[(u & Hu & Hin) ->]|[(u & Hu & Hin) ->]]; pose proof (IK_len u Hu) as Hl.
    - destruct (Z.leb_spec e p) as [L|L].
      + apply Z.leb_le. pose proof (bsgE_ltb sD sQ sg HS (e - 1) p ltac:(lia) ltac:(lia)) as X. rewrite (bsgE_in sD sQ sg HS (e - 1)) in X by lia.
        destruct (Z.ltb_spec (sg (e - 1)) (sgE p)); destruct (Z.ltb_spec (e - 1) p); try lia; discriminate X.
      + apply Z.leb_gt. rewrite (bsgE_in sD sQ sg HS p) by lia. pose proof (sgle p (e - 1) ltac:(lia) ltac:(lia)). lia.
    - rewrite <- (bsgE_in sD sQ sg HS e) by lia. apply (bsgE_leb sD sQ sg HS); lia.
  Qed.
  Lemma e'_ltb p : 0 <= p <= len sD -> (sgE p <? e') = (p <? e).
  Proof. intros Hp. rewrite !Z.ltb_antisym, (e'_leb p Hp). reflexivity. Qed.
  Lemma T_done r r' : RR r r' -> (e' <=? r_pos r') = (e <=? r_pos r).
  Proof. intros H. pose proof H as (_ & _ & _ & _ & _ & _ & (P & _) & P' & _). rewrite P'. apply e'_leb, P. Qed.
  Lemma T_lt r r' : RR r r' -> (r_pos r' <? e') = (r_pos r <? e).
  Proof. intros H. pose proof H as (_ & _ & _ & _ & _ & _ & (P & _) & P' & _). rewrite P'. apply e'_ltb, P. Qed.

  Lemma T_curNode r r' : RR r r' -> fst (curNode r') = option_map (mvS sg) (fst (curNode r)) /\ RR (snd (curNode r)) (snd (curNode r')).
  Proof. apply (bRR_curNode sD sQ sg IK true HS). Qed.
  Lemma T_current r r' : RR r r' -> fst (current r') = fst (current r) /\ RR (snd (current r)) (snd (current r')).
  Proof. apply (bRR_current sD sQ sg IK true HS). Qed.
  Lemma T_remaining r r' : RR r r' -> fst (remainingNodeBytes r') = fst (remainingNodeBytes r) /\ RR (snd (remainingNodeBytes r)) (snd (remainingNodeBytes r')).
  Proof. apply (bRR_remaining sD sQ sg IK true HS). Qed.

  (* a reader in front of the end of the range is inside a node *)
  Lemma before_e_node r r' : RR r r' -> r_pos r < e -> InNode r.
  Proof.
    intros H L. destruct (RR_mid sD sQ sg IK HS r r' H ltac:(lia)) as [HN|(_ & _ & _ & A)]; [exact HN|]. exfalso.
    destruct e_ok as [[(u & Hu & Hin) _]|[(u & Hu & Hin) _]]; specialize (A u Hu); lia.
  Qed.

  Lemma T_next r r' : RR r r' ->
    fst (next r') = fst (next r) /\
    (fst (next r) = true -> RR (snd (next r)) (snd (next r'))) /\
    (fst (next r) = false -> r_pos r < e ->
       (e <=? r_pos (snd (next r))) = true /\ (e' <=? r_pos (snd (next r'))) = true /\ e = r_pos r + 1 /\ e' = sg (e - 1) + 1).
  Proof.
    intros H. pose proof (bRR_next sD sQ sg IK true HS IK_w r r' H) as (A & B & _ & _). split; [exact A|]. split.
    - intros Hok. destruct B as [B|[B _]]; [exact B|rewrite Hok in B; discriminate B].
    - intros Hf L. pose proof (before_e_node r r' H L) as HN. pose proof (InNode_lt sD sQ sg IK HS r r' H HN) as Ll.
      destruct (bRR_next_fail sD sQ sg IK true HS r r' H HN Hf Ll) as (F1 & F2 & _).
      pose proof (fail_all sD sQ sg IK HS IK_w IK_g r r' H HN Hf) as All. rewrite F1, F2.
      destruct e_ok as [[(u & Hu & Hin) E']|[(u & Hu & Hin) E']]; specialize (All u Hu); [|lia].
      assert (Ee : e = r_pos r + 1) by lia. split; [apply Z.leb_le; lia|]. split; [apply Z.leb_le; rewrite E', Ee; replace (r_pos r + 1 - 1) with (r_pos r) by lia; lia|]. split; [exact Ee|exact E'].
  Qed.

  (* ---------------------------------------------------------------- transformLinkReferenceSpan *)
  Lemma tlr_done f r acc : (e <=? r_pos r) = true -> tlr_loop f r e acc = acc.
  Proof. intros H. destruct f as [|f]; [reflexivity|]. rewrite tlr_loop_S, H. reflexivity. Qed.
  Lemma tlr_done' f r acc : (e' <=? r_pos r) = true -> tlr_loop f r e' acc = acc.
  Proof. intros H. destruct f as [|f]; [reflexivity|]. rewrite tlr_loop_S, H. reflexivity. Qed.

  Lemma q_tlr_skip f acc acc0 : (forall r r', RR r r' -> tlr_loop f r' e' acc = tlr_loop f r e acc) ->
    forall k r r', RR r r' ->
    tlr_skip (fun x => tlr_loop f x e' acc) acc0 e' k r' = tlr_skip (fun x => tlr_loop f x e acc) acc0 e k r.
  Proof.
    intros IH. induction k as [|k IHk]; intros r r' HT; [reflexivity|]. cbn [tlr_skip].
    rewrite (T_lt r r' HT). unfold cur. destruct (T_current r r' HT) as [Ec HT1]. rewrite Ec.
    destruct (Z.ltb_spec (r_pos r) e) as [Lr|Lr]; cbn [andb]; [|apply IH, HT].
    destruct (isSpaceTabOrLineEnding (fst (current r))); [|apply IH, HT]. destruct (T_next _ _ HT1) as (Eo & Tt & Tf).
    pose proof (pos_current r) as Pc.
    destruct (next (snd (current r))) as [ok r2]. destruct (next (snd (current r'))) as [ok' r2']. cbn [fst snd] in *. subst ok'. destruct ok.
    - apply IHk, Tt. reflexivity.
    - destruct (Tf eq_refl ltac:(lia)) as (D1 & D2 & _). rewrite (tlr_done f r2 acc D1), (tlr_done' f r2' acc D2). reflexivity.
  Qed.

  Lemma q_tlr_loop : forall f r r' acc, RR r r' -> tlr_loop f r' e' acc = tlr_loop f r e acc.
  Proof.
    induction f as [|f IH]; intros r r' acc HT; [reflexivity|]. rewrite !tlr_loop_S. rewrite (T_done r r' HT).
    destruct (Z.leb_spec e (r_pos r)) as [Le|Le]; [reflexivity|]. destruct (T_current r r' HT) as [Ec HT1]. pose proof (pos_current r) as Pc.
    destruct (current r) as [c r1]. destruct (current r') as [c' r1']. cbn [fst snd] in *. subst c'.
    destruct (T_next _ _ HT1) as (Eo & Tt & Tf). destruct (next r1) as [ok r2]. destruct (next r1') as [ok' r2']. cbn [fst snd] in *. subst ok'.
    destruct (isSpaceTabOrLineEnding c); cbv zeta; (destruct ok; cbn [negb]; [|reflexivity]).
    - apply q_tlr_skip; [intros x x' Hx; apply IH, Hx|apply Tt; reflexivity].
    - apply IH, Tt. reflexivity.
  Qed.

  (* ---------------------------------------------------------------- collectTextNodes *)
  Lemma Hcut ps m x : ps <= m -> m < x -> (m = ps \/ at_ sD (m - 1) = 10) -> noLFin sD m (x - 1) -> cuts sD ps x = cutsDone sD ps m ++ [(m, x)].
  Proof. apply cuts_cut. Qed.

  Definition txt (p : Z * Z) : inline := mkI tk (sg (fst p)) (sg (snd p - 1) + 1).
  (* the image of a node: a node of kind tk is cut after every line feed inside it *)
  Definition qKk (u : inline) : list inline :=
    match u with Inl k s e0 ind rf kids =>
      if (k =? tk) && (s <? e0) then map (fun p => Inl k (sg (fst p)) (sg (snd p - 1) + 1) ind rf kids) (cuts sD s e0)
      else [Inl k (sg s) (if s <? e0 then sg (e0 - 1) + 1 else sg s) ind rf kids] end.
  Lemma qK_text a b : a < b -> qKk (mkI tk a b) = map txt (cuts sD a b).
  Proof. intros H. unfold qKk, mkI. rewrite Z.eqb_refl. destruct (Z.ltb_spec a b); [reflexivity|lia]. Qed.
  Lemma qK_cref a b : a < b -> noLFin sD a (b - 1) -> qKk (mkI CharacterReferenceKind a b) = [mkI CharacterReferenceKind (sg a) (sg (b - 1) + 1)].
  Proof.
    intros H N. unfold qKk, mkI. destruct (Z.ltb_spec a b); [|lia]. destruct (CharacterReferenceKind =? tk); cbn [andb]; [|reflexivity].
    rewrite (cuts_single sD a b H N). reflexivity.
  Qed.

  (* the collected nodes: inside sD, non-empty, no children, of kind tk or CharacterReferenceKind *)
  Definition inR (u : inline) : Prop :=
    0 <= istart u /\ istart u < iend u /\ iend u <= len sD /\ ikids u = [] /\ (ikind u = tk \/ ikind u = CharacterReferenceKind).
  Lemma inR_tk a b : 0 <= a -> a < b -> b <= len sD -> inR (mkI tk a b).
  Proof. intros A B C. unfold inR, mkI. cbn. repeat split; try assumption. left. reflexivity. Qed.
  Lemma inR_cr a b : 0 <= a -> a < b -> b <= len sD -> inR (mkI CharacterReferenceKind a b).
  Proof. intros A B C. unfold inR, mkI. cbn. repeat split; try assumption. right. reflexivity. Qed.
  Lemma inR_snoc acc u : Forall inR acc -> inR u -> Forall inR (acc ++ [u]).
  Proof. intros A B. apply Forall_app. split; [exact A|constructor; [exact B|constructor]]. Qed.
  (* the state of the two loops: m is the start of the piece that is open on the sQ side *)
  Definition CI (pos ps : Z) (acc : list inline) (ps' : Z) (acc' : list inline) : Prop :=
    exists m, 0 <= ps <= m /\ m <= pos /\ (m = ps \/ at_ sD (m - 1) = 10) /\ (m = ps \/ m <= e) /\ noLFin sD m pos /\
              ps' = sgE m /\ acc' = flat_map qKk acc ++ map txt (cutsDone sD ps m) /\ Forall inR acc.
  Definition CF (o o' : list inline * Z) : Prop :=
    exists m, 0 <= snd o <= m /\ m <= len sD /\ (m = snd o \/ at_ sD (m - 1) = 10) /\ (m = snd o \/ m <= e) /\
              (m < e -> noLFin sD m (e - 1) /\ (at_ sD (e - 1) <> 10 \/ e' = sg (e - 1) + 1)) /\
              snd o' = sgE m /\ fst o' = flat_map qKk (fst o) ++ map txt (cutsDone sD (snd o) m) /\ Forall inR (fst o).

  Lemma CI_CF_done pos ps acc ps' acc' : pos <= len sD -> e <= pos -> CI pos ps acc ps' acc' -> CF (acc, ps) (acc', ps').
  Proof.
    intros Hl He (m & A & B & C & D & F & G & K & IR). exists m. cbn [fst snd]. split; [lia|]. split; [lia|]. split; [exact C|]. split; [exact D|]. split; [|split; [assumption|split; assumption]].
    intros Hm. split; [intros x Hx; apply F; lia|left; apply F; lia].
  Qed.

  (* emitting the text [ps, x) on the sD side and [sgE m, ..) on the sQ side *)
  Lemma emit_eq ps m x acc : ps <= m -> m <= x -> ps < x -> (m = ps \/ at_ sD (m - 1) = 10) -> noLFin sD m (x - 1) ->
    flat_map qKk (acc ++ [mkI tk ps x]) = (flat_map qKk acc ++ map txt (cutsDone sD ps m)) ++ (if m <? x then [txt (m, x)] else []).
  Proof.
    intros A B C Dd F. rewrite flat_map_app. cbn [flat_map]. rewrite app_nil_r, (qK_text ps x C), <- app_assoc. f_equal.
    destruct (Z.ltb_spec m x) as [L|L].
    - rewrite (Hcut ps m x A L Dd F), map_app. reflexivity.
    - assert (m = x) by lia. subst m. rewrite app_nil_r. unfold cutsDone. destruct (Z.ltb_spec ps x); [reflexivity|lia].
  Qed.

  Notation CLs f := (forall r r' esc ps ps' acc acc', RR r r' -> nu sD r < Z.of_nat f -> CI (r_pos r) ps acc ps' acc' ->
                      CF (collect_loop f r e tk esc ps acc) (collect_loop f r' e' tk esc ps' acc')).

  Lemma T_PL r r' : RR r r' -> PL sD r. Proof. intros H. apply (RR_PL _ _ _ _ _ _ _ H). Qed.
  Lemma T_posr r r' : RR r r' -> 0 <= r_pos r <= len sD /\ r_pos r' = sgE (r_pos r).
  Proof. intros H. pose proof H as (_ & _ & _ & _ & _ & _ & (P & _) & P' & _). split; assumption. Qed.

  Lemma q_ctail f : CLs f ->
    forall x x' esc ps ps' acc acc', RR x x' -> nu sD x <= Z.of_nat f -> CI (r_pos x) ps acc ps' acc' ->
      CF (ctail f e tk esc x ps acc) (ctail f e' tk esc x' ps' acc').
  Proof.
    intros IHf x x' esc ps ps' acc acc' HT Hnu HCI. unfold ctail. rewrite (T_done x x' HT).
    destruct (T_posr x x' HT) as [Px Px']. destruct (Z.leb_spec e (r_pos x)) as [Le|Le]; [apply (CI_CF_done (r_pos x)); [lia|exact Le|exact HCI]|].
    destruct (T_next x x' HT) as (Eo & Tt & Tf).
    pose proof (bRR_next sD sQ sg IK true HS IK_w x x' HT) as (_ & _ & _ & N4). pose proof (bRR_next_in sD sQ sg IK true HS x x' HT) as Nin.
    pose proof (q_next_strict sD sQ sg IK HS x x' HT) as Nst.
    pose proof (next_W sD x (T_PL x x' HT)) as (_ & _ & _ & Ndec & _).
    destruct (next x) as [ok x1]. destruct (next x') as [ok' x1']. cbn [fst snd] in *. subst ok'. destruct ok; cbn [negb].
    2:{ (* the reader is exhausted *)
        destruct (Tf eq_refl Le) as (D1 & _ & D3 & D4). destruct HCI as (m & A & B & C & Dd & F & G & K & IR). exists m. cbn [fst snd].
        split; [lia|]. split; [lia|]. split; [exact C|]. split; [exact Dd|]. split; [|split; [assumption|split; assumption]].
        intros Hm. split; [intros y Hy; apply F; lia|right; exact D4]. }
    specialize (Tt eq_refl). specialize (Nin eq_refl). specialize (Nst eq_refl). specialize (Ndec eq_refl). destruct (N4 eq_refl) as (Pv & _ & Pv').
    destruct (T_posr x1 x1' Tt) as [P1 P1']. rewrite (bsgE_in sD sQ sg HS) in P1' by lia.
    set (q := r_pos x) in *. set (p1 := r_pos x1) in *.
    destruct HCI as (m & A & B & C & Dd & F & G & K & IR).
    assert (Gm : ps' = sg m) by (rewrite G; apply (bsgE_in sD sQ sg HS); lia).
    unfold jumped. rewrite Pv, Pv', P1'. fold p1.
    replace (0 <=? q) with true by (symmetry; apply Z.leb_le; lia).
    replace (0 <=? sg q) with true by (symmetry; apply Z.leb_le, (SG_nn _ _ _ HS); lia). cbn [andb].
    destruct (Z.eq_dec p1 (q + 1)) as [Ec|Nc].
    - (* the next byte *)
      destruct (Z.ltb_spec 1 (p1 - q)); [lia|].
      destruct (Z.eq_dec (at_ sD q) 10) as [E10|N10].
      + (* over a line feed: only the reader of sQ jumps *)
        pose proof (SG_lf _ _ _ HS q ltac:(lia) E10) as Hg. rewrite <- Ec in Hg.
        destruct (Z.ltb_spec 1 (sg p1 - sg q)); [|lia].
        replace (ps' <=? sg q) with true by (symmetry; apply Z.leb_le; rewrite Gm; apply sgle; lia).
        apply IHf; [exact Tt|lia|]. exists p1. fold p1.
        split; [lia|]. split; [lia|]. split; [right; rewrite Ec; replace (q + 1 - 1) with q by lia; exact E10|]. split; [right; lia|].
        split; [intros y Hy; lia|]. split; [symmetry; apply (bsgE_in sD sQ sg HS); lia|].
        split; [|exact IR].
        rewrite K, <- app_assoc. f_equal. unfold cutsDone at 2. destruct (Z.ltb_spec ps p1); [|lia].
        rewrite (Hcut ps m p1) by (first [lia|exact C|rewrite Ec; replace (q + 1 - 1) with q by lia; exact F]).
        rewrite map_app. f_equal. cbn [map]. unfold txt. cbn [fst snd]. rewrite Gm, Ec. replace (q + 1 - 1) with q by lia. reflexivity.
      + (* no jump *)
        pose proof (SG_succ _ _ _ HS q ltac:(lia) N10) as Hg. rewrite <- Ec in Hg.
        destruct (Z.ltb_spec 1 (sg p1 - sg q)); [lia|].
        apply IHf; [exact Tt|lia|]. exists m. fold p1. split; [exact A|]. split; [lia|]. split; [exact C|]. split; [exact Dd|].
        split; [intros y Hy; destruct (Z.eq_dec y q) as [->|Ny]; [exact N10|apply F; lia]|]. split; [assumption|split; assumption].
    - (* both readers jump *)
      destruct (Z.ltb_spec 1 (p1 - q)); [|lia].
      assert (Hg : sg q + 1 < sg p1).
      { pose proof (SG_mono _ _ _ HS q (q + 1) ltac:(lia) ltac:(lia)). pose proof (SG_mono _ _ _ HS (q + 1) p1 ltac:(lia) ltac:(lia)). lia. }
      destruct (Z.ltb_spec 1 (sg p1 - sg q)); [|lia].
      replace (ps <=? q) with true by (symmetry; apply Z.leb_le; lia).
      replace (ps' <=? sg q) with true by (symmetry; apply Z.leb_le; rewrite Gm; apply sgle; lia).
      apply IHf; [exact Tt|lia|]. exists p1. fold p1. split; [lia|]. split; [lia|]. split; [left; reflexivity|]. split; [left; reflexivity|].
      split; [intros y Hy; lia|]. split; [symmetry; apply (bsgE_in sD sQ sg HS); lia|].
      split; [|apply inR_snoc; [exact IR|apply inR_tk; lia]].
      unfold cutsDone at 1. destruct (Z.ltb_spec p1 p1); [lia|]. cbn [map]. rewrite app_nil_r.
      rewrite (emit_eq ps m (q + 1) acc) by (first [lia|exact C|replace (q + 1 - 1) with q by lia; exact F]).
      rewrite K. f_equal. destruct (Z.ltb_spec m (q + 1)); [|lia]. unfold txt, mkI. cbn [fst snd]. rewrite Gm. replace (q + 1 - 1) with q by lia. reflexivity.
  Qed.

  (* a step inside the head span *)
  Lemma T_step_in x x' node rest : RR x x' -> r_spans x = node :: rest -> istart node <= r_pos x -> r_pos x + 1 < iend node ->
    fst (next x) = true /\ r_pos (snd (next x)) = r_pos x + 1 /\ r_spans (snd (next x)) = node :: rest.
  Proof.
    intros HR Es Hi Hl. pose proof HR as (_ & _ & _ & G & _). rewrite Es in G. inversion G as [|? ? (Ga & Gb & Gc & Gt & Gk & Gl) _]; subst.
    assert (Hh : spanHas node (r_pos x) = true) by (apply spanHas_intro; lia).
    unfold next. rewrite (curNode_head node rest x Es Hh). apply unp_ne in Gk. rewrite Gk. cbn [andb negb].
    destruct (Z.ltb_spec (r_pos x + 1) (iend node)); [|lia]. cbn. repeat split; try reflexivity. exact Es.
  Qed.
  Lemma T_nextN : forall k x x' node rest, RR x x' -> r_spans x = node :: rest -> istart node <= r_pos x -> r_pos x + Z.of_nat k < iend node ->
    RR (nextN k x) (nextN k x') /\ r_pos (nextN k x) = r_pos x + Z.of_nat k /\ r_spans (nextN k x) = node :: rest /\ nu sD (nextN k x) <= nu sD x.
  Proof.
    induction k as [|k IH]; intros x x' node rest HT Es Hi Hl; [cbn [nextN]; split; [exact HT|split; [lia|split; [exact Es|lia]]]|]. cbn [nextN].
    destruct (T_step_in x x' node rest HT Es Hi ltac:(lia)) as (Ok & Ep & Esp). destruct (T_next x x' HT) as (_ & Tt & _). specialize (Tt Ok).
    pose proof (next_W sD x (T_PL x x' HT)) as (_ & _ & Hle & _).
    destruct (IH (snd (next x)) (snd (next x')) node rest Tt Esp ltac:(lia) ltac:(lia)) as (I1 & I2 & I3 & I4).
    split; [exact I1|]. split; [lia|]. split; [exact I3|lia].
  Qed.

  Lemma isEntCh_not10 c : isEntCh c = true -> c <> 10.
  Proof. intros H ->. discriminate H. Qed.

  Lemma q_collect_loop : forall f, CLs f.
  Proof.
    induction f as [|f IHf]; intros r r' esc ps ps' acc acc' HT Hnu HCI.
    { exfalso. pose proof (nu_nonneg sD r (T_PL r r' HT)). lia. }
    rewrite !collect_loop_S. rewrite (T_done r r' HT). destruct (T_posr r r' HT) as [Pr Pr'].
    destruct (Z.leb_spec e (r_pos r)) as [Le|Le]; [apply (CI_CF_done (r_pos r)); [lia|exact Le|exact HCI]|].
    pose proof (T_PL r r' HT) as HPL.
    destruct (T_curNode r r' HT) as [Ecn HT0]. pose proof (cn_facts sD r HPL) as CN.
    pose proof (curNode_fields r) as CF0. pose proof (curNode_cases r) as CC.
    destruct (curNode r) as [cn r0] eqn:Ecr. destruct (curNode r') as [cn' r0'] eqn:Ecr'. cbn [fst snd] in Ecn, HT0, CF0. subst cn'.
    destruct CF0 as (_ & Ep0 & _ & _).
    assert (Hnu0 : nu sD r0 = nu sD r) by (pose proof (nu_curNode sD r) as X; rewrite Ecr in X; exact X).
    rewrite (okind_map (mvS sg) cn (ikind_mvS sg)).
    assert (Hki : (okind cn =? IndentKind) = false).
    { destruct cn as [node|]; [|reflexivity]. destruct (bRR_curNode_in sD sQ sg IK true HS r r' node HT ltac:(rewrite Ecr; reflexivity)) as ((_ & _ & _ & _ & Gk & _) & _). apply unp_ne, Gk. }
    rewrite Hki. assert (HCI0 : CI (r_pos r0) ps acc ps' acc') by (rewrite Ep0; exact HCI).
    pose proof (q_ctail f IHf) as TL.
    destruct (esc && (okind cn =? UnparsedKind)) eqn:Eesc; [|apply TL; [exact HT0|lia|exact HCI0]].
    (* the node *)
    assert (Hnode : exists node rest, cn = Some node /\ r_spans r0 = node :: rest /\ istart node <= r_pos r < iend node).
    { apply andb_true_iff in Eesc. destruct Eesc as [_ Ek]. destruct cn as [node|]; [|discriminate Ek].
      destruct CC as [E0|(pre & m & rest & _ & E0 & E3)]; [congruence|]. assert (Em : m = node /\ withSpans r (m :: rest) = r0) by (split; congruence). destruct Em as [-> <-].
      exists node, rest. split; [reflexivity|]. split; [reflexivity|]. pose proof (spanHas_range _ _ E3). lia. }
    destruct Hnode as (node & rest & -> & Esp0 & Hin).
    destruct (bRR_curNode_in sD sQ sg IK true HS r r' node HT ltac:(rewrite Ecr; reflexivity)) as (Gn & _ & Hp' & Hlt).
    pose proof Gn as (Ga & Gb & Gc & Gt & Gk & Gl).
    destruct (T_current r0 r0' HT0) as [Ecur HT1]. pose proof (cur_facts sD r0 (T_PL _ _ HT0)) as (_ & Hnu1 & Hp1).
    pose proof (current_snd r0) as CS.
    destruct (current r0) as [c r1] eqn:Ec1. destruct (current r0') as [c' r1'] eqn:Ec1'. cbn [fst snd] in Ecur, HT1, Hnu1, Hp1, CS. subst c'.
    assert (Esp1 : r_spans r1 = node :: rest).
    { destruct CS as [-> | ->]; [exact Esp0|]. rewrite (curNode_head node rest r0 Esp0); [exact Esp0|]. apply spanHas_intro; lia. }
    assert (HCI1 : CI (r_pos r1) ps acc ps' acc') by (rewrite Hp1; exact HCI0).
    assert (Hc : c = at_ sD (r_pos r)).
    { pose proof (bRR_current_raw sD sQ sg IK true HS r0 r0' HT0 ltac:(lia)) as X. rewrite Ec1 in X. cbn [fst] in X. rewrite X, Ep0. reflexivity. }
    destruct (Z.eqb_spec c 92) as [E92|N92].
    - (* a backslash *)
      destruct (T_next r1 r1' HT1) as (Eo & Tt & Tf). pose proof (next_W sD r1 (T_PL _ _ HT1)) as (_ & _ & _ & Ndec & _).
      pose proof (bRR_next sD sQ sg IK true HS IK_w r1 r1' HT1) as (_ & _ & _ & N4). pose proof (bRR_next_pos sD sQ sg IK true HS r1 r1' HT1) as Np.
      destruct (next r1) as [ok r2] eqn:En2. destruct (next r1') as [ok' r2'] eqn:En2'. cbn [fst snd] in *. subst ok'. destruct ok; cbn [andb].
      2:{ (* exhausted: both tails stop at once *)
          destruct (Tf eq_refl ltac:(lia)) as (D1 & D2 & D3 & D4). unfold ctail. rewrite D1, D2.
          destruct HCI1 as (m & A & B & C & Dd & F & G & K & IR). exists m. cbn [fst snd]. split; [lia|]. split; [lia|]. split; [exact C|]. split; [exact Dd|]. split; [|split; [assumption|split; assumption]].
          intros Hm. split; [intros y Hy; apply F; lia|right; exact D4]. }
      specialize (Tt eq_refl). specialize (Ndec eq_refl). destruct (N4 eq_refl) as (Pv & _ & Pv'). specialize (Np eq_refl ltac:(rewrite Hp1, Ep0, <- Hc, E92; discriminate)).
      rewrite (T_lt r2 r2' Tt). rewrite (bRR_cur sD sQ sg IK true HS r2 r2' Tt).
      destruct (T_posr r2 r2' Tt) as [P2 P2'].
      destruct HCI1 as (m & A & B & C & Dd & F & G & K & IR). set (b := r_pos r1) in *.
      assert (Gm : ps' = sg m) by (rewrite G; apply (bsgE_in sD sQ sg HS); lia).
      destruct ((r_pos r2 <? e) && isASCIIPunctuation (cur r2)) eqn:Ecnd.
      + apply andb_true_iff in Ecnd. destruct Ecnd as [Ecnd _]. apply Z.ltb_lt in Ecnd.
        apply TL; [exact Tt|lia|]. rewrite Pv, Pv'. exists (r_pos r2). rewrite Np.
        split; [lia|]. split; [lia|]. split; [left; reflexivity|]. split; [left; reflexivity|]. split; [intros y Hy; lia|].
        split; [rewrite P2', Np; reflexivity|].
        split; [|destruct (Z.ltb_spec ps b); [apply inR_snoc; [exact IR|apply inR_tk; lia]|exact IR]].
        unfold cutsDone at 1. destruct (Z.ltb_spec (b + 1) (b + 1)); [lia|]. cbn [map]. rewrite app_nil_r.
        assert (Hbb : b = r_pos r) by (unfold b; lia).
        destruct (Z.ltb_spec ps b) as [Lp|Lp].
        * rewrite (emit_eq ps m b acc) by (first [lia|exact C|intros y Hy; apply F; lia]). rewrite K.
          replace (ps' <? sg b) with (m <? b) by (rewrite Gm; destruct (Z.ltb_spec m b) as [L1|L1]; destruct (Z.ltb_spec (sg m) (sg b)) as [L2|L2]; try reflexivity;
                                                 [pose proof (SG_mono _ _ _ HS m b ltac:(lia) L1); lia|pose proof (sgle b m ltac:(lia) L1); lia]).
          destruct (Z.ltb_spec m b) as [Lm|Lm]; [|rewrite app_nil_r; reflexivity]. f_equal. unfold txt, mkI. cbn [fst snd]. rewrite Gm.
          rewrite <- (SG_succ _ _ _ HS (b - 1)) by (first [lia|apply F; lia]). replace (b - 1 + 1) with b by lia. reflexivity.
        * assert (m = b) by lia. subst m. replace (ps' <? sg b) with false by (symmetry; apply Z.ltb_ge; rewrite Gm; lia).
          rewrite K. assert (ps = b) by lia. subst ps. unfold cutsDone. destruct (Z.ltb_spec b b); [lia|]. cbn [map]. rewrite app_nil_r. reflexivity.
      + assert (Hb10 : at_ sD b <> 10) by (rewrite Hp1, Ep0, <- Hc, E92; discriminate).
        apply TL; [exact Tt|lia|]. exists m. rewrite Np. fold b. split; [lia|]. split; [lia|]. split; [exact C|]. split; [exact Dd|].
        split; [intros y Hy; destruct (Z.eq_dec y b) as [Ey|Ny]; [rewrite Ey; exact Hb10|apply F; lia]|]. split; [assumption|split; assumption].
    - destruct (Z.eqb_spec c 38) as [E38|N38]; [|apply TL; [exact HT1|lia|exact HCI1]].
      (* an entity *)
      destruct (T_remaining r1 r1' HT1) as [Erem HT2]. pose proof (rem_facts sD r1 (T_PL _ _ HT1)) as (_ & Hnu2 & Hp2).
      assert (Hrem : fst (remainingNodeBytes r1) = sub sD (r_pos r1) (iend node) /\ r_spans (snd (remainingNodeBytes r1)) = node :: rest).
      { unfold remainingNodeBytes. rewrite (curNode_head node rest r1 Esp1) by (apply spanHas_intro; lia). cbn [fst snd].
        pose proof HT1 as (Asrc & _). rewrite Asrc. split; [reflexivity|exact Esp1]. }
      destruct Hrem as [Hrem Esp2].
      destruct (remainingNodeBytes r1) as [rem r2]. destruct (remainingNodeBytes r1') as [rem' r2']. cbn [fst snd] in *. subst rem'.
      set (en := parseCharacterEscape rem) in *.
      destruct (Z.leb_spec 0 en) as [Len|Len]; [|apply TL; [exact HT2|lia|rewrite Hp2; exact HCI1]].
      destruct (pce_spec rem Len) as (Hen & Hch). fold en in Hen, Hch. set (pos := r_pos r2) in *.
      assert (Hpos : pos = r_pos r) by (unfold pos; lia).
      assert (Hlrem : len rem = iend node - pos) by (rewrite Hrem, LA2.len_sub by lia; lia).
      assert (Hat : forall i, 0 <= i < en -> at_ sD (pos + i) <> 10).
      { intros i Hi. specialize (Hch i Hi). rewrite Hrem, LA2.at_sub in Hch by lia. replace (r_pos r1 + i) with (pos + i) in Hch by lia. apply isEntCh_not10, Hch. }
      destruct (T_posr r2 r2' HT2) as [_ P2']. fold pos in P2'. rewrite (bsgE_in sD sQ sg HS) in P2' by lia.
      (* the steps inside the entity *)
      destruct (T_nextN (Z.to_nat (en - 1)) r2 r2' node rest HT2 Esp2 ltac:(fold pos; lia) ltac:(fold pos; lia)) as (HT3 & Hp3 & Esp3 & Hnu3).
      set (r3 := nextN (Z.to_nat (en - 1)) r2) in *. set (r3' := nextN (Z.to_nat (en - 1)) r2') in *. fold pos in Hp3.
      replace (pos + Z.of_nat (Z.to_nat (en - 1))) with (pos + en - 1) in Hp3 by lia.
      destruct (T_next r3 r3' HT3) as (Eo & Tt & Tf). pose proof (next_W sD r3 (T_PL _ _ HT3)) as (_ & _ & _ & Ndec & _).
      pose proof (bRR_next_pos sD sQ sg IK true HS r3 r3' HT3) as Np.
      destruct HCI1 as (m & A & B & C & Dd & F & G & K & IR). rewrite Hp1, Ep0 in B, F.
      assert (Gm : ps' = sg m) by (rewrite G; apply (bsgE_in sD sQ sg HS); lia).
      (* the two accumulators after the entity *)
      assert (Hsg : forall i, 0 <= i < en -> sg (pos + i) = sg pos + i).
      { intros i Hi. rewrite (Gt (pos + i)), (Gt pos) by lia. lia. }
      assert (Hacc : (if ps' <? sg pos then acc' ++ [mkI tk ps' (sg pos)] else acc') ++ [mkI CharacterReferenceKind (sg pos) (sg pos + en)] =
                     flat_map qKk ((if ps <? pos then acc ++ [mkI tk ps pos] else acc) ++ [mkI CharacterReferenceKind pos (pos + en)])).
      { rewrite flat_map_app. cbn [flat_map]. rewrite app_nil_r, (qK_cref pos (pos + en)) by (first [lia|intros y Hy; replace y with (pos + (y - pos)) by lia; apply Hat; lia]).
        replace (pos + en - 1) with (pos + (en - 1)) by lia. rewrite (Hsg (en - 1)) by lia. replace (sg pos + (en - 1) + 1) with (sg pos + en) by lia. f_equal.
        destruct (Z.ltb_spec ps pos) as [Lp|Lp].
        - rewrite (emit_eq ps m pos acc) by (first [lia|exact C|intros y Hy; apply F; lia]). rewrite K.
          replace (ps' <? sg pos) with (m <? pos) by (rewrite Gm; destruct (Z.ltb_spec m pos) as [L1|L1]; destruct (Z.ltb_spec (sg m) (sg pos)) as [L2|L2]; try reflexivity;
                                                     [pose proof (SG_mono _ _ _ HS m pos ltac:(lia) L1); lia|pose proof (sgle pos m ltac:(lia) L1); lia]).
          destruct (Z.ltb_spec m pos) as [Lm|Lm]; [|rewrite app_nil_r; reflexivity]. f_equal. unfold txt, mkI. cbn [fst snd]. rewrite Gm.
          rewrite <- (SG_succ _ _ _ HS (pos - 1)) by (first [lia|apply F; lia]). replace (pos - 1 + 1) with pos by lia. reflexivity.
        - assert (m = pos) by lia. subst m. replace (ps' <? sg pos) with false by (symmetry; apply Z.ltb_ge; rewrite Gm; lia).
          rewrite K. assert (ps = pos) by lia. subst ps. unfold cutsDone. destruct (Z.ltb_spec pos pos); [lia|]. cbn [map]. rewrite app_nil_r. reflexivity. }
      rewrite P2'. rewrite Hacc.
      assert (IR2 : Forall inR ((if ps <? pos then acc ++ [mkI tk ps pos] else acc) ++ [mkI CharacterReferenceKind pos (pos + en)])).
      { apply inR_snoc; [destruct (Z.ltb_spec ps pos); [apply inR_snoc; [exact IR|apply inR_tk; lia]|exact IR]|apply inR_cr; lia]. }
      assert (Hps2 : sg pos + en = sgE (pos + en)).
      { replace (pos + en) with (pos + (en - 1) + 1) by lia. rewrite (bsgE_succ sD sQ sg HS) by (first [lia|left; apply Hat; lia]).
        rewrite (Hsg (en - 1)) by lia. lia. }
      destruct (next r3) as [ok r4] eqn:En4. destruct (next r3') as [ok' r4'] eqn:En4'. cbn [fst snd] in *. subst ok'. destruct ok; cbn [negb].
      + specialize (Tt eq_refl). specialize (Ndec eq_refl). specialize (Np eq_refl ltac:(rewrite Hp3; replace (pos + en - 1) with (pos + (en - 1)) by lia; apply Hat; lia)).
        apply IHf; [exact Tt|lia|]. exists (pos + en). rewrite Np, Hp3. replace (pos + en - 1 + 1) with (pos + en) by lia.
        split; [lia|]. split; [lia|]. split; [left; reflexivity|]. split; [left; reflexivity|]. split; [intros y Hy; lia|]. split; [exact Hps2|]. split; [|exact IR2].
        unfold cutsDone. destruct (Z.ltb_spec (pos + en) (pos + en)); [lia|]. cbn [map]. rewrite app_nil_r. reflexivity.
      + (* exhausted after the entity *)
        exists (pos + en). cbn [fst snd]. split; [lia|]. split; [lia|]. split; [left; reflexivity|]. split; [left; reflexivity|].
        split; [|split; [exact Hps2|split; [unfold cutsDone; destruct (Z.ltb_spec (pos + en) (pos + en)); [lia|]; cbn [map]; rewrite app_nil_r; reflexivity|exact IR2]]].
        intros Hm. exfalso. destruct (Tf eq_refl ltac:(lia)) as (_ & _ & D3 & _). lia.
  Qed.

  (* ---------------------------------------------------------------- the two functions on fresh readers *)
  Lemma suffix_g sp0 : (exists pre, IK = pre ++ sp0) -> Forall (gsp sD sg IK) sp0 /\ spW sD sp0 = true.
  Proof. intros (pre & E). split; [pose proof IK_g as G; rewrite E in G at 2; apply Forall_app in G; apply G|pose proof IK_w as W; rewrite E in W; apply (spW_app_r sD pre), W]. Qed.
  Lemma InE_end sp0 p : (exists pre, IK = pre ++ sp0) -> InE sD sQ sg IK sp0 p -> p = len sD -> sgEnd sD sg = len sQ.
  Proof.
    intros (pre & E) [[_ X]|[(u & Hu & Hin)|(_ & X & _)]] Ep; [exact X| |lia]. exfalso.
    assert (Hk : In u IK) by (rewrite E; apply in_or_app; right; exact Hu). pose proof (IK_len u Hk). lia.
  Qed.
  Lemma T_new sp0 p : (exists pre, IK = pre ++ sp0) -> 0 <= p <= len sD -> InE sD sQ sg IK sp0 p ->
    RR (newReader sD sp0 p) (newReader sQ (map (mvS sg) sp0) (sgE p)).
  Proof.
    intros Hx Hp Hi. destruct (suffix_g sp0 Hx) as [G W].
    apply (bRR_new sD sQ sg IK true HS); [exact G|exact W|exact Hp|apply (InE_end sp0 p Hx Hi)|intros _; exact Hi|exact Hx].
  Qed.

  Theorem q_transformLinkReferenceSpan f sp0 p : (exists pre, IK = pre ++ sp0) -> 0 <= p <= len sD -> InE sD sQ sg IK sp0 p ->
    transformLinkReferenceSpan f sQ (map (mvS sg) sp0) (sgE p) e' = transformLinkReferenceSpan f sD sp0 p e.
  Proof. intros Hx Hp Hi. unfold transformLinkReferenceSpan. rewrite (q_tlr_loop f _ _ [] (T_new sp0 p Hx Hp Hi)). reflexivity. Qed.

  (* the image of the end, whichever form it has *)
  Lemma e'_eq : 0 < e -> (at_ sD (e - 1) <> 10 \/ e' = sg (e - 1) + 1) -> e' = sg (e - 1) + 1.
  Proof.
    intros He [N|X]; [|exact X]. destruct e_ok as [[_ X]|[_ X]]; [exact X|]. rewrite X. replace e with (e - 1 + 1) at 1 by lia.
    apply (SG_succ _ _ _ HS); [lia|exact N].
  Qed.

  Theorem q_collectTextNodes f sp0 p esc : (exists pre, IK = pre ++ sp0) -> 0 <= p <= len sD -> InE sD sQ sg IK sp0 p ->
    nu sD (newReader sD sp0 p) < Z.of_nat f ->
    collectTextNodes f (newReader sQ (map (mvS sg) sp0) (sgE p)) e' tk esc =
    flat_map qKk (collectTextNodes f (newReader sD sp0 p) e tk esc) /\
    Forall inR (collectTextNodes f (newReader sD sp0 p) e tk esc).
  Proof.
    intros Hx Hp Hi Hnu. unfold collectTextNodes. cbn [newReader r_pos].
    assert (HCI : CI (r_pos (newReader sD sp0 p)) p [] (sgE p) []).
    { exists p. cbn [newReader r_pos]. split; [lia|]. split; [lia|]. split; [left; reflexivity|]. split; [left; reflexivity|]. split; [intros y Hy; lia|]. split; [reflexivity|]. split; [|constructor].
      unfold cutsDone. destruct (Z.ltb_spec p p); [lia|]. reflexivity. }
    pose proof (q_collect_loop f _ _ esc p (sgE p) [] [] (T_new sp0 p Hx Hp Hi) Hnu HCI) as HF.
    destruct (collect_loop f (newReader sD sp0 p) e tk esc p []) as [acc ps]. destruct (collect_loop f (newReader sQ (map (mvS sg) sp0) (sgE p)) e' tk esc (sgE p) []) as [acc' ps'].
    destruct HF as (m & A & B & C & Dd & F & G' & K & IR). cbn [fst snd] in *. rewrite G', K.
    rewrite (e'_ltb m) by lia.
    destruct (Z.ltb_spec ps e) as [Lp|Lp]; (split; [|first [apply inR_snoc; [exact IR|apply inR_tk; lia]|exact IR]]).
    - assert (Hme : m <= e) by (destruct Dd; lia).
      rewrite (emit_eq ps m e acc) by (first [lia|exact C|destruct (Z.eq_dec m e) as [->|Ne]; [intros y Hy; lia|apply F; lia]]).
      destruct (Z.ltb_spec m e) as [Lm|Lm]; [|rewrite app_nil_r; reflexivity]. f_equal. unfold txt, mkI. cbn [fst snd]. destruct (F Lm) as [_ Fe].
      rewrite (bsgE_in sD sQ sg HS) by lia. rewrite (e'_eq ltac:(lia) Fe). reflexivity.
    - assert (m = ps) by (destruct Dd; lia). subst m. destruct (Z.ltb_spec ps e); [lia|]. unfold cutsDone. destruct (Z.ltb_spec ps ps); [lia|]. cbn [map]. rewrite app_nil_r. reflexivity.
  Qed.
End QC.

Print Assumptions q_collectTextNodes.
Print Assumptions q_transformLinkReferenceSpan.

(* ---------------------------------------------------------------- in terms of the node map of the inline pass *)
Lemma flat_map_ext_in {A B} (f g : A -> list B) l : (forall a, In a l -> f a = g a) -> flat_map f l = flat_map g l.
Proof. induction l as [|a l IH]; intros H; [reflexivity|]. cbn [flat_map]. rewrite (H a (or_introl eq_refl)), IH; [reflexivity|]. intros b Hb. apply H. right. exact Hb. Qed.

(* on the collected nodes (kind tk or CharacterReferenceKind, no children) the cut map qKk is the node map qI3 of QInlDefs, when tk is
   one of the two kinds that the inline pass cuts (TextKind, RawHTMLKind) *)
Lemma qKk_qI3 sD sg tk u : splitK tk = true -> inR sD tk u -> qKk sD sg tk u = qI3 sD sg u.
Proof.
  intros Htk (_ & _ & _ & Ek & Kk). destruct u as [k s e0 ind rf kids]. cbn [ikids ikind] in Ek, Kk. subst kids. cbn [qKk qI3 flat_map]. cbv zeta.
  destruct Kk as [->| ->].
  - rewrite Z.eqb_refl, Htk. unfold eE. reflexivity.
  - assert (Ne : (CharacterReferenceKind =? tk) = false).
    { destruct (Z.eqb_spec CharacterReferenceKind tk) as [<-|N]; [discriminate Htk|reflexivity]. }
    rewrite Ne. change (splitK CharacterReferenceKind) with false. cbn [andb]. unfold eE. reflexivity.
Qed.

Section QC2.
  Variables (sD sQ : bytes) (sg : Z -> Z).
  Hypothesis HS : SGood sD sQ sg.
  Variable IK : list inline.
  Hypothesis IK_w : spW sD IK = true.
  Hypothesis IK_g : Forall (gsp sD sg IK) IK.
  Variable tk : Z.
  Hypothesis Htk : splitK tk = true.

  (* the general form: the end e with its image e' in one of the two forms produced by the scanners *)
  Theorem q_collectTextNodes_qI3 e e' f sp0 p esc : 0 <= e <= len sD ->
    ((InIK IK (e - 1) /\ e' = sg (e - 1) + 1) \/ (InIK IK e /\ e' = sg e)) ->
    (exists pre, IK = pre ++ sp0) -> 0 <= p <= len sD -> InE sD sQ sg IK sp0 p ->
    nu sD (newReader sD sp0 p) < Z.of_nat f ->
    collectTextNodes f (newReader sQ (map (mvS sg) sp0) (sgE sD sg p)) e' tk esc =
    flat_map (qI3 sD sg) (collectTextNodes f (newReader sD sp0 p) e tk esc) /\
    Forall (inR sD tk) (collectTextNodes f (newReader sD sp0 p) e tk esc).
  Proof.
    intros He Hok Hx Hp Hi Hnu. destruct (q_collectTextNodes sD sQ sg HS IK IK_w IK_g tk e e' He Hok f sp0 p esc Hx Hp Hi Hnu) as [A B].
    split; [|exact B]. rewrite A. apply flat_map_ext_in. intros u Hu. rewrite Forall_forall in B. apply (qKk_qI3 sD sg tk u Htk (B u Hu)).
  Qed.

  (* the form asked for: e is the position behind a byte inside a span, its image is sg (e - 1) + 1 *)
  Corollary q_collectTextNodes_end e f sp0 p esc : 0 <= e <= len sD -> InIK IK (e - 1) ->
    (exists pre, IK = pre ++ sp0) -> 0 <= p <= len sD -> InE sD sQ sg IK sp0 p ->
    nu sD (newReader sD sp0 p) < Z.of_nat f ->
    collectTextNodes f (newReader sQ (map (mvS sg) sp0) (sgE sD sg p)) (sg (e - 1) + 1) tk esc =
    flat_map (qI3 sD sg) (collectTextNodes f (newReader sD sp0 p) e tk esc).
  Proof. intros He Hin Hx Hp Hi Hnu. apply (q_collectTextNodes_qI3 e (sg (e - 1) + 1) f sp0 p esc He); try assumption. left. split; [exact Hin|reflexivity]. Qed.
End QC2.

(* an empty range: nothing is collected (for every reader and every end at or before the position) *)
Lemma collectTextNodes_empty f r e tk esc : e <= r_pos r -> collectTextNodes f r e tk esc = [].
Proof.
  intros H. unfold collectTextNodes. assert (E : collect_loop f r e tk esc (r_pos r) [] = ([], r_pos r)).
  { destruct f as [|f]; [reflexivity|]. cbn [collect_loop]. destruct (Z.leb_spec e (r_pos r)); [reflexivity|lia]. }
  rewrite E. destruct (Z.ltb_spec (r_pos r) e); [lia|reflexivity].
Qed.

Print Assumptions q_collectTextNodes_qI3.
Print Assumptions q_collectTextNodes_end.

(* ---------------------------------------------------------------- the hypotheses are satisfiable: a two-line instance *)
Module Example.
  Definition sD : bytes := [97; 10; 98].                    (* "a\nb"  *)
  Definition sQ : bytes := [62; 32; 97; 10; 62; 32; 98].    (* "> a\n> b" *)
  Definition sg (x : Z) : Z := if x <=? 1 then x + 2 else x + 4.
  Definition IK : list inline := [mkI UnparsedKind 0 2; mkI UnparsedKind 2 3].
  Lemma three x : 0 <= x < len sD -> x = 0 \/ x = 1 \/ x = 2. Proof. change (len sD) with 3. lia. Qed.
  Lemma good : SGood sD sQ sg.
  Proof.
    constructor.
    - intros x y Hx L. unfold sg. destruct (Z.leb_spec x 1); destruct (Z.leb_spec y 1); lia.
    - intros x Hx. unfold sg. destruct (Z.leb_spec x 1); lia.
    - intros x Hx. destruct (three x Hx) as [->|[->| ->]]; reflexivity.
    - intros x Hx. destruct (three x Hx) as [->|[->| ->]]; reflexivity.
    - intros x Hx N. destruct (three x Hx) as [->|[->| ->]]; [reflexivity|exfalso; apply N; reflexivity|reflexivity].
    - intros x Hx N. destruct (three x Hx) as [->|[->| ->]]; [discriminate N|reflexivity|discriminate N].
    - intros _ _. reflexivity.
    - vm_compute. discriminate.
    - intros x Hx. destruct (three x Hx) as [->|[->| ->]]; discriminate.
    - reflexivity.
  Qed.
  Lemma IK_g : Forall (gsp sD sg IK) IK.
  Proof.
    constructor; [|constructor; [|constructor]]; unfold gsp, mkI; cbn [istart iend ikind].
    - split; [lia|]. split; [lia|]. split; [vm_compute; discriminate|]. split; [|split; [reflexivity|left; reflexivity]].
      intros x Hx. assert (E : x = 0 \/ x = 1) by lia. destruct E as [->| ->]; reflexivity.
    - split; [lia|]. split; [lia|]. split; [vm_compute; discriminate|]. split; [|split; [reflexivity|right; left; reflexivity]].
      intros x Hx. assert (E : x = 2) by lia. subst x. reflexivity.
  Qed.
  (* the whole text "a\nb" collected as one Text node on the plain side comes out as two nodes on the quoted side *)
  Lemma instance :
    collectTextNodes 20 (newReader sQ (map (mvS sg) IK) (sgE sD sg 0)) (sg (3 - 1) + 1) TextKind true =
    flat_map (qI3 sD sg) (collectTextNodes 20 (newReader sD IK 0) 3 TextKind true).
  Proof.
    apply (q_collectTextNodes_end sD sQ sg good IK eq_refl IK_g TextKind eq_refl 3 20 IK 0 true).
    - change (len sD) with 3. lia.
    - exists (mkI UnparsedKind 2 3). split; [right; left; reflexivity|cbn; lia].
    - exists []. reflexivity.
    - change (len sD) with 3. lia.
    - right. left. exists (mkI UnparsedKind 0 2). split; [left; reflexivity|cbn; lia].
    - vm_compute. reflexivity.
  Qed.
  Lemma instance_value :
    collectTextNodes 20 (newReader sD IK 0) 3 TextKind true = [mkI TextKind 0 3] /\
    collectTextNodes 20 (newReader sQ (map (mvS sg) IK) (sgE sD sg 0)) (sg (3 - 1) + 1) TextKind true = [mkI TextKind 2 4; mkI TextKind 6 7].
  Proof. split; vm_compute; reflexivity. Qed.
End Example.
Print Assumptions Example.instance.
