From Coq Require Import List ZArith Lia Bool.
Import ListNotations.
Require Import Base Tree Rdr Link Collect Html Recog LP Rules Starts Driver Props L2Kind L2CC GramTree GramLP GramLP2 Cursor CursorX NoPanic12
  Rec15 Rec16 Rec17 Rec18 RecBounds EolInv BSDef BSRdr BSTree BSOcp BSOrph BSClose
  BSLine1 BSLine2 BSLine3 BSLine4 BSLine5 BSLine6 BSLine7 BSLine8 BSErase BSLine9
  BShDef ShDef ShRdr ShClose ShEnv ShLine1 ShLine2 ShFresh ShRecog ShSetext ShStarts1 ShStarts2 ShStarts3 ShStarts4.
Open Scope Z_scope.

Lemma blockStarts_oksh : Forall startOKsh blockStarts.
Proof.
  unfold blockStarts.
  apply Forall_cons; [apply sOKsh_startBlockQuote|]. apply Forall_cons; [apply sOKsh_startATX|].
  apply Forall_cons; [apply sOKsh_startFenced|]. apply Forall_cons; [apply sOKsh_startHTML|].
  apply Forall_cons; [apply sOKsh_startSetext|]. apply Forall_cons; [apply sOKsh_startThematic|].
  apply Forall_cons; [apply sOKsh_startListItem|]. apply Forall_cons; [apply sOKsh_startIndented|]. apply Forall_nil.
Qed.

Definition startAll (f : lp -> lp) : Prop := startOKs f /\ startOKG f /\ startOKsh f /\ (forall q, envOf (f q) = envOf q).
Lemma blockStarts_all : Forall startAll blockStarts.
Proof.
  pose proof blockStarts_oks as H1. pose proof blockStarts_okG as H2. pose proof blockStarts_oksh as H3. pose proof env_blockStarts as H4.
  rewrite Forall_forall in *. intros f Hf. split; [apply H1, Hf|split; [apply H2, Hf|split; [apply H3, Hf|apply H4, Hf]]].
Qed.

Lemma line_env p p' : envOf p' = envOf p -> line p' = line p.
Proof. intros E. apply (env_parts _ _ E). Qed.

Lemma tryStarts_sh : forall fs p, Forall startAll fs -> lineOK (line p) -> AllI p -> LI p -> SLI p ->
  AllI (snd (tryStarts fs p)) /\ LI2 (snd (tryStarts fs p)) /\ SLI2 (snd (tryStarts fs p)).
Proof.
  induction fs as [|f r IH]; intros p Hfs Hlk HA HL HSL; [split; [exact HA|split; [left; exact HL|left; exact HSL]]|].
  cbn [tryStarts]. cbv zeta. inversion Hfs as [|? ? (Hf1 & Hf2 & Hf3 & Hf4) Hr]; subst.
  set (p' := withState p stOpening).
  assert (HA' : AllI p') by (eapply AllI_cstep; [apply cstep_withState| |exact HA]; apply (G_tree p); [repeat split|reflexivity|apply HA]).
  assert (HL' : LI p') by (eapply LI_cstep; [apply cstep_withState|exact HL]).
  assert (HSL' : SLI p') by (eapply SLI_cstep; [apply cstep_withState|exact HSL]).
  destruct (Hf1 p' ltac:(left; reflexivity) ltac:(apply HA') HL') as (A1 & A2 & A3).
  destruct (Hf3 p' Hlk ltac:(left; reflexivity) HA' HL' HSL') as (B1 & B2 & B3 & B4).
  assert (HAf : AllI (f p')).
  { split; [exact A1|split; [apply Hf2, HA'|split; [eapply EV_env; [apply Hf4|apply HA']|split; assumption]]]. }
  destruct ((state (f p') =? stOpenMatched) || (state (f p') =? stLineConsumed)) eqn:Em.
  - cbn [snd]. tauto.
  - apply orb_false_iff in Em. destruct Em as [E1 E2]. apply Z.eqb_neq in E1. apply Z.eqb_neq in E2.
    apply IH; [exact Hr|rewrite (line_env _ _ (Hf4 p')); exact Hlk|exact HAf| |].
    + destruct A3 as [A3|A3]; [exact A3|destruct A3; contradiction].
    + destruct B4 as [B4|B4]; [exact B4|destruct B4; contradiction].
Qed.

Lemma opening_loop_sh : forall fuel p, lineOK (line p) -> AllI p -> LI2 p -> SLI2 p ->
  AllI (snd (opening_loop fuel p)) /\ LI2 (snd (opening_loop fuel p)) /\ SLI2 (snd (opening_loop fuel p)).
Proof.
  induction fuel as [|f IH]; intros p Hlk HA HL HSL; [split; [exact HA|split; assumption]|]. cbn [opening_loop].
  destruct ((containerKind p =? ParagraphKind) || negb (acceptsLines (containerKind p))) eqn:Ec; [|split; [exact HA|split; assumption]].
  assert (Hno : ~ (acceptsLines (containerKind p) = true /\ containerKind p <> ParagraphKind)).
  { intros [L1 L2]. apply orb_true_iff in Ec. destruct Ec as [Ec|Ec]; [apply Z.eqb_eq in Ec; contradiction|rewrite L1 in Ec; discriminate]. }
  assert (L : LI p) by (destruct HL as [L|L]; [exact L|contradiction]).
  assert (SL : SLI p) by (destruct HSL as [L'|L']; [exact L'|contradiction]).
  pose proof (tryStarts_sh blockStarts p blockStarts_all Hlk HA L SL) as H1.
  pose proof (env_tryStarts blockStarts p env_blockStarts) as He.
  destruct (tryStarts blockStarts p) as [[|] p1]; cbn [snd] in H1, He.
  - destruct (_ =? stLineConsumed); [exact H1|]. apply IH; try tauto. rewrite (line_env _ _ He). exact Hlk.
  - exact H1.
Qed.

(* what addLineText needs *)
Definition SApre (p : lp) : Prop := SR p /\ SC1 p /\ (acceptsLines (containerKind p) = false -> SLI p).

Lemma SApre_of p : SR p -> SC1 p -> SLI2 p -> SApre p.
Proof. intros A B HL. split; [exact A|split; [exact B|]]. intros E. destruct HL as [L|[L _]]; [exact L|rewrite L in E; discriminate]. Qed.

Lemma deferredClose_sh p : AllI p -> LI2 p -> SLI2 p -> SApre (deferredClose p).
Proof.
  intros ([HB H1] & HG & Hev & HS & HS1) HL HSL. pose proof HB as (A & B & C & D). unfold deferredClose. cbv zeta.
  set (tipD := tipDepth (bheight (root p)) (root p)).
  destruct (negb (isRestBlank p) && match getAt tipD (root p) with Some t => bkind t =? ParagraphKind | None => false end) eqn:Ec.
  - apply andb_true_iff in Ec. destruct Ec as [_ Ec]. destruct (getAt tipD (root p)) as [t|] eqn:Et; [|discriminate]. apply Z.eqb_eq in Ec.
    split; [exact HS|split].
    + intros c Ecx _. exfalso. change (cdepth (withCont p (Some tipD))) with tipD in Ecx. change (root (withCont p (Some tipD))) with (root p) in Ecx.
      rewrite getAt_S_last, Et in Ecx. pose proof (para_no_kids t ltac:(eapply cc_getAt; [apply D|exact Et]) Ec) as Hk.
      unfold lastBlock in Ecx. rewrite Hk in Ecx. discriminate.
    + intros Ea. exfalso. assert (Ek : containerKind (withCont p (Some tipD)) = ParagraphKind).
      { unfold containerKind, contBlock. change (cdepth (withCont p (Some tipD))) with tipD. change (root (withCont p (Some tipD))) with (root p). rewrite Et. exact Ec. }
      rewrite Ek in Ea. discriminate.
  - assert (Hcl : forall x c, getAt (cdepth p) (root p) = Some x -> lastBlock x = Some c -> bend c < 0 -> sp (lineStart p) c /\ sh (source p) (lineStart p) c).
    { intros x c Ex El Oc. split; [apply H1|apply HS1]; try exact Oc; rewrite getAt_S_last, Ex; exact El. }
    assert (Hls : 0 <= lineStart p <= len (source p)) by apply Hev.
    set (q := closeLastChildAt p (cdepth p) (lineStart p)).
    split; [|split].
    + apply (SR_ext (withCont q (Some (cdepth p)))); [reflexivity|reflexivity|]. apply SR_closeAt; try assumption; lia.
    + apply (SC1_ext (withCont q (Some (cdepth p)))); [reflexivity|reflexivity|reflexivity|]. apply SC1_closeAt; try assumption; lia.
    + intros Ea. unfold q in Ea. rewrite containerKind_closeHere in Ea. apply SLI_closeHere; try assumption.
      destruct HSL as [L|[L _]]; [exact L|rewrite L in Ea; discriminate].
Qed.

Lemma openNewBlocks_sh p am : lineOK (line p) -> BP p -> cleanR p -> G p -> EV p -> ScleanR p ->
  SR (snd (openNewBlocks p am)) /\ (fst (openNewBlocks p am) = true -> SApre (snd (openNewBlocks p am))).
Proof.
  intros Hlk HB Hcl HG Hev Hscl. pose proof HB as (A & B & C & D). unfold openNewBlocks. destruct (len (line p) =? 0) eqn:E0.
  - cbn [fst snd]. split; [|discriminate]. unfold SR. cbn [source root withCont withRoot setLP].
    assert (Hls : 0 <= lineStart p <= len (source p)) by apply Hev.
    destruct (sh_closeBlock (source p) (lineStart p) ltac:(lia) ltac:(lia) (bheight (root p)) (root p) ltac:(lia) ltac:(apply D) Hcl Hscl (len (source p))) as [P _].
    destruct (closeBlock _ _ _ _) as [|b r]; [eapply sh_mono; [|exact Hscl]; lia|apply P].
  - assert (HA : AllI p).
    { split; [split; [exact HB|apply clean_C1; exact Hcl]|split; [exact HG|split; [exact Hev|split; [apply ScleanR_SR; assumption|apply ScleanR_SC1; exact Hscl]]]]. }
    pose proof (opening_loop_sh (S (length (line p))) p Hlk HA ltac:(left; apply clean_LI; exact Hcl) ltac:(left; apply ScleanR_SLI; exact Hscl)) as (H1 & L1 & SL1).
    destruct (opening_loop _ p) as [ht p1]. cbn [snd] in H1, L1, SL1.
    destruct am; cbn [fst snd].
    + split; [apply H1|intros _; apply SApre_of; [apply H1|apply H1|exact SL1]].
    + pose proof (deferredClose_sh p1 H1 L1 SL1) as Hd. split; [apply Hd|intros _; exact Hd].
Qed.
