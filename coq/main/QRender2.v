(* QRender2.v -- T64 (renderer): the inline map of the statement (shift by the root offset, then QInlDefs.qI3 under sigma D) and
   the text functions of the renderer (textOfChildren, altText, defOf) on a mapped node. *)
From Coq Require Import List ZArith Lia Bool.
Import ListNotations.
Require Import Base Tables Utf8 Tree Recog Inl3b LP Driver Inl3e Render RenderWalkProof QuoteSimDefs QCutsDef QCuts QIRdrBase QInlDefs QFullDefs QS2Drv1 LA2 QRender1 QRenderDefs.
Open Scope Z_scope.

(* ---- lists ---- *)
Lemma fm_fm {A B C} (g : B -> list C) (h : A -> list B) l : flat_map g (flat_map h l) = flat_map (fun x => flat_map g (h x)) l.
Proof. induction l as [|x l IH]; [reflexivity|]. cbn [flat_map]. rewrite flat_map_app, IH. reflexivity. Qed.
Lemma fm_map {A B C} (f : A -> B) (g : B -> list C) l : flat_map g (map f l) = flat_map (fun x => g (f x)) l.
Proof. induction l as [|x l IH]; [reflexivity|]. cbn [flat_map map]. rewrite IH. reflexivity. Qed.
Lemma fm_ext {A B} (f g : A -> list B) l : (forall x, In x l -> f x = g x) -> flat_map f l = flat_map g l.
Proof.
  induction l as [|x l IH]; intros H; [reflexivity|]. cbn [flat_map]. rewrite (H x (or_introl eq_refl)), IH; [reflexivity|].
  intros y Hy. apply H. right. exact Hy.
Qed.
Lemma fm_nil {A B} (f : A -> list B) l : (forall x, In x l -> f x = []) -> flat_map f l = [].
Proof. induction l as [|x l IH]; intros H; [reflexivity|]. cbn [flat_map]. rewrite (H x (or_introl eq_refl)), IH; [reflexivity|]. intros y Hy. apply H. right. exact Hy. Qed.
Lemma fm_hom {A} (g : bytes -> bytes) (h : A -> bytes) l : g [] = [] -> (forall a b, g (a ++ b) = g a ++ g b) ->
  flat_map (fun p => g (h p)) l = g (concat (map h l)).
Proof. intros G0 G2. induction l as [|x l IH]; [symmetry; exact G0|]. cbn [flat_map map concat]. rewrite G2, IH. reflexivity. Qed.
Lemma rev_fm {A B} (h : A -> list B) l : rev (flat_map h l) = flat_map (fun x => rev (h x)) (rev l).
Proof. induction l as [|x l IH]; [reflexivity|]. cbn [flat_map rev]. rewrite rev_app_distr, IH, flat_map_app. cbn [flat_map]. rewrite app_nil_r. reflexivity. Qed.
Lemma lastTwo_firstn {A} (l : list A) : lastTwo l = firstn 2 (rev l).
Proof. unfold lastTwo. destruct (rev l) as [|a [|b r]]; reflexivity. Qed.
Lemma find_none {A} (f : A -> bool) l : (forall x, In x l -> f x = false) -> find f l = None.
Proof. induction l as [|x l IH]; intros H; [reflexivity|]. cbn [find]. rewrite (H x (or_introl eq_refl)). apply IH. intros y Hy. apply H. right. exact Hy. Qed.
Lemma in_firstn {A} : forall n (l : list A) x, In x (firstn n l) -> In x l.
Proof. induction n as [|n IH]; intros l x H; [destruct H|]. destruct l as [|y l]; [destruct H|]. destruct H as [->|H]; [left; reflexivity|right; apply IH, H]. Qed.
Lemma escapeHTML_app a b : escapeHTML (a ++ b) = escapeHTML a ++ escapeHTML b.
Proof. unfold escapeHTML. apply flat_map_app. Qed.

Lemma noLFl_at l : noLFl l = true -> forall i, 0 <= i < len l -> at_ l i <> 10.
Proof.
  intros H i Hi. unfold noLFl in H. rewrite forallb_forall in H. unfold at_. destruct (Z.ltb_spec i 0); [lia|].
  specialize (H (nth (Z.to_nat i) l 0)). assert (Hin : In (nth (Z.to_nat i) l 0) l) by (apply nth_In; unfold len in Hi; lia).
  specialize (H Hin). apply negb_true_iff, Z.eqb_neq in H. exact H.
Qed.
Lemma sub_nil {A} (l : list A) a b : b <= a -> sub l a b = [].
Proof. intros H. unfold sub, upto. replace (Z.to_nat (b - a)) with O by lia. reflexivity. Qed.

Definition tocF (src : bytes) (c : inline) : bytes :=
  if ikind c =? TextKind then spanOf src c else if ikind c =? CharacterReferenceKind then unescapeRef (spanOf src c) else [].
Lemma textOfChildren_tocF src i : textOfChildren src i = flat_map (tocF src) (ikids i). Proof. reflexivity. Qed.

Lemma okI_parts src k s e ind rf ks : okI src (Inl k s e ind rf ks) = true ->
  ((k =? TextKind) = true -> inSp src s e = true) /\ (lineK k = true -> oneLn src s e = true) /\ ((k =? RawHTMLKind) = true -> ks = []) /\
  ((k =? AutolinkKind) = true -> match ks with t :: _ => oneLn src (istart t) (iend t) = true | [] => True end) /\
  ((k =? LinkKind) || (k =? ImageKind) = true -> tailOK ks = true) /\ (leafK k = false -> forallb (okI src) ks = true).
Proof.
  intros H. cbn [okI] in H. rewrite !andb_true_iff in H. destruct H as (((((H1 & H2) & H3) & H4) & H5) & H6).
  split; [intros E; rewrite E in H1; exact H1|]. split; [intros E; rewrite E in H2; exact H2|].
  split; [intros E; rewrite E in H3; destruct ks; [reflexivity|discriminate H3]|].
  split; [intros E; rewrite E in H4; destruct ks; [exact I|exact H4]|]. split; [intros E; rewrite E in H5; exact H5|intros E; rewrite E in H6; exact H6].
Qed.
Lemma inSp_parts src s e : inSp src s e = true -> 0 <= s /\ s <= e /\ e <= len src.
Proof. unfold inSp. rewrite !andb_true_iff, !Z.leb_le. tauto. Qed.

Section Inl.
  Variables (D src : bytes) (o : Z).
  Hypothesis o_nn : 0 <= o.
  Hypothesis src_sub : forall s e, 0 <= s -> s <= e -> e <= len src -> e + o <= len D /\ sub D (s + o) (e + o) = sub src s e.
  Notation Q := (quote D).
  Notation sg := (sigma D).

  Definition mp (i : inline) : list inline := qI3D D (shiftI o i).
  Definition she (e : Z) : Z := if 0 <=? e then e + o else e.
  Definition img (i : inline) : inline :=
    match i with Inl k s e ind rf ks => Inl k (sg (s + o)) (eE sg (s + o) (she e)) ind rf (flat_map mp ks) end.
  Lemma mp_eq k s e ind rf ks : mp (Inl k s e ind rf ks) =
    if splitK k && (s + o <? she e) then map (fun p => Inl k (sg (fst p)) (sg (snd p - 1) + 1) ind rf (flat_map mp ks)) (cuts D (s + o) (she e))
    else [img (Inl k s e ind rf ks)].
  Proof.
    unfold mp at 1, qI3D. cbn [shiftI qI3]. cbv zeta. rewrite fm_map. fold (she e). reflexivity.
  Qed.
  Lemma mp_props i : forall p, In p (mp i) -> ikind p = ikind i /\ iref p = iref i /\ iindent p = iindent i /\ ikids p = flat_map mp (ikids i).
  Proof.
    destruct i as [k s e ind rf ks]. rewrite mp_eq. intros p Hp. destruct (splitK k && (s + o <? she e)).
    - apply in_map_iff in Hp. destruct Hp as (q & <- & _). cbn. repeat split; reflexivity.
    - destruct Hp as [<-|[]]. cbn. repeat split; reflexivity.
  Qed.
  Lemma mp_nonempty i : mp i <> [].
  Proof.
    destruct i as [k s e ind rf ks]. rewrite mp_eq. destruct (splitK k && (s + o <? she e)); [|discriminate].
    pose proof (cuts_nonempty D (s + o) (she e)) as H. destruct (cuts D (s + o) (she e)); [contradiction|discriminate].
  Qed.
  Lemma ikind_img i : ikind (img i) = ikind i. Proof. destruct i; reflexivity. Qed.
  Lemma mp_nosplit i : splitK (ikind i) = false -> mp i = [img i].
  Proof. destruct i as [k s e ind rf ks]. cbn [ikind]. intros E. rewrite mp_eq, E. reflexivity. Qed.

  Lemma she_in s e : inSp src s e = true -> she e = e + o.
  Proof. intros H. apply inSp_parts in H. unfold she. destruct (Z.leb_spec 0 e); [reflexivity|lia]. Qed.

  (* a span of src inside one line *)
  Lemma noLF_D s e : inSp src s e = true -> noLFl (sub src s (e - 1)) = true -> noLFin D (s + o) (e + o - 1).
  Proof.
    intros Hi Hn x Hx. pose proof (inSp_parts _ _ _ Hi) as (A & B & C).
    destruct (src_sub s (e - 1) A ltac:(lia) ltac:(lia)) as [L E].
    pose proof (noLFl_at _ Hn (x - (s + o))) as G. rewrite <- E in G.
    rewrite len_sub in G by lia. rewrite at_sub in G by lia. replace (s + o + (x - (s + o))) with x in G by lia. apply G. lia.
  Qed.
  Lemma oneLn_facts k s e ind rf ks (i := Inl k s e ind rf ks) : oneLn src s e = true ->
    mp i = [img i] /\ spanOf Q (img i) = spanOf src i /\ iend (img i) - istart (img i) = e - s.
  Proof.
    intros H. unfold oneLn in H. apply andb_true_iff in H. destruct H as [Hi Hn]. pose proof (inSp_parts _ _ _ Hi) as (A & B & C).
    pose proof (noLF_D s e Hi Hn) as Hno. destruct (src_sub s e A B C) as [L E].
    unfold i. rewrite mp_eq. unfold img. rewrite (she_in s e Hi). unfold spanOf. cbn [istart iend]. unfold eE.
    destruct (Z.ltb_spec (s + o) (e + o)) as [Lt|Ge].
    - pose proof (sigma_line D (s + o) (e + o) ltac:(lia) L Hno (e + o - 1) ltac:(lia)) as T.
      split; [|split; [rewrite sub_sigma by (try lia; exact Hno); exact E|rewrite T; lia]].
      destruct (splitK k); [|reflexivity]. cbn [andb]. rewrite (cuts_single D (s + o) (e + o) Lt Hno). reflexivity.
    - assert (e = s) by lia. subst e. rewrite andb_false_r. split; [reflexivity|]. split; [rewrite !sub_nil by lia; reflexivity|lia].
  Qed.
  (* a Text span, cut at line ends *)
  Lemma text_pieces s e : inSp src s e = true -> s < e -> concat (map (pieceQ D) (cuts D (s + o) (e + o))) = sub src s e.
  Proof.
    intros Hi Hlt. pose proof (inSp_parts _ _ _ Hi) as (A & B & C). destruct (src_sub s e A B C) as [L E].
    rewrite cuts_concatQ by lia. exact E.
  Qed.
  Lemma text_empty k s e ind rf ks (i := Inl k s e ind rf ks) : inSp src s e = true -> (s + o <? she e) = false ->
    spanOf Q (img i) = [] /\ spanOf src i = [].
  Proof.
    intros Hi Hlt. rewrite (she_in s e Hi) in Hlt. apply Z.ltb_ge in Hlt. pose proof (inSp_parts _ _ _ Hi) as (A & B & C).
    unfold i, img, spanOf. cbn [istart iend]. rewrite (she_in s e Hi). unfold eE. destruct (Z.ltb_spec (s + o) (e + o)); [lia|].
    split; apply sub_nil; lia.
  Qed.

  (* ---- textOfChildren ---- *)
  Lemma toc_kid c : okI src c = true -> flat_map (tocF Q) (mp c) = tocF src c.
  Proof.
    destruct c as [k s e ind rf ks]. intros H. destruct (okI_parts _ _ _ _ _ _ _ H) as (P1 & P2 & P3 & P4 & P5 & P6).
    destruct (k =? TextKind) eqn:ET.
    - specialize (P1 eq_refl). rewrite mp_eq. unfold splitK. rewrite ET. cbn [orb andb]. destruct (s + o <? she e) eqn:El.
      + rewrite (she_in s e P1) in *. apply Z.ltb_lt in El. rewrite fm_map. unfold tocF at 1. cbn [ikind]. rewrite ET.
        unfold spanOf. cbn [istart iend]. change (fun x : Z * Z => sub Q (sg (fst x)) (sg (snd x - 1) + 1)) with (pieceQ D).
        rewrite flat_map_concat_map. etransitivity; [apply (text_pieces s e P1); lia|]. unfold tocF. cbn [ikind]. rewrite ET. reflexivity.
      + destruct (text_empty k s e ind rf ks P1 El) as [E1 E2]. cbn [flat_map]. rewrite app_nil_r. unfold tocF. rewrite ikind_img. cbn [ikind]. rewrite ET, E1, E2. reflexivity.
    - destruct (k =? CharacterReferenceKind) eqn:EC.
      + assert (Hl : lineK k = true) by (unfold lineK; rewrite EC; rewrite orb_true_r; reflexivity).
        destruct (oneLn_facts k s e ind rf ks (P2 Hl)) as (M1 & M2 & _). rewrite M1. cbn [flat_map]. rewrite app_nil_r.
        unfold tocF. rewrite ikind_img. cbn [ikind]. rewrite ET, EC. f_equal. exact M2.
      + rewrite fm_nil; [unfold tocF; cbn [ikind]; rewrite ET, EC; reflexivity|].
        intros p Hp. destruct (mp_props _ p Hp) as (K & _). cbn [ikind] in K. unfold tocF. rewrite K, ET, EC. reflexivity.
  Qed.
  Lemma toc_mp d d' : okI src d = true -> leafK (ikind d) = false -> In d' (mp d) -> textOfChildren Q d' = textOfChildren src d.
  Proof.
    intros H HL Hd. destruct (mp_props d d' Hd) as (_ & _ & _ & K). rewrite !textOfChildren_tocF, K, fm_fm.
    apply fm_ext. intros c Hc. apply toc_kid. destruct d as [k s e ind rf ks]. destruct (okI_parts _ _ _ _ _ _ _ H) as (_ & _ & _ & _ & _ & P6).
    cbn [ikind] in HL. specialize (P6 HL). rewrite forallb_forall in P6. apply P6, Hc.
  Qed.

  (* ---- fuel bookkeeping ---- *)
  Lemma isize_pos i : (1 <= isize i)%nat. Proof. destruct i. cbn. lia. Qed.
  Lemma kids_bound i f' : (forall p, In p (mp i) -> (isize p <= S f')%nat) -> forall x, In x (ikids i) -> forall p, In p (mp x) -> (isize p <= f')%nat.
  Proof.
    intros H x Hx p Hp. pose proof (mp_nonempty i) as Hne. destruct (mp i) as [|q l] eqn:Eq; [contradiction|].
    assert (Hq : In q (mp i)) by (rewrite Eq; left; reflexivity). destruct (mp_props i q Hq) as (_ & _ & _ & K).
    assert (In p (ikids q)) by (rewrite K; apply in_flat_map; exists x; split; assumption).
    pose proof (isize_kid q p H0). specialize (H q (or_introl eq_refl)). lia.
  Qed.

  (* ---- altText ---- *)
  Lemma altText_mp : forall f f' i, okI src i = true -> (isize i <= f)%nat -> (forall p, In p (mp i) -> (isize p <= f')%nat) ->
    flat_map (altText f' Q) (mp i) = altText f src i.
  Proof.
    induction f as [|f IH]; intros f' i H Hf Hf'; [pose proof (isize_pos i); lia|].
    destruct f' as [|f'].
    { exfalso. pose proof (mp_nonempty i) as Hne. destruct (mp i) as [|q l]; [contradiction|]. specialize (Hf' q (or_introl eq_refl)). pose proof (isize_pos q). lia. }
    pose proof (kids_bound i f' Hf') as Hkb.
    destruct i as [k s e ind rf ks]. destruct (okI_parts _ _ _ _ _ _ _ H) as (P1 & P2 & P3 & P4 & P5 & P6).
    assert (Hrec : leafK k = false -> flat_map (altText f' Q) (flat_map mp ks) = flat_map (altText f src) ks).
    { intros HL. specialize (P6 HL). rewrite fm_fm. apply fm_ext. intros x Hx. apply IH.
      - rewrite forallb_forall in P6. apply P6, Hx.
      - pose proof (isize_kid (Inl k s e ind rf ks) x Hx). lia.
      - apply (Hkb x Hx). }
    rewrite mp_eq. destruct (splitK k && (s + o <? she e)) eqn:Esp.
    - apply andb_true_iff in Esp. destruct Esp as [Ek El]. rewrite fm_map. cbn [altText ikind ikids].
      destruct (k =? TextKind) eqn:ET.
      + specialize (P1 eq_refl). rewrite (she_in s e P1) in *. apply Z.ltb_lt in El.
        unfold spanOf. cbn [istart iend]. change (fun x : Z * Z => escapeHTML (sub Q (sg (fst x)) (sg (snd x - 1) + 1))) with (fun x => escapeHTML (pieceQ D x)).
        rewrite (fm_hom escapeHTML (pieceQ D)) by (reflexivity || apply escapeHTML_app). f_equal. apply (text_pieces s e P1). lia.
      + unfold splitK in Ek. rewrite ET in Ek. cbn [orb] in Ek. specialize (P3 Ek). subst ks. apply Z.eqb_eq in Ek. subst k.
        cbn [flat_map]. apply fm_nil. intros x _. reflexivity.
    - cbn [flat_map]. rewrite app_nil_r. unfold img. cbn [altText ikind ikids].
      destruct (k =? TextKind) eqn:ET.
      + specialize (P1 eq_refl). unfold splitK in Esp. rewrite ET in Esp. cbn [orb andb] in Esp.
        destruct (text_empty k s e ind rf ks P1 Esp) as [E1 E2]. unfold img in E1. rewrite E1, E2. reflexivity.
      + destruct (k =? CharacterReferenceKind) eqn:EC.
        * assert (Hl : lineK k = true) by (unfold lineK; rewrite EC; rewrite orb_true_r; reflexivity).
          destruct (oneLn_facts k s e ind rf ks (P2 Hl)) as (_ & M2 & _). exact M2.
        * destruct ((k =? IndentKind) || (k =? SoftLineBreakKind) || (k =? HardLineBreakKind)) eqn:E3; [reflexivity|].
          destruct ((k =? LinkDestinationKind) || (k =? LinkTitleKind) || (k =? LinkLabelKind)) eqn:E4; [reflexivity|]. apply Hrec.
          apply orb_false_iff in E3. destruct E3 as [E3 E3c]. apply orb_false_iff in E3. destruct E3 as [E3a E3b].
          apply orb_false_iff in E4. destruct E4 as [_ E4c]. unfold leafK. rewrite ET, EC, E3a, E3b, E3c, E4c. reflexivity.
  Qed.

  (* ---- link reference and link parts ---- *)
  Lemma rev_mp_cons a : exists p l, rev (mp a) = p :: l /\ In p (mp a).
  Proof.
    pose proof (mp_nonempty a) as Hne. destruct (rev (mp a)) as [|p l] eqn:E.
    - exfalso. apply Hne. rewrite <- (rev_involutive (mp a)), E. reflexivity.
    - exists p, l. split; [reflexivity|]. apply in_rev. rewrite E. left. reflexivity.
  Qed.
  Lemma linkReference_img i : linkReference (img i) = linkReference i.
  Proof.
    destruct i as [k s e ind rf ks]. unfold linkReference, img. cbn [ikind ikids iref].
    destruct ((k =? LinkKind) || (k =? ImageKind)); [|reflexivity].
    rewrite rev_fm. destruct (rev ks) as [|a R1]; [reflexivity|]. cbn [flat_map].
    destruct (rev_mp_cons a) as (p & l & E & Hp). rewrite E. cbn [app]. destruct (mp_props a p Hp) as (K1 & K2 & _). rewrite K1, K2. reflexivity.
  Qed.
  Lemma partK_nosplit kk : isPartK kk = true -> splitK kk = false.
  Proof.
    unfold isPartK, splitK. intros H. apply orb_true_iff in H. destruct H as [H|H]; apply Z.eqb_eq in H; subst kk; reflexivity.
  Qed.
  Lemma linkPart_img k s e ind rf ks kk (i := Inl k s e ind rf ks) : tailOK ks = true -> isPartK kk = true ->
    match linkPart i kk with
    | None => linkPart (img i) kk = None
    | Some d => In d ks /\ linkPart (img i) kk = Some (img d)
    end.
  Proof.
    intros HT Hkk. unfold linkPart, i, img. cbn [ikids]. rewrite !lastTwo_firstn, rev_fm. unfold tailOK in HT.
    assert (Hin : forall x, In x (rev ks) -> In x ks) by (intros x Hx; apply in_rev; exact Hx).
    destruct (rev ks) as [|a R1]; [reflexivity|]. cbn [flat_map]. rewrite firstn_cons. cbn [find].
    assert (Hfa : forall x, In x (mp a) -> (ikind x =? kk) = (ikind a =? kk)) by (intros x Hx; destruct (mp_props a x Hx) as (K & _); rewrite K; reflexivity).
    destruct (ikind a =? kk) eqn:Ea.
    - (* the last child is the part *)
      assert (Es : splitK (ikind a) = false) by (apply Z.eqb_eq in Ea; rewrite Ea; apply partK_nosplit, Hkk).
      rewrite (mp_nosplit a Es). cbn [rev app]. rewrite firstn_cons. cbn [find]. rewrite ikind_img, Ea. split; [apply Hin; left; reflexivity|reflexivity].
    - destruct R1 as [|b R2].
      + rewrite firstn_nil. cbn [find flat_map]. rewrite app_nil_r. apply find_none. intros x Hx. apply in_firstn in Hx. apply Hfa, in_rev, Hx.
      + rewrite firstn_cons, firstn_O. cbn [find flat_map].
        assert (Hfb : forall x, In x (mp b) -> (ikind x =? kk) = (ikind b =? kk)) by (intros x Hx; destruct (mp_props b x Hx) as (K & _); rewrite K; reflexivity).
        destruct (ikind b =? kk) eqn:Eb.
        * assert (Esb : splitK (ikind b) = false) by (apply Z.eqb_eq in Eb; rewrite Eb; apply partK_nosplit, Hkk).
          assert (Esa : splitK (ikind a) = false).
          { apply Z.eqb_eq in Eb. rewrite Eb, Hkk in HT. cbn [negb] in HT. rewrite orb_false_r in HT. apply negb_true_iff in HT. exact HT. }
          rewrite (mp_nosplit a Esa), (mp_nosplit b Esb). cbn [rev app]. rewrite !firstn_cons, firstn_O. cbn [find]. rewrite !ikind_img, Ea, Eb.
          split; [apply Hin; right; left; reflexivity|reflexivity].
        * apply find_none. intros x Hx.
          destruct (rev_mp_cons a) as (a1 & A & EA & HA). destruct (rev_mp_cons b) as (b1 & B & EB & HB). rewrite EA, EB in Hx.
          assert (HAall : forall y, In y (a1 :: A) -> In y (mp a)) by (intros y Hy; apply in_rev; rewrite EA; exact Hy).
          cbn [app] in Hx. rewrite firstn_cons in Hx. destruct Hx as [<-|Hx]; [apply Hfa, HA|].
          destruct A as [|a2 A].
          -- cbn [app] in Hx. rewrite firstn_cons, firstn_O in Hx. destruct Hx as [<-|[]]. apply Hfb, HB.
          -- cbn [app] in Hx. rewrite firstn_cons, firstn_O in Hx. destruct Hx as [<-|[]]. apply Hfa, HAall. right; left; reflexivity.
  Qed.
  Lemma defOf_img refs k s e ind rf ks (i := Inl k s e ind rf ks) : okI src i = true -> (k =? LinkKind) || (k =? ImageKind) = true ->
    defOf refs Q (img i) = defOf refs src i.
  Proof.
    intros H Hk. destruct (okI_parts _ _ _ _ _ _ _ H) as (_ & _ & _ & _ & P5 & P6). specialize (P5 Hk).
    assert (HLk : leafK k = false).
    { apply orb_true_iff in Hk. destruct Hk as [E|E]; apply Z.eqb_eq in E; subst k; reflexivity. }
    specialize (P6 HLk). rewrite forallb_forall in P6.
    unfold defOf. rewrite (linkReference_img i). destruct (negb (len (linkReference i) =? 0)); [reflexivity|].
    pose proof (linkPart_img k s e ind rf ks LinkDestinationKind P5 eq_refl) as HD.
    pose proof (linkPart_img k s e ind rf ks LinkTitleKind P5 eq_refl) as HT. fold i in HD, HT.
    assert (Htoc : forall d, In d ks -> isPartK (ikind d) = true -> textOfChildren Q (img d) = textOfChildren src d).
    { intros d Hd Hs. apply toc_mp; [apply P6, Hd| |rewrite (mp_nosplit d (partK_nosplit _ Hs)); left; reflexivity].
      unfold isPartK in Hs. apply orb_true_iff in Hs. destruct Hs as [E|E]; apply Z.eqb_eq in E; rewrite E; reflexivity. }
    assert (HkD : forall d kk, linkPart i kk = Some d -> ikind d = kk).
    { intros d kk E. unfold linkPart in E. apply find_some in E. destruct E as [_ E]. apply Z.eqb_eq, E. }
    destruct (linkPart i LinkDestinationKind) as [d|] eqn:ED; destruct (linkPart i LinkTitleKind) as [t|] eqn:ETt.
    - destruct HD as [Id ->]. destruct HT as [It ->]. rewrite (Htoc d Id), (Htoc t It); [reflexivity| |].
      + rewrite (HkD t _ ETt). reflexivity.
      + rewrite (HkD d _ ED). reflexivity.
    - destruct HD as [Id ->]. rewrite HT. rewrite (Htoc d Id); [reflexivity|]. rewrite (HkD d _ ED). reflexivity.
    - destruct HT as [It ->]. rewrite HD. rewrite (Htoc t It); [reflexivity|]. rewrite (HkD t _ ETt). reflexivity.
    - rewrite HD, HT. reflexivity.
  Qed.

  (* ---- renderI ---- *)
  Variables (c : cfg) (refs : list (bytes * linkDef)).
  Hypothesis c_safe : ignoreRaw c = true.

  Lemma renderI_mp : forall f f' i, okI src i = true -> (isize i <= f)%nat -> (forall p, In p (mp i) -> (isize p <= f')%nat) ->
    flat_map (renderI f' c refs Q) (mp i) = renderI f c refs src i.
  Proof.
    induction f as [|f IH]; intros f' i H Hf Hf'; [pose proof (isize_pos i); lia|].
    destruct f' as [|f'].
    { exfalso. pose proof (mp_nonempty i) as Hne. destruct (mp i) as [|q l]; [contradiction|]. specialize (Hf' q (or_introl eq_refl)). pose proof (isize_pos q). lia. }
    pose proof (kids_bound i f' Hf') as Hkb.
    destruct i as [k s e ind rf ks]. destruct (okI_parts _ _ _ _ _ _ _ H) as (P1 & P2 & P3 & P4 & P5 & P6).
    assert (Hrec : leafK k = false -> flat_map (renderI f' c refs Q) (flat_map mp ks) = flat_map (renderI f c refs src) ks).
    { intros HL. specialize (P6 HL). rewrite fm_fm. apply fm_ext. intros x Hx. apply IH.
      - rewrite forallb_forall in P6. apply P6, Hx.
      - pose proof (isize_kid (Inl k s e ind rf ks) x Hx). lia.
      - apply (Hkb x Hx). }
    pose proof (mp_eq k s e ind rf ks) as Emp. rewrite Emp. destruct (splitK k && (s + o <? she e)) eqn:Esp.
    - apply andb_true_iff in Esp. destruct Esp as [Ek El]. rewrite fm_map. cbn [renderI ikind ikids istart iend iindent].
      destruct (k =? TextKind) eqn:ET.
      + specialize (P1 eq_refl). rewrite (she_in s e P1) in *. apply Z.ltb_lt in El. cbn [orb].
        unfold spanOf. cbn [istart iend]. change (fun x : Z * Z => escapeHTML (sub Q (sg (fst x)) (sg (snd x - 1) + 1))) with (fun x => escapeHTML (pieceQ D x)).
        rewrite (fm_hom escapeHTML (pieceQ D)) by (reflexivity || apply escapeHTML_app). f_equal. apply (text_pieces s e P1). lia.
      + unfold splitK in Ek. rewrite ET in Ek. cbn [orb] in Ek. apply Z.eqb_eq in Ek. subst k. rewrite c_safe.
        apply fm_nil. intros x _. reflexivity.
    - cbn [flat_map]. rewrite app_nil_r. unfold img. cbn [renderI ikind ikids istart iend iindent].
      destruct (k =? TextKind) eqn:ET.
      { specialize (P1 eq_refl). unfold splitK in Esp. rewrite ET in Esp. cbn [orb andb] in Esp.
        destruct (text_empty k s e ind rf ks P1 Esp) as [E1 E2]. unfold img in E1. cbn [orb]. rewrite E1, E2. reflexivity. }
      assert (HL : lineK k = true -> spanOf Q (Inl k (sg (s + o)) (eE sg (s + o) (she e)) ind rf (flat_map mp ks)) = spanOf src (Inl k s e ind rf ks) /\
                                   eE sg (s + o) (she e) - sg (s + o) = e - s).
      { intros Hl. destruct (oneLn_facts k s e ind rf ks (P2 Hl)) as (_ & M2 & M3). unfold img in M2, M3. cbn [istart iend] in M3. split; assumption. }
      destruct (k =? UnparsedKind) eqn:EU.
      { cbn [orb]. destruct HL as [M2 _]; [unfold lineK; rewrite EU; reflexivity|]. rewrite M2. reflexivity. }
      cbn [orb]. destruct (k =? CharacterReferenceKind) eqn:EC.
      { destruct HL as [M2 _]; [unfold lineK; rewrite EC, orb_true_r; reflexivity|]. exact M2. }
      destruct (k =? RawHTMLKind) eqn:ER; [rewrite c_safe; reflexivity|].
      destruct (k =? SoftLineBreakKind) eqn:ES.
      { destruct HL as [M2 M3]; [unfold lineK; rewrite ES, orb_true_r; reflexivity|]. rewrite M3, M2. reflexivity. }
      destruct (k =? HardLineBreakKind); [reflexivity|].
      destruct (k =? EmphasisKind) eqn:EE; [rewrite Hrec by (apply Z.eqb_eq in EE; rewrite EE; reflexivity); reflexivity|].
      destruct (k =? StrongKind) eqn:ESt; [rewrite Hrec by (apply Z.eqb_eq in ESt; rewrite ESt; reflexivity); reflexivity|].
      destruct (k =? CodeSpanKind) eqn:ECs; [rewrite Hrec by (apply Z.eqb_eq in ECs; rewrite ECs; reflexivity); reflexivity|].
      destruct (k =? LinkKind) eqn:ELk.
      { pose proof (defOf_img refs k s e ind rf ks H ltac:(rewrite ELk; reflexivity)) as HD. cbv zeta in HD. unfold img in HD. rewrite HD.
        rewrite Hrec by (apply Z.eqb_eq in ELk; rewrite ELk; reflexivity). reflexivity. }
      destruct (k =? ImageKind) eqn:EIm.
      { pose proof (defOf_img refs k s e ind rf ks H ltac:(rewrite ELk, EIm; reflexivity)) as HD. cbv zeta in HD. unfold img in HD. rewrite HD.
        pose proof (altText_mp (isize (Inl k s e ind rf ks)) (isize (img (Inl k s e ind rf ks))) (Inl k s e ind rf ks) H (le_n _)) as HA.
        rewrite Emp in HA. cbn [flat_map] in HA. rewrite app_nil_r in HA. unfold img in HA. rewrite HA; [reflexivity|].
        intros p [<-|[]]. apply le_n. }
      destruct (k =? AutolinkKind) eqn:EA.
      { specialize (P4 eq_refl). destruct ks as [|t r]; [reflexivity|]. destruct t as [kt st et it rt kst]. cbn [istart iend] in P4.
        destruct (oneLn_facts kt st et it rt kst P4) as (M1 & M2 & _). cbn [flat_map]. rewrite M1. cbn [app]. rewrite M2. reflexivity. }
      destruct (k =? IndentKind); [reflexivity|].
      destruct (k =? HTMLTagKind) eqn:EH; [rewrite Hrec by (apply Z.eqb_eq in EH; rewrite EH; reflexivity); reflexivity|]. reflexivity.
  Qed.
End Inl.
