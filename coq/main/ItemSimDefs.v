(* ItemSimDefs.v -- property C09, list-item clause, at the block layer (task T65): definitions and the statement.

   item mk N D        : the marker mk and N spaces in front of the first line of D, K = len mk + N spaces in front of every other line
                        (lines end with LF; a last line without LF is a line).
   sigmaK K D p       : the position in item mk N D of the byte at position p of D      (p + K * (number of the line of p, from 1))
   iI / iB K D        : the tree maps (as QuoteSimDefs.qI / qB, with K in place of 2). *)
From Coq Require Import List ZArith Lia Bool.
Import ListNotations.
Require Import Base Tree Recog LP Driver QuoteSimDefs.
Open Scope Z_scope.

Definition spaces (n : Z) : bytes := repeat 32 (Z.to_nat n).
Fixpoint indentAux (K : Z) (atStart : bool) (l : bytes) : bytes :=
  match l with [] => [] | c :: r => (if atStart then spaces K else []) ++ c :: indentAux K (c =? 10) r end.
Definition item (mk : bytes) (N : Z) (D : bytes) : bytes := mk ++ spaces N ++ indentAux (len mk + N) false D.

Definition sigmaK (K : Z) (D : bytes) (p : Z) : Z := p + K * (nl D p + 1).
Definition epsilonK (K : Z) (D : bytes) (s e : Z) : Z := if e <? 0 then e else if s <? e then sigmaK K D (e - 1) + 1 else sigmaK K D s.
Definition epsBK (K : Z) (D : bytes) (e : Z) : Z := if e <=? 0 then e else sigmaK K D (e - 1) + 1.

Fixpoint iI (K : Z) (D : bytes) (i : inline) : list inline :=
  match i with Inl k s e ind r kids =>
    let kids' := flat_map (iI K D) kids in
    if (k =? TextKind) && (s <? e) then map (fun se => Inl k (sigmaK K D (fst se)) (epsilonK K D (fst se) (snd se)) ind r kids') (splitAt D (Z.to_nat (e - s)) s e)
    else [Inl k (sigmaK K D s) (epsilonK K D s e) ind r kids']
  end.
Fixpoint iB (K : Z) (D : bytes) (b : block) : block :=
  match b with Blk k s e bk ik a nn c l lb =>
    Blk k (sigmaK K D s) (epsBK K D e) (map (iB K D) bk) (flat_map (iI K D) ik) a nn c l lb end.

Definition itemKids (K : Z) (D : bytes) (roots : list rootB) : list block :=
  map (fun r => iB K D (shiftB (rb_start r) (rb_blk r))) roots.

(* looseness of the one-item list, as onCloseList computes it: some child of the item other than the last ends with a blank line
   (the marker never does).  With no whitespace-only line in D this happens only through a block quote whose last line is a bare ">"
   below a nested list item (e.g. D = "> - a" / ">" / "b"). *)
Definition ewbl (b : block) : bool := endsWithBlankLine (S (bheight b)) b.
Definition looseOf (kids : list block) : bool := existsb ewbl (removelast kids).

Definition itemRoot (mk : bytes) (N delim : Z) (D : bytes) (loose lbL lbI : bool) (kids : list block) : rootB :=
  let Q := item mk N D in let W := len mk in
  {| rb_line := 1; rb_start := 0; rb_end := len Q; rb_src := Q;
     rb_blk := Blk ListKind 0 (len Q)
                 [Blk ListItemKind 0 (len Q) (Blk ListMarkerKind 0 W [] [] 0 0 0 false false :: kids) [] (W + N) 0 delim loose lbI]
                 [] 0 0 delim loose lbL |}.

(* ---- the statement ---- *)
Definition tabFreeD (D : bytes) : Prop := Forall (fun c => c <> 9 /\ c <> 13 /\ c <> 0) D.
(* the lines of D (without their line endings) *)
Fixpoint linesOf (cur : bytes) (l : bytes) : list bytes :=
  match l with [] => (match cur with [] => [] | _ => [rev cur] end) | c :: r => if c =? 10 then rev cur :: linesOf [] r else linesOf (c :: cur) r end.
Definition firstLine (D : bytes) : bytes := match linesOf [] D with l :: _ => l | [] => [] end.
(* D starts with a non-space byte and has no whitespace-only (in particular no empty) line *)
Definition okDoc (D : bytes) : Prop :=
  (exists c r, D = c :: r /\ c <> 32) /\ Forall (fun l => isBlankLine l = false) (linesOf [] D).
(* a list marker: a bullet, or 1-9 digits followed by '.' or ')' *)
Definition bulletMk (mk : bytes) (delim : Z) : Prop := mk = [delim] /\ (delim = 45 \/ delim = 43 \/ delim = 42).
Definition orderedMk (mk : bytes) (delim : Z) : Prop :=
  exists ds, mk = ds ++ [delim] /\ ds <> [] /\ (length ds <= 9)%nat /\ Forall (fun c => 48 <= c <= 57) ds /\ (delim = 46 \/ delim = 41).

Definition parseBlocks_item_statement : Prop := forall mk delim N D,
  bulletMk mk delim \/ orderedMk mk delim -> 1 <= N <= 4 -> tabFreeD D -> okDoc D ->
  Recog.parseThematicBreak (mk ++ spaces N ++ firstLine D) < 0 ->
  let kids := itemKids (len mk + N) D (fst (parseBlocks D)) in
  exists lbL lbI, parseBlocks (item mk N D) = ([itemRoot mk N delim D (looseOf kids) lbL lbI kids], 0).
