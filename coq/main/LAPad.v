From Coq Require Import List ZArith Lia Bool.
Import ListNotations.
Require Import Base Tree Driver Props Rec17 Rec18 C01b LADef.
Open Scope Z_scope.

(* ===== NUL padding: cutting the padded buffer at good positions; the root's source against the buffer ===== *)
Definition PadF (l : bytes) : Prop := exists t, l = pad t.

Lemma pad_cons b t : pad (b :: t) = (if b =? 0 then [0;0;0] else [b]) ++ pad t. Proof. reflexivity. Qed.
Lemma upto_app_ge (a b : bytes) n : len a <= n -> upto (a ++ b) n = a ++ upto b (n - len a).
Proof.
  intros H. unfold upto, len in *. rewrite firstn_app. rewrite firstn_all2 by lia. f_equal. f_equal. lia.
Qed.
Lemma from_app_ge (a b : bytes) n : len a <= n -> from_ (a ++ b) n = from_ b (n - len a).
Proof.
  intros H. unfold from_, len in *. rewrite skipn_app. rewrite skipn_all2 by lia. cbn [app]. f_equal. lia.
Qed.

Lemma padF_cut : forall t n, 0 <= n <= len (pad t) -> bnd0 (pad t) n -> PadF (upto (pad t) n) /\ PadF (from_ (pad t) n).
Proof.
  induction t as [|b t IH]; intros n Hn Hb.
  - cbn in Hn. replace n with 0 by (unfold len in Hn; cbn in Hn; lia). split; exists []; reflexivity.
  - destruct (Z.eq_dec n 0) as [->|N0]; [split; [exists []; reflexivity|exists (b :: t); reflexivity]|].
    rewrite pad_cons in *. set (ch := if b =? 0 then [0;0;0] else [b]) in *.
    assert (Hch : 1 <= len ch /\ (len ch = 3 -> ch = [0;0;0]) /\ (len ch = 1 \/ len ch = 3)).
    { unfold ch. destruct (b =? 0).
      - change (len [0;0;0]) with 3. split; [lia|split; [reflexivity|right; reflexivity]].
      - change (len [b]) with 1. split; [lia|split; [intros H; lia|left; reflexivity]]. }
    destruct Hch as (C1 & C2 & C3). rewrite len_app in Hn. pose proof (len_nonneg (pad t)) as Hlp.
    destruct (Z.lt_ge_cases n (len ch)) as [L|L].
    + exfalso. destruct C3 as [C3|C3]; [lia|]. pose proof (C2 C3) as Ech. destruct Hb as [E|[E|E]]; [lia|rewrite len_app in E; lia|].
      apply E. rewrite Ech. change ([0;0;0] ++ pad t) with (0 :: 0 :: 0 :: pad t). assert (Hn' : n = 1 \/ n = 2) by lia. destruct Hn' as [-> | ->]; reflexivity.
    + rewrite upto_app_ge, from_app_ge by exact L.
      assert (Hb' : bnd0 (pad t) (n - len ch)).
      { destruct Hb as [E|[E|E]]; [lia|right; left; rewrite len_app in E; lia|].
        destruct (Z.eq_dec n (len ch)) as [En|Nn]; [left; lia|]. right; right. rewrite at_app_r in E by lia. replace (n - len ch - 1) with (n - 1 - len ch) by lia. exact E. }
      destruct (IH (n - len ch) ltac:(lia) Hb') as [(t1 & E1) (t2 & E2)]. split; [exists (b :: t1); rewrite pad_cons; fold ch; rewrite E1; reflexivity|exists t2; exact E2].
Qed.
Lemma PadF_cut l n : PadF l -> 0 <= n <= len l -> bnd0 l n -> PadF (upto l n) /\ PadF (from_ l n).
Proof. intros (t & ->). apply padF_cut. Qed.

(* bytes of the root source that are textual come from bytes of the buffer that must be covered *)
Lemma fill_textual : forall t p, 0 <= p < len (pad t) -> textual (at_ (fillNulls (pad t)) p) = true -> tx (at_ (pad t) p) = true.
Proof.
  intros t p Hp. rewrite fill_pad. revert p Hp. induction t as [|b t IH]; intros p Hp Ht; [unfold len in Hp; cbn in Hp; lia|].
  rewrite pad_cons in *. change (replaceNul (b :: t)) with ((if b =? 0 then [239;191;189] else [b]) ++ replaceNul t) in Ht.
  destruct (Z.eqb_spec b 0) as [->|Nb].
  - rewrite len_app in Hp. change (len [0;0;0]) with 3 in Hp.
    destruct (Z.lt_ge_cases p 3) as [L|L].
    + rewrite at_app_l by (change (len [0;0;0]) with 3; lia). assert (Hc : p = 0 \/ p = 1 \/ p = 2) by lia. destruct Hc as [->|[->| ->]]; reflexivity.
    + rewrite at_app_r by (change (len [0;0;0]) with 3; lia). rewrite at_app_r in Ht by (change (len [239;191;189]) with 3; lia).
      change (len [0;0;0]) with 3. change (len [239;191;189]) with 3 in Ht. apply IH; [lia|exact Ht].
  - rewrite len_app in Hp. change (len [b]) with 1 in Hp.
    destruct (Z.eq_dec p 0) as [->|N0].
    + cbn in Ht |- *. unfold tx. change (at_ (b :: pad t) 0) with b. change (at_ (b :: replaceNul t) 0) with b in Ht. rewrite Ht. reflexivity.
    + rewrite at_app_r by (change (len [b]) with 1; lia). rewrite at_app_r in Ht by (change (len [b]) with 1; lia). change (len [b]) with 1 in *. apply IH; [lia|exact Ht].
Qed.
Lemma len_fill_pad t : len (fillNulls (pad t)) = len (pad t).
Proof.
  rewrite fill_pad. induction t as [|b t IH]; [reflexivity|]. rewrite pad_cons. change (replaceNul (b :: t)) with ((if b =? 0 then [239;191;189] else [b]) ++ replaceNul t).
  rewrite !len_app, IH. destruct (b =? 0); reflexivity.
Qed.
