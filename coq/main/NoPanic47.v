From Coq Require Import List ZArith Lia Bool.
Import ListNotations.
Require Import Base Tree Rdr Link Collect Html Recog LP Rules Starts Driver L2Kind L2CC.
Open Scope Z_scope.

(* C04, panic sites 4 (no ancestor can contain the new block) and 7 (EndBlock at the document): never reported *)
Definition P47 (p : lp) : Prop := panicked p <> 4 /\ panicked p <> 7.
Definition F (p : lp) : Prop := ccP p /\ P47 p.

Lemma P_panic p site : site <> 4 -> site <> 7 -> P47 p -> P47 (panic p site).
Proof. intros N4 N7 (a & b). unfold P47. cbn. destruct (panicked p =? 0); split; assumption. Qed.
Lemma P_advance p n : P47 p -> P47 (advance p n).
Proof.
  intros H. unfold advance. destruct (n <? 0); [apply P_panic; [discriminate|discriminate|exact H]|].
  destruct (n =? 0); [exact H|]. cbv zeta.
  assert (H1 : P47 (if state p =? stOpening then withState p stOpenMatched else p)) by (destruct (_ =? _); exact H).
  destruct (_ <? _); [apply P_panic; [discriminate|discriminate|exact H1]|exact H1].
Qed.
Lemma P_consumeLine p : P47 p -> P47 (consumeLine p).
Proof.
  intros H. unfold consumeLine. cbv zeta. pose proof (P_advance p (len (line p) - li p) H) as H1.
  destruct (_ || _); [exact H1|]. destruct (_ =? stDescending); exact H1.
Qed.
Lemma P_consumeIndent_loop : forall fuel p n, P47 p -> P47 (consumeIndent_loop fuel p n).
Proof.
  induction fuel as [|f IH]; intros p n H; [exact H|]. cbn [consumeIndent_loop].
  destruct (n <=? 0); [exact H|]. cbv zeta.
  assert (H1 : P47 (if state p =? stOpening then withState p stOpenMatched else p)) by (destruct (_ =? _); exact H).
  destruct (_ && (_ =? 32)); [apply IH; exact H1|].
  destruct (_ && (_ =? 9)); [|apply P_panic; [discriminate|discriminate|exact H1]].
  destruct (n <? _); [exact H1|]. apply IH. exact H1.
Qed.
Lemma P_consumeIndent p n : P47 p -> P47 (consumeIndent p n). Proof. apply P_consumeIndent_loop. Qed.

Lemma F_advance p n : F p -> F (advance p n). Proof. intros [a b]. split; [apply ccP_advance, a|apply P_advance, b]. Qed.
Lemma F_consumeLine p : F p -> F (consumeLine p). Proof. intros [a b]. split; [apply ccP_consumeLine, a|apply P_consumeLine, b]. Qed.
Lemma F_consumeIndent p n : F p -> F (consumeIndent p n). Proof. intros [a b]. split; [apply ccP_consumeIndent, a|apply P_consumeIndent, b]. Qed.
Lemma F_updCont_ik p (g : block -> list inline) : F p -> F (updCont p (fun b => set_bik b (g b))).
Proof. intros [a b]. split; [apply ccP_updCont_ik, a|exact b]. Qed.
Lemma F_updCont p f : F p ->
  (forall x, getAt (cdepth p) (root p) = Some x -> cc x = true -> cc (f x) = true /\ bkind (f x) = bkind x) -> F (updCont p f).
Proof. intros [a b] Hf. split; [apply ccP_updCont; assumption|exact b]. Qed.

Lemma P_collectInline p kind n : P47 p -> P47 (collectInline p kind n).
Proof.
  intros H. unfold collectInline. destruct (_ =? stDescendTerminated); [apply P_panic; [discriminate|discriminate|exact H]|]. cbv zeta.
  assert (H1 : P47 (if state p =? stOpening then withState p stOpenMatched else p)) by (destruct (_ =? _); exact H).
  match goal with |- P47 (updCont ?q _) => change (P47 q) end. apply P_advance.
  destruct (0 <? _); [|exact H1]. match goal with |- P47 (updCont ?q _) => change (P47 q) end. apply P_advance. exact H1.
Qed.
Lemma F_collectInline p kind n : F p -> F (collectInline p kind n).
Proof. intros [a b]. split; [apply ccP_collectInline, a|apply P_collectInline, b]. Qed.

(* the climb never runs off the root *)
Lemma openBlock_up_nopanic : forall fuel p kind, ccP p -> (cdepth p < fuel)%nat ->
  (kind <> ListItemKind \/ canContain (containerKind p) kind = true) ->
  panicked (openBlock_up fuel p kind) = panicked p.
Proof.
  induction fuel as [|f IH]; intros p kind H Hf Hk; [reflexivity|]. cbn [openBlock_up].
  destruct (canContain (containerKind p) kind) eqn:Ec; [reflexivity|].
  assert (Nk : kind <> ListItemKind) by (destruct Hk as [Hk|Hk]; [exact Hk|discriminate]).
  destruct (cdepth p) as [|d] eqn:Ed.
  - exfalso. rewrite (containerKind_root p Ed) in Ec. destruct H as (A & _). rewrite A in Ec.
    unfold canContain in Ec. cbn in Ec. apply negb_false_iff, Z.eqb_eq in Ec. contradiction.
  - rewrite IH; [reflexivity| |cbn; lia|left; exact Nk].
    pose proof H as (_ & _ & (x & Hx)). rewrite Ed in Hx. apply ccP_closeAt; [exact H|lia|]. eapply getAt_prefix. exact Hx.
Qed.
Lemma F_openBlock p kind : F p -> (kind <> ListItemKind \/ canContain (containerKind p) kind = true) -> F (openBlock p kind).
Proof.
  intros [a b] Hk. split; [apply ccP_openBlock; assumption|].
  unfold openBlock. destruct (_ || _); [apply P_panic; [discriminate|discriminate|exact b]|]. cbv zeta.
  set (p0 := if state p =? stOpening then withState p stOpenMatched else p).
  assert (E : panicked (openBlock_up (S (cdepth p0)) p0 kind) = panicked p).
  { rewrite openBlock_up_nopanic; [unfold p0; destruct (_ =? _); reflexivity|apply ccP_opened, a|lia|].
    rewrite (containerKind_same p p0 (same_opened p)). exact Hk. }
  unfold P47. cbn [panicked withCont updCont withRoot closeLastChildAt setLP]. rewrite E. exact b.
Qed.
Lemma F_endBlock p : F p -> (1 <= cdepth p)%nat -> F (endBlock p).
Proof.
  intros [a b] Hd. split; [apply ccP_endBlock, a|].
  unfold endBlock. destruct (_ || _); [apply P_panic; [discriminate|discriminate|exact b]|]. cbv zeta.
  assert (E : cdepth (if state p =? stOpening then withState p stOpenMatched else p) = cdepth p) by (destruct (_ =? _); reflexivity).
  rewrite E. destruct (cdepth p) as [|d]; [lia|]. cbn. destruct (_ =? _); exact b.
Qed.
Lemma cdepth_openBlock p k : (state p =? stDescending) || (state p =? stDescendTerminated) = false -> (1 <= cdepth (openBlock p k))%nat.
Proof. intros Hs. unfold openBlock. rewrite Hs. cbv zeta. cbn. lia. Qed.

Require L2Kind2.

Lemma F_matchRule p : F p -> F (snd (matchRule p)).
Proof.
  intros H. unfold matchRule. cbv zeta.
  destruct (_ || _); [exact H|].
  destruct (_ =? ListItemKind).
  { unfold matchListItem. destruct (isRestBlank p); [destruct (negb _); [exact H|apply F_consumeIndent, H]|].
    destruct (_ <=? _); [apply F_consumeIndent, H|exact H]. }
  destruct (_ =? BlockQuoteKind).
  { unfold matchBlockQuote. cbv zeta. destruct (_ <=? _); [exact H|]. destruct (negb _); [exact H|]. cbn [snd].
    unfold eatQuoteMarker. cbv zeta. destruct (0 <? _); repeat first [apply F_consumeIndent|apply F_advance]; exact H. }
  destruct (_ =? FencedCodeBlockKind).
  { unfold matchFenced. cbv zeta. destruct (if _ <? _ then _ else false); cbn [snd]; [apply F_consumeLine|apply F_consumeIndent]; exact H. }
  destruct (_ =? IndentedCodeBlockKind).
  { unfold matchIndented. cbv zeta. destruct (_ <? _); [destruct (negb _)|]; cbn [snd]; try apply F_consumeIndent; exact H. }
  destruct (_ =? HTMLBlockKind).
  { unfold matchHTML. destruct (htmlEnd _ _); [|exact H]. destruct (isRestBlank _); [exact H|]. cbn [snd]. apply F_consumeLine.
    apply F_collectInline; exact H. }
  exact H.
Qed.
Lemma F_withCont p d : F p -> (exists x, getAt d (root p) = Some x) -> F (withCont p (Some d)).
Proof. intros [a b] Hw. split; [apply ccP_withCont; assumption|exact b]. Qed.
Lemma F_closeAt p d e d' : F p -> (d' <= d)%nat -> (exists x, getAt d' (root p) = Some x) -> F (withCont (closeLastChildAt p d e) (Some d')).
Proof. intros [a b] Hle Hw. split; [apply ccP_closeAt; assumption|exact b]. Qed.
Lemma F_descend_loop : forall fuel p d, F p -> (exists x, getAt d (root p) = Some x) -> F (snd (descend_loop fuel p d)).
Proof.
  induction fuel as [|f IH]; intros p d H Hd; [apply F_withCont; assumption|]. cbn [descend_loop]. cbv zeta.
  destruct (getAt (S d) (root p)) as [c|] eqn:Ec; [|apply F_withCont; assumption].
  destruct (negb (isOpen c)); [apply F_withCont; assumption|].
  destruct (negb (hasMatch _)); [apply F_withCont; [apply (F_withCont p (S d) H); eauto|exact Hd]|].
  set (q := withState (withCont p (Some (S d))) stDescending).
  assert (Hc : F q) by (apply (F_withCont p (S d) H); eauto).
  pose proof (F_matchRule q Hc) as H2. pose proof (cdepth_matchRule q) as Ecd.
  destruct (matchRule q) as [ok p2]. cbn [snd] in H2, Ecd. change (cdepth q) with (S d) in Ecd.
  pose proof (proj1 H2) as (_ & _ & (x & Hx)). rewrite Ecd in Hx.
  assert (Hd2 : exists y, getAt d (root p2) = Some y) by (eapply getAt_prefix; exact Hx).
  destruct (state p2 =? stDescendTerminated); [cbn [snd]; apply F_closeAt; [exact H2|lia|exact Hd2]|].
  destruct (negb ok); [apply F_withCont; assumption|]. apply IH; [exact H2|eauto].
Qed.

(* block starts: the state is open (st3), so openBlock really opens and the container is at depth >= 1 afterwards *)
Definition E (p : lp) : Prop := L2Kind2.st3 p /\ F p.
Lemma E_advance p n : E p -> E (advance p n). Proof. intros [s f]. split; [apply L2Kind2.st3_advance, s|apply F_advance, f]. Qed.
Lemma E_consumeIndent p n : E p -> E (consumeIndent p n). Proof. intros [s f]. split; [apply L2Kind2.st3_consumeIndent, s|apply F_consumeIndent, f]. Qed.
Lemma E_consumeLine p : E p -> E (consumeLine p). Proof. intros [s f]. split; [apply L2Kind2.st3_consumeLine, s|apply F_consumeLine, f]. Qed.
Lemma E_collectInline p k n : E p -> E (collectInline p k n).
Proof. intros [s f]. split; [apply L2Kind2.st3_collectInline, s|apply F_collectInline, f]. Qed.
Lemma E_openBlock p k : E p -> k <> ListItemKind -> E (openBlock p k) /\ (1 <= cdepth (openBlock p k))%nat.
Proof.
  intros [s f] Hk. split; [split; [apply L2Kind2.st3_openBlock, s|apply F_openBlock; [exact f|left; exact Hk]]|].
  apply cdepth_openBlock. destruct (L2Kind2.st3_cases p s) as [Ee|[Ee|Ee]]; rewrite Ee; reflexivity.
Qed.
Lemma E_endBlock p : E p -> (1 <= cdepth p)%nat -> E (endBlock p).
Proof. intros [s f] Hd. split; [apply L2Kind2.st3_endBlock, s|apply F_endBlock; assumption]. Qed.
Lemma E_setters p f : E p -> (forall x, cc (f x) = cc x /\ bkind (f x) = bkind x) -> E (updCont p f).
Proof. intros [s a] Hf. split; [exact s|]. apply F_updCont; [exact a|]. intros x _ Hx. destruct (Hf x) as [A B]. rewrite A, B. tauto. Qed.
Lemma cd_advance p n : cdepth (advance p n) = cdepth p. Proof. apply cd_same, same_advance. Qed.
Lemma cd_consumeLine p : cdepth (consumeLine p) = cdepth p. Proof. apply cd_same, same_consumeLine. Qed.
Lemma cd_consumeIndent p n : cdepth (consumeIndent p n) = cdepth p. Proof. apply cd_same, same_consumeIndent. Qed.

Lemma E_openBlock' p k : E p -> canContain (containerKind p) k = true -> E (openBlock p k) /\ (1 <= cdepth (openBlock p k))%nat.
Proof.
  intros [s f] Hk. split; [split; [apply L2Kind2.st3_openBlock, s|apply F_openBlock; [exact f|right; exact Hk]]|].
  apply cdepth_openBlock. destruct (L2Kind2.st3_cases p s) as [Ee|[Ee|Ee]]; rewrite Ee; reflexivity.
Qed.
Ltac setters := intros x; destruct x; split; reflexivity.

Lemma ckind_openBlock3 p K : L2Kind2.st3 p -> ckind (openBlock p K) K.
Proof.
  intros Hs. unfold openBlock.
  replace ((state p =? stDescending) || (state p =? stDescendTerminated)) with false
    by (destruct (L2Kind2.st3_cases p Hs) as [Ee|[Ee|Ee]]; rewrite Ee; reflexivity).
  cbv zeta. intros b Hb. unfold cdepth, updCont in Hb. cbn [root container withCont withRoot setLP] in Hb.
  match type of Hb with getAt (S ?d) (updAt (cdepth ?q) _ _) = _ => change (cdepth q) with d in Hb end.
  apply getAt_S_append in Hb. subst b. reflexivity.
Qed.

Definition startOKE (f : lp -> lp) : Prop := forall p, E p -> E (f p).
Lemma blockStarts_okE : Forall startOKE blockStarts.
Proof.
  unfold blockStarts.
  apply Forall_cons.
  { intros p H. unfold startBlockQuote. cbv zeta. destruct (_ <=? _); [exact H|]. destruct (negb _); [exact H|].
    destruct (E_openBlock (consumeIndent p (indent p)) BlockQuoteKind (E_consumeIndent _ _ H) ltac:(discriminate)) as [H2 _].
    pose proof (E_advance _ 1 H2) as H3. destruct (0 <? _); [apply E_consumeIndent, H3|exact H3]. }
  apply Forall_cons.
  { intros p H. unfold startATX. cbv zeta. destruct (_ <=? _); [exact H|].
    destruct (parseATXHeading _) as [[level cs] ce]. destruct (level <? 1); [exact H|].
    destruct (E_openBlock (consumeIndent p (indent p)) ATXHeadingKind (E_consumeIndent _ _ H) ltac:(discriminate)) as [H2 D2].
    apply E_endBlock.
    - apply E_consumeLine, E_collectInline, E_advance, E_setters; [exact H2|setters].
    - rewrite cd_consumeLine, cdepth_collectInline, cd_advance, cdepth_updCont. exact D2. }
  apply Forall_cons.
  { intros p H. unfold startFenced. cbv zeta. destruct (_ <=? _); [exact H|].
    destruct (parseCodeFence _) as [[[fc fnn] is_] ie]. destruct (fnn =? 0); [exact H|].
    destruct (E_openBlock (consumeIndent p (indent p)) FencedCodeBlockKind (E_consumeIndent _ _ H) ltac:(discriminate)) as [H2 _].
    assert (H4 : E (updCont (updCont (openBlock (consumeIndent p (indent p)) FencedCodeBlockKind) (fun b => set_bn (set_bchar b fc) fnn))
                      (fun b => set_bindent b (indent p)))).
    { apply E_setters; [apply E_setters; [exact H2|setters]|setters]. }
    apply E_consumeLine. destruct (spanValid _); [apply E_collectInline, E_advance, H4|exact H4]. }
  apply Forall_cons.
  { intros p H. unfold startHTML. cbv zeta. destruct (_ <=? _); [exact H|]. destruct (negb _); [exact H|].
    destruct (_ <? 0); [exact H|]. destruct (negb _ && _); [exact H|].
    destruct (E_openBlock p HTMLBlockKind H ltac:(discriminate)) as [H2 D2].
    match goal with |- E (if ?c then _ else _) => destruct c end.
    - apply E_endBlock.
      + apply E_consumeLine, E_collectInline, E_setters; [exact H2|setters].
      + rewrite cd_consumeLine, cdepth_collectInline, cdepth_updCont. exact D2.
    - apply E_setters; [exact H2|setters]. }
  apply Forall_cons.
  { intros p H. unfold startSetext. cbv zeta. destruct (negb (containerKind p =? ParagraphKind)) eqn:Ek; [exact H|].
    do 3 (match goal with |- E (if ?c then _ else _) => destruct c end; [exact H|]).
    apply negb_false_iff, Z.eqb_eq in Ek. destruct H as [s [a b]].
    assert (Hd : (1 <= cdepth p)%nat).
    { destruct (cdepth p) eqn:Ed; [|lia]. exfalso. rewrite (containerKind_root p Ed) in Ek. destruct a as (A & _). rewrite A in Ek. discriminate. }
    apply E_endBlock; [|rewrite cd_consumeLine, cdepth_updCont; exact Hd].
    apply E_consumeLine. split; [exact s|]. split; [|exact b].
    apply ccP_updCont_compat; [exact a| |].
    - intros x Hx Hc. pose proof (ckind_self p x Hx) as Ex. rewrite Ek in Ex.
      apply cc_parts in Hc. destruct Hc as [C1 _]. rewrite Ex in C1.
      assert (Ekids : bkids x = []) by (apply forallb_false_nil; exact C1).
      destruct x as [K s0 e bk ik a0 n c l lb]. cbn [bkids bkind] in *. subst bk K. split; [reflexivity|]. right. split; discriminate.
    - intros E0. exfalso. lia. }
  apply Forall_cons.
  { intros p H. unfold startThematic. cbv zeta. destruct (_ <=? _); [exact H|]. destruct (_ <? 0); [exact H|].
    destruct (E_openBlock (consumeIndent p (indent p)) ThematicBreakKind (E_consumeIndent _ _ H) ltac:(discriminate)) as [H2 D2].
    apply E_endBlock; [apply E_consumeLine, E_advance, H2|rewrite cd_consumeLine, cd_advance; exact D2]. }
  apply Forall_cons.
  { intros p H. unfold startListItem. cbv zeta. destruct (_ <=? _); [exact H|].
    destruct (parseListMarker _) as [[delim n] mend]. destruct (_ || _); [exact H|]. destruct (_ && _); [exact H|].
    set (p1 := consumeIndent p (indent p)). assert (H1 : E p1) by (apply E_consumeIndent, H).
    set (cdelim := if (containerKind p1 =? ListKind) || (containerKind p1 =? ListItemKind) then bchar (contBlock p1) else 0).
    set (p2 := if negb (containerKind p1 =? ListKind) || negb (cdelim =? delim) then _ else p1).
    assert (H2 : E p2 /\ containerKind p2 = ListKind).
    { unfold p2. destruct (negb (containerKind p1 =? ListKind) || negb (cdelim =? delim)) eqn:Ec.
      - destruct (E_openBlock p1 ListKind H1 ltac:(discriminate)) as [Ho _].
        assert (Hq : E (updCont (openBlock p1 ListKind) (fun b => set_bchar b delim))) by (apply E_setters; [exact Ho|setters]).
        split; [exact Hq|]. apply containerKind_of; [apply Hq|].
        apply ckind_updCont; [intros b; apply bkind_set_bchar|]. apply ckind_openBlock3. apply H1.
      - apply orb_false_iff in Ec. destruct Ec as [Ec _]. apply negb_false_iff, Z.eqb_eq in Ec. tauto. }
    destruct H2 as [H2 K2].
    destruct (E_openBlock' p2 ListItemKind H2 ltac:(rewrite K2; reflexivity)) as [H3 D3].
    assert (H3' : E (updCont (openBlock p2 ListItemKind) (fun b => set_bchar b delim))) by (apply E_setters; [exact H3|setters]).
    destruct (E_openBlock _ ListMarkerKind H3' ltac:(discriminate)) as [H4 D4].
    match goal with |- context [endBlock ?X] => assert (Hq : E (endBlock X)) end.
    { apply E_endBlock; [apply E_advance, H4|rewrite cd_advance; exact D4]. }
    match goal with |- context [endBlock ?X] => set (q := endBlock X) in * end.
    destruct (isRestBlank q); [apply E_consumeLine, E_setters; [exact Hq|setters]|].
    destruct (indent q <? 1); [apply E_setters; [exact Hq|setters]|].
    destruct (4 <? indent q); apply E_setters; try (apply E_consumeIndent, Hq); setters. }
  apply Forall_cons.
  { intros p H. unfold startIndented. destruct (_ || _ || _); [exact H|].
    apply (E_openBlock (consumeIndent p codeBlockIndentLimit) IndentedCodeBlockKind); [apply E_consumeIndent, H|discriminate]. }
  apply Forall_nil.
Qed.

Lemma F_tryStarts : forall fs p, Forall startOKE fs -> F p -> F (snd (tryStarts fs p)).
Proof.
  induction fs as [|f r IH]; intros p Hfs H; [exact H|]. cbn [tryStarts]. cbv zeta. inversion Hfs as [|? ? Hf Hr]; subst.
  assert (H1 : E (f (withState p stOpening))) by (apply Hf; split; [left; left; reflexivity|exact H]).
  destruct (_ || _); [apply H1|]. apply IH; [assumption|apply H1].
Qed.
Lemma F_opening_loop : forall fuel p, F p -> F (snd (opening_loop fuel p)).
Proof.
  induction fuel as [|f IH]; intros p H; [exact H|]. cbn [opening_loop].
  destruct (_ || _); [|exact H].
  pose proof (F_tryStarts blockStarts p blockStarts_okE H) as H1. destruct (tryStarts blockStarts p) as [[|] p1]; cbn [snd] in H1.
  - destruct (_ =? stLineConsumed); [exact H1|apply IH; exact H1].
  - exact H1.
Qed.
Lemma F_deferredClose p : F p -> F (deferredClose p).
Proof. intros [a b]. split; [apply ccP_deferredClose, a|]. unfold deferredClose. cbv zeta. destruct (_ && _); exact b. Qed.
Lemma F_openNewBlocks p am : F p -> F (snd (openNewBlocks p am)).
Proof.
  intros H. split; [apply ccP_openNewBlocks, H|]. unfold openNewBlocks. destruct (_ =? 0); [apply H|].
  pose proof (F_opening_loop (S (length (line p))) p H) as H1. destruct (opening_loop _ p) as [ht p1]. cbn [snd] in H1.
  destruct am; cbn [snd]; [apply H1|apply (F_deferredClose p1 H1)].
Qed.
Lemma F_addLineText p : F p -> F (addLineText p).
Proof.
  intros [a b]. split; [apply ccP_addLineText, a|]. unfold addLineText. cbv zeta.
  set (p1 := if isRestBlank p then _ else p).
  assert (H1 : F p1).
  { unfold p1. destruct (isRestBlank p); [|split; assumption]. apply F_updCont; [split; assumption|].
    intros x _ Hx. destruct (lastBlock x) as [c|] eqn:El; [|tauto]. split; [|apply bkind_set_lastBlocks].
    eapply cc_set_lastBlocks; [exact Hx|exact El|]. constructor; [|constructor].
    rewrite cc_set_blast, bkind_set_blast. split; [eapply cc_lastBlock; eassumption|apply compat_refl]. }
  set (p2 := withRoot p1 _).
  assert (H2 : F p2).
  { split; [|exact (proj2 H1)]. destruct H1 as ((A & B & C) & _). unfold p2, ccP, wf, cdepth. cbn [root container withRoot setLP]. fold (cdepth p1).
    match goal with |- context [setLastBlankUpTo ?d ?v ?r] => destruct (cc_setLastBlankUpTo v d r (cdepth p1) B C) as (A' & B' & C') end.
    split; [rewrite B'; exact A|split; [exact A'|exact C']]. }
  assert (Hgo : forall q, P47 q ->
    P47 (let k := containerKind q in
         let inlineKind := if isCode k then TextKind else if k =? HTMLBlockKind then RawHTMLKind else UnparsedKind in
         let q' := updCont q (fun b => set_bik b (bik b ++ [mkI inlineKind (lineStart q + li q) (lineStart q + len (line q))])) in
         if isCode k && negb (hasByteSuffixEOL (line q')) then
           updCont q' (fun b => set_bik b (bik b ++ [mkI SoftLineBreakKind (lineStart q' + len (line q')) (lineStart q' + len (line q'))]))
         else q')).
  { intros q Hq. cbv zeta. match goal with |- P47 (if ?c then _ else _) => destruct c end; exact Hq. }
  match goal with |- P47 (if ?c then _ else _) => destruct c end.
  - apply Hgo. match goal with |- P47 (if ?c then _ else _) => destruct c end; [|apply H2]. apply P_consumeIndent. apply H2.
  - match goal with |- P47 (if ?c then _ else _) => destruct c end; [|apply H2]. apply Hgo. apply P_consumeIndent.
    apply (F_openBlock p2 ParagraphKind H2). left. discriminate.
Qed.

Theorem processLine_no47 st children ls src : ccF children = true ->
  let pn := snd (processLine st children ls src) in pn <> 4 /\ pn <> 7.
Proof.
  intros Hc. unfold processLine. cbv zeta.
  assert (H0 : F (resetLP st children ls src)).
  { split; [|split; cbn; discriminate]. unfold ccP, wf, resetLP, cdepth. cbn [root container]. split; [reflexivity|split; [exact Hc|eexists; reflexivity]]. }
  pose proof (F_descend_loop (bheight (root (resetLP st children ls src))) _ O H0 ltac:(eexists; reflexivity)) as H1.
  fold (descendOpenBlocks (resetLP st children ls src)) in H1.
  destruct (descendOpenBlocks _) as [am p1]. cbn [snd] in H1.
  assert (H2 : F (snd (if negb (state p1 =? stDescendTerminated) then openNewBlocks p1 am else (false, p1)))).
  { destruct (negb _); [apply F_openNewBlocks; exact H1|exact H1]. }
  destruct (if negb (state p1 =? stDescendTerminated) then openNewBlocks p1 am else (false, p1)) as [ht p2]. cbn [snd] in H2.
  assert (H3 : F (if ht then addLineText p2 else p2)) by (destruct ht; [apply F_addLineText|]; exact H2).
  cbn [snd]. apply H3.
Qed.
Print Assumptions processLine_no47.
