From Coq Require Import List ZArith Lia Bool.
Import ListNotations.
Require Import Base Tree Inl3a Props PEProof GI0 GI1 GI2 GI3 ShapesBase IS0 IS2.
Open Scope Z_scope.

(* ================================================================== *)
(* IS1: the per-node predicate carried through the inline parser.      *)
(* A node of a "construct" kind (emphasis, strong, code span, link,    *)
(* image, autolink, HTML tag, character reference, hard line break)    *)
(* has a valid span whose text has the shape of the construct, and its *)
(* identity is neither on the delimiter stack nor still to be          *)
(* allocated (so no update by identity ever touches it).               *)
(* ================================================================== *)

Definition isC (k : Z) : bool :=
  (k =? EmphasisKind) || (k =? StrongKind) || (k =? CodeSpanKind) || (k =? LinkKind) || (k =? ImageKind) ||
  (k =? AutolinkKind) || (k =? HTMLTagKind) || (k =? CharacterReferenceKind) || (k =? HardLineBreakKind).

Lemma shapeInline_nonC t k : isC k = false -> shapeInline t k = true.
Proof.
  unfold isC. intros H. repeat (apply orb_false_iff in H; destruct H as [H ?]).
  unfold shapeInline. cbv zeta.
  repeat match goal with E : (k =? _) = false |- _ => rewrite E; clear E end. reflexivity.
Qed.

(* the checkers on finished trees: constructs only / spans only; together they are Props.shapesI *)
Fixpoint shapesC (src : bytes) (i : inline) : bool :=
  match i with Inl k s e _ _ ks => (if isC k then nOK src k s e else true) && forallb (shapesC src) ks end.
Fixpoint validI (src : bytes) (i : inline) : bool :=
  match i with Inl k s e _ _ ks => span_valid (len src) s e && forallb (validI src) ks end.
Lemma shapesI_split src : forall i, shapesI src i = shapesC src i && validI src i.
Proof.
  fix IH 1. intros [k s e ind rf ks]. cbn [shapesI shapesC validI].
  assert (Hk : forallb (shapesI src) ks = forallb (shapesC src) ks && forallb (validI src) ks).
  { induction ks as [|x l IHl]; [reflexivity|]. cbn [forallb]. rewrite (IH x), IHl.
    destruct (shapesC src x), (validI src x), (forallb (shapesC src) l), (forallb (validI src) l); reflexivity. }
  rewrite Hk. unfold nOK. destruct (isC k) eqn:Ec.
  - destruct (span_valid (len src) s e), (shapeInline (sub src s e) k), (forallb (shapesC src) ks), (forallb (validI src) ks); reflexivity.
  - rewrite (shapeInline_nonC _ _ Ec). destruct (span_valid (len src) s e), (forallb (shapesC src) ks), (forallb (validI src) ks); reflexivity.
Qed.

Section Pred.
  Variable src : bytes.

  Fixpoint cok (ids : list Z) (b : Z) (n : pn) : bool :=
    match n with PN id k s e _ _ ks =>
      (if isC k then nOK src k s e && (0 <=? id) && (id <? b) && negb (memZ id ids) else true) &&
      forallb (cok ids b) ks
    end.
  Definition cokF ids b (l : list pn) : bool := forallb (cok ids b) l.

  Lemma cok_eq ids b n : cok ids b n =
    (if isC (pkind n) then nOK src (pkind n) (ps n) (pe n) && (0 <=? pid n) && (pid n <? b) && negb (memZ (pid n) ids) else true) &&
    cokF ids b (pkids n).
  Proof. destruct n; reflexivity. Qed.
  Lemma cokF_app ids b l1 l2 : cokF ids b (l1 ++ l2) = cokF ids b l1 && cokF ids b l2.
  Proof. apply forallb_app. Qed.
  Lemma cokF_cons ids b n l : cokF ids b (n :: l) = cok ids b n && cokF ids b l. Proof. reflexivity. Qed.

  Lemma cok_mono ids ids' b b' : (forall x, memZ x ids' = true -> memZ x ids = true) -> b <= b' ->
    forall n, cok ids b n = true -> cok ids' b' n = true.
  Proof.
    intros Hids Hb. fix IH 1. intros [id k s e ind r ks] H. cbn [cok] in *.
    apply andb_true_iff in H. destruct H as [H Hk]. apply andb_true_iff. split.
    - destruct (isC k); [|reflexivity].
      apply andb_true_iff in H. destruct H as [H H4]. apply andb_true_iff in H. destruct H as [H H3].
      apply andb_true_iff in H. destruct H as [H1 H2]. rewrite H1, H2. cbn [andb].
      apply Z.ltb_lt in H3. replace (id <? b') with true by (symmetry; apply Z.ltb_lt; lia). cbn [andb].
      apply negb_true_iff in H4. apply negb_true_iff. destruct (memZ id ids') eqn:E; [|reflexivity].
      rewrite (Hids _ E) in H4. discriminate.
    - induction ks as [|x l IHl]; [reflexivity|]. cbn [forallb] in *. apply andb_true_iff in Hk. destruct Hk as [Hx Hl].
      rewrite (IH x Hx). apply IHl. exact Hl.
  Qed.
  Lemma cokF_mono ids ids' b b' l : (forall x, memZ x ids' = true -> memZ x ids = true) -> b <= b' ->
    cokF ids b l = true -> cokF ids' b' l = true.
  Proof.
    unfold cokF. intros Hi Hb H. rewrite forallb_forall in *. intros x Hx. eapply cok_mono; [exact Hi|exact Hb|]. apply H, Hx.
  Qed.

  (* zero-identity subtrees (link parts, children of leaf constructs): their constructs need only the shape *)
  Fixpoint zok (n : pn) : bool :=
    match n with PN id k s e _ _ ks => (id =? 0) && (if isC k then nOK src k s e else true) && forallb zok ks end.
  Lemma zok_cok ids b : 1 <= b -> memZ 0 ids = false -> forall n, zok n = true -> cok ids b n = true.
  Proof.
    intros Hb H0. fix IH 1. intros [id k s e ind r ks] H. cbn [cok zok] in *.
    apply andb_true_iff in H. destruct H as [H Hk]. apply andb_true_iff in H. destruct H as [Hid H]. apply Z.eqb_eq in Hid. subst id.
    apply andb_true_iff. split.
    - destruct (isC k); [|reflexivity]. rewrite H, H0. replace (0 <? b) with true by (symmetry; apply Z.ltb_lt; lia). reflexivity.
    - induction ks as [|x l IHl]; [reflexivity|]. cbn [forallb] in *. apply andb_true_iff in Hk. destruct Hk as [Hx Hl].
      rewrite (IH x Hx). apply IHl. exact Hl.
  Qed.
  Lemma zokF_cokF ids b l : 1 <= b -> memZ 0 ids = false -> forallb zok l = true -> cokF ids b l = true.
  Proof. intros Hb H0 H. unfold cokF. rewrite forallb_forall in *. intros x Hx. apply zok_cok; [exact Hb|exact H0|apply H, Hx]. Qed.
  Lemma zok_zid : forall n, zok n = true -> zid n = true.
  Proof.
    fix IH 1. intros [id k s e ind r ks] H. cbn [zok zid] in *.
    apply andb_true_iff in H. destruct H as [H Hk]. apply andb_true_iff in H. destruct H as [Hid _]. rewrite Hid. cbn [andb].
    induction ks as [|x l IHl]; [reflexivity|]. cbn [forallb] in *. apply andb_true_iff in Hk. destruct Hk as [Hx Hl].
    rewrite (IH x Hx). apply IHl. exact Hl.
  Qed.

  (* the final form *)
  Lemma cok_shapesC ids b : forall n, cok ids b n = true -> shapesC src (toInline n) = true.
  Proof.
    fix IH 1. intros [id k s e ind r ks] H. cbn [cok toInline shapesC] in *.
    apply andb_true_iff in H. destruct H as [H Hk]. apply andb_true_iff. split.
    - destruct (isC k); [|reflexivity].
      apply andb_true_iff in H. destruct H as [H _]. apply andb_true_iff in H. destruct H as [H _].
      apply andb_true_iff in H. destruct H as [H _]. exact H.
    - induction ks as [|x l IHl]; [reflexivity|]. cbn [forallb map] in *. apply andb_true_iff in Hk. destruct Hk as [Hx Hl].
      rewrite (IH x Hx). apply IHl. exact Hl.
  Qed.

  (* ---- forest operations ---- *)
  Lemma cokF_filter ids b p l : cokF ids b l = true -> cokF ids b (filter p l) = true.
  Proof. unfold cokF. intros H. rewrite forallb_forall in *. intros x Hx. apply filter_In in Hx. apply H. tauto. Qed.

  Lemma removeId_cok ids b id : forall fuel l, cokF ids b l = true -> cokF ids b (removeId fuel id l) = true.
  Proof.
    induction fuel as [|f IH]; intros l H; [assumption|]. cbn [removeId].
    destruct (hasId id l); [apply cokF_filter; assumption|].
    unfold cokF in *. rewrite forallb_forall in *. intros x Hx. apply in_map_iff in Hx. destruct Hx as (n & <- & Hn).
    specialize (H n Hn). destruct n as [i k s e ind r ks]. cbn [setKids cok pkids] in *.
    apply andb_true_iff in H. destruct H as [H Hk]. rewrite H. cbn [andb]. apply IH. exact Hk.
  Qed.

  (* an update by identity never touches a construct when that identity is on the stack, negative, or not yet allocated *)
  Lemma updNode_cok ids b id g :
    (memZ id ids = true \/ id < 0 \/ b <= id) ->
    (forall n, isC (pkind n) = false -> cok ids b n = true -> cok ids b (g n) = true) ->
    forall fuel l, cokF ids b l = true -> cokF ids b (updNode fuel id g l) = true.
  Proof.
    intros Hid Hg. induction fuel as [|f IH]; intros l H; [assumption|]. cbn [updNode].
    unfold cokF in *. rewrite forallb_forall in *. intros x Hx. apply in_map_iff in Hx. destruct Hx as (n & <- & Hn).
    specialize (H n Hn). destruct (Z.eqb_spec (pid n) id) as [Ep|Ep].
    - apply Hg; [|exact H]. destruct n as [i k s e ind r ks]. cbn [pkind pid cok] in *.
      destruct (isC k); [|reflexivity]. exfalso.
      apply andb_true_iff in H. destruct H as [H _].
      apply andb_true_iff in H. destruct H as [H H4]. apply andb_true_iff in H. destruct H as [H H3].
      apply andb_true_iff in H. destruct H as [H1 H2]. apply Z.leb_le in H2. apply Z.ltb_lt in H3. apply negb_true_iff in H4.
      subst i. destruct Hid as [Hm|[Hm|Hm]]; [congruence|lia|lia].
    - destruct n as [i k s e ind r ks]. cbn [setKids cok pkids] in *.
      apply andb_true_iff in H. destruct H as [H Hk]. rewrite H. cbn [andb]. apply IH. exact Hk.
  Qed.

  (* wrapping with a given end: the new node starts where a node with the start identity ends *)
  Lemma wrapLevel_cok ids b newId kind startId endId e parentEnd l :
    hasId startId l = true ->
    (forall n, In n l -> pid n = startId -> nOK src kind (pe n) e = true) ->
    0 <= newId < b -> memZ newId ids = false ->
    cokF ids b l = true -> cokF ids b (wrapLevel newId kind startId endId (Some e) parentEnd l) = true.
  Proof.
    intros Hh Hs Hn Hm H. unfold wrapLevel.
    apply hasId_In in Hh. destruct (splitAtId startId l) as [pre post] eqn:E1.
    destruct (splitAtId_spec startId l pre post E1 Hh) as (A & n & Epre & Epid & _ & El).
    pose proof (sBefore_app endId post) as E2. destruct (splitBeforeId endId post) as [mid rest].
    subst l post pre. rewrite !cokF_app in H. apply andb_true_iff in H. destruct H as [HA H].
    rewrite cokF_cons in H. apply andb_true_iff in H. destruct H as [Hnn H]. rewrite cokF_app in H. apply andb_true_iff in H. destruct H as [Hmid Hrest].
    rewrite rev_app_distr. cbn [rev app].
    rewrite !cokF_app, HA. cbn [andb]. rewrite !cokF_cons, Hnn, Hrest. cbn [cokF forallb andb]. rewrite !andb_true_r.
    cbn [cok]. fold (cokF ids b mid). rewrite Hmid, andb_true_r. destruct (isC kind); [|reflexivity].
    rewrite (Hs n) by (try exact Epid; apply in_or_app; right; left; reflexivity). rewrite Hm.
    replace (0 <=? newId) with true by (symmetry; apply Z.leb_le; lia).
    replace (newId <? b) with true by (symmetry; apply Z.ltb_lt; lia). reflexivity.
  Qed.
  Lemma wrapIn_cok ids b newId kind startId endId e :
    0 <= newId < b -> memZ newId ids = false ->
    forall fuel parentEnd l,
    (forall q, In q (occF startId l) -> nOK src kind (sgE q) e = true) ->
    cokF ids b l = true -> cokF ids b (wrapIn fuel newId kind startId endId (Some e) parentEnd l) = true.
  Proof.
    intros Hn Hm. induction fuel as [|f IH]; intros parentEnd l Hs H; [assumption|]. cbn [wrapIn].
    destruct (hasId startId l) eqn:Eh.
    - apply wrapLevel_cok; try assumption. intros n Hin Hp. apply (Hs (sig n)).
      unfold occF. apply in_flat_map. exists n. split; [exact Hin|]. rewrite occS_eq, Hp, Z.eqb_refl. left. reflexivity.
    - unfold cokF in *. rewrite forallb_forall in *. intros x Hx. apply in_map_iff in Hx. destruct Hx as (n & <- & Hin).
      specialize (H n Hin). rewrite cok_eq in *. rewrite pkind_setKids, pid_setKids, pkids_setKids.
      replace (ps (setKids n (wrapIn f newId kind startId endId (Some e) (pe n) (pkids n)))) with (ps n) by (destruct n; reflexivity).
      replace (pe (setKids n (wrapIn f newId kind startId endId (Some e) (pe n) (pkids n)))) with (pe n) by (destruct n; reflexivity).
      apply andb_true_iff in H. destruct H as [H Hk]. rewrite H. cbn [andb]. apply IH; [|exact Hk].
      intros q Hq. apply Hs. unfold occF. apply in_flat_map. exists n. split; [exact Hin|]. rewrite occS_eq. apply in_or_app. right. exact Hq.
  Qed.

  (* updates used by the parser *)
  Lemma good_setSpan ids b s e n : isC (pkind n) = false -> cok ids b n = true -> cok ids b (setSpan n (s n) (e n)) = true.
  Proof. destruct n as [i k s0 e0 ind r ks]. cbn [pkind setSpan cok]. intros ->. tauto. Qed.
  Lemma cok_push ids b id : (id < 0 \/ b <= id) -> forall n, cok ids b n = true -> cok (ids ++ [id]) b n = true.
  Proof.
    intros Hid. fix IH 1. intros [i k s e ind r ks] H. cbn [cok] in *.
    apply andb_true_iff in H. destruct H as [H Hk]. apply andb_true_iff. split.
    - destruct (isC k); [|reflexivity].
      apply andb_true_iff in H. destruct H as [H H4]. apply andb_true_iff in H. destruct H as [H H3].
      apply andb_true_iff in H. destruct H as [H1 H2]. rewrite H1, H2, H3. cbn [andb].
      apply Z.leb_le in H2. apply Z.ltb_lt in H3. unfold memZ in *. rewrite existsb_app. cbn [existsb].
      apply negb_true_iff in H4. rewrite H4. cbn [orb]. rewrite orb_false_r.
      apply negb_true_iff. apply Z.eqb_neq. lia.
    - induction ks as [|x l IHl]; [reflexivity|]. cbn [forallb] in *. apply andb_true_iff in Hk. destruct Hk as [Hx Hl].
      rewrite (IH x Hx). apply IHl. exact Hl.
  Qed.
End Pred.

(* ================================================================== *)
(* span validity of every node (the other conjunct of Props.shapesI)   *)
(* ================================================================== *)
Section Valid.
  Variable src : bytes.
  Fixpoint vok (n : pn) : bool := match n with PN _ _ s e _ _ ks => span_valid (len src) s e && forallb vok ks end.
  Definition vokF (l : list pn) : bool := forallb vok l.
  Lemma vok_eq n : vok n = span_valid (len src) (ps n) (pe n) && vokF (pkids n). Proof. destruct n; reflexivity. Qed.
  Lemma vokF_app a b : vokF (a ++ b) = vokF a && vokF b. Proof. apply forallb_app. Qed.
  Lemma vokF_cons n l : vokF (n :: l) = vok n && vokF l. Proof. reflexivity. Qed.

  Lemma vok_validI : forall n, vok n = true -> validI src (toInline n) = true.
  Proof.
    fix IH 1. intros [id k s e ind r ks] H. cbn [vok toInline validI] in *. apply andb_true_iff in H. destruct H as [H Hk]. rewrite H. cbn [andb].
    induction ks as [|x l IHl]; [reflexivity|]. cbn [forallb map] in *. apply andb_true_iff in Hk. destruct Hk as [Hx Hl]. rewrite (IH x Hx). apply IHl, Hl.
  Qed.
  Lemma validI_vok : forall i, validI src i = true -> vok (ofInline i) = true.
  Proof.
    fix IH 1. intros [k s e ind r ks] H. cbn [vok ofInline validI] in *. apply andb_true_iff in H. destruct H as [H Hk]. rewrite H. cbn [andb].
    induction ks as [|x l IHl]; [reflexivity|]. cbn [forallb map] in *. apply andb_true_iff in Hk. destruct Hk as [Hx Hl]. rewrite (IH x Hx). apply IHl, Hl.
  Qed.

  Lemma removeId_vok id : forall fuel l, vokF l = true -> vokF (removeId fuel id l) = true.
  Proof.
    induction fuel as [|f IH]; intros l H; [assumption|]. cbn [removeId]. destruct (hasId id l).
    - unfold vokF in *. rewrite forallb_forall in *. intros x Hx. apply filter_In in Hx. apply H. tauto.
    - unfold vokF in *. rewrite forallb_forall in *. intros x Hx. apply in_map_iff in Hx. destruct Hx as (n & <- & Hn).
      specialize (H n Hn). destruct n as [i k s e ind r ks]. cbn [setKids vok pkids] in *.
      apply andb_true_iff in H. destruct H as [H Hk]. rewrite H. cbn [andb]. apply IH. exact Hk.
  Qed.

  (* a span update of the nodes with a given identity: valid when the new span of every occurrence is *)
  Lemma updNode_vok_span id (f1 f2 : Z -> Z -> Z) : forall fuel l,
    (forall q, In q (occF id l) -> span_valid (len src) (f1 (sgS q) (sgE q)) (f2 (sgS q) (sgE q)) = true) ->
    vokF l = true -> vokF (updNode fuel id (fun n => setSpan n (f1 (ps n) (pe n)) (f2 (ps n) (pe n))) l) = true.
  Proof.
    induction fuel as [|f IH]; intros l Hq H; [assumption|]. cbn [updNode].
    unfold vokF in *. rewrite forallb_forall in *. intros x Hx. apply in_map_iff in Hx. destruct Hx as (n & <- & Hn).
    specialize (H n Hn). assert (Hsub : forall q, In q (occS id n) -> In q (occF id l)).
    { intros q Hq'. unfold occF. apply in_flat_map. exists n. split; assumption. }
    destruct (Z.eqb_spec (pid n) id) as [Ep|Ep].
    - destruct n as [i k s e ind r ks]. cbn [setSpan vok ps pe] in *. apply andb_true_iff in H. destruct H as [_ Hk]. rewrite Hk, andb_true_r.
      apply (Hq (k, s, e, nilb ks)). apply Hsub. cbn [occS pid] in *. subst i. rewrite Z.eqb_refl. left. reflexivity.
    - destruct n as [i k s e ind r ks]. cbn [setKids vok pkids] in *. apply andb_true_iff in H. destruct H as [H Hk]. rewrite H. cbn [andb].
      apply IH; [|exact Hk]. intros q Hq'. apply Hq, Hsub. cbn [occS]. apply in_or_app. right. exact Hq'.
  Qed.
  (* an update that keeps the span and only adds valid children / changes the reference *)
  Lemma updNode_vok id g : (forall n, vok n = true -> vok (g n) = true) -> forall fuel l, vokF l = true -> vokF (updNode fuel id g l) = true.
  Proof.
    intros Hg. induction fuel as [|f IH]; intros l H; [assumption|]. cbn [updNode].
    unfold vokF in *. rewrite forallb_forall in *. intros x Hx. apply in_map_iff in Hx. destruct Hx as (n & <- & Hn).
    specialize (H n Hn). destruct (pid n =? id); [apply Hg, H|].
    destruct n as [i k s e ind r ks]. cbn [setKids vok pkids] in *. apply andb_true_iff in H. destruct H as [H Hk]. rewrite H. cbn [andb]. apply IH, Hk.
  Qed.

  Lemma wrapLevel_vok newId kind startId endId e parentEnd l : hasId startId l = true ->
    (forall n, In n l -> pid n = startId -> span_valid (len src) (pe n) e = true) ->
    vokF l = true -> vokF (wrapLevel newId kind startId endId (Some e) parentEnd l) = true.
  Proof.
    intros Hh Hs H. unfold wrapLevel.
    apply hasId_In in Hh. destruct (splitAtId startId l) as [pre post] eqn:E1.
    destruct (splitAtId_spec startId l pre post E1 Hh) as (A & n & Epre & Epid & _ & El).
    pose proof (sBefore_app endId post) as E2. destruct (splitBeforeId endId post) as [mid rest].
    subst l post pre. rewrite !vokF_app in H. apply andb_true_iff in H. destruct H as [HA H].
    rewrite vokF_cons in H. apply andb_true_iff in H. destruct H as [Hnn H]. rewrite vokF_app in H. apply andb_true_iff in H. destruct H as [Hmid Hrest].
    rewrite rev_app_distr. cbn [rev app].
    rewrite !vokF_app, HA. cbn [andb]. rewrite !vokF_cons, Hnn, Hrest. cbn [vokF forallb andb]. rewrite !andb_true_r.
    cbn [vok]. fold (vokF mid). rewrite Hmid, andb_true_r. apply (Hs n); [apply in_or_app; right; left; reflexivity|exact Epid].
  Qed.
  Lemma wrapIn_vok newId kind startId endId e : forall fuel parentEnd l,
    (forall q, In q (occF startId l) -> span_valid (len src) (sgE q) e = true) ->
    vokF l = true -> vokF (wrapIn fuel newId kind startId endId (Some e) parentEnd l) = true.
  Proof.
    induction fuel as [|f IH]; intros parentEnd l Hs H; [assumption|]. cbn [wrapIn].
    destruct (hasId startId l) eqn:Eh.
    - apply wrapLevel_vok; try assumption. intros n Hin Hp. apply (Hs (sig n)).
      unfold occF. apply in_flat_map. exists n. split; [exact Hin|]. rewrite occS_eq, Hp, Z.eqb_refl. left. reflexivity.
    - unfold vokF in *. rewrite forallb_forall in *. intros x Hx. apply in_map_iff in Hx. destruct Hx as (n & <- & Hin).
      specialize (H n Hin). destruct n as [i k s e0 ind r ks]. cbn [setKids vok pkids pe] in *.
      apply andb_true_iff in H. destruct H as [H Hk]. rewrite H. cbn [andb]. apply IH; [|exact Hk].
      intros q Hq. apply Hs. unfold occF. apply in_flat_map. exists (PN i k s e0 ind r ks). split; [exact Hin|]. cbn [occS]. apply in_or_app. right. exact Hq.
  Qed.
End Valid.
