From Coq Require Import List ZArith Lia Bool.
Import ListNotations.
Require Import Base Tree Rdr Link Collect Html Recog LP Rules Starts Driver L2Kind2 Inl3e QuoteSimDefs QPure1 QPure2.
Open Scope Z_scope.

(* T64-pure: in a document without tab, a block that has an Unparsed entry (a paragraph, an ATX or setext heading) has
   ONLY Unparsed entries, and no other block has an Unparsed entry.

   Route: the invariant QPure1.pv (text containers hold only Unparsed entries, every other block holds none) carried
   through the whole block layer, one lemma per model function (QPure1.v, QPure2.v, strengthening L2Kind2.v):
     - collectInline adds an Indent entry only when Indent () > 0; in startATX the content start is not a space/tab
       (atx_start, with the cursor invariant NoPanic12.G), so the ATX heading only gets its Unparsed entry;
     - the tab branch of addLineText (the only other place where an Indent entry can enter a text container) needs
       the byte 9 on the line;
     - the line of a processLine call is a suffix of a prefix of a suffix of the padded input: no tab.
   The hypothesis "no tab" is necessary: parseBlocks_pure_general_refuted.  CR and NUL are harmless. *)

(* ---- the stream layer ---- *)
Lemma upto_sub {A} (l : list A) n x : In x (upto l n) -> In x l.
Proof. unfold upto. revert l. induction (Z.to_nat n) as [|k IH]; intros l H; [destruct H|]. destruct l; [exact H|]. destruct H as [H|H]; [left; exact H|right; apply IH, H]. Qed.
Lemma noTab_from l n : noTab l -> noTab (from_ l n). Proof. intros H Hin. apply H. eapply from_sub. exact Hin. Qed.
Lemma noTab_upto l n : noTab l -> noTab (upto l n). Proof. intros H Hin. apply H. eapply upto_sub. exact Hin. Qed.
Lemma noTab_pad l : noTab l -> noTab (pad l).
Proof.
  intros H Hin. unfold pad in Hin. apply in_flat_map in Hin. destruct Hin as (b & Hb & Hin).
  destruct (b =? 0).
  - cbn in Hin. destruct Hin as [E|[E|[E|[]]]]; discriminate.
  - cbn in Hin. destruct Hin as [E|[]]. subst b. exact (H Hb).
Qed.

Lemma pvL_shift n l : pvL (map (shiftB n) l) = pvL l.
Proof.
  assert (Hb : forall b, pv (shiftB n b) = pv b).
  { fix IH 1. intros [k s e bk ik a nn c l0 lb]. cbn [shiftB pv]. f_equal.
    - induction ik as [|x r IHr]; [reflexivity|]. cbn [map forallb]. rewrite tk_shift, IHr. reflexivity.
    - induction bk as [|x r IHr]; [reflexivity|]. cbn [map forallb]. rewrite (IH x), IHr. reflexivity. }
  unfold pvL. induction l as [|x r IH]; [reflexivity|]. cbn [map forallb]. rewrite Hb, IH. reflexivity.
Qed.

Lemma pv_makeRoot children s r s' : noTab (buf s) -> pvL children = true -> makeRoot children s = Some (r, s') ->
  pv (rb_blk r) = true /\ pvL (pending s') = true /\ noTab (buf s').
Proof.
  intros Hn H Hm. unfold makeRoot in Hm. destruct children as [|b rest]; [discriminate|].
  destruct (isOpen b); [discriminate|]. inversion Hm; subst. cbn [rb_blk pending buf].
  cbn [pvL forallb] in H. apply andb_true_iff in H. destruct H as [Hb Hr]. split; [assumption|].
  split; [rewrite pvL_shift; assumption|apply noTab_from, Hn].
Qed.
Definition nb_okp (x : nb) : Prop :=
  match x with NBBlock r s' => pv (rb_blk r) = true /\ pvL (pending s') = true /\ noTab (buf s') | _ => True end.
Lemma pv_lineLoop : forall fuel st children ls s, noTab (buf s) -> pvL children = true -> pvL (pending s) = true ->
  nb_okp (lineLoop fuel st children ls s).
Proof.
  induction fuel as [|f IH]; intros st children ls s Hn Hc Hp; [exact I|]. cbn [lineLoop].
  pose proof (pv_processLine st children ls (upto (buf s) (bi s)) (noTab_upto _ _ Hn) Hc) as H1.
  destruct (processLine st children ls (upto (buf s) (bi s))) as [[children' st'] pn]. cbn [fst] in H1.
  destruct (negb (pn =? 0)); [exact I|].
  destruct (makeRoot children' s) as [[r s']|] eqn:Em.
  - cbn [nb_okp]. eapply pv_makeRoot; eassumption.
  - apply IH; assumption.
Qed.
Lemma pv_skipLoop : forall fuel s, noTab (buf s) -> pvL (pending s) = true -> nb_okp (skipLoop fuel s).
Proof.
  induction fuel as [|f IH]; intros s Hn Hp; [exact I|]. cbn [skipLoop]. cbv zeta.
  destruct (negb _); [exact I|]. destruct (isBlankLine _); [apply IH; [apply noTab_from, Hn|assumption]|].
  apply pv_lineLoop; [exact Hn|reflexivity|assumption].
Qed.
Lemma pv_nextBlock fuel s : noTab (buf s) -> pvL (pending s) = true -> nb_okp (nextBlock fuel s).
Proof.
  intros Hn Hp. unfold nextBlock. destruct (makeRoot (pending s) s) as [[r s']|] eqn:Em.
  - cbn [nb_okp]. eapply pv_makeRoot; eassumption.
  - destruct (pending s) eqn:Ep; [apply pv_skipLoop; [apply noTab_from, Hn|reflexivity]|].
    rewrite <- Ep in Hp |- *. apply pv_lineLoop; [exact Hn|exact Hp|cbn [pending]; exact Hp].
Qed.
Lemma pv_allBlocks : forall fuel s acc, noTab (buf s) -> pvL (pending s) = true -> Forall (fun r => pv (rb_blk r) = true) acc ->
  Forall (fun r => pv (rb_blk r) = true) (fst (allBlocks fuel s acc)).
Proof.
  induction fuel as [|f IH]; intros s acc Hn Hp Ha; [exact Ha|]. cbn [allBlocks].
  pose proof (pv_nextBlock (3 + length (buf s)) s Hn Hp) as Hnb.
  destruct (nextBlock _ s) as [r s'| | |]; try exact Ha.
  destruct Hnb as (Hr & Hp' & Hn'). apply IH; [assumption|assumption|]. apply Forall_app. split; [assumption|]. constructor; [assumption|constructor].
Qed.

(* the invariant for every root block, for every input without tab *)
Theorem parseBlocks_pv D : noTab D -> Forall (fun r => pv (rb_blk r) = true) (fst (parseBlocks D)).
Proof. intros Hn. unfold parseBlocks. apply pv_allBlocks; [cbn [buf]; apply noTab_pad, Hn|reflexivity|constructor]. Qed.
Print Assumptions parseBlocks_pv.

(* ---- the statement asked for ---- *)
Fixpoint pureB (b : block) : bool :=
  (negb (hasUnparsed b) || forallb (fun u => ikind u =? UnparsedKind) (bik b)) && forallb pureB (bkids b).

Lemma pureB_eq b : pureB b = (negb (hasUnparsed b) || forallb (fun u => ikind u =? UnparsedKind) (bik b)) && forallb pureB (bkids b).
Proof. destruct b; reflexivity. Qed.
Lemma none_unparsed ik : forallb (fun u => negb (ikind u =? UnparsedKind)) ik = true -> existsb (fun i => ikind i =? UnparsedKind) ik = false.
Proof.
  induction ik as [|x r IH]; [reflexivity|]. cbn [forallb existsb]. intros H. apply andb_true_iff in H. destruct H as [Hx Hr].
  apply negb_true_iff in Hx. rewrite Hx, (IH Hr). reflexivity.
Qed.
Lemma pv_pure : forall b, pv b = true -> pureB b = true.
Proof.
  fix IH 1. intros [K s e bk ik a n c l lb] H. rewrite pureB_eq. cbn [pv] in H. apply andb_true_iff in H. destruct H as [Hi Hk].
  unfold hasUnparsed. cbn [bik bkids]. apply andb_true_iff. split.
  - unfold tk in Hi. destruct (isTextK K).
    + rewrite Hi. apply orb_true_r.
    + rewrite (none_unparsed ik Hi). reflexivity.
  - clear Hi. induction bk as [|x r IHr]; [reflexivity|]. cbn [forallb] in Hk |- *. apply andb_true_iff in Hk. destruct Hk as [Hx Hr].
    rewrite (IH x Hx), (IHr Hr). reflexivity.
Qed.

Lemma tabFree_noTab D : tabFree D -> noTab D.
Proof. intros H Hin. unfold tabFree in H. rewrite Forall_forall in H. destruct (H 9 Hin) as [N _]. apply N. reflexivity. Qed.

(* MAIN THEOREM, under the weaker hypothesis "no tab byte" (CR and NUL allowed) *)
Theorem parseBlocks_pure_noTab : forall D, noTab D -> Forall (fun r => pureB (rb_blk r) = true) (fst (parseBlocks D)).
Proof. intros D Hn. eapply Forall_impl; [|apply parseBlocks_pv, Hn]. intros r. apply pv_pure. Qed.
Print Assumptions parseBlocks_pure_noTab.

(* MAIN THEOREM, as asked *)
Theorem parseBlocks_pure : forall D, tabFree D -> Forall (fun r => pureB (rb_blk r) = true) (fst (parseBlocks D)).
Proof. intros D H. apply parseBlocks_pure_noTab, tabFree_noTab, H. Qed.
Print Assumptions parseBlocks_pure.

(* ---- the per-kind version: every block of the trees ---- *)
Inductive inB (x : block) : block -> Prop :=
| inB_here : inB x x
| inB_kid b c : In c (bkids b) -> inB x c -> inB x b.

Lemma pv_inB x : forall b, inB x b -> pv b = true -> pv x = true.
Proof.
  intros b Hin. induction Hin as [|b c Hc Hin IH]; intros H; [exact H|]. apply IH.
  apply pv_parts in H. destruct H as [_ H]. unfold pvL in H. rewrite forallb_forall in H. apply H, Hc.
Qed.

(* every paragraph / setext heading / ATX heading block, at any depth, has only Unparsed entries;
   every block of another kind, at any depth, has no Unparsed entry *)
Theorem parseBlocks_text_entries : forall D, noTab D -> forall r x, In r (fst (parseBlocks D)) -> inB x (rb_blk r) ->
  ((bkind x = ParagraphKind \/ bkind x = SetextHeadingKind \/ bkind x = ATXHeadingKind) ->
     Forall (fun u => ikind u = UnparsedKind) (bik x)) /\
  (~ (bkind x = ParagraphKind \/ bkind x = SetextHeadingKind \/ bkind x = ATXHeadingKind) ->
     Forall (fun u => ikind u <> UnparsedKind) (bik x)).
Proof.
  intros D Hn r x Hr Hx. pose proof (parseBlocks_pv D Hn) as H. rewrite Forall_forall in H.
  pose proof (pv_inB x _ Hx (H r Hr)) as Hp. apply pv_parts in Hp. destruct Hp as [Hi _].
  rewrite forallb_forall in Hi. split; intros Hk; apply Forall_forall; intros u Hu; specialize (Hi u Hu); unfold tk in Hi.
  - replace (isTextK (bkind x)) with true in Hi; [apply Z.eqb_eq, Hi|].
    unfold isTextK. destruct Hk as [->|[->| ->]]; reflexivity.
  - replace (isTextK (bkind x)) with false in Hi; [apply negb_true_iff, Z.eqb_neq in Hi; exact Hi|].
    unfold isTextK. symmetry. apply orb_false_iff. split; [apply orb_false_iff; split|]; apply Z.eqb_neq; tauto.
Qed.
Print Assumptions parseBlocks_text_entries.

(* ---- the general version (no hypothesis on the input) is false ---- *)
Definition parseBlocks_pure_general_statement : Prop :=
  forall D, Forall (fun r => pureB (rb_blk r) = true) (fst (parseBlocks D)).
(* "- a\n \tb": the continuation line " \tb" of the paragraph in the list item (content indent 2) consumes the space and
   one column of the tab; addLineText records the partially consumed tab as an Indent entry of the paragraph:
   entries [Unparsed 2 4; Indent 5 6 (2 columns); Unparsed 6 7]. *)
Theorem parseBlocks_pure_general_refuted : ~ parseBlocks_pure_general_statement.
Proof.
  intros H. specialize (H [45; 32; 97; 10; 32; 9; 98]). revert H. vm_compute. intros H. inversion H as [|? ? Hf _]. discriminate Hf.
Qed.
Print Assumptions parseBlocks_pure_general_refuted.
