From Coq Require Import List ZArith Lia Bool.
Import ListNotations.
Require Import Base Tree Rdr Link Collect Html Recog LP Rules Starts Driver Rec17 Rec18 L2Kind L2CC BSDef BSRdr BSTree BSOrph BSClose BSLine1 BSLine2 BSLine3
  BSLine7 LADef LA1 LAInfo LA2 LA3 LA4.
Open Scope Z_scope.

(* ===== updating the container in place, adding entries, endBlock (mirrors BSLine3) ===== *)

Lemma LB_updCont M p f : LB M p -> keeps f ->
  (forall x, getAt (cdepth p) (root p) = Some x -> la (source p) M x -> la (source p) M (f x)) -> LB M (updCont p f).
Proof.
  intros (A & St & B & C & D) Hk Hf. split; [exact A|]. split; [exact St|]. split; [|split].
  - cbn [root source updCont withRoot setLP]. apply (la_updAt_at (source p) M f (cdepth p) (root p) B). intros x Ex Sx.
    destruct (Hk x) as (K1 & K2 & _). split; [apply Hf; assumption|split; assumption].
  - change (updCont p f) with (withCont (withRoot p (updAt (cdepth p) f (root p))) (container p)).
    intros j y Hj Ey. cbn [root withCont withRoot setLP] in Ey.
    assert (Hj' : (j <= cdepth p)%nat) by exact Hj.
    destruct (getAt_updAt_low f ltac:(intros x; apply Hk) (cdepth p) j (root p) y Hj' Ey) as (x & E0 & Eb & _).
    rewrite Eb. apply (C j x Hj' E0).
  - apply ccP_updCont; [exact D|]. intros x _ Cx. destruct (Hk x) as (_ & _ & K3 & K4). split; [|exact K4].
    rewrite (cc_ext (f x) x K3 K4). exact Cx.
Qed.
Lemma LC1_updCont p f : keeps f -> LC1 p -> LC1 (updCont p f).
Proof.
  intros Hk H c Ec. change (cdepth (updCont p f)) with (cdepth p) in Ec. rewrite getAt_below_updCont in Ec by exact Hk.
  change (source (updCont p f)) with (source p). change (lineStart (updCont p f)) with (lineStart p). apply H, Ec.
Qed.
Lemma LOP_updCont p f : LOP p -> keeps f ->
  (forall x, getAt (cdepth p) (root p) = Some x -> la (source p) (Mc p) x -> la (source p) (Mc p) (f x)) -> LOP (updCont p f).
Proof. intros [A B] Hk Hf. split; [apply (LB_updCont (Mc p)); assumption|apply LC1_updCont; assumption]. Qed.
Lemma LOP_field p f : LOP p -> keeps f -> (forall src M x, la src M x -> la src M (f x)) -> LOP (updCont p f).
Proof. intros H Hk Hf. apply LOP_updCont; [exact H|exact Hk|]. intros x _. apply Hf. Qed.
Lemma LLI_updCont_field p f : keeps f -> (forall src M x, la src M x -> la src M (f x)) -> LLI p -> LLI (updCont p f).
Proof.
  intros Hk Hf H y Ey. change (cdepth (updCont p f)) with (cdepth p) in Ey. cbn [root source updCont withRoot setLP lineStart] in *.
  rewrite getAt_updAt_same in Ey. destruct (getAt (cdepth p) (root p)) as [x|] eqn:Ex; [|discriminate]. cbn in Ey. inversion Ey; subst y.
  destruct (Hk x) as (_ & _ & _ & K4). rewrite K4. destruct (H x Ex) as [S0|W0]; [left; apply Hf, S0|right; exact W0].
Qed.

(* ---- adding one entry [s, e) to the open leaf container ---- *)
Lemma bik_set_bik b v : bik (set_bik b v) = v. Proof. destruct b; reflexivity. Qed.
Lemma leafK_not_cont k : isLeafK k = true -> isContK k = false.
Proof. unfold isContK. intros ->. reflexivity. Qed.
Lemma la_add_ik src M M' x u : la src M x -> bend x < 0 -> isLeafK (bkind x) = true -> bkids x = [] ->
  M <= istart u -> NT src M (istart u) -> istart u <= iend u -> iend u <= M' -> NT src (iend u) M' -> eok src (bkind x) u ->
  (isParaK (bkind x) = true -> ikind u <> IndentKind) ->
  la src M' (set_bik x (bik x ++ [u])).
Proof.
  intros H Ox Kx Hn A B C D E F Hni. rewrite la_eq in H. destruct H as (H1 & H2 & H3 & H4 & H5).
  rewrite la_eq, bstart_set_bik, bend_set_bik, bk_set_bik, bkind_set_bik.
  split; [lia|]. split; [left; exact Ox|]. split; [exact H3|]. split; [|rewrite Hn; exact I].
  rewrite body_leaf in H4 by exact Kx. rewrite body_leaf by (rewrite bkind_set_bik; exact Kx).
  unfold hiOf in *. rewrite bend_set_bik, bstart_set_bik, bkind_set_bik, bik_set_bik.
  destruct (Z.ltb_spec (bend x) 0); [|lia]. destruct H4 as (T1 & T2 & T3). split; [|split].
  - rewrite map_app. cbn [map ispan]. eapply tileS_snoc; eassumption.
  - apply Forall_app. split; [exact T2|constructor; [exact F|constructor]].
  - intros Ep. apply indOK_snoc; [apply T3, Ep|apply Hni, Ep].
Qed.
(* an Indent entry together with the text entry that follows it *)
Lemma la_add_ik2 src M M' x u v : la src M x -> bend x < 0 -> isLeafK (bkind x) = true -> bkids x = [] ->
  M <= istart u -> NT src M (istart u) -> istart u <= iend u -> iend u = istart v -> istart v <= iend v -> iend v <= M' -> NT src (iend v) M' ->
  eok src (bkind x) u -> eok src (bkind x) v -> ikind v <> IndentKind ->
  la src M' (set_bik x (bik x ++ [u; v])).
Proof.
  intros H Ox Kx Hn A B C D1 D2 D E F G Hni. rewrite la_eq in H. destruct H as (H1 & H2 & H3 & H4 & H5).
  pose proof (tileS_le src (bstart x) M (map ispan (bik x))) as Hle.
  rewrite la_eq, bstart_set_bik, bend_set_bik, bk_set_bik, bkind_set_bik.
  rewrite body_leaf in H4 by exact Kx. rewrite body_leaf by (rewrite bkind_set_bik; exact Kx).
  unfold hiOf in *. rewrite bend_set_bik, bstart_set_bik, bkind_set_bik, bik_set_bik.
  destruct (Z.ltb_spec (bend x) 0); [|lia]. destruct H4 as (T1 & T2 & T3). specialize (Hle T1).
  split; [lia|]. split; [left; exact Ox|]. split; [exact H3|]. split; [|rewrite Hn; exact I].
  split; [|split].
  - change [u; v] with ([u] ++ [v]). rewrite app_assoc, !map_app. cbn [map ispan].
    eapply tileS_snoc; [eapply (tileS_snoc src (bstart x) M (iend u)); [exact T1|exact A|exact B|exact C|lia|apply NT_empty; lia]|lia|apply NT_empty; lia|exact D2|exact D|exact E].
  - apply Forall_app. split; [exact T2|constructor; [exact F|constructor; [exact G|constructor]]].
  - intros Ep. apply indOK_snoc2; [apply T3, Ep|exact Hni].
Qed.

Lemma LB_add_entry M M' p u K : LB M p -> ckind p K -> isLeafK K = true ->
  M <= istart u -> NT (source p) M (istart u) -> istart u <= iend u -> iend u <= M' -> NT (source p) (iend u) M' -> eok (source p) K u ->
  (isParaK K = true -> ikind u <> IndentKind) ->
  LB M' (updCont p (fun b => set_bik b (bik b ++ [u]))).
Proof.
  intros (A & St & B & C & D) HK Hl H1 H2 H3 H4 H5 H6 H7. split; [exact A|]. split; [exact St|]. split; [|split].
  - cbn [root source updCont withRoot setLP].
    apply (la_updAt_at2 (source p) M M' _ ltac:(lia) (cdepth p) (root p) ltac:(apply D) B ltac:(apply D)).
    + intros j y Hj Ey. apply (C j y Hj Ey).
    + intros x Ex Sx. split; [|split; [apply bstart_set_bik|apply bend_set_bik]].
      pose proof (HK x Ex) as Kx. apply (la_add_ik (source p) M M'); try assumption.
      * apply (C (cdepth p) x); [lia|exact Ex].
      * rewrite Kx. exact Hl.
      * apply leaf_no_kids; [eapply cc_getAt; [apply D|exact Ex]|rewrite Kx; apply leafK_not_cont, Hl].
      * rewrite Kx. exact H6.
      * rewrite Kx. exact H7.
  - intros j y Hj Ey. cbn [root updCont withRoot setLP] in Ey. assert (Hj' : (j <= cdepth p)%nat) by exact Hj.
    destruct (getAt_updAt_low _ ltac:(intros x; apply bend_set_bik) (cdepth p) j (root p) y Hj' Ey) as (x & E0 & Eb & _).
    rewrite Eb. apply (C j x Hj' E0).
  - apply (ccP_updCont_ik p (fun b => bik b ++ [u])). exact D.
Qed.

(* ---- collectInline ---- *)
Lemma indentLength_spec : forall l i, 0 <= i < indentLength l -> isSpTab (at_ l i) = true.
Proof.
  induction l as [|c r IH]; intros i Hi; cbn [indentLength] in Hi; [lia|].
  destruct (isSpTab c) eqn:Ec; [|lia]. destruct (Z.eq_dec i 0) as [->|N]; [exact Ec|].
  replace i with ((i - 1) + 1) by lia. rewrite at_consS by lia. apply IH. lia.
Qed.
Lemma isSpTab_nt c : isSpTab c = true -> tx c = false.
Proof. unfold isSpTab. intros H. apply orb_true_iff in H. destruct H as [H|H]; apply Z.eqb_eq in H; subst c; reflexivity. Qed.
Lemma indentLength_nonneg l : 0 <= indentLength l.
Proof. induction l as [|c r IH]; cbn [indentLength]; [lia|]. destruct (isSpTab c); lia. Qed.
Lemma rest_at p i : curP p -> 0 <= i -> at_ (rest p) i = at_ (line p) (li p + i).
Proof. intros (_ & A) Hi. unfold rest. apply at_from; lia. Qed.
Lemma NTl_indent p : curP p -> NTl p (li p) (li p + indentLength (rest p)).
Proof.
  intros C i Hi. replace i with (li p + (i - li p)) by lia. rewrite <- rest_at by (try assumption; lia).
  apply isSpTab_nt, indentLength_spec. lia.
Qed.

Lemma ckind_cstep' p p' K : cstep p p' -> ckind p K -> ckind p' K.
Proof. intros (H & _ & _). apply ckind_same, H. Qed.

(* advance, then add an entry that covers exactly the bytes moved over *)
Lemma LOP_adv_add p m K (mk : Z -> Z -> inline) : LOP p -> ckind p K -> isLeafK K = true ->
  (forall s e, istart (mk s e) = s /\ iend (mk s e) = e) ->
  (forall s e, s <= e -> isParaK K = false /\ (ikind (mk s e) = IndentKind -> NT (source p) s e) -> eok (source p) K (mk s e)) ->
  (ikind (mk 0 0) = IndentKind -> NTl p (li p) (li p + m)) ->
  (forall s e s' e', ikind (mk s e) = ikind (mk s' e')) -> isParaK K = false ->
  let q := advance p m in
  LOP (updCont q (fun b => set_bik b (bik b ++ [mk (lineStart p + li p) (lineStart q + li q)]))) /\
  ckind (updCont q (fun b => set_bik b (bik b ++ [mk (lineStart p + li p) (lineStart q + li q)]))) K.
Proof.
  intros [HB H1] HK Hl Hmk Heok Hind Hkk Hnp q.
  pose proof (cstep_advance p m) as Hc. fold q in Hc. pose proof HB as (A & St & _).
  destruct (cstep_Mc p q Hc A) as (Aq & Hm & E1 & E2). pose proof Hc as (_ & (_ & _ & E3) & _).
  assert (HBq : LB (Mc p) q) by (eapply LB_cstep; [exact Hc|exact HB|lia|apply NT_empty; lia]).
  assert (HKq : ckind q K) by (eapply ckind_cstep'; eassumption).
  set (u := mk (lineStart p + li p) (lineStart q + li q)). destruct (Hmk (lineStart p + li p) (lineStart q + li q)) as [U1 U2]. fold u in U1, U2.
  split; [split|].
  - change (LB (Mc q) (updCont q (fun b => set_bik b (bik b ++ [u])))).
    assert (Hni : isParaK K = true -> ikind u <> IndentKind) by (intros E; rewrite Hnp in E; discriminate E).
    apply (fun h1 h2 h3 h4 h5 h6 => LB_add_entry (Mc p) (Mc q) q u K HBq HKq Hl h1 h2 h3 h4 h5 h6 Hni); rewrite ?U1, ?U2; unfold Mc in *; try lia; try (apply NT_empty; lia).
    rewrite E3. apply Heok; [unfold Mc in *; lia|]. split; [exact Hnp|]. intros Hi. rewrite (Hkk _ _ 0 0) in Hi. specialize (Hind Hi).
    rewrite E1. apply NTl_NT; [exact A|exact St|apply A|]. intros i Hi'. apply Hind.
    destruct (li_advance_le p m A) as [_ [L|L]]; [fold q in L; lia|]. unfold q, advance in Hi'. destruct (Z.ltb_spec m 0); [cbn in Hi'|]; lia.
  - apply LC1_updCont; [apply keeps_bik|]. eapply LC1_cstep; eassumption.
  - apply ckind_updCont; [intros b; apply bkind_set_bik|exact HKq].
Qed.

Lemma LOP_collectInline p kind n K : LOP p -> ckind p K -> isLeafK K = true -> isParaK K = false -> kind <> IndentKind ->
  LOP (collectInline p kind n) /\ ckind (collectInline p kind n) K.
Proof.
  intros H Hc Hl Hnp Nk. unfold collectInline. destruct (_ =? stDescendTerminated); [split; [exact H|exact Hc]|]. cbv zeta.
  set (p0 := if state p =? stOpening then withState p stOpenMatched else p).
  assert (H0 : LOP p0 /\ ckind p0 K) by (split; [eapply LOP_ntstep; [apply ntstep_opened|exact H]|eapply ckind_cstep'; [apply cstep_opened|exact Hc]]).
  set (p1 := if 0 <? indent p0 then _ else p0).
  assert (H1 : LOP p1 /\ ckind p1 K).
  { unfold p1. destruct (0 <? indent p0); [|exact H0]. destruct H0 as [A B].
    apply (LOP_adv_add p0 (indentLength (rest p0)) K (fun s e => Inl IndentKind s e (indent p0) [] [])); try assumption.
    - intros s e. split; reflexivity.
    - intros s e Hse [_ Hn]. split; [intros _; apply Hn; reflexivity|split; [rewrite Hnp; discriminate|apply lvOK_kidless; [reflexivity|exact Hse]]].
    - intros _. apply NTl_indent. apply A.
    - reflexivity. }
  destruct H1 as [A B].
  assert (Hgen : forall mk : Z -> Z -> inline, (forall s e, istart (mk s e) = s /\ iend (mk s e) = e) -> (forall s e, ikind (mk s e) <> IndentKind) ->
            (forall s e s' e', ikind (mk s e) = ikind (mk s' e')) -> (forall s e, s <= e -> lvOK (mk s e)) ->
            let q := advance p1 n in
            LOP (updCont q (fun b => set_bik b (bik b ++ [mk (lineStart p1 + li p1) (lineStart q + li q)]))) /\
            ckind (updCont q (fun b => set_bik b (bik b ++ [mk (lineStart p1 + li p1) (lineStart q + li q)]))) K).
  { intros mk M1 M2 M3 M4. apply (LOP_adv_add p1 n K mk); try assumption.
    - intros s e Hse [_ _]. split; [intros Hi; destruct (M2 s e Hi)|split; [rewrite Hnp; discriminate|apply M4, Hse]].
    - intros Hi. destruct (M2 0 0 Hi). }
  destruct (Z.eqb_spec kind InfoStringKind) as [Ei|Ei].
  - apply (Hgen (fun s e => parseInfoString (source (advance p1 n)) s e)).
    + intros s e. unfold parseInfoString. destruct (infoString_loop _ _ _ _ _ _). split; reflexivity.
    + intros s e. unfold parseInfoString. destruct (infoString_loop _ _ _ _ _ _). cbn. discriminate.
    + intros s e s' e'. unfold parseInfoString. destruct (infoString_loop _ _ s _ _ _). destruct (infoString_loop _ _ s' _ _ _). reflexivity.
    + intros s e Hse. apply lvOK_info, Hse.
  - apply (Hgen (fun s e => mkI kind s e)).
    + intros s e. split; reflexivity.
    + intros s e. exact Nk.
    + reflexivity.
    + intros s e Hse. apply lvOK_kidless; [reflexivity|exact Hse].
Qed.

(* ---- endBlock ---- *)
Lemma LLI_root p : ccP p -> cdepth p = O -> LLI p.
Proof. intros (A & _) E x Ex. rewrite E in Ex. cbn in Ex. inversion Ex; subst x. right. left. exact A. Qed.

Definition wideC (p : lp) : Prop := forall z, getAt (cdepth p) (root p) = Some z -> wide (bkind z).
Lemma wideC_LLI p : wideC p -> LLI p. Proof. intros H z Ez. right. apply H, Ez. Qed.
Lemma wideC_kind p : ccP p -> wideC p -> wide (containerKind p).
Proof. intros (_ & _ & (x & Hx)) H. rewrite (containerKind_at p x Hx). apply H, Hx. Qed.
Lemma LOP_endBlock p K : LOP p -> nd p -> ckind p K -> bnd0 (source p) (Mc p) ->
  LOP (endBlock p) /\ (K <> ListItemKind -> wideC (endBlock p)).
Proof.
  intros H Hn Hc Hbd. unfold endBlock.
  replace ((state p =? stDescending) || (state p =? stDescendTerminated)) with false by (destruct Hn as [-> |[-> | ->]]; reflexivity).
  cbv zeta. set (p0 := if state p =? stOpening then withState p stOpenMatched else p).
  pose proof (ntstep_opened p) as Hn0. fold p0 in Hn0.
  assert (Hbd0 : bnd0 (source p0) (lineStart p0 + li p0)) by (unfold p0; destruct (_ =? _); exact Hbd).
  assert (H0 : LOP p0) by (eapply LOP_ntstep; eassumption). assert (C0 : ckind p0 K) by (eapply ckind_cstep'; [apply Hn0|exact Hc]).
  destruct (cdepth p0) as [|d] eqn:Ed.
  { split; [exact H0|]. intros _ z Ez. change (cdepth (panic p0 7)) with (cdepth p0) in Ez. change (root (panic p0 7)) with (root p0) in Ez.
    rewrite Ed in Ez. cbn in Ez. inversion Ez; subst z. left. apply H0. }
  destruct H0 as [HB0 H10]. pose proof HB0 as (A & St & B & C & D). pose proof (Mc_le p0 A St) as HM.
  destruct (wf_le p0 (S d) D ltac:(lia)) as (c & Ecx). destruct (wf_le p0 d D ltac:(lia)) as (y & Ey).
  assert (Kc : bkind c = K) by (apply C0; rewrite Ed; exact Ecx).
  assert (Hcl : forall x c', getAt d (root p0) = Some x -> lastBlock x = Some c' -> bend c' < 0 -> la (source p0) (lineStart p0 + li p0) c').
  { intros x c' Ex El _. eapply la_getAt; [exact B|]. rewrite getAt_S_last, Ex. exact El. }
  set (q := withCont (closeLastChildAt p0 d (lineStart p0 + li p0)) (Some d)).
  assert (HBq : LBP q).
  { change (LB (Mc p0) q). apply LB_closeAt; [exact HB0|unfold Mc in *; lia|unfold Mc in *; lia|exact Hbd0|lia|lia|exact Hcl]. }
  split; [split; [exact HBq|]|].
  - intros z Ez Oz. exfalso. unfold q, cdepth in Ez. cbn [container root withCont closeLastChildAt withRoot setLP] in Ez.
    fold (closeF p0 (lineStart p0 + li p0)) in Ez.
    pose proof (closeAt_last_closed (Mc p0) p0 d (lineStart p0 + li p0) z HB0 ltac:(unfold Mc in *; lia) ltac:(lia) Hbd0 ltac:(lia) Hcl Ez). lia.
  - intros N3 z Ez. unfold q, cdepth in Ez. cbn [container root withCont closeLastChildAt withRoot setLP] in Ez.
    fold (closeF p0 (lineStart p0 + li p0)) in Ez. rewrite getAt_closeAt, Ey in Ez. cbn in Ez. inversion Ez; subst z.
    rewrite closeF_kind. eapply wide_of_child; [eapply (cc_spine d (root p0) y c); [apply D|exact Ey|exact Ecx]|rewrite Kc; exact N3].
Qed.

(* the list marker: opened at M, the cursor advanced to M', closed at M' *)
Lemma closeBlock_marker f src c e : bend c < 0 -> bkind c = ListMarkerKind -> bkids c = [] -> closeBlock (S f) src c e = [set_bend c e].
Proof.
  intros Ho Hk Hn. cbn [closeBlock]. unfold isOpen. destruct (Z.ltb_spec (bend c) 0); [|lia]. cbn [negb]. cbv zeta.
  rewrite bkind_set_bend, Hk. cbn [Z.eqb Pos.eqb orb]. unfold lastBlock. rewrite bk_set_bend, Hn. reflexivity.
Qed.
Lemma LB_endBlock_marker M p : LB M p -> nd p -> ckind p ListMarkerKind -> M <= Mc p -> bnd0 (source p) (Mc p) ->
  (forall c, getAt (cdepth p) (root p) = Some c -> bstart c = M /\ bkids c = []) ->
  LBP (endBlock p) /\ LC1 (endBlock p) /\ wideC (endBlock p).
Proof.
  intros HB Hn Hc HMle Hbd Hc0. unfold endBlock.
  replace ((state p =? stDescending) || (state p =? stDescendTerminated)) with false by (destruct Hn as [-> |[-> | ->]]; reflexivity).
  cbv zeta. set (p0 := if state p =? stOpening then withState p stOpenMatched else p).
  assert (E0 : root p0 = root p /\ cdepth p0 = cdepth p /\ li p0 = li p /\ lineStart p0 = lineStart p /\ line p0 = line p /\ source p0 = source p)
    by (unfold p0; destruct (_ =? _); repeat split).
  destruct E0 as (E1 & E2 & E3 & E4 & E5 & E6).
  assert (HB0 : LB M p0) by (eapply LB_cstep; [apply cstep_opened|exact HB|lia|apply NT_empty; lia]).
  destruct (cdepth p0) as [|d] eqn:Ed.
  { exfalso. destruct HB0 as (_ & _ & _ & _ & (D1 & _ & (x & Dx))). rewrite Ed in Dx. cbn in Dx. inversion Dx; subst x.
    specialize (Hc (root p) ltac:(rewrite <- E2; reflexivity)). rewrite E1 in D1. rewrite D1 in Hc. discriminate. }
  pose proof HB0 as (A & St & B & C & D). pose proof (Mc_le p0 A St) as HM.
  destruct (wf_le p0 (S d) D ltac:(lia)) as (c & Ecx). destruct (wf_le p0 d D ltac:(lia)) as (y & Ey).
  assert (Ecx' : getAt (cdepth p) (root p) = Some c) by (rewrite <- E1, <- E2; exact Ecx).
  destruct (Hc0 c Ecx') as [Sc Nc]. pose proof (Hc c Ecx') as Kc.
  assert (Oc : bend c < 0) by (apply (C (S d) c); [lia|exact Ecx]).
  assert (Oy : bend y < 0) by (apply (C d y); [lia|exact Ey]).
  assert (Ly : lastBlock y = Some c) by (rewrite getAt_S_last, Ey in Ecx; exact Ecx).
  set (e := lineStart p0 + li p0). assert (Ee : e = Mc p) by (unfold e, Mc; rewrite E3, E4; reflexivity).
  assert (Hf : exists f, bheight (root p0) = S f) by (destruct (root p0); cbn [bheight]; eauto). destruct Hf as (f & Hf).
  assert (ECF : closeF p0 e y = set_lastBlocks y [set_bend c e]).
  { unfold closeF. rewrite Ly, Hf. rewrite closeBlock_marker by assumption. reflexivity. }
  assert (Ky : isContK (bkind y) = true) by (eapply canContain_cont, (cc_spine d (root p0) y c); [apply D|exact Ey|exact Ecx]).
  set (q := withCont (closeLastChildAt p0 d e) (Some d)).
  pose proof (la_bounds _ _ _ (la_getAt _ _ _ _ _ B Ecx)) as Bc.
  assert (Hcik : bik c = []).
  { pose proof (la_getAt _ _ _ _ _ B Ecx) as Lc0. rewrite la_eq in Lc0. destruct Lc0 as (_ & _ & _ & Lc0 & _). unfold body in Lc0. rewrite Kc in Lc0.
    change (isLeafK ListMarkerKind) with false in Lc0. change (ListMarkerKind =? ListMarkerKind) with true in Lc0. cbv iota in Lc0. apply Lc0. }
  assert (Lc' : la (source p0) e (set_bend c e)).
  { rewrite la_eq, bstart_set_bend, bend_set_bend, bkind_set_bend, bk_set_bend, Nc. split; [lia|]. split; [right; split; [lia|rewrite Ee, E6; exact Hbd]|]. split; [intros; lia|]. split; [|exact I].
    unfold body. rewrite bkind_set_bend, Kc. change (isLeafK ListMarkerKind) with false. change (ListMarkerKind =? ListMarkerKind) with true. cbv iota.
    rewrite bend_set_bend, bik_set_bend. split; [intros; lia|exact Hcik]. }
  assert (Hroot : la (source p0) e (updAt d (closeF p0 e) (root p0))).
  { apply (la_updAt_at2 (source p0) M e (closeF p0 e) ltac:(lia) d (root p0) ltac:(apply D) B ltac:(eauto)).
    - intros j z Hj Ez. apply (C j z); [lia|exact Ez].
    - intros x Ex Sx. rewrite Ey in Ex. inversion Ex; subst x. clear Ex. rewrite ECF.
      split; [|split; [apply bstart_set_lastBlocks|apply bend_set_lastBlocks]].
      pose proof (lastBlock_split y c Ly) as Es.
      pose proof Sx as Sx'. rewrite la_eq in Sx'. destruct Sx' as (P1 & P2 & P3 & P4 & P5).
      rewrite body_cont in P4 by exact Ky. destruct P4 as [P4 P4ik]. rewrite hiOf_open in P4 by exact Oy. rewrite Es in P4.
      replace (bend y <? 0) with true in P4 by (symmetry; apply Z.ltb_lt; exact Oy).
      destruct (tchain_split (source p0) _ _ _ _ [c] ltac:(discriminate) P4) as (mid & M1 & M2 & M3 & M4).
      cbn [tchain] in M2. destruct M2 as (Q1 & Q2 & _).
      unfold set_lastBlocks. rewrite la_eq, bstart_set_bkids, bend_set_bkids, bkind_set_bkids, bkids_set_bkids.
      split; [lia|]. split; [left; exact Oy|]. split; [exact P3|]. split.
      + rewrite body_set_bkids_cont by exact Ky. rewrite hiOf_open by exact Oy.
        replace (bend y <? 0) with true by (symmetry; apply Z.ltb_lt; exact Oy).
        split; [|exact P4ik]. apply M3. apply tchain_one; rewrite ?bstart_set_bend, ?bend_set_bend; try lia; try assumption. apply NT_empty. lia.
      + rewrite Es in P5. apply allQ_app in P5. destruct P5 as [P5 _]. apply allQ_app. split; [|split; [exact Lc'|exact I]].
        pose proof (cc_getAt d (root p0) y ltac:(apply D) Ey) as Cy. apply cc_parts in Cy. destruct Cy as [_ Cy]. rewrite Es, ccL_app in Cy.
        apply andb_true_iff in Cy. destruct Cy as [Cy _].
        apply (la_kids_closed_mono (source p0) M e); [lia|exact Cy|intros x Hx; apply M4, Hx|exact P5]. }
  assert (HBq : LBP q).
  { split; [exact A|]. split; [exact St|]. split; [|split].
    - unfold q. rewrite closeLastChildAt_eq. cbn [root source withCont withRoot setLP]. exact Hroot.
    - unfold q. rewrite closeLastChildAt_eq. apply spineOpen_upd; [intros x; apply closeF_bend|exact C|lia|lia].
    - apply ccP_closeAt; [exact D|lia|eauto]. }
  split; [exact HBq|split].
  - intros z Ez Oz. exfalso. unfold q, cdepth in Ez. cbn [container root withCont closeLastChildAt withRoot setLP] in Ez.
    fold (closeF p0 e) in Ez. rewrite getAt_S_updAt, Ey, ECF in Ez.
    rewrite (lastBlock_set_last y (set_bend c e) (lastBlock_nonnil y c Ly)) in Ez. inversion Ez; subst z. rewrite bend_set_bend in Oz. unfold e in Oz. destruct A. lia.
  - intros z Ez. unfold q, cdepth in Ez. cbn [container root withCont closeLastChildAt withRoot setLP] in Ez.
    fold (closeF p0 e) in Ez. rewrite getAt_closeAt, Ey in Ez. cbn in Ez. inversion Ez; subst z.
    rewrite closeF_kind. eapply wide_of_child; [eapply (cc_spine d (root p0) y c); [apply D|exact Ey|exact Ecx]|rewrite Kc; discriminate].
Qed.
