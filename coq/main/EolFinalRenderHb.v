From Coq Require Import List ZArith Lia Bool.
Import ListNotations.
Require Import Base Tables Utf8 Tree Recog Inl3b Driver Inl3e Render Props ComposeC02 EolFinalDefs EolFinalFullDefs.
Require Import EolFinalRenderBase EolFinalRenderI EolFinalRenderDoc EolFinalRenderSafe.
Require Uncond RefSliceFold.
Open Scope Z_scope.

(* ====================================================================================================
   C14, final-newline clause, renderer, part 5: the side condition of the literal safe-mode equality in terms of the
   INPUT: if the input does not end in two spaces, no root that reaches the end of the input has a source ending in two
   spaces (C01: rb_src r = replaceNul (sub input (rb_start r) (rb_end r))).
   ==================================================================================================== *)
Lemma replaceNul_app a b : replaceNul (a ++ b) = replaceNul a ++ replaceNul b.
Proof. induction a as [|x a IH]; [reflexivity|]. cbn [app replaceNul]. rewrite IH, app_assoc. reflexivity. Qed.

Ltac dz x := let p := fresh "p" in destruct x as [|p|p]; try reflexivity; do 6 (try (destruct p as [p|p|]; try reflexivity)).
Lemma hbTail_spec l : hbTail l = match rev l with x :: y :: _ => (x =? 32) && (y =? 32) | _ => false end.
Proof.
  unfold hbTail. destruct (rev l) as [|x [|y l2]]; [reflexivity|dz x|].
  dz x; dz y.
Qed.
Lemma hbTail_snoc2 a : hbTail (a ++ [32; 32]) = true.
Proof. rewrite hbTail_spec, rev_app_distr. reflexivity. Qed.
Lemma hbTail_inv l : hbTail l = true -> exists a, l = a ++ [32; 32].
Proof.
  rewrite hbTail_spec. intros H. destruct (rev l) as [|x [|y r]] eqn:Er; try discriminate.
  apply andb_true_iff in H. destruct H as [Hx Hy]. apply Z.eqb_eq in Hx, Hy. subst x y.
  exists (rev r). rewrite <- (rev_involutive l), Er. cbn [rev]. rewrite <- app_assoc. reflexivity.
Qed.
Lemma snoc_inj {A} (a b : list A) x y : a ++ [x] = b ++ [y] -> a = b /\ x = y.
Proof. intros H. apply app_inj_tail in H. exact H. Qed.
Lemma last_or_nil {A} (l : list A) : l = [] \/ exists l' a, l = l' ++ [a].
Proof. destruct l as [|x l]; [left; reflexivity|right]. destruct (@exists_last A (x :: l)) as (l' & a & E); [discriminate|]. exists l', a. exact E. Qed.

Lemma hbTail_replaceNul t : hbTail (replaceNul t) = true -> hbTail t = true.
Proof.
  intros H. destruct (hbTail_inv _ H) as (a & Ea).
  destruct (last_or_nil t) as [->|(t1 & c1 & ->)]; [destruct a; discriminate|].
  rewrite replaceNul_app in Ea. cbn [replaceNul] in Ea. rewrite app_nil_r in Ea.
  destruct (c1 =? 0) eqn:E1.
  { exfalso. change (a ++ [32; 32]) with (a ++ [32] ++ [32]) in Ea. change [239; 191; 189] with ([239; 191] ++ [189]) in Ea.
    rewrite !app_assoc in Ea. apply snoc_inj in Ea. destruct Ea as [_ Ea]. discriminate. }
  change (a ++ [32; 32]) with (a ++ [32] ++ [32]) in Ea. rewrite app_assoc in Ea. apply snoc_inj in Ea. destruct Ea as [Ea ->].
  destruct (last_or_nil t1) as [->|(t2 & c2 & ->)]; [destruct a; discriminate|].
  rewrite replaceNul_app in Ea. cbn [replaceNul] in Ea. rewrite app_nil_r in Ea.
  destruct (c2 =? 0) eqn:E2.
  { exfalso. change [239; 191; 189] with ([239; 191] ++ [189]) in Ea. rewrite app_assoc in Ea. apply snoc_inj in Ea. destruct Ea as [_ Ea]. discriminate. }
  apply snoc_inj in Ea. destruct Ea as [_ ->]. rewrite <- app_assoc. apply hbTail_snoc2.
Qed.

Lemma hbTail_app_r a b : hbTail b = true -> hbTail (a ++ b) = true.
Proof. intros H. destruct (hbTail_inv _ H) as (t & ->). rewrite app_assoc. apply hbTail_snoc2. Qed.

Lemma split_at (l : bytes) a : 0 <= a <= len l -> l = upto l a ++ sub l a (len l).
Proof.
  intros H. unfold upto, sub, from_, upto, len in *. rewrite (firstn_all2 (n := Z.to_nat (Z.of_nat (length l) - a))) by (rewrite skipn_length; lia).
  symmetry. apply firstn_skipn.
Qed.

Lemma tiles_last : forall rs input p r pre, 0 <= p -> tiles input p rs = true -> rev rs = r :: pre ->
  rb_src r = replaceNul (sub input (rb_start r) (rb_end r)) /\ 0 <= rb_start r /\ rb_start r <= rb_end r /\ rb_end r <= len input.
Proof.
  induction rs as [|x rest IH]; intros input p r pre Hp Ht Hr; [discriminate|]. cbn [tiles] in Ht. cbv zeta in Ht.
  rewrite !andb_true_iff in Ht. destruct Ht as (((((((T1 & T2) & T3) & _) & T5) & _) & _) & T8).
  apply Z.leb_le in T1, T2, T3.
  destruct (rev rest) as [|y q] eqn:Eq.
  - cbn [rev] in Hr. rewrite Eq in Hr. cbn [app] in Hr. inversion Hr; subst x.
    split; [apply RefSliceFold.bytes_eqb_eq, T5|lia].
  - cbn [rev] in Hr. rewrite Eq in Hr. cbn [app] in Hr. inversion Hr; subst y.
    apply (IH input (rb_end x) r q); [lia|exact T8|reflexivity].
Qed.

Lemma last_src_hb input : hbTail input = false -> forall r pre, rev (fst (parseFull input)) = r :: pre -> rb_end r = len input ->
  hbTail (rb_src r) = false.
Proof.
  intros Hh r pre Hr He. destruct (hbTail (rb_src r)) eqn:E; [exfalso|reflexivity].
  pose proof (Uncond.C01_tiling input) as HT. unfold chk_C01 in HT.
  unfold parseFull in Hr. destruct (parseBlocks input) as [roots code]. cbn [fst] in *.
  rewrite <- map_rev in Hr. destruct (rev roots) as [|r0 pre0] eqn:Er; [discriminate|]. cbn [map] in Hr. inversion Hr; subst r. clear Hr.
  cbn [rb_src rb_end] in *.
  destruct (tiles_last roots input 0 r0 pre0 ltac:(lia) HT Er) as (Es & A & B & C).
  rewrite Es, He in E. apply hbTail_replaceNul in E.
  rewrite (split_at input (rb_start r0) ltac:(lia)) in Hh. rewrite (hbTail_app_r _ _ E) in Hh. discriminate.
Qed.

Lemma renderRoots_fin_eq' c refs roots n : ignoreRaw c = true -> softBreak c = 0 ->
  (forall r pre, rev roots = r :: pre -> rb_end r = n -> hbTail (rb_src r) = false) ->
  (forall r, In r roots -> svB (rb_src r) (rb_blk r) = true) ->
  renderRoots c refs (finFullRoots n roots) = renderRoots c refs roots.
Proof.
  intros Hraw Hsb Hhb Hv. unfold finFullRoots. destruct (rev roots) as [|r pre] eqn:Er.
  { destruct roots; [reflexivity|]. apply (f_equal (@length rootB)) in Er. rewrite rev_length in Er. discriminate. }
  destruct (Z.eqb_spec (rb_end r) n) as [En|_]; [|reflexivity]. rewrite (rev_cons_inv' _ _ _ Er) in *.
  unfold renderRoots. rewrite !map_app. f_equal. cbn [map]. f_equal.
  unfold finFullRoot. cbn [rb_blk rb_src]. rewrite fin_bheight, (Hhb r pre eq_refl En). apply renderB_fin_eq; [exact Hraw|exact Hsb|].
  apply Hv. apply in_or_app. right. left. reflexivity.
Qed.

(* literal equality in safe mode, default soft breaks, for inputs that do not end in two spaces *)
Definition renderDoc_final_newline_safe_eq_statement : Prop :=
  forall c s, ignoreRaw c = true -> softBreak c = 0 -> s <> [] -> endsEol s = false -> lastByte s <> 62 -> hbTail s = false ->
    renderDoc c (s ++ [10]) = renderDoc c s.
Theorem renderDoc_final_newline_safe_eq_of : parseFull_final_newline_statement -> renderDoc_final_newline_safe_eq_statement.
Proof.
  intros H c s Hraw Hsb H1 H2 H3 Hhb. rewrite !renderDoc_eq, (H s H1 H2 H3). cbn [fst].
  pose proof (parseFull_valid s) as Hv. rewrite (defsOf_fin _ _ Hv). f_equal. apply renderRoots_fin_eq'; try assumption.
  apply last_src_hb, Hhb.
Qed.
