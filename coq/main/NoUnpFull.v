From Coq Require Import List ZArith Lia Bool.
Import ListNotations.
Require Import Base Tables Utf8 Tree Rdr Link Collect Html Recog Inl3a Inl3b Inl3c Inl3d Inl3e LP Rules Starts Driver NoUnp L2Kind2.
Open Scope Z_scope.

Lemma unparsed_block_copied K ik : forallb (ek K) ik = true -> existsb (fun i => ikind i =? UnparsedKind) ik = true ->
  Forall (fun u => ikind u = UnparsedKind \/ rfk (ofInline u) = true) ik.
Proof.
  intros H Hu.
  assert (HK : isCode K = false /\ (K =? LinkReferenceDefinitionKind) = false).
  { apply existsb_exists in Hu. destruct Hu as (u & Hin & Eu). rewrite forallb_forall in H. specialize (H u Hin).
    unfold ek in H. cbv zeta in H. rewrite Eu in H.
    apply andb_true_iff in H. destruct H as [H N2]. apply andb_true_iff in H. destruct H as [_ N1].
    apply negb_true_iff in N1, N2. tauto. }
  destruct HK as [Hc Hr].
  apply Forall_forall. intros u Hin. rewrite forallb_forall in H. specialize (H u Hin).
  destruct u as [k s e ind r ks]. unfold ek, kidless in H. cbn [ikind ikids iref] in H. cbv zeta in H. rewrite Hc, Hr in H.
  cbn [ikind ofInline rfk].
  destruct (Z.eqb_spec k UnparsedKind) as [->|N]; [left; reflexivity|]. right.
  destruct ((k =? TextKind) || (k =? SoftLineBreakKind)); [rewrite andb_false_r in H; discriminate|].
  destruct ((k =? RawHTMLKind) || (k =? IndentKind)).
  { destruct ks; [reflexivity|discriminate]. }
  destruct (k =? InfoStringKind); [apply Z.eqb_eq in H; subst K; discriminate|].
  rewrite andb_false_r in H. discriminate.
Qed.

Fixpoint noUnpAt (fuel : nat) (src : bytes) (m : list bytes) (b : block) : Prop :=
  match fuel with
  | O => True
  | S f =>
    if (0 <? len (bik b)) && hasUnparsed b then forallb nuI (parseInlines src m b) = true
    else Forall (noUnpAt f src m) (bkids b)
  end.

(* C05, "no unparsed node remains": for every input and matcher, every call of the inline parser that Rewrite makes
   returns inline trees without any Unparsed node *)
Theorem C05_noUnparsed input m fuel :
  Forall (fun r => noUnpAt fuel (rb_src r) m (rb_blk r)) (fst (parseBlocks input)).
Proof.
  pose proof (parseBlocks_kinds input) as H. rewrite Forall_forall in *. intros r Hr. specialize (H r Hr).
  generalize dependent (rb_blk r). generalize (rb_src r) as src. clear. intros src.
  induction fuel as [|f IH]; intros b H; [exact I|]. cbn [noUnpAt].
  apply inv_parts in H. destruct H as [Hi Hk].
  destruct ((0 <? len (bik b)) && hasUnparsed b) eqn:Ec.
  - apply andb_true_iff in Ec. destruct Ec as [_ Eu]. apply parseInlines_noUnparsed. eapply unparsed_block_copied; [exact Hi|exact Eu].
  - apply Forall_forall. intros c Hc. apply IH. unfold invL in Hk. rewrite forallb_forall in Hk. apply Hk, Hc.
Qed.
Print Assumptions C05_noUnparsed.
