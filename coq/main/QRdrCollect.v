(* QRdrCollect.v -- T58: transformLinkReferenceSpan and collectTextNodes on two related readers.
   The readers run over the whole entry list sp0 of the paragraph up to a position e; the last span of sp0 either reaches past e or
   ends at the end of sD, so when the reader is exhausted both sides see that the range is finished.
   transformLinkReferenceSpan gives the same bytes.  collectTextNodes gives the same nodes, except that a Text node which covers
   several lines of sD comes out split at the line ends on the sQ side, where the reader jumps at every line end (qK below). *)
From Coq Require Import List ZArith Lia Bool.
Import ListNotations.
Require Import Base Tree Rdr Link Collect ShapesBase ShapesR IFBase IFLink IFCollect LARpce LA2 LAR2 QuoteSimMap QCutsDef QCuts QRdrBase QRdrLink.
Open Scope Z_scope.

Section QC.
  Variables (sD sQ : bytes) (sg : Z -> Z).
  Hypothesis HS : SGood sD sQ sg.
  Variable sp0 : list inline.
  Hypothesis sp0_w : spW sD sp0 = true.
  Hypothesis sp0_g : Forall (gsp sD sg) sp0.
  Lemma sp0_unp : Forall (fun u => ikind u = UnparsedKind) sp0.
  Proof. eapply Forall_impl; [|exact sp0_g]. intros u (_ & _ & _ & _ & K & _). exact K. Qed.
  Variable e : Z.
  Hypothesis e_rng : 0 <= e <= len sD.
  Hypothesis e_last : forall pre l, sp0 = pre ++ [l] -> e < iend l \/ iend l = len sD.
  Notation RR := (QRdrBase.RR sD sQ sg sp0 true).
  Notation sgE := (QRdrBase.sgE sD sQ sg).
  Notation e' := (sgE e).

  Definition T (r r' : reader) : Prop := RR r r' /\ exists pre, sp0 = pre ++ r_spans r.

  Lemma T_RR r r' : T r r' -> RR r r'. Proof. intros [H _]. exact H. Qed.
  Lemma T_curNode r r' : T r r' -> fst (curNode r') = option_map (mvS sg) (fst (curNode r)) /\ T (snd (curNode r)) (snd (curNode r')).
  Proof.
    intros [H (pre & E)]. destruct (bRR_curNode sD sQ sg sp0 true HS r r' H) as [A B]. split; [exact A|]. split; [exact B|].
    destruct (curNode_cases r) as [E0|(p1 & n & rest & E1 & E0 & _)]; rewrite E0; cbn [snd withSpans r_spans].
    - exists sp0. rewrite app_nil_r. reflexivity.
    - exists (pre ++ p1). rewrite E, E1, app_assoc. reflexivity.
  Qed.
  Lemma T_current r r' : T r r' -> fst (current r') = fst (current r) /\ T (snd (current r)) (snd (current r')).
  Proof.
    intros HT. pose proof HT as [H (pre & E)]. destruct (bRR_current sD sQ sg sp0 true HS r r' H) as [A B]. split; [exact A|]. split; [exact B|].
    destruct (current_snd r) as [E0|E0]; rewrite E0; [exists pre; exact E|]. apply (T_curNode r r' HT).
  Qed.
  Lemma T_remaining r r' : T r r' -> fst (remainingNodeBytes r') = fst (remainingNodeBytes r) /\ T (snd (remainingNodeBytes r)) (snd (remainingNodeBytes r')).
  Proof.
    intros HT. pose proof HT as [H _]. destruct (bRR_remaining sD sQ sg sp0 true HS r r' H) as [A B]. split; [exact A|]. split; [exact B|].
    destruct (T_curNode r r' HT) as [_ [_ X]]. unfold remainingNodeBytes. destruct (curNode r) as [[n|] r1]; exact X.
  Qed.

  (* nextSpan on spans that are all Unparsed *)
  Lemma nextSpan_unp l : Forall (fun u => ikind u = UnparsedKind) l -> nextSpan l = match l with [] => None | i :: _ => Some (i, l) end.
  Proof. intros H. destruct l as [|i r]; [reflexivity|]. inversion H as [|? ? Hi _]; subst. cbn [nextSpan]. rewrite Hi. reflexivity. Qed.

  Lemma T_next r r' : T r r' ->
    fst (next r') = fst (next r) /\
    (fst (next r) = true -> T (snd (next r)) (snd (next r'))) /\
    (fst (next r) = false -> (e <=? r_pos (snd (next r))) = true /\ (e' <=? r_pos (snd (next r'))) = true /\ (r_pos r < e -> e = len sD)).
  Proof.
    intros HT. pose proof HT as [H (pre & E)]. pose proof (bRR_next sD sQ sg sp0 true HS sp0_w r r' H) as (A & B & _ & N4). split; [exact A|].
    pose proof H as (_ & _ & _ & _ & _ & _ & P & P' & _).
    split.
    - intros Hok. destruct B as [B|[B _]]; [|rewrite Hok in B; discriminate B]. split; [exact B|].
      unfold next in *. destruct (curNode_cases r) as [E0|(p1 & n & rest & E1 & E0 & _)]; rewrite E0 in *; [discriminate Hok|].
      cbn [withSpans r_src r_pos r_spans r_vpos] in *.
      destruct ((ikind n =? IndentKind) && (r_vpos r <? iindent n)); [cbn; exists (pre ++ p1); rewrite E, E1, app_assoc; reflexivity|].
      destruct (negb (ikind n =? IndentKind) && (r_pos r + 1 <? iend n)); [cbn; exists (pre ++ p1); rewrite E, E1, app_assoc; reflexivity|].
      cbn [tl] in *. destruct (nextSpan rest) as [[i sp]|] eqn:En; [|discriminate Hok]. cbn.
      destruct (nextSpan_split _ _ _ En) as (p2 & rest2 & Ea & Eb). exists (pre ++ p1 ++ n :: p2). rewrite E, E1, Ea, Eb, <- !app_assoc. reflexivity.
    - intros Hf. destruct (Z.eq_dec (r_pos r) (len sD)) as [El|Nl].
      + (* at the end: the reader stays *)
        assert (Es : r_pos (snd (next r)) = r_pos r /\ r_pos (snd (next r')) = r_pos r').
        { pose proof (bRR_inside sD sQ sg sp0 true HS r r' eq_refl H) as _. unfold next.
          destruct (curNode_cases r) as [E0|(p1 & n & rest & E1 & E0 & E3)].
          - destruct (bRR_curNode sD sQ sg sp0 true HS r r' H) as [X _]. rewrite E0 in X |- *. cbn [fst option_map] in X.
            destruct (curNode_cases r') as [E0'|(p1' & n' & rest' & E1' & E0' & E3')]; rewrite E0' in X |- *; cbn [fst] in X; [|discriminate X]. split; reflexivity.
          - exfalso. pose proof (spanHas_range _ _ E3) as (_ & _ & R3). pose proof H as (_ & _ & _ & G & _). rewrite E1 in G. apply Forall_app in G. destruct G as [_ G]. inversion G as [|? ? (_ & _ & Gc & _) _]; subst. lia. }
        destruct Es as [Es1 Es2]. rewrite Es1, Es2, P', El. split; [apply Z.leb_le; lia|]. split; [|lia].
        rewrite (bsgE_leb sD sQ sg HS) by (pose proof (len_nonneg sD); lia). apply Z.leb_le. lia.
      + destruct (bRR_next_fail sD sQ sg sp0 true HS r r' eq_refl H Hf ltac:(lia)) as (F1 & F2 & _).
        destruct (bRR_inside sD sQ sg sp0 true HS r r' eq_refl H ltac:(lia)) as (n & En).
        destruct (bRR_curNode_in sD sQ sg sp0 true HS r r' n H En) as ((Ga & Gb & Gc & Gt & Gk & Gl) & Hin & Hp' & Hlt).
        (* the node is the last span of sp0 *)
        assert (Hlast : r_pos r + 1 = iend n /\ exists pre1, sp0 = pre1 ++ [n]).
        { unfold next in Hf. destruct (curNode_cases r) as [E0|(p1 & m & rest & E1 & E0 & E3)]; rewrite E0 in En, Hf; cbn [fst] in En; [discriminate En|]. inversion En; subst m.
          cbn [withSpans r_src r_pos r_spans r_vpos] in Hf. apply unp_ne in Gk. rewrite Gk in Hf. cbn [andb negb] in Hf.
          destruct (Z.ltb_spec (r_pos r + 1) (iend n)) as [L|L]; [discriminate Hf|]. cbn [tl] in Hf.
          assert (Hu : Forall (fun u => ikind u = UnparsedKind) rest).
          { pose proof sp0_unp as SU. rewrite E, E1 in SU. apply Forall_app in SU. destruct SU as [_ X]. apply Forall_app in X. destruct X as [_ X]. inversion X; assumption. }
          rewrite (nextSpan_unp rest Hu) in Hf. destruct rest as [|i rest]; [|discriminate Hf].
          split; [lia|]. exists (pre ++ p1). rewrite E, E1, app_assoc. reflexivity. }
        destruct Hlast as [Hl (pre1 & Ep1)]. rewrite F1, F2. destruct (e_last pre1 n Ep1) as [Le|Le].
        * split; [apply Z.leb_le; lia|]. split; [|lia]. apply Z.leb_le. rewrite (bsgE_in sD sQ sg HS) by lia.
          pose proof (SG_mono _ _ _ HS) as M. destruct (Z.eq_dec e (r_pos r)) as [->|Ne]; [lia|]. specialize (M e (r_pos r) ltac:(lia) ltac:(lia)). lia.
        * split; [apply Z.leb_le; lia|]. split; [|lia]. apply Z.leb_le. destruct (Z.eq_dec e (len sD)) as [->|Ne].
          -- rewrite (bsgE_end sD sQ sg HS). replace (r_pos r) with (len sD - 1) by lia. rewrite (SG_last _ _ _ HS) by lia. lia.
          -- rewrite (bsgE_in sD sQ sg HS) by lia. pose proof (SG_mono _ _ _ HS) as M. destruct (Z.eq_dec e (r_pos r)) as [->|Ne2]; [lia|]. specialize (M e (r_pos r) ltac:(lia) ltac:(lia)). lia.
  Qed.

  (* the comparison with the end of the range *)
  Lemma T_done r r' : T r r' -> (e' <=? r_pos r') = (e <=? r_pos r).
  Proof. intros [H _]. pose proof H as (_ & _ & _ & _ & _ & _ & P & P' & _). rewrite P'. apply (bsgE_leb sD sQ sg HS); lia. Qed.
  Lemma T_lt r r' : T r r' -> (r_pos r' <? e') = (r_pos r <? e).
  Proof. intros [H _]. pose proof H as (_ & _ & _ & _ & _ & _ & P & P' & _). rewrite P'. apply (bsgE_ltb sD sQ sg HS); lia. Qed.

  (* ---------------------------------------------------------------- transformLinkReferenceSpan *)
  Lemma tlr_done f r acc : (e <=? r_pos r) = true -> tlr_loop f r e acc = acc.
  Proof. intros H. destruct f as [|f]; [reflexivity|]. rewrite tlr_loop_S, H. reflexivity. Qed.
  Lemma tlr_done' f r acc : (e' <=? r_pos r) = true -> tlr_loop f r e' acc = acc.
  Proof. intros H. destruct f as [|f]; [reflexivity|]. rewrite tlr_loop_S, H. reflexivity. Qed.

  Lemma q_tlr_skip f acc acc0 : (forall r r', T r r' -> tlr_loop f r' e' acc = tlr_loop f r e acc) ->
    forall k r r', T r r' ->
    tlr_skip (fun x => tlr_loop f x e' acc) acc0 e' k r' = tlr_skip (fun x => tlr_loop f x e acc) acc0 e k r.
  Proof.
    intros IH. induction k as [|k IHk]; intros r r' HT; [reflexivity|]. cbn [tlr_skip].
    rewrite (T_lt r r' HT). unfold cur. destruct (T_current r r' HT) as [Ec HT1]. rewrite Ec.
    destruct (_ && _); [|apply IH, HT]. destruct (T_next _ _ HT1) as (Eo & Tt & Tf).
    destruct (next (snd (current r))) as [ok r2]. destruct (next (snd (current r'))) as [ok' r2']. cbn [fst snd] in *. subst ok'. destruct ok.
    - apply IHk, Tt. reflexivity.
    - destruct (Tf eq_refl) as (D1 & D2 & _). rewrite (tlr_done f r2 acc D1), (tlr_done' f r2' acc D2). reflexivity.
  Qed.

  Lemma q_tlr_loop : forall f r r' acc, T r r' -> tlr_loop f r' e' acc = tlr_loop f r e acc.
  Proof.
    induction f as [|f IH]; intros r r' acc HT; [reflexivity|]. rewrite !tlr_loop_S. rewrite (T_done r r' HT).
    destruct (e <=? r_pos r); [reflexivity|]. destruct (T_current r r' HT) as [Ec HT1].
    destruct (current r) as [c r1]. destruct (current r') as [c' r1']. cbn [fst snd] in *. subst c'.
    destruct (T_next _ _ HT1) as (Eo & Tt & Tf). destruct (next r1) as [ok r2]. destruct (next r1') as [ok' r2']. cbn [fst snd] in *. subst ok'.
    destruct (isSpaceTabOrLineEnding c); cbv zeta; (destruct ok; cbn [negb]; [|reflexivity]).
    - apply q_tlr_skip; [intros x x' Hx; apply IH, Hx|apply Tt; reflexivity].
    - apply IH, Tt. reflexivity.
  Qed.

  (* ---------------------------------------------------------------- collectTextNodes *)
  Lemma Hcut ps m x : ps <= m -> m < x -> (m = ps \/ at_ sD (m - 1) = 10) -> noLFin sD m (x - 1) -> cuts sD ps x = cutsDone sD ps m ++ [(m, x)].
  Proof. apply cuts_cut. Qed.

  Definition txt (p : Z * Z) : inline := mkI TextKind (sg (fst p)) (sg (snd p - 1) + 1).
  (* the image of a node: a Text node is cut after every line feed inside it *)
  Definition qK (u : inline) : list inline :=
    match u with Inl k s e0 ind rf kids =>
      if (k =? TextKind) && (s <? e0) then map (fun p => Inl k (sg (fst p)) (sg (snd p - 1) + 1) ind rf kids) (cuts sD s e0)
      else [Inl k (sg s) (if s <? e0 then sg (e0 - 1) + 1 else sg s) ind rf kids] end.
  Lemma qK_text a b : a < b -> qK (mkI TextKind a b) = map txt (cuts sD a b).
  Proof. intros H. unfold qK, mkI. change (TextKind =? TextKind) with true. destruct (Z.ltb_spec a b); [reflexivity|lia]. Qed.
  Lemma qK_cref a b : a < b -> qK (mkI CharacterReferenceKind a b) = [mkI CharacterReferenceKind (sg a) (sg (b - 1) + 1)].
  Proof. intros H. unfold qK, mkI. change (CharacterReferenceKind =? TextKind) with false. cbn [andb]. destruct (Z.ltb_spec a b); [reflexivity|lia]. Qed.

  (* the collected nodes lie inside sD and have no children *)
  Definition inR (u : inline) : Prop := 0 <= istart u /\ iend u <= len sD /\ ikids u = [].
  Lemma inR_mkI k a b : 0 <= a -> b <= len sD -> inR (mkI k a b). Proof. intros A B. repeat split; assumption. Qed.
  Lemma inR_snoc acc u : Forall inR acc -> inR u -> Forall inR (acc ++ [u]).
  Proof. intros A B. apply Forall_app. split; [exact A|constructor; [exact B|constructor]]. Qed.
  (* the state of the two loops: m is the start of the piece that is open on the sQ side *)
  Definition CI (pos ps : Z) (acc : list inline) (ps' : Z) (acc' : list inline) : Prop :=
    exists m, 0 <= ps <= m /\ m <= pos /\ (m = ps \/ at_ sD (m - 1) = 10) /\ (m = ps \/ m <= e) /\ noLFin sD m pos /\
              ps' = sgE m /\ acc' = flat_map qK acc ++ map txt (cutsDone sD ps m) /\ Forall inR acc.
  Definition CF (o o' : list inline * Z) : Prop :=
    exists m, 0 <= snd o <= m /\ m <= len sD /\ (m = snd o \/ at_ sD (m - 1) = 10) /\ (m = snd o \/ m <= e) /\
              (m < e -> noLFin sD m (e - 1) /\ (at_ sD (e - 1) <> 10 \/ e = len sD)) /\
              snd o' = sgE m /\ fst o' = flat_map qK (fst o) ++ map txt (cutsDone sD (snd o) m) /\ Forall inR (fst o).

  Lemma CI_CF_done pos ps acc ps' acc' : pos <= len sD -> e <= pos -> CI pos ps acc ps' acc' -> CF (acc, ps) (acc', ps').
  Proof.
    intros Hl He (m & A & B & C & D & F & G & K & IR). exists m. cbn [fst snd]. split; [lia|]. split; [lia|]. split; [exact C|]. split; [exact D|]. split; [|split; [assumption|split; assumption]].
    intros Hm. split; [intros x Hx; apply F; lia|left; apply F; lia].
  Qed.

  (* emitting the text [ps, x) on the sD side and [sgE m, ..) on the sQ side *)
  Lemma emit_eq ps m x acc : ps <= m -> m <= x -> ps < x -> (m = ps \/ at_ sD (m - 1) = 10) -> noLFin sD m (x - 1) ->
    flat_map qK (acc ++ [mkI TextKind ps x]) = (flat_map qK acc ++ map txt (cutsDone sD ps m)) ++ (if m <? x then [txt (m, x)] else []).
  Proof.
    intros A B C Dd F. rewrite flat_map_app. cbn [flat_map]. rewrite app_nil_r, (qK_text ps x C), <- app_assoc. f_equal.
    destruct (Z.ltb_spec m x) as [L|L].
    - rewrite (Hcut ps m x A L Dd F), map_app. reflexivity.
    - assert (m = x) by lia. subst m. rewrite app_nil_r. unfold cutsDone. destruct (Z.ltb_spec ps x); [reflexivity|lia].
  Qed.

  Notation CLs f := (forall r r' esc ps ps' acc acc', T r r' -> nu sD r < Z.of_nat f -> CI (r_pos r) ps acc ps' acc' ->
                      CF (collect_loop f r e TextKind esc ps acc) (collect_loop f r' e' TextKind esc ps' acc')).

  Lemma sgle x y : 0 <= x -> x <= y -> sg x <= sg y.
  Proof. intros Hx H. destruct (Z.eq_dec x y) as [->|N]; [lia|]. pose proof (SG_mono _ _ _ HS x y Hx ltac:(lia)). lia. Qed.
  Lemma T_PL r r' : T r r' -> PL sD r. Proof. intros [H _]. apply (RR_PL _ _ _ _ _ _ _ H). Qed.
  Lemma T_posr r r' : T r r' -> 0 <= r_pos r <= len sD /\ r_pos r' = sgE (r_pos r).
  Proof. intros [H _]. pose proof H as (_ & _ & _ & _ & _ & _ & P & P' & _). split; assumption. Qed.

  Lemma q_ctail f : CLs f ->
    forall x x' esc ps ps' acc acc', T x x' -> nu sD x <= Z.of_nat f -> CI (r_pos x) ps acc ps' acc' ->
      CF (ctail f e TextKind esc x ps acc) (ctail f e' TextKind esc x' ps' acc').
  Proof.
    intros IHf x x' esc ps ps' acc acc' HT Hnu HCI. unfold ctail. rewrite (T_done x x' HT).
    destruct (T_posr x x' HT) as [Px Px']. destruct (Z.leb_spec e (r_pos x)) as [Le|Le]; [apply (CI_CF_done (r_pos x)); [lia|exact Le|exact HCI]|].
    pose proof HT as [HR _]. destruct (T_next x x' HT) as (Eo & Tt & Tf).
    pose proof (bRR_next sD sQ sg sp0 true HS sp0_w x x' HR) as (_ & _ & _ & N4). pose proof (bRR_next_in sD sQ sg sp0 true HS x x' HR) as Nin.
    pose proof (q_next_strict sD sQ sg sp0 HS sp0_w x x' HR) as Nst. pose proof (bRR_next_fail sD sQ sg sp0 true HS x x' eq_refl HR) as Nf.
    pose proof (next_W sD x (T_PL x x' HT)) as (_ & _ & _ & Ndec & _).
    destruct (next x) as [ok x1]. destruct (next x') as [ok' x1']. cbn [fst snd] in *. subst ok'. destruct ok; cbn [negb].
    2:{ (* the reader is exhausted *)
        destruct (Tf eq_refl) as (D1 & _ & D3). destruct HCI as (m & A & B & C & Dd & F & G & K & IR). exists m. cbn [fst snd].
        split; [lia|]. split; [lia|]. split; [exact C|]. split; [exact Dd|]. split; [|split; [assumption|split; assumption]].
        intros Hm. specialize (D3 Le). apply Z.leb_le in D1. destruct (Nf eq_refl ltac:(lia)) as (F1 & _). rewrite F1 in D1.
        split; [intros y Hy; apply F; lia|right; exact D3]. }
    specialize (Tt eq_refl). specialize (Nin eq_refl). specialize (Nst eq_refl). specialize (Ndec eq_refl). destruct (N4 eq_refl) as (Pv & _ & Pv').
    destruct (T_posr x1 x1' Tt) as [P1 P1']. rewrite (bsgE_in sD sQ sg HS) in P1' by lia.
    set (q := r_pos x) in *. set (p1 := r_pos x1) in *.
    destruct HCI as (m & A & B & C & Dd & F & G & K & IR).
    assert (Gm : ps' = sg m) by (rewrite G; apply (bsgE_in sD sQ sg HS); lia).
    unfold jumped. rewrite Pv, Pv', P1'. fold p1.
    replace (0 <=? q) with true by (symmetry; apply Z.leb_le; lia).
    replace (0 <=? sg q) with true by (symmetry; apply Z.leb_le, (SG_nn _ _ _ HS); lia). cbn [andb].
    destruct (Z.eq_dec p1 (q + 1)) as [Ec|Nc].
    - (* the next byte *)
      destruct (Z.ltb_spec 1 (p1 - q)); [lia|].
      destruct (Z.eq_dec (at_ sD q) 10) as [E10|N10].
      + (* over a line feed: only the reader of sQ jumps *)
        pose proof (SG_lf _ _ _ HS q ltac:(lia) ltac:(lia) E10) as Hg. rewrite <- Ec in Hg.
        destruct (Z.ltb_spec 1 (sg p1 - sg q)); [|lia].
        replace (ps' <=? sg q) with true by (symmetry; apply Z.leb_le; rewrite Gm; apply sgle; lia).
        apply IHf; [exact Tt|lia|]. exists p1. fold p1.
        split; [lia|]. split; [lia|]. split; [right; rewrite Ec; replace (q + 1 - 1) with q by lia; exact E10|]. split; [right; lia|].
        split; [intros y Hy; lia|]. split; [symmetry; apply (bsgE_in sD sQ sg HS); lia|].
        split; [|exact IR].
        rewrite K, <- app_assoc. f_equal. unfold cutsDone at 2. destruct (Z.ltb_spec ps p1); [|lia].
        rewrite (Hcut ps m p1) by (first [lia|exact C|rewrite Ec; replace (q + 1 - 1) with q by lia; exact F]).
        rewrite map_app. f_equal. cbn [map]. unfold txt. cbn [fst snd]. rewrite Gm, Ec. replace (q + 1 - 1) with q by lia. reflexivity.
      + (* no jump *)
        pose proof (SG_succ _ _ _ HS q ltac:(lia) ltac:(lia) N10) as Hg. rewrite <- Ec in Hg.
        destruct (Z.ltb_spec 1 (sg p1 - sg q)); [lia|].
        apply IHf; [exact Tt|lia|]. exists m. fold p1. split; [exact A|]. split; [lia|]. split; [exact C|]. split; [exact Dd|].
        split; [intros y Hy; destruct (Z.eq_dec y q) as [->|Ny]; [exact N10|apply F; lia]|]. split; [assumption|split; assumption].
    - (* both readers jump *)
      destruct (Z.ltb_spec 1 (p1 - q)); [|lia].
      assert (Hg : sg q + 1 < sg p1).
      { pose proof (SG_mono _ _ _ HS q (q + 1) ltac:(lia) ltac:(lia)). pose proof (SG_mono _ _ _ HS (q + 1) p1 ltac:(lia) ltac:(lia)). lia. }
      destruct (Z.ltb_spec 1 (sg p1 - sg q)); [|lia].
      replace (ps <=? q) with true by (symmetry; apply Z.leb_le; lia).
      replace (ps' <=? sg q) with true by (symmetry; apply Z.leb_le; rewrite Gm; apply sgle; lia).
      apply IHf; [exact Tt|lia|]. exists p1. fold p1. split; [lia|]. split; [lia|]. split; [left; reflexivity|]. split; [left; reflexivity|].
      split; [intros y Hy; lia|]. split; [symmetry; apply (bsgE_in sD sQ sg HS); lia|].
      split; [|apply inR_snoc; [exact IR|apply inR_mkI; lia]].
      unfold cutsDone at 1. destruct (Z.ltb_spec p1 p1); [lia|]. cbn [map]. rewrite app_nil_r.
      rewrite (emit_eq ps m (q + 1) acc) by (first [lia|exact C|replace (q + 1 - 1) with q by lia; exact F]).
      rewrite K. f_equal. destruct (Z.ltb_spec m (q + 1)); [|lia]. unfold txt, mkI. cbn [fst snd]. rewrite Gm. replace (q + 1 - 1) with q by lia. reflexivity.
  Qed.

  (* a step inside the head span *)
  Lemma T_step_in x x' node rest : T x x' -> r_spans x = node :: rest -> istart node <= r_pos x -> r_pos x + 1 < iend node ->
    fst (next x) = true /\ r_pos (snd (next x)) = r_pos x + 1 /\ r_spans (snd (next x)) = node :: rest.
  Proof.
    intros HT Es Hi Hl. pose proof HT as [HR _]. pose proof HR as (_ & _ & _ & G & _). rewrite Es in G. inversion G as [|? ? (Ga & Gb & Gc & Gt & Gk & Gl) _]; subst.
    assert (Hh : spanHas node (r_pos x) = true) by (apply spanHas_intro; lia).
    unfold next. rewrite (curNode_head node rest x Es Hh). apply unp_ne in Gk. rewrite Gk. cbn [andb negb].
    destruct (Z.ltb_spec (r_pos x + 1) (iend node)); [|lia]. cbn. repeat split; try reflexivity. exact Es.
  Qed.
  Lemma T_nextN : forall k x x' node rest, T x x' -> r_spans x = node :: rest -> istart node <= r_pos x -> r_pos x + Z.of_nat k < iend node ->
    T (nextN k x) (nextN k x') /\ r_pos (nextN k x) = r_pos x + Z.of_nat k /\ r_spans (nextN k x) = node :: rest /\ nu sD (nextN k x) <= nu sD x.
  Proof.
    induction k as [|k IH]; intros x x' node rest HT Es Hi Hl; [cbn [nextN]; split; [exact HT|split; [lia|split; [exact Es|lia]]]|]. cbn [nextN].
    destruct (T_step_in x x' node rest HT Es Hi ltac:(lia)) as (Ok & Ep & Esp). destruct (T_next x x' HT) as (_ & Tt & _). specialize (Tt Ok).
    pose proof (next_W sD x (T_PL x x' HT)) as (_ & _ & Hle & _).
    destruct (IH (snd (next x)) (snd (next x')) node rest Tt Esp ltac:(lia) ltac:(lia)) as (I1 & I2 & I3 & I4).
    split; [exact I1|]. split; [lia|]. split; [exact I3|lia].
  Qed.

  Lemma isEntCh_not10 c : isEntCh c = true -> c <> 10.
  Proof. intros H ->. discriminate H. Qed.

  Lemma q_collect_loop : forall f, CLs f.
  Proof.
    induction f as [|f IHf]; intros r r' esc ps ps' acc acc' HT Hnu HCI.
    { exfalso. pose proof (nu_nonneg sD r (T_PL r r' HT)). lia. }
    rewrite !collect_loop_S. rewrite (T_done r r' HT). destruct (T_posr r r' HT) as [Pr Pr'].
    destruct (Z.leb_spec e (r_pos r)) as [Le|Le]; [apply (CI_CF_done (r_pos r)); [lia|exact Le|exact HCI]|].
    pose proof (T_PL r r' HT) as HPL.
    destruct (T_curNode r r' HT) as [Ecn HT0]. pose proof (cn_facts sD r HPL) as CN.
    pose proof (curNode_fields r) as CF0. pose proof (curNode_cases r) as CC.
    destruct (curNode r) as [cn r0] eqn:Ecr. destruct (curNode r') as [cn' r0'] eqn:Ecr'. cbn [fst snd] in Ecn, HT0, CF0. subst cn'.
    destruct CF0 as (_ & Ep0 & _ & _).
    assert (Hnu0 : nu sD r0 = nu sD r) by (pose proof (nu_curNode sD r) as X; rewrite Ecr in X; exact X).
    rewrite (okind_map (mvS sg) cn (ikind_mvS sg)).
    assert (Hki : (okind cn =? IndentKind) = false).
    { destruct cn as [node|]; [|reflexivity]. pose proof HT as [HR _]. destruct (bRR_curNode_in sD sQ sg sp0 true HS r r' node HR ltac:(rewrite Ecr; reflexivity)) as ((_ & _ & _ & _ & Gk & _) & _). apply unp_ne, Gk. }
    rewrite Hki. assert (HCI0 : CI (r_pos r0) ps acc ps' acc') by (rewrite Ep0; exact HCI).
    pose proof (q_ctail f IHf) as TL.
    destruct (esc && (okind cn =? UnparsedKind)) eqn:Eesc; [|apply TL; [exact HT0|lia|exact HCI0]].
    (* the node *)
    assert (Hnode : exists node rest, cn = Some node /\ r_spans r0 = node :: rest /\ istart node <= r_pos r < iend node).
    { apply andb_true_iff in Eesc. destruct Eesc as [_ Ek]. destruct cn as [node|]; [|discriminate Ek].
      destruct CC as [E0|(pre & m & rest & _ & E0 & E3)]; [congruence|]. assert (Em : m = node /\ withSpans r (m :: rest) = r0) by (split; congruence). destruct Em as [-> <-].
      exists node, rest. split; [reflexivity|]. split; [reflexivity|]. pose proof (spanHas_range _ _ E3). lia. }
    destruct Hnode as (node & rest & -> & Esp0 & Hin).
    pose proof HT as [HR _]. destruct (bRR_curNode_in sD sQ sg sp0 true HS r r' node HR ltac:(rewrite Ecr; reflexivity)) as (Gn & _ & Hp' & Hlt).
    pose proof Gn as (Ga & Gb & Gc & Gt & Gk & Gl).
    destruct (T_current r0 r0' HT0) as [Ecur HT1]. pose proof (cur_facts sD r0 (T_PL _ _ HT0)) as (_ & Hnu1 & Hp1).
    pose proof (current_snd r0) as CS.
    destruct (current r0) as [c r1] eqn:Ec1. destruct (current r0') as [c' r1'] eqn:Ec1'. cbn [fst snd] in Ecur, HT1, Hnu1, Hp1, CS. subst c'.
    assert (Esp1 : r_spans r1 = node :: rest).
    { destruct CS as [-> | ->]; [exact Esp0|]. rewrite (curNode_head node rest r0 Esp0); [exact Esp0|]. apply spanHas_intro; lia. }
    assert (HCI1 : CI (r_pos r1) ps acc ps' acc') by (rewrite Hp1; exact HCI0).
    assert (Hc : c = at_ sD (r_pos r)).
    { pose proof HT0 as [HR0 _]. pose proof (bRR_current_raw sD sQ sg sp0 true HS r0 r0' HR0 ltac:(lia)) as X. rewrite Ec1 in X. cbn [fst] in X. rewrite X, Ep0. reflexivity. }
    destruct (Z.eqb_spec c 92) as [E92|N92].
    - (* a backslash *)
      destruct (T_next r1 r1' HT1) as (Eo & Tt & Tf). pose proof (next_W sD r1 (T_PL _ _ HT1)) as (_ & _ & _ & Ndec & _).
      pose proof HT1 as [HR1 _]. pose proof (bRR_next sD sQ sg sp0 true HS sp0_w r1 r1' HR1) as (_ & _ & _ & N4). pose proof (bRR_next_pos sD sQ sg sp0 true HS r1 r1' HR1) as Np.
      destruct (next r1) as [ok r2] eqn:En2. destruct (next r1') as [ok' r2'] eqn:En2'. cbn [fst snd] in *. subst ok'. destruct ok; cbn [andb].
      2:{ (* exhausted: both tails stop at once *)
          destruct (Tf eq_refl) as (D1 & D2 & D3). unfold ctail. rewrite D1, D2.
          destruct HCI1 as (m & A & B & C & Dd & F & G & K & IR). exists m. cbn [fst snd]. split; [lia|]. split; [lia|]. split; [exact C|]. split; [exact Dd|]. split; [|split; [assumption|split; assumption]].
          intros Hm. apply Z.leb_le in D1. pose proof HT1 as [HRx _]. pose proof (bRR_next_fail sD sQ sg sp0 true HS r1 r1' eq_refl HRx) as NF. rewrite En2 in NF. cbn [fst snd] in NF.
          destruct (NF eq_refl ltac:(lia)) as (F1 & _). rewrite F1 in D1. split; [intros y Hy; apply F; lia|right; apply D3; lia]. }
      specialize (Tt eq_refl). specialize (Ndec eq_refl). destruct (N4 eq_refl) as (Pv & _ & Pv'). specialize (Np eq_refl ltac:(rewrite Hp1, Ep0, <- Hc, E92; discriminate)).
      rewrite (T_lt r2 r2' Tt). pose proof Tt as [HR2 _]. rewrite (bRR_cur sD sQ sg sp0 true HS r2 r2' HR2).
      destruct (T_posr r2 r2' Tt) as [P2 P2'].
      destruct HCI1 as (m & A & B & C & Dd & F & G & K & IR). set (b := r_pos r1) in *.
      assert (Gm : ps' = sg m) by (rewrite G; apply (bsgE_in sD sQ sg HS); lia).
      destruct ((r_pos r2 <? e) && isASCIIPunctuation (cur r2)) eqn:Ecnd.
      + apply andb_true_iff in Ecnd. destruct Ecnd as [Ecnd _]. apply Z.ltb_lt in Ecnd.
        apply TL; [exact Tt|lia|]. rewrite Pv, Pv'. exists (r_pos r2). rewrite Np.
        split; [lia|]. split; [lia|]. split; [left; reflexivity|]. split; [left; reflexivity|]. split; [intros y Hy; lia|].
        split; [rewrite P2', Np; reflexivity|].
        split; [|destruct (ps <? b); [apply inR_snoc; [exact IR|apply inR_mkI; lia]|exact IR]].
        unfold cutsDone at 1. destruct (Z.ltb_spec (b + 1) (b + 1)); [lia|]. cbn [map]. rewrite app_nil_r.
        assert (Hbb : b = r_pos r) by (unfold b; lia).
        destruct (Z.ltb_spec ps b) as [Lp|Lp].
        * rewrite (emit_eq ps m b acc) by (first [lia|exact C|intros y Hy; apply F; lia]). rewrite K.
          replace (ps' <? sg b) with (m <? b) by (rewrite Gm; destruct (Z.ltb_spec m b) as [L1|L1]; destruct (Z.ltb_spec (sg m) (sg b)) as [L2|L2]; try reflexivity;
                                                 [pose proof (SG_mono _ _ _ HS m b ltac:(lia) L1); lia|pose proof (sgle b m ltac:(lia) L1); lia]).
          destruct (Z.ltb_spec m b) as [Lm|Lm]; [|rewrite app_nil_r; reflexivity]. f_equal. unfold txt, mkI. cbn [fst snd]. rewrite Gm.
          rewrite <- (SG_succ _ _ _ HS (b - 1)) by (first [lia|apply F; lia]). replace (b - 1 + 1) with b by lia. reflexivity.
        * assert (m = b) by lia. subst m. replace (ps' <? sg b) with false by (symmetry; apply Z.ltb_ge; rewrite Gm; lia).
          rewrite K. assert (ps = b) by lia. subst ps. unfold cutsDone. destruct (Z.ltb_spec b b); [lia|]. cbn [map]. rewrite app_nil_r. reflexivity.
      + assert (Hb10 : at_ sD b <> 10) by (rewrite Hp1, Ep0, <- Hc, E92; discriminate).
        apply TL; [exact Tt|lia|]. exists m. rewrite Np. fold b. split; [lia|]. split; [lia|]. split; [exact C|]. split; [exact Dd|].
        split; [intros y Hy; destruct (Z.eq_dec y b) as [Ey|Ny]; [rewrite Ey; exact Hb10|apply F; lia]|]. split; [assumption|split; assumption].
    - destruct (Z.eqb_spec c 38) as [E38|N38]; [|apply TL; [exact HT1|lia|exact HCI1]].
      (* an entity *)
      destruct (T_remaining r1 r1' HT1) as [Erem HT2]. pose proof (rem_facts sD r1 (T_PL _ _ HT1)) as (_ & Hnu2 & Hp2).
      assert (Hrem : fst (remainingNodeBytes r1) = sub sD (r_pos r1) (iend node) /\ r_spans (snd (remainingNodeBytes r1)) = node :: rest).
      { unfold remainingNodeBytes. rewrite (curNode_head node rest r1 Esp1) by (apply spanHas_intro; lia). cbn [fst snd].
        pose proof HT1 as [(Asrc & _) _]. rewrite Asrc. split; [reflexivity|exact Esp1]. }
      destruct Hrem as [Hrem Esp2].
      destruct (remainingNodeBytes r1) as [rem r2]. destruct (remainingNodeBytes r1') as [rem' r2']. cbn [fst snd] in *. subst rem'.
      set (en := parseCharacterEscape rem) in *.
      destruct (Z.leb_spec 0 en) as [Len|Len]; [|apply TL; [exact HT2|lia|rewrite Hp2; exact HCI1]].
      destruct (pce_spec rem Len) as (Hen & Hch). fold en in Hen, Hch. set (pos := r_pos r2) in *.
      assert (Hpos : pos = r_pos r) by (unfold pos; lia).
      assert (Hlrem : len rem = iend node - pos) by (rewrite Hrem, LA2.len_sub by lia; lia).
      assert (Hat : forall i, 0 <= i < en -> at_ sD (pos + i) <> 10).
      { intros i Hi. specialize (Hch i Hi). rewrite Hrem, LA2.at_sub in Hch by lia. replace (r_pos r1 + i) with (pos + i) in Hch by lia. apply isEntCh_not10, Hch. }
      destruct (T_posr r2 r2' HT2) as [_ P2']. fold pos in P2'. rewrite (bsgE_in sD sQ sg HS) in P2' by lia.
      (* the steps inside the entity *)
      destruct (T_nextN (Z.to_nat (en - 1)) r2 r2' node rest HT2 Esp2 ltac:(fold pos; lia) ltac:(fold pos; lia)) as (HT3 & Hp3 & Esp3 & Hnu3).
      set (r3 := nextN (Z.to_nat (en - 1)) r2) in *. set (r3' := nextN (Z.to_nat (en - 1)) r2') in *. fold pos in Hp3.
      replace (pos + Z.of_nat (Z.to_nat (en - 1))) with (pos + en - 1) in Hp3 by lia.
      destruct (T_next r3 r3' HT3) as (Eo & Tt & Tf). pose proof (next_W sD r3 (T_PL _ _ HT3)) as (_ & _ & _ & Ndec & _).
      pose proof HT3 as [HR3 _]. pose proof (bRR_next_pos sD sQ sg sp0 true HS r3 r3' HR3) as Np.
      pose proof (bRR_next_fail sD sQ sg sp0 true HS r3 r3' eq_refl HR3) as NF.
      destruct HCI1 as (m & A & B & C & Dd & F & G & K & IR). rewrite Hp1, Ep0 in B, F.
      assert (Gm : ps' = sg m) by (rewrite G; apply (bsgE_in sD sQ sg HS); lia).
      (* the two accumulators after the entity *)
      assert (Hsg : forall i, 0 <= i < en -> sg (pos + i) = sg pos + i).
      { intros i Hi. rewrite (Gt (pos + i)), (Gt pos) by lia. lia. }
      assert (Hacc : (if ps' <? sg pos then acc' ++ [mkI TextKind ps' (sg pos)] else acc') ++ [mkI CharacterReferenceKind (sg pos) (sg pos + en)] =
                     flat_map qK ((if ps <? pos then acc ++ [mkI TextKind ps pos] else acc) ++ [mkI CharacterReferenceKind pos (pos + en)])).
      { rewrite flat_map_app. cbn [flat_map]. rewrite app_nil_r, (qK_cref pos (pos + en)) by lia.
        replace (pos + en - 1) with (pos + (en - 1)) by lia. rewrite (Hsg (en - 1)) by lia. replace (sg pos + (en - 1) + 1) with (sg pos + en) by lia. f_equal.
        destruct (Z.ltb_spec ps pos) as [Lp|Lp].
        - rewrite (emit_eq ps m pos acc) by (first [lia|exact C|intros y Hy; apply F; lia]). rewrite K.
          replace (ps' <? sg pos) with (m <? pos) by (rewrite Gm; destruct (Z.ltb_spec m pos) as [L1|L1]; destruct (Z.ltb_spec (sg m) (sg pos)) as [L2|L2]; try reflexivity;
                                                     [pose proof (SG_mono _ _ _ HS m pos ltac:(lia) L1); lia|pose proof (sgle pos m ltac:(lia) L1); lia]).
          destruct (Z.ltb_spec m pos) as [Lm|Lm]; [|rewrite app_nil_r; reflexivity]. f_equal. unfold txt, mkI. cbn [fst snd]. rewrite Gm.
          rewrite <- (SG_succ _ _ _ HS (pos - 1)) by (first [lia|apply F; lia]). replace (pos - 1 + 1) with pos by lia. reflexivity.
        - assert (m = pos) by lia. subst m. replace (ps' <? sg pos) with false by (symmetry; apply Z.ltb_ge; rewrite Gm; lia).
          rewrite K. assert (ps = pos) by lia. subst ps. unfold cutsDone. destruct (Z.ltb_spec pos pos); [lia|]. cbn [map]. rewrite app_nil_r. reflexivity. }
      rewrite P2'. rewrite Hacc.
      assert (IR2 : Forall inR ((if ps <? pos then acc ++ [mkI TextKind ps pos] else acc) ++ [mkI CharacterReferenceKind pos (pos + en)])).
      { apply inR_snoc; [destruct (ps <? pos); [apply inR_snoc; [exact IR|apply inR_mkI; lia]|exact IR]|apply inR_mkI; lia]. }
      assert (Hps2 : sg pos + en = sgE (pos + en)).
      { replace (pos + en) with (pos + (en - 1) + 1) by lia. rewrite (bsgE_succ sD sQ sg HS) by (first [lia|destruct Gl as [Gl|Gl]; [left; apply Hat; lia|destruct (Z.eq_dec (pos + (en - 1) + 1) (len sD)); [right; assumption|left; apply Hat; lia]]]).
        rewrite (Hsg (en - 1)) by lia. lia. }
      destruct (next r3) as [ok r4] eqn:En4. destruct (next r3') as [ok' r4'] eqn:En4'. cbn [fst snd] in *. subst ok'. destruct ok; cbn [negb].
      + specialize (Tt eq_refl). specialize (Ndec eq_refl). specialize (Np eq_refl ltac:(rewrite Hp3; replace (pos + en - 1) with (pos + (en - 1)) by lia; apply Hat; lia)).
        apply IHf; [exact Tt|lia|]. exists (pos + en). rewrite Np, Hp3. replace (pos + en - 1 + 1) with (pos + en) by lia.
        split; [lia|]. split; [lia|]. split; [left; reflexivity|]. split; [left; reflexivity|]. split; [intros y Hy; lia|]. split; [exact Hps2|]. split; [|exact IR2].
        unfold cutsDone. destruct (Z.ltb_spec (pos + en) (pos + en)); [lia|]. cbn [map]. rewrite app_nil_r. reflexivity.
      + (* exhausted after the entity *)
        exists (pos + en). cbn [fst snd]. split; [lia|]. split; [lia|]. split; [left; reflexivity|]. split; [left; reflexivity|].
        split; [|split; [exact Hps2|split; [unfold cutsDone; destruct (Z.ltb_spec (pos + en) (pos + en)); [lia|]; cbn [map]; rewrite app_nil_r; reflexivity|exact IR2]]].
        intros Hm. exfalso. destruct (Tf eq_refl) as (D1 & _ & _). apply Z.leb_le in D1. destruct (NF eq_refl ltac:(lia)) as (F1 & _). rewrite F1, Hp3 in D1. lia.
  Qed.

  (* ---------------------------------------------------------------- the two functions on fresh readers *)
  Lemma T_new p : Forall (gsp sD sg) sp0 -> spW sD sp0 = true -> 0 <= p <= len sD -> InE sD sp0 p ->
    T (newReader sD sp0 p) (newReader sQ (map (mvS sg) sp0) (sgE p)).
  Proof. intros G W Hp Hi. split; [apply (bRR_new sD sQ sg sp0 true HS); [exact G|exact W|exact Hp|intros _; exact Hi|exists []; reflexivity]|exists []; reflexivity]. Qed.

  Theorem q_transformLinkReferenceSpan f p : Forall (gsp sD sg) sp0 -> spW sD sp0 = true -> 0 <= p <= len sD -> InE sD sp0 p ->
    transformLinkReferenceSpan f sQ (map (mvS sg) sp0) (sgE p) e' = transformLinkReferenceSpan f sD sp0 p e.
  Proof. intros G W Hp Hi. unfold transformLinkReferenceSpan. rewrite (q_tlr_loop f _ _ [] (T_new p G W Hp Hi)). reflexivity. Qed.

  Theorem q_collectTextNodes f p esc : Forall (gsp sD sg) sp0 -> spW sD sp0 = true -> 0 <= p <= len sD -> InE sD sp0 p ->
    nu sD (newReader sD sp0 p) < Z.of_nat f ->
    collectTextNodes f (newReader sQ (map (mvS sg) sp0) (sgE p)) e' TextKind esc =
    flat_map qK (collectTextNodes f (newReader sD sp0 p) e TextKind esc) /\
    Forall inR (collectTextNodes f (newReader sD sp0 p) e TextKind esc).
  Proof.
    intros G W Hp Hi Hnu. unfold collectTextNodes. cbn [newReader r_pos].
    assert (HCI : CI (r_pos (newReader sD sp0 p)) p [] (sgE p) []).
    { exists p. cbn [newReader r_pos]. split; [lia|]. split; [lia|]. split; [left; reflexivity|]. split; [left; reflexivity|]. split; [intros y Hy; lia|]. split; [reflexivity|]. split; [|constructor].
      unfold cutsDone. destruct (Z.ltb_spec p p); [lia|]. reflexivity. }
    pose proof (q_collect_loop f _ _ esc p (sgE p) [] [] (T_new p G W Hp Hi) Hnu HCI) as HF.
    destruct (collect_loop f (newReader sD sp0 p) e TextKind esc p []) as [acc ps]. destruct (collect_loop f (newReader sQ (map (mvS sg) sp0) (sgE p)) e' TextKind esc (sgE p) []) as [acc' ps'].
    destruct HF as (m & A & B & C & Dd & F & G' & K & IR). cbn [fst snd] in *. rewrite G', K.
    rewrite (bsgE_ltb sD sQ sg HS) by lia.
    destruct (Z.ltb_spec ps e) as [Lp|Lp]; (split; [|first [apply inR_snoc; [exact IR|apply inR_mkI; lia]|exact IR]]).
    - assert (Hme : m <= e) by (destruct Dd; lia).
      rewrite (emit_eq ps m e acc) by (first [lia|exact C|destruct (Z.eq_dec m e) as [->|Ne]; [intros y Hy; lia|apply F; lia]]).
      destruct (Z.ltb_spec m e) as [Lm|Lm]; [|rewrite app_nil_r; reflexivity]. f_equal. unfold txt, mkI. cbn [fst snd]. destruct (F Lm) as [_ Fe].
      rewrite (bsgE_in sD sQ sg HS) by lia. replace e with (e - 1 + 1) at 1 by lia. rewrite (bsgE_succ sD sQ sg HS) by (first [lia|destruct Fe as [Fe|Fe]; [left; exact Fe|right; lia]]). reflexivity.
    - assert (m = ps) by (destruct Dd; lia). subst m. destruct (Z.ltb_spec ps e); [lia|]. unfold cutsDone. destruct (Z.ltb_spec ps ps); [lia|]. cbn [map]. rewrite app_nil_r. reflexivity.
  Qed.
End QC.

Print Assumptions q_collectTextNodes.
Print Assumptions q_transformLinkReferenceSpan.
