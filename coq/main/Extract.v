From Coq Require Import ExtrOcamlBasic.
Require Import Base Tables Utf8 Tree Recog Driver Inl3e Render Fmt Entry.
Extraction "model.ml" parseBlocks parseFull renderDoc formatDoc renderRoots renderRootsWith formatRoots refsOfRoots
  listItemNumber linkReference isTightList isOrdered.
