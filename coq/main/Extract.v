From Coq Require Import ExtrOcamlBasic.
Require Import Base Tables Utf8 Tree Recog Html Inl3b Driver Inl3e Render Fmt Entry SafeW Stream Props C17chk SpanHypDef ShapeHypDef EmphSpec EmphSpec2.
Extraction "model.ml" parseBlocks parseFull renderDoc formatDoc renderRoots renderRootsWith formatRoots refsOfRoots
  listItemNumber linkReference isTightList isOrdered bokW
  parseThematicBreak parseATXHeading parseSetextHeadingUnderline parseCodeFence parseListMarker
  normalizeURI isEmailAddress parseEmail filterRaw urlHexDigit
  isSpaceTabOrLineEnding isASCIILetter isASCIIDigit isASCIIPunctuation isASCIIControl isHex toLowerASCII
  isUnquotedAttributeValueChar parseStream
  validUtf8 chk_C01 chk_C02_root chk_C03_root chk_C05_root chk_C13_root chkRoots entriesOKroots shapeHypRoots okEmph specForest okLine2 specForest2 utf8.
