From Coq Require Import List ZArith Lia Bool.
Import ListNotations.
Require Import Base Tree Html LP Rules Link Inl3a Render.
Require GenConsts GenClassify.
Open Scope Z_scope.

(* Tie: constants of the renderer. *)
Lemma tie_render :
  GenConsts.c_SoftBreakPreserve = 0 /\ GenConsts.c_SoftBreakSpace = 1 /\ GenConsts.c_SoftBreakHarden = 2 /\
  GenConsts.c_NormalizeURI_safeSet = safeSet.
Proof. repeat split; reflexivity. Qed.
Print Assumptions tie_render.
