From Coq Require Import List ZArith Lia Bool.
Import ListNotations.
Require Import Base Tree Rdr Link Collect LP Rules Driver Props Leaf3e RdrBound L2Kind L2CC GramTree BSDef BSRdr BSRdr2 BSTree BSOcp BSClose BSShift
  Rec17 Rec18 BShDef ShDef ShRdr.
Open Scope Z_scope.

Lemma bheight_kid b x : In x (bkids b) -> (bheight x < bheight b)%nat.
Proof.
  destruct b as [k s e bk ik ind n ch l lb]. cbn [bkids bheight]. induction bk as [|y r IH]; intros H; [destruct H|].
  cbn [fold_right]. destruct H as [->|H]; [lia|]. specialize (IH H). lia.
Qed.
Lemma bheight_S b : exists n, bheight b = S n.
Proof. destruct b. cbn [bheight]. eexists. reflexivity. Qed.
Lemma bheight_last b c : lastBlock b = Some c -> (bheight c < bheight b)%nat.
Proof. intros H. apply bheight_kid. eapply lastBlock_In; exact H. Qed.
Lemma bheight_getAt : forall d b x, getAt d b = Some x -> (bheight x + d <= bheight b)%nat.
Proof.
  induction d as [|d IH]; intros b x H; [inversion H; subst; lia|]. cbn [getAt] in H.
  destruct (lastBlock b) as [c|] eqn:El; [|discriminate]. pose proof (bheight_last b c El). specialize (IH c x H). lia.
Qed.

Lemma sh_closed_mk src M y : 0 <= bend y -> shapeKN (sub src (bstart y) (bend y)) (bkind y) (bn y) = true ->
  closedL (bkids y) -> allP (sh src M) (bkids y) -> sh src M y.
Proof. intros A B C D. rewrite sh_eq. split; [tauto|]. split; [intros; lia|exact D]. Qed.

(* the shape of a block that may be closed at e *)
Lemma len_sub_ge (l : bytes) s e : 0 <= s -> s <= e <= len l -> len (sub l s e) = e - s.
Proof.
  intros Hs He. unfold sub. pose proof (len_from l s ltac:(lia)) as Hf.
  apply (split_at (from_ l s) (e - s)). lia.
Qed.
Lemma at_sub (l : bytes) s e i : 0 <= s -> s <= e <= len l -> 0 <= i < e - s -> at_ (sub l s e) i = at_ l (s + i).
Proof.
  intros Hs He Hi. unfold sub. rewrite at_upto by (rewrite ?len_from by lia; lia). apply at_from; lia.
Qed.
Lemma openOK_shape src e K s n : 0 <= s -> e <= len src -> openOK src e K s -> s <= e -> shapeKN (sub src s e) K n = true.
Proof.
  intros Hs He (A & B & C1 & C2 & C3) Hse. unfold shapeKN, shapeBlock. cbn [bkind bn].
  destruct (Z.eqb_spec K ListMarkerKind); [contradiction|]. destruct (Z.eqb_spec K ATXHeadingKind); [contradiction|].
  destruct (Z.eqb_spec K SetextHeadingKind); [contradiction|].
  destruct (Z.eqb_spec K FencedCodeBlockKind) as [Ek|_].
  { destruct (A Ek) as [A1 (A2 & A3 & A4)]. rewrite len_sub_ge by lia. rewrite !at_sub by lia.
    replace (s + 0) with s by lia. rewrite A3, A4, !Z.eqb_refl.
    replace (3 <=? e - s) with true by (symmetry; apply Z.leb_le; lia).
    destruct A2 as [-> | ->]; reflexivity. }
  destruct (Z.eqb_spec K BlockQuoteKind) as [Ek|_]; [|reflexivity].
  destruct (B Ek) as [B1 B2]. rewrite len_sub_ge by lia. rewrite at_sub by lia. replace (s + 0) with s by lia. rewrite B2.
  replace (1 <=? e - s) with true by (symmetry; apply Z.leb_le; lia). reflexivity.
Qed.
Lemma shape_other t K n : K <> ListMarkerKind -> K <> ATXHeadingKind -> K <> SetextHeadingKind -> K <> FencedCodeBlockKind -> K <> BlockQuoteKind ->
  shapeKN t K n = true.
Proof.
  intros N1 N2 N3 N4 N5. unfold shapeKN, shapeBlock. cbn [bkind].
  destruct (Z.eqb_spec K ListMarkerKind); [contradiction|]. destruct (Z.eqb_spec K ATXHeadingKind); [contradiction|].
  destruct (Z.eqb_spec K SetextHeadingKind); [contradiction|]. destruct (Z.eqb_spec K FencedCodeBlockKind); [contradiction|].
  destruct (Z.eqb_spec K BlockQuoteKind); [contradiction|reflexivity].
Qed.

(* results of onCloseParagraph on a paragraph *)
Lemma okRes_para_sh src M n e B y : okRes ParagraphKind n e B y -> sh src M y.
Proof.
  intros (A & B0 & C). apply sh_closed_mk; [exact A| |rewrite B0; exact I|rewrite B0; exact I].
  destruct C as [C|(C & _)]; rewrite C; apply shape_other; discriminate.
Qed.

Lemma closeBlock_closed' fuel src c e : 0 <= bend c -> closeBlock fuel src c e = [c].
Proof. intros H. destruct fuel; [reflexivity|]. cbn [closeBlock]. unfold isOpen. destruct (Z.ltb_spec (bend c) 0); [lia|reflexivity]. Qed.

Lemma bheight_set_bloose x v : bheight (set_bloose x v) = bheight x. Proof. destruct x; reflexivity. Qed.

Lemma sh_closeBlock src e : 0 <= e -> e <= len src -> forall fuel b, (bheight b <= fuel)%nat -> cc b = true -> sp e b -> sh src e b ->
  forall M', allP (sh src M') (closeBlock fuel src b e) /\ closedL (closeBlock fuel src b e).
Proof.
  intros He0 Hes. induction fuel as [|f IH]; intros b Hh Hc Hp Hb M'.
  { destruct (bheight_S b) as (k & Ek). lia. }
  cbn [closeBlock]. destruct (isOpen b) eqn:Eo; cbn [negb].
  2:{ unfold isOpen in Eo. apply Z.ltb_ge in Eo. split; [split; [eapply sh_closed_any; eassumption|exact I]|split; [exact Eo|exact I]]. }
  unfold isOpen in Eo. apply Z.ltb_lt in Eo. cbv zeta.
  pose proof Hb as Hb'. rewrite sh_eq in Hb'. destruct Hb' as (_ & B & C). destruct (B Eo) as [B1 B2]. clear B.
  pose proof Hp as Hp'. rewrite sp_eq in Hp'. destruct Hp' as (P1 & _ & P3 & _ & P5).
  assert (Hshape : shapeKN (sub src (bstart b) e) (bkind b) (bn b) = true) by (apply openOK_shape; try assumption; lia).
  (* closing the last child of a block x that stands for b *)
  assert (Hcl : forall x, bend x = e -> bstart x = bstart b -> bkind x = bkind b -> bn x = bn b -> (bheight x <= S f)%nat -> cc x = true ->
            allP (sp e) (bkids x) -> allP (sh src e) (bkids x) -> closedL (removelast (bkids x)) ->
            let y := match lastBlock x with Some c => set_lastBlocks x (closeBlock f src c e) | None => x end in
            allP (sh src M') [y] /\ closedL [y]).
  { intros x Ex Sx Kx Nx Hx Cx Px Qx Rx. cbv zeta.
    assert (Fin : forall y, bend y = e -> bstart y = bstart b -> bkind y = bkind b -> bn y = bn b -> closedL (bkids y) -> allP (sh src M') (bkids y) ->
              allP (sh src M') [y] /\ closedL [y]).
    { intros y E1 E2 E3 E4 E5 E6. split; [split; [|exact I]|split; [lia|exact I]]. apply sh_closed_mk; [lia|rewrite E1, E2, E3, E4; exact Hshape|exact E5|exact E6]. }
    destruct (lastBlock x) as [c|] eqn:El.
    - pose proof (lastBlock_split x c El) as Es.
      destruct (cc_lastBlock x c Cx El) as [Cc _].
      assert (Pc : sp e c) by (eapply allP_In; [exact Px|eapply lastBlock_In; exact El]).
      assert (Qc : sh src e c) by (eapply allP_In; [exact Qx|eapply lastBlock_In; exact El]).
      pose proof (bheight_last x c El) as Hhc.
      destruct (IH c ltac:(lia) Cc Pc Qc M') as [I1 I2].
      rewrite Es in Qx. apply allP_app in Qx. destruct Qx as [Qx _].
      apply Fin; try (destruct x; assumption).
      + unfold set_lastBlocks. rewrite bkids_set_bkids. apply closedL_app. split; assumption.
      + unfold set_lastBlocks. rewrite bkids_set_bkids. apply allP_app. split; [|exact I1]. eapply allP_sh_closed_any; eassumption.
    - assert (Ek : bkids x = []).
      { unfold lastBlock in El. destruct (rev (bkids x)) eqn:Er; [|discriminate]. rewrite <- (rev_involutive (bkids x)), Er. reflexivity. }
      apply Fin; try assumption; rewrite Ek; exact I. }
  rewrite bkind_set_bend.
  assert (C1 : cc (set_bend b e) = true) by (rewrite cc_set_bend; exact Hc).
  assert (Hb1 : bheight (set_bend b e) = bheight b) by (destruct b; reflexivity).
  destruct (bkind b =? ListKind).
  { destruct (cc_onCloseList _ C1) as [A A']. unfold onCloseList in *. cbv zeta in *.
    destruct (bloose (set_bend b e) || _).
    - apply Hcl.
      + rewrite bend_set_bkids, bend_set_bloose. apply bend_set_bend.
      + rewrite bstart_set_bkids, bstart_set_bloose. apply bstart_set_bend.
      + rewrite bkind_set_bkids, bkind_set_bloose. apply bkind_set_bend.
      + rewrite bn_set_bkids. destruct b; reflexivity.
      + destruct b as [K s e0 bk ik a n c l lb]. cbn [set_bend set_bloose set_bkids bkids bheight] in *.
        assert (G : forall l0, fold_right (fun c0 acc => Nat.max (bheight c0) acc) 0%nat (map (fun it => set_bloose it true) l0) =
                           fold_right (fun c0 acc => Nat.max (bheight c0) acc) 0%nat l0).
        { induction l0 as [|x r IHr]; [reflexivity|]. cbn [map fold_right]. rewrite IHr, bheight_set_bloose. reflexivity. }
        rewrite G. exact Hh.
      + exact A.
      + rewrite bkids_set_bkids, bk_set_bend. apply allP_map. eapply allP_impl; [|exact P5]. intros x Hx. apply sp_set_bloose, Hx.
      + rewrite bkids_set_bkids, bk_set_bend. apply allP_map. eapply allP_impl; [|exact C]. intros x Hx. apply sh_set_bloose, Hx.
      + rewrite bkids_set_bkids, bk_set_bend, removelast_map. apply closedL_map; [intros x; apply bend_set_bloose|exact B2].
    - apply Hcl; try (destruct b; reflexivity); try assumption; try (rewrite bk_set_bend; assumption). rewrite Hb1. exact Hh. }
  destruct (bkind b =? IndentedCodeBlockKind).
  { destruct (cc_onCloseIndented src (set_bend b e)) as [A _]. rewrite C1 in A. unfold onCloseIndented in *.
    apply Hcl; try (destruct b; reflexivity); try assumption; try (rewrite bk_set_bik, bk_set_bend; assumption).
    destruct b; exact Hh. }
  destruct ((bkind b =? ParagraphKind) || (bkind b =? SetextHeadingKind)) eqn:Ep.
  { destruct (P3 Eo) as [N4 Pa]. destruct B1 as (_ & _ & _ & _ & N5).
    assert (HK : bkind b = ParagraphKind).
    { apply orb_true_iff in Ep. destruct Ep as [Ep|Ep]; apply Z.eqb_eq in Ep; [exact Ep|contradiction]. }
    assert (Hk : bkids b = []) by (apply para_no_kids; assumption).
    assert (Hres : allP (okRes ParagraphKind (bn b) e e) (onCloseParagraph src (set_bend b e))).
    { unfold onCloseParagraph. rewrite bik_set_bend. destruct (bik b) as [|first rest] eqn:Eb.
      - split; [|exact I]. unfold okRes. rewrite bend_set_bend, bk_set_bend, bkind_set_bend, bstart_set_bend, Hk.
        repeat split; try assumption; try lia. right. repeat split; try assumption; try lia. destruct b; reflexivity.
      - cbv zeta. rewrite bkind_set_bend, HK. change (ParagraphKind =? SetextHeadingKind) with false. cbv iota.
        rewrite <- Eb. rewrite <- (bik_set_bend b e).
        apply (ocp_res_start ParagraphKind (bn b) e e _ src (set_bend b e)) with (rest := rest); try assumption.
        + rewrite bk_set_bend. exact Hk.
        + apply bend_set_bend.
        + rewrite bkind_set_bend. exact HK.
        + destruct b; reflexivity.
        + rewrite bstart_set_bend. lia.
        + rewrite bstart_set_bend, bik_set_bend, Eb. apply Pa, HK.
        + rewrite bik_set_bend. exact Eb. }
    split.
    - eapply allP_impl; [|exact Hres]. intros y Hy. eapply okRes_para_sh; exact Hy.
    - eapply allP_impl; [|exact Hres]. intros y (Hy & _). exact Hy. }
  apply Hcl; try (destruct b; reflexivity); try assumption; try (rewrite bk_set_bend; assumption). rewrite Hb1. exact Hh.
Qed.
