From Coq Require Import List ZArith Lia Bool.
Import ListNotations.
Require Import Base Tree Rdr Link Collect Html Recog LP Rules Starts Driver Render L2Kind L2CC GramDefs GramTree GramLP GramLP2 GramLP3 GramLP4.
Require L2Kind2.
Require Import TDefs TInv TDesc TStarts TLine BSLine1 BSLine3 TilLP1 TilLP8 TilLP10 TilLP11 ReparsePass ReparseDead.
Open Scope Z_scope.

(* T50 continuation, file 10: an anchor.  When a block quote, list item (or document) block lies on the spine strictly below the
   root and at or above the container, no block start and no paragraph can climb out of it: the open root child stays open. *)
Definition anchAt (p : lp) (dM : nat) : Prop :=
  (1 <= dM <= cdepth p)%nat /\ exists k, kindAt dM (root p) = Some k /\ wide k.
Definition JAat (p : lp) (dM : nat) : Prop := open1r (root p) /\ anchAt p dM.
Definition JA (p : lp) : Prop := exists dM, JAat p dM.

Lemma wide_contains k K : wide k -> K <> ListItemKind -> canContain k K = true.
Proof. intros [-> |[-> | ->]] H; unfold canContain; cbn; apply negb_true_iff, Z.eqb_neq, H. Qed.

Lemma open1_updAt_gen f d rt : (1 <= d)%nat -> (d = 1%nat -> forall b, isOpen (f b) = isOpen b) -> open1r rt -> open1r (updAt d f rt).
Proof.
  intros Hd Hf (x & Ek & Ho). destruct d as [|d]; [lia|]. cbn [updAt].
  assert (El : lastBlock rt = Some x) by (unfold lastBlock; rewrite Ek; reflexivity). rewrite El.
  exists (updAt d f x). split; [rewrite (bkids_set_lastBlocks rt [] x _ Ek); reflexivity|].
  destruct d as [|d]; [cbn [updAt]; rewrite (Hf eq_refl); exact Ho|].
  cbn [updAt]. destruct (lastBlock x); [|exact Ho]. unfold isOpen in *. rewrite bend_set_lastBlocks. exact Ho.
Qed.

Lemma kindAt_updAt_lt f : forall d d' r, (d < d')%nat -> kindAt d (updAt d' f r) = kindAt d r.
Proof.
  unfold kindAt. induction d as [|d IH]; intros d' r Hd.
  - destruct d' as [|d']; [lia|]. cbn [updAt getAt option_map]. destruct (lastBlock r); [destruct r; reflexivity|reflexivity].
  - destruct d' as [|d']; [lia|]. cbn [updAt]. rewrite !getAt_S.
    destruct (lastBlock r) as [c|] eqn:El; [|rewrite El; reflexivity].
    rewrite lastBlock_set_last; [apply IH; lia|]. intros E. unfold lastBlock in El. rewrite E in El. discriminate.
Qed.

Lemma containerKind_kindAt p : kindAt (cdepth p) (root p) = Some (containerKind p) \/ kindAt (cdepth p) (root p) = None.
Proof. unfold kindAt, containerKind, contBlock. destruct (getAt _ _); [left|right]; reflexivity. Qed.

(* an update at the anchor or below, which keeps kinds and openness *)
Lemma JAat_updAt p f d dM : JAat p dM -> (dM <= d)%nat -> (forall b, bkind (f b) = bkind b) ->
  (forall b, isOpen (f b) = isOpen b) -> JAat (withRoot p (updAt d f (root p))) dM.
Proof.
  intros (Ho & (Hd & k & Hk & Hw)) Hle Hf Hop. split.
  - cbn [root withRoot setLP]. apply open1_updAt_gen; [lia|intros _; exact Hop|exact Ho].
  - split; [exact Hd|]. exists k. split; [|exact Hw].
    change (root (withRoot p (updAt d f (root p)))) with (updAt d f (root p)). rewrite kindAt_updAt; assumption.
Qed.
(* an update strictly below the anchor *)
Lemma JAat_updAt_below p f d dM : JAat p dM -> (dM < d)%nat -> JAat (withRoot p (updAt d f (root p))) dM.
Proof.
  intros (Ho & (Hd & k & Hk & Hw)) Hle. split.
  - cbn [root withRoot setLP]. apply open1_updAt_gen; [lia|intros E; lia|exact Ho].
  - split; [exact Hd|]. exists k. split; [|exact Hw].
    change (root (withRoot p (updAt d f (root p)))) with (updAt d f (root p)). rewrite kindAt_updAt_lt; assumption.
Qed.

Lemma JAat_same p p' dM : same_tree p p' -> JAat p dM -> JAat p' dM.
Proof. intros [A B] (Ho & (Hd & Hk)). unfold JAat, anchAt, cdepth. rewrite A, B. tauto. Qed.
Lemma JA_same p p' : same_tree p p' -> JA p -> JA p'.
Proof. intros Hs (dM & H). exists dM. eapply JAat_same; eassumption. Qed.

Lemma JA_upd p f : JA p -> keepsShape f -> JA (updCont p f).
Proof.
  intros (dM & H) Hf. exists dM. unfold updCont. apply JAat_updAt; [exact H|destruct H as (_ & (Hd & _)); lia|intros b; apply Hf|intros b; apply Hf].
Qed.

Lemma JAat_closeAt p d e dM : JAat p dM -> (dM <= d)%nat -> JAat (closeLastChildAt p d e) dM.
Proof.
  intros H Hle. rewrite closeLastChildAt_eq. apply JAat_updAt; [exact H|exact Hle|apply bkind_closeF|].
  intros b. unfold TInv.closeF. destruct (lastBlock b); [|reflexivity]. unfold isOpen. rewrite bend_set_lastBlocks. reflexivity.
Qed.
Lemma JAat_withCont p d dM : JAat p dM -> (dM <= d)%nat -> JAat (withCont p (Some d)) dM.
Proof.
  intros (Ho & (Hd & Hk)) Hle. split; [exact Ho|]. unfold anchAt. change (cdepth (withCont p (Some d))) with d.
  change (root (withCont p (Some d))) with (root p). split; [lia|exact Hk].
Qed.

(* the anchor is never the container when the container cannot take the new block *)
Lemma anchor_below p K dM : K <> ListItemKind -> canContain (containerKind p) K = false -> anchAt p dM -> (dM < cdepth p)%nat.
Proof.
  intros HK Hc (Hd & k & Hk & Hw). destruct (Nat.eq_dec dM (cdepth p)) as [E|N]; [|lia]. exfalso. subst dM.
  destruct (containerKind_kindAt p) as [E|E]; rewrite E in Hk; [|discriminate]. inversion Hk; subst k.
  rewrite (wide_contains _ K Hw HK) in Hc. discriminate.
Qed.

Lemma JAat_openBlock_up K dM : K <> ListItemKind -> forall fuel p, JAat p dM -> JAat (openBlock_up fuel p K) dM.
Proof.
  intros HK. induction fuel as [|f IH]; intros p H; [exact H|]. cbn [openBlock_up].
  destruct (canContain (containerKind p) K) eqn:Ec; [exact H|].
  destruct (cdepth p) as [|d] eqn:Ed; [eapply JAat_same; [|exact H]; split; reflexivity|].
  pose proof (anchor_below p K dM HK Ec (proj2 H)) as Hlt. rewrite Ed in Hlt.
  apply IH. apply JAat_withCont; [|lia]. apply JAat_closeAt; [exact H|lia].
Qed.

Lemma JAat_obPre p K dM : (K <> ListItemKind \/ canContain (containerKind p) K = true) -> JAat p dM -> JAat (obPre p K) dM.
Proof.
  intros HK H. unfold obPre. cbv zeta.
  set (p0 := if state p =? stOpening then withState p stOpenMatched else p).
  assert (T0 : same_tree p p0) by (unfold p0; destruct (_ =? _); split; reflexivity).
  assert (H0 : JAat p0 dM) by (eapply JAat_same; eassumption).
  assert (H2 : JAat (openBlock_up (S (cdepth p0)) p0 K) dM).
  { destruct (Z.eq_dec K ListItemKind) as [E|N]; [|apply JAat_openBlock_up; assumption].
    destruct HK as [HK|HK]; [contradiction|]. cbn [openBlock_up]. rewrite (containerKind_same p p0 T0), HK. exact H0. }
  set (p2 := openBlock_up (S (cdepth p0)) p0 K) in *.
  change (lineStart p2) with (lineStart p2). apply JAat_closeAt; [exact H2|apply H2].
Qed.

Lemma JA_open_any p K : JA p -> (K <> ListItemKind \/ canContain (containerKind p) K = true) -> JA (openBlock p K).
Proof.
  intros (dM & H) HK. exists dM. unfold openBlock. destruct (_ || _); [eapply JAat_same; [|exact H]; split; reflexivity|].
  change (JAat (withCont (updCont (obPre p K) (appendB (newBlock K (obPos p K)))) (Some (S (cdepth (obPre p K))))) dM).
  pose proof (JAat_obPre p K dM HK H) as H3. apply JAat_withCont; [|destruct H3 as (_ & (Hd & _)); lia].
  unfold updCont. apply JAat_updAt; [exact H3|apply H3|intros b; destruct b; reflexivity|intros b; destruct b; reflexivity].
Qed.
Lemma JA_open p K : ccP p -> JA p -> st_open p -> startK K ->
  (K <> ListItemKind \/ canContain (containerKind p) K = true) -> JA (openBlock p K).
Proof. intros _ H _ _ HK. apply JA_open_any; assumption. Qed.

Lemma JA_end_nw p : JA p -> ~ wide (containerKind p) -> JA (endBlock p).
Proof.
  intros (dM & H) Hnw. exists dM. unfold endBlock. destruct (_ || _); [eapply JAat_same; [|exact H]; split; reflexivity|]. cbv zeta.
  set (p0 := if state p =? stOpening then withState p stOpenMatched else p).
  assert (T0 : same_tree p p0) by (unfold p0; destruct (_ =? _); split; reflexivity).
  assert (H0 : JAat p0 dM) by (eapply JAat_same; eassumption).
  destruct (cdepth p0) as [|d] eqn:Ed; [eapply JAat_same; [|exact H0]; split; reflexivity|].
  assert (Hlt : (dM <= d)%nat).
  { destruct H0 as (_ & (Hd & k & Hk & Hw)). destruct (Nat.eq_dec dM (S d)) as [E|N]; [|lia]. exfalso. subst dM. rewrite <- Ed in Hk.
    destruct (containerKind_kindAt p0) as [E|E]; rewrite E in Hk; [|discriminate]. inversion Hk; subst k.
    rewrite (containerKind_same p p0 T0) in Hw. contradiction. }
  apply JAat_withCont; [|exact Hlt]. apply JAat_closeAt; [exact H0|exact Hlt].
Qed.
Lemma endK_nw K : endK K -> ~ wide K.
Proof. intros [-> |[-> |[-> | ->]]] [E|[E|E]]; discriminate. Qed.
Lemma JA_end p : GI p -> CU p -> JA p -> endK (containerKind p) -> JA (endBlock p).
Proof. intros _ _ H Hk. apply JA_end_nw; [exact H|apply endK_nw, Hk]. Qed.

Lemma JA_setext p : GI p -> CU p -> JA p -> JA (startSetext p).
Proof.
  intros _ _ H. unfold startSetext. cbv zeta. destruct (negb (containerKind p =? ParagraphKind)) eqn:Ek; [exact H|].
  destruct (codeBlockIndentLimit <=? indent p); [exact H|]. destruct (parseSetextHeadingUnderline (bytesAfterIndent p) =? 0); [exact H|].
  destruct (negb (containerHasParagraphContent p)); [exact H|].
  apply negb_false_iff, Z.eqb_eq in Ek.
  set (f := fun b : block => set_bn (set_bkind b SetextHeadingKind) _).
  assert (H1 : JA (updCont p f)).
  { destruct H as (dM & H). exists dM. unfold updCont. apply JAat_updAt_below; [exact H|].
    destruct H as (_ & (Hd & k & Hk & Hw)). destruct (Nat.eq_dec dM (cdepth p)) as [E|N]; [|lia]. exfalso. subst dM.
    destruct (containerKind_kindAt p) as [E|E]; rewrite E in Hk; [|discriminate]. inversion Hk; subst k. rewrite Ek in Hw.
    destruct Hw as [E'|[E'|E']]; discriminate. }
  apply JA_end_nw.
  - eapply JA_same; [apply same_consumeLine|exact H1].
  - rewrite (containerKind_same _ _ (same_consumeLine (updCont p f))).
    assert (Ekk : containerKind (updCont p f) = SetextHeadingKind \/ containerKind (updCont p f) = 0).
    { unfold containerKind, contBlock, updCont. cbn [root container cdepth withRoot setLP]. fold (cdepth p).
      rewrite L2Kind2.getAt_updAt_same. destruct (getAt (cdepth p) (root p)) as [b|]; [left; destruct b; reflexivity|right; reflexivity]. }
    destruct Ekk as [-> | ->]; intros [E|[E|E]]; discriminate.
Qed.

(* the instance of the generic pass *)
Definition IA : lp -> Prop := Iv JA.
Lemma IA_opening_loop fuel p : IA p -> IA (snd (opening_loop fuel p)).
Proof. apply (I_opening_loop JA JA_same JA_upd JA_open JA_end JA_setext). Qed.
Lemma IA_itemTail p2 delim ind mend : st_open p2 -> GI p2 -> CU p2 -> containerKind p2 = ListKind -> bchar (contBlock p2) = delim ->
  JA (openBlock p2 ListItemKind) -> IA (itemTail p2 delim ind mend).
Proof. apply (I_itemTail JA JA_same JA_upd JA_open JA_end). Qed.
Lemma IA_tryStarts fs p : Forall (startOKi JA) fs -> IA p -> IA (snd (tryStarts fs p)).
Proof. apply (I_tryStarts JA JA_same). Qed.
Lemma IA_startIndented : startOKi JA startIndented.
Proof. apply (I_startIndented JA JA_same JA_upd JA_open). Qed.

(* ---- the rest of the line ---- *)
Lemma JA_cdepth p : JA p -> (1 <= cdepth p)%nat.
Proof. intros (dM & _ & (Hd & _)). lia. Qed.
Lemma JA_open1 p : JA p -> open1r (root p).
Proof. intros (dM & H & _). exact H. Qed.

Lemma JA_deferredClose p : GI p -> JA p -> JA (deferredClose p).
Proof.
  intros HG (dM & H). exists dM. unfold deferredClose. cbv zeta.
  destruct (_ && _).
  - apply JAat_withCont; [exact H|]. destruct H as (_ & (Hd & _)). destruct HG as (_ & _ & Hs).
    pose proof (so_le_tip _ (bheight (root p)) _ Hs ltac:(pose proof (so_depth _ _ Hs); lia)). lia.
  - apply JAat_closeAt; [exact H|apply H].
Qed.

Lemma JAat_setLB p v dM : JAat p dM -> forall d, JAat (withRoot p (setLastBlankUpTo d v (root p))) dM.
Proof.
  intros (Ho & (Hd & k & Hk & Hw)) d. split; [cbn [root withRoot setLP]; apply open1_setLB, Ho|].
  split; [exact Hd|]. exists k. split; [|exact Hw]. change (root (withRoot p (setLastBlankUpTo d v (root p)))) with (setLastBlankUpTo d v (root p)).
  unfold kindAt in *. rewrite L2Kind2.kindAt_setLastBlankUpTo. exact Hk.
Qed.

Lemma JA_addLineText_open p : JA p -> open1r (root (addLineText p)).
Proof.
  intros (dM & H). rewrite addLineText_eq.
  assert (H1 : JAat (alP1 p) dM).
  { unfold alP1. destruct (isRestBlank p); [|exact H]. unfold updCont. apply JAat_updAt; [exact H|apply H| |].
    - intros b. unfold fblast. destruct (lastBlock b); [destruct b; reflexivity|reflexivity].
    - intros b. unfold isOpen. rewrite bend_fblast. reflexivity. }
  assert (H2 : JAat (alP2 p) dM) by (unfold alP2; apply JAat_setLB, H1).
  assert (D2 : (1 <= cdepth (alP2 p))%nat) by (destruct H2 as (_ & (Hd & _)); lia).
  destruct (acceptsLines (containerKind (alP1 p))).
  - assert (HI : (1 <= cdepth (addInd (alP2 p)))%nat /\ open1r (root (addInd (alP2 p)))).
    { unfold addInd. set (q := updCont (alP2 p) _). destruct (same_consumeIndent q (tabRem (alP2 p))) as [R C].
      unfold cdepth. rewrite C, R. fold (cdepth q). split; [change (cdepth q) with (cdepth (alP2 p)); lia|].
      unfold q. apply open1_updCont; [lia|intros b; destruct b; reflexivity|apply H2]. }
    apply root_goF_open; destruct (tabCond (alP2 p)); try apply HI; [lia|apply H2].
  - destruct (negb (isRestBlank p)); [|apply H2].
    set (q := openBlock (alP2 p) ParagraphKind).
    assert (Hq : JA q) by (apply JA_open_any; [exists dM; exact H2|left; discriminate]).
    destruct (same_consumeIndent q (indent q)) as [R C].
    apply root_goF_open; [unfold cdepth; rewrite C; apply (JA_cdepth q Hq)|rewrite R; apply JA_open1, Hq].
Qed.
