From Coq Require Import List ZArith Lia Bool.
Import ListNotations.
Require Import Base Tree Driver.
Open Scope Z_scope.

(* C14 (i), final newline: the explicit relation between parseBlocks s and parseBlocks (s ++ [10]).
   Only the last root block changes.  L is the length of its (padded) source. *)
Definition bump (L e : Z) : Z := if e =? L then L + 1 else e.
(* line-text entries (Unparsed / RawHTML) move; an Indent entry (a partially consumed tab) does not *)
Definition bumpI (L : Z) (u : inline) : inline :=
  match u with Inl k s e i r ks => if k =? IndentKind then u else Inl k s (bump L e) i r ks end.
(* code blocks: the synthetic line break at end of input disappears, the last text line gains the newline *)
Definition finCode (L : Z) (ik : list inline) : list inline :=
  match rev ik with
  | Inl k2 s2 e2 _ _ _ :: Inl k1 s1 e1 i1 r1 ks1 :: pre =>
    if (k2 =? SoftLineBreakKind) && (s2 =? L) && (e2 =? L) && (k1 =? TextKind) && (e1 =? L)
    then rev pre ++ [Inl k1 s1 (L + 1) i1 r1 ks1] else ik
  | _ => ik
  end.
Definition finI (K L : Z) (ik : list inline) : list inline :=
  if (K =? ParagraphKind) || (K =? HTMLBlockKind) then map (bumpI L) ik
  else if (K =? IndentedCodeBlockKind) || (K =? FencedCodeBlockKind) then finCode L ik
  else ik.
Fixpoint finB (L : Z) (b : block) : block :=
  match b with Blk K s e bk ik a n c l lb =>
    if K =? ListMarkerKind then b else Blk K s (bump L e) (map (finB L) bk) (finI K L ik) a n c l lb end.
Definition finRoot (r : rootB) : rootB :=
  {| rb_line := rb_line r; rb_start := rb_start r; rb_end := rb_end r + 1; rb_src := rb_src r ++ [10];
     rb_blk := finB (len (rb_src r)) (rb_blk r) |}.
(* the last root changes only when it reaches the end of the input (trailing blank lines belong to no root) *)
Definition finRoots (n : Z) (l : list rootB) : list rootB :=
  match rev l with [] => [] | r :: pre => if rb_end r =? n then rev pre ++ [finRoot r] else l end.
Definition endsEol (s : bytes) : bool := match rev s with c :: _ => (c =? 10) || (c =? 13) | [] => false end.
Definition lastByte (s : bytes) : Z := match rev s with c :: _ => c | [] => 0 end.
(* the statement one would like (FALSE on the model, see EolFinal.final_newline_unrestricted_refuted): *)
Definition parseBlocks_final_newline_unrestricted : Prop :=
  forall s, s <> [] -> endsEol s = false ->
    parseBlocks (s ++ [10]) = (finRoots (len s) (fst (parseBlocks s)), snd (parseBlocks s)).
(* the statement that survives every test: the input does not end in '>' either (the `contains` loop of the HTML
   end conditions misses a match at the very end of a line, so "...?>" closes an HTML block only when a line ending follows) *)
Definition parseBlocks_final_newline_statement : Prop :=
  forall s, s <> [] -> endsEol s = false -> lastByte s <> 62 ->
    parseBlocks (s ++ [10]) = (finRoots (len s) (fst (parseBlocks s)), snd (parseBlocks s)).
