From Coq Require Import List ZArith Lia Bool.
Import ListNotations.
Require Import Base Tree Rdr Link Collect Html Recog Inl3e Driver Props.
Open Scope Z_scope.

(* Definitions only (this file is what the extracted driver needs): the entry conditions of InlineSpans.parseInlines_spans,
   copied verbatim so that the driver does not depend on the proof files; SpanHyp.v proves by reflexivity that the copies are
   the definitions the theorem speaks about, and lifts the theorem to whole root blocks. *)

Definition isEOLbX (c : Z) : bool := (c =? 10) || (c =? 13).
Fixpoint ordered_inX (lo hi : Z) (ks : list inline) : bool :=
  match ks with
  | [] => true
  | k :: r => (lo <=? istart k) && (iend k <=? hi) && ordered_inX (iend k) hi r
  end.
Definition entriesBasicX (src : bytes) (b : block) : bool :=
  ordered_inX (bstart b) (bend b) (bik b) && forallb (spansI false src (bstart b) (bend b)) (bik b).
Definition kindsOKX (U : list inline) : bool :=
  forallb (fun u => (ikind u =? UnparsedKind) || (ikind u =? IndentKind)) U.
Definition indentsOKX (U : list inline) : bool :=
  forallb (fun u => if ikind u =? IndentKind then (iend u =? istart u + 1) && (iindent u <=? 3) else true) U.
Fixpoint linesOKX (src : bytes) (U : list inline) : bool :=
  match U with
  | u :: ((v :: _) as r) =>
    (istart u <? iend u) &&
    (if ikind u =? IndentKind then true else isEOLbX (at_ src (iend u - 1))) &&
    linesOKX src r
  | _ => true
  end.
Definition tailOKX (src : bytes) (U : list inline) : bool :=
  match rev U with
  | [] => true
  | L :: rr =>
    let p := iend L in
    (len src <=? p) || isSpaceTabOrLineEnding (at_ src p) ||
    (negb (ikind L =? IndentKind) && (istart L <? p) && isSpaceTabOrLineEnding (at_ src (p - 1)) && negb (at_ src p =? 41)) ||
    (match rr with [] => istart L =? iend L | _ => false end)
  end.
Definition entriesOKX (src : bytes) (b : block) : bool :=
  entriesBasicX src b && kindsOKX (bik b) && indentsOKX (bik b) && linesOKX src (bik b) && tailOKX src (bik b).

Definition isLeafU (b : block) : bool := (0 <? len (bik b)) && hasUnparsed b.

Fixpoint entriesOKB (fuel : nat) (src : bytes) (b : block) : bool :=
  match fuel with
  | O => true
  | S f => if isLeafU b then entriesOKX src b else forallb (entriesOKB f src) (bkids b)
  end.

Definition entriesOKroots (roots : list rootB) : bool :=
  forallb (fun r => entriesOKB (bheight (rb_blk r)) (rb_src r) (rb_blk r)) roots.

(* the conclusion, on a root block after Rewrite: every inline forest ordered and inside its block, every node valid, nested *)
Fixpoint spansAfter (fuel : nat) (src : bytes) (matcher : list bytes) (b : block) : bool :=
  match fuel with
  | O => true
  | S f =>
    if isLeafU b then
      let ks := bik (rewriteB (S f) src matcher b) in
      ordered_inX (bstart b) (bend b) ks && forallb (spansI false src (bstart b) (bend b)) ks
    else forallb (spansAfter f src matcher) (bkids b)
  end.
