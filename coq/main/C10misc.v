From Coq Require Import List ZArith Lia Bool.
Import ListNotations.
Require Import Base Tables Utf8 Tree Rdr Link Collect Html Recog Inl3a Inl3b Inl3c Inl3d Inl3e Render.
Open Scope Z_scope.

(* C10: a link reference definition renders to nothing, in every configuration, whatever it contains *)
Theorem render_refdef_empty fuel c refs src pt b : bkind b = LinkReferenceDefinitionKind -> renderB fuel c refs src pt b = [].
Proof. intros E. destruct fuel as [|f]; [reflexivity|]. cbn [renderB]. cbv zeta. rewrite E. reflexivity. Qed.
(* and so do the inline parts of a definition, an info string, and any kind the renderer has no case for *)
Theorem render_silent_inline fuel c refs src i :
  (ikind i = InfoStringKind \/ ikind i = LinkLabelKind \/ ikind i = LinkDestinationKind \/ ikind i = LinkTitleKind) ->
  renderI fuel c refs src i = [].
Proof.
  intros E. destruct fuel as [|f]; [reflexivity|]. cbn [renderI]. cbv zeta.
  destruct E as [E|[E|[E|E]]]; rewrite E; reflexivity.
Qed.
Print Assumptions render_refdef_empty.
