From Coq Require Import List ZArith Lia Bool.
Import ListNotations.
Require Import Base Tree Rdr Link Collect Html Recog LP Rules Starts Driver Props L2Kind L2CC GramTree GramLP GramLP2 Cursor CursorX NoPanic12
  Rec16 Rec17 Rec18 RecBounds BSDef BSRdr BSTree BSOcp BSOrph BSClose
  BSLine1 BSLine2 BSLine3 BSLine4 BSLine5 BShDef ShDef ShRdr ShClose ShEnv ShLine1 ShLine2 ShFresh ShRecog ShSetext.
Open Scope Z_scope.

Definition SLI2 (p : lp) : Prop := SLI p \/ (acceptsLines (containerKind p) = true /\ containerKind p <> ParagraphKind).
Definition AllI (p : lp) : Prop := OPx p /\ G p /\ EV p /\ SR p /\ SC1 p.
Definition startOKsh (f : lp -> lp) : Prop :=
  forall p, lineOK (line p) -> st_open p -> AllI p -> LI p -> SLI p -> SR (f p) /\ SC1 (f p) /\ SLI2 (f p) /\ (SLI (f p) \/ ms (f p)).

Lemma AllI_cstep p p' : cstep p p' -> G p' -> AllI p -> AllI p'.
Proof.
  intros H HG (A & _ & C & D & E). split; [eapply OPx_cstep; eassumption|]. split; [exact HG|]. split; [eapply EV_cstep; eassumption|].
  split; [eapply SR_cstep; eassumption|eapply SC1_cstep; eassumption].
Qed.

Lemma sh_open_leaf src M Y : bend Y < 0 -> bkids Y = [] -> openOK src M (bkind Y) (bstart Y) -> sh src M Y.
Proof. intros A B C. rewrite sh_eq, B. split; [intros; lia|]. split; [intros _; split; [exact C|exact I]|exact I]. Qed.
Lemma sh_closed_leaf src M Y : 0 <= bend Y -> bkids Y = [] -> shapeKN (sub src (bstart Y) (bend Y)) (bkind Y) (bn Y) = true -> sh src M Y.
Proof. intros A B C. apply sh_closed_mk; [exact A|exact C|rewrite B; exact I|rewrite B; exact I]. Qed.
Lemma openOK_other src M K s : K <> FencedCodeBlockKind -> K <> BlockQuoteKind -> K <> ATXHeadingKind -> K <> ListMarkerKind -> K <> SetextHeadingKind ->
  openOK src M K s.
Proof. intros N1 N2 N3 N4 N5. split; [intros; contradiction|]. split; [intros; contradiction|tauto]. Qed.

(* opening a block of kind K at the cursor *)
Lemma open_basic p K : st_open p -> AllI p -> LI p -> SLI p -> K <> ListItemKind ->
  let q := obPre p K in
  BP q /\ canContain (containerKind q) K = true /\ SR q /\ kidsClosed q /\ EV q /\ frs q (openBlock p K) (newBlock K (lineStart p + li p)) /\
  envOf q = envOf p.
Proof.
  intros Hs (HO & HG & Hev & HS & HS1) HL HSL NK q.
  destruct (obPre_ok p K HO Hev HS HS1 (SPre_of p K ltac:(apply HO) HL HSL NK)) as (A & B & C & D & E).
  exact (conj A (conj B (conj C (conj D (conj E (conj (frs_openBlock p K Hs) (env_obPre p K))))))).
Qed.

(* the same after the indentation of the line has been consumed *)
Lemma open_indented p K : st_open p -> AllI p -> LI p -> SLI p -> K <> ListItemKind ->
  let p1 := consumeIndent p (indent p) in let q := obPre p1 K in let s := lineStart p + li p1 in
  BP q /\ canContain (containerKind q) K = true /\ SR q /\ kidsClosed q /\ EV q /\ frs q (openBlock p1 K) (newBlock K s) /\
  envOf q = envOf p /\ bytesAfterIndent p = from_ (source p) s /\ 0 <= s /\ s + len (bytesAfterIndent p) = len (source p) /\ st_open p1 /\ AllI p1.
Proof.
  intros Hs HA HL HSL NK p1 q s. pose proof HA as (HO & HG & Hev & HS & HS1). pose proof HG as (It & Lt & _).
  destruct (consume_all p It Lt) as (R1 & L1 & L2 & _). fold p1 in R1, L1, L2.
  pose proof (cstep_consumeIndent p (indent p)) as Hc. fold p1 in Hc.
  assert (S1 : st_open p1) by (apply st_open_consumeIndent, Hs).
  assert (A1 : AllI p1) by (eapply AllI_cstep; [exact Hc|apply G_consumeIndent, HG|exact HA]).
  assert (L1' : LI p1) by (eapply LI_cstep; eassumption). assert (SL1 : SLI p1) by (eapply SLI_cstep; eassumption).
  destruct (open_basic p1 K S1 A1 L1' SL1 NK) as (B1 & B2 & B3 & B4 & B5 & B6 & B7). fold q in B1, B2, B3, B4, B5, B6, B7.
  destruct (env_parts _ _ (env_of_cstep _ _ Hc)) as (E1 & E2 & E3).
  assert (Hli : 0 <= li p1) by (destruct It as [I0 _]; pose proof (indentLength_nonneg (rest p)); lia).
  assert (Ev1 : EV p1) by apply A1.
  pose proof (rest_src p1 Ev1 Hli) as Hr. rewrite E1, E2 in Hr. fold s in Hr.
  pose proof (len_line_src p Hev) as Hll.
  refine (conj B1 (conj B2 (conj B3 (conj B4 (conj B5 (conj _ (conj _ (conj _ (conj _ (conj _ (conj S1 A1))))))))))).
  - rewrite E2 in B6. exact B6.
  - rewrite B7. apply env_of_cstep, Hc.
  - rewrite <- R1. exact Hr.
  - destruct Hev as (_ & Q). unfold s. lia.
  - rewrite <- R1. unfold rest. rewrite E3, Rec17.len_from by lia. unfold s. lia.
Qed.

(* conclusions for a state built by attaching a block *)
Lemma fin_in q pf Y : BP q -> SR q -> kidsClosed q -> frs q pf Y -> sh (source q) (len (source q)) Y -> bkids Y = [] -> SR pf /\ SC1 pf.
Proof.
  intros HB HS HK (A & B & C) HY Hk. split; [eapply SR_fresh; eassumption|]. eapply SC1_fresh_in; try eassumption. apply HB.
Qed.
Lemma fin_out q pf Y : BP q -> SR q -> kidsClosed q -> root pf = updAt (cdepth q) (appendB Y) (root q) -> cdepth pf = cdepth q -> envOf pf = envOf q ->
  sh (source q) (len (source q)) Y -> 0 <= bend Y -> SR pf /\ SC1 pf.
Proof.
  intros HB HS HK A B C HY Hc. split; [eapply SR_fresh; eassumption|]. eapply SC1_fresh_out; try eassumption. apply HB.
Qed.
Lemma SLI2_in q pf Y : ccP q -> frs q pf Y -> acceptsLines (bkind Y) = true -> bkind Y <> ParagraphKind -> SLI2 pf.
Proof.
  intros D (A & B & C) Ha N. right. destruct (wf_le q (cdepth q) D ltac:(lia)) as (x & Ex).
  assert (E : containerKind pf = bkind Y).
  { unfold containerKind, contBlock. rewrite A, B, (getAt_fresh q Y D). reflexivity. }
  rewrite E. tauto.
Qed.

Lemma sOKsh_startBlockQuote : startOKsh startBlockQuote.
Proof.
  intros p Hlk Hs HA HL HSL. unfold startBlockQuote. cbv zeta.
  assert (Same : SR p /\ SC1 p /\ SLI2 p /\ (SLI p \/ ms p)) by (split; [apply HA|split; [apply HA|split; [left; exact HSL|left; exact HSL]]]).
  destruct (_ <=? _); [exact Same|]. destruct (hasBytePrefix (bytesAfterIndent p) [62]) eqn:Eq; cbn [negb]; [|exact Same]. clear Same.
  destruct (open_indented p BlockQuoteKind Hs HA HL HSL ltac:(discriminate)) as (B1 & B2 & B3 & B4 & B5 & B6 & B7 & B8 & B9 & B10 & B11 & B12).
  set (p1 := consumeIndent p (indent p)) in *. set (q := obPre p1 BlockQuoteKind) in *. set (s := lineStart p + li p1) in *.
  set (p2 := openBlock p1 BlockQuoteKind) in *.
  assert (Hc : cstep p2 (if 0 <? indent (advance p2 1) then consumeIndent (advance p2 1) 1 else advance p2 1)).
  { destruct (0 <? _); [eapply cstep_trans; [apply cstep_advance|apply cstep_consumeIndent]|apply cstep_advance]. }
  pose proof (frs_cstep _ _ _ _ B6 Hc) as Hf.
  destruct (quote_head _ Eq) as [Q1 Q2]. destruct (env_parts _ _ B7) as (E1 & _).
  assert (HY : sh (source q) (len (source q)) (newBlock BlockQuoteKind s)).
  { apply sh_open_leaf; [cbn; lia|reflexivity|]. cbn [newBlock bkind bstart]. rewrite E1.
    split; [intros; discriminate|]. split; [|repeat split; discriminate]. intros _. split; [lia|].
    rewrite B8 in Q2. rewrite Rec17.at_from in Q2 by lia. replace (s + 0) with s in Q2 by lia. exact Q2. }
  destruct (fin_in q _ _ B1 B3 B4 Hf HY eq_refl) as [F1 F2].
  assert (F3 : SLI (if 0 <? indent (advance p2 1) then consumeIndent (advance p2 1) 1 else advance p2 1)).
  { destruct Hf as (Fa & Fb & Fc). eapply SLI_fresh_in; [apply B1|exact Fa|exact Fb|]. right; left; reflexivity. }
  split; [exact F1|split; [exact F2|split; [left; exact F3|left; exact F3]]].
Qed.
