From Coq Require Import List ZArith Lia Bool.
Import ListNotations.
Require Import Base Tree Driver Inl3e Render Props EolCRRenderDefs EolCRRenderI EolCRLFDefs EolCRLFRenderDefs EolCRLFRenderRC EolCRLFRenderI.
Require EolCRLFFull EolCRRenderDoc EolCRRenderTree C13All.
Open Scope Z_scope.

(* ====================================================================================================
   Property C14, CRLF clause, on the rendered HTML, for every cfg:
   for an input without CR (under the label-limit condition of EolCRLFFull.parseFull_crlf_limit), replacing
   every LF by CR LF changes the rendered HTML only by CR bytes inserted immediately before LF bytes:
     RC a b  = "b is a with a CR inserted before some of the LF bytes of a".
   The LF bytes the renderer writes itself ("<br />\n", the blank line between blocks, the [10] of an empty
   synthetic soft break) stay bare in both outputs; the line endings copied from the source (text, code blocks,
   HTML blocks, raw inline HTML, soft breaks in the default mode softBreak c = 0, titles) become CR LF.
   Ingredients: EolCRLFFull.parseFull_crlf_limit (the trees after the inline pass are the phi-images),
   C13All.C13_full (every span is valid; shape of CharacterReference and ListMarker spans),
   EolCRRenderTree.destOK (no line ending inside a link destination / autolink text),
   EolCRRenderDoc.parseFull_refK (the second entry of a definition block is its destination).
   ==================================================================================================== *)

Lemma fold_defs_relC s : forall roots acc acc',
  (forall r, In r roots -> shapesB (rb_src r) (rb_blk r) = true /\ dokB (rb_src r) (rb_blk r) = true /\ refK (rb_blk r) = true) ->
  refsRC acc acc' ->
  refsRC (fold_left (fun a r => extractDefs (bheight (rb_blk r)) (rb_src r) (rb_blk r) a) roots acc)
         (fold_left (fun a r => extractDefs (bheight (rb_blk r)) (rb_src r) (rb_blk r) a) (map (phiRoot s) roots) acc').
Proof.
  induction roots as [|r roots IH]; intros acc acc' H Ha; [exact Ha|]. cbn [map fold_left]. apply IH.
  - intros x Hx. apply H. right. exact Hx.
  - destruct (H r (or_introl eq_refl)) as (A & B & C). unfold phiRoot at 1 2 3. cbn [rb_blk rb_src].
    rewrite EolCRLFFull.bheight_phiB. apply extractDefs_relC; assumption.
Qed.

Theorem renderDoc_crlf : forall c s, ~ In 13 s -> 2 * len (crlf (pad s)) + 9 < 999 -> RC (renderDoc c s) (renderDoc c (crlf s)).
Proof.
  intros c s Hs Hlim. unfold renderDoc. rewrite (EolCRLFFull.parseFull_crlf_limit s Hs Hlim).
  pose proof (C13All.C13_full s) as Hsh. pose proof (EolCRRenderDoc.parseFull_refK s) as Hrk. pose proof (EolCRRenderTree.destOK s) as Hd.
  rewrite forallb_forall in Hsh, Hd.
  destruct (parseFull s) as [roots code]. cbn [fst snd] in *.
  assert (Hall : forall r, In r roots -> shapesB (rb_src r) (rb_blk r) = true /\ dokB (rb_src r) (rb_blk r) = true /\ refK (rb_blk r) = true).
  { intros r Hr. split; [apply (Hsh r Hr)|]. split; [apply Hd, Hr|apply Hrk, Hr]. }
  pose proof (fold_defs_relC s roots [] [] Hall (Forall2_nil _)) as Hrefs.
  set (refs := fold_left _ roots []) in *. set (refs' := fold_left _ (map (phiRoot s) roots) []) in *. clearbody refs refs'.
  apply joinBlocks_RC. rewrite map_map. clear Hsh Hrk Hd.
  induction roots as [|r roots IH]; [constructor|]. cbn [map]. constructor.
  - destruct (Hall r (or_introl eq_refl)) as (A & B & _). unfold phiRoot. cbn [rb_blk rb_src]. rewrite EolCRLFFull.bheight_phiB.
    apply (renderB_RC c (rb_src r) refs refs' Hrefs); assumption.
  - apply IH. intros x Hx. apply Hall. right. exact Hx.
Qed.
Print Assumptions renderDoc_crlf.

Theorem renderDoc_crlf_holds : renderDoc_crlf_statement.
Proof. exact renderDoc_crlf. Qed.

(* the statement unfolded, so that it can be read without EolCRLFDefs *)
Theorem renderDoc_crlf_unfolded : forall c s, ~ In 13 s ->
  2 * len (flat_map (fun b => if b =? 10 then [13; 10] else [b]) (pad s)) + 9 < 999 ->
  RC (renderDoc c s) (renderDoc c (flat_map (fun b => if b =? 10 then [13; 10] else [b]) s)).
Proof. exact renderDoc_crlf. Qed.
Print Assumptions renderDoc_crlf_unfolded.

(* ---- the executable checker used in the tests decides RC ---- *)
Lemma RCb_complete a b : RC a b -> RCb a b = true.
Proof.
  induction 1 as [|x a b H IH|a b H IH]; [reflexivity| |].
  - cbn [RCb]. rewrite Z.eqb_refl. exact IH.
  - cbn [RCb]. change (13 =? 10) with false. change ((10 =? 10) && (13 =? 13)) with true. cbv iota. rewrite Z.eqb_refl. exact IH.
Qed.
Lemma RCb_sound : forall a b, RCb a b = true -> RC a b.
Proof.
  induction a as [|x a IH]; intros b H; destruct b as [|y b]; try discriminate H; [constructor|].
  cbn [RCb] in H. destruct (Z.eqb_spec y x) as [->|N]; [apply RC_same, IH, H|].
  destruct ((x =? 10) && (y =? 13)) eqn:E; [|discriminate H]. apply andb_true_iff in E. destruct E as [E1 E2]. apply Z.eqb_eq in E1, E2. subst x y.
  destruct b as [|z b]; [discriminate H|]. apply andb_true_iff in H. destruct H as [Hz H]. apply Z.eqb_eq in Hz. subst z. apply RC_ins, IH, H.
Qed.
Corollary renderDoc_crlf_checker : forall c s, ~ In 13 s -> 2 * len (crlf (pad s)) + 9 < 999 -> RCb (renderDoc c s) (renderDoc c (crlf s)) = true.
Proof. intros c s Hs Hl. apply RCb_complete, renderDoc_crlf; assumption. Qed.

(* ---- what a property test can compare ---- *)
(* (1) after deleting every CR the outputs are equal: unconditional *)
Theorem renderDoc_crlf_delCR : forall c s, ~ In 13 s -> 2 * len (crlf (pad s)) + 9 < 999 ->
  delCR (renderDoc c (crlf s)) = delCR (renderDoc c s).
Proof. intros c s Hs Hl. apply delCR_RC, renderDoc_crlf; assumption. Qed.
Print Assumptions renderDoc_crlf_delCR.

(* (2) deleting only the CRs that are followed by LF gives the LF rendering back -- provided the LF rendering contains
   no CR LF pair of its own (it can: "&#13;" in a title is decoded into the attribute value) *)
Theorem renderDoc_crlf_norm : forall c s, ~ In 13 s -> 2 * len (crlf (pad s)) + 9 < 999 -> noCrLfb (renderDoc c s) = true ->
  normCrlf (renderDoc c (crlf s)) = renderDoc c s /\ normCrlf (renderDoc c (crlf s)) = normCrlf (renderDoc c s).
Proof.
  intros c s Hs Hl Hn. pose proof (normCrlf_RC _ _ (renderDoc_crlf c s Hs Hl) Hn) as E. split; [exact E|].
  rewrite E. symmetry. apply normCrlf_id, Hn.
Qed.
Print Assumptions renderDoc_crlf_norm.
Corollary renderDoc_crlf_norm_nocr : forall c s, ~ In 13 s -> 2 * len (crlf (pad s)) + 9 < 999 -> ~ In 13 (renderDoc c s) ->
  normCrlf (renderDoc c (crlf s)) = normCrlf (renderDoc c s).
Proof. intros c s Hs Hl Hn. apply renderDoc_crlf_norm; [exact Hs|exact Hl|apply noCrLfb_no13, Hn]. Qed.
Print Assumptions renderDoc_crlf_norm_nocr.

(* the safe-mode instances (ignoreRaw := true, filterOn := true, any filter predicate, any soft-break mode) *)
Corollary renderDoc_crlf_safe : forall sb p s, ~ In 13 s -> 2 * len (crlf (pad s)) + 9 < 999 ->
  let c := {| softBreak := sb; ignoreRaw := true; filterOn := true; filterP := p |} in
  RC (renderDoc c s) (renderDoc c (crlf s)) /\ delCR (renderDoc c (crlf s)) = delCR (renderDoc c s) /\
  (noCrLfb (renderDoc c s) = true -> normCrlf (renderDoc c (crlf s)) = normCrlf (renderDoc c s)).
Proof.
  intros sb p s Hs Hl c. split; [apply renderDoc_crlf; assumption|]. split; [apply renderDoc_crlf_delCR; assumption|].
  intros Hn. apply renderDoc_crlf_norm; assumption.
Qed.
Print Assumptions renderDoc_crlf_safe.

(* (3) the naive normalised equality is FALSE, also with normCrlf on both sides, also in safe mode:
   input  [x](/u "a&#13;<LF>b")<LF> : the title is a CR LF b in the LF rendering and a CR CR LF b in the CR LF rendering;
   normCrlf gives a LF b against a CR LF b *)
Definition cex : bytes := [91;120;93;40;47;117;32;34;97;38;35;49;51;59;10;98;34;41;10].
Definition cSafe : cfg := {| softBreak := 0; ignoreRaw := true; filterOn := true; filterP := fun _ => false |}.
Lemma cex_ok : ~ In 13 cex /\ 2 * len (crlf (pad cex)) + 9 < 999.
Proof. split; [intros H; vm_compute in H; repeat (destruct H as [H|H]; [discriminate H|]); exact H|vm_compute; reflexivity]. Qed.
Lemma renderDoc_crlf_norm_counterexample : normCrlf (renderDoc cSafe (crlf cex)) <> normCrlf (renderDoc cSafe cex).
Proof. intros H. vm_compute in H. discriminate H. Qed.
(* a second witness, for the first half of renderDoc_crlf_norm without its hypothesis: [y](/v 'c&#13;&#10;d')<LF> has the
   pair CR LF in its LF rendering, and the CR LF rendering is the same; normCrlf deletes that CR *)
Definition cex2 : bytes := [91;121;93;40;47;118;32;39;99;38;35;49;51;59;38;35;49;48;59;100;39;41;10].
Lemma cex2_ok : ~ In 13 cex2 /\ 2 * len (crlf (pad cex2)) + 9 < 999.
Proof. split; [intros H; vm_compute in H; repeat (destruct H as [H|H]; [discriminate H|]); exact H|vm_compute; reflexivity]. Qed.
Lemma renderDoc_crlf_norm_counterexample2 : normCrlf (renderDoc cSafe (crlf cex2)) <> renderDoc cSafe cex2.
Proof. intros H. vm_compute in H. discriminate H. Qed.
Theorem renderDoc_crlf_norm_naive_counterexample : ~ renderDoc_crlf_norm_naive_statement.
Proof.
  intros H. destruct cex_ok as [A B]. apply renderDoc_crlf_norm_counterexample. apply H; assumption.
Qed.
Print Assumptions renderDoc_crlf_norm_naive_counterexample.
(* ... while the proved statements hold of it *)
Lemma cex_RC : RC (renderDoc cSafe cex) (renderDoc cSafe (crlf cex)) /\ delCR (renderDoc cSafe (crlf cex)) = delCR (renderDoc cSafe cex).
Proof. destruct cex_ok as [A B]. split; [apply renderDoc_crlf; assumption|apply renderDoc_crlf_delCR; assumption]. Qed.

(* ---- explicit function form: the CR LF output is the LF output with a CR inserted before the LF bytes selected by a mask ---- *)
Fixpoint insCR (mask : list bool) (l : bytes) : bytes :=
  match mask, l with
  | m :: ms, x :: r => (if m && (x =? 10) then [13; x] else [x]) ++ insCR ms r
  | _, _ => l
  end.
Lemma RC_insCR a b : RC a b -> exists mask, length mask = length a /\ b = insCR mask a.
Proof.
  induction 1 as [|x a b H (mask & Hl & ->)|a b H (mask & Hl & ->)].
  - exists []. split; reflexivity.
  - exists (false :: mask). split; [cbn [length]; rewrite Hl; reflexivity|reflexivity].
  - exists (true :: mask). split; [cbn [length]; rewrite Hl; reflexivity|reflexivity].
Qed.
Lemma insCR_RC : forall mask a, RC a (insCR mask a).
Proof.
  induction mask as [|m mask IH]; intros a; [destruct a; apply RC_refl|]. destruct a as [|x a]; [constructor|]. cbn [insCR].
  destruct m; cbn [andb]; [|apply RC_same, IH]. destruct (Z.eqb_spec x 10) as [->|N]; [apply RC_ins, IH|apply RC_same, IH].
Qed.
Theorem renderDoc_crlf_function : forall c s, ~ In 13 s -> 2 * len (crlf (pad s)) + 9 < 999 ->
  exists mask, length mask = length (renderDoc c s) /\ renderDoc c (crlf s) = insCR mask (renderDoc c s).
Proof. intros c s Hs Hl. apply RC_insCR, renderDoc_crlf; assumption. Qed.
Print Assumptions renderDoc_crlf_function.
