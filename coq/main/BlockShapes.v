From Coq Require Import List ZArith Lia Bool.
Import ListNotations.
Require Import Base Tables Utf8 Tree Rdr Link Collect Html Recog Inl3a Inl3b Inl3c Inl3d Inl3e LP Rules Starts Driver Props Leaf3e RdrBound
  L2Kind L2CC L2CCfull L2Bnd L2BndS Rec15 Rec16 Rec17 Rec18 C01b
  BSDef BSRdr BSTree BSOcp BSOrph BSClose BSLine1 BSLine2 BSLine3 BSLine4 BSLine5 BSLine6 BSLine7 BSLine8 BSErase BSLine9 BSLine10 BSShift BlockSpans
  BShDef ShDef ShRdr ShClose ShEnv ShLine1 ShLine2 ShFresh ShRecog ShSetext ShStarts1 ShStarts2 ShStarts3 ShStarts4 ShLine3 ShLine4.
Open Scope Z_scope.

(* C13, block level: in every root block the block layer returns, the span of every block node is valid in the root's
   source text and has the shape of its construct (checker BShDef.bshapes = span_valid + Props.shapeBlock on block nodes).

   Proved here (all clauses of shapeBlock: ListMarker, ATXHeading, SetextHeading, FencedCodeBlock, BlockQuote; and
   span_valid for every block node, which includes that every block node of a returned root block is closed):
     parseBlocks_block_shapes_prefill_partial  for EVERY input: each root block r has a text `pre`, a segment of the NUL-padded
                                               input, with rb_src r = fillNulls pre and bshapes pre (rb_blk r) = true
     parseBlocks_block_shapes_partial          for every input WITHOUT NUL bytes: the statement exactly as asked
     parseFull_block_shapes_prefill_partial, parseFull_block_shapes_partial   the same after the inline pass
     (BlockShapesNul.v) parse{Blocks,Full}_block_shapes_aligned_partial: for every input, the statement as asked holds for
                                               each root block whose `pre` is cut at NUL-triple boundaries (`tri pre`)
   Not proved: parseBlocks_block_shapes_statement / parseFull_block_shapes_statement for inputs containing NUL bytes.
   Exactly what is missing: that the cut positions of makeRoot (the ends of root-level blocks) never fall inside one of
   the 3-byte NUL runs produced by `pad` (`tri pre` for every root).  fill_aux overwrites the two bytes after a NUL
   unconditionally, so without this alignment fillNulls could overwrite a marker byte.  The ends of root-level link reference
   definitions are reader positions (readEOL); showing they are line boundaries needs fuel adequacy of the reader loops,
   which the development does not have.

   Structure: invariant `sh` (ShDef.v), closing (ShClose.v, with the reader facts of ShRdr.v: definitions produced by
   onCloseParagraph are closed), line machine one lemma per function (ShLine1-4.v, ShFresh.v), block starts with the
   recognizer facts (ShRecog.v, ShSetext.v, ShStarts1-4.v), driver and makeRoot (this file). *)

(* ---- the checker follows from the invariants on a closed block ---- *)
Lemma chain_ends lo e l c : chain lo e l -> In c l -> e < 0 \/ bend c <= e.
Proof.
  revert lo. induction l as [|x r IH]; intros lo H Hin; [destruct Hin|]. destruct H as (_ & B & C).
  destruct Hin as [->|Hin]; [exact B|]. apply (IH _ C Hin).
Qed.
Lemma sh_bshapes src n M M' : n <= len src -> forall b, sp M b -> sh src M' b -> 0 <= bend b <= n -> bshapes (upto src n) b = true.
Proof.
  intros Hn. fix IH 1. intros [K s e bk ik a nn c l lb]. cbn [sp sh bend]. intros (P1 & P2 & _ & P4 & P5) (A & _ & C) He.
  destruct (A ltac:(lia)) as [A1 A2].
  assert (Hlen : len (upto src n) = n) by (apply len_upto_le; lia).
  change (bshapes (upto src n) (Blk K s e bk ik a nn c l lb)) with
    (span_valid (len (upto src n)) s e && shapeBlock (sub (upto src n) s e) (Blk K s e bk ik a nn c l lb) && forallb (bshapes (upto src n)) bk).
  rewrite Hlen. unfold span_valid.
  replace (0 <=? s) with true by (symmetry; apply Z.leb_le; lia). replace (s <=? e) with true by (symmetry; apply Z.leb_le; lia).
  replace (e <=? n) with true by (symmetry; apply Z.leb_le; lia). cbn [andb].
  rewrite sub_upto by lia. rewrite shapeBlock_KN. cbn [bkind bn]. rewrite A1. cbn [andb].
  assert (Hk : forall x, In x bk -> 0 <= bend x <= n).
  { intros x Hx. pose proof (allP_In _ _ _ A2 Hx) as H1. cbn beta in H1. destruct (chain_ends _ _ _ x P4 Hx); lia. }
  clear P4 A A1 A2. induction bk as [|x r IHr]; [reflexivity|]. destruct P5 as [Q1 Q2]. destruct C as [C1 C2]. cbn [forallb].
  rewrite (IH x Q1 C1 (Hk x (or_introl eq_refl))). apply IHr; [exact Q2|exact C2|]. intros y Hy. apply Hk. right. exact Hy.
Qed.

(* ---- the driver ---- *)
Section Driver.
  (* a property of byte strings kept by taking prefixes and suffixes (used for "contains no NUL byte") *)
  Variable P : bytes -> Prop.
  Hypothesis P_from : forall l n, P l -> P (from_ l n).
  Hypothesis P_upto : forall l n, P l -> P (upto l n).

  Definition okRS (r : rootB) : Prop := exists pre, P pre /\ rb_src r = fillNulls pre /\ bshapes pre (rb_blk r) = true.
  Definition SJS (s : bpst) (ch : list block) (ns : bool) : Prop := SJ s ch ns /\ shKids (buf s) (bi s) ch /\ P (buf s).
  Definition okJS (x : nb) : Prop :=
    match x with NBBlock r s' => okRS r /\ exists ns, SJS s' (pending s') ns | _ => True end.

  Lemma shKids_agree src src' H M l : agree src src' H -> M <= H -> allP (sp H) l -> shKids src M l -> shKids src' M l.
  Proof.
    intros E HM Hp [A B]. split; [|exact B]. clear B. induction l as [|x r IH]; [exact I|]. destruct Hp as [P1 P2]. destruct A as [A1 A2].
    split; [eapply sh_agree; eassumption|apply IH; assumption].
  Qed.

  Lemma SJS_makeRoot s children ns r s' : SJS s children ns -> makeRoot children s = Some (r, s') ->
    okRS r /\ SJS s' (pending s') ns.
  Proof.
    intros (HJ & [Hsa Hsc] & HP) Hm. destruct (SJ_makeRoot _ _ _ _ _ HJ Hm) as [_ HJ'].
    destruct HJ as (HS & Hcc & Ha & Hch). destruct HS as (Hb & _).
    unfold makeRoot in Hm. destruct children as [|b rest]; [discriminate|].
    destruct (isOpen b) eqn:Eo; [discriminate|]. inversion Hm; subst. clear Hm.
    unfold isOpen in Eo. apply Z.ltb_ge in Eo. destruct Ha as [Sb Sr]. destruct Hsa as [Qb Qr]. destruct Hch as (C1 & _ & C3).
    pose proof (sp_bounds _ _ Sb) as Hbd.
    split.
    - exists (upto (buf s) (bend b)). cbn [rb_src rb_blk]. split; [apply P_upto, HP|split; [reflexivity|]].
      eapply sh_bshapes; [lia|exact Sb|exact Qb|lia].
    - split; [exact HJ'|]. cbn [buf bi pending]. split; [|apply P_from, HP].
      assert (Hst : forall x, In x rest -> bend b <= bstart x /\ (bend x < 0 \/ bend b <= bend x)).
      { intros x Hx. pose proof (chain_starts _ _ _ x C3 Hx) as H1. pose proof (allP_In _ _ _ Sr Hx) as H2. rewrite sp_eq in H2. destruct H2 as (_ & H2 & _). lia. }
      split.
      + apply allP_map. apply allP_intro. intros x Hx. destruct (Hst x Hx) as [H1 H2].
        apply sh_shift; [lia|eapply allP_In; eassumption|exact H1|exact H2|eapply allP_In; eassumption].
      + rewrite removelast_map. unfold closedL. apply allP_map. apply allP_intro. intros x Hx.
        assert (Hx' : In x rest) by (apply removelast_In, Hx). destruct (Hst x Hx') as [H1 H2].
        assert (Hc : closedL (removelast rest)).
        { destruct rest as [|y rest']; [exact I|]. change (removelast (b :: y :: rest')) with (b :: removelast (y :: rest')) in Hsc. apply Hsc. }
        pose proof (allP_In _ _ _ Hc Hx) as H3. cbn beta in H3. rewrite bend_shiftB. destruct (Z.leb_spec 0 (bend x)); lia.
  Qed.

  Lemma SJS_lineLoop : forall fuel st children ls s ns, 0 <= ls <= len (buf s) -> bi s = lineEnd (buf s) ls ->
    bndL ls ns children = true -> (ns = false -> ls = len (buf s)) -> ccF children = true -> kidsOK ls children ->
    shKids (buf s) ls children -> P (buf s) ->
    okJS (lineLoop fuel st children ls s).
  Proof.
    induction fuel as [|f IH]; intros st children ls s ns Hls Hbi Hc Hn Hcc Hk Hsk HP; [exact I|]. cbn [lineLoop].
    destruct (lineEnd_spec (buf s) ls Hls) as [A B]. rewrite <- Hbi in A, B.
    set (ln := from_ (upto (buf s) (bi s)) ls).
    destruct (line_of (buf s) ls (bi s) ltac:(lia) ltac:(lia)) as [Ll _]. fold ln in Ll.
    set (ns' := if ns then hasByteSuffixEOL ln else false).
    assert (Hc' : bndL (bi s) ns' children = true).
    { unfold ns'. destruct ns.
      - pose proof (bndL_mono ls (bi s) children ltac:(lia) Hc) as Hm. destruct (hasByteSuffixEOL ln); [exact Hm|apply bndL_weaken, Hm].
      - rewrite (Hn eq_refl) in *. replace (bi s) with (len (buf s)) by lia. exact Hc. }
    assert (Hn' : ns' = false -> bi s = len (buf s)).
    { unfold ns'. destruct ns; [|intros _; rewrite (Hn eq_refl) in *; lia].
      intros Ee. destruct (Z.lt_ge_cases (bi s) (len (buf s))) as [Lt|Ge]; [|lia].
      exfalso. rewrite Hbi in Lt. pose proof (line_hasEOL (buf s) ls Hls Lt) as Hh. rewrite <- Hbi in Hh. fold ln in Hh. congruence. }
    assert (Hlu : len (upto (buf s) (bi s)) = bi s) by (apply len_upto; lia).
    pose proof (bnd_processLine (bi s) ns' st children ls (upto (buf s) (bi s)) ltac:(lia) ltac:(lia) ltac:(fold ln; lia)
                  ltac:(rewrite Hlu; lia) ltac:(unfold ns'; fold ln; destruct ns; [tauto|discriminate]) Hc') as H1.
    pose proof (sp_processLine (bi s) ns' st children ls (upto (buf s) (bi s)) ltac:(lia) ltac:(lia) ltac:(fold ln; lia)
                  ltac:(rewrite Hlu; lia) ltac:(unfold ns'; fold ln; destruct ns; [tauto|discriminate]) Hc' Hcc Hk) as H2.
    pose proof (cc_processLine st children ls (upto (buf s) (bi s)) Hcc) as H3.
    assert (Hag : agree (buf s) (upto (buf s) (bi s)) (bi s)) by (unfold agree; rewrite upto_upto by lia; reflexivity).
    assert (Hsk' : shKids (upto (buf s) (bi s)) ls children).
    { eapply shKids_agree; [exact Hag|lia| |exact Hsk]. eapply allP_sp_mono; [|apply Hk]. lia. }
    pose proof (sh_processLine (bi s) ns' st children ls (upto (buf s) (bi s)) ltac:(lia) ltac:(rewrite Hlu; lia) ltac:(fold ln; lia)
                  ltac:(rewrite Hlu; lia) ltac:(unfold ns'; fold ln; destruct ns; [tauto|discriminate]) Hc' Hcc Hk
                  ltac:(rewrite Hbi; apply line_shape; exact Hls) Hsk') as H4.
    rewrite Hlu in H4.
    destruct (processLine st children ls (upto (buf s) (bi s))) as [[children' st'] pn]. cbn [fst] in H1, H2, H3, H4.
    destruct (negb (pn =? 0)); [exact I|].
    assert (H4' : shKids (buf s) (bi s) children').
    { eapply shKids_agree; [unfold agree; symmetry; exact Hag|lia|apply H2|exact H4]. }
    assert (HS : SJS s children' ns') by (split; [split; [repeat split; try lia; assumption|split; assumption]|split; assumption]).
    destruct (makeRoot children' s) as [[r s']|] eqn:Em.
    - cbn [okJS]. destruct (SJS_makeRoot _ _ _ _ _ HS Em) as [Hr Hs']. split; [exact Hr|eauto].
    - apply (IH st' children' (bi s) _ ns'); cbn [buf bi]; try assumption; try lia; reflexivity.
  Qed.

  Lemma SJS_skipLoop : forall fuel s, bi s = 0 -> P (buf s) -> okJS (skipLoop fuel s).
  Proof.
    induction fuel as [|f IH]; intros s Hb HP; [exact I|]. cbn [skipLoop]. cbv zeta.
    destruct (negb _); [exact I|]. destruct (isBlankLine _); [apply IH; [reflexivity|apply P_from, HP]|].
    apply (SJS_lineLoop f 0 [] 0 _ true); cbn [buf bi]; [pose proof (len_nonneg (buf s)); lia|rewrite Hb; reflexivity|reflexivity|discriminate|reflexivity|split; exact I|split; exact I|exact HP].
  Qed.

  Lemma SJS_nextBlock fuel s ns : SJS s (pending s) ns -> okJS (nextBlock fuel s).
  Proof.
    intros HS. unfold nextBlock. destruct (makeRoot (pending s) s) as [[r s']|] eqn:Em.
    - cbn [okJS]. destruct (SJS_makeRoot _ _ _ _ _ HS Em) as [Hr Hs']. split; [exact Hr|eauto].
    - destruct HS as (((Hb & Hc & Hn) & Hcc & Hk) & Hsk & HP). destruct (pending s) as [|b0 rest] eqn:Ep; [apply SJS_skipLoop; [reflexivity|apply P_from, HP]|].
      apply (SJS_lineLoop fuel 0 (b0 :: rest) (bi s) _ ns); cbn [buf bi]; try assumption; try lia; reflexivity.
  Qed.

  Lemma SJS_allBlocks : forall fuel s acc ns, SJS s (pending s) ns -> Forall okRS acc -> Forall okRS (fst (allBlocks fuel s acc)).
  Proof.
    induction fuel as [|f IH]; intros s acc ns HS Ha; [exact Ha|]. cbn [allBlocks].
    pose proof (SJS_nextBlock (3 + length (buf s)) s ns HS) as Hn.
    destruct (nextBlock _ s) as [r s'| | |]; try exact Ha.
    destruct Hn as [Hr (ns' & Hs')]. apply (IH s' _ ns'); [exact Hs'|]. apply Forall_app. split; [exact Ha|]. constructor; [exact Hr|constructor].
  Qed.

  Lemma parseBlocks_okRS input : P (pad input) -> Forall okRS (fst (parseBlocks input)).
  Proof.
    intros HP. unfold parseBlocks. apply (SJS_allBlocks _ _ _ true); [|constructor].
    split; [|split; [split; exact I|exact HP]]. split; [|split; [reflexivity|split; exact I]].
    unfold SI. cbn [buf bi pending]. pose proof (len_nonneg (pad input)). repeat split; try lia.
  Qed.
End Driver.

(* ---- the general theorem: for every input, every root block has the block shapes on the text before the NUL filling,
   and that text is a segment of the NUL-padded input ---- *)
Definition seg (B l : bytes) : Prop := exists a b, 0 <= a /\ l = upto (from_ B a) b.
Lemma from_neg {A} (l : list A) n : from_ l n = from_ l (Z.max 0 n).
Proof. unfold from_. f_equal. lia. Qed.
Lemma seg_from B l n : seg B l -> seg B (from_ l n).
Proof.
  intros (a & b & Ha & ->). exists (a + Z.max 0 n), (b - Z.max 0 n). split; [lia|].
  rewrite (from_neg (upto (from_ B a) b) n), from_upto by lia. rewrite Rec18.from_from by lia. reflexivity.
Qed.
Lemma seg_upto B l n : seg B l -> seg B (upto l n).
Proof.
  intros (a & b & Ha & ->). exists a, (Z.min b n). split; [exact Ha|]. unfold upto. rewrite firstn_firstn. f_equal. lia.
Qed.
Lemma seg_self B : seg B B.
Proof. exists 0, (len B). split; [lia|]. unfold from_, upto, len. cbn [Z.to_nat skipn]. rewrite Nat2Z.id, firstn_all. reflexivity. Qed.

Theorem parseBlocks_block_shapes_prefill_partial : forall input,
  Forall (fun r => exists pre, seg (pad input) pre /\ rb_src r = fillNulls pre /\ bshapes pre (rb_blk r) = true) (fst (parseBlocks input)).
Proof.
  intros input. exact (parseBlocks_okRS (seg (pad input)) (seg_from (pad input)) (seg_upto (pad input)) input (seg_self (pad input))).
Qed.
Print Assumptions parseBlocks_block_shapes_prefill_partial.

(* ---- inputs without NUL bytes: the filling is the identity, so the statement holds as asked ---- *)
Definition noNul (l : bytes) : Prop := Forall (fun c => c <> 0) l.
Lemma noNul_from l n : noNul l -> noNul (from_ l n).
Proof. unfold noNul, from_. rewrite !Forall_forall. intros H x Hx. apply H. eapply from_sub; exact Hx. Qed.
Lemma noNul_upto l n : noNul l -> noNul (upto l n).
Proof.
  unfold noNul, upto. rewrite !Forall_forall. intros H x Hx. apply H. rewrite <- (firstn_skipn (Z.to_nat n) l). apply in_or_app. left. exact Hx.
Qed.
Lemma pad_noNul l : noNul l -> pad l = l.
Proof.
  induction l as [|x l IH]; intros H; [reflexivity|]. inversion H as [|? ? Hx Hl]; subst. unfold pad in *. cbn [flat_map].
  destruct (Z.eqb_spec x 0); [contradiction|]. cbn [app]. rewrite IH by exact Hl. reflexivity.
Qed.
Lemma fill_noNul l : noNul l -> fillNulls l = l.
Proof.
  unfold fillNulls. induction l as [|x l IH]; intros H; [reflexivity|]. inversion H as [|? ? Hx Hl]; subst. cbn [fill_aux].
  destruct (Z.eqb_spec x 0); [contradiction|]. rewrite IH by exact Hl. reflexivity.
Qed.
Lemma noNul_of_forallb input : forallb (fun c => negb (c =? 0)) input = true -> noNul input.
Proof. intros H. unfold noNul. rewrite forallb_forall in H. apply Forall_forall. intros x Hx E. specialize (H x Hx). rewrite E in H. discriminate. Qed.

(* the statement as asked *)
Definition parseBlocks_block_shapes_statement : Prop :=
  forall input, Forall (fun r => bshapes (rb_src r) (rb_blk r) = true) (fst (parseBlocks input)).

Theorem parseBlocks_block_shapes_partial : forall input, forallb (fun c => negb (c =? 0)) input = true ->
  Forall (fun r => bshapes (rb_src r) (rb_blk r) = true) (fst (parseBlocks input)).
Proof.
  intros input Hz. pose proof (noNul_of_forallb input Hz) as Hn.
  pose proof (parseBlocks_okRS noNul noNul_from noNul_upto input ltac:(rewrite pad_noNul; assumption)) as H.
  eapply Forall_impl; [|exact H]. intros r (pre & Hp & A & B). rewrite A, fill_noNul by exact Hp. exact B.
Qed.
Print Assumptions parseBlocks_block_shapes_partial.

(* ---- the inline pass keeps kinds, levels and spans of blocks ---- *)
Lemma bn_rewriteB src m : forall fuel b, bn (rewriteB fuel src m b) = bn b.
Proof. destruct fuel as [|f]; intros b; [reflexivity|]. cbn [rewriteB]. destruct (_ && _); destruct b; reflexivity. Qed.
Lemma bkind_rewriteB_sh src m : forall fuel b, bkind (rewriteB fuel src m b) = bkind b.
Proof. destruct fuel as [|f]; intros b; [reflexivity|]. cbn [rewriteB]. destruct (_ && _); destruct b; reflexivity. Qed.
Lemma bshapes_eq src b : bshapes src b =
  span_valid (len src) (bstart b) (bend b) && shapeBlock (sub src (bstart b) (bend b)) b && forallb (bshapes src) (bkids b).
Proof. destruct b; reflexivity. Qed.
Lemma bshapes_rewriteB src src' m : forall fuel b, bshapes src (rewriteB fuel src' m b) = bshapes src b.
Proof.
  induction fuel as [|f IH]; intros b; [reflexivity|]. cbn [rewriteB].
  destruct (_ && _); [destruct b; reflexivity|].
  rewrite (bshapes_eq src (set_bkids _ _)), (bshapes_eq src b).
  rewrite bstart_set_bkids, bend_set_bkids, bkids_set_bkids, !shapeBlock_KN, bkind_set_bkids, bn_set_bkids. f_equal.
  induction (bkids b) as [|x r IHr]; [reflexivity|]. cbn [map forallb]. rewrite IH, IHr. reflexivity.
Qed.

Definition parseFull_block_shapes_statement : Prop :=
  forall input, Forall (fun r => bshapes (rb_src r) (rb_blk r) = true) (fst (parseFull input)).

Lemma parseFull_transfer (Q : bytes -> block -> Prop) input :
  (forall src src' m f b, Q src b -> Q src (rewriteB f src' m b)) ->
  Forall (fun r => Q (rb_src r) (rb_blk r)) (fst (parseBlocks input)) -> Forall (fun r => Q (rb_src r) (rb_blk r)) (fst (parseFull input)).
Proof.
  intros HQ H. unfold parseFull. destruct (parseBlocks input) as [roots code]. cbn [fst] in *.
  apply Forall_forall. intros r Hr. apply in_map_iff in Hr. destruct Hr as (r0 & <- & Hr0).
  rewrite Forall_forall in H. cbn [rb_src rb_blk]. apply HQ, H, Hr0.
Qed.

Corollary parseFull_block_shapes_partial : forall input, forallb (fun c => negb (c =? 0)) input = true ->
  Forall (fun r => bshapes (rb_src r) (rb_blk r) = true) (fst (parseFull input)).
Proof.
  intros input Hz. apply (parseFull_transfer (fun src b => bshapes src b = true)); [|apply parseBlocks_block_shapes_partial, Hz].
  intros src src' m f b H. rewrite bshapes_rewriteB. exact H.
Qed.
Print Assumptions parseFull_block_shapes_partial.

Corollary parseFull_block_shapes_prefill_partial : forall input,
  Forall (fun r => exists pre, seg (pad input) pre /\ rb_src r = fillNulls pre /\ bshapes pre (rb_blk r) = true) (fst (parseFull input)).
Proof.
  intros input. apply (parseFull_transfer (fun src b => exists pre, seg (pad input) pre /\ src = fillNulls pre /\ bshapes pre b = true));
    [|apply parseBlocks_block_shapes_prefill_partial].
  intros src src' m f b (pre & S & A & B). exists pre. rewrite bshapes_rewriteB. tauto.
Qed.
Print Assumptions parseFull_block_shapes_prefill_partial.
