From Coq Require Import List ZArith Lia Bool.
Import ListNotations.
Require Import Base Tables Utf8 Tree Recog Driver Inl3e Render Fmt.
Open Scope Z_scope.

(* Entry points used by the correspondence driver (definitions only).
   They run the renderer and formatter models on root blocks supplied from outside
   (the implementation's own tree dump), so that the renderer/formatter tie does not
   depend on the parser tie. *)

Definition refsOfRoots (roots : list rootB) : list (bytes * linkDef) :=
  fold_left (fun a r => extractDefs (bheight (rb_blk r)) (rb_src r) (rb_blk r) a) roots [].

Definition renderRoots (c : cfg) (roots : list rootB) : bytes :=
  let refs := refsOfRoots roots in
  joinBlocks (map (fun r => renderB (bheight (rb_blk r)) c refs (rb_src r) false (rb_blk r)) roots).

(* Render with an explicitly given reference map (the implementation's) *)
Definition renderRootsWith (c : cfg) (refs : list (bytes * linkDef)) (roots : list rootB) : bytes :=
  joinBlocks (map (fun r => renderB (bheight (rb_blk r)) c refs (rb_src r) false (rb_blk r)) roots).

Definition formatRoots (roots : list rootB) : bytes :=
  let w0 := {| indents := []; started := false; hasWritten := false; fout := [] |} in
  fout (fst (fold_left (fun wi r => let '(w, i) := wi in
                          (fmtB (bheight (rb_blk r)) (rb_src r) w i None (rb_blk r), i + 1)) roots (w0, 0))).

Lemma renderDoc_renderRoots c input : renderDoc c input = renderRoots c (fst (parseFull input)).
Proof. unfold renderDoc, renderRoots, refsOfRoots. destruct (parseFull input); reflexivity. Qed.
Lemma formatDoc_formatRoots input : formatDoc input = formatRoots (fst (parseFull input)).
Proof. unfold formatDoc, formatRoots. destruct (parseFull input); reflexivity. Qed.
