(* SliceText.v -- property C06, clause (A) "escaped text", as a theorem about renderDoc for texts of ANY length.

   Main theorem (closed under the global context):

     Theorem C06_escaped_text t : wfText t ->
       renderDoc c0 (esc t ++ [10]) = [60;112;62] ++ escapeHTML t ++ [60;47;112;62].          (* "<p>" ... "</p>" *)

   where  esc t    = t with a backslash (92) inserted before every ASCII punctuation byte,
          c0       = the default configuration (softBreak 0, ignoreRaw false, filterOn false; SliceBase.v),
          wfText t = t non-empty, every byte an ASCII letter / digit / ASCII punctuation / space, first and last byte not a
                     space, no two spaces in a row  (equivalently okText true t = true, Theorem okText_iff_wfText).
   Side conditions found by vm_compute experiments and then confirmed by the proof:
     - t non-empty (the empty input renders to nothing, not to "<p></p>");
     - no leading space (it is stripped), no trailing DOUBLE space (it swallows the line ending); a leading digit run needs
       no condition because the "." / ")" after it is escaped (lm_digits_esc), entities cannot arise because "&" is escaped.
   Route: SlicePara.parseBlocks_one_para (block layer) ; iloop_text (the tokeniser loop of Inl3e.v, by induction over t,
   generalised over the loop state) ; parseInlines_text ; renderI_text / kidsI_text (renderer). *)
From Coq Require Import List ZArith Lia Bool.
Import ListNotations.
Require Import Base Tables Utf8 Tree Rdr Link Collect Html Recog LP Rules Starts Driver Inl3a Inl3b Inl3c Inl3d Inl3e Render SliceBase SlicePara.
Open Scope Z_scope.

(* ---------------------------------------------------------------------------------------------- *)
(* The inline tokeniser on one Unparsed span [0, len L) of a source L.                              *)
(* ---------------------------------------------------------------------------------------------- *)
Definition IS (st : ist) (L : bytes) : Prop :=
  isrc st = L /\ unp st = [mkI UnparsedKind 0 (len L)] /\ upos st = 0 /\ stk st = [].

Lemma IS_spanEnd st L : IS st L -> spanEnd st = len L.
Proof. intros (H1 & H2 & H3 & H4). unfold spanEnd. rewrite H2, H3. reflexivity. Qed.
Lemma IS_isLast st L : IS st L -> isLastSpan st = true.
Proof. intros (H1 & H2 & H3 & H4). unfold isLastSpan. rewrite H2, H3. reflexivity. Qed.
Lemma IS_inspan st L : IS st L -> (upos st <? len (unp st)) = true.
Proof. intros (H1 & H2 & H3 & H4). rewrite H2, H3. reflexivity. Qed.

Definition isTextNode (n : pn) : Prop := pkind n = TextKind.
Definition rtext (L : bytes) (l : list pn) : bytes := flat_map (fun n => escapeHTML (sub L (ps n) (pe n))) l.
Lemma rtext_app L a b : rtext L (a ++ b) = rtext L a ++ rtext L b.
Proof. unfold rtext. apply flat_map_app. Qed.

Lemma addText_spec st L s e : IS st L -> 0 <= s <= e -> Forall isTextNode (rk st) ->
  IS (addText st s e) L /\ Forall isTextNode (rk (addText st s e)) /\
  rtext L (rk (addText st s e)) = rtext L (rk st) ++ escapeHTML (sub L s e).
Proof.
  intros HI Hse HT. unfold addText, addNode, spanLen.
  assert (E : (0 <=? s) && (0 <=? e) && (s <=? e) = true).
  { repeat (apply andb_true_iff; split); apply Z.leb_le; lia. }
  rewrite E. destruct (Z.eqb_spec (e - s) 0) as [Z0|NZ]; cbn [fst].
  - split; [exact HI|]. split; [exact HT|]. rewrite sl_sub_nil by lia. cbn. rewrite app_nil_r. reflexivity.
  - split; [exact HI|]. cbn [rk bumpId setRk]. split.
    + apply Forall_app. split; [exact HT|]. constructor; [reflexivity|constructor].
    + rewrite rtext_app. f_equal. cbn [rtext flat_map ps pe]. apply app_nil_r.
Qed.

(* bytes on which the tokeniser does nothing special *)
Definition inertByte (c : Z) : bool :=
  negb (existsb (Z.eqb c) [42; 95; 91; 93; 33; 32; 96; 60; 92; 38; 10; 13]).
Lemma inert_ne c x : inertByte c = true -> In x [42; 95; 91; 93; 33; 32; 96; 60; 92; 38; 10; 13] -> (c =? x) = false.
Proof.
  unfold inertByte. intros Hc Hx. apply negb_true_iff in Hc. destruct (c =? x) eqn:E; [|reflexivity]. exfalso.
  assert (existsb (Z.eqb c) [42; 95; 91; 93; 33; 32; 96; 60; 92; 38; 10; 13] = true) by (apply existsb_exists; exists x; split; assumption).
  congruence.
Qed.

Lemma istep_inert st pos plainStart : inertByte (at_ (isrc st) pos) = true -> istep st pos plainStart = (st, pos + 1, plainStart).
Proof.
  intros Hc. unfold istep. cbv zeta.
  rewrite !(inert_ne _ _ Hc) by (cbn; tauto). reflexivity.
Qed.

Lemma istep_space st pos plainStart : at_ (isrc st) pos = 32 ->
  parseHardLineBreakSpace (sub (isrc st) pos (spanEnd st)) = (1, false) -> istep st pos plainStart = (st, pos + 1, plainStart).
Proof.
  intros Hc Hh. unfold istep. cbv zeta. rewrite Hc, Hh. reflexivity.
Qed.

Lemma istep_escape st pos plainStart c : at_ (isrc st) pos = 92 -> at_ (isrc st) (pos + 1) = c -> isASCIIPunctuation c = true ->
  pos + 1 < spanEnd st ->
  istep st pos plainStart = (addText (addText st plainStart pos) (pos + 1) (pos + 2), pos + 2, pos + 2).
Proof.
  intros H92 Hc Hp Hlt. unfold istep. cbv zeta. rewrite H92. 
  change (92 =? 42) with false. change (92 =? 95) with false. change (92 =? 91) with false. change (92 =? 93) with false.
  change (92 =? 33) with false. change (92 =? 32) with false. change (92 =? 96) with false. change (92 =? 60) with false.
  change (92 =? 92) with true. cbn [orb]. cbv iota.
  unfold parseBackslash. cbv zeta.
  assert (Es : spanEnd (addText st plainStart pos) = spanEnd st).
  { unfold addText, addNode. destruct (spanLen plainStart pos =? 0); reflexivity. }
  assert (Ei : isrc (addText st plainStart pos) = isrc st).
  { unfold addText, addNode. destruct (spanLen plainStart pos =? 0); reflexivity. }
  rewrite Es, Ei, Hc. destruct (Z.leb_spec (spanEnd st) (pos + 1)); [lia|].
  assert (E10 : (c =? 10) = false).
  { destruct (Z.eqb_spec c 10) as [->|]; [discriminate Hp|reflexivity]. }
  assert (E13 : (c =? 13) = false).
  { destruct (Z.eqb_spec c 13) as [->|]; [discriminate Hp|reflexivity]. }
  rewrite E10, E13, Hp. reflexivity.
Qed.

Lemma istep_lf st pos plainStart : at_ (isrc st) pos = 10 -> isLastSpan st = true ->
  istep st pos plainStart = (addText st plainStart pos, pos + 1, pos + 1).
Proof.
  intros Hc Hl. unfold istep. cbv zeta. rewrite Hc.
  change (10 =? 42) with false. change (10 =? 95) with false. change (10 =? 91) with false. change (10 =? 93) with false.
  change (10 =? 33) with false. change (10 =? 32) with false. change (10 =? 96) with false. change (10 =? 60) with false.
  change (10 =? 92) with false. change (10 =? 38) with false. change (10 =? 10) with true. cbn [orb]. cbv iota.
  assert (El : isLastSpan (addText st plainStart pos) = isLastSpan st).
  { unfold addText, addNode. destruct (spanLen plainStart pos =? 0); reflexivity. }
  rewrite El, Hl. reflexivity.
Qed.

(* ---- escaped text ---- *)
Definition esc (t : bytes) : bytes := flat_map (fun c => if isASCIIPunctuation c then [92; c] else [c]) t.
Definition plainCh (c : Z) : bool := isASCIILetter c || isASCIIDigit c.
(* letters, digits, punctuation and single interior spaces; prevSp = "a space may not come next" *)
Fixpoint okText (prevSp : bool) (t : bytes) : bool :=
  match t with
  | [] => negb prevSp
  | c :: r => if c =? 32 then negb prevSp && okText true r
              else (plainCh c || isASCIIPunctuation c) && okText false r
  end.

Lemma hlbs_single x y : x <> 32 -> parseHardLineBreakSpace (32 :: x :: y) = (1, false).
Proof.
  intros Hx. unfold parseHardLineBreakSpace.
  destruct x as [|p|p]; try reflexivity.
  do 6 (destruct p as [p|p|]; try reflexivity). all: try (exfalso; apply Hx; reflexivity).
Qed.

Lemma plain_inert c : plainCh c = true -> inertByte c = true.
Proof.
  unfold plainCh, isASCIILetter, isASCIIDigit. intros H.
  assert (R : (65 <= c <= 90) \/ (97 <= c <= 122) \/ (48 <= c <= 57)).
  { apply orb_true_iff in H. destruct H as [H|H].
    - apply orb_true_iff in H. destruct H as [H|H]; apply andb_true_iff in H; destruct H as [A B];
        apply Z.leb_le in A; apply Z.leb_le in B; lia.
    - apply andb_true_iff in H; destruct H as [A B]; apply Z.leb_le in A; apply Z.leb_le in B; lia. }
  unfold inertByte. cbn [existsb].
  repeat match goal with |- context [c =? ?k] => destruct (Z.eqb_spec c k); [exfalso; lia|] end. reflexivity.
Qed.

Lemma esc_punct c r : isASCIIPunctuation c = true -> esc (c :: r) = 92 :: c :: esc r.
Proof. intros H. unfold esc. cbn [flat_map]. rewrite H. reflexivity. Qed.
Lemma esc_nonpunct c r : isASCIIPunctuation c = false -> esc (c :: r) = c :: esc r.
Proof. intros H. unfold esc. cbn [flat_map]. rewrite H. reflexivity. Qed.

Lemma at_mid (pre0 mid : bytes) x rest : at_ (pre0 ++ mid ++ x :: rest) (len pre0 + len mid) = x.
Proof. rewrite app_assoc. rewrite <- sl_len_app. apply sl_at_app_len. Qed.
Lemma at_mid1 (pre0 mid : bytes) x y rest : at_ (pre0 ++ mid ++ x :: y :: rest) (len pre0 + len mid + 1) = y.
Proof.
  replace (pre0 ++ mid ++ x :: y :: rest) with ((pre0 ++ mid ++ [x]) ++ y :: rest) by (rewrite <- !app_assoc; reflexivity).
  replace (len pre0 + len mid + 1) with (len (pre0 ++ mid ++ [x])) by (rewrite !sl_len_app; change (len [x]) with 1; lia).
  apply sl_at_app_len.
Qed.
Lemma sub_to_end (pre0 mid rest : bytes) : sub (pre0 ++ mid ++ rest) (len pre0 + len mid) (len (pre0 ++ mid ++ rest)) = rest.
Proof.
  rewrite app_assoc. rewrite <- sl_len_app. unfold sub. rewrite sl_from_app_len.
  rewrite (sl_len_app (pre0 ++ mid) rest). replace (len (pre0 ++ mid) + len rest - len (pre0 ++ mid)) with (len rest) by lia.
  apply sl_upto_all.
Qed.

Lemma iloop_S f st pos plainStart : iloop (S f) st pos plainStart =
  if (upos st <? len (unp st)) && (pos <? spanEnd st) then
    let '(st, pos, plainStart) := istep st pos plainStart in iloop f st pos plainStart
  else (st, plainStart).
Proof. reflexivity. Qed.

Ltac lensimp := repeat (rewrite sl_len_app || rewrite sl_len_cons || rewrite sl_len_nil).

Lemma iloop_text : forall t prevSp, okText prevSp t = true ->
  forall pre0 mid L fuel st, L = pre0 ++ mid ++ esc t ++ [10] ->
  IS st L -> Forall isTextNode (rk st) -> (length (esc t) < fuel)%nat ->
  exists st', iloop fuel st (len pre0 + len mid) (len pre0) = (st', len L) /\ IS st' L /\ Forall isTextNode (rk st') /\
              rtext L (rk st') = rtext L (rk st) ++ escapeHTML (mid ++ t).
Proof.
  induction t as [|c r IH]; intros prevSp Hok pre0 mid L fuel st HL HI HT Hfuel.
  - (* the line ending *)
    destruct fuel as [|f]; [cbn in Hfuel; lia|]. cbn [esc flat_map app] in HL.
    assert (Hlen : len L = len pre0 + len mid + 1) by (rewrite HL, !sl_len_app; change (len [10]) with 1; lia).
    pose proof (sl_len_nonneg pre0) as Hp0. pose proof (sl_len_nonneg mid) as Hm0.
    rewrite iloop_S. rewrite (IS_inspan st L HI), (IS_spanEnd st L HI).
    destruct (Z.ltb_spec (len pre0 + len mid) (len L)); [|lia]. cbn [andb].
    assert (Hat : at_ (isrc st) (len pre0 + len mid) = 10).
    { destruct HI as (Hsrc & _). rewrite Hsrc. rewrite HL. apply at_mid. }
    rewrite (istep_lf st _ _ Hat (IS_isLast st L HI)).
    destruct (addText_spec st L (len pre0) (len pre0 + len mid) HI ltac:(lia) HT) as (HI' & HT' & HR').
    exists (addText st (len pre0) (len pre0 + len mid)).
    split.
    { destruct f as [|f]; [cbn [iloop]; rewrite Hlen; reflexivity|].
      rewrite iloop_S. rewrite (IS_inspan _ L HI'), (IS_spanEnd _ L HI').
      destruct (Z.ltb_spec (len pre0 + len mid + 1) (len L)); [lia|]. cbn [andb]. rewrite Hlen. reflexivity. }
    split; [exact HI'|]. split; [exact HT'|]. rewrite HR'. rewrite app_nil_r. f_equal. f_equal.
    rewrite HL. apply sl_sub_app.
  - cbn [okText] in Hok.
    pose proof (sl_len_nonneg pre0) as Hp0. pose proof (sl_len_nonneg mid) as Hm0.
    destruct (Z.eqb_spec c 32) as [E32|N32].
    + (* a single interior space *)
      subst c. apply andb_true_iff in Hok. destruct Hok as [_ Hok].
      assert (Hesc : esc (32 :: r) = 32 :: esc r) by (apply esc_nonpunct; reflexivity).
      rewrite Hesc in HL, Hfuel. cbn [length] in Hfuel. destruct fuel as [|f]; [lia|].
      assert (Hlen : len L = len pre0 + len mid + 1 + len (esc r ++ [10])) by (rewrite HL; lensimp; lia).
      pose proof (sl_len_nonneg (esc r ++ [10])) as Hr0.
      rewrite iloop_S. rewrite (IS_inspan st L HI), (IS_spanEnd st L HI).
      destruct (Z.ltb_spec (len pre0 + len mid) (len L)); [|lia]. cbn [andb].
      assert (Hat : at_ (isrc st) (len pre0 + len mid) = 32).
      { destruct HI as (Hsrc & _). rewrite Hsrc. rewrite HL. cbn [app]. apply at_mid. }
      assert (Hh : parseHardLineBreakSpace (sub (isrc st) (len pre0 + len mid) (spanEnd st)) = (1, false)).
      { rewrite (IS_spanEnd st L HI). destruct HI as (Hsrc & _). rewrite Hsrc. rewrite HL. rewrite sub_to_end. cbn [app].
        destruct r as [|c' r']; [discriminate Hok|]. cbn [okText] in Hok.
        destruct (Z.eqb_spec c' 32) as [->|Nc']; [discriminate Hok|].
        destruct (isASCIIPunctuation c') eqn:Ep.
        - rewrite (esc_punct c' r' Ep). cbn [app]. apply hlbs_single. lia.
        - rewrite (esc_nonpunct c' r' Ep). cbn [app]. apply hlbs_single. exact Nc'. }
      rewrite (istep_space st _ _ Hat Hh).
      destruct (IH true Hok pre0 (mid ++ [32]) L f st) as (st' & Hrun & HI' & HT' & HR').
      { rewrite HL. rewrite <- !app_assoc. reflexivity. }
      { exact HI. } { exact HT. } { lia. }
      exists st'. rewrite sl_len_app in Hrun. change (len [32]) with 1 in Hrun. rewrite Z.add_assoc in Hrun.
      split; [exact Hrun|]. split; [exact HI'|]. split; [exact HT'|]. rewrite HR'. rewrite <- app_assoc. reflexivity.
    + apply andb_true_iff in Hok. destruct Hok as [Hcl Hok].
      destruct (isASCIIPunctuation c) eqn:Ep.
      * (* escaped punctuation *)
        rewrite (esc_punct c r Ep) in HL, Hfuel. cbn [length] in Hfuel. destruct fuel as [|f]; [lia|].
        assert (Hlen : len L = len pre0 + len mid + 2 + len (esc r ++ [10])).
        { rewrite HL; lensimp; lia. }
        pose proof (sl_len_nonneg (esc r ++ [10])) as Hr0.
        rewrite iloop_S. rewrite (IS_inspan st L HI), (IS_spanEnd st L HI).
        destruct (Z.ltb_spec (len pre0 + len mid) (len L)); [|lia]. cbn [andb].
        assert (Hat : at_ (isrc st) (len pre0 + len mid) = 92).
        { destruct HI as (Hsrc & _). rewrite Hsrc. rewrite HL. cbn [app]. apply at_mid. }
        assert (Hat1 : at_ (isrc st) (len pre0 + len mid + 1) = c).
        { destruct HI as (Hsrc & _). rewrite Hsrc. rewrite HL. cbn [app]. apply at_mid1. }
        rewrite (istep_escape st _ _ c Hat Hat1 Ep) by (rewrite (IS_spanEnd st L HI); lia).
        destruct (addText_spec st L (len pre0) (len pre0 + len mid) HI ltac:(lia) HT) as (HI1 & HT1 & HR1).
        destruct (addText_spec _ L (len pre0 + len mid + 1) (len pre0 + len mid + 2) HI1 ltac:(lia) HT1) as (HI2 & HT2 & HR2).
        destruct (IH false Hok (pre0 ++ mid ++ [92; c]) [] L f (addText (addText st (len pre0) (len pre0 + len mid)) (len pre0 + len mid + 1) (len pre0 + len mid + 2))) as (st' & Hrun & HI' & HT' & HR').
        { rewrite HL. rewrite <- !app_assoc. reflexivity. }
        { exact HI2. } { exact HT2. } { lia. }
        exists st'. rewrite !sl_len_app in Hrun. change (len [92; c]) with 2 in Hrun. rewrite sl_len_nil in Hrun.
        rewrite Z.add_0_r in Hrun. rewrite Z.add_assoc in Hrun.
        split; [exact Hrun|]. split; [exact HI'|]. split; [exact HT'|]. rewrite HR', HR2, HR1.
        assert (S1 : sub L (len pre0) (len pre0 + len mid) = mid) by (rewrite HL; apply sl_sub_app).
        assert (S2 : sub L (len pre0 + len mid + 1) (len pre0 + len mid + 2) = [c]).
        { assert (HL2 : L = (pre0 ++ mid ++ [92]) ++ [c] ++ esc r ++ [10]) by (rewrite HL; rewrite <- !app_assoc; reflexivity).
          rewrite HL2. apply sl_sub_app'; lensimp; lia. }
        rewrite S1, S2. cbn [app]. rewrite <- !app_assoc. rewrite <- !escapeHTML_app. reflexivity.
      * (* letter or digit *)
        rewrite orb_false_r in Hcl.
        rewrite (esc_nonpunct c r Ep) in HL, Hfuel. cbn [length] in Hfuel. destruct fuel as [|f]; [lia|].
        assert (Hlen : len L = len pre0 + len mid + 1 + len (esc r ++ [10])) by (rewrite HL; lensimp; lia).
        pose proof (sl_len_nonneg (esc r ++ [10])) as Hr0.
        rewrite iloop_S. rewrite (IS_inspan st L HI), (IS_spanEnd st L HI).
        destruct (Z.ltb_spec (len pre0 + len mid) (len L)); [|lia]. cbn [andb].
        assert (Hat : at_ (isrc st) (len pre0 + len mid) = c).
        { destruct HI as (Hsrc & _). rewrite Hsrc. rewrite HL. cbn [app]. apply at_mid. }
        rewrite (istep_inert st _ _) by (rewrite Hat; apply plain_inert; exact Hcl).
        destruct (IH false Hok pre0 (mid ++ [c]) L f st) as (st' & Hrun & HI' & HT' & HR').
        { rewrite HL. rewrite <- !app_assoc. reflexivity. }
        { exact HI. } { exact HT. } { lia. }
        exists st'. rewrite sl_len_app in Hrun. change (len [c]) with 1 in Hrun. rewrite Z.add_assoc in Hrun.
        split; [exact Hrun|]. split; [exact HI'|]. split; [exact HT'|]. rewrite HR'. rewrite <- app_assoc. reflexivity.
Qed.

Lemma processEmphasis_nostack st : stk st = [] -> rk (processEmphasis st 0) = rk st.
Proof.
  intros Hs. unfold processEmphasis.
  replace (4 * (length (stk st) + length (isrc st)) + 8)%nat with (S (4 * (length (stk st) + length (isrc st)) + 7))%nat by lia.
  cbn [pe_loop]. rewrite Hs. cbn [length pe_findCloser]. change (len (@nil delim) <=? 0) with true. cbv iota.
  change (-1 <? 0) with true. cbv iota. reflexivity.
Qed.

Lemma parseInlines_text t L : okText true t = true -> L = esc t ++ [10] ->
  exists nodes, parseInlines L [] (paraClosed 0 (len L) (len L)) = map toInline nodes /\ Forall isTextNode nodes /\
                rtext L nodes = escapeHTML t.
Proof.
  intros Hok HL. unfold parseInlines. cbn [paraClosed bik bend length].
  set (st0 := {| rk := []; isrc := L; unp := [mkI UnparsedKind 0 (len L)]; upos := 0; stk := []; ign := false; nid := 1;
                 rootEnd := len L; matcher := [] |}).
  assert (HI0 : IS (setIgn st0 false) L) by (repeat split).
  destruct (iloop_text t true Hok [] [] L (S (length L)) (setIgn st0 false)) as (st' & Hrun & HI' & HT' & HR').
  { exact HL. } { exact HI0. } { constructor. }
  { rewrite HL, app_length. cbn [length]. lia. }
  change (len (@nil Z) + len (@nil Z)) with 0 in Hrun. change (len (@nil Z)) with 0 in Hrun.
  assert (Hout : outer 2 st0 = setUpos st' 1).
  { cbn [outer]. change (len (unp st0) <=? upos st0) with false. cbv iota.
    change (nth (Z.to_nat (upos st0)) (unp st0) (mkI 0 0 0)) with (mkI UnparsedKind 0 (len L)).
    change (ikind (mkI UnparsedKind 0 (len L))) with UnparsedKind.
    change (UnparsedKind =? 0) with false. change (UnparsedKind =? IndentKind) with false. change (UnparsedKind =? UnparsedKind) with true.
    cbv iota. change (ign st0) with false. cbv iota. change (istart (mkI UnparsedKind 0 (len L))) with 0.
    change (isrc (setIgn st0 false)) with L. rewrite Hrun.
    rewrite (IS_spanEnd st' L HI'). 
    assert (Ea : addText st' (len L) (len L) = st').
    { unfold addText, addNode, spanLen. rewrite Z.sub_diag. destruct ((0 <=? len L) && (0 <=? len L) && (len L <=? len L)); reflexivity. }
    rewrite Ea. destruct HI' as (H1 & H2 & H3 & H4).
    change (unp (setUpos st' (upos st' + 1))) with (unp st'). change (upos (setUpos st' (upos st' + 1))) with (upos st' + 1).
    rewrite H2, H3. reflexivity. }
  rewrite Hout. rewrite processEmphasis_nostack by (destruct HI' as (H1 & H2 & H3 & H4); exact H4).
  exists (rk st'). split; [reflexivity|]. split; [exact HT'|]. rewrite HR'. reflexivity.
Qed.

(* ---- the list-marker recogniser never fires on escaped text ---- *)
Lemma lm_digits_esc : forall t pre fuel n, lm_digits fuel (pre ++ esc t ++ [10]) (len pre) n = (0, 0, -1).
Proof.
  induction t as [|c r IH]; intros pre fuel n; (destruct fuel as [|f]; [reflexivity|]); cbn [lm_digits].
  - destruct ((10 <=? len pre) || (len (pre ++ esc [] ++ [10]) <=? len pre)); [reflexivity|].
    cbn [esc flat_map app]. rewrite sl_at_app_len. reflexivity.
  - destruct ((10 <=? len pre) || (len (pre ++ esc (c :: r) ++ [10]) <=? len pre)); [reflexivity|].
    destruct (isASCIIPunctuation c) eqn:Ep.
    + rewrite (esc_punct c r Ep). cbn [app]. rewrite sl_at_app_len. reflexivity.
    + rewrite (esc_nonpunct c r Ep). cbn [app]. rewrite sl_at_app_len.
      destruct (isASCIIDigit c) eqn:Ed.
      * replace (pre ++ c :: esc r ++ [10]) with ((pre ++ [c]) ++ esc r ++ [10]) by (rewrite <- app_assoc; reflexivity).
        replace (len pre + 1) with (len (pre ++ [c])) by (rewrite sl_len_app; reflexivity).
        apply IH.
      * assert (E : (c =? 46) || (c =? 41) = false).
        { destruct (Z.eqb_spec c 46) as [->|]; [discriminate Ep|]. destruct (Z.eqb_spec c 41) as [->|]; [discriminate Ep|]. reflexivity. }
        rewrite E. reflexivity.
Qed.

Definition textByte (c : Z) : bool := plainCh c || isASCIIPunctuation c || (c =? 32).

Lemma plainCh_range c : plainCh c = true -> (65 <= c <= 90) \/ (97 <= c <= 122) \/ (48 <= c <= 57).
Proof.
  unfold plainCh, isASCIILetter, isASCIIDigit. intros H.
  apply orb_true_iff in H. destruct H as [H|H].
  - apply orb_true_iff in H. destruct H as [H|H]; apply andb_true_iff in H; destruct H as [A B];
      apply Z.leb_le in A; apply Z.leb_le in B; lia.
  - apply andb_true_iff in H; destruct H as [A B]; apply Z.leb_le in A; apply Z.leb_le in B; lia.
Qed.
Lemma punct_range c : isASCIIPunctuation c = true -> (33 <= c <= 47) \/ (58 <= c <= 64) \/ (91 <= c <= 96) \/ (123 <= c <= 126).
Proof.
  unfold isASCIIPunctuation. intros H.
  repeat (apply orb_true_iff in H; destruct H as [H|H]); apply andb_true_iff in H; destruct H as [A B];
    apply Z.leb_le in A; apply Z.leb_le in B; lia.
Qed.
Lemma textByte_range c : textByte c = true -> 32 <= c <= 126.
Proof.
  unfold textByte. intros H. apply orb_true_iff in H. destruct H as [H|H]; [apply orb_true_iff in H; destruct H as [H|H]|].
  - apply plainCh_range in H. lia.
  - apply punct_range in H. lia.
  - apply Z.eqb_eq in H. lia.
Qed.

Lemma okText_bytes : forall t p, okText p t = true -> Forall (fun c => textByte c = true) t.
Proof.
  induction t as [|c r IH]; intros p H; [constructor|]. cbn [okText] in H. unfold textByte.
  destruct (c =? 32) eqn:E.
  - apply andb_true_iff in H. destruct H as [_ H]. constructor; [cbv beta; rewrite E, orb_true_r; reflexivity|apply (IH true H)].
  - apply andb_true_iff in H. destruct H as [H1 H]. constructor; [cbv beta; rewrite H1; reflexivity|apply (IH false H)].
Qed.
Lemma esc_bytes t : Forall (fun c => textByte c = true) t -> Forall (fun c => textByte c = true) (esc t).
Proof.
  induction 1 as [|c r Hc Hr IH]; [constructor|]. destruct (isASCIIPunctuation c) eqn:Ep.
  - rewrite (esc_punct c r Ep). constructor; [reflexivity|]. constructor; assumption.
  - rewrite (esc_nonpunct c r Ep). constructor; assumption.
Qed.
Lemma textBytes_noEol l : Forall (fun c => textByte c = true) l -> noEolB l.
Proof. intros H. eapply Forall_impl; [|exact H]. intros c Hc. apply textByte_range in Hc. lia. Qed.
Lemma textBytes_noNul l : Forall (fun c => textByte c = true) l -> noNul l.
Proof. intros H. eapply Forall_impl; [|exact H]. intros c Hc. apply textByte_range in Hc. cbv beta. lia. Qed.

Lemma plain_paraStart c : plainCh c = true -> paraStartByte c = true.
Proof.
  intros H. apply plainCh_range in H. unfold paraStartByte, isSpaceTabOrLineEnding. cbn [existsb].
  repeat match goal with |- context [c =? ?k] => destruct (Z.eqb_spec c k); [exfalso; lia|] end. reflexivity.
Qed.

(* the head of an escaped well-formed text *)
Lemma esc_head t : okText true t = true ->
  exists c r, esc t = c :: r /\ paraStartByte c = true /\ c <> 91 /\ snd (parseListMarker (esc t ++ [10])) < 0.
Proof.
  destruct t as [|c r]; [discriminate|]. cbn [okText]. destruct (Z.eqb_spec c 32) as [->|N32]; [discriminate|].
  intros H. apply andb_true_iff in H. destruct H as [Hcl Hok].
  destruct (isASCIIPunctuation c) eqn:Ep.
  - rewrite (esc_punct c r Ep). exists 92, (c :: esc r). split; [reflexivity|]. split; [reflexivity|]. split; [lia|]. cbn; lia.
  - rewrite orb_false_r in Hcl. rewrite (esc_nonpunct c r Ep). exists c, (esc r). split; [reflexivity|].
    split; [apply plain_paraStart; exact Hcl|]. pose proof (plainCh_range c Hcl) as R. split; [lia|].
    cbn [app]. unfold parseListMarker.
    assert (E1 : (c =? 45) || (c =? 43) || (c =? 42) = false).
    { repeat match goal with |- context [c =? ?k] => destruct (Z.eqb_spec c k); [exfalso; lia|] end. reflexivity. }
    rewrite E1. destruct (isASCIIDigit c); [|cbn; lia].
    change (c :: esc r ++ [10]) with ([c] ++ esc r ++ [10]). change 1 with (len [c]) at 1.
    rewrite lm_digits_esc. cbn; lia.
Qed.

(* ---- the renderer on text nodes ---- *)
Lemma renderI_text c refs L n : isTextNode n -> renderI (isize (toInline n)) c refs L (toInline n) = escapeHTML (sub L (ps n) (pe n)).
Proof.
  destruct n as [id k s e ind rf ks]. unfold isTextNode. cbn [pkind]. intros ->.
  cbn [toInline isize renderI ikind]. change ((TextKind =? TextKind) || (TextKind =? UnparsedKind)) with true. reflexivity.
Qed.
Lemma kidsI_text c refs L nodes : Forall isTextNode nodes ->
  flat_map (fun i => renderI (isize i) c refs L i) (map toInline nodes) = rtext L nodes.
Proof.
  induction 1 as [|n r Hn Hr IH]; [reflexivity|]. cbn [map flat_map rtext]. rewrite (renderI_text c refs L n Hn).
  f_equal. exact IH.
Qed.

Theorem C06_escaped_text_cfg (c0 : cfg) t : filterOn c0 = false -> okText true t = true ->
  renderDoc c0 (esc t ++ [10]) = [60; 112; 62] ++ escapeHTML t ++ [60; 47; 112; 62].
Proof.
  intros Hcfg Hok. destruct (esc_head t Hok) as (c & r & He & Hc & H91 & Hm).
  pose proof (esc_bytes t (okText_bytes t true Hok)) as Hb.
  set (L := esc t ++ [10]).
  assert (Hpb : parseBlocks L = ([oneRoot L (paraClosed 0 (len L) (len L))], 0)).
  { subst L. rewrite He in *. apply parseBlocks_one_para.
    - apply textBytes_noEol. exact Hb.
    - apply textBytes_noNul. exact Hb.
    - exact Hc.
    - exact H91.
    - exact Hm. }
  destruct (parseInlines_text t L Hok eq_refl) as (nodes & Hpi & HT & HR).
  unfold renderDoc, parseFull. rewrite Hpb.
  cbn [fold_left map oneRoot rb_blk rb_src rb_line rb_start rb_end].
  change (bheight (paraClosed 0 (len L) (len L))) with 1%nat.
  change (extractB 1 (paraClosed 0 (len L) (len L)) []) with (@nil bytes).
  assert (Hrw : rewriteB 1 L [] (paraClosed 0 (len L) (len L)) = set_bik (paraClosed 0 (len L) (len L)) (map toInline nodes)).
  { cbn [rewriteB]. change ((0 <? len (bik (paraClosed 0 (len L) (len L)))) && hasUnparsed (paraClosed 0 (len L) (len L))) with true.
    cbv iota. rewrite Hpi. reflexivity. }
  rewrite Hrw. cbn [set_bik paraClosed].
  set (b' := Blk ParagraphKind 0 (len L) [] (map toInline nodes) 0 0 0 false false).
  change (bheight b') with 1%nat.
  change (extractDefs 1 L b' []) with (@nil (bytes * linkDef)).
  cbn [joinBlocks renderB]. change (bkind b') with ParagraphKind. change (bkids b') with (@nil block). change (bik b') with (map toInline nodes).
  change (ParagraphKind =? ParagraphKind) with true. cbv iota.
  rewrite (kidsI_text c0 [] L nodes HT), HR.
  rewrite (openTag_nf c0 _ Hcfg), (closeTag_nf c0 _ Hcfg). reflexivity.
Qed.
Print Assumptions C06_escaped_text_cfg.
Definition C06_escaped_text_ok t : okText true t = true ->
  renderDoc c0 (esc t ++ [10]) = [60; 112; 62] ++ escapeHTML t ++ [60; 47; 112; 62] := C06_escaped_text_cfg c0 t eq_refl.

(* ---- the hypothesis in readable form ---- *)
Fixpoint noDoubleSpace (t : bytes) : Prop :=
  match t with
  | a :: (b :: _) as r => ~ (a = 32 /\ b = 32) /\ noDoubleSpace r
  | _ => True
  end.
(* ASCII letters, digits, ASCII punctuation and single interior spaces *)
Definition wfText (t : bytes) : Prop :=
  t <> [] /\ Forall (fun c => textByte c = true) t /\ hd 0 t <> 32 /\ last t 0 <> 32 /\ noDoubleSpace t.

Lemma wf_okText : forall t p, t <> [] -> Forall (fun c => textByte c = true) t -> (p = true -> hd 0 t <> 32) ->
  last t 0 <> 32 -> noDoubleSpace t -> okText p t = true.
Proof.
  induction t as [|c r IH]; intros p Hne HF Hhd Hlast Hnd; [contradiction|].
  inversion HF as [|? ? Hc HFr]; subst. cbn [okText].
  assert (Hcls : (c =? 32) = false -> plainCh c || isASCIIPunctuation c = true).
  { intros E. unfold textByte in Hc. rewrite E, orb_false_r in Hc. exact Hc. }
  destruct r as [|c' r'].
  - cbn [last] in Hlast. destruct (Z.eqb_spec c 32) as [E|N]; [contradiction|]. rewrite Hcls by reflexivity. reflexivity.
  - assert (Hlast' : last (c' :: r') 0 <> 32) by exact Hlast.
    destruct Hnd as [Hnd1 Hnd].
    destruct (Z.eqb_spec c 32) as [E|N].
    + subst c. destruct p; [exfalso; apply Hhd; reflexivity|]. cbn [negb andb].
      apply IH; [discriminate|exact HFr| |exact Hlast'|exact Hnd].
      intros _. cbn [hd]. intros E. apply Hnd1. split; [reflexivity|exact E].
    + rewrite Hcls by reflexivity. cbn [andb]. apply IH; [discriminate|exact HFr|discriminate|exact Hlast'|exact Hnd].
Qed.

Lemma okText_wf : forall t p, okText p t = true -> (t <> [] \/ p = false) /\ (p = true -> hd 0 t <> 32) /\
  (t <> [] -> last t 0 <> 32) /\ noDoubleSpace t.
Proof.
  induction t as [|c r IH]; intros p H.
  - cbn [okText] in H. apply negb_true_iff in H. repeat split; try tauto. intros _; cbn; lia.
  - cbn [okText] in H. destruct (Z.eqb_spec c 32) as [E|N].
    + apply andb_true_iff in H. destruct H as [Hp H]. apply negb_true_iff in Hp. destruct (IH true H) as (A & B & C & D).
      assert (Hr : r <> []) by (destruct A as [A|A]; [exact A|discriminate A]).
      split; [left; discriminate|]. split; [intros Hp'; congruence|]. split.
      * intros _. destruct r as [|c' r']; [contradiction|]. exact (C Hr).
      * destruct r as [|c' r']; [exact I|]. split; [|exact D]. intros [_ E']. apply (B eq_refl). exact E'.
    + apply andb_true_iff in H. destruct H as [_ H]. destruct (IH false H) as (A & B & C & D).
      split; [left; discriminate|]. split; [intros _; exact N|]. split.
      * intros _. destruct r as [|c' r']; [exact N|]. apply C. discriminate.
      * destruct r as [|c' r']; [exact I|]. split; [|exact D]. intros [E' _]. contradiction.
Qed.

Theorem okText_iff_wfText t : okText true t = true <-> wfText t.
Proof.
  split.
  - intros H. destruct (okText_wf t true H) as (A & B & C & D).
    assert (Hne : t <> []) by (destruct A as [A|A]; [exact A|discriminate A]).
    repeat split; [exact Hne|exact (okText_bytes t true H)|exact (B eq_refl)|exact (C Hne)|exact D].
  - intros (A & B & C & D & E). apply wf_okText; try assumption. intros _; exact C.
Qed.

(* (A) Escaped text: a non-empty text of ASCII letters, digits, ASCII punctuation and single interior spaces,
   written with a backslash before every punctuation byte and terminated by LF, renders to exactly that text, HTML-escaped,
   inside one <p> element. *)
Theorem C06_escaped_text t : wfText t ->
  renderDoc c0 (esc t ++ [10]) = [60; 112; 62] ++ escapeHTML t ++ [60; 47; 112; 62].
Proof. intros H. apply C06_escaped_text_ok. apply okText_iff_wfText. exact H. Qed.
Print Assumptions C06_escaped_text.

(* the hypothesis is satisfiable: "Hi! 1. *x* <&> [a](b) \ #" *)
(* the same for every configuration whose tag filter is off (softBreak and ignoreRaw play no role in this slice) *)
Theorem C06_escaped_text_any_cfg c t : filterOn c = false -> wfText t ->
  renderDoc c (esc t ++ [10]) = [60; 112; 62] ++ escapeHTML t ++ [60; 47; 112; 62].
Proof. intros Hc H. apply C06_escaped_text_cfg; [exact Hc|]. apply okText_iff_wfText. exact H. Qed.
Print Assumptions C06_escaped_text_any_cfg.

Example wfText_example : wfText [72;105;33;32;49;46;32;42;120;42;32;60;38;62;32;91;97;93;40;98;41;32;92;32;35].
Proof. apply okText_iff_wfText. reflexivity. Qed.
