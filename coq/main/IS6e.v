From Coq Require Import List ZArith Lia Bool.
Import ListNotations.
Require Import Base Tables Utf8 Tree Rdr Link Collect Html Recog Inl3a Inl3b Inl3c Inl3d ShapesBase ShapesR ShapesHT IS2 IS6a IS6d.
Open Scope Z_scope.

(* ================================================================== *)
(* IS6e: an HTML tag never ends exactly where an Indent span starts.   *)
(* The reader invariant: its span list is a suffix of the list it was  *)
(* started with, everything readable before it lies behind the         *)
(* position, and the reader stands in a node or is exhausted.          *)
(* ================================================================== *)

Definition readable (n : inline) : bool := (ikind n =? UnparsedKind) || (ikind n =? TextKind) || (ikind n =? IndentKind).

Lemma nextSpan_none : forall l, nextSpan l = None -> forall x, In x l -> readable x = false.
Proof.
  induction l as [|i r IH]; intros H x Hx; [contradiction|]. cbn [nextSpan] in H. fold (readable i) in H.
  destruct (readable i) eqn:Er; [discriminate|]. destruct Hx as [->|Hx]; [exact Er|apply IH; assumption].
Qed.
Lemma spOK_before src : forall a n b, spOK src (a ++ n :: b) = true -> forall x, In x a -> iend x <= istart n.
Proof.
  induction a as [|y a IH]; intros n b H x Hx; [contradiction|]. cbn [app] in H.
  pose proof (spOK_cons _ _ _ H) as (_ & _ & C & _ & _ & G). destruct Hx as [->|Hx].
  - apply C. apply in_or_app. right. left. reflexivity.
  - apply (IH n b G x Hx).
Qed.
Lemma spOK_after src n b : spOK src (n :: b) = true -> forall x, In x b -> iend n <= istart x.
Proof. intros H x Hx. pose proof (spOK_cons _ _ _ H) as (_ & _ & C & _). apply C, Hx. Qed.

(* a failed step from inside a node: nothing readable is left after the node *)
Lemma next_false_rest r r1 node rest : next r = (false, r1) -> curNode r = (Some node, withSpans r (node :: rest)) -> nextSpan rest = None.
Proof.
  unfold next. intros H E. rewrite E in H. cbn [r_src r_pos r_spans r_vpos withSpans tl] in H.
  destruct ((ikind node =? IndentKind) && (r_vpos r <? iindent node)); [discriminate|].
  destruct (negb (ikind node =? IndentKind) && (r_pos r + 1 <? iend node)); [discriminate|].
  destruct (nextSpan rest) as [[i sp]|]; [discriminate|reflexivity].
Qed.

Section HTe.
  Variable src : bytes.
  Variable sp0 : list inline.
  Hypothesis HOK0 : spOK src sp0 = true.
  Hypothesis HEol : forall n m, In n sp0 -> In m sp0 -> ikind n <> IndentKind -> iend n <= istart m -> isEol (at_ src (iend n - 1)) = true.

  Definition Qr (r : reader) : Prop :=
    RI src r /\
    (exists pre, sp0 = pre ++ r_spans r /\ forall n, In n pre -> readable n = true -> istart n <= r_pos r) /\
    (InNode r \/ r_spans r = []).
  Definition Ge (e : Z) : Prop := forall I, In I sp0 -> ikind I = IndentKind -> istart I <> e.

  Lemma Qr_RI r : Qr r -> RI src r. Proof. intros H. apply H. Qed.

  Lemma Qr_curNode r : Qr r -> Qr (snd (curNode r)).
  Proof.
    intros (HRI & (pre & Epre & Hbeh) & Hst). split; [apply RI_curNode, HRI|].
    destruct (curNode_cases r) as [E|(pre_r & n & rest & E1 & E & E3)]; rewrite E; cbn [snd].
    - destruct Hst as [(node & Hn)|Hs]; [rewrite E in Hn; discriminate|].
      split; [|right; reflexivity]. exists sp0. cbn [withSpans r_spans r_pos]. split; [symmetry; apply app_nil_r|].
      intros x Hx Hr. rewrite Epre, Hs, app_nil_r in Hx. apply Hbeh; assumption.
    - destruct HRI as (Hs & Hok). rewrite E1 in Hok. pose proof (spanHas_range _ _ E3) as (R1 & R2 & R3).
      split.
      + exists (pre ++ pre_r). cbn [withSpans r_spans r_pos]. split; [rewrite Epre, E1, app_assoc; reflexivity|].
        intros x Hx Hr. apply in_app_or in Hx. destruct Hx as [Hx|Hx]; [apply Hbeh; assumption|].
        pose proof (spOK_before src pre_r n rest Hok x Hx). pose proof (spOK_app_r src pre_r _ Hok) as Hok2.
        assert (Hx2 : In x (pre_r ++ n :: rest)) by (apply in_or_app; left; exact Hx).
        pose proof (spOK_all src _ Hok x Hx2) as (_ & Hlt & _). lia.
      + left. exists n. rewrite (curNode_head n rest); [reflexivity|reflexivity|exact E3].
  Qed.
  Lemma Qr_current r : Qr r -> Qr (snd (current r)).
  Proof. intros H. destruct (current_snd r) as [E|E]; rewrite E; [exact H|apply Qr_curNode, H]. Qed.

  Lemma Qr_next r : Qr r -> Qr (snd (next r)).
  Proof.
    intros (HRI & (pre & Epre & Hbeh) & Hst). destruct (next r) as [ok r1] eqn:En. cbn [snd].
    destruct Hst as [(node0 & Hn0)|Hs].
    2:{ unfold next in En. rewrite (curNode_nil r Hs) in En. inversion En; subst ok r1. destruct r as [a b c d e]. cbn in *. subst b.
        split; [split; [apply HRI|reflexivity]|]. split; [|right; reflexivity]. exists pre. cbn. split; [exact Epre|exact Hbeh]. }
    destruct ok.
    - destruct (next_step src r r1 HRI En) as (HRI1 & HI1 & _ & _).
      destruct (next_true r r1 En) as (node & rest & Ec & Hh & (pre_r & Epr) & Es & Ep & Hcase).
      pose proof HRI as (Hs & Hok). rewrite Epr in Hok. pose proof (spanHas_range _ _ Hh) as (R1 & R2 & R3).
      assert (Hbefore : forall x, In x pre_r -> istart x <= r_pos r).
      { intros x Hx. pose proof (spOK_before src pre_r node rest Hok x Hx).
        assert (Hx2 : In x (pre_r ++ node :: rest)) by (apply in_or_app; left; exact Hx).
        pose proof (spOK_all src _ Hok x Hx2) as (_ & Hlt & _). lia. }
      split; [exact HRI1|]. split; [|left; exact HI1].
      destruct Hcase as [(Ek & Epos & Esp)|[(Ek & Epos & Elt & Esp)|(pre' & j & rest' & Er & Esp & Epos & Ecase)]].
      + exists (pre ++ pre_r). split; [rewrite Esp, Epre, Epr, app_assoc; reflexivity|]. rewrite Epos.
        intros x Hx Hr. apply in_app_or in Hx. destruct Hx as [Hx|Hx]; [specialize (Hbeh x Hx Hr); lia|specialize (Hbefore x Hx); lia].
      + exists (pre ++ pre_r). split; [rewrite Esp, Epre, Epr, app_assoc; reflexivity|]. rewrite Epos.
        intros x Hx Hr. apply in_app_or in Hx. destruct Hx as [Hx|Hx]; [specialize (Hbeh x Hx Hr); lia|specialize (Hbefore x Hx); lia].
      + exists (pre ++ pre_r ++ node :: pre'). split.
        * rewrite Esp, Epre, Epr, Er. rewrite <- !app_assoc. reflexivity.
        * rewrite Epos. assert (Hj : iend node <= istart j).
          { apply (spOK_after src node rest (spOK_app_r src pre_r _ Hok)). rewrite Er. apply in_or_app. right. left. reflexivity. }
          intros x Hx Hr. apply in_app_or in Hx. destruct Hx as [Hx|Hx]; [specialize (Hbeh x Hx Hr); lia|].
          apply in_app_or in Hx. destruct Hx as [Hx|Hx]; [specialize (Hbefore x Hx); lia|].
          destruct Hx as [<-|Hx]; [lia|].
          pose proof (spOK_app_r src pre_r _ Hok) as Hok2. pose proof (spOK_tail src node rest Hok2) as Hok4. rewrite Er in Hok4.
          pose proof (spOK_before src pre' j rest' Hok4 x Hx).
          pose proof (spOK_all src _ Hok4 x ltac:(apply in_or_app; left; exact Hx)) as (_ & Hlt & _). lia.
    - destruct (next_false r r1 En) as (Esp & Es & Hf).
      destruct (curNode_cases r) as [E|(pre_r & n & rest & E1 & E & E3)]; [rewrite E in Hn0; discriminate|].
      destruct (Hf n ltac:(rewrite E; reflexivity)) as (_ & Ep1 & _).
      pose proof (next_false_rest r r1 n rest En E) as Hns.
      pose proof HRI as (Hs & Hok). rewrite E1 in Hok. pose proof (spanHas_range _ _ E3) as (R1 & R2 & R3).
      split; [split; [congruence|rewrite Esp; reflexivity]|]. split; [|right; exact Esp].
      exists sp0. split; [rewrite Esp; symmetry; apply app_nil_r|]. rewrite Ep1.
      intros x Hx Hr. rewrite Epre, E1 in Hx. apply in_app_or in Hx. destruct Hx as [Hx|Hx]; [specialize (Hbeh x Hx Hr); lia|].
      apply in_app_or in Hx. destruct Hx as [Hx|Hx].
      + pose proof (spOK_before src pre_r n rest Hok x Hx).
        pose proof (spOK_all src _ Hok x ltac:(apply in_or_app; left; exact Hx)) as (_ & Hlt & _). lia.
      + destruct Hx as [<-|Hx]; [lia|]. rewrite (nextSpan_none rest Hns x Hx) in Hr. discriminate.
  Qed.

  Lemma Qr_gt r : Qr r -> at_ src (r_pos r) = 62 -> Ge (r_pos r + 1).
  Proof.
    intros (HRI & (pre & Epre & Hbeh) & Hst) H62 I HI Hk Eq.
    assert (HrI : readable I = true) by (unfold readable; rewrite Hk; reflexivity).
    destruct Hst as [(node0 & Hn0)|Hs].
    2:{ rewrite Epre, Hs, app_nil_r in HI. specialize (Hbeh I HI HrI). lia. }
    destruct (curNode_cases r) as [E|(pre_r & n & rest & E1 & E & E3)]; [rewrite E in Hn0; discriminate|].
    pose proof HRI as (Hs & Hok). rewrite E1 in Hok. pose proof (spanHas_range _ _ E3) as (R1 & R2 & R3).
    pose proof HI as HI0. rewrite Epre, E1 in HI. apply in_app_or in HI. destruct HI as [HI|HI]; [specialize (Hbeh I HI HrI); lia|].
    apply in_app_or in HI. destruct HI as [HI|HI].
    - pose proof (spOK_before src pre_r n rest Hok I HI).
      pose proof (spOK_all src _ Hok I ltac:(apply in_or_app; left; exact HI)) as (_ & Hlt & _). lia.
    - destruct HI as [<-|HI]; [lia|].
      pose proof (spOK_app_r src pre_r _ Hok) as Hok2.
      pose proof (spOK_after src n rest Hok2 I HI) as Hle.
      pose proof (spOK_cons _ _ _ Hok2) as (_ & _ & _ & D & _).
      assert (Hkn : ikind n <> IndentKind).
      { intros Ek. destruct (indent_blank src n _ (D Ek) E3) as [L|L]; [pose proof (at_nonzero_lt src (r_pos r) ltac:(lia)); lia|]. rewrite H62 in L. discriminate. }
      assert (Hn_in : In n sp0) by (rewrite Epre, E1; apply in_or_app; right; apply in_or_app; right; left; reflexivity).
      pose proof (HEol n I Hn_in HI0 Hkn Hle) as He. replace (iend n - 1) with (r_pos r) in He by lia. rewrite H62 in He. discriminate.
  Qed.

  (* the initial reader *)
  Lemma Qr_init pos node rest : sp0 = node :: rest -> spanHas node pos = true -> Qr (newReader src sp0 pos).
  Proof.
    intros E Hh. split; [split; [reflexivity|exact HOK0]|]. split.
    - exists []. split; [reflexivity|intros x []].
    - left. exists node. rewrite (curNode_head node rest); [reflexivity|exact E|exact Hh].
  Qed.

  Theorem parseHTMLTag_Ge fuel r s e : Qr r -> parseHTMLTag fuel r = (s, e) -> spanValid (s, e) = true -> Ge e.
  Proof.
    intros HQ H Hv. unfold parseHTMLTag in H.
    destruct (negb (cur r =? 60)); [inversion H; subst; discriminate|].
    rewrite next_current in H. pose proof (Qr_next r HQ) as HQ1. destruct (next r) as [ok r1]. cbn [snd] in HQ1.
    destruct (negb ok || jumped r1); [inversion H; subst; discriminate|].
    pose proof (htmlTag_rest_ok src Qr Ge Qr_RI Qr_curNode Qr_current Qr_next Qr_gt fuel r1 (r_pos r) HQ1) as Hres. cbv zeta in Hres.
    cbv zeta in H. rewrite H in Hres. destruct Hres as [Hn|(_ & Hg)].
    - inversion Hn; subst. discriminate.
    - exact Hg.
  Qed.
End HTe.
