(* T63-F1 (D2).  Copy of En3LP3.v over the invariant EolFinalFullHbE4Tree.en = En3Tree.en plus one clause (lastX): the last entry of a
   PARAGRAPH holds a byte that is not space / tab / line ending, and once the paragraph is closed it ends at the end of the block.
   Changes w.r.t. En3LP3.v: module names; the places that build or use that clause; closing lemmas take "a paragraph is open -> e = lineStart". *)
From Coq Require Import List ZArith Lia Bool.
Import ListNotations.
Require Import Base Tree Rdr Link Collect Html Recog LP Rules Starts Driver L2Kind L2CC BSDef BSRdr BSTree BSOcp BSOrph BSClose BSLine1 BSLine2 BSLine3 BSLine4 BSLine5
  GramTree GramLP GramLP2 Cursor CursorX NoPanic12 ShDef ShRdr ShClose ShEnv ShLine1 ShLine2 ShFresh ShStarts2.
Require Import ShapesBase EntBase EntOcpDefs EntOcp EolFinalFullHbE4Tree EntCur EolFinalFullHbE4Par EolFinalFullHbE4LP1 EolFinalFullHbE4LP2.
Open Scope Z_scope.

(* ================================================================================================
   T28, part 6: block starts (all but ATX, list item, setext).
   A start either returns its argument unchanged, or it succeeds: then the container is not a paragraph,
   the state is OpenMatched / LineConsumed, and either the line is consumed or no reachable paragraph sees
   a cursor that moved over anything but prefix bytes.
   ================================================================================================ *)
(* ---- the byte at the start of the line, when a block start is recognised ---- *)
Lemma nb41_first B p : envB B p -> curP p -> clean p -> 0 < len (bytesAfterIndent p) -> at_ (bytesAfterIndent p) 0 <> 41 ->
  nb41 B (lineStart p).
Proof.
  intros He (H0 & Hc) Hcl Hl Ha. right. unfold bytesAfterIndent in *. rewrite trimLeft_from in *.
  destruct (indentLength_spec (rest p)) as (I1 & I2 & I3). set (k := indentLength (rest p)) in *.
  assert (Hr : len (rest p) = len (line p) - li p) by (unfold rest; apply ShapesBase.len_from; lia).
  assert (Hk : k < len (rest p)).
  { destruct (Z.lt_ge_cases k (len (rest p))) as [L|L]; [exact L|]. rewrite ShapesBase.len_from in Hl by lia. lia. }
  rewrite ShapesBase.at_from in Ha by lia. replace (k + 0) with k in Ha by lia. rewrite rest_at in Ha by lia.
  assert (E0 : at_ B (lineStart p) = at_ (line p) 0).
  { rewrite (line_at B p 0 He) by lia. f_equal. lia. }
  rewrite E0. destruct (Z.eq_dec (li p) 0) as [Z0|NZ].
  - destruct (Z.eq_dec k 0) as [K0|NK]; [rewrite Z0, K0 in Ha; exact Ha|].
    pose proof (I2 0 ltac:(lia)) as X. rewrite rest_at in X by lia. rewrite Z0 in X. change (0 + 0) with 0 in X. apply isSpTab_gapB in X. unfold gapB in X. lia.
  - pose proof (Hcl 0 ltac:(lia)) as X. unfold gapB in X. lia.
Qed.

Lemma TP_start B p : EP B p -> Rr p -> 0 < len (bytesAfterIndent p) -> at_ (bytesAfterIndent p) 0 <> 41 -> TP B p.
Proof. intros HE HR Hl Ha Hp. apply nb41_first; [apply HE|apply HE|apply HR, Hp|exact Hl|exact Ha]. Qed.

Lemma first_prefix l c : hasBytePrefix l [c] = true -> c <> 41 -> 0 < len l /\ at_ l 0 <> 41.
Proof. intros H N. destruct (hasBytePrefix1 l c H) as [E L]. rewrite E. tauto. Qed.
Lemma first_thematic l : 0 <= parseThematicBreak l -> 0 < len l /\ at_ l 0 <> 41.
Proof.
  destruct l as [|b r]; [cbn; lia|]. intros H. rewrite ShapesBase.len_cons. pose proof (ShapesBase.len_nonneg r). split; [lia|].
  intros E. change (at_ (b :: r) 0) with b in E. subst b. cbn in H. lia.
Qed.
Lemma first_atx l lv cs ce : parseATXHeading l = (lv, cs, ce) -> 1 <= lv -> 0 < len l /\ at_ l 0 <> 41.
Proof.
  unfold parseATXHeading. cbv zeta. destruct l as [|b r]; [cbn; intros E; inversion E; lia|].
  intros H Hl. rewrite ShapesBase.len_cons. pose proof (ShapesBase.len_nonneg r). split; [lia|].
  intros E. change (at_ (b :: r) 0) with b in E. subst b. cbn in H. inversion H. lia.
Qed.
Lemma first_fence l fc fnn is ie : parseCodeFence l = (fc, fnn, is, ie) -> fnn <> 0 -> 0 < len l /\ at_ l 0 <> 41.
Proof.
  unfold parseCodeFence. cbv zeta. destruct l as [|b r]; [intros E; inversion E; lia|].
  intros H Hl. rewrite ShapesBase.len_cons. pose proof (ShapesBase.len_nonneg r). split; [lia|].
  intros E. change (at_ (b :: r) 0) with b in E. subst b. change ((41 =? 96) || (41 =? 126)) with false in H. cbn [negb] in H. rewrite orb_true_r in H. inversion H. lia.
Qed.
Lemma first_marker l d n e : parseListMarker l = (d, n, e) -> 0 <= e -> 0 < len l /\ at_ l 0 <> 41.
Proof.
  unfold parseListMarker. destruct l as [|b r]; [intros E; inversion E; lia|].
  intros H Hl. rewrite ShapesBase.len_cons. pose proof (ShapesBase.len_nonneg r). split; [lia|].
  intros E. change (at_ (b :: r) 0) with b in E. subst b. cbn in H. inversion H. lia.
Qed.
Lemma first_setext l : parseSetextHeadingUnderline l <> 0 -> 0 < len l /\ at_ l 0 <> 41.
Proof.
  unfold parseSetextHeadingUnderline. destruct l as [|b r]; [intros E; contradiction|].
  intros H. rewrite ShapesBase.len_cons. pose proof (ShapesBase.len_nonneg r). split; [lia|].
  intros E. change (at_ (b :: r) 0) with b in E. subst b. cbn in H. contradiction.
Qed.

(* an open paragraph on the open chain is the tip *)
Lemma ppT_tip : forall d r x fuel, getAt d r = Some x -> bkind x = ParagraphKind -> openTo d r -> cc r = true -> (bheight r <= fuel)%nat ->
  exists t, getAt (tipDepth fuel r) r = Some t /\ bkind t = ParagraphKind.
Proof.
  induction d as [|d IH]; intros r x fuel Ex Kx Ho Hcc Hf.
  - cbn in Ex. inversion Ex; subst x. pose proof (para_no_kids r Hcc Kx) as Hk.
    assert (El : lastBlock r = None) by (unfold lastBlock; rewrite Hk; reflexivity).
    destruct fuel as [|f]; cbn [tipDepth]; [|rewrite El]; exists r; split; try reflexivity; exact Kx.
  - rewrite getAt_S in Ex. destruct (lastBlock r) as [c|] eqn:El; [|discriminate].
    destruct fuel as [|f]; [destruct (bheight_S r) as (k & Ek); lia|]. cbn [tipDepth]. rewrite El.
    assert (Hoc : bend c < 0) by (apply (Ho 1%nat c); [lia|rewrite getAt_S, El; reflexivity]).
    unfold isOpen. destruct (Z.ltb_spec (bend c) 0) as [_|X]; [|lia].
    destruct (IH c x f Ex Kx) as (t & Et & Kt).
    + intros j y Hj Ey. apply (Ho (S j) y); [lia|rewrite getAt_S, El; exact Ey].
    + eapply cc_lastBlock; eassumption.
    + pose proof (bheight_last r c El). lia.
    + exists t. split; [rewrite getAt_S, El; exact Et|exact Kt].
Qed.
Lemma tip_noPara p : ccP p -> (tipKind p =? ParagraphKind) = false -> ~ ppT (root p).
Proof.
  intros (_ & Hcc & _) Ht (d & x & Ex & Kx & Ho). destruct (ppT_tip d (root p) x (bheight (root p)) Ex Kx Ho Hcc ltac:(lia)) as (t & Et & Kt).
  unfold tipKind in Ht. rewrite Et, Kt in Ht. discriminate.
Qed.

(* the tree after openBlock has no open paragraph: the new block is the container, and it is no paragraph *)
Lemma openBlock_noPara B p K : EP B p -> TP B p -> st_open p -> K <> SetextHeadingKind -> K <> ParagraphKind -> K <> ATXHeadingKind ->
  (K <> ListItemKind \/ canContain (containerKind p) K = true) -> ~ ppT (root (openBlock p K)).
Proof.
  intros HE Htp Hs N1 N2 N3 Hk. destruct (EP_openBlock B p K HE Htp Hs N1 N2 N3 Hk) as [H1 _]. destruct (EP_obPre B p K HE Htp) as (H0 & _ & _).
  apply (noPara_fresh (obPre p K) (openBlock p K) (newBlock K (lineStart p + li p))); [apply H1|apply frs_openBlock, Hs|apply H0|exact N2|reflexivity].
Qed.

Definition startOKe (B : bytes) (f : lp -> lp) : Prop :=
  forall p, EP B p -> st_open p -> Rr p ->
    f p = p \/ (EP B (f p) /\ (state (f p) = stLineConsumed \/ Rr (f p)) /\ containerKind (f p) <> ParagraphKind /\ ms (f p) /\ ~ ppT (root (f p))).

Lemma clean_curS p p' : curS p p' -> clean p -> clean p'.
Proof. intros (E1 & E2 & _) H i Hi. rewrite E2. apply H. rewrite <- E1. exact Hi. Qed.
Lemma Rr_tree p p' : curS p p' -> (ppT (root p') -> ppT (root p)) -> Rr p -> Rr p'.
Proof. intros Hc Hp R H. eapply clean_curS; [exact Hc|apply R, Hp, H]. Qed.
Lemma Rr_noPara p : ~ ppT (root p) -> Rr p. Proof. intros N H. contradiction. Qed.

Lemma LC_consumeLine p : st_open p -> state (consumeLine p) = stLineConsumed.
Proof.
  intros Hs. unfold consumeLine. cbv zeta. pose proof (st_open_sstep _ _ (sstep_advance p (len (line p) - li p)) Hs) as H1.
  destruct H1 as [E|E]; rewrite E; reflexivity.
Qed.
Lemma LC_sstep p p' : sstep p p' -> state p = stLineConsumed -> state p' = stLineConsumed.
Proof. intros [A|[A _]] E; [congruence|rewrite E in A; discriminate]. Qed.
Lemma ms_LC p : state p = stLineConsumed -> ms p. Proof. intros E. right. exact E. Qed.

Lemma containerKind_cstep p p' : cstep p p' -> containerKind p' = containerKind p.
Proof. intros (H & _). apply containerKind_same, H. Qed.
Lemma containerKind_keeps p f : keeps f -> containerKind (updCont p f) = containerKind p.
Proof.
  intros Hk. unfold containerKind, contBlock. change (cdepth (updCont p f)) with (cdepth p). rewrite root_updCont, getAt_updAt_same.
  destruct (getAt (cdepth p) (root p)) as [x|]; [|reflexivity]. cbn [option_map]. apply Hk.
Qed.
Lemma cont_child p : ccP p -> (exists c, getAt (S (cdepth p)) (root p) = Some c) -> containerKind p <> ParagraphKind.
Proof.
  intros (_ & Hcc & (x & Hx)) (c & Hc) E. pose proof (cc_spine (cdepth p) (root p) x c Hcc Hx Hc) as Hcan.
  rewrite (containerKind_at p x Hx) in E. rewrite E, canContain_para in Hcan. discriminate.
Qed.
Lemma containerKind_open p K : ccP (openBlock p K) -> st_open p -> containerKind (openBlock p K) = K.
Proof. intros Hcc Hs. apply containerKind_of; [exact Hcc|apply ckind_openBlock, Hs]. Qed.

Lemma bdy_consumeLine B p : EP B p -> bdy B (lineStart (consumeLine p) + li (consumeLine p)).
Proof.
  intros HE. pose proof HE as (A & (_ & A1) & _). rewrite (li_consumeLine p A1). destruct (env_parts _ _ (env_consumeLine p)) as (_ & X & _). rewrite X.
  apply bdy_H, A.
Qed.

Lemma st_open_OM p : state p = stOpenMatched -> st_open p. Proof. intros E. right. exact E. Qed.

(* ---- block quote ---- *)
Lemma sOKe_startBlockQuote B : startOKe B startBlockQuote.
Proof.
  intros p HE Hs HR. unfold startBlockQuote. cbv zeta.
  destruct (_ <=? _); [left; reflexivity|].
  destruct (hasBytePrefix (bytesAfterIndent p) [62]) eqn:Eq; cbn [negb]; [|left; reflexivity]. right.
  pose proof HE as (A & A1 & A2 & (A3 & ASO) & A4).
  set (p1 := consumeIndent p (indent p)).
  assert (H1 : EP B p1) by (apply EP_consumeIndent, HE).
  assert (S1 : st_open p1) by (eapply st_open_sstep; [apply sstep_consumeIndent|exact Hs]).
  pose proof (spstep_consumeIndent p (indent p)) as Sp1. fold p1 in Sp1.
  assert (R1 : Rr p1) by (eapply Rr_gstep; [apply gstep_of_spstep, Sp1|exact HR]).
  destruct (first_prefix _ 62 Eq ltac:(discriminate)) as [F1 F2].
  assert (T1 : TP B p1) by (apply (TP_cstep B p); [apply cstep_consumeIndent|apply TP_start; assumption]).
  destruct (EP_openBlock B p1 BlockQuoteKind H1 T1 S1 ltac:(discriminate) ltac:(discriminate) ltac:(discriminate) ltac:(left; discriminate)) as [H2 P2].
  pose proof (openBlock_noPara B p1 BlockQuoteKind H1 T1 S1 ltac:(discriminate) ltac:(discriminate) ltac:(discriminate) ltac:(left; discriminate)) as NP2.
  set (p2 := openBlock p1 BlockQuoteKind) in *.
  assert (R2 : Rr p2) by (eapply Rr_tree; [apply curS_openBlock|exact P2|exact R1]).
  assert (E2 : state p2 = stOpenMatched) by (apply state_openBlock, S1).
  assert (K2 : containerKind p2 = BlockQuoteKind) by (apply containerKind_open; [apply H2|exact S1]).
  destruct (after_blanks p p1 62 A1 Sp1 Eq eq_refl) as (B1 & B2 & B3 & B4).
  assert (Hb : gapB (at_ (line p2) (li p2))).
  { destruct (curS_openBlock p1 BlockQuoteKind) as (C1 & C2 & _). fold p2 in C1, C2. rewrite C1, C2, (cstep_line p p1 (proj1 Sp1)).
    destruct (Z.eq_dec (li p1) (li p + indentLength (rest p))) as [E|N]; [rewrite E, B2; right; right; reflexivity|apply isSpTab_gapB, B4; lia]. }
  pose proof (gstep_advance1 p2 Hb) as G3. set (p3 := advance p2 1) in *.
  assert (H3 : EP B p3) by (apply EP_advance, H2).
  assert (R3 : Rr p3) by (eapply Rr_gstep; eassumption).
  assert (M3 : ms p3) by (eapply ms_sstep; [apply sstep_advance|left; exact E2]).
  assert (K3 : containerKind p3 = BlockQuoteKind) by (unfold p3; rewrite (containerKind_cstep _ _ (cstep_advance p2 1)); exact K2).
  assert (NP3 : ~ ppT (root p3)) by (unfold p3; rewrite (root_cstep _ _ (cstep_advance p2 1)); exact NP2).
  destruct (0 <? indent p3).
  - split; [apply EP_consumeIndent, H3|]. split; [right; eapply Rr_gstep; [apply gstep_consumeIndent|exact R3]|].
    split; [rewrite (containerKind_cstep _ _ (cstep_consumeIndent p3 1)), K3; discriminate|split; [eapply ms_sstep; [apply sstep_consumeIndent|exact M3]|]].
    rewrite (root_cstep _ _ (cstep_consumeIndent p3 1)). exact NP3.
  - split; [exact H3|]. split; [right; exact R3|]. split; [rewrite K3; discriminate|split; [exact M3|exact NP3]].
Qed.

(* ---- indented code ---- *)
Lemma sOKe_startIndented B : startOKe B startIndented.
Proof.
  intros p HE Hs HR. unfold startIndented. destruct (_ || _ || _) eqn:Ec; [left; reflexivity|]. right.
  apply orb_false_iff in Ec. destruct Ec as [_ Ec].
  assert (T0 : TP B p) by (apply TP_none, tip_noPara; [apply HE|exact Ec]).
  set (p1 := consumeIndent p codeBlockIndentLimit).
  assert (T1 : TP B p1) by (apply (TP_cstep B p); [apply cstep_consumeIndent|exact T0]).
  assert (H1 : EP B p1) by (apply EP_consumeIndent, HE).
  assert (S1 : st_open p1) by (eapply st_open_sstep; [apply sstep_consumeIndent|exact Hs]).
  assert (R1 : Rr p1) by (eapply Rr_gstep; [apply gstep_consumeIndent|exact HR]).
  destruct (EP_openBlock B p1 IndentedCodeBlockKind H1 T1 S1 ltac:(discriminate) ltac:(discriminate) ltac:(discriminate) ltac:(left; discriminate)) as [H2 P2].
  pose proof (openBlock_noPara B p1 IndentedCodeBlockKind H1 T1 S1 ltac:(discriminate) ltac:(discriminate) ltac:(discriminate) ltac:(left; discriminate)) as NP2.
  split; [exact H2|]. split; [right; eapply Rr_tree; [apply curS_openBlock|exact P2|exact R1]|].
  split; [rewrite containerKind_open; [discriminate|apply H2|exact S1]|split; [left; apply state_openBlock, S1|exact NP2]].
Qed.

(* ---- thematic break ---- *)
Lemma sOKe_startThematic B : startOKe B startThematic.
Proof.
  intros p HE Hs HR. unfold startThematic. cbv zeta. destruct (_ <=? _); [left; reflexivity|].
  destruct (Z.ltb_spec (parseThematicBreak (bytesAfterIndent p)) 0) as [Lt|Lt]; [left; reflexivity|]. right.
  destruct (first_thematic _ Lt) as [F1 F2].
  set (p1 := consumeIndent p (indent p)).
  assert (H1 : EP B p1) by (apply EP_consumeIndent, HE).
  assert (S1 : st_open p1) by (eapply st_open_sstep; [apply sstep_consumeIndent|exact Hs]).
  assert (T1 : TP B p1) by (apply (TP_cstep B p); [apply cstep_consumeIndent|apply TP_start; assumption]).
  destruct (EP_openBlock B p1 ThematicBreakKind H1 T1 S1 ltac:(discriminate) ltac:(discriminate) ltac:(discriminate) ltac:(left; discriminate)) as [H2 _].
  pose proof (openBlock_noPara B p1 ThematicBreakKind H1 T1 S1 ltac:(discriminate) ltac:(discriminate) ltac:(discriminate) ltac:(left; discriminate)) as NP2.
  set (p2 := openBlock p1 ThematicBreakKind) in *.
  assert (E2 : st_open p2) by (apply st_open_OM, state_openBlock, S1).
  set (p3 := advance p2 (parseThematicBreak (bytesAfterIndent p))).
  assert (H3 : EP B p3) by (apply EP_advance, H2).
  assert (E3 : st_open p3) by (eapply st_open_sstep; [apply sstep_advance|exact E2]).
  assert (H4 : EP B (consumeLine p3)) by (apply EP_consumeLine, H3).
  assert (E4 : state (consumeLine p3) = stLineConsumed) by (apply LC_consumeLine, E3).
  assert (NP4 : ~ ppT (root (consumeLine p3))).
  { rewrite (root_cstep _ _ (cstep_consumeLine p3)). unfold p3. rewrite (root_cstep _ _ (cstep_advance p2 _)). exact NP2. }
  assert (T4 : TP B (consumeLine p3)) by (apply TP_none, NP4).
  destruct (EP_endBlock B _ H4 T4 NP4 (bdy_consumeLine B p3 H3)) as [H5 _].
  assert (E5 : state (endBlock (consumeLine p3)) = stLineConsumed) by (eapply LC_sstep; [apply sstep_endBlock|exact E4]).
  assert (Hd : (1 <= cdepth (consumeLine p3))%nat).
  { assert (Ec : cdepth (consumeLine p3) = cdepth p2).
    { rewrite (proj2 (cd_of_cstep _ _ (cstep_consumeLine p3))). unfold p3. rewrite (proj2 (cd_of_cstep _ _ (cstep_advance p2 _))). reflexivity. }
    rewrite Ec. unfold p2. rewrite (cdepth_openBlock p1 _ S1). lia. }
  destruct (endBlock_cont B (consumeLine p3) H4 T4 NP4 (bdy_consumeLine B p3 H3) ltac:(right; right; exact E4) Hd) as [N N'].
  split; [exact H5|]. split; [left; exact E5|]. split; [exact N|split; [apply ms_LC, E5|exact N']].
Qed.

(* ---- fenced code, HTML ---- *)
Lemma ckind_collectInline p kind n K : ckind p K -> ckind (collectInline p kind n) K.
Proof.
  intros H. unfold collectInline. destruct (_ =? stDescendTerminated); [eapply ckind_cstep; [apply cstep_panic|exact H]|]. cbv zeta.
  set (p0 := if state p =? stOpening then withState p stOpenMatched else p).
  assert (K0 : ckind p0 K) by (eapply ckind_cstep; [apply cstep_opened|exact H]).
  apply ckind_bik. eapply ckind_cstep; [apply cstep_advance|].
  destruct (0 <? indent p0); [|exact K0]. apply ckind_bik. eapply ckind_cstep; [apply cstep_advance|exact K0].
Qed.
Lemma ckind_keeps p f K : keeps f -> ckind p K -> ckind (updCont p f) K.
Proof. intros Hk. apply ckind_updCont. intros b. apply Hk. Qed.

Lemma cst_openBlock p K : st_open p -> ccP (obPre p K) -> cst (openBlock p K) (lineStart p + li p).
Proof.
  intros Hs Hq b Hb. destruct (frs_openBlock p K Hs) as (F1 & F2 & _). rewrite F2, F1 in Hb. rewrite (getAt_fresh (obPre p K) _ Hq) in Hb.
  inversion Hb; subst b. cbn [newBlock bstart]. lia.
Qed.

Lemma sOKe_startFenced B : startOKe B startFenced.
Proof.
  intros p HE Hs HR. unfold startFenced. cbv zeta. destruct (_ <=? _); [left; reflexivity|].
  destruct (parseCodeFence (bytesAfterIndent p)) as [[[fc fnn] is] ie] eqn:Epf. destruct (Z.eqb_spec fnn 0) as [Ef|Ef]; [left; reflexivity|]. right.
  destruct (first_fence _ _ _ _ _ Epf Ef) as [F1 F2].
  set (p1 := consumeIndent p (indent p)).
  assert (H1 : EP B p1) by (apply EP_consumeIndent, HE).
  assert (S1 : st_open p1) by (eapply st_open_sstep; [apply sstep_consumeIndent|exact Hs]).
  assert (T1 : TP B p1) by (apply (TP_cstep B p); [apply cstep_consumeIndent|apply TP_start; assumption]).
  destruct (EP_openBlock B p1 FencedCodeBlockKind H1 T1 S1 ltac:(discriminate) ltac:(discriminate) ltac:(discriminate) ltac:(left; discriminate)) as [H2 _].
  set (p2 := openBlock p1 FencedCodeBlockKind) in *.
  assert (E2 : st_open p2) by (apply st_open_OM, state_openBlock, S1).
  assert (K2 : ckind p2 FencedCodeBlockKind) by (apply ckind_openBlock, S1).
  assert (Cs2 : cst p2 (lineStart p2 + li p2)).
  { destruct (EP_obPre B p1 FencedCodeBlockKind H1 T1) as (Hq & _ & _). destruct (curS_openBlock p1 FencedCodeBlockKind) as (X1 & _).
    destruct (env_parts _ _ (env_openBlock p1 FencedCodeBlockKind)) as (_ & X2 & _). fold p2 in X1, X2. rewrite X1, X2.
    apply cst_openBlock; [exact S1|apply Hq]. }
  destruct (EP_set_fence B p2 fc fnn H2) as [H3 _]. set (p3 := updCont p2 (fun b => set_bn (set_bchar b fc) fnn)) in *.
  assert (K3 : ckind p3 FencedCodeBlockKind) by (apply ckind_keeps; [apply keeps_fence|exact K2]).
  destruct (EP_set_bindent B p3 (indent p) H3) as [H4 _]. set (p4 := updCont p3 (fun b => set_bindent b (indent p))) in *.
  assert (K4 : ckind p4 FencedCodeBlockKind) by (apply ckind_keeps; [apply keeps_bindent|exact K3]).
  assert (E4 : st_open p4) by exact E2.
  set (p5 := if spanValid (is, ie) then collectInline (advance p4 is) InfoStringKind (ie - is) else p4).
  assert (H5 : EP B p5 /\ ckind p5 FencedCodeBlockKind /\ st_open p5).
  { unfold p5. destruct (spanValid (is, ie)); [|tauto].
    assert (Ha : EP B (advance p4 is)) by (apply EP_advance, H4).
    assert (Ka : ckind (advance p4 is) FencedCodeBlockKind) by (eapply ckind_cstep; [apply cstep_advance|exact K4]).
    assert (Ca : cst (advance p4 is) (lineStart (advance p4 is) + li (advance p4 is))).
    { destruct (cstep_Mc p4 (advance p4 is) (cstep_advance p4 is) ltac:(apply H4)) as (_ & Y & _). unfold Mc in Y. eapply cst_le; [exact Y|].
      apply (cst_cstep p4); [apply cstep_advance|]. unfold p4. apply cst_updCont; [intros x; destruct x; reflexivity|].
      unfold p3. apply cst_updCont; [intros x; destruct x; reflexivity|]. exact Cs2. }
    destruct (EP_collectInline_free B _ InfoStringKind (ie - is) FencedCodeBlockKind Ha Ka ltac:(repeat split; discriminate) ltac:(discriminate) ltac:(intros _ _; exact Ca)) as [C1 _].
    split; [exact C1|]. split; [apply ckind_collectInline, Ka|].
    eapply st_open_sstep; [apply sstep_collectInline|]. eapply st_open_sstep; [apply sstep_advance|exact E4]. }
  destruct H5 as (H5 & K5 & E5).
  assert (H6 : EP B (consumeLine p5)) by (apply EP_consumeLine, H5).
  assert (E6 : state (consumeLine p5) = stLineConsumed) by (apply LC_consumeLine, E5).
  assert (K6 : containerKind (consumeLine p5) = FencedCodeBlockKind).
  { apply containerKind_of; [apply H6|]. eapply ckind_cstep; [apply cstep_consumeLine|exact K5]. }
  split; [exact H6|]. split; [left; exact E6|]. split; [rewrite K6; discriminate|split; [apply ms_LC, E6|]].
  apply noPara_leaf; [apply H6|rewrite K6; discriminate|rewrite K6; intros k; reflexivity].
Qed.

Lemma sOKe_startHTML B : startOKe B startHTML.
Proof.
  intros p HE Hs HR. unfold startHTML. cbv zeta. destruct (_ <=? _); [left; reflexivity|].
  destruct (hasBytePrefix (bytesAfterIndent p) [60]) eqn:Eq; cbn [negb]; [|left; reflexivity]. destruct (_ <? 0); [left; reflexivity|].
  destruct (negb _ && _); [left; reflexivity|]. right.
  destruct (first_prefix _ 60 Eq ltac:(discriminate)) as [F1 F2].
  assert (T0 : TP B p) by (apply TP_start; assumption).
  destruct (EP_openBlock B p HTMLBlockKind HE T0 Hs ltac:(discriminate) ltac:(discriminate) ltac:(discriminate) ltac:(left; discriminate)) as [H2 P2].
  pose proof (openBlock_noPara B p HTMLBlockKind HE T0 Hs ltac:(discriminate) ltac:(discriminate) ltac:(discriminate) ltac:(left; discriminate)) as NP2.
  set (p2 := openBlock p HTMLBlockKind) in *.
  assert (E2 : state p2 = stOpenMatched) by (apply state_openBlock, Hs).
  assert (K2 : ckind p2 HTMLBlockKind) by (apply ckind_openBlock, Hs).
  assert (R2 : Rr p2) by (eapply Rr_tree; [apply curS_openBlock|exact P2|exact HR]).
  match goal with |- context [updCont p2 ?f] => destruct (EP_set_bn B p2 (firstHtmlCond 0 7 (bytesAfterIndent p)) H2) as [H3 P3]; set (p3 := updCont p2 f) in * end.
  assert (K3 : ckind p3 HTMLBlockKind) by (apply ckind_keeps; [apply keeps_bn|exact K2]).
  assert (R3 : Rr p3) by (apply (Rr_tree p2 p3); [repeat split|exact P3|exact R2]).
  destruct (htmlEnd _ _).
  - assert (E3 : st_open p3) by (right; exact E2).
    destruct (EP_collectInline_free B p3 RawHTMLKind (len (bytesAfterIndent p3)) HTMLBlockKind H3 K3 ltac:(repeat split; discriminate) ltac:(discriminate) ltac:(intros X; discriminate X)) as [H4 _].
    set (p4 := collectInline p3 RawHTMLKind (len (bytesAfterIndent p3))) in *.
    assert (E4 : st_open p4) by (eapply st_open_sstep; [apply sstep_collectInline|exact E3]).
    assert (H5 : EP B (consumeLine p4)) by (apply EP_consumeLine, H4).
    assert (E5 : state (consumeLine p4) = stLineConsumed) by (apply LC_consumeLine, E4).
    assert (K3' : containerKind p3 = HTMLBlockKind) by (apply containerKind_of; [apply H3|exact K3]).
    assert (NP3 : ~ ppT (root p3)) by (apply noPara_leaf; [apply H3|rewrite K3'; discriminate|rewrite K3'; intros k; reflexivity]).
    destruct (EP_collectInline_free B p3 RawHTMLKind (len (bytesAfterIndent p3)) HTMLBlockKind H3 K3 ltac:(repeat split; discriminate) ltac:(discriminate) ltac:(intros X; discriminate X)) as [_ P4].
    fold p4 in P4.
    assert (NP5 : ~ ppT (root (consumeLine p4))).
    { rewrite (root_cstep _ _ (cstep_consumeLine p4)). intros X. apply NP3, P4, X. }
    assert (T5 : TP B (consumeLine p4)) by (apply TP_none, NP5).
    destruct (EP_endBlock B _ H5 T5 NP5 (bdy_consumeLine B p4 H4)) as [H6 _].
    assert (E6 : state (endBlock (consumeLine p4)) = stLineConsumed) by (eapply LC_sstep; [apply sstep_endBlock|exact E5]).
    assert (Hd : (1 <= cdepth (consumeLine p4))%nat).
    { assert (Ec : cdepth (consumeLine p4) = cdepth p2).
      { rewrite (proj2 (cd_of_cstep _ _ (cstep_consumeLine p4))). unfold p4. rewrite cdepth_collectInline. reflexivity. }
      rewrite Ec. unfold p2. rewrite (cdepth_openBlock p _ Hs). lia. }
    destruct (endBlock_cont B (consumeLine p4) H5 T5 NP5 (bdy_consumeLine B p4 H4) ltac:(right; right; exact E5) Hd) as [N N'].
    split; [exact H6|]. split; [left; exact E6|]. split; [exact N|split; [apply ms_LC, E6|exact N']].
  - assert (K3' : containerKind p3 = HTMLBlockKind) by (apply containerKind_of; [apply H3|exact K3]).
    split; [exact H3|]. split; [right; exact R3|]. split; [rewrite K3'; discriminate|split; [left; exact E2|]].
    apply noPara_leaf; [apply H3|rewrite K3'; discriminate|rewrite K3'; intros k; reflexivity].
Qed.
