(* EmphFlags.v -- layer (a) of C11: Inl3b.emphasisFlags on ASCII input computes the can-open / can-close flags of the spec
   (EmphSpec.canOpen / canClose, written from the flanking definitions of CommonMark 0.30). *)
From Coq Require Import List ZArith Lia Bool.
Import ListNotations.
Require Import Base Tables Utf8 Tree Inl3a Inl3b SliceBase EmphSpec.
Open Scope Z_scope.

(* ---- the two character classes on ASCII ---- *)
Lemma specPunct_ascii c : specPunct c = isASCIIPunctuation c.
Proof.
  destruct (Z.ltb_spec c 33) as [Hlo|Hlo].
  { unfold specPunct, isASCIIPunctuation. cbn [existsb].
    repeat match goal with |- context [c =? ?k] => destruct (Z.eqb_spec c k); [exfalso; lia|] end.
    repeat match goal with |- context [?a <=? c] => destruct (Z.leb_spec a c); [exfalso; lia|] end. reflexivity. }
  destruct (Z.ltb_spec 126 c) as [Hhi|Hhi].
  { unfold specPunct, isASCIIPunctuation. cbn [existsb].
    repeat match goal with |- context [c =? ?k] => destruct (Z.eqb_spec c k); [exfalso; lia|] end.
    repeat match goal with |- context [c <=? ?a] => destruct (Z.leb_spec c a); [exfalso; lia|] end.
    rewrite !andb_false_r. reflexivity. }
  assert (E : exists n, c = 33 + Z.of_nat n /\ (n < 94)%nat) by (exists (Z.to_nat (c - 33)); lia).
  destruct E as (n & -> & Hn).
  do 94 (destruct n as [|n]; [reflexivity|]). lia.
Qed.

Lemma zs_ascii c : c < 128 -> inRanges rangesZs c = (c =? 32).
Proof.
  intros Hc. unfold inRanges, rangesZs. cbn [existsb fst snd].
  repeat match goal with |- context [?k <=? c] =>
    lazymatch k with 32 => fail | _ => replace (k <=? c) with false by (symmetry; apply Z.leb_gt; lia) end end.
  cbn [andb orb]. rewrite orb_false_r.
  destruct (Z.eqb_spec c 32) as [->|N]; [reflexivity|].
  destruct (Z.leb_spec 32 c), (Z.leb_spec c 32); try reflexivity. lia.
Qed.

Lemma ws_ascii c : c < 128 -> c <> 12 -> isUnicodeWhitespace c = specWs c.
Proof.
  intros Hc H12. unfold isUnicodeWhitespace. rewrite (zs_ascii c Hc). unfold specWs, isSpaceTabOrLineEnding.
  destruct (Z.leb_spec c 127); [|lia]. cbn [andb].
  destruct (Z.eqb_spec c 32); [reflexivity|]. destruct (Z.eqb_spec c 12); [contradiction|].
  cbn [orb]. destruct (c =? 9), (c =? 10), (c =? 13); reflexivity.
Qed.
Lemma pu_ascii c : c < 128 -> isUnicodePunctuation c = specPunct c.
Proof. intros Hc. unfold isUnicodePunctuation. destruct (Z.ltb_spec c 128); [|lia]. symmetry. apply specPunct_ascii. Qed.

(* the character "32" that the model uses at the two ends of the line *)
Definition charOf (o : option Z) : Z := match o with None => 32 | Some c => c end.
Definition asciiO (o : option Z) : Prop := match o with None => True | Some c => 0 <= c < 128 /\ c <> 12 end.
Lemma wsO_charOf o : asciiO o -> isUnicodeWhitespace (charOf o) = wsO o.
Proof. destruct o as [c|]; [|reflexivity]. cbn [asciiO charOf wsO]. intros [H1 H2]. apply ws_ascii; [lia|exact H2]. Qed.
Lemma puO_charOf o : asciiO o -> isUnicodePunctuation (charOf o) = puO o.
Proof. destruct o as [c|]; [|reflexivity]. cbn [asciiO charOf puO]. intros [H1 H2]. apply pu_ascii; lia. Qed.

(* ---- the flag word ---- *)
Definition flagWord (ch : Z) (prev next : option Z) : Z :=
  (if canOpen ch prev next then fOpener else 0) + (if canClose ch prev next then fCloser else 0).

Lemma flags_bool (ch : Z) (wn pn wp pp : bool) :
  (if negb wn && (negb pn || wp || pp) && ((ch =? 42) || negb (negb wp && (negb pp || wn || pn)) || pp) then fOpener else 0) +
  (if negb wp && (negb pp || wn || pn) && ((ch =? 42) || negb (negb wn && (negb pn || wp || pp)) || pn) then fCloser else 0) =
  (if (if ch =? 42 then negb wn && (negb pn || pn && (wp || pp))
       else negb wn && (negb pn || pn && (wp || pp)) && (negb (negb wp && (negb pp || pp && (wn || pn))) || pp)) then fOpener else 0) +
  (if (if ch =? 42 then negb wp && (negb pp || pp && (wn || pn))
       else negb wp && (negb pp || pp && (wn || pn)) && (negb (negb wn && (negb pn || pn && (wp || pp))) || pn)) then fCloser else 0).
Proof. destruct (ch =? 42), wn, pn, wp, pp; reflexivity. Qed.

Definition lastO (l : bytes) : option Z := match l with [] => None | _ => Some (last l 0) end.
Definition headO (l : bytes) : option Z := match l with [] => None | c :: _ => Some c end.

Lemma decodeLastRune_ascii p c : 0 <= c < 128 -> fst (decodeLastRune (p ++ [c])) = c.
Proof.
  intros Hc. unfold decodeLastRune. rewrite sl_len_app. change (len [c]) with 1.
  pose proof (sl_len_nonneg p). destruct (Z.eqb_spec (len p + 1) 0); [lia|].
  replace (len p + 1 - 1) with (len p) by lia. rewrite sl_at_app_len.
  destruct (Z.ltb_spec c 128); [reflexivity|lia].
Qed.
Lemma lastO_snoc p c : lastO (p ++ [c]) = Some c.
Proof. unfold lastO. destruct (p ++ [c]) eqn:E; [destruct p; discriminate|]. rewrite <- E. rewrite last_last. reflexivity. Qed.
Lemma list_snoc_cases {A} (l : list A) : l = [] \/ exists p c, l = p ++ [c].
Proof. destruct (rev l) eqn:E.
  - left. rewrite <- (rev_involutive l), E. reflexivity.
  - right. exists (rev l0), a. rewrite <- (rev_involutive l), E. reflexivity.
Qed.

(* layer (a): on a source pre ++ run ++ post whose bytes next to the run are ASCII (not form feed),
   emphasisFlags is the flag word of the spec for the byte before and the byte after the run *)
Theorem emphasisFlags_spec (pre run post : bytes) ch r :
  run = ch :: r -> asciiO (lastO pre) -> asciiO (headO post) ->
  (* the end of the source counts as a space for the model and as the end of the line for the spec *)
  emphasisFlags (pre ++ run ++ post) (len pre) (len pre + len run) = flagWord ch (lastO pre) (headO post).
Proof.
  intros Hrun Hp Hn. unfold emphasisFlags.
  assert (Eprev : (if 0 <? len pre then fst (decodeLastRune (upto (pre ++ run ++ post) (len pre))) else 32) = charOf (lastO pre)).
  { rewrite sl_upto_app_len. destruct (list_snoc_cases pre) as [->|(p & c & ->)]; [reflexivity|].
    rewrite sl_len_app. change (len [c]) with 1. pose proof (sl_len_nonneg p). destruct (Z.ltb_spec 0 (len p + 1)); [|lia].
    rewrite lastO_snoc in *. cbn [charOf]. apply decodeLastRune_ascii. cbn in Hp. lia. }
  assert (Enext : (if len pre + len run <? len (pre ++ run ++ post) then fst (decodeRune (from_ (pre ++ run ++ post) (len pre + len run))) else 32)
                  = charOf (headO post)).
  { rewrite app_assoc. rewrite <- sl_len_app. rewrite sl_from_app_len. rewrite (sl_len_app (pre ++ run) post).
    destruct post as [|c post'].
    - rewrite sl_len_nil. destruct (Z.ltb_spec (len (pre ++ run)) (len (pre ++ run) + 0)); [lia|reflexivity].
    - rewrite sl_len_cons. pose proof (sl_len_nonneg post').
      destruct (Z.ltb_spec (len (pre ++ run)) (len (pre ++ run) + (len post' + 1))); [|lia].
      cbn [headO charOf decodeRune]. cbn in Hn. destruct (Z.ltb_spec c 128); [reflexivity|lia]. }
  cbv zeta. rewrite Eprev, Enext.
  rewrite (wsO_charOf _ Hp), (wsO_charOf _ Hn), (puO_charOf _ Hp), (puO_charOf _ Hn).
  assert (Eat : at_ (pre ++ run ++ post) (len pre) = ch).
  { rewrite Hrun. cbn [app]. apply sl_at_app_len. }
  rewrite Eat. unfold flagWord, canOpen, canClose, leftFlanking, rightFlanking.
  apply flags_bool.
Qed.
Print Assumptions emphasisFlags_spec.
