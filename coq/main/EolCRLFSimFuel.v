From Coq Require Import List ZArith Lia Bool.
Import ListNotations.
Require Import Base Tree Rdr Link Collect Html Recog LP Rules Starts Driver Rec16 Rec17 Cursor CursorX RecBounds L2Kind L2CC NoPanic12 EolCRLFSimFuelWf.
Open Scope Z_scope.

(* Fuel irrelevance of Starts.opening_loop (the loop of openNewBlocks), a single-run property.
   INV = NoPanic12.G (cursor in range, tab remainder consistent, no panic at sites 1,2)
         + L2CC.wf (the container exists on the right spine of the root).  Nothing about the shape of the tree. *)
Definition guard (p : lp) : bool := (containerKind p =? ParagraphKind) || negb (acceptsLines (containerKind p)).
Definition INV (p : lp) : Prop := G p /\ wf p.
(* progress of one continuing iteration *)
Definition prog (p p1 : lp) : Prop := line p1 = line p /\ (li p < li p1 \/ (guard p1 = false /\ li p < len (line p))).
Definition startProg (f : lp -> lp) : Prop :=
  forall p, INV p -> state p = stOpening -> f p = p \/ sC (f p) \/ (sM (f p) /\ prog p (f p)).
Definition startOKwf (f : lp -> lp) : Prop := forall p, wf p -> wf (f p).

Lemma prog_li p q : line q = line p -> li p < li q -> prog p q.
Proof. intros A B. split; [exact A|left; exact B]. Qed.

(* ---- wf through the starts ---- *)
Ltac chainwf H :=
  repeat match goal with
  | |- wf (consumeLine _) => apply wf_consumeLine
  | |- wf (endBlock _) => apply wf_endBlock
  | |- wf (advance _ _) => apply wf_advance
  | |- wf (consumeIndent _ _) => apply wf_consumeIndent
  | |- wf (openBlock _ _) => apply wf_openBlock
  | |- wf (collectInline _ _ _) => apply wf_collectInline
  | |- wf (updCont _ _) => apply wf_updCont
  | |- wf (match (if ?c then _ else _) with _ => _ end) => destruct c
  | |- wf (match ?t with _ => _ end) => destruct t
  end;
  try exact H.

Lemma blockStarts_okwf : Forall startOKwf blockStarts.
Proof.
  unfold blockStarts.
  apply Forall_cons. { intros p H. unfold startBlockQuote. cbv zeta. chainwf H. }
  apply Forall_cons. { intros p H. unfold startATX. cbv zeta. chainwf H. }
  apply Forall_cons. { intros p H. unfold startFenced. cbv zeta. chainwf H. }
  apply Forall_cons. { intros p H. unfold startHTML. cbv zeta. chainwf H. }
  apply Forall_cons. { intros p H. unfold startSetext. cbv zeta. chainwf H. }
  apply Forall_cons. { intros p H. unfold startThematic. cbv zeta. chainwf H. }
  apply Forall_cons. { intros p H. unfold startListItem. cbv zeta. chainwf H. }
  apply Forall_cons. { intros p H. unfold startIndented. chainwf H. }
  apply Forall_nil.
Qed.

(* ---- small facts ---- *)
Lemma prefix_lt p c : hasBytePrefix (bytesAfterIndent p) [c] = true -> li p < len (line p).
Proof.
  intros H. destruct (Z.lt_ge_cases (li p) (len (line p))) as [L|L]; [exact L|]. exfalso.
  unfold bytesAfterIndent in H. rewrite (rest_nil p ltac:(lia)) in H. cbn in H. discriminate.
Qed.
Lemma list_marker_pos l d n e : parseListMarker l = (d, n, e) -> 0 <= e -> 1 <= e.
Proof.
  intros H L. destruct (parseListMarker_sound l d n e H L) as [c rest Hc Hs|ds d rest Hl Hd Hdl Hs]; [lia|].
  pose proof (len_nonneg ds). lia.
Qed.
Lemma guard_kind p K : containerKind p = K -> acceptsLines K = true -> K <> ParagraphKind -> guard p = false.
Proof. intros E A N. unfold guard. rewrite E, A. replace (K =? ParagraphKind) with false by (symmetry; apply Z.eqb_neq; exact N). reflexivity. Qed.

(* ---- progress, one lemma per start ---- *)
Lemma prog_startBlockQuote : startProg startBlockQuote.
Proof.
  intros p [HG Hw] Hs. unfold startBlockQuote. cbv zeta.
  destruct (codeBlockIndentLimit <=? indent p); [left; reflexivity|].
  destruct (hasBytePrefix (bytesAfterIndent p) [62]) eqn:Eq; cbn [negb]; [|left; reflexivity].
  right; right.
  pose proof HG as (A & B & C). destruct (consume_all p A B) as (R1 & L1 & L2 & (EL & _)).
  destruct (start_prelude p BlockQuoteKind HG) as (H2 & R2 & Ln2).
  set (p1 := consumeIndent p (indent p)) in *.
  destruct (G_openBlock p1 BlockQuoteKind (G_consumeIndent p _ HG)) as [_ (C1 & C2 & _)].
  set (p2 := openBlock p1 BlockQuoteKind) in *.
  assert (Hne : 1 <= len (rest p2)).
  { rewrite R2. destruct (bytesAfterIndent p) as [|c0 t0]; [discriminate|rewrite len_cons; pose proof (len_nonneg t0); lia]. }
  destruct (G_advance p2 1 H2 ltac:(lia) ltac:(lia)) as (H3 & La & Lna).
  assert (S2 : sM p2) by (apply sM_openBlock, st_open_consumeIndent; left; exact Hs).
  set (p3 := advance p2 1) in *.
  assert (S3 : sM p3) by (apply sM_advance, S2).
  assert (Hl : li p < li p3 /\ line p3 = line p).
  { rewrite La, Lna, C1, C2, L1, EL. pose proof (indentLength_nonneg (rest p)). split; [lia|reflexivity]. }
  destruct (0 <? indent p3).
  - split; [apply sM_consumeIndent, S3|]. destruct (consumeIndent_mono p3 1) as [M1 M2]. apply prog_li; [congruence|lia].
  - split; [exact S3|]. apply prog_li; [apply Hl|apply Hl].
Qed.

Lemma prog_startATX : startProg startATX.
Proof.
  intros p _ Hs. unfold startATX. cbv zeta. destruct (codeBlockIndentLimit <=? indent p); [left; reflexivity|].
  destruct (parseATXHeading _) as [[level cs] ce]. destruct (level <? 1); [left; reflexivity|].
  right; left. apply sC_endBlock, sC_consumeLine, sM_open, sM_collectInline, sM_advance, sM_updCont, sM_openBlock, st_open_consumeIndent.
  left; exact Hs.
Qed.
Lemma prog_startFenced : startProg startFenced.
Proof.
  intros p _ Hs. unfold startFenced. cbv zeta. destruct (codeBlockIndentLimit <=? indent p); [left; reflexivity|].
  destruct (parseCodeFence _) as [[[fc fnn] is_] ie]. destruct (fnn =? 0); [left; reflexivity|].
  right; left. apply sC_consumeLine, sM_open.
  destruct (spanValid _); [apply sM_collectInline, sM_advance|]; apply sM_updCont, sM_updCont, sM_openBlock, st_open_consumeIndent; left; exact Hs.
Qed.
Lemma prog_startSetext : startProg startSetext.
Proof.
  intros p _ Hs. unfold startSetext. cbv zeta.
  do 4 (match goal with |- (if ?c then _ else _) = _ \/ _ => destruct c end; [left; reflexivity|]).
  right; left. apply sC_endBlock, sC_consumeLine. left; exact Hs.
Qed.
Lemma prog_startThematic : startProg startThematic.
Proof.
  intros p _ Hs. unfold startThematic. cbv zeta. destruct (codeBlockIndentLimit <=? indent p); [left; reflexivity|].
  destruct (_ <? 0); [left; reflexivity|].
  right; left. apply sC_endBlock, sC_consumeLine, sM_open, sM_advance, sM_openBlock, st_open_consumeIndent. left; exact Hs.
Qed.

Lemma prog_startHTML : startProg startHTML.
Proof.
  intros p [HG Hw] Hs. unfold startHTML. cbv zeta.
  destruct (codeBlockIndentLimit <=? indent p); [left; reflexivity|].
  destruct (hasBytePrefix (bytesAfterIndent p) [60]) eqn:Eq; cbn [negb]; [|left; reflexivity].
  destruct (_ <? 0); [left; reflexivity|].
  match goal with |- (if ?c then _ else _) = _ \/ _ => destruct c end; [left; reflexivity|].
  right.
  assert (S2 : sM (openBlock p HTMLBlockKind)) by (apply sM_openBlock; left; exact Hs).
  match goal with |- sC (if ?c then _ else _) \/ _ => destruct c end.
  - left. apply sC_endBlock, sC_consumeLine, sM_open, sM_collectInline, sM_updCont, S2.
  - right. split; [exact S2|].
    destruct (G_openBlock p HTMLBlockKind HG) as [_ (C1 & C2 & _)].
    split; [exact C2|]. right. split; [|eapply prefix_lt; exact Eq].
    apply (guard_kind _ HTMLBlockKind); [|reflexivity|discriminate].
    apply containerKind_of_wf; [apply wf_updCont, wf_openBlock, Hw|].
    apply ckind_updCont; [intros b; destruct b; reflexivity|]. apply ckind_openBlock. left; exact Hs.
Qed.

Lemma prog_startIndented : startProg startIndented.
Proof.
  intros p [HG Hw] Hs. unfold startIndented.
  destruct (Z.ltb_spec (indent p) codeBlockIndentLimit) as [L|L]; cbn [orb]; [left; reflexivity|].
  match goal with |- (if ?c then _ else _) = _ \/ _ => destruct c end; [left; reflexivity|].
  right; right.
  assert (O1 : st_open (consumeIndent p codeBlockIndentLimit)) by (apply st_open_consumeIndent; left; exact Hs).
  split; [apply sM_openBlock, O1|]. split.
  - destruct (G_openBlock (consumeIndent p codeBlockIndentLimit) IndentedCodeBlockKind (G_consumeIndent p _ HG)) as [_ (C1 & C2 & _)].
    rewrite C2. apply consumeIndent_mono.
  - right. split.
    + apply (guard_kind _ IndentedCodeBlockKind); [|reflexivity|discriminate].
      apply containerKind_openBlock; [apply wf_consumeIndent, Hw|exact O1].
    + unfold indent in L. unfold codeBlockIndentLimit in L. destruct (Z.leb_spec (len (line p)) (li p)); lia.
Qed.

Lemma prog_startListItem : startProg startListItem.
Proof.
  intros p [HG Hw] Hs. unfold startListItem. cbv zeta. destruct (codeBlockIndentLimit <=? indent p); [left; reflexivity|].
  destruct (parseListMarker (bytesAfterIndent p)) as [[delim n] mend] eqn:Em.
  destruct (Z.ltb_spec mend 0) as [|Lm]; cbn [orb]; [left; reflexivity|].
  do 2 (match goal with |- (if ?c then _ else _) = _ \/ _ => destruct c end; [left; reflexivity|]).
  right.
  pose proof (parseListMarker_le _ _ _ _ Em) as Hb. pose proof (list_marker_pos _ _ _ _ Em Lm) as Hpos.
  pose proof HG as (A & B & C). destruct (consume_all p A B) as (R1 & L1 & L2 & (EL & _)).
  set (p1 := consumeIndent p (indent p)) in *. assert (H1 : G p1) by (apply G_consumeIndent, HG).
  assert (O1 : st_open p1) by (apply st_open_consumeIndent; left; exact Hs).
  set (cdelim := if (containerKind p1 =? ListKind) || (containerKind p1 =? ListItemKind) then bchar (contBlock p1) else 0).
  set (p2 := if negb (containerKind p1 =? ListKind) || negb (cdelim =? delim) then _ else p1).
  assert (H2 : G p2 /\ curS p1 p2 /\ st_open p2).
  { unfold p2. match goal with |- G (if ?c then _ else _) /\ _ => destruct c end; [|split; [exact H1|split; [apply curS_refl|exact O1]]].
    destruct (G_openBlock p1 ListKind H1) as [Ho Hc]. split; [exact Ho|split; [exact Hc|]].
    apply sM_open, sM_updCont, sM_openBlock, O1. }
  destruct H2 as (H2 & C2 & O2).
  destruct (G_openBlock p2 ListItemKind H2) as [H3 C3].
  set (p3 := updCont (openBlock p2 ListItemKind) _). assert (H3' : G p3) by exact H3.
  assert (C3' : curS p1 p3) by (eapply curS_trans; [exact C2|exact C3]).
  assert (S3 : sM p3) by (apply sM_updCont, sM_openBlock, O2).
  destruct (G_openBlock p3 ListMarkerKind H3') as [H4 C4].
  set (p4 := openBlock p3 ListMarkerKind) in *.
  assert (C4' : curS p1 p4) by (eapply curS_trans; [exact C3'|exact C4]).
  assert (S4 : sM p4) by (apply sM_openBlock, sM_open, S3).
  assert (R4 : rest p4 = bytesAfterIndent p) by (rewrite (rest_curS p1 _ C4'); exact R1).
  assert (L4 : len (rest p4) = len (line p4) - li p4).
  { apply len_rest. destruct H4 as ((? & _) & ? & _). lia. }
  destruct (G_advance p4 mend H4 Lm ltac:(rewrite R4 in L4; lia)) as (H5 & La5 & Ln5).
  destruct (G_endBlock _ H5) as [Hq Cq].
  set (q := endBlock (advance p4 mend)) in *.
  assert (Sq : sM q) by (apply sM_endBlock, sM_advance, S4).
  assert (Lq : li p < li q /\ line q = line p).
  { destruct Cq as (Q1 & Q2 & _). destruct C4' as (D1 & D2 & _). rewrite Q1, Q2, La5, Ln5, D1, D2, L1, EL.
    pose proof (indentLength_nonneg (rest p)). split; [lia|reflexivity]. }
  destruct (isRestBlank q).
  - left. apply sC_consumeLine, sM_open, sM_updCont, Sq.
  - right. destruct (indent q <? 1); [split; [apply sM_updCont, Sq|apply prog_li; apply Lq]|].
    destruct (4 <? indent q).
    + destruct (consumeIndent_mono q 1) as [M1 M2]. split; [apply sM_updCont, sM_consumeIndent, Sq|].
      apply prog_li; [change (line (consumeIndent q 1) = line p); destruct Lq; congruence|change (li p < li (consumeIndent q 1)); lia].
    + destruct (consumeIndent_mono q (indent q)) as [M1 M2]. split; [apply sM_updCont, sM_consumeIndent, Sq|].
      apply prog_li; [change (line (consumeIndent q (indent q)) = line p); destruct Lq; congruence|change (li p < li (consumeIndent q (indent q))); lia].
Qed.

Lemma blockStarts_prog : Forall startProg blockStarts.
Proof.
  unfold blockStarts.
  apply Forall_cons; [exact prog_startBlockQuote|]. apply Forall_cons; [exact prog_startATX|].
  apply Forall_cons; [exact prog_startFenced|]. apply Forall_cons; [exact prog_startHTML|].
  apply Forall_cons; [exact prog_startSetext|]. apply Forall_cons; [exact prog_startThematic|].
  apply Forall_cons; [exact prog_startListItem|]. apply Forall_cons; [exact prog_startIndented|]. apply Forall_nil.
Qed.

(* ---- one pass over the starts ---- *)
Lemma tryStarts_prog : forall fs p p1, Forall startProg fs -> Forall startOKG fs -> Forall startOKwf fs -> INV p ->
  tryStarts fs p = (true, p1) -> sC p1 \/ (sM p1 /\ INV p1 /\ prog p p1).
Proof.
  induction fs as [|f r IH]; intros p p1 Hp Hg Hw HI E; [cbn in E; discriminate|].
  inversion Hp as [|? ? Hpf Hpr]; subst. inversion Hg as [|? ? Hgf Hgr]; subst. inversion Hw as [|? ? Hwf Hwr]; subst.
  cbn [tryStarts] in E. cbv zeta in E.
  set (q := withState p stOpening) in *.
  assert (HIq : INV q) by exact HI.
  assert (HI1 : INV (f q)) by (split; [apply Hgf, HIq|apply Hwf, HIq]).
  destruct (Hpf q HIq eq_refl) as [Eq|[Hc|[Hm Hpr1]]].
  - rewrite Eq in E. change (state q) with stOpening in E. cbn [Z.eqb orb] in E.
    change (((stOpening =? stOpenMatched) || (stOpening =? stLineConsumed))) with false in E. cbv iota in E.
    exact (IH q p1 Hpr Hgr Hwr HIq E).
  - unfold sC in Hc. rewrite Hc in E. change ((stLineConsumed =? stOpenMatched) || (stLineConsumed =? stLineConsumed)) with true in E. cbv iota in E.
    inversion E; subst. left. exact Hc.
  - unfold sM in Hm. rewrite Hm in E. change ((stOpenMatched =? stOpenMatched) || (stOpenMatched =? stLineConsumed)) with true in E. cbv iota in E.
    inversion E; subst. right. split; [exact Hm|split; [exact HI1|exact Hpr1]].
Qed.

(* ---- the loop ---- *)
Theorem opening_loop_fuel : forall f f' p, INV p ->
  (Z.to_nat (len (line p) - li p) + 1 <= f)%nat -> (Z.to_nat (len (line p) - li p) + 1 <= f')%nat ->
  opening_loop f p = opening_loop f' p.
Proof.
  induction f as [|f IH]; intros f' p HI Hf Hf'; [lia|]. destruct f' as [|f']; [lia|].
  cbn [opening_loop]. fold (guard p). destruct (guard p); [|reflexivity].
  destruct (tryStarts blockStarts p) as [[|] p1] eqn:Et; [|reflexivity].
  destruct (tryStarts_prog blockStarts p p1 blockStarts_prog blockStarts_okG blockStarts_okwf HI Et) as [Hc|(Hm & HI1 & El & Hpr)].
  - unfold sC in Hc. rewrite Hc. reflexivity.
  - unfold sM in Hm. rewrite Hm. change (stOpenMatched =? stLineConsumed) with false. cbv iota.
    pose proof HI1 as ((_ & B1 & _) & _). pose proof HI as (((A0 & _) & B0 & _) & _).
    rewrite El in B1. destruct Hpr as [Hlt|[Hg Hlt]].
    + apply IH; [exact HI1|rewrite El; lia|rewrite El; lia].
    + destruct f as [|f]; [lia|]. destruct f' as [|f']; [lia|]. cbn [opening_loop]. fold (guard p1). rewrite Hg. reflexivity.
Qed.
Print Assumptions opening_loop_fuel.

(* ---- INV holds where Driver.processLine calls openNewBlocks ---- *)
Lemma INV_at_open st children ls src : 0 <= ls -> INV (snd (descendOpenBlocks (resetLP st children ls src))).
Proof.
  intros Hls.
  assert (H0 : G (resetLP st children ls src)).
  { unfold resetLP. split; [split; [cbn; lia|]|split; [cbn; apply len_nonneg|split; cbn; discriminate]].
    cbn [li line col tabRem]. intros Hl Ha. apply computeTabRem_spec; [lia|exact Hl|exact Ha]. }
  split.
  - exact (G_descend_loop (bheight (root (resetLP st children ls src))) _ O H0).
  - unfold descendOpenBlocks. apply wf_descend_loop. eexists. reflexivity.
Qed.
Print Assumptions INV_at_open.

Corollary openNewBlocks_fuel p : INV p -> forall f, (S (length (line p)) <= f)%nat ->
  opening_loop f p = opening_loop (S (length (line p))) p.
Proof.
  intros HI f Hf. pose proof HI as (((A0 & _) & B0 & _) & _).
  assert (Hr : (Z.to_nat (len (line p) - li p) + 1 <= S (length (line p)))%nat) by (unfold len in *; lia).
  apply opening_loop_fuel; [exact HI|lia|exact Hr].
Qed.
Print Assumptions openNewBlocks_fuel.

(* the call inside processLine: any surplus fuel gives the same result *)
Corollary processLine_open_fuel st children ls src : 0 <= ls ->
  let p := snd (descendOpenBlocks (resetLP st children ls src)) in
  forall f, (S (length (line p)) <= f)%nat -> opening_loop f p = opening_loop (S (length (line p))) p.
Proof. intros Hls p f Hf. apply openNewBlocks_fuel; [apply INV_at_open, Hls|exact Hf]. Qed.
Print Assumptions processLine_open_fuel.

(* the bound is tight: on the line ">>>>" one unit of fuel less gives a different result (the parser state of the returned lp) *)
Example fuel_bound_tight :
  let p := snd (descendOpenBlocks (resetLP 0 [] 0 [62; 62; 62; 62])) in
  Z.to_nat (len (line p) - li p) = 4%nat /\ opening_loop 4 p <> opening_loop 5 p.
Proof.
  cbv zeta. split; [vm_compute; reflexivity|]. intros E.
  assert (E2 : state (snd (opening_loop 4 (snd (descendOpenBlocks (resetLP 0 [] 0 [62; 62; 62; 62]))))) =
               state (snd (opening_loop 5 (snd (descendOpenBlocks (resetLP 0 [] 0 [62; 62; 62; 62])))))) by (rewrite E; reflexivity).
  vm_compute in E2. discriminate.
Qed.
