From Coq Require Import List ZArith Lia Bool.
Import ListNotations.
Require Import Base Tables Utf8 Tree Rdr Link Collect Html Recog Inl3a Inl3b Inl3c Inl3d Inl3e Driver Render Props PEProof L2Kind2.
Require Import GI0 GI1 GI2 GI3 GI4 GI5 GI6 GI7.
Open Scope Z_scope.

(* ================================================================== *)
(* GramInline: the inline-level clauses of the node grammar            *)
(* (Props.gramI / Props.phrasing) hold for what parseInlines returns.  *)
(* ================================================================== *)

(* gramI with the link-tail function abstracted *)
Fixpoint gramIg (lt : list inline -> Z) (inLink : bool) (i : inline) : bool :=
  match i with Inl k s e _ rf ks =>
    negb (k =? UnparsedKind) &&
    if (k =? LinkKind) || (k =? ImageKind) then
      negb ((k =? LinkKind) && inLink) &&
      (let t := lt ks in
       (0 <=? t) &&
       forallb (fun c => negb (isLinkPart (ikind c)) && phrasing (ikind c)) (upto ks (len ks - t)) &&
       (if 0 <? len (linkReference i) then forallb (fun c => negb ((ikind c =? LinkDestinationKind) || (ikind c =? LinkTitleKind))) (lastTwo ks) else true)) &&
      forallb (gramIg lt (inLink || (k =? LinkKind))) ks
    else if (k =? EmphasisKind) || (k =? StrongKind) then
      forallb (fun c => phrasing (ikind c)) ks && forallb (gramIg lt inLink) ks
    else if k =? CodeSpanKind then
      forallb (fun c => (ikind c =? TextKind) || (ikind c =? SoftLineBreakKind) || (ikind c =? IndentKind)) ks
    else if isLinkPart k || (k =? InfoStringKind) || (k =? AutolinkKind) || (k =? HTMLTagKind) then
      forallb (fun c => ((ikind c =? TextKind) || (ikind c =? CharacterReferenceKind) || (ikind c =? SoftLineBreakKind) || (ikind c =? IndentKind) ||
                         (ikind c =? RawHTMLKind)) && (len (ikids c) =? 0)) ks
    else len ks =? 0
  end.

Lemma gramIg_linkTail : forall b i, gramIg linkTail b i = gramI b i.
Proof.
  fix IH 2. intros b [k s e ind rf ks]. cbn [gramIg gramI]. f_equal.
  destruct ((k =? LinkKind) || (k =? ImageKind)).
  - f_equal. generalize (b || (k =? LinkKind)). intros b'.
    induction ks as [|x l IHl]; [reflexivity|]. cbn [forallb]. rewrite (IH b' x), IHl. reflexivity.
  - destruct ((k =? EmphasisKind) || (k =? StrongKind)); [|reflexivity]. f_equal.
    induction ks as [|x l IHl]; [reflexivity|]. cbn [forallb]. rewrite (IH b x), IHl. reflexivity.
Qed.

(* the weaker tail grammar: a lone title is also accepted as a one-node tail *)
Definition linkTailW (ks : list inline) : Z :=
  match rev ks with
  | l :: rest =>
    if ikind l =? LinkLabelKind then 1
    else if ikind l =? LinkTitleKind then
      match rest with d :: _ => if ikind d =? LinkDestinationKind then 2 else 1 | [] => 1 end
    else if ikind l =? LinkDestinationKind then 1
    else 0
  | [] => 0
  end.
Definition gramIw : bool -> inline -> bool := gramIg linkTailW.

(* ---------------------------------------------------------------- body / tail decomposition *)
Lemma bodyTail_split tw : forall l, bodyTail tw l = true ->
  exists body tail, l = body ++ tail /\ forallb phr body = true /\ (tail = [] \/ tailShape tw tail = true).
Proof.
  induction l as [|x l IH]; intros H; [exists [], []; repeat split; left; reflexivity|].
  cbn [bodyTail] in H. destruct (phr x) eqn:Ex.
  - destruct (IH H) as (body & tail & E & Hb & Ht). exists (x :: body), tail. split; [cbn; f_equal; exact E|].
    split; [cbn [forallb]; rewrite Ex, Hb; reflexivity|exact Ht].
  - exists [], (x :: l). split; [reflexivity|]. split; [reflexivity|right; exact H].
Qed.

Definition ltSpec (tw : bool) (lt : list inline -> Z) : Prop :=
  forall body tail, forallb phr body = true -> (tail = [] \/ tailShape tw tail = true) ->
    lt (map toInline (body ++ tail)) = len tail.

Lemma ikind_toInline n : ikind (toInline n) = pkind n. Proof. destruct n; reflexivity. Qed.
Lemma ikids_toInline n : ikids (toInline n) = map toInline (pkids n). Proof. destruct n; reflexivity. Qed.
Lemma iref_toInline n : iref (toInline n) = pref n. Proof. destruct n; reflexivity. Qed.

Lemma rev_head_in {A} (l : list A) d r : rev l = d :: r -> In d l.
Proof. intros H. apply in_rev. rewrite H. left. reflexivity. Qed.

Lemma phr_kinds n : phr n = true ->
  (pkind n =? LinkLabelKind) = false /\ (pkind n =? LinkTitleKind) = false /\ (pkind n =? LinkDestinationKind) = false.
Proof.
  unfold phr. intros H. pose proof (phrasing_notLinkPart _ H) as Hn. unfold isLinkPart in Hn.
  apply orb_false_iff in Hn. destruct Hn as [Hn H3]. apply orb_false_iff in Hn. tauto.
Qed.

Lemma linkTail_spec : ltSpec false linkTail.
Proof.
  intros body tail Hb Ht. unfold linkTail. rewrite map_app, rev_app_distr.
  destruct Ht as [->|Ht].
  - cbn [map rev app]. destruct (rev (map toInline body)) as [|d r] eqn:Er; [reflexivity|].
    apply rev_head_in in Er. apply in_map_iff in Er. destruct Er as (n & <- & Hn).
    rewrite forallb_forall in Hb. destruct (phr_kinds n (Hb n Hn)) as (K1 & K2 & K3).
    rewrite ikind_toInline, K1, K2, K3. reflexivity.
  - destruct tail as [|x [|y [|z t]]]; cbn [tailShape] in Ht; try discriminate.
    + cbn [map rev app]. rewrite ikind_toInline. cbn [andb] in Ht. apply andb_true_iff in Ht. destruct Ht as [Ht _]. rewrite orb_false_r in Ht.
      apply orb_true_iff in Ht. destruct Ht as [Ht|Ht]; apply Z.eqb_eq in Ht; rewrite Ht; reflexivity.
    + cbn [map rev app]. rewrite !ikind_toInline.
      apply andb_true_iff in Ht. destruct Ht as [Ht _]. apply andb_true_iff in Ht. destruct Ht as [Ht _]. apply andb_true_iff in Ht. destruct Ht as [H1 H2].
      apply Z.eqb_eq in H1, H2. rewrite H1, H2. reflexivity.
Qed.
Lemma linkTailW_spec : ltSpec true linkTailW.
Proof.
  intros body tail Hb Ht. unfold linkTailW. rewrite map_app, rev_app_distr.
  destruct Ht as [->|Ht].
  - cbn [map rev app]. destruct (rev (map toInline body)) as [|d r] eqn:Er; [reflexivity|].
    apply rev_head_in in Er. apply in_map_iff in Er. destruct Er as (n & <- & Hn).
    rewrite forallb_forall in Hb. destruct (phr_kinds n (Hb n Hn)) as (K1 & K2 & K3).
    rewrite ikind_toInline, K1, K2, K3. reflexivity.
  - destruct tail as [|x [|y [|z t]]]; cbn [tailShape] in Ht; try discriminate.
    + cbn [map rev app]. rewrite ikind_toInline. apply andb_true_iff in Ht. destruct Ht as [Ht _]. cbn [andb] in Ht.
      apply orb_true_iff in Ht. destruct Ht as [Ht|Ht]; [apply orb_true_iff in Ht; destruct Ht as [Ht|Ht]|]; apply Z.eqb_eq in Ht; rewrite Ht; try reflexivity.
      cbn [Z.eqb]. destruct (rev (map toInline body)) as [|d r] eqn:Er; [reflexivity|].
      apply rev_head_in in Er. apply in_map_iff in Er. destruct Er as (n & <- & Hn).
      rewrite forallb_forall in Hb. destruct (phr_kinds n (Hb n Hn)) as (K1 & K2 & K3). rewrite ikind_toInline, K3. reflexivity.
    + cbn [map rev app]. rewrite !ikind_toInline.
      apply andb_true_iff in Ht. destruct Ht as [Ht _]. apply andb_true_iff in Ht. destruct Ht as [Ht _]. apply andb_true_iff in Ht. destruct Ht as [H1 H2].
      apply Z.eqb_eq in H1, H2. rewrite H1, H2. reflexivity.
Qed.

Section Conv.
  Variable tw : bool.
  Variable lt : list inline -> Z.
  Hypothesis Hlt : ltSpec tw lt.

  Lemma leafKids_toInline k ks : leafKids k ks = true ->
    (if k =? CodeSpanKind then
       forallb (fun c => (ikind c =? TextKind) || (ikind c =? SoftLineBreakKind) || (ikind c =? IndentKind)) (map toInline ks)
     else if isLinkPart k || (k =? InfoStringKind) || (k =? AutolinkKind) || (k =? HTMLTagKind) then
       forallb (fun c => ((ikind c =? TextKind) || (ikind c =? CharacterReferenceKind) || (ikind c =? SoftLineBreakKind) || (ikind c =? IndentKind) ||
                          (ikind c =? RawHTMLKind)) && (len (ikids c) =? 0)) (map toInline ks)
     else len (map toInline ks) =? 0) = true.
  Proof.
    unfold leafKids. destruct (k =? CodeSpanKind).
    - intros H. rewrite forallb_forall in *. intros x Hx. apply in_map_iff in Hx. destruct Hx as (n & <- & Hn).
      rewrite ikind_toInline. apply (H n Hn).
    - destruct (_ || _ || _ || _).
      + intros H. rewrite forallb_forall in *. intros x Hx. apply in_map_iff in Hx. destruct Hx as (n & <- & Hn).
        rewrite ikind_toInline, ikids_toInline. specialize (H n Hn). unfold lpk in H. unfold len in *. rewrite map_length. exact H.
      + unfold len. rewrite map_length. tauto.
  Qed.

  Lemma upto_body {A} (a b : list A) : upto (a ++ b) (len (a ++ b) - len b) = a.
  Proof. rewrite len_app. replace (len a + len b - len b) with (len a) by lia. apply upto_app_len. Qed.

  Lemma lastTwo_in {A} (l : list A) x : In x (lastTwo l) -> In x l.
  Proof.
    unfold lastTwo. intros H. apply in_rev. destruct (rev l) as [|a [|b r]]; [contradiction| |].
    - destruct H as [<-|[]]. left. reflexivity.
    - destruct H as [<-|[<-|[]]]; [left; reflexivity|right; left; reflexivity].
  Qed.

  Lemma linkClause k s e ind rf ks : isLI k = true -> lvlG tw k rf ks = true ->
    (let i := Inl k s e ind rf (map toInline ks) in
     let t := lt (map toInline ks) in
     (0 <=? t) &&
     forallb (fun c => negb (isLinkPart (ikind c)) && phrasing (ikind c)) (upto (map toInline ks) (len (map toInline ks) - t)) &&
     (if 0 <? len (linkReference i) then forallb (fun c => negb ((ikind c =? LinkDestinationKind) || (ikind c =? LinkTitleKind))) (lastTwo (map toInline ks)) else true)) = true.
  Proof.
    intros Hk HG. unfold lvlG in HG. rewrite Hk in HG.
    apply andb_true_iff in HG. destruct HG as [HG _]. apply andb_true_iff in HG. destruct HG as [HB HR].
    destruct (bodyTail_split tw ks HB) as (body & tail & E & Hb & Ht). subst ks.
    cbv zeta. rewrite (Hlt body tail Hb Ht).
    replace (0 <=? len tail) with true by (symmetry; apply Z.leb_le; apply len_nonneg). cbn [andb].
    assert (Elen : len tail = len (map toInline tail)) by (unfold len; rewrite map_length; reflexivity).
    rewrite Elen. rewrite map_app, upto_body.
    assert (Hbody : forallb (fun c => negb (isLinkPart (ikind c)) && phrasing (ikind c)) (map toInline body) = true).
    { rewrite forallb_forall in *. intros x Hx. apply in_map_iff in Hx. destruct Hx as (n & <- & Hn). rewrite ikind_toInline.
      specialize (Hb n Hn). unfold phr in Hb. rewrite Hb, (phrasing_notLinkPart _ Hb). reflexivity. }
    rewrite Hbody. cbn [andb].
    destruct (0 <? len (linkReference (Inl k s e ind rf (map toInline body ++ map toInline tail)))) eqn:Eref; [|reflexivity].
    (* a reference: no destination / title among the last two children *)
    rewrite <- map_app.
    destruct Ht as [->|Ht].
    { apply forallb_forall. intros x Hx. apply lastTwo_in in Hx.
      apply in_map_iff in Hx. destruct Hx as (n & <- & Hn). rewrite app_nil_r in Hn. rewrite ikind_toInline.
      rewrite forallb_forall in Hb. destruct (phr_kinds n (Hb n Hn)) as (K1 & K2 & K3). rewrite K2, K3. reflexivity. }
    (* a tail *)
    assert (Hnotphr : forallb phr (body ++ tail) = false).
    { rewrite forallb_app, Hb. cbn [andb]. destruct tail as [|x r]; [discriminate|]. cbn [forallb].
      pose proof (tailShape_bodyTail tw _ Ht) as Hbt. cbn [bodyTail] in Hbt. destruct (phr x) eqn:Ex; [|reflexivity].
      exfalso. unfold phr in Ex. destruct r as [|y [|z r]]; cbn [tailShape] in Ht; try discriminate.
      - apply andb_true_iff in Ht. destruct Ht as [Ht _].
        repeat (apply orb_true_iff in Ht; destruct Ht as [Ht|Ht]); try (apply andb_true_iff in Ht; destruct Ht as [_ Ht]);
          apply Z.eqb_eq in Ht; rewrite Ht in Ex; discriminate.
      - apply andb_true_iff in Ht. destruct Ht as [Ht _]. apply andb_true_iff in Ht. destruct Ht as [Ht _].
        apply andb_true_iff in Ht. destruct Ht as [Ht _]. apply Z.eqb_eq in Ht. rewrite Ht in Ex. discriminate. }
    rewrite Hnotphr, orb_false_r in HR. apply Z.eqb_eq in HR.
    (* the label, when the tail is a label *)
    unfold linkReference in Eref. cbn [ikind ikids iref] in Eref. unfold isLI in Hk. rewrite Hk in Eref.
    rewrite <- map_app, map_app, rev_app_distr in Eref.
    destruct tail as [|x [|y [|z r]]]; cbn [tailShape] in Ht; try discriminate.
    - cbn [map rev app] in Eref. rewrite ikind_toInline in Eref.
      destruct (pkind x =? LinkLabelKind) eqn:El.
      + unfold lastTwo. rewrite map_app, rev_app_distr. cbn [map rev app].
        destruct (rev (map toInline body)) as [|d r] eqn:Er.
        * cbn [forallb]. rewrite ikind_toInline. apply Z.eqb_eq in El. rewrite El. reflexivity.
        * cbn [forallb]. rewrite ikind_toInline. apply Z.eqb_eq in El. rewrite El. cbn [Z.eqb orb negb andb]. rewrite andb_true_r.
          apply rev_head_in in Er. apply in_map_iff in Er. destruct Er as (n & <- & Hn). rewrite ikind_toInline.
          rewrite forallb_forall in Hb. destruct (phr_kinds n (Hb n Hn)) as (K1 & K2 & K3). rewrite K2, K3. reflexivity.
      + rewrite HR in Eref. discriminate.
    - cbn [map rev app] in Eref. rewrite ikind_toInline in Eref.
      apply andb_true_iff in Ht. destruct Ht as [Ht _]. apply andb_true_iff in Ht. destruct Ht as [Ht _]. apply andb_true_iff in Ht. destruct Ht as [_ H2].
      apply Z.eqb_eq in H2. rewrite H2 in Eref. change (LinkTitleKind =? LinkLabelKind) with false in Eref. cbv beta iota in Eref. rewrite HR in Eref. discriminate.
  Qed.

  Lemma gk_gramIg : forall n inL, gk tw n = true -> (inL = true -> nl n = true) -> gramIg lt inL (toInline n) = true.
  Proof.
    fix IH 1. intros [id k s e ind rf ks] inL.
    assert (Hrec : forall b', forallb (gk tw) ks = true -> (b' = true -> forallb nl ks = true) ->
              forallb (gramIg lt b') (map toInline ks) = true).
    { intros b'. induction ks as [|x l IHl]; intros H1 H2; [reflexivity|]. cbn [map forallb] in *.
      apply andb_true_iff in H1. destruct H1 as [Hx Hl].
      assert (Hnx : b' = true -> nl x = true) by (intros Hb; specialize (H2 Hb); apply andb_true_iff in H2; tauto).
      assert (Hnl : b' = true -> forallb nl l = true) by (intros Hb; specialize (H2 Hb); apply andb_true_iff in H2; tauto).
      rewrite (IH x b' Hx Hnx). apply IHl; assumption. }
    intros HG HN.
    cbn [gk] in HG. apply andb_true_iff in HG. destruct HG as [HU HG].
    change (toInline (PN id k s e ind rf ks)) with (Inl k s e ind rf (map toInline ks)). cbn [gramIg]. rewrite HU. cbn [andb].
    destruct (cont k) eqn:Ec.
    - apply andb_true_iff in HG. destruct HG as [HL HK].
      destruct (isLI k) eqn:Ei.
      + unfold isLI in Ei. rewrite Ei.
        pose proof (linkClause k s e ind rf ks ltac:(unfold isLI; exact Ei) HL) as HC. cbv zeta in HC. rewrite HC. cbn [andb]. rewrite andb_true_r.
        assert (Hnl : k = LinkKind -> forallb nl ks = true).
        { intros ->. unfold lvlG in HL. cbn [isLI Z.eqb orb negb] in HL. apply andb_true_iff in HL. tauto. }
        apply andb_true_iff. split.
        * destruct (Z.eqb_spec k LinkKind) as [El|El]; [|reflexivity]. cbn [andb]. destruct inL; [|reflexivity].
          specialize (HN eq_refl). subst k. cbn [nl Z.eqb] in HN. discriminate.
        * apply Hrec; [exact HK|]. intros Hb. destruct (Z.eqb_spec k LinkKind) as [El|El]; [apply Hnl, El|].
          rewrite orb_false_r in Hb. specialize (HN Hb). cbn [nl] in HN.
          replace (k =? LinkKind) with false in HN by (symmetry; apply Z.eqb_neq; exact El). rewrite Ec in HN. exact HN.
      + assert (Hes : (k =? EmphasisKind) || (k =? StrongKind) = true).
        { unfold cont, isLI in *. destruct (k =? EmphasisKind), (k =? StrongKind); try reflexivity. cbn [orb] in *. congruence. }
        unfold isLI in Ei. rewrite Ei, Hes. unfold lvlG in HL. unfold isLI in HL. rewrite Ei in HL.
        apply andb_true_iff. split.
        * rewrite forallb_forall in *. intros x Hx. apply in_map_iff in Hx. destruct Hx as (n & <- & Hn). rewrite ikind_toInline. apply (HL n Hn).
        * apply Hrec; [exact HK|]. intros Hb. specialize (HN Hb). cbn [nl] in HN. rewrite Ec in HN.
          destruct (k =? LinkKind); [discriminate|exact HN].
    - apply andb_true_iff in HG. destruct HG as [HL _].
      assert (E1 : (k =? LinkKind) || (k =? ImageKind) = false).
      { unfold cont in Ec. destruct (k =? LinkKind), (k =? ImageKind); try reflexivity; rewrite ?orb_true_r in Ec; discriminate. }
      assert (E2 : (k =? EmphasisKind) || (k =? StrongKind) = false).
      { unfold cont in Ec. destruct (k =? EmphasisKind), (k =? StrongKind); try reflexivity; cbn [orb] in Ec; discriminate. }
      rewrite E1, E2. apply leafKids_toInline. exact HL.
  Qed.
End Conv.

(* ---------------------------------------------------------------- the theorems *)
(* entries of a block on which the inline parser runs, as the block layer produces them (L2Kind2.ek) *)
Lemma ek_eok K ik : forallb (ek K) ik = true -> isCode K = false -> K <> LinkReferenceDefinitionKind -> forallb eok ik = true.
Proof.
  intros H Hc Hr. apply forallb_forall. intros u Hin. rewrite forallb_forall in H. specialize (H u Hin).
  destruct u as [k s e ind r ks]. unfold ek, kidless, eok in *. cbn [ikind ikids iref] in *. cbv zeta in H. rewrite Hc in H.
  replace (K =? LinkReferenceDefinitionKind) with false in H by (symmetry; apply Z.eqb_neq; exact Hr).
  destruct (k =? UnparsedKind).
  { cbn [orb]. destruct ks; [reflexivity|discriminate]. }
  destruct ((k =? TextKind) || (k =? SoftLineBreakKind)); [rewrite andb_false_r in H; discriminate|].
  destruct ((k =? RawHTMLKind) || (k =? IndentKind)) eqn:E.
  { cbn [orb]. rewrite E. destruct ks; [reflexivity|discriminate]. }
  destruct (k =? InfoStringKind); [apply Z.eqb_eq in H; subst K; discriminate|].
  rewrite andb_false_r in H. discriminate.
Qed.
(* a block with an Unparsed entry is neither a code block nor a definition *)
Lemma hasUnparsed_kind b : forallb (ek (bkind b)) (bik b) = true -> hasUnparsed b = true ->
  isCode (bkind b) = false /\ bkind b <> LinkReferenceDefinitionKind.
Proof.
  intros H Hu. unfold hasUnparsed in Hu. apply existsb_exists in Hu. destruct Hu as (u & Hin & Eu).
  rewrite forallb_forall in H. specialize (H u Hin). unfold ek in H. cbv zeta in H. rewrite Eu in H.
  apply andb_true_iff in H. destruct H as [H N2]. apply andb_true_iff in H. destruct H as [_ N1].
  apply negb_true_iff in N1, N2. split; [exact N1|]. apply Z.eqb_neq. exact N2.
Qed.

Section Main.
  Variable tw : bool.
  Variable lt : list inline -> Z.
  Hypothesis Hlt : ltSpec tw lt.

  Lemma parseInlines_gramIg src matcher b :
    forallb (ek (bkind b)) (bik b) = true -> isCode (bkind b) = false -> bkind b <> LinkReferenceDefinitionKind ->
    (tw = true \/ titleNeedsDestFor src (bik b)) ->
    forallb (fun i => phrasing (ikind i) && gramIg lt false i) (parseInlines src matcher b) = true.
  Proof.
    intros He Hc Hr HTD. pose proof (ek_eok _ _ He Hc Hr) as HU.
    destruct (parseInlines_forest tw src (bik b) HU HTD matcher b eq_refl) as (l & -> & Hp & Hg).
    apply forallb_forall. intros x Hx. apply in_map_iff in Hx. destruct Hx as (n & <- & Hn).
    rewrite forallb_forall in Hp, Hg. rewrite ikind_toInline. specialize (Hp n Hn). unfold phr in Hp. rewrite Hp. cbn [andb].
    apply (gk_gramIg tw lt Hlt); [apply Hg, Hn|discriminate].
  Qed.
End Main.

(* THE STATEMENT ASKED FOR (hypothesis: the entry kinds of L2Kind2.parseBlocks_kinds, for a block that is neither a code
   block nor a definition - the blocks on which Rewrite runs the inline parser, see hasUnparsed_kind) *)
Definition parseInlines_gramI_statement : Prop := forall src matcher b,
  forallb (ek (bkind b)) (bik b) = true -> isCode (bkind b) = false -> bkind b <> LinkReferenceDefinitionKind ->
  forallb (fun i => phrasing (ikind i) && gramI false i) (parseInlines src matcher b) = true.

(* (A) PROVED, no side condition: the statement with gramIw in place of gramI.  gramIw is gramI except that the tail
   of a link / image may also be a lone [title] (gramI: nothing | [label] | [destination] | [destination][title]).
   Everything else is as in gramI: phrasing content at the top and inside emphasis / strong / links / images,
   code-span children, link-part / autolink / HTML-tag children, childless other kinds, no Unparsed node, reference
   links without destination / title, only phrasing content before the tail, and NO LINK IN A LINK. *)
Theorem parseInlines_gramI_partial : forall src matcher b,
  forallb (ek (bkind b)) (bik b) = true -> isCode (bkind b) = false -> bkind b <> LinkReferenceDefinitionKind ->
  forallb (fun i => phrasing (ikind i) && gramIw false i) (parseInlines src matcher b) = true.
Proof. intros src matcher b He Hc Hr. apply (parseInlines_gramIg true linkTailW linkTailW_spec); try assumption. left. reflexivity. Qed.

(* (B) PROVED: the exact statement, for every source and block for which parseInlineLink never reports a title
   without a destination (GI6.titleNeedsDestFor, stated for this source, these entries and the parser's own fuel).
   What is missing for the unconditional statement is exactly that fact; it needs (i) that the fuel 2*len src+10 of
   ld_angle suffices and (ii) that the entry spans are non-negative and increasing - neither is available from the
   block-layer theorems of this development (fuel sufficiency of the inline parser is an open item of C04). *)
Theorem parseInlines_gramI_titleDest_partial : forall src matcher b,
  forallb (ek (bkind b)) (bik b) = true -> isCode (bkind b) = false -> bkind b <> LinkReferenceDefinitionKind ->
  titleNeedsDestFor src (bik b) ->
  forallb (fun i => phrasing (ikind i) && gramI false i) (parseInlines src matcher b) = true.
Proof.
  intros src matcher b He Hc Hr HTD.
  pose proof (parseInlines_gramIg false linkTail linkTail_spec src matcher b He Hc Hr (or_intror HTD)) as H.
  rewrite forallb_forall in *. intros x Hx. specialize (H x Hx). rewrite gramIg_linkTail in H. exact H.
Qed.

(* the same, with the hypothesis in the form Rewrite meets it: a block of the block layer's output (L2Kind2.inv,
   proved for every block of every root by L2Kind2.parseBlocks_kinds) that has an Unparsed entry *)
Theorem parseInlines_gramI_partial_inv : forall src matcher b, L2Kind2.inv b = true -> hasUnparsed b = true ->
  forallb (fun i => phrasing (ikind i) && gramIw false i) (parseInlines src matcher b) = true.
Proof.
  intros src matcher b Hi Hu. apply L2Kind2.inv_parts in Hi. destruct Hi as [He _].
  destruct (hasUnparsed_kind b He Hu) as [Hc Hr]. apply parseInlines_gramI_partial; assumption.
Qed.

(* the side condition of (B) is satisfiable: GI8.titleNeedsDestFor_nil *)
Print Assumptions parseInlines_gramI_partial.
Print Assumptions parseInlines_gramI_partial_inv.
Print Assumptions parseInlines_gramI_titleDest_partial.

(* ================================================================== *)
(* the whole document: every paragraph / heading of parseFull          *)
(* ================================================================== *)
Require Import LP Rules Starts L2CC GIB.

Fixpoint leavesOK (G : inline -> bool) (b : block) : bool :=
  match b with Blk k _ _ bk ik _ _ _ _ _ =>
    (if (k =? ParagraphKind) || isHeading k then forallb (fun i => phrasing (ikind i) && G i) ik else true) &&
    forallb (leavesOK G) bk
  end.

(* d is b or a block below b *)
Inductive subB : block -> block -> Prop :=
| subB_refl b : subB b b
| subB_kid d c b : In c (bkids b) -> subB d c -> subB d b.

Lemma bheight_kid c : forall l, In c l -> (bheight c <= fold_right (fun c acc => Nat.max (bheight c) acc) O l)%nat.
Proof. induction l as [|x l IH]; intros H; [contradiction|]. cbn [fold_right]. destruct H as [->|H]; [lia|specialize (IH H); lia]. Qed.

Lemma canContain_leaf K c : isContK K = false -> canContain K c = false.
Proof.
  unfold isContK, canContain. intros H. apply orb_false_iff in H. destruct H as [H H4]. apply orb_false_iff in H. destruct H as [H H3].
  apply orb_false_iff in H. destruct H as [H1 H2]. rewrite H1, H2, H3, H4. reflexivity.
Qed.

Section Doc.
  Variable G : inline -> bool.
  Variable Q : bytes -> block -> Prop.     (* side condition on the blocks the inline parser runs on *)
  Hypothesis HGrun : forall src m b, forallb (ek (bkind b)) (bik b) = true -> isCode (bkind b) = false ->
    bkind b <> LinkReferenceDefinitionKind -> Q src b -> forallb (fun i => phrasing (ikind i) && G i) (parseInlines src m b) = true.
  Hypothesis HGleaf : forall k s e ind r, k = RawHTMLKind \/ k = IndentKind -> G (Inl k s e ind r []) = true.

  Lemma rewriteB_leaves src m : forall fuel b, (bheight b <= fuel)%nat ->
    L2Kind2.inv b = true -> ce b = true -> cc b = true -> (forall d, subB d b -> Q src d) ->
    leavesOK G (rewriteB fuel src m b) = true.
  Proof.
    induction fuel as [|f IH]; intros b Hh Hi Hce Hcc HQ; [destruct b; cbn in Hh; lia|].
    cbn [rewriteB].
    apply L2Kind2.inv_parts in Hi. destruct Hi as [Hek Hik]. apply ce_parts in Hce. destruct Hce as [HceK Hcek].
    apply cc_parts in Hcc. destruct Hcc as [Hcan Hcck].
    destruct ((0 <? len (bik b)) && hasUnparsed b) eqn:Ec.
    - apply andb_true_iff in Ec. destruct Ec as [El Eu]. destruct (hasUnparsed_kind b Hek Eu) as [Hcode Hlrd].
      assert (Hleaf : isContK (bkind b) = false).
      { unfold ceK in HceK. destruct (isContK (bkind b)); [|reflexivity]. cbn [negb orb] in HceK.
        destruct (bik b); [unfold len in El; cbn in El; discriminate|discriminate]. }
      assert (Hnokids : bkids b = []).
      { destruct (bkids b) as [|c r]; [reflexivity|]. cbn [forallb] in Hcan. rewrite (canContain_leaf _ _ Hleaf) in Hcan. discriminate. }
      pose proof (HQ b (subB_refl b)) as HQb.
      destruct b as [k s e bk ik a n c l lb]. cbn [set_bik leavesOK bkind bik bkids] in *. subst bk. cbn [forallb]. rewrite andb_true_r.
      destruct ((k =? ParagraphKind) || isHeading k); [|reflexivity].
      apply (HGrun src m (Blk k s e [] ik a n c l lb)); assumption.
    - assert (Hnu : hasUnparsed b = false).
      { destruct (hasUnparsed b) eqn:Eu; [|reflexivity]. rewrite andb_true_r in Ec.
        unfold hasUnparsed in Eu. destruct (bik b); [discriminate|]. unfold len in Ec. cbn in Ec. discriminate. }
      assert (HQk : forall c0, In c0 (bkids b) -> forall d, subB d c0 -> Q src d).
      { intros c0 Hc0 d Hd. apply HQ. eapply subB_kid; eassumption. }
      destruct b as [k s e bk ik a n c l lb]. cbn [set_bkids leavesOK bkind bik bkids] in *.
      apply andb_true_iff. split.
      + destruct ((k =? ParagraphKind) || isHeading k) eqn:Ek; [|reflexivity].
        assert (Hcode : isCode k = false /\ (k =? LinkReferenceDefinitionKind) = false /\ (k =? FencedCodeBlockKind) = false).
        { unfold isHeading, isCode in *. apply orb_true_iff in Ek. destruct Ek as [Ek|Ek]; [|apply orb_true_iff in Ek; destruct Ek as [Ek|Ek]];
            apply Z.eqb_eq in Ek; subst k; repeat split; reflexivity. }
        destruct Hcode as (Hc1 & Hc2 & Hc3).
        apply forallb_forall. intros u Hu. rewrite forallb_forall in Hek. specialize (Hek u Hu).
        unfold hasUnparsed in Hnu. cbn [bik] in Hnu.
        assert (Hku : (ikind u =? UnparsedKind) = false).
        { destruct (ikind u =? UnparsedKind) eqn:E; [|reflexivity]. exfalso.
          assert (Hex : existsb (fun i => ikind i =? UnparsedKind) ik = true) by (apply existsb_exists; exists u; split; assumption).
          rewrite Hex in Hnu. discriminate. }
        destruct u as [ku su eu indu ru ksu]. unfold ek, kidless in Hek. cbn [ikind ikids iref] in *. cbv zeta in Hek.
        rewrite Hku, Hc1, Hc2, Hc3 in Hek.
        destruct ((ku =? TextKind) || (ku =? SoftLineBreakKind)); [rewrite andb_false_r in Hek; discriminate|].
        destruct ((ku =? RawHTMLKind) || (ku =? IndentKind)) eqn:Er;
          [|destruct (ku =? InfoStringKind); [discriminate|rewrite andb_false_r in Hek; discriminate]].
        destruct ksu; [|discriminate].
        assert (Hkk : ku = RawHTMLKind \/ ku = IndentKind) by (apply orb_true_iff in Er; destruct Er as [Er|Er]; apply Z.eqb_eq in Er; tauto).
        rewrite (HGleaf ku su eu indu ru Hkk), andb_true_r. destruct Hkk as [-> | ->]; reflexivity.
      + apply forallb_forall. intros x Hx. apply in_map_iff in Hx. destruct Hx as (c0 & <- & Hc0).
        unfold L2Kind2.invL, ceL, ccL in *. rewrite forallb_forall in Hik, Hcek, Hcck.
        apply IH; [|apply Hik, Hc0|apply Hcek, Hc0|apply Hcck, Hc0|apply HQk, Hc0].
        cbn [bheight] in Hh. pose proof (bheight_kid c0 bk Hc0). lia.
  Qed.

  Theorem parseFull_leaves input :
    (forall r, In r (fst (parseBlocks input)) -> forall d, subB d (rb_blk r) -> Q (rb_src r) d) ->
    forallb (fun r => leavesOK G (rb_blk r)) (fst (parseFull input)) = true.
  Proof.
    intros HQ. unfold parseFull.
    pose proof (L2Kind2.parseBlocks_kinds input) as H1. pose proof (parseBlocks_noMixed input) as H2.
    pose proof (parseBlocks_contain input) as H3.
    destruct (parseBlocks input) as [roots code]. cbn [fst] in *.
    apply forallb_forall. intros x Hx. apply in_map_iff in Hx. destruct Hx as (r & <- & Hr). cbn [rb_blk].
    rewrite Forall_forall in H1, H2, H3. apply rewriteB_leaves; [lia|apply H1, Hr|apply H2, Hr|apply H3, Hr|apply HQ, Hr].
  Qed.
End Doc.

Lemma gramIg_leaf lt k s e ind r : k = RawHTMLKind \/ k = IndentKind -> gramIg lt false (Inl k s e ind r []) = true.
Proof. intros [-> | ->]; reflexivity. Qed.

(* THE COROLLARY ASKED FOR: every ParagraphKind / ATXHeadingKind / SetextHeadingKind block, at any depth, of every
   root that parseFull returns has only phrasing inline children, each satisfying gramI false *)
Definition parseFull_gramI_statement : Prop := forall input,
  forallb (fun r => leavesOK (gramI false) (rb_blk r)) (fst (parseFull input)) = true.

(* (A') PROVED, no side condition, every input: the corollary with gramIw in place of gramI *)
Theorem parseFull_gramI_partial : forall input,
  forallb (fun r => leavesOK (gramIw false) (rb_blk r)) (fst (parseFull input)) = true.
Proof.
  intros input. apply (parseFull_leaves (gramIw false) (fun _ _ => True)).
  - intros src m b He Hc Hr _. apply parseInlines_gramI_partial; assumption.
  - intros. apply gramIg_leaf. assumption.
  - intros. exact I.
Qed.

(* (B') PROVED: the exact corollary for every input on whose blocks parseInlineLink never reports a title without a
   destination *)
Definition titleNeedsDestDoc (input : bytes) : Prop :=
  forall r, In r (fst (parseBlocks input)) -> forall d, subB d (rb_blk r) -> titleNeedsDestFor (rb_src r) (bik d).
Theorem parseFull_gramI_titleDest_partial : forall input, titleNeedsDestDoc input ->
  forallb (fun r => leavesOK (gramI false) (rb_blk r)) (fst (parseFull input)) = true.
Proof.
  intros input HTD. apply (parseFull_leaves (gramI false) (fun src d => titleNeedsDestFor src (bik d))).
  - intros src m b He Hc Hr HQ. apply parseInlines_gramI_titleDest_partial; assumption.
  - intros k s e ind r Hk. rewrite <- gramIg_linkTail. apply gramIg_leaf, Hk.
  - exact HTD.
Qed.

Print Assumptions parseFull_gramI_partial.
Print Assumptions parseFull_gramI_titleDest_partial.

(* ================================================================== *)
(* the layers, each as its own checker (all unconditional)             *)
(* ================================================================== *)

(* layer 1: kinds of children per parent kind *)
Fixpoint kindsI (i : inline) : bool :=
  match i with Inl k _ _ _ _ ks =>
    negb (k =? UnparsedKind) &&
    if (k =? LinkKind) || (k =? ImageKind) then
      forallb (fun c => isLinkPart (ikind c) || phrasing (ikind c)) ks && forallb kindsI ks
    else if (k =? EmphasisKind) || (k =? StrongKind) then
      forallb (fun c => phrasing (ikind c)) ks && forallb kindsI ks
    else if k =? CodeSpanKind then
      forallb (fun c => (ikind c =? TextKind) || (ikind c =? SoftLineBreakKind) || (ikind c =? IndentKind)) ks
    else if isLinkPart k || (k =? InfoStringKind) || (k =? AutolinkKind) || (k =? HTMLTagKind) then
      forallb (fun c => ((ikind c =? TextKind) || (ikind c =? CharacterReferenceKind) || (ikind c =? SoftLineBreakKind) || (ikind c =? IndentKind) ||
                         (ikind c =? RawHTMLKind)) && (len (ikids c) =? 0)) ks
    else len ks =? 0
  end.

(* layer 3: no link inside a link (images and emphasis are transparent, as in Props.gramI) *)
Fixpoint noLinkInLink (inLink : bool) (i : inline) : bool :=
  match i with Inl k _ _ _ _ ks =>
    if (k =? LinkKind) || (k =? ImageKind) then
      negb ((k =? LinkKind) && inLink) && forallb (noLinkInLink (inLink || (k =? LinkKind))) ks
    else if (k =? EmphasisKind) || (k =? StrongKind) then forallb (noLinkInLink inLink) ks
    else true
  end.

Lemma gramIg_noLink lt : forall b i, gramIg lt b i = true -> noLinkInLink b i = true.
Proof.
  fix IH 2. intros b [k s e ind rf ks] H. cbn [gramIg noLinkInLink] in *.
  apply andb_true_iff in H. destruct H as [_ H].
  destruct ((k =? LinkKind) || (k =? ImageKind)).
  - apply andb_true_iff in H. destruct H as [H Hk]. apply andb_true_iff in H. destruct H as [H1 _]. rewrite H1. cbn [andb].
    generalize dependent (b || (k =? LinkKind)). intros b' Hk.
    induction ks as [|x l IHl]; [reflexivity|]. cbn [forallb] in *. apply andb_true_iff in Hk. destruct Hk as [Hx Hl].
    rewrite (IH b' x Hx). apply IHl, Hl.
  - destruct ((k =? EmphasisKind) || (k =? StrongKind)); [|reflexivity].
    apply andb_true_iff in H. destruct H as [_ Hk].
    induction ks as [|x l IHl]; [reflexivity|]. cbn [forallb] in *. apply andb_true_iff in Hk. destruct Hk as [Hx Hl].
    rewrite (IH b x Hx). apply IHl, Hl.
Qed.

Lemma bodyTail_kinds tw : forall l, bodyTail tw l = true -> forallb (fun c => isLinkPart (pkind c) || phrasing (pkind c)) l = true.
Proof.
  induction l as [|x l IH]; intros H; [reflexivity|]. cbn [bodyTail forallb] in *. unfold phr in H.
  destruct (phrasing (pkind x)) eqn:Ex; [rewrite orb_true_r; apply IH, H|].
  destruct l as [|y [|z l]]; cbn [tailShape] in H; try discriminate.
  - apply andb_true_iff in H. destruct H as [H _]. cbn [forallb]. rewrite andb_true_r, orb_false_r. unfold isLinkPart.
    repeat (apply orb_true_iff in H; destruct H as [H|H]); try (apply andb_true_iff in H; destruct H as [_ H]); rewrite H; rewrite ?orb_true_r; reflexivity.
  - apply andb_true_iff in H. destruct H as [H _]. apply andb_true_iff in H. destruct H as [H _]. apply andb_true_iff in H. destruct H as [H1 H2].
    cbn [forallb]. unfold isLinkPart. rewrite H1, H2. rewrite ?orb_true_r. reflexivity.
Qed.

Lemma gk_kindsI tw : forall n, gk tw n = true -> kindsI (toInline n) = true.
Proof.
  fix IH 1. intros [id k s e ind rf ks].
  assert (Hrec : forallb (gk tw) ks = true -> forallb kindsI (map toInline ks) = true).
  { induction ks as [|x l IHl]; intros H1; [reflexivity|]. cbn [map forallb] in *.
    apply andb_true_iff in H1. destruct H1 as [Hx Hl]. rewrite (IH x Hx). apply IHl, Hl. }
  intros HG. cbn [gk] in HG. apply andb_true_iff in HG. destruct HG as [HU HG].
  change (toInline (PN id k s e ind rf ks)) with (Inl k s e ind rf (map toInline ks)). cbn [kindsI]. rewrite HU. cbn [andb].
  destruct (cont k) eqn:Ec.
  - apply andb_true_iff in HG. destruct HG as [HL HK]. rewrite (Hrec HK), !andb_true_r.
    destruct (isLI k) eqn:Ei.
    + unfold isLI in Ei. rewrite Ei. unfold lvlG in HL. unfold isLI in HL. rewrite Ei in HL.
      apply andb_true_iff in HL. destruct HL as [HL _]. apply andb_true_iff in HL. destruct HL as [HB _].
      pose proof (bodyTail_kinds tw ks HB) as Hb. apply forallb_forall. intros x Hx. apply in_map_iff in Hx.
      destruct Hx as (n & <- & Hn). rewrite ikind_toInline. rewrite forallb_forall in Hb. apply (Hb n Hn).
    + assert (Hes : (k =? EmphasisKind) || (k =? StrongKind) = true).
      { unfold cont, isLI in *. destruct (k =? EmphasisKind), (k =? StrongKind); try reflexivity. cbn [orb] in *. congruence. }
      unfold isLI in Ei. rewrite Ei, Hes. unfold lvlG in HL. unfold isLI in HL. rewrite Ei in HL.
      apply forallb_forall. intros x Hx. apply in_map_iff in Hx. destruct Hx as (n & <- & Hn). rewrite ikind_toInline.
      rewrite forallb_forall in HL. apply (HL n Hn).
  - apply andb_true_iff in HG. destruct HG as [HL _].
    assert (E1 : (k =? LinkKind) || (k =? ImageKind) = false).
    { unfold cont in Ec. destruct (k =? LinkKind), (k =? ImageKind); try reflexivity; rewrite ?orb_true_r in Ec; discriminate. }
    assert (E2 : (k =? EmphasisKind) || (k =? StrongKind) = false).
    { unfold cont in Ec. destruct (k =? EmphasisKind), (k =? StrongKind); try reflexivity; cbn [orb] in Ec; discriminate. }
    rewrite E1, E2. apply leafKids_toInline. exact HL.
Qed.


(* layer 1 (full): phrasing content at the top level and the kinds of children per parent kind *)
Theorem parseInlines_kinds : forall src matcher b,
  forallb (ek (bkind b)) (bik b) = true -> isCode (bkind b) = false -> bkind b <> LinkReferenceDefinitionKind ->
  forallb (fun i => phrasing (ikind i) && kindsI i) (parseInlines src matcher b) = true.
Proof.
  intros src matcher b He Hc Hr. pose proof (ek_eok _ _ He Hc Hr) as HU.
  destruct (parseInlines_forest true src (bik b) HU (or_introl eq_refl) matcher b eq_refl) as (l & -> & Hp & Hg).
  apply forallb_forall. intros x Hx. apply in_map_iff in Hx. destruct Hx as (n & <- & Hn).
  rewrite forallb_forall in Hp, Hg. rewrite ikind_toInline. specialize (Hp n Hn). unfold phr in Hp. rewrite Hp. cbn [andb].
  apply (gk_kindsI true), Hg, Hn.
Qed.
(* layer 2 is parseInlines_gramI_partial (gramIw: tails nothing | [label] | [destination] | [destination][title] | [title]);
   the exact tail grammar (no lone title) is parseInlines_gramI_titleDest_partial *)
(* layer 3 (full): no link in a link *)
Theorem parseInlines_noLinkInLink : forall src matcher b,
  forallb (ek (bkind b)) (bik b) = true -> isCode (bkind b) = false -> bkind b <> LinkReferenceDefinitionKind ->
  forallb (noLinkInLink false) (parseInlines src matcher b) = true.
Proof.
  intros src matcher b He Hc Hr. pose proof (parseInlines_gramI_partial src matcher b He Hc Hr) as H.
  rewrite forallb_forall in *. intros x Hx. specialize (H x Hx). apply andb_true_iff in H. destruct H as [_ H].
  apply (gramIg_noLink linkTailW). exact H.
Qed.

(* the same two layers for every paragraph and heading of the whole document *)
Theorem parseFull_kinds : forall input, forallb (fun r => leavesOK kindsI (rb_blk r)) (fst (parseFull input)) = true.
Proof.
  intros input. apply (parseFull_leaves kindsI (fun _ _ => True)).
  - intros src m b He Hc Hr _. apply parseInlines_kinds; assumption.
  - intros k s e ind r [-> | ->]; reflexivity.
  - intros. exact I.
Qed.
Theorem parseFull_noLinkInLink : forall input, forallb (fun r => leavesOK (noLinkInLink false) (rb_blk r)) (fst (parseFull input)) = true.
Proof.
  intros input. apply (parseFull_leaves (noLinkInLink false) (fun _ _ => True)).
  - intros src m b He Hc Hr _. pose proof (parseInlines_gramI_partial src m b He Hc Hr) as H.
    rewrite forallb_forall in *. intros x Hx. specialize (H x Hx). apply andb_true_iff in H. destruct H as [H1 H2].
    rewrite H1. apply (gramIg_noLink linkTailW). exact H2.
  - intros k s e ind r [-> | ->]; reflexivity.
  - intros. exact I.
Qed.

Print Assumptions parseInlines_kinds.
Print Assumptions parseInlines_noLinkInLink.
Print Assumptions parseFull_kinds.
Print Assumptions parseFull_noLinkInLink.
