(* IRender.v -- T71, task T71-render: the renderer clause of C09 for the list item, from the statement about the trees after the inline
   pass:   renderDoc_item_of_tree_statement : parseFull_item_statement -> renderDoc_item_statement.
   IRender2 : QRender2 / QRender3 for an arbitrary position map (renderI_mp, renderB_mp, extractDefs_mp);
   IRender1 : the map sigmaK K D into item mk N D satisfies the two hypotheses of IRender2; iB3 is the block map of IRender2;
   IRender3 : the roots of D below the item; the marker;   this file: the List / ListItem / ListMarker wrapper and the theorem.
   The facts about the tree of D are QRender.renderOK_all D (about D alone), the tiling of D by its roots QRender4.parseFull_rootF. *)
From Coq Require Import List ZArith Lia Bool.
Import ListNotations.
Require Import Base Tables Utf8 Tree Recog Rec16 Inl3b LP Driver Inl3e Render RenderWalkProof QuoteSimDefs ItemSimDefs ItemSimMain IFullDefs
  QRender1 QRenderDefs QRender4 QRender IRender2 IRender1 IRender3.
Open Scope Z_scope.

Section Wrap.
  Variables (c : cfg) (refs : list (bytes * linkDef)) (Q : bytes).
  Variables (W L ind delim : Z) (loose lbL lbI : bool) (ks : list block).
  Definition markerB : block := Blk ListMarkerKind 0 W [] [] 0 0 0 false false.
  Definition itemB : block := Blk ListItemKind 0 L (markerB :: ks) [] ind 0 delim loose lbI.
  Definition listB : block := Blk ListKind 0 L [itemB] [] 0 0 delim loose lbL.

  Lemma render_marker f pt : renderB f c refs Q pt markerB = [].
  Proof. destruct f; reflexivity. Qed.
  Lemma defs_marker f acc : extractDefs f Q markerB acc = acc.
  Proof. destruct f; reflexivity. Qed.

  Lemma render_item f pt : renderB (S f) c refs Q pt itemB =
    openTag c s_li ++ flat_map (renderB f c refs Q (negb loose)) ks ++ closeTag c s_li.
  Proof.
    unfold itemB. cbn [renderB bkind bkids bik]. unfold isTightList. cbn [bkind bloose flat_map].
    rewrite render_marker. reflexivity.
  Qed.
  Lemma render_list f : renderB (S (S f)) c refs Q false listB =
    let X := openTag c s_li ++ flat_map (renderB f c refs Q (negb loose)) ks ++ closeTag c s_li in
    if (delim =? 46) || (delim =? 41) then
      let n := listItemNumber Q itemB in
      openTagAttr c s_ol ++ (if (0 <=? n) && negb (n =? 1) then [32;115;116;97;114;116;61;34] ++ decimal 12 n ++ [34] else []) ++ [62] ++
      X ++ closeTag c s_ol
    else openTag c s_ul ++ X ++ closeTag c s_ul.
  Proof.
    cbv zeta. rewrite <- (render_item f (negb loose)).
    unfold listB at 1. cbn [renderB bkind bkids bik]. unfold isTightList, isOrdered. cbn [bkind bloose bchar flat_map]. rewrite app_nil_r.
    destruct ((delim =? 46) || (delim =? 41)); reflexivity.
  Qed.
  Lemma defs_list f acc : extractDefs (S (S f)) Q listB acc = fold_left (fun a ch => extractDefs f Q ch a) ks acc.
  Proof. unfold listB, itemB. cbn [extractDefs bkind bkids fold_left]. rewrite defs_marker. reflexivity. Qed.
  Lemma number_item : listItemNumber Q itemB =
    if (delim =? 46) || (delim =? 41) then (let '(_, n, e) := parseListMarker (sub Q 0 W) in if e <? 0 then -1 else n) else -1.
  Proof. unfold listItemNumber, itemB, isOrdered. cbn [bchar bkind bkids bstart bend markerB]. destruct ((delim =? 46) || (delim =? 41)); reflexivity. Qed.
  Lemma bheight_list : bheight listB = S (S (Nat.max 1 (fold_right (fun c0 acc => Nat.max (bheight c0) acc) O ks))).
  Proof. reflexivity. Qed.
End Wrap.

Lemma max_kid_bound (ks : list block) x : In x ks -> (bheight x <= Nat.max 1 (fold_right (fun c0 acc => Nat.max (bheight c0) acc) O ks))%nat.
Proof. intros H. induction ks as [|y l IH]; [destruct H|]. cbn [fold_right]. destruct H as [->|H]; [lia|specialize (IH H); lia]. Qed.

Theorem renderDoc_item_of_tree_statement : parseFull_item_statement -> renderDoc_item_statement.
Proof.
  intros HS c mk delim N D Hc Hy. pose proof Hy as (Hmk & HN & HT & Hok & Htb). cbv zeta.
  destruct (HS mk delim N D Hy) as (lbL & lbI & Hq). cbv zeta in Hq.
  set (K := len mk + N) in *. set (loose := looseOf (itemKids K D (fst (parseBlocks D)))) in *.
  assert (D_first : exists c0 r, D = c0 :: r /\ c0 <> 10).
  { destruct (okDoc_first D HT Hok) as (c0 & r0 & E & Hs). exists c0, r0. split; [exact E|]. intros ->. discriminate Hs. }
  pose proof (parseFull_rootF D HT) as HF. pose proof (renderOK_all D) as HOK. unfold renderOK in HOK.
  unfold renderPiecesT. unfold renderDoc. rewrite Hq. destruct (parseFull D) as [roots code]. cbn [fst] in *.
  unfold itemRoot. cbv zeta. cbn [map fold_left rb_blk rb_src joinBlocks].
  change (itemKids3 K D roots) with (map (kidI K D) roots).
  set (Q := item mk N D). set (ks := map (kidI K D) roots).
  fold (markerB (len mk)). fold (itemB (len mk) (len Q) (len mk + N) delim loose lbI ks).
  fold (listB (len mk) (len Q) (len mk + N) delim loose lbL lbI ks).
  rewrite bheight_list. set (F := Nat.max 1 (fold_right (fun c0 acc => Nat.max (bheight c0) acc) O ks)).
  assert (Hh : forall r, In r roots -> (bheight (rb_blk r) <= F)%nat).
  { intros r Hr. rewrite <- (bheight_kidI K D r). apply max_kid_bound. unfold ks. apply in_map, Hr. }
  rewrite defs_list, render_list. cbv zeta. unfold ks. subst Q.
  rewrite (kidsI_defs mk N K D eq_refl ltac:(lia) D_first F roots [] HF HOK Hh).
  rewrite (kidsI_render mk N K D c Hc eq_refl ltac:(lia) D_first _ F (negb loose) roots HF HOK Hh).
  fold ks. rewrite number_item. unfold listOpen, listClose.
  destruct Hmk as [Hb|Ho].
  - rewrite (marker_bullet mk delim Hb). rewrite <- !app_assoc. reflexivity.
  - destruct (marker_ordered mk delim Ho) as (Hp & Hnn & Hd). rewrite Hd.
    assert (Esub : sub (item mk N D) 0 (len mk) = mk) by (unfold item; apply sub_prefix_app). rewrite Esub, Hp.
    destruct (Z.ltb_spec (len mk) 0) as [L|_]; [pose proof (len_nn mk); lia|].
    replace (0 <=? mkNumber mk) with true by (symmetry; apply Z.leb_le, Hnn). cbn [andb]. cbv zeta.
    rewrite <- !app_assoc. reflexivity.
Qed.
Print Assumptions renderDoc_item_of_tree_statement.
