From Coq Require Import List ZArith Lia Bool.
Import ListNotations.
Require Import Base Tree Rdr Link Collect Html Recog LP Rules Starts Driver Render L2Kind L2CC GramDefs GramTree GramLP GramLP2.
Require L2Kind2.
Open Scope Z_scope.

Lemma GI_endBlock p : GI p -> GI (endBlock p).
Proof.
  intros H. unfold endBlock. destruct (_ || _); [apply GI_panic, H|]. cbv zeta.
  set (p0 := if state p =? stOpening then withState p stOpenMatched else p).
  assert (H0 : GI p0) by (apply GI_opened, H).
  destruct (cdepth p0) as [|d] eqn:Ed; [apply GI_panic, H0|].
  apply GI_closeAt; [exact H0|lia|lia].
Qed.

Lemma sameAs_set_bik x v : sameAs x (set_bik x v).
Proof. destruct x. split; [reflexivity|intros _; split; reflexivity]. Qed.
Lemma isOpen_set_bik x v : isOpen (set_bik x v) = isOpen x. Proof. destruct x; reflexivity. Qed.
Lemma sameAs_set_bindent x v : sameAs x (set_bindent x v).
Proof. destruct x. split; [reflexivity|intros _; split; reflexivity]. Qed.
Lemma isOpen_set_bindent x v : isOpen (set_bindent x v) = isOpen x. Proof. destruct x; reflexivity. Qed.

(* appending inline entries to a container whose kind may hold them *)
Lemma GI_updCont_ik p (g : block -> list inline) K : GI p -> ckind p K -> nikK K = false ->
  GI (updCont p (fun b => set_bik b (g b))).
Proof.
  intros H Hc Hn. apply GI_updCont; [exact H| |intros x; apply isOpen_set_bik].
  intros x Hx Hcx Hgx. rewrite cc_set_bik. split; [exact Hcx|]. split; [|apply sameAs_set_bik].
  rewrite gb_set_bik; [exact Hgx|]. rewrite (Hc x Hx). exact Hn.
Qed.
Lemma GI_updCont_bindent p v : GI p -> GI (updCont p (fun b => set_bindent b v)).
Proof.
  intros H. apply GI_updCont; [exact H| |intros x; apply isOpen_set_bindent].
  intros x _ Hcx Hgx. rewrite cc_set_bindent, gb_set_bindent. split; [exact Hcx|]. split; [exact Hgx|apply sameAs_set_bindent].
Qed.

Lemma GI_collectInline p kind n K : GI p -> ckind p K -> nikK K = false -> GI (collectInline p kind n).
Proof.
  intros H Hc Hn. unfold collectInline. destruct (_ =? stDescendTerminated); [apply GI_panic, H|]. cbv zeta.
  set (p0 := if state p =? stOpening then withState p stOpenMatched else p).
  assert (H0 : GI p0) by (apply GI_opened, H).
  assert (C0 : ckind p0 K) by (eapply ckind_same; [apply same_opened|exact Hc]).
  set (p1 := if 0 <? indent p0 then _ else p0).
  assert (H1 : GI p1 /\ ckind p1 K).
  { unfold p1. destruct (0 <? indent p0); [|tauto]. split.
    - apply (GI_updCont_ik _ (fun b => bik b ++ [_]) K); [apply GI_advance, H0| |exact Hn].
      eapply ckind_same; [apply same_advance|exact C0].
    - apply ckind_updCont; [intros b; apply bkind_set_bik|]. eapply ckind_same; [apply same_advance|exact C0]. }
  destruct H1 as [H1 C1].
  apply (GI_updCont_ik _ (fun b => bik b ++ [_]) K); [apply GI_advance, H1| |exact Hn].
  eapply ckind_same; [apply same_advance|exact C1].
Qed.

Lemma GI_matchRule p : GI p -> GI (snd (matchRule p)).
Proof.
  intros H. unfold matchRule. cbv zeta.
  destruct (_ || _); [assumption|].
  destruct (_ =? ListItemKind).
  { unfold matchListItem. destruct (isRestBlank p); [destruct (negb _); [assumption|apply GI_consumeIndent, H]|].
    destruct (_ <=? _); [apply GI_consumeIndent, H|assumption]. }
  destruct (_ =? BlockQuoteKind).
  { unfold matchBlockQuote. cbv zeta. destruct (_ <=? _); [assumption|]. destruct (negb _); [assumption|]. cbn [snd].
    unfold eatQuoteMarker. cbv zeta. destruct (0 <? _).
    - apply GI_consumeIndent, GI_advance, GI_consumeIndent, H.
    - apply GI_advance, GI_consumeIndent, H. }
  destruct (_ =? FencedCodeBlockKind).
  { unfold matchFenced. cbv zeta. destruct (if _ <? _ then _ else false); cbn [snd]; [apply GI_consumeLine|apply GI_consumeIndent]; assumption. }
  destruct (_ =? IndentedCodeBlockKind).
  { unfold matchIndented. cbv zeta. destruct (_ <? _); [destruct (negb _)|]; cbn [snd]; try apply GI_consumeIndent; assumption. }
  destruct (containerKind p =? HTMLBlockKind) eqn:EH.
  { unfold matchHTML. destruct (htmlEnd _ _); [|assumption]. destruct (isRestBlank _); [assumption|]. cbn [snd]. apply GI_consumeLine.
    eapply GI_collectInline; [exact H|apply ckind_self|]. apply Z.eqb_eq in EH. rewrite EH. reflexivity. }
  assumption.
Qed.

Lemma GI_descend_loop : forall fuel p d, GI p -> cdepth p = d -> GI (snd (descend_loop fuel p d)).
Proof.
  induction fuel as [|f IH]; intros p d H Hd.
  { cbn [descend_loop snd]. apply (GI_same_cd p); [reflexivity|cbn; symmetry; exact Hd|exact H]. }
  assert (Hback : GI (withCont p (Some d))) by (apply (GI_same_cd p); [reflexivity|cbn; symmetry; exact Hd|exact H]).
  cbn [descend_loop]. cbv zeta.
  destruct (getAt (S d) (root p)) as [c|] eqn:Ec; [|exact Hback].
  destruct (negb (isOpen c)) eqn:Eo; [exact Hback|]. apply negb_false_iff in Eo.
  destruct (negb (hasMatch _)); [exact Hback|].
  set (q := withState (withCont p (Some (S d))) stDescending).
  assert (Hq : GI q).
  { apply (GI_same (withCont p (Some (S d)))); [split; reflexivity|].
    apply GI_withCont; [exact H|]. destruct H as (_ & _ & C). rewrite Hd in C. eapply so_extend; eassumption. }
  pose proof (GI_matchRule q Hq) as H2. pose proof (cdepth_matchRule q) as Ecd.
  destruct (matchRule q) as [ok p2]. cbn [snd] in H2, Ecd. change (cdepth q) with (S d) in Ecd.
  destruct (state p2 =? stDescendTerminated); [cbn [snd]; apply GI_closeAt; [exact H2|lia|lia]|].
  destruct (negb ok).
  - cbn [snd]. apply GI_withCont; [exact H2|]. destruct H2 as (_ & _ & C). rewrite Ecd in C. eapply so_le; [|exact C]. lia.
  - apply IH; [exact H2|exact Ecd].
Qed.

(* ---- block starts ---- *)
Ltac chaing H :=
  repeat match goal with
  | |- GI (consumeLine _) => apply GI_consumeLine
  | |- GI (endBlock _) => apply GI_endBlock
  | |- GI (advance _ _) => apply GI_advance
  | |- GI (consumeIndent _ _) => apply GI_consumeIndent
  | |- GI (openBlock _ _) => apply GI_openBlock; [|discriminate|discriminate|intros; reflexivity]
  | |- GI (updCont _ (fun b => set_bindent b _)) => apply GI_updCont_bindent
  end;
  try exact H.

Lemma GI_startBlockQuote p : GI p -> GI (startBlockQuote p).
Proof. intros H. unfold startBlockQuote. cbv zeta. destruct (_ <=? _); [assumption|]. destruct (negb _); [assumption|].
       destruct (0 <? _); chaing H. Qed.
Lemma GI_startThematic p : GI p -> GI (startThematic p).
Proof. intros H. unfold startThematic. cbv zeta. destruct (_ <=? _); [assumption|]. destruct (_ <? 0); [assumption|]. chaing H. Qed.
Lemma GI_startIndented p : GI p -> GI (startIndented p).
Proof. intros H. unfold startIndented. destruct (_ || _ || _); [assumption|]. chaing H. Qed.

Lemma atx_level_le l lv cs ce : parseATXHeading l = (lv, cs, ce) -> lv <= 6.
Proof.
  unfold parseATXHeading. cbv zeta. intros H.
  remember (countWhile (fun c => c =? 35) l) as level eqn:Elv.
  destruct ((level =? 0) || (6 <? level)) eqn:E; [injection H as <- <- <-; lia|].
  apply orb_false_iff in E. destruct E as [_ E]. apply Z.ltb_ge in E.
  destruct (_ || _ || _); [injection H as <- <- <-; lia|].
  destruct (negb (isSpTab _)); [injection H as <- <- <-; lia|].
  destruct (atx_scanBack _ _ _ _) as [e1 hit]. destruct (negb hit); [injection H as <- <- <-; lia|].
  destruct (atx_trailing _ _ _ _) as [e2 mode]. destruct (mode =? 0); injection H as <- <- <-; lia.
Qed.
Lemma gb_newATX pos level : 1 <= level <= 6 -> gb (set_bn (newBlock ATXHeadingKind pos) level) = true.
Proof.
  intros [A B]. change (((1 <=? level) && (level <=? 6)) && true = true).
  apply Z.leb_le in A, B. rewrite A, B. reflexivity.
Qed.

Lemma GI_startATX p : st_open p -> GI p -> GI (startATX p).
Proof.
  intros Hs H. unfold startATX. cbv zeta. destruct (_ <=? _); [assumption|].
  destruct (parseATXHeading _) as [[level cs] ce] eqn:Ep. destruct (level <? 1) eqn:El; [assumption|].
  apply Z.ltb_ge in El. pose proof (atx_level_le _ _ _ _ Ep) as Hl.
  apply GI_endBlock, GI_consumeLine.
  eapply (GI_collectInline _ _ _ ATXHeadingKind); [| |reflexivity].
  - apply GI_advance, GI_openBlock_init; [apply st_open_consumeIndent, Hs|apply GI_consumeIndent, H|discriminate|discriminate|].
    intros pos. split; [reflexivity|]. split; [reflexivity|]. split; [apply gb_newATX; lia|reflexivity].
  - eapply ckind_same; [apply same_advance|]. apply ckind_updCont; [intros b; destruct b; reflexivity|].
    apply ckind_openBlock, st_open_consumeIndent, Hs.
Qed.

Lemma GI_startFenced p : st_open p -> GI p -> GI (startFenced p).
Proof.
  intros Hs H. unfold startFenced. cbv zeta. destruct (_ <=? _); [assumption|].
  destruct (parseCodeFence _) as [[[fc fnn] is_] ie]. destruct (fnn =? 0); [assumption|].
  apply GI_consumeLine.
  match goal with |- GI (if _ then collectInline (advance ?Q _) _ _ else _) => set (q := Q) end.
  assert (Hq : GI q).
  { unfold q. apply GI_updCont_bindent.
    apply GI_openBlock_init; [apply st_open_consumeIndent, Hs|apply GI_consumeIndent, H|discriminate|discriminate|].
    intros pos. repeat split; reflexivity. }
  destruct (spanValid _); [|exact Hq].
  eapply (GI_collectInline _ _ _ FencedCodeBlockKind); [apply GI_advance, Hq| |reflexivity].
  eapply ckind_same; [apply same_advance|]. unfold q.
  apply ckind_updCont; [intros b; destruct b; reflexivity|]. apply ckind_updCont; [intros b; destruct b; reflexivity|].
  apply ckind_openBlock, st_open_consumeIndent, Hs.
Qed.

Lemma GI_startHTML p : st_open p -> GI p -> GI (startHTML p).
Proof.
  intros Hs H. unfold startHTML. cbv zeta. destruct (_ <=? _); [assumption|]. destruct (negb _); [assumption|].
  destruct (_ <? 0); [assumption|]. destruct (negb _ && _); [assumption|].
  match goal with |- GI (if _ then endBlock (consumeLine (collectInline ?Q _ _)) else _) => set (q := Q) end.
  assert (Hq : GI q).
  { unfold q. apply GI_openBlock_init; [exact Hs|exact H|discriminate|discriminate|].
    intros pos. repeat split; reflexivity. }
  destruct (htmlEnd _ _); [|exact Hq].
  apply GI_endBlock, GI_consumeLine.
  eapply (GI_collectInline _ _ _ HTMLBlockKind); [exact Hq| |reflexivity].
  unfold q. apply ckind_updCont; [intros b; destruct b; reflexivity|]. apply ckind_openBlock, Hs.
Qed.

Lemma setext_loop_level c0 level : forall l, setext_loop l c0 level = 0 \/ setext_loop l c0 level = level.
Proof.
  induction l as [|c r IH]; [right; reflexivity|]. cbn [setext_loop].
  destruct (c =? c0); [exact IH|]. destruct (isBlankLine _); [right|left]; reflexivity.
Qed.
Lemma setext_level l : parseSetextHeadingUnderline l = 0 \/ 1 <= parseSetextHeadingUnderline l <= 2.
Proof.
  unfold parseSetextHeadingUnderline. destruct l as [|c r]; [left; reflexivity|].
  destruct (c =? 61); [destruct (setext_loop_level c 1 r) as [E|E]; rewrite E; [left; reflexivity|right; lia]|].
  destruct (c =? 45); [destruct (setext_loop_level c 2 r) as [E|E]; rewrite E; [left; reflexivity|right; lia]|].
  left. reflexivity.
Qed.

Lemma GI_setext p level : GI p -> containerKind p = ParagraphKind -> 1 <= level <= 2 ->
  GI (updCont p (fun b => set_bn (set_bkind b SetextHeadingKind) level)).
Proof.
  intros (A & B & C) Ek Hl.
  set (f := fun b : block => set_bn (set_bkind b SetextHeadingKind) level).
  assert (Hf : forall x, getAt (cdepth p) (root p) = Some x -> bkind x = ParagraphKind).
  { intros x Hx. rewrite <- Ek. apply (ckind_self p x Hx). }
  split; [|split].
  - apply ccP_updCont_compat; [exact A| |].
    + intros x Hx Hc. pose proof (Hf x Hx) as Ex.
      apply cc_parts in Hc. destruct Hc as [C1 _]. rewrite Ex in C1.
      assert (Ekids : bkids x = []) by (apply forallb_false_nil; exact C1).
      destruct x as [K s e bk ik a n c l lb]. cbn [bkids bkind] in *. subst bk K. split; [reflexivity|].
      right. split; discriminate.
    + intros E0. exfalso. rewrite (containerKind_root p E0) in Ek. destruct A as (A & _). rewrite A in Ek. discriminate.
  - unfold updCont. cbn [root withRoot setLP].
    apply (gb_updAt_at f (cdepth p) (root p) B). intros x Hx Hgx. pose proof (Hf x Hx) as Ex.
    destruct x as [K s e bk ik a n c l lb]. cbn [bkind] in Ex. subst K. apply gb_parts in Hgx. destruct Hgx as [_ G2]. cbn [bkids] in G2.
    split.
    + unfold f. cbn [set_bkind set_bn]. apply gb_intro; [|exact G2].
      change ((1 <=? level) && (level <=? 2) = true). destruct Hl as [L1 L2]. apply Z.leb_le in L1, L2. rewrite L1, L2. reflexivity.
    + right. split; reflexivity.
  - unfold updCont. cbn [root container cdepth withRoot setLP]. fold (cdepth p).
    apply so_updAt; [intros x; destruct x; reflexivity|apply Nat.le_refl|exact C].
Qed.

Lemma GI_startSetext p : GI p -> GI (startSetext p).
Proof.
  intros H. unfold startSetext. cbv zeta. destruct (negb (containerKind p =? ParagraphKind)) eqn:Ek; [assumption|].
  destruct (_ <=? _); [assumption|].
  destruct (parseSetextHeadingUnderline (bytesAfterIndent p) =? 0) eqn:E0; [assumption|].
  destruct (negb (containerHasParagraphContent p)); [assumption|].
  apply negb_false_iff, Z.eqb_eq in Ek. apply Z.eqb_neq in E0.
  apply GI_endBlock, GI_consumeLine. apply GI_setext; [exact H|exact Ek|].
  destruct (setext_level (bytesAfterIndent p)) as [E|E]; [contradiction|exact E].
Qed.
