From Coq Require Import List ZArith Lia Bool.
Import ListNotations.
Require Import LADef.
Require Import Base Tree Driver L2CC LA11 EolCRLFDefs EolCRLFSimLeDefs EolCRLFGenHyp EolCRLFGenRun EolCRLFGenAll EolGenCtStream EolGenCt EolCRLFGenEn.
Open Scope Z_scope.

(* the containment / account / entry interface of EolGenCt*.v + EolCRLFGenEn.v plugged into the general CRLF simulation; what
   remains is the record OcpHyp (the two-run commutation of the link-reference-definition parser) *)
Theorem parseBlocks_crlf_of_OcpHyp (O : OcpHyp) : forall s, ~ In 13 s -> LIM (pad s) ->
  parseBlocks (crlf s) = (map (phiRoot s) (fst (parseBlocks s)), snd (parseBlocks s)).
Proof.
  intros s S13 HL.
  exact (crlf_main (O:=O) SJ2 LE2 LE2_basic X2_step LE2_en SJ2_le X2_make X2_nil X2_next X2_init s S13 HL).
Qed.
Print Assumptions parseBlocks_crlf_of_OcpHyp.
