From Coq Require Import List ZArith Lia Bool.
Import ListNotations.
Require Import Base Tree Driver EolFinalDefs EolFinalSimHypTn EolFinalSimHypSc EolFinalSimStream3.
Open Scope Z_scope.

(* C14 (i), final newline, for inputs without '[' (byte 91): appending LF to an input that does not end in a line ending
   (nor in '>') changes only the last root block, by the explicit tree map finRoots. *)
Theorem parseBlocks_final_newline_nobracket : forall s, s <> [] -> endsEol s = false -> lastByte s <> 62 -> ~ In 91 s ->
  parseBlocks (s ++ [10]) = (finRoots (len s) (fst (parseBlocks s)), snd (parseBlocks s)).
Proof.
  intros s Hne He Hl N. apply (final_newline_conditional tn_processLine sc_processLine s Hne He Hl N).
Qed.
Print Assumptions parseBlocks_final_newline_nobracket.

(* The full statement (EolFinalDefs.parseBlocks_final_newline_statement, every input) is NOT proved here; what is proved
   is its restriction to inputs without '['. *)
Definition parseBlocks_final_newline_full_statement : Prop := parseBlocks_final_newline_statement.
Theorem parseBlocks_final_newline_partial : forall s, ~ In 91 s -> s <> [] -> endsEol s = false -> lastByte s <> 62 ->
  parseBlocks (s ++ [10]) = (finRoots (len s) (fst (parseBlocks s)), snd (parseBlocks s)).
Proof. intros s N Hne He Hl. apply parseBlocks_final_newline_nobracket; assumption. Qed.
Print Assumptions parseBlocks_final_newline_partial.
