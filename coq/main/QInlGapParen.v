(* QInlGapParen.v -- T64: the byte of quote D just behind the image of a line feed of D is the '>' of the next prefix "> ",
   or lies behind the end of quote D (the line feed is the last byte of D); in particular it is not ')'.
   (Needed by the core of the inline simulation: parseInlineLink tests the current byte of a reader that is exhausted behind the last
   line feed of the last entry against ')'.) *)
From Coq Require Import List ZArith Lia Bool.
Import ListNotations.
Require Import Base Tree ShapesBase SliceBase QuoteSimDefs QuoteSimLines QuoteSimReloc QuoteSimDrv1 QS2Drv1 QIRdrBase.
Open Scope Z_scope.

Definition GapNoParen (sD sQ : bytes) (sg : Z -> Z) : Prop := forall x, 0 <= x < len sD -> at_ sD x = 10 -> at_ sQ (sg x + 1) <> 41.

Lemma quoteAux_after_lf : forall l b p, 0 <= p -> p + 1 < len l -> at_ l p = 10 ->
  at_ (quoteAux b l) (p + 2 * (nlc (upto l p) + (if b then 1 else 0)) + 1) = 62.
Proof.
  induction l as [|c r IH]; intros b p Hp Hl Ha; [change (len (@nil Z)) with 0 in Hl; lia|]. rewrite len_cons in Hl. cbn [quoteAux].
  destruct (Z.eq_dec p 0) as [->|N].
  - rewrite at_0 in Ha. subst c. change (10 =? 10) with true. change (upto (10 :: r) 0) with (@nil Z). cbn [nlc].
    destruct r as [|c2 r2]; [change (len (@nil Z)) with 0 in Hl; lia|]. cbn [quoteAux app].
    destruct b; reflexivity.
  - rewrite upto_cons' by lia. cbn [nlc]. rewrite (at_S' c r p) in Ha by lia.
    pose proof (nlc_nonneg (upto r (p - 1))) as Hn.
    specialize (IH (c =? 10) (p - 1) ltac:(lia) ltac:(lia) Ha). rewrite <- IH.
    assert (Hpos : 0 <= p - 1 + 2 * (nlc (upto r (p - 1)) + (if c =? 10 then 1 else 0)) + 1) by (destruct (c =? 10); lia).
    destruct b; cbn [app].
    + replace (p + 2 * ((if c =? 10 then 1 else 0) + nlc (upto r (p - 1)) + 1) + 1)
        with ((p - 1 + 2 * (nlc (upto r (p - 1)) + (if c =? 10 then 1 else 0)) + 1) + 1 + 2) by (destruct (c =? 10); lia).
      rewrite QuoteSimReloc.at_cons2 by lia. rewrite at_S by lia. reflexivity.
    + replace (p + 2 * ((if c =? 10 then 1 else 0) + nlc (upto r (p - 1)) + 0) + 1)
        with ((p - 1 + 2 * (nlc (upto r (p - 1)) + (if c =? 10 then 1 else 0)) + 1) + 1) by (destruct (c =? 10); lia).
      rewrite at_S by lia. reflexivity.
Qed.

Theorem sigma_after_lf D p : 0 <= p < len D -> at_ D p = 10 ->
  at_ (quote D) (sigma D p + 1) = 62 \/ len (quote D) <= sigma D p + 1.
Proof.
  intros Hp Ha. destruct (Z.eq_dec (p + 1) (len D)) as [E|N].
  - right. assert (Dne : D <> []) by (intros E0; rewrite E0 in Hp; change (len (@nil Z)) with 0 in Hp; lia).
    rewrite (len_quote_epsB D Dne). unfold epsB. destruct (Z.leb_spec (len D) 0); [lia|]. replace (len D - 1) with p by lia. lia.
  - left. unfold quote, sigma, nl. apply (quoteAux_after_lf D true p); [lia|lia|exact Ha].
Qed.

(* the instance of the inline pass: sD a region of D, the whole of quote D as the quoted source *)
Theorem GapNoParen_quote D o sD : 0 <= o -> o + len sD <= len D ->
  (forall x, 0 <= x < len sD -> at_ sD x = at_ D (o + x)) -> GapNoParen sD (quote D) (sgO D o).
Proof.
  intros Ho Hend Hat x Hx Ha. rewrite Hat in Ha by exact Hx.
  assert (Es : sgO D o x = sigma D (o + x)) by (unfold sgO; cbv zeta; destruct (Z.ltb_spec (o + x) 0); [lia|reflexivity]).
  rewrite Es. destruct (sigma_after_lf D (o + x) ltac:(lia) Ha) as [E|E]; [rewrite E; discriminate|].
  rewrite at_beyond by exact E. discriminate.
Qed.
Print Assumptions GapNoParen_quote.

(* sanity: the statement on an example *)
Example gap_example : let D := [97;10;98;10] in at_ (quote D) (sigma D 1 + 1) = 62 /\ len (quote D) <= sigma D 3 + 1.
Proof. vm_compute. split; [reflexivity|discriminate]. Qed.
