From Coq Require Import List ZArith Lia Bool String Ascii.
Import ListNotations.
Require Import Base Tables Utf8 Tree Recog Inl3b Driver Inl3e Render Safe MainTok C17bytes C17chk ChkB ChkW8 T30test.
Open Scope Z_scope.
Definition cr := [13]. Definition tab := [9].
Definition refs : list bytes := [
  bs "[a]: b" ++ nl ++ bs "[c]: d" ++ nl ++ bs "text";
  bs "[a]: b 'title'" ++ nl ++ bs "rest";
  bs "[a]:" ++ nl ++ bs "b" ++ nl ++ bs "'tit" ++ nl ++ bs "le'" ++ nl ++ bs "rest";
  bs "> [a]: b" ++ nl ++ bs "> rest";
  bs "- [a]: b" ++ nl ++ bs "  rest";
  bs "[a]: b" ++ cr ++ nl ++ bs "rest" ++ cr ++ nl;
  bs "[a]: b" ++ cr ++ bs "rest";
  bs "[a]: <b>" ++ nl ++ tab ++ bs "x";
  bs "- [a]: b" ++ nl ++ tab ++ bs "text";
  bs "  [a]: b" ++ nl ++ bs "  'x'" ++ nl ++ bs "  y";
  bs "[a]: b" ++ nl ++ bs "'unterminated" ++ nl ++ bs "text";
  bs "[a]: b ""t"" junk" ++ nl ++ bs "more";
  bs "[a]: b" ++ nl ++ bs "===" ++ nl ++ bs "x";
  bs "x" ++ nl ++ bs "[a]: b" ++ nl ++ bs "===";
  bs "[a]: b" ++ nl ++ nl ++ nl ++ bs "[c]: d";
  bs "[a]: b";
  bs "[a]: b" ++ nl ++ bs "[c]: d";
  bs "[a]: b" ++ nl ++ bs "  " ++ nl ++ bs "x";
  bs "> [a]: b" ++ nl ++ bs "rest lazy";
  bs "[a]: b" ++ [0] ++ nl ++ [0] ++ bs "rest";
  bs "[a" ++ nl ++ bs "b]: c" ++ nl ++ bs "d";
  bs "[a]: b" ++ nl ++ bs "[c]: d 'x" ++ nl ++ bs "y' z" ++ nl ++ bs "w";
  bs "* [a]: b" ++ nl ++ bs "  c" ++ nl ++ bs "* d";
  bs "[a]: b" ++ nl ++ bs "# h";
  bs "1. [a]: b" ++ nl ++ bs "   <div>" ++ nl ++ bs "   x"
].
Eval vm_compute in map entryBounds refs.
Eval vm_compute in map blocksOK refs.
Eval vm_compute in map (chkDoc c0) refs.
