From Coq Require Import List ZArith Lia Bool.
Import ListNotations.
Require Import Base Tables Utf8 Tree Rdr Link Collect Html Recog Inl3a Inl3b Inl3c Inl3d Inl3e LP Rules Starts Driver Props.
Require L2Kind2 En2OK.
Require Import L2CC BShDef BlockShapes BlockShapesNul BlockShapesAll ComposeBase LADef LA1 LA13 LAOcp LinesAccounted C13Full.
Require Import ExInv1 ExOcp ExInv2 ExDrv ExemptInfo ExemptDefs.
Open Scope Z_scope.

(* ================================================================================================
   T52: the exempt entries of C13Full (info strings of fenced code blocks, label / destination / title entries of link
   reference definitions) satisfy Props.shapesI for every input; hence Props.C13_statement for every input.
   ================================================================================================ *)

(* the block layer *)
Theorem exempt_parseBlocks : forall input, Forall (fun r => exemptOK (rb_src r) (rb_blk r) = true) (fst (parseBlocks input)).
Proof.
  intros input.
  pose proof (parseBlocks_okRX input) as H1. pose proof (parseBlocks_block_shapes input) as H2.
  pose proof (parseBlocks_rootLA (fun _ => True) ltac:(intros; apply OcpLoopSpec_all) ltac:(auto) ltac:(auto) input I) as H3.
  pose proof (L2Kind2.parseBlocks_kinds input) as H4.
  rewrite Forall_forall in *. intros r Hr.
  destruct (H1 r Hr) as (B & M & Hn & Es & _ & Ht & Hi & Hx).
  destruct (H3 r Hr) as (raw & _ & _ & Er & El & _ & Hla & _).
  assert (Lraw : len raw = len (rb_src r)) by (rewrite Er, En2OK.len_fillNulls; reflexivity).
  apply (exempt_tree B (rb_src r) raw (bend (rb_blk r)) Hn Es Ht Lraw (bheight (rb_blk r))); [lia|].
  split; [exact Hi|split; [exact Hx|split; [exact Hla|split; [apply H2, Hr|apply H4, Hr]]]].
Qed.
Print Assumptions exempt_parseBlocks.

(* after the inline pass *)
Theorem exempt_all : forall input, forallb (fun r => exemptOK (rb_src r) (rb_blk r)) (fst (parseFull input)) = true.
Proof.
  intros input. unfold parseFull.
  pose proof (exempt_parseBlocks input) as H1. pose proof (L2Kind2.parseBlocks_kinds input) as H2.
  destruct (parseBlocks input) as [roots code]. cbn [fst] in *.
  apply forallb_forall. intros r Hr. apply in_map_iff in Hr. destruct Hr as (r0 & <- & Hr0). cbn [rb_src rb_blk].
  rewrite Forall_forall in H1, H2. apply exempt_rewrite; [apply H2, Hr0|apply H1, Hr0].
Qed.
Print Assumptions exempt_all.

Theorem C13_full : C13_statement.
Proof. exact (C13_of_exempt exempt_all). Qed.
Print Assumptions C13_full.
