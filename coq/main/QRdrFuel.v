(* QRdrFuel.v -- T58: the loop of onCloseParagraph does not depend on the fuel of the reader loops, once that fuel exceeds the
   potential of the reader (IFLink / IFCollect).  Used to run the loop on sD with the (larger) reader fuel of sQ. *)
From Coq Require Import List ZArith Lia Bool.
Import ListNotations.
Require Import Base Tree Rdr Link Collect LP ShapesBase ShapesR IFBase IFLink IFCollect.
Open Scope Z_scope.

Lemma ibudget_from l i : ibudget (from_ l i) <= ibudget l.
Proof. unfold from_. rewrite <- (firstn_skipn (Z.to_nat i) l) at 2. rewrite ibudget_app. pose proof (ibudget_nonneg (firstn (Z.to_nat i) l)). lia. Qed.

Section RF.
  Variable src : bytes.
  Variables F1 F2 : nat.

  Lemma ocp_rfuel : forall n orig orph r res, PL src r -> spW src (bik orig) = true ->
    len src + ibudget (bik orig) < Z.of_nat F1 -> len src + ibudget (bik orig) < Z.of_nat F2 -> nu src r < Z.of_nat F1 -> nu src r < Z.of_nat F2 ->
    ocp_loop n F1 src orig orph r res = ocp_loop n F2 src orig orph r res.
  Proof.
    induction n as [|n IH]; intros orig orph r res HP Hw Hb1 Hb2 Hn1 Hn2; [reflexivity|]. cbn [ocp_loop]. cbv zeta.
    rewrite (parseLinkLabel_fuel src F1 F2 r HP Hn1 Hn2). pose proof (parseLinkLabel_prog src F2 r HP) as (P1 & _ & N1 & _).
    destruct (parseLinkLabel F2 r) as [[ls li] r1]. cbn [snd] in P1, N1. destruct (negb (spanValid ls)); [reflexivity|].
    pose proof (cur_facts src r1 P1) as (P2 & N2 & _). destruct (current r1) as [c r2]. cbn [snd] in P2, N2. destruct (negb (c =? 58)); [reflexivity|].
    pose proof (next_W src r2 P2) as (P3 & _ & N3 & _). destruct (next r2) as [ok3 r3]. cbn [snd] in P3, N3.
    rewrite (skipLinkSpace_fuel src F1 F2 r3 P3) by lia. pose proof (skipLinkSpace_prog src F2 r3 P3) as (P4 & _ & N4 & _).
    destruct (skipLinkSpace F2 r3) as [ok4 r4]. cbn [snd] in P4, N4. destruct (negb ok4); [reflexivity|].
    rewrite (parseLinkDestination_fuel src F1 F2 r4 P4) by lia. pose proof (parseLinkDestination_prog src F2 r4 P4) as (P5 & _ & N5 & _).
    destruct (parseLinkDestination F2 r4) as [[ds dt] r5]. cbn [snd] in P5, N5. destruct (negb (spanValid ds)); [reflexivity|].
    rewrite (readEOL_fuel src F1 F2 r5 P5) by lia. pose proof (readEOL_prog src F2 r5 P5) as (P6 & _ & N6 & _).
    destruct (readEOL F2 r5) as [destEOL r6]. cbn [snd] in P6, N6.
    pose proof (cur_facts src r6 P6) as (P7 & N7 & _). destruct (current r6) as [c6 r7]. cbn [snd] in P7, N7.
    destruct (_ && _ && _); [reflexivity|].
    rewrite (transformLinkReferenceSpan_fuel src F1 F2 (bik orig) (fst li) (snd li) Hw Hb1 Hb2).
    rewrite (collectTextNodes_new_fuel src F1 F2 (bik orig) (fst li) (snd li) TextKind false Hw Hb1 Hb2).
    rewrite (collectTextNodes_new_fuel src F1 F2 (bik orig) (fst dt) (snd dt) TextKind true Hw Hb1 Hb2).
    rewrite (skipLinkSpace_fuel src F1 F2 r7 P7) by lia. pose proof (skipLinkSpace_prog src F2 r7 P7) as (P8 & _ & N8 & _).
    destruct (skipLinkSpace F2 r7) as [ok8 r8]. cbn [snd] in P8, N8. destruct (negb ok8); [reflexivity|].
    rewrite (parseLinkTitle_fuel src F1 F2 r8 P8) by lia. pose proof (parseLinkTitle_prog src F2 r8 P8) as (P9 & _ & N9 & _).
    destruct (parseLinkTitle F2 r8) as [[ts tt] r9]. cbn [snd] in P9, N9.
    assert (Hrec : forall x resx pos, PL src x -> nu src x <= nu src r ->
              ocp_loop n F1 src (set_bik (set_bstart orig pos) (from_ (bik orig) (nodeIndexForPosition (bik orig) pos))) orph x resx =
              ocp_loop n F2 src (set_bik (set_bstart orig pos) (from_ (bik orig) (nodeIndexForPosition (bik orig) pos))) orph x resx).
    { intros x resx pos Px Nx. assert (Eb : bik (set_bik (set_bstart orig pos) (from_ (bik orig) (nodeIndexForPosition (bik orig) pos))) = from_ (bik orig) (nodeIndexForPosition (bik orig) pos)) by (destruct orig; reflexivity).
      pose proof (ibudget_from (bik orig) (nodeIndexForPosition (bik orig) pos)).
      apply IH; [exact Px|rewrite Eb; apply spW_from, Hw|rewrite Eb; lia|rewrite Eb; lia|lia|lia]. }
    destruct (negb (spanValid ts)).
    { destruct (destEOL <? 0); [reflexivity|]. destruct (_ <? 0); [reflexivity|]. apply Hrec; [exact P6|lia]. }
    rewrite (readEOL_fuel src F1 F2 r9 P9) by lia. pose proof (readEOL_prog src F2 r9 P9) as (P10 & _ & N10 & _).
    destruct (readEOL F2 r9) as [titleEOL r10]. cbn [snd] in P10, N10.
    destruct (titleEOL <? 0); [reflexivity|].
    rewrite (collectTextNodes_new_fuel src F1 F2 (bik orig) (fst tt) (snd tt) TextKind true Hw Hb1 Hb2).
    destruct (_ <? 0); [reflexivity|]. apply Hrec; [exact P10|lia].
  Qed.
End RF.
Print Assumptions ocp_rfuel.
