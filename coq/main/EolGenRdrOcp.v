(* C14 (i), final newline: the two-run commutation of LP.onCloseParagraph.
     onCloseParagraph (src ++ [10]) (finB (len src) b) = map (finB (len src)) (onCloseParagraph src b)
   for a paragraph-kind leaf b whose entries satisfy the components of the invariant LADef.la. *)
From Coq Require Import List ZArith Lia Bool.
Import ListNotations.
Require Import Base Tree Rdr Link Collect LP ShapesBase ShapesR IFBase IFLink IFCollect IFTitle EolFinalDefs LADef
  EolGenRdrBase EolGenRdrLink EolGenRdrCollect EolGenRdrFuel.
Open Scope Z_scope.

Lemma finB_refDef L s e kids : finB L (refDefBlock s e kids) = refDefBlock s (bump L e) kids.
Proof. reflexivity. Qed.

Section G.
Variable src : bytes.
Local Notation L := (len src).
Local Notation src2 := (src ++ [10]).
Hypothesis HL : 0 < L.
Hypothesis Hlast : isEOLz (at_ src (L - 1)) = false.
Set Default Proof Using "All".
Local Notation Rin := (Rin src).
Local Notation T0 := (T0 src).
Local Notation T1 := (T1 src).
Local Notation E1 := (E1 src).
Local Notation E2 := (E2 src).
Local Notation A2 := (A2 src).
Local Notation Rel0 := (Rel0 src).
Local Notation Rel := (Rel src).
Local Notation GS := (GS src).
Local Notation bsp := (bsp src).
Local Notation F := (finB L).

Lemma bsp_same ik : Forall (fun u => iend u <> L) ik -> bsp ik = ik.
Proof. induction 1 as [|u r Hu Hr IH]; [reflexivity|]. unfold EolGenRdrBase.bsp in *. cbn [map]. rewrite IH, (bumpI_same L u Hu). reflexivity. Qed.

Definition OI (o1 o2 : block) : Prop :=
  exists K s e ik a n c l lb, o1 = Blk K s e [] ik a n c l lb /\ o2 = Blk K s (bump L e) [] (bsp ik) a n c l lb /\ GS ik /\
    (K = ParagraphKind \/ (K = SetextHeadingKind /\ Forall (fun u => iend u <> L) ik)).
Lemma OI_finB o1 o2 : OI o1 o2 -> F o1 = o2.
Proof.
  intros (K & s & e & ik & a & n & c & l & lb & -> & -> & HG & [->|[-> Hf]]).
  - reflexivity.
  - rewrite (bsp_same ik Hf). reflexivity.
Qed.
Lemma OI_bik o1 o2 : OI o1 o2 -> bik o2 = bsp (bik o1) /\ GS (bik o1).
Proof. intros (K & s & e & ik & a & n & c & l & lb & -> & -> & HG & _). split; [reflexivity|exact HG]. Qed.
Lemma OI_cut o1 o2 pos fc : OI o1 o2 ->
  OI (set_bik (set_bstart o1 pos) (from_ (bik o1) fc)) (set_bik (set_bstart o2 pos) (from_ (bik o2) fc)).
Proof.
  intros (K & s & e & ik & a & n & c & l & lb & -> & -> & HG & HK). cbn [set_bik set_bstart bik].
  exists K, pos, e, (from_ ik fc), a, n, c, l, lb. split; [reflexivity|]. split; [unfold EolGenRdrBase.bsp; rewrite from_map; reflexivity|].
  split; [apply (GS_from src HL Hlast), HG|]. destruct HK as [HK|[HK Hf]]; [left; exact HK|right; split; [exact HK|]].
  unfold from_. rewrite <- (firstn_skipn (Z.to_nat fc) ik) in Hf. apply Forall_app in Hf. tauto.
Qed.

Lemma exit_a res o1 o2 : F o1 = o2 -> map F res ++ [o2] = map F (res ++ [o1]).
Proof. intros <-. rewrite map_app. reflexivity. Qed.
Lemma exit_b res rd1 rd2 (orphan : option block) : F rd1 = rd2 ->
  match option_map F orphan with Some o => (map F res ++ [rd2]) ++ [o] | None => map F res ++ [rd2] end =
  map F (match orphan with Some o => (res ++ [rd1]) ++ [o] | None => res ++ [rd1] end).
Proof. intros <-. destruct orphan as [o|]; cbn [option_map]; rewrite !map_app; reflexivity. Qed.
Lemma exit_d res rd1 rd2 o1 o2 : F rd1 = rd2 -> F o1 = o2 -> map F res ++ [rd2] ++ [o2] = map F (res ++ [rd1] ++ [o1]).
Proof. intros <- <-. rewrite !map_app. reflexivity. Qed.
Lemma res_ext res rd1 rd2 : F rd1 = rd2 -> map F res ++ [rd2] = map F (res ++ [rd1]).
Proof. intros <-. rewrite map_app. reflexivity. Qed.

Lemma Rel0_current58 r1 r2 : Rel0 r1 r2 ->
  (fst (current r2) =? 58) = (fst (current r1) =? 58) /\
  ((fst (current r1) =? 58) = true -> Rin (snd (current r1)) (snd (current r2))).
Proof.
  intros [H|H].
  - pose proof (Rin_current src HL Hlast r1 r2 H) as (Ec & H1 & _). rewrite Ec. split; [reflexivity|intros _; exact H1].
  - destruct H as (HE & HA & _). rewrite (E1_current src HL Hlast r1 HE), (A2_current src HL Hlast r2 HA). cbn [fst]. split; [reflexivity|discriminate].
Qed.
Lemma T1_sls f r1 r2 : T1 r1 r2 -> fst (skipLinkSpace f r1) = false /\ fst (skipLinkSpace f r2) = false.
Proof.
  intros (HE & HE2). unfold skipLinkSpace. rewrite (E1_current src HL Hlast r1 HE), (E2_current src HL Hlast r2 HE2). split; reflexivity.
Qed.
Lemma T1_current r1 r2 : T1 r1 r2 -> T1 (snd (current r1)) (snd (current r2)).
Proof. intros (HE & HE2). rewrite (E1_current src HL Hlast r1 HE), (E2_current src HL Hlast r2 HE2). split; assumption. Qed.
Lemma T1_PL2 r1 r2 : T1 r1 r2 -> PL src2 r2.
Proof. intros (_ & A & B & C). split; [exact A|rewrite C; reflexivity]. Qed.
Lemma Rel_PL2 r1 r2 : Rel r1 r2 -> PL src2 r2.
Proof. intros [H|[H|H]]; [apply (Rin_PL2 src HL Hlast r1 r2 H)|apply (A2_PL src HL Hlast), H|apply (T1_PL2 r1 r2 H)]. Qed.
Lemma bump_lt e : e < L -> bump L e = e.
Proof. intros H. unfold bump. destruct (Z.eqb_spec e L); [lia|reflexivity]. Qed.
Lemma bump_L : bump L L = L + 1.
Proof. unfold bump. rewrite Z.eqb_refl. reflexivity. Qed.

Lemma nip_bump sp p : GS sp -> p < L -> nodeIndexForPosition (bsp sp) p = nodeIndexForPosition sp p.
Proof. intros HG Hp. unfold nodeIndexForPosition. apply (nodeIdx_bump src HL Hlast); assumption. Qed.

Lemma g_ocp_loop : forall f rf orig1 orig2 orphan r1 r2 res,
  Rin r1 r2 -> nu src2 r2 < Z.of_nat rf -> OI orig1 orig2 ->
  ocp_loop f rf src2 orig2 (option_map F orphan) r2 (map F res) = map F (ocp_loop f rf src orig1 orphan r1 res).
Proof.
  induction f as [|f IH]; intros rf orig1 orig2 orphan r1 r2 res H Hnu HO.
  { cbn [ocp_loop]. apply exit_a, OI_finB, HO. }
  pose proof (OI_finB _ _ HO) as EF. destruct (OI_bik _ _ HO) as [Ebik HG].
  assert (HOC : forall pos fc, OI (set_bik (set_bstart orig1 pos) (from_ (bik orig1) fc)) (set_bik (set_bstart orig2 pos) (from_ (bsp (bik orig1)) fc))).
  { intros pos fc. rewrite <- Ebik. apply OI_cut, HO. }
  cbn [ocp_loop]. cbv zeta. rewrite Ebik.
  (* label *)
  pose proof (g_parseLinkLabel src HL Hlast rf r1 r2 H) as (Efst & Hval).
  pose proof (parseLinkLabel_prog src2 rf r2 (Rin_PL2 src HL Hlast r1 r2 H)) as (Pa & _ & Na & _).
  destruct (parseLinkLabel rf r1) as [[lspan linner] ra]. destruct (parseLinkLabel rf r2) as [[lspan' linner'] ra'].
  cbn [fst snd] in Efst, Hval, Pa, Na. inversion Efst; subst lspan' linner'. clear Efst.
  destruct (spanValid lspan) eqn:Ev; cbn [negb]; [|apply exit_a, EF].
  destruct (Hval eq_refl) as (Ha & Hli). clear Hval.
  (* the colon *)
  pose proof (Rel0_current58 ra ra' Ha) as (E58 & Hb).
  pose proof (prog_current src2 ra' Pa) as (Pb & _ & Nb & _).
  destruct (current ra) as [c rb]. destruct (current ra') as [c' rb']. cbn [fst snd] in E58, Hb, Pb, Nb. rewrite E58.
  destruct (c =? 58); cbn [negb]; [|apply exit_a, EF]. specialize (Hb eq_refl).
  pose proof (Rin_next src HL Hlast rb rb' Hb) as HN.
  pose proof (prog_next src2 rb' Pb) as (Pc & _ & Nc & _).
  destruct (next rb) as [okn rc]. destruct (next rb') as [okn' rc']. cbn [fst snd] in HN, Pc, Nc.
  assert (Hc : Rel rc rc') by (destruct HN as [(_ & A & _)|(_ & _ & A & _)]; [left; exact A|right; left; exact A]). clear HN.
  (* space before the destination *)
  pose proof (g_skipLinkSpace src HL Hlast rf rc rc' Hc ltac:(lia)) as (Eok & Hd).
  pose proof (skipLinkSpace_prog src2 rf rc' Pc) as (Pd & _ & Nd & _).
  destruct (skipLinkSpace rf rc) as [ok rd]. destruct (skipLinkSpace rf rc') as [ok' rd']. cbn [fst snd] in Eok, Hd, Pd, Nd. subst ok'.
  destruct ok; cbn [negb]; [|apply exit_a, EF].
  destruct Hd as [Hd|[Hd _]]; [|discriminate Hd].
  (* destination *)
  pose proof (g_parseLinkDestination src HL Hlast rf rd rd' Hd) as (Efst & Hval).
  pose proof (parseLinkDestination_prog src2 rf rd' Pd) as (Pe & _ & Ne & _).
  destruct (parseLinkDestination rf rd) as [[dspan dtext] re]. destruct (parseLinkDestination rf rd') as [[dspan' dtext'] re'].
  cbn [fst snd] in Efst, Hval, Pe, Ne. inversion Efst; subst dspan' dtext'. clear Efst.
  destruct (spanValid dspan) eqn:Evd; cbn [negb]; [|apply exit_a, EF].
  destruct (Hval eq_refl) as (He & Hdi). clear Hval.
  destruct (Rel0_pos src HL Hlast re re' He) as [Epe _]. rewrite Epe.
  (* end of the destination line *)
  pose proof (g_readEOL src HL Hlast rf re re' He ltac:(lia)) as HR.
  pose proof (readEOL_prog src2 rf re' Pe) as (Pf & _ & Nf & _).
  destruct (readEOL rf re) as [destEOL r6]. destruct (readEOL rf re') as [destEOL' r6']. cbn [fst snd] in HR, Pf, Nf.
  rewrite !(g_transformLinkReferenceSpan src HL Hlast rf (bik orig1) _ _ HG Hli).
  rewrite !(g_collectTextNodes src HL Hlast rf (bik orig1) _ _ _ _ HG Hli).
  rewrite !(g_collectTextNodes src HL Hlast rf (bik orig1) _ _ _ _ HG Hdi).
  destruct HR as [(Ee & Hlt & H6)|(Ee1 & Ee2 & HT1)].
  2:{ (* the definition ends with the input *)
      subst destEOL destEOL'. destruct HT1 as (HE & HE2).
      rewrite (E1_current src HL Hlast r6 HE), (E2_current src HL Hlast r6' HE2).
      destruct (Z.ltb_spec L 0) as [Hx|_]; [lia|]. destruct (Z.ltb_spec (L + 1) 0) as [Hx|_]; [lia|]. cbn [andb].
      destruct (T1_sls rf r6 r6' (conj HE HE2)) as [A B].
      destruct (skipLinkSpace rf r6) as [ok2 r8]. destruct (skipLinkSpace rf r6') as [ok2' r8']. cbn [fst] in A, B. subst ok2 ok2'. cbn [negb].
      apply exit_b. rewrite finB_refDef, bump_L. reflexivity. }
  subst destEOL'.
  pose proof (Rin_current src HL Hlast r6 r6' H6) as (Ec6 & H7 & _).
  pose proof (prog_current src2 r6' Pf) as (P7 & _ & N7 & _).
  destruct (Rin_pos src HL Hlast r6 r6' H6) as [Ep6 Hp6]. rewrite Ep6.
  destruct (current r6) as [c6 r7]. destruct (current r6') as [c6' r7']. cbn [fst snd] in Ec6, H7, P7, N7. subst c6'.
  destruct (_ && _ && _); [apply exit_a, EF|].
  assert (Erd : F (refDefBlock (fst lspan) destEOL
       [Inl LinkLabelKind (fst linner) (snd linner) 0 (transformLinkReferenceSpan rf src (bik orig1) (fst linner) (snd linner))
          (collectTextNodes rf (newReader src (bik orig1) (fst linner)) (snd linner) TextKind false);
        Inl LinkDestinationKind (fst dspan) (snd dspan) 0 [] (collectTextNodes rf (newReader src (bik orig1) (fst dtext)) (snd dtext) TextKind true)]) =
     refDefBlock (fst lspan) destEOL
       [Inl LinkLabelKind (fst linner) (snd linner) 0 (transformLinkReferenceSpan rf src (bik orig1) (fst linner) (snd linner))
          (collectTextNodes rf (newReader src (bik orig1) (fst linner)) (snd linner) TextKind false);
        Inl LinkDestinationKind (fst dspan) (snd dspan) 0 [] (collectTextNodes rf (newReader src (bik orig1) (fst dtext)) (snd dtext) TextKind true)]).
  { rewrite finB_refDef, bump_lt by exact Hlt. reflexivity. }
  (* space before the title *)
  pose proof (g_skipLinkSpace src HL Hlast rf r7 r7' (or_introl H7) ltac:(lia)) as (Eok2 & H8).
  pose proof (skipLinkSpace_prog src2 rf r7' P7) as (P8 & _ & N8 & _).
  destruct (skipLinkSpace rf r7) as [ok2 r8]. destruct (skipLinkSpace rf r7') as [ok2' r8']. cbn [fst snd] in Eok2, H8, P8, N8. subst ok2'.
  destruct ok2; cbn [negb]; [|apply exit_b, Erd].
  destruct H8 as [H8|[H8 _]]; [|discriminate H8].
  (* title *)
  pose proof (g_parseLinkTitle src HL Hlast rf r8 r8' H8) as (Efst & Hval).
  pose proof (parseLinkTitle_prog src2 rf r8' P8) as (P9 & _ & N9 & _).
  destruct (parseLinkTitle rf r8) as [[tspan ttext] r9]. destruct (parseLinkTitle rf r8') as [[tspan' ttext'] r9'].
  cbn [fst snd] in Efst, Hval, P9, N9. inversion Efst; subst tspan' ttext'. clear Efst.
  rewrite (nip_bump (bik orig1) (r_pos r6) HG Hp6).
  destruct (spanValid tspan) eqn:Evt; cbn [negb].
  2:{ destruct (destEOL <? 0); [apply exit_a, EF|].
      destruct (_ <? 0); [apply exit_b, Erd|].
      rewrite (res_ext _ _ _ Erd). apply IH; [exact H6|lia|apply HOC]. }
  destruct (Hval eq_refl) as (H9 & Hti). clear Hval.
  pose proof (g_readEOL src HL Hlast rf r9 r9' H9 ltac:(lia)) as HR.
  pose proof (readEOL_prog src2 rf r9' P9) as (P10 & _ & N10 & _).
  destruct (readEOL rf r9) as [titleEOL r10]. destruct (readEOL rf r9') as [titleEOL' r10']. cbn [fst snd] in HR, P10, N10.
  rewrite !(g_collectTextNodes src HL Hlast rf (bik orig1) _ _ _ _ HG Hti).
  destruct HR as [(Ee & Hlt' & H10)|(Ee1 & Ee2 & HT1)].
  2:{ subst titleEOL titleEOL'. destruct HT1 as ((_ & Q1 & _) & (_ & Q2 & _)). rewrite Q1, Q2.
      destruct (Z.ltb_spec L 0) as [Hx|_]; [lia|]. destruct (Z.ltb_spec (L + 1) 0) as [Hx|_]; [lia|].
      rewrite (nodeIdx_L src HL Hlast (bik orig1) HG), (nodeIdx_L2 src HL Hlast (bik orig1) HG). change (-1 <? 0) with true. cbv iota.
      apply exit_b. rewrite finB_refDef, bump_L. reflexivity. }
  subst titleEOL'. destruct (titleEOL <? 0).
  { destruct (destEOL <? 0); [apply exit_a, EF|]. destruct (nodeIndexForPosition (bik orig1) (r_pos r6) <? 0); [apply exit_b, Erd|]. apply exit_d; [exact Erd|apply OI_finB, HOC]. }
  destruct (Rin_pos src HL Hlast r10 r10' H10) as [Ep10 Hp10]. rewrite Ep10. rewrite (nip_bump (bik orig1) (r_pos r10) HG Hp10).
  match goal with |- context [refDefBlock (fst lspan) titleEOL ?k] =>
    assert (Enb : F (refDefBlock (fst lspan) titleEOL k) = refDefBlock (fst lspan) titleEOL k) by (rewrite finB_refDef, bump_lt by exact Hlt'; reflexivity) end.
  destruct (_ <? 0); [apply exit_b, Enb|].
  rewrite (res_ext _ _ _ Enb). apply IH; [exact H10|lia|apply HOC].
Qed.
End G.
Print Assumptions g_ocp_loop.
