From Coq Require Import List ZArith Lia Bool.
Import ListNotations.
Require Import Base Tree Rdr Link Collect Html Recog LP Rules Starts Driver.
Open Scope Z_scope.

(* Entry kinds per block kind, carried through the whole block layer:
   Unparsed entries never sit in a code block; Text, SoftLineBreak and InfoString entries only sit in code blocks
   (InfoString: fenced only); leaf kinds have no children. *)
Definition kidless (u : inline) : bool := match ikids u with [] => true | _ => false end.
Definition ek (K : Z) (u : inline) : bool :=
  let k := ikind u in
  if k =? UnparsedKind then kidless u && negb (isCode K)
  else if (k =? TextKind) || (k =? SoftLineBreakKind) then kidless u && isCode K
  else if (k =? RawHTMLKind) || (k =? IndentKind) then kidless u
  else if k =? InfoStringKind then K =? FencedCodeBlockKind
  else (k =? LinkLabelKind) || (k =? LinkDestinationKind) || (k =? LinkTitleKind).

Fixpoint inv (b : block) : bool :=
  match b with Blk K _ _ bk ik _ _ _ _ _ => forallb (ek K) ik && forallb inv bk end.
Definition invL (l : list block) : bool := forallb inv l.

Lemma ek_shift K n u : ek K (shiftI n u) = ek K u.
Proof. destruct u as [k s e ind r ks]. unfold ek, kidless. cbn [shiftI ikind ikids]. destruct ks; reflexivity. Qed.
Lemma ek_info K src s e : K = FencedCodeBlockKind -> ek K (parseInfoString src s e) = true.
Proof. intros ->. unfold parseInfoString. destruct (infoString_loop _ _ _ _ _ _). reflexivity. Qed.
Lemma ek_move K K' u : isCode K = false -> isCode K' = false -> ek K u = true -> ek K' u = true.
Proof.
  intros H1 H2. unfold ek. cbv zeta. rewrite H1, H2.
  destruct (_ =? UnparsedKind); [tauto|]. destruct (_ || _); [rewrite andb_false_r; discriminate|].
  destruct (_ || _); [tauto|]. destruct (_ =? InfoStringKind); [|tauto].
  intros H. apply Z.eqb_eq in H. subst K. discriminate.
Qed.

Lemma inv_eq b : inv b = forallb (ek (bkind b)) (bik b) && invL (bkids b).
Proof. destruct b; reflexivity. Qed.
Lemma inv_parts b : inv b = true -> forallb (ek (bkind b)) (bik b) = true /\ invL (bkids b) = true.
Proof. rewrite inv_eq. apply andb_true_iff. Qed.

Lemma inv_set_bend b v : inv (set_bend b v) = inv b. Proof. destruct b; reflexivity. Qed.
Lemma inv_set_bstart b v : inv (set_bstart b v) = inv b. Proof. destruct b; reflexivity. Qed.
Lemma inv_set_bn b v : inv (set_bn b v) = inv b. Proof. destruct b; reflexivity. Qed.
Lemma inv_set_bchar b v : inv (set_bchar b v) = inv b. Proof. destruct b; reflexivity. Qed.
Lemma inv_set_bindent b v : inv (set_bindent b v) = inv b. Proof. destruct b; reflexivity. Qed.
Lemma inv_set_bloose b v : inv (set_bloose b v) = inv b. Proof. destruct b; reflexivity. Qed.
Lemma inv_set_blast b v : inv (set_blast b v) = inv b. Proof. destruct b; reflexivity. Qed.
Lemma inv_set_bkind b K' : isCode (bkind b) = false -> isCode K' = false -> inv b = true -> inv (set_bkind b K') = true.
Proof.
  intros H1 H2 H. apply inv_parts in H. destruct H as [Hi Hk]. destruct b as [K s e bk ik a n c l lb].
  unfold invL in *. cbn [inv set_bkind bkind bik bkids] in *. rewrite Hk, andb_true_r.
  rewrite forallb_forall in *. intros u Hu. eapply ek_move; [exact H1|exact H2|apply Hi, Hu].
Qed.
Lemma inv_set_bkids b ks : inv b = true -> invL ks = true -> inv (set_bkids b ks) = true.
Proof. intros H Hk. apply inv_parts in H. destruct H as [H _]. destruct b. unfold invL in *. cbn [inv set_bkids bik bkids bkind] in *. rewrite H, Hk. reflexivity. Qed.
Lemma inv_set_bik b ik : inv b = true -> forallb (ek (bkind b)) ik = true -> inv (set_bik b ik) = true.
Proof. intros H Hk. apply inv_parts in H. destruct H as [_ H]. destruct b. unfold invL in *. cbn [inv set_bik bik bkids bkind] in *. rewrite H, Hk. reflexivity. Qed.
Lemma inv_add_ik b u : inv b = true -> ek (bkind b) u = true -> inv (set_bik b (bik b ++ [u])) = true.
Proof.
  intros H Hu. apply inv_set_bik; [assumption|]. apply inv_parts in H. destruct H as [H _].
  rewrite forallb_app, H. cbn. rewrite Hu. reflexivity.
Qed.
Lemma ek_indent K s e ind : ek K (Inl IndentKind s e ind [] []) = true. Proof. reflexivity. Qed.
Lemma ek_raw K s e : ek K (mkI RawHTMLKind s e) = true. Proof. reflexivity. Qed.

Lemma invL_app a b : invL (a ++ b) = invL a && invL b. Proof. apply forallb_app. Qed.
Lemma forallb_sub {A} (p : A -> bool) l l' : (forall x, In x l' -> In x l) -> forallb p l = true -> forallb p l' = true.
Proof. intros Hs H. rewrite forallb_forall in *. auto. Qed.
Lemma removelast_In {A} (l : list A) x : In x (removelast l) -> In x l.
Proof.
  induction l as [|y l IH]; [intros []|]. destruct l as [|z l]; [intros []|].
  change (removelast (y :: z :: l)) with (y :: removelast (z :: l)). intros [->|H]; [left; reflexivity|right; apply IH, H].
Qed.
Lemma invL_removelast l : invL l = true -> invL (removelast l) = true.
Proof. apply forallb_sub. intros x. apply removelast_In. Qed.
Lemma lastBlock_In b c : lastBlock b = Some c -> In c (bkids b).
Proof.
  unfold lastBlock. intros H. destruct (rev (bkids b)) as [|x r] eqn:Er; [discriminate|]. inversion H; subst.
  apply in_rev. rewrite Er. left. reflexivity.
Qed.
Lemma inv_lastBlock b c : inv b = true -> lastBlock b = Some c -> inv c = true.
Proof.
  intros H Hl. apply inv_parts in H. destruct H as [_ H]. unfold invL in H. rewrite forallb_forall in H.
  apply H. eapply lastBlock_In. exact Hl.
Qed.
Lemma inv_set_lastBlocks b repl : inv b = true -> invL repl = true -> inv (set_lastBlocks b repl) = true.
Proof.
  intros H Hr. unfold set_lastBlocks. apply inv_set_bkids; [assumption|].
  rewrite invL_app, Hr, andb_true_r. apply invL_removelast. apply inv_parts in H. tauto.
Qed.

(* right-spine update *)
Lemma inv_updAt f : (forall b, inv b = true -> inv (f b) = true) ->
  forall d b, inv b = true -> inv (updAt d f b) = true.
Proof.
  intros Hf. induction d as [|d IH]; intros b H; [apply Hf; assumption|]. cbn [updAt].
  destruct (lastBlock b) as [c|] eqn:El; [|assumption].
  apply inv_set_lastBlocks; [assumption|]. unfold invL. cbn [forallb]. rewrite andb_true_r.
  apply IH. eapply inv_lastBlock; eassumption.
Qed.



(* the update reaches exactly the block getAt finds *)
Lemma inv_updAt_at f : forall d b, inv b = true ->
  (forall x, getAt d b = Some x -> inv x = true -> inv (f x) = true) -> inv (updAt d f b) = true.
Proof.
  induction d as [|d IH]; intros b H Hf; [apply Hf; [reflexivity|assumption]|]. cbn [updAt].
  destruct (lastBlock b) as [c|] eqn:El; [|assumption].
  apply inv_set_lastBlocks; [assumption|]. unfold invL. cbn [forallb]. rewrite andb_true_r.
  apply IH; [eapply inv_lastBlock; eassumption|]. intros x Hx. apply Hf. cbn [getAt]. rewrite El. exact Hx.
Qed.

Lemma lastBlock_set_last b c' : bkids b <> [] -> lastBlock (set_lastBlocks b [c']) = Some c'.
Proof.
  intros _. unfold lastBlock, set_lastBlocks. destruct b as [K s e bk ik a n ch l lb]. cbn [set_bkids bkids].
  rewrite rev_app_distr. reflexivity.
Qed.
Lemma getAt_updAt_same g : forall d r, getAt d (updAt d g r) = option_map g (getAt d r).
Proof.
  induction d as [|d IH]; intros r; [reflexivity|]. cbn [updAt getAt].
  destruct (lastBlock r) as [c|] eqn:El.
  - rewrite lastBlock_set_last; [apply IH|]. intros E. unfold lastBlock in El. rewrite E in El. discriminate.
  - rewrite El. reflexivity.
Qed.
Lemma getAt_S_append nb : forall d r b,
  getAt (S d) (updAt d (fun x => set_bkids x (bkids x ++ [nb])) r) = Some b -> b = nb.
Proof.
  induction d as [|d IH]; intros r b H.
  - cbn [updAt getAt] in H. unfold lastBlock in H. destruct r as [K s e bk ik a n ch l lb]. cbn [set_bkids bkids] in H.
    rewrite rev_app_distr in H. cbn in H. congruence.
  - cbn [updAt] in H. destruct (lastBlock r) as [c|] eqn:El.
    + change (getAt (S (S d)) ?x) with (match lastBlock x with Some c0 => getAt (S d) c0 | None => None end) in H.
      rewrite lastBlock_set_last in H; [apply (IH c b H)|].
      intros E. unfold lastBlock in El. rewrite E in El. discriminate.
    + change (getAt (S (S d)) r) with (match lastBlock r with Some c0 => getAt (S d) c0 | None => None end) in H.
      rewrite El in H. discriminate.
Qed.

(* ---- onClose handlers ---- *)
Lemma trimBlankTail_sub src : forall rk x, In x (trimBlankTail src rk) -> In x rk.
Proof.
  induction rk as [|c r IH]; intros x H; [exact H|]. cbn [trimBlankTail] in H.
  destruct (_ && _); [right; apply IH, H|exact H].
Qed.
Lemma bkind_set_bik b ik : bkind (set_bik b ik) = bkind b. Proof. destruct b; reflexivity. Qed.
Lemma bkind_set_bstart b v : bkind (set_bstart b v) = bkind b. Proof. destruct b; reflexivity. Qed.
Lemma bik_set_bstart b v : bik (set_bstart b v) = bik b. Proof. destruct b; reflexivity. Qed.

Lemma inv_onCloseIndented src b : inv b = true -> inv (onCloseIndented src b) = true.
Proof.
  intros H. unfold onCloseIndented. apply inv_set_bik; [assumption|].
  apply inv_parts in H. destruct H as [H _]. revert H. apply forallb_sub. intros x Hx.
  apply in_rev in Hx. apply trimBlankTail_sub in Hx. apply in_rev in Hx.
  destruct (rev (bik b)) as [|lst [|prev r]] eqn:Er; try exact Hx.
  destruct (_ && _ && _ && _); [|exact Hx].
  apply in_rev in Hx. apply in_rev. rewrite Er. right. exact Hx.
Qed.
Lemma inv_onCloseList b : inv b = true -> inv (onCloseList b) = true.
Proof.
  intros H. unfold onCloseList. cbv zeta. destruct (bloose b || _); [|assumption].
  apply inv_set_bkids; [rewrite inv_set_bloose; assumption|].
  apply inv_parts in H. destruct H as [_ H]. unfold invL in *. rewrite forallb_forall in *.
  intros x Hx. apply in_map_iff in Hx. destruct Hx as (y & <- & Hy). rewrite inv_set_bloose. apply H, Hy.
Qed.
Lemma inv_refDef s e kids : forallb (ek LinkReferenceDefinitionKind) kids = true -> inv (refDefBlock s e kids) = true.
Proof. intros H. unfold refDefBlock. cbn [inv forallb]. rewrite H. reflexivity. Qed.
Lemma from_sub {A} (l : list A) n x : In x (from_ l n) -> In x l.
Proof. unfold from_. revert l. induction (Z.to_nat n) as [|k IH]; intros l H; [exact H|]. destruct l; [exact H|]. right. apply IH, H. Qed.

Lemma inv_ocp : forall fuel rfuel src orig orphan r result,
  inv orig = true -> (match orphan with Some o => inv o = true | None => True end) -> invL result = true ->
  invL (ocp_loop fuel rfuel src orig orphan r result) = true.
Proof.
  induction fuel as [|f IH]; intros rfuel src orig orphan r result Ho Hor Hr.
  { cbn [ocp_loop]. rewrite invL_app, Hr. cbn. rewrite Ho. reflexivity. }
  assert (Hkeep : invL (result ++ [orig]) = true) by (rewrite invL_app, Hr; cbn; rewrite Ho; reflexivity).
  assert (Hwo : forall res, invL res = true -> invL (match orphan with Some o => res ++ [o] | None => res end) = true).
  { intros res Hres. destruct orphan as [o|]; [|assumption]. rewrite invL_app, Hres. cbn. rewrite Hor. reflexivity. }
  assert (Hcut : forall pos, inv (set_bik (set_bstart orig pos) (from_ (bik orig) (nodeIndexForPosition (bik orig) pos))) = true).
  { intros pos. apply inv_set_bik; [rewrite inv_set_bstart; assumption|]. rewrite bkind_set_bstart.
    apply inv_parts in Ho. destruct Ho as [Ho _]. revert Ho. apply forallb_sub. intros x. apply from_sub. }
  cbn [ocp_loop]. cbv zeta.
  destruct (parseLinkLabel rfuel r) as [[lspan linner] r1].
  destruct (negb (spanValid lspan)); [assumption|].
  destruct (current r1) as [c r2]. destruct (negb (c =? 58)); [assumption|].
  destruct (next r2) as [? r3]. destruct (skipLinkSpace rfuel r3) as [ok r4]. destruct (negb ok); [assumption|].
  destruct (parseLinkDestination rfuel r4) as [[dspan dtext] r5]. destruct (negb (spanValid dspan)); [assumption|].
  destruct (readEOL rfuel r5) as [destEOL r6]. destruct (current r6) as [c6 r7].
  destruct (_ && _ && _); [assumption|].
  set (labelInline := Inl LinkLabelKind _ _ 0 _ _). set (destInline := Inl LinkDestinationKind _ _ 0 [] _).
  assert (H2 : invL (result ++ [refDefBlock (fst lspan) destEOL [labelInline; destInline]]) = true).
  { rewrite invL_app, Hr. cbn [invL forallb andb]. rewrite inv_refDef; reflexivity. }
  destruct (skipLinkSpace rfuel r7) as [ok2 r8]. destruct (negb ok2); [apply Hwo; assumption|].
  destruct (parseLinkTitle rfuel r8) as [[tspan ttext] r9].
  destruct (negb (spanValid tspan)).
  { destruct (destEOL <? 0); [assumption|]. destruct (_ <? 0); [apply Hwo; assumption|].
    apply IH; [apply Hcut|assumption|assumption]. }
  destruct (readEOL rfuel r9) as [titleEOL r10].
  destruct (titleEOL <? 0).
  { destruct (destEOL <? 0); [assumption|]. destruct (_ <? 0); [apply Hwo; assumption|].
    rewrite app_assoc, invL_app, H2. cbn. rewrite Hcut. reflexivity. }
  set (titleInline := Inl LinkTitleKind _ _ 0 [] _).
  assert (H3 : invL (result ++ [refDefBlock (fst lspan) titleEOL [labelInline; destInline; titleInline]]) = true).
  { rewrite invL_app, Hr. cbn [invL forallb andb]. rewrite inv_refDef; reflexivity. }
  destruct (_ <? 0); [apply Hwo; assumption|]. apply IH; [apply Hcut|assumption|assumption].
Qed.

Lemma inv_onCloseParagraph src orig : inv orig = true -> invL (onCloseParagraph src orig) = true.
Proof.
  intros H. unfold onCloseParagraph. destruct (bik orig) as [|first rest] eqn:Eb; [cbn; rewrite H; reflexivity|].
  cbv zeta. rewrite <- Eb. apply inv_ocp; [assumption| |reflexivity].
  destruct (bkind orig =? SetextHeadingKind); [|exact I]. reflexivity.
Qed.

Lemma inv_closeBlock src e : forall fuel b, inv b = true -> invL (closeBlock fuel src b e) = true.
Proof.
  induction fuel as [|f IH]; intros b H; [cbn; rewrite H; reflexivity|]. cbn [closeBlock].
  destruct (negb (isOpen b)); [cbn; rewrite H; reflexivity|]. cbv zeta.
  assert (Hcl : forall x, inv x = true ->
            inv (match lastBlock x with Some c => set_lastBlocks x (closeBlock f src c e) | None => x end) = true).
  { intros x Hx. destruct (lastBlock x) as [c|] eqn:El; [|assumption].
    apply inv_set_lastBlocks; [assumption|]. apply IH. eapply inv_lastBlock; eassumption. }
  assert (H1 : inv (set_bend b e) = true) by (rewrite inv_set_bend; assumption).
  destruct (bkind (set_bend b e) =? ListKind).
  { cbn [invL forallb]. rewrite Hcl; [reflexivity|]. apply inv_onCloseList. assumption. }
  destruct (bkind (set_bend b e) =? IndentedCodeBlockKind).
  { cbn [invL forallb]. rewrite Hcl; [reflexivity|]. apply inv_onCloseIndented. assumption. }
  destruct (_ || _); [apply inv_onCloseParagraph; assumption|].
  cbn [invL forallb]. rewrite Hcl; [reflexivity|assumption].
Qed.

(* ---- the line parser ---- *)
Definition invP (p : lp) : Prop := inv (root p) = true.
(* the kind of the container, whenever the container exists on the spine *)
Definition ckind (p : lp) (K : Z) : Prop := forall b, getAt (cdepth p) (root p) = Some b -> bkind b = K.
Definition st_open (p : lp) : Prop := state p = stOpening \/ state p = stOpenMatched.
Definition same_tree (p p' : lp) : Prop := root p' = root p /\ container p' = container p.

Lemma ckind_same p p' K : same_tree p p' -> ckind p K -> ckind p' K.
Proof. intros [E1 E2] H b. unfold cdepth. rewrite E1, E2. apply H. Qed.
Lemma invP_same p p' : same_tree p p' -> invP p -> invP p'.
Proof. intros [E1 _]. unfold invP. rewrite E1. tauto. Qed.
Lemma same_refl p : same_tree p p. Proof. split; reflexivity. Qed.
Lemma same_trans p q r : same_tree p q -> same_tree q r -> same_tree p r.
Proof. intros [A B] [C D]. split; congruence. Qed.

Lemma same_opened p : same_tree p (if state p =? stOpening then withState p stOpenMatched else p).
Proof. destruct (_ =? _); (split; reflexivity). Qed.
Lemma same_advance p n : same_tree p (advance p n).
Proof. unfold advance. destruct (n <? 0); [(split; reflexivity)|]. destruct (n =? 0); [(split; reflexivity)|]. cbv zeta.
       destruct (state p =? stOpening); destruct (_ <? _); (split; reflexivity). Qed.
Lemma same_consumeLine p : same_tree p (consumeLine p).
Proof. unfold consumeLine. cbv zeta. destruct (_ || _); [apply same_advance|]. destruct (_ =? stDescending); apply same_advance. Qed.
Lemma same_consumeIndent_loop : forall fuel p n, same_tree p (consumeIndent_loop fuel p n).
Proof.
  induction fuel as [|f IH]; intros p n; [(split; reflexivity)|]. cbn [consumeIndent_loop].
  destruct (n <=? 0); [(split; reflexivity)|]. cbv zeta.
  destruct (_ && (_ =? 32)); [eapply same_trans; [|apply IH]; destruct (state p =? stOpening); (split; reflexivity)|].
  destruct (_ && (_ =? 9)); [|destruct (state p =? stOpening); (split; reflexivity)].
  destruct (n <? _); [destruct (state p =? stOpening); (split; reflexivity)|].
  eapply same_trans; [|apply IH]. destruct (state p =? stOpening); (split; reflexivity).
Qed.
Lemma same_consumeIndent p n : same_tree p (consumeIndent p n). Proof. apply same_consumeIndent_loop. Qed.

Lemma st_open_opened p : st_open p -> st_open (if state p =? stOpening then withState p stOpenMatched else p).
Proof. intros H. destruct (_ =? _); [right; reflexivity|assumption]. Qed.
Lemma st_open_consumeIndent_loop : forall fuel p n, st_open p -> st_open (consumeIndent_loop fuel p n).
Proof.
  induction fuel as [|f IH]; intros p n H; [assumption|]. cbn [consumeIndent_loop].
  destruct (n <=? 0); [assumption|]. cbv zeta.
  pose proof (st_open_opened p H) as H1.
  destruct (_ && (_ =? 32)); [apply IH; exact H1|].
  destruct (_ && (_ =? 9)); [|exact H1].
  destruct (n <? _); [exact H1|]. apply IH. exact H1.
Qed.
Lemma st_open_consumeIndent p n : st_open p -> st_open (consumeIndent p n). Proof. apply st_open_consumeIndent_loop. Qed.

Lemma invP_advance p n : invP p -> invP (advance p n). Proof. apply invP_same, same_advance. Qed.
Lemma invP_consumeLine p : invP p -> invP (consumeLine p). Proof. apply invP_same, same_consumeLine. Qed.
Lemma invP_consumeIndent p n : invP p -> invP (consumeIndent p n). Proof. apply invP_same, same_consumeIndent. Qed.
Lemma invP_opened p : invP p -> invP (if state p =? stOpening then withState p stOpenMatched else p).
Proof. apply invP_same, same_opened. Qed.

Lemma invP_updCont p f : invP p -> (forall b, inv b = true -> inv (f b) = true) -> invP (updCont p f).
Proof. intros H Hf. unfold invP, updCont. cbn. apply inv_updAt; assumption. Qed.
Lemma invP_updCont_at p f : invP p ->
  (forall b, getAt (cdepth p) (root p) = Some b -> inv b = true -> inv (f b) = true) -> invP (updCont p f).
Proof. intros H Hf. unfold invP, updCont. cbn. apply inv_updAt_at; assumption. Qed.
Lemma ckind_updCont p g K : (forall b, bkind (g b) = bkind b) -> ckind p K -> ckind (updCont p g) K.
Proof.
  intros Hg H b. unfold updCont, cdepth. cbn [root container withRoot setLP]. fold (cdepth p).
  rewrite getAt_updAt_same. destruct (getAt (cdepth p) (root p)) as [b0|] eqn:E; [|discriminate].
  cbn. intros Hb. inversion Hb; subst. rewrite Hg. apply H. exact E.
Qed.

Lemma invP_closeLastChildAt p d e : invP p -> invP (closeLastChildAt p d e).
Proof.
  intros H. unfold invP, closeLastChildAt. cbn. apply inv_updAt; [|assumption].
  intros b Hb. destruct (lastBlock b) as [c|] eqn:El; [|assumption].
  apply inv_set_lastBlocks; [assumption|]. apply inv_closeBlock. eapply inv_lastBlock; eassumption.
Qed.
Lemma invP_openBlock_up : forall fuel p kind, invP p -> invP (openBlock_up fuel p kind).
Proof.
  induction fuel as [|f IH]; intros p kind H; [assumption|]. cbn [openBlock_up].
  destruct (canContain _ _); [assumption|]. destruct (cdepth p); [assumption|].
  apply IH. apply (invP_closeLastChildAt p n (lineStart p) H).
Qed.
Lemma invP_openBlock p kind : invP p -> invP (openBlock p kind).
Proof.
  intros H. unfold openBlock. destruct (_ || _); [assumption|]. cbv zeta.
  match goal with |- invP (withCont ?q _) => change (invP q) end. apply invP_updCont.
  - apply invP_closeLastChildAt, invP_openBlock_up, invP_opened, H.
  - intros b Hb. apply inv_set_bkids; [assumption|]. rewrite invL_app. apply inv_parts in Hb. destruct Hb as [_ Hb]. rewrite Hb. reflexivity.
Qed.
Lemma ckind_openBlock p K : st_open p -> ckind (openBlock p K) K.
Proof.
  intros Hs. unfold openBlock.
  replace ((state p =? stDescending) || (state p =? stDescendTerminated)) with false by (destruct Hs as [-> | ->]; reflexivity).
  cbv zeta. intros b Hb. unfold cdepth, updCont in Hb. cbn [root container withCont withRoot setLP] in Hb.
  match type of Hb with getAt (S ?d) (updAt (cdepth ?q) _ _) = _ =>
    change (cdepth q) with d in Hb end.
  apply getAt_S_append in Hb. subst b. reflexivity.
Qed.
Lemma invP_endBlock p : invP p -> invP (endBlock p).
Proof.
  intros H. unfold endBlock. destruct (_ || _); [assumption|]. cbv zeta.
  destruct (cdepth _) eqn:Ed; [destruct (state p =? stOpening); assumption|].
  match goal with |- invP (withCont ?q _) => change (invP q) end. apply invP_closeLastChildAt, invP_opened, H.
Qed.

(* CollectInline: raw HTML anywhere; Unparsed needs a non-code container; InfoString a fenced container *)
Definition okFor (kind K : Z) : Prop :=
  kind = RawHTMLKind \/ (kind = UnparsedKind /\ isCode K = false) \/ (kind = InfoStringKind /\ K = FencedCodeBlockKind).
Lemma invP_collectInline p kind n K : invP p -> ckind p K -> okFor kind K -> invP (collectInline p kind n).
Proof.
  intros H Hc Hk. unfold collectInline. destruct (_ =? stDescendTerminated); [assumption|]. cbv zeta.
  set (p0 := if state p =? stOpening then withState p stOpenMatched else p).
  assert (H0 : invP p0) by (apply invP_opened, H).
  assert (C0 : ckind p0 K) by (eapply ckind_same; [apply same_opened|exact Hc]).
  set (p1 := if 0 <? indent p0 then _ else p0).
  assert (H1 : invP p1 /\ ckind p1 K).
  { unfold p1. destruct (0 <? indent p0); [|tauto]. split.
    - apply invP_updCont; [apply invP_advance, H0|]. intros b Hb. apply inv_add_ik; [assumption|apply ek_indent].
    - apply ckind_updCont; [intros b; apply bkind_set_bik|]. eapply ckind_same; [apply same_advance|exact C0]. }
  destruct H1 as [H1 C1].
  apply invP_updCont_at; [apply invP_advance, H1|].
  intros b Hb Hi. apply inv_add_ik; [assumption|].
  assert (Eb : bkind b = K). { apply (ckind_same p1 (advance p1 n) K (same_advance p1 n) C1). exact Hb. }
  rewrite Eb.
  destruct Hk as [->|[[-> Hk]|[-> ->]]].
  - apply ek_raw.
  - unfold mkI, ek, kidless. cbn. rewrite Hk. reflexivity.
  - cbn [Z.eqb]. apply ek_info. reflexivity.
Qed.

Lemma ckind_self p : ckind p (containerKind p).
Proof. intros b Hb. unfold containerKind, contBlock. rewrite Hb. reflexivity. Qed.

(* match rules *)
Lemma invP_matchRule p : invP p -> invP (snd (matchRule p)).
Proof.
  intros H. unfold matchRule. cbv zeta.
  destruct (_ || _); [assumption|].
  destruct (_ =? ListItemKind).
  { unfold matchListItem. destruct (isRestBlank p); [destruct (negb _); [assumption|apply invP_consumeIndent, H]|].
    destruct (_ <=? _); [apply invP_consumeIndent, H|assumption]. }
  destruct (_ =? BlockQuoteKind).
  { unfold matchBlockQuote. cbv zeta. destruct (_ <=? _); [assumption|]. destruct (negb _); [assumption|]. cbn [snd].
    unfold eatQuoteMarker. cbv zeta. destruct (0 <? _); repeat first [apply invP_consumeIndent|apply invP_advance]; assumption. }
  destruct (_ =? FencedCodeBlockKind).
  { unfold matchFenced. cbv zeta. destruct (if _ <? _ then _ else false); cbn [snd]; [apply invP_consumeLine|apply invP_consumeIndent]; assumption. }
  destruct (_ =? IndentedCodeBlockKind).
  { unfold matchIndented. cbv zeta. destruct (_ <? _); [destruct (negb _)|]; cbn [snd]; try apply invP_consumeIndent; assumption. }
  destruct (_ =? HTMLBlockKind).
  { unfold matchHTML. destruct (htmlEnd _ _); [|assumption]. destruct (isRestBlank _); [assumption|]. cbn [snd]. apply invP_consumeLine.
    eapply invP_collectInline; [assumption|apply ckind_self|left; reflexivity]. }
  assumption.
Qed.

Lemma invP_descend_loop : forall fuel p d, invP p -> invP (snd (descend_loop fuel p d)).
Proof.
  induction fuel as [|f IH]; intros p d H; [assumption|]. cbn [descend_loop]. cbv zeta.
  destruct (getAt (S d) (root p)) as [c|]; [|assumption].
  destruct (negb (isOpen c)); [assumption|]. destruct (negb (hasMatch _)); [assumption|].
  pose proof (invP_matchRule (withState (withCont p (Some (S d))) stDescending) H) as H2.
  destruct (matchRule _) as [ok p2]. cbn [snd] in H2.
  destruct (state p2 =? stDescendTerminated); [cbn [snd]; apply (invP_closeLastChildAt p2 d _ H2)|].
  destruct (negb ok); [assumption|]. apply IH. assumption.
Qed.

(* ---- block starts ---- *)
Ltac chain H :=
  repeat match goal with
  | |- invP (consumeLine _) => apply invP_consumeLine
  | |- invP (endBlock _) => apply invP_endBlock
  | |- invP (advance _ _) => apply invP_advance
  | |- invP (consumeIndent _ _) => apply invP_consumeIndent
  | |- invP (openBlock _ _) => apply invP_openBlock
  | |- invP (updCont _ _) => apply invP_updCont; [|intros ? ?; rewrite ?inv_set_bn, ?inv_set_bchar, ?inv_set_bindent; assumption]
  end;
  try exact H.

Lemma invP_startBlockQuote p : invP p -> invP (startBlockQuote p).
Proof. intros H. unfold startBlockQuote. cbv zeta. destruct (_ <=? _); [assumption|]. destruct (negb _); [assumption|].
       destruct (0 <? _); chain H. Qed.
Lemma invP_startATX p : st_open p -> invP p -> invP (startATX p).
Proof.
  intros Hs H. unfold startATX. cbv zeta. destruct (_ <=? _); [assumption|].
  destruct (parseATXHeading _) as [[level cs] ce]. destruct (level <? 1); [assumption|].
  apply invP_endBlock, invP_consumeLine.
  eapply (invP_collectInline _ _ _ ATXHeadingKind); [chain H| |right; left; split; reflexivity].
  eapply ckind_same; [apply same_advance|]. apply ckind_updCont; [intros b; destruct b; reflexivity|].
  apply ckind_openBlock, st_open_consumeIndent, Hs.
Qed.
Lemma invP_startFenced p : st_open p -> invP p -> invP (startFenced p).
Proof.
  intros Hs H. unfold startFenced. cbv zeta. destruct (_ <=? _); [assumption|].
  destruct (parseCodeFence _) as [[[fc fnn] is_] ie]. destruct (fnn =? 0); [assumption|].
  apply invP_consumeLine. destruct (spanValid _); [|chain H].
  eapply (invP_collectInline _ _ _ FencedCodeBlockKind); [chain H| |right; right; split; reflexivity].
  eapply ckind_same; [apply same_advance|].
  apply ckind_updCont; [intros b; destruct b; reflexivity|]. apply ckind_updCont; [intros b; destruct b; reflexivity|].
  apply ckind_openBlock, st_open_consumeIndent, Hs.
Qed.
Lemma invP_startHTML p : invP p -> invP (startHTML p).
Proof.
  intros H. unfold startHTML. cbv zeta. destruct (_ <=? _); [assumption|]. destruct (negb _); [assumption|].
  destruct (_ <? 0); [assumption|]. destruct (negb _ && _); [assumption|]. destruct (htmlEnd _ _); [|chain H].
  apply invP_endBlock, invP_consumeLine. eapply invP_collectInline; [chain H|apply ckind_self|left; reflexivity].
Qed.
Lemma invP_startSetext p : invP p -> invP (startSetext p).
Proof.
  intros H. unfold startSetext. cbv zeta. destruct (negb (containerKind p =? ParagraphKind)) eqn:Ek; [assumption|].
  do 3 (match goal with |- invP (if ?c then _ else _) => destruct c end; [assumption|]).
  apply invP_endBlock, invP_consumeLine. apply invP_updCont_at; [assumption|].
  intros b Hb Hi. rewrite inv_set_bn. apply negb_false_iff, Z.eqb_eq in Ek.
  pose proof (ckind_self p b Hb) as Eb. rewrite Ek in Eb.
  apply inv_set_bkind; [rewrite Eb; reflexivity|reflexivity|assumption].
Qed.
Lemma invP_startThematic p : invP p -> invP (startThematic p).
Proof. intros H. unfold startThematic. cbv zeta. destruct (_ <=? _); [assumption|]. destruct (_ <? 0); [assumption|]. chain H. Qed.
Lemma invP_startListItem p : invP p -> invP (startListItem p).
Proof.
  intros H. unfold startListItem. cbv zeta. destruct (_ <=? _); [assumption|].
  destruct (parseListMarker _) as [[delim n] mend]. destruct (_ || _); [assumption|]. destruct (_ && _); [assumption|].
  match goal with |- context [endBlock ?X] => assert (H1 : invP (endBlock X)) end.
  { destruct (negb _ || negb _); chain H. }
  match goal with |- context [endBlock ?X] => set (q := endBlock X) in * end.
  destruct (isRestBlank q); [chain H1|].
  destruct (indent q <? 1); [chain H1|]. destruct (4 <? indent q); chain H1.
Qed.
Lemma invP_startIndented p : invP p -> invP (startIndented p).
Proof. intros H. unfold startIndented. destruct (_ || _ || _); [assumption|]. chain H. Qed.

Definition startOK (f : lp -> lp) : Prop := forall p, st_open p -> invP p -> invP (f p).
Lemma blockStarts_ok : Forall startOK blockStarts.
Proof.
  unfold blockStarts. repeat constructor; intros p Hs H;
    [apply invP_startBlockQuote|apply invP_startATX|apply invP_startFenced|apply invP_startHTML
    |apply invP_startSetext|apply invP_startThematic|apply invP_startListItem|apply invP_startIndented]; assumption.
Qed.
Lemma invP_tryStarts : forall fs p, Forall startOK fs -> invP p -> invP (snd (tryStarts fs p)).
Proof.
  induction fs as [|f r IH]; intros p Hfs H; [assumption|]. cbn [tryStarts]. cbv zeta. inversion Hfs as [|? ? Hf Hr]; subst.
  assert (H1 : invP (f (withState p stOpening))) by (apply Hf; [left; reflexivity|assumption]).
  destruct (_ || _); [assumption|]. apply IH; assumption.
Qed.
Lemma invP_opening_loop : forall fuel p, invP p -> invP (snd (opening_loop fuel p)).
Proof.
  induction fuel as [|f IH]; intros p H; [assumption|]. cbn [opening_loop].
  destruct (_ || _); [|assumption].
  pose proof (invP_tryStarts blockStarts p blockStarts_ok H) as H1. destruct (tryStarts blockStarts p) as [[|] p1]; cbn [snd] in H1.
  - destruct (_ =? stLineConsumed); [assumption|apply IH; assumption].
  - assumption.
Qed.
Lemma invP_deferredClose p : invP p -> invP (deferredClose p).
Proof. intros H. unfold deferredClose. cbv zeta. destruct (_ && _); [assumption|apply invP_closeLastChildAt, H]. Qed.
Lemma invP_openNewBlocks p am : invP p -> invP (snd (openNewBlocks p am)).
Proof.
  intros H. unfold openNewBlocks. destruct (_ =? 0).
  - cbn [snd]. unfold invP. cbn.
    pose proof (inv_closeBlock (source p) (lineStart p) (bheight (root p)) (root p) H) as Hc.
    destruct (closeBlock _ _ _ _) as [|b r]; [assumption|]. cbn in Hc. apply andb_true_iff in Hc. tauto.
  - pose proof (invP_opening_loop (S (length (line p))) p H) as H1. destruct (opening_loop _ p) as [ht p1]. cbn [snd] in H1.
    destruct am; cbn [snd]; [assumption|apply invP_deferredClose, H1].
Qed.

Lemma inv_setLastBlankUpTo v : forall d rt, inv rt = true -> inv (setLastBlankUpTo d v rt) = true.
Proof.
  induction d as [|d IH]; intros rt H; cbn [setLastBlankUpTo].
  - cbn [updAt]. rewrite inv_set_blast. assumption.
  - apply IH. apply inv_updAt; [intros b Hb; rewrite inv_set_blast; assumption|assumption].
Qed.

Lemma invP_go q : invP q ->
  invP (let k := containerKind q in
        let inlineKind := if isCode k then TextKind else if k =? HTMLBlockKind then RawHTMLKind else UnparsedKind in
        let q' := updCont q (fun b => set_bik b (bik b ++ [mkI inlineKind (lineStart q + li q) (lineStart q + len (line q))])) in
        if isCode k && negb (hasByteSuffixEOL (line q')) then
          updCont q' (fun b => set_bik b (bik b ++ [mkI SoftLineBreakKind (lineStart q' + len (line q')) (lineStart q' + len (line q'))]))
        else q').
Proof.
  intros Hq. cbv zeta.
  set (q' := updCont q _).
  assert (Hq' : invP q').
  { apply invP_updCont_at; [assumption|]. intros b Hb Hi. apply inv_add_ik; [assumption|].
    rewrite (ckind_self q b Hb). unfold mkI, ek, kidless. cbv zeta.
    destruct (isCode (containerKind q)); [reflexivity|]. destruct (_ =? HTMLBlockKind); reflexivity. }
  assert (Cq' : ckind q' (containerKind q)) by (apply ckind_updCont; [intros b; apply bkind_set_bik|apply ckind_self]).
  destruct (isCode (containerKind q)) eqn:Ec; cbn [andb]; [|exact Hq'].
  destruct (negb _); [|exact Hq'].
  apply invP_updCont_at; [exact Hq'|]. intros b Hb Hi. apply inv_add_ik; [assumption|].
  rewrite (Cq' b Hb). unfold mkI, ek, kidless. cbn. rewrite Ec. reflexivity.
Qed.

Lemma invP_addLineText p : invP p -> invP (addLineText p).
Proof.
  intros H. unfold addLineText. cbv zeta.
  set (p1 := if isRestBlank p then _ else p).
  assert (H1 : invP p1).
  { unfold p1. destruct (isRestBlank p); [|assumption]. apply invP_updCont; [assumption|].
    intros b Hb. destruct (lastBlock b) as [c|] eqn:El; [|assumption].
    apply inv_set_lastBlocks; [assumption|]. cbn. rewrite inv_set_blast, andb_true_r. eapply inv_lastBlock; eassumption. }
  set (p2 := withRoot p1 _).
  assert (H2 : invP p2) by (unfold p2, invP; cbn; apply inv_setLastBlankUpTo; exact H1).
  match goal with |- invP (if ?c then _ else _) => destruct c end.
  - apply invP_go. match goal with |- invP (if ?c then _ else _) => destruct c end; [|assumption].
    apply invP_consumeIndent. apply invP_updCont; [assumption|]. intros b Hb. apply inv_add_ik; [assumption|apply ek_indent].
  - match goal with |- invP (if ?c then _ else _) => destruct c end; [|assumption]. apply invP_go. apply invP_consumeIndent, invP_openBlock, H2.
Qed.

Theorem inv_processLine st children ls src : invL children = true ->
  invL (fst (fst (processLine st children ls src))) = true.
Proof.
  intros H. unfold processLine. cbv zeta.
  assert (H0 : invP (resetLP st children ls src)) by (unfold invP; cbn; exact H).
  pose proof (invP_descend_loop (bheight (root (resetLP st children ls src))) _ O H0) as H1.
  fold (descendOpenBlocks (resetLP st children ls src)) in H1.
  destruct (descendOpenBlocks _) as [am p1]. cbn [snd] in H1.
  assert (H2 : invP (snd (if negb (state p1 =? stDescendTerminated) then openNewBlocks p1 am else (false, p1)))).
  { destruct (negb _); [apply invP_openNewBlocks; assumption|assumption]. }
  destruct (if negb (state p1 =? stDescendTerminated) then openNewBlocks p1 am else (false, p1)) as [ht p2]. cbn [snd] in H2.
  cbn [fst].
  assert (H3 : invP (if ht then addLineText p2 else p2)) by (destruct ht; [apply invP_addLineText|]; assumption).
  unfold invP in H3. apply inv_parts in H3. tauto.
Qed.

(* ---- the stream layer ---- *)
Lemma inv_shiftB n : forall b, inv (shiftB n b) = inv b.
Proof.
  fix IH 1. intros [k s e bk ik a nn c l lb]. cbn [shiftB inv]. f_equal.
  - induction ik as [|x r IHr]; [reflexivity|]. cbn [map forallb]. rewrite ek_shift, IHr. reflexivity.
  - induction bk as [|x r IHr]; [reflexivity|]. cbn [map forallb]. rewrite (IH x), IHr. reflexivity.
Qed.
Lemma invL_shift n l : invL (map (shiftB n) l) = invL l.
Proof. unfold invL. induction l as [|x r IH]; [reflexivity|]. cbn [map forallb]. rewrite inv_shiftB, IH. reflexivity. Qed.

Lemma inv_makeRoot children s r s' : invL children = true -> makeRoot children s = Some (r, s') ->
  inv (rb_blk r) = true /\ invL (pending s') = true.
Proof.
  intros H Hm. unfold makeRoot in Hm. destruct children as [|b rest]; [discriminate|].
  destruct (isOpen b); [discriminate|]. inversion Hm; subst. cbn [rb_blk pending].
  cbn [invL forallb] in H. apply andb_true_iff in H. destruct H as [Hb Hr]. split; [assumption|].
  rewrite invL_shift. assumption.
Qed.
Definition nb_ok (x : nb) : Prop :=
  match x with NBBlock r s' => inv (rb_blk r) = true /\ invL (pending s') = true | _ => True end.
Lemma inv_lineLoop : forall fuel st children ls s, invL children = true -> invL (pending s) = true ->
  nb_ok (lineLoop fuel st children ls s).
Proof.
  induction fuel as [|f IH]; intros st children ls s Hc Hp; [exact I|]. cbn [lineLoop].
  pose proof (inv_processLine st children ls (upto (buf s) (bi s)) Hc) as H1.
  destruct (processLine st children ls (upto (buf s) (bi s))) as [[children' st'] pn]. cbn [fst] in H1.
  destruct (negb (pn =? 0)); [exact I|].
  destruct (makeRoot children' s) as [[r s']|] eqn:Em.
  - cbn [nb_ok]. eapply inv_makeRoot; eassumption.
  - apply IH; assumption.
Qed.
Lemma inv_skipLoop : forall fuel s, invL (pending s) = true -> nb_ok (skipLoop fuel s).
Proof.
  induction fuel as [|f IH]; intros s Hp; [exact I|]. cbn [skipLoop]. cbv zeta.
  destruct (negb _); [exact I|]. destruct (isBlankLine _); [apply IH; assumption|].
  apply inv_lineLoop; [reflexivity|assumption].
Qed.
Lemma inv_nextBlock fuel s : invL (pending s) = true -> nb_ok (nextBlock fuel s).
Proof.
  intros Hp. unfold nextBlock. destruct (makeRoot (pending s) s) as [[r s']|] eqn:Em.
  - cbn [nb_ok]. eapply inv_makeRoot; eassumption.
  - destruct (pending s) eqn:Ep; [apply inv_skipLoop; reflexivity|].
    rewrite <- Ep in Hp |- *. apply inv_lineLoop; [exact Hp|cbn [pending]; exact Hp].
Qed.
Lemma inv_allBlocks : forall fuel s acc, invL (pending s) = true -> Forall (fun r => inv (rb_blk r) = true) acc ->
  Forall (fun r => inv (rb_blk r) = true) (fst (allBlocks fuel s acc)).
Proof.
  induction fuel as [|f IH]; intros s acc Hp Ha; [exact Ha|]. cbn [allBlocks].
  pose proof (inv_nextBlock (3 + length (buf s)) s Hp) as Hn.
  destruct (nextBlock _ s) as [r s'| | |]; try exact Ha.
  destruct Hn as [Hr Hp']. apply IH; [assumption|]. apply Forall_app. split; [assumption|]. constructor; [assumption|constructor].
Qed.
(* C05, block half of "code blocks hold only their verbatim leaf kinds; no unparsed entry in a code block": every input *)
Theorem parseBlocks_kinds input : Forall (fun r => inv (rb_blk r) = true) (fst (parseBlocks input)).
Proof. unfold parseBlocks. apply inv_allBlocks; [reflexivity|constructor]. Qed.
Print Assumptions parseBlocks_kinds.
