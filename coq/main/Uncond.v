From Coq Require Import List ZArith Lia Bool.
Import ListNotations.
Require Import Base Tree Driver Inl3e Stream.
Require Total StreamEq BlankPrefix.
Open Scope Z_scope.

(* Consequences of the totality of the block layer (Total.parseBlocks_total): the theorems that were proved
   relative to "the run does not end in a fuel code" become unconditional. *)

(* C04, block layer: parseBlocks never reports a panic site and never runs out of fuel. *)
Theorem C04_block_layer_total : forall input, snd (parseBlocks input) = 0.
Proof. exact Total.parseBlocks_total. Qed.

(* C14 (b), padding clause on the concrete machine, exactly as stated. *)
Theorem parseBlocks_blank_prefix : BlankPrefix.parseBlocks_blank_prefix_statement.
Proof. exact (BlankPrefix.parseBlocks_blank_prefix_of_total Total.parseBlocks_total). Qed.

(* C08 on the concrete machine: streaming = in-memory for every read schedule, both ways of reporting the final
   error and every final error code (the fault clause is the instance final = 2 or 3 on the delivered prefix). *)
Theorem parseStream_eq_small : forall caps eager final input, final <> 0 -> StreamEq.small_min input ->
  let '(roots, err, extra, log, code) := parseStream caps eager final input in
  roots = fst (parseFull input) /\ code = snd (parseFull input) /\ (code = 0 -> err = final /\ extra = [final; final; final]).
Proof.
  intros caps eager final input Hf Hs. apply StreamEq.parseStream_eq_partial; try assumption.
  unfold parseFull. destruct (parseBlocks input) as [r c] eqn:E. cbn [snd].
  pose proof (Total.parseBlocks_total input) as H. rewrite E in H. cbn [snd] in H. lia.
Qed.

Print Assumptions C04_block_layer_total.
Print Assumptions parseBlocks_blank_prefix.
Print Assumptions parseStream_eq_small.

(* C01: the tiling statement of Props.v, for every input (Tiling.C01_of_total + totality of the block layer). *)
Require Props Tiling.
Theorem C01_tiling : Props.C01_statement.
Proof. exact (Tiling.C01_of_total Total.parseBlocks_total). Qed.
Print Assumptions C01_tiling.
