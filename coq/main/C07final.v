From Coq Require Import List ZArith Lia Bool.
Import ListNotations.
Require Import Base Tables Utf8 Tree Rdr Link Collect Html Recog Inl3a Inl3b Inl3c Inl3d Inl3e Driver Render Safe Leaf3a Leaf3b Leaf3j SafeW Leaf3k L2Kind Leaf3l L2Bnd L2BndS.
Open Scope Z_scope.

(* the side condition of C07_document follows from the bounds and the kind discipline *)
Lemma kinds_bounds_softok src H ns : forall b, L2Kind.inv b = true -> bnd H ns b = true -> softok src b = true.
Proof.
  fix IH 1. intros [K s e bk ik a n c l lb] Hi Hb. cbn [L2Kind.inv bnd softok] in *.
  apply andb_true_iff in Hi. destruct Hi as [Hik Hkk]. apply andb_true_iff in Hb. destruct Hb as [Hb Hbk].
  apply andb_true_iff in Hb. destruct Hb as [_ Hent].
  apply andb_true_iff. split.
  - clear Hik Hent. induction bk as [|x r IHr]; [reflexivity|]. cbn [forallb] in *.
    apply andb_true_iff in Hkk. destruct Hkk as [Hx Hkk]. apply andb_true_iff in Hbk. destruct Hbk as [Hbx Hbk].
    rewrite (IH x Hx Hbx). apply IHr; assumption.
  - rewrite forallb_forall in *. intros u Hu. unfold softE.
    destruct (ikind u =? SoftLineBreakKind) eqn:Es; [|reflexivity].
    specialize (Hik u Hu). unfold ek in Hik. cbv zeta in Hik. apply Z.eqb_eq in Es. rewrite Es in Hik. cbn [Z.eqb Pos.eqb orb] in Hik.
    apply andb_true_iff in Hik. destruct Hik as [_ Hcode].
    assert (Nk : (K =? LinkReferenceDefinitionKind) = false).
    { destruct (Z.eqb_spec K LinkReferenceDefinitionKind) as [->|]; [discriminate|reflexivity]. }
    rewrite Nk in Hent. cbn [orb] in Hent. rewrite forallb_forall in Hent. specialize (Hent u Hu).
    unfold entOK in Hent. rewrite Es in Hent. cbn [Z.eqb Pos.eqb] in Hent.
    apply andb_true_iff in Hent. destruct Hent as [_ Hs]. apply andb_true_iff in Hs. destruct Hs as [Hs _].
    apply andb_true_iff in Hs. destruct Hs as [Hs _]. apply Z.eqb_eq in Hs.
    rewrite sub_nil_when by lia. reflexivity.
Qed.

(* C07, for every input, every reference matcher, every renderer configuration without a tag filter:
   when raw HTML is ignored, or the parsed tree has no raw-HTML node, the rendered HTML of every root block is safe *)
Theorem C07_final input c refs m rfuel fuel :
  filterOn c = false ->
  Forall (fun r =>
    (ignoreRaw c = true \/ rokB false (rewriteB fuel (rb_src r) m (rb_blk r)) = true) ->
    safe (renderB rfuel c refs (rb_src r) false (rewriteB fuel (rb_src r) m (rb_blk r))))
  (fst (parseBlocks input)).
Proof.
  intros Hf. pose proof (C07_document input c refs m rfuel fuel Hf) as Hd.
  pose proof (L2Kind.parseBlocks_kinds input) as Hk. pose proof (parseBlocks_bounds input) as Hb.
  rewrite Forall_forall in *. intros r Hr Hraw. apply (Hd r Hr); [|exact Hraw].
  destruct (Hb r Hr) as (H & ns & _ & Hbn). eapply kinds_bounds_softok; [apply Hk, Hr|exact Hbn].
Qed.
Print Assumptions C07_final.
