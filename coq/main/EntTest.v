From Coq Require Import List ZArith Lia Bool.
Import ListNotations.
Require Import Base Tables Utf8 Tree Rdr Link Collect Html Recog Driver Inl3a Inl3b Inl3c Inl3d Inl3e Props.
Require Import ShapesBase ShapesR ShapesCS ShapesComp ShapesComp2 ShapesComp3 Shapes EntDefs EntriesOK.
Open Scope Z_scope.

(* T28: the checkers evaluated on sample inputs (vm_compute).
   asked  = EntDefs.entriesOK   (the statement as asked: bikOK on every block with hasUnparsed)
   proved = EntDefs.entriesOKw  (bikOK, or the block is an ATX heading whose only entry is an empty Unparsed span)
   basic  = EntriesOK.entriesBasicAll (hypothesis of T13) *)
Definition chk_asked (input : bytes) : bool := forallb (fun r => entriesOK (rb_src r) (rb_blk r)) (fst (parseBlocks input)).
Definition chk_proved (input : bytes) : bool := forallb (fun r => entriesOKw (rb_src r) (rb_blk r)) (fst (parseBlocks input)).
Definition chk_basic (input : bytes) : bool := forallb (fun r => entriesBasicAll (rb_src r) (rb_blk r)) (fst (parseBlocks input)).
Definition chk_full (input : bytes) : bool := forallb (fun r => csPH (rb_src r) (rb_blk r)) (fst (parseFull input)).

(* '> a\n> b\n> c\n' : paragraph over three lines in a block quote (gaps between spans) *)
Definition q_quote : bytes := [62;32;97;10;62;32;98;10;62;32;99;10].
(* '- a\n  b\n  c\n' : paragraph in a list item *)
Definition q_list : bytes := [45;32;97;10;32;32;98;10;32;32;99;10].
(* '> - a\n>   b\n> c\n' : list item in a quote, then a lazy line *)
Definition q_nested : bytes := [62;32;45;32;97;10;62;32;32;32;98;10;62;32;99;10].
(* '> a\nb\n> - c\nd\n' : lazy continuation lines *)
Definition q_lazy : bytes := [62;32;97;10;98;10;62;32;45;32;99;10;100;10].
(* '- a\n\tb\n \tc\n' : tab-indented continuation lines (Indent entries) *)
Definition q_tab : bytes := [45;32;97;10;9;98;10;32;9;99;10].
(* '>\ta\n>\tb\n' : tab after a quote marker *)
Definition q_tabq : bytes := [62;9;97;10;62;9;98;10].
(* 'a`\n`b\n' : line ending in a backtick followed by a line starting with one *)
Definition q_tick : bytes := [97;96;10;96;98;10].
(* '> a`\n>`b\n' : the same inside a quote: the byte before the second span is '>' *)
Definition q_tickq : bytes := [62;32;97;96;10;62;96;98;10].
(* '`a\nb`\n> ``x\n> y``\n' : code spans across lines *)
Definition q_cs : bytes := [96;97;10;98;96;10;62;32;96;96;120;10;62;32;121;96;96;10].
(* 'a\rb\r\nc\r' : CR and CRLF line endings *)
Definition q_cr : bytes := [97;13;98;13;10;99;13].
(* 'a\x00b\n\x00c`\x00\n' : NUL bytes *)
Definition q_nul : bytes := [97;0;98;10;0;99;96;0;10].
(* '[a]: /b\n  foo\nbar\n' : paragraph after a link reference definition *)
Definition q_def : bytes := [91;97;93;58;32;47;98;10;32;32;102;111;111;10;98;97;114;10].
(* 'a\n b\n===\n' : setext heading *)
Definition q_setext : bytes := [97;10;32;98;10;61;61;61;10].
(* '#  x `y` #\n' : ATX heading with content *)
Definition q_atx : bytes := [35;32;32;120;32;96;121;96;32;35;10].
(* '#\n' : ATX heading without content: the span [1,1) is empty *)
Definition q_atx0 : bytes := [35;10].
(* '> ## \t\n' : empty ATX heading in a quote *)
Definition q_atx1 : bytes := [62;32;35;35;32;9;10].

Example asked_holds : forallb chk_asked [q_quote; q_list; q_nested; q_lazy; q_tab; q_tabq; q_tick; q_tickq; q_cs; q_cr; q_nul; q_def; q_setext; q_atx] = true.
Proof. vm_compute. reflexivity. Qed.
(* the clause that fails: non-emptiness of the single span of an ATX heading without content *)
Example asked_fails : chk_asked q_atx0 = false /\ chk_asked q_atx1 = false.
Proof. split; vm_compute; reflexivity. Qed.
Example proved_holds : forallb chk_proved [q_quote; q_list; q_nested; q_lazy; q_tab; q_tabq; q_tick; q_tickq; q_cs; q_cr; q_nul; q_def; q_setext; q_atx; q_atx0; q_atx1] = true.
Proof. vm_compute. reflexivity. Qed.
Example basic_holds : forallb chk_basic [q_quote; q_list; q_nested; q_lazy; q_tab; q_tabq; q_tick; q_tickq; q_cs; q_cr; q_nul; q_def; q_setext; q_atx; q_atx0; q_atx1] = true.
Proof. vm_compute. reflexivity. Qed.
Example full_holds : forallb chk_full [q_quote; q_list; q_nested; q_lazy; q_tab; q_tabq; q_tick; q_tickq; q_cs; q_cr; q_nul; q_def; q_setext; q_atx; q_atx0; q_atx1] = true.
Proof. vm_compute. reflexivity. Qed.
