(* QLnInlSt.v -- T64 (renderer), towards lineOK: the state invariant IL (every root node satisfies BR with the bound nid; the entries of the
   block have no children and are neither CharacterReference nor SoftLineBreak nodes) through the inline parser.
   Patterned on EolCRRenderInlSt / EolCRRenderInlSt2; no tokeniser invariant is needed: the only creation sites with a condition are
   the character reference of istep (QLnDefs.charref_crb), the character references collected for link parts (QLnCollect) and the soft
   line breaks of istep (one byte, or CR LF). *)
From Coq Require Import List ZArith Lia Bool.
Import ListNotations.
Require Import Base Tables Utf8 Tree Rdr Link Collect Html Recog Inl3a Inl3b Inl3c Inl3d Inl3e.
Require Import Leaf3e Leaf3n ShapesBase IS5a EolCRRenderInlG EolCRRenderInlSt QLnDefs QLnCollect QLnInlG.
Open Scope Z_scope.

Section St.
  Variable src : bytes.
  Notation BR := (BR src).

  Definition entOK (u : inline) : Prop := ikids u = [] /\ brk (ikind u) = false.
  Record IL (st : ist) : Prop := mkIL {
    il_g : forallb (BR (nid st)) (rk st) = true;
    il_nid : 1 <= nid st;
    il_src : isrc st = src;
    il_unp : forall u, In u (unp st) -> entOK u }.

  Lemma IL_setStk st v : IL st -> IL (setStk st v). Proof. intros [A B C D]. constructor; assumption. Qed.
  Lemma IL_setIgn st v : IL st -> IL (setIgn st v). Proof. intros [A B C D]. constructor; assumption. Qed.
  Lemma IL_setUpos st v : IL st -> IL (setUpos st v). Proof. intros [A B C D]. constructor; assumption. Qed.
  Lemma IL_advanceTo st p : IL st -> IL (advanceTo st p).
  Proof. intros H. unfold advanceTo. destruct (0 <=? _); apply IL_setUpos, H. Qed.
  Lemma IL_setRk st v : IL st -> forallb (BR (nid st)) v = true -> IL (setRk st v).
  Proof. intros [A B C D] H. constructor; assumption. Qed.

  (* ---- adding nodes ---- *)
  Lemma IL_addNode st kind s e kids : IL st -> nodeOK src kind s e = true -> forallb (BR (nid st + 1)) kids = true ->
    IL (fst (addNode st kind s e kids)).
  Proof.
    intros H Hn Hk. unfold addNode. destruct (spanLen s e =? 0); cbn [fst]; [exact H|].
    destruct H as [A B C D]. constructor; cbn [rk nid stk isrc unp bumpId setRk]; try assumption; [|lia].
    apply BRF_app. split; [apply (BRF_mono src (nid st)); [lia|exact A]|]. cbn [forallb]. rewrite andb_true_r.
    apply BR_mk; cbn [pkind ps pe pid pkids]; [exact Hn|intros _; lia|exact Hk].
  Qed.
  Lemma IL_plain st kind s e kids : IL st -> brk kind = false -> forallb lfb kids = true -> IL (fst (addNode st kind s e kids)).
  Proof. intros H K Hk. apply IL_addNode; [exact H|apply nodeOK_other, K|apply lfbF_BR, Hk]. Qed.
  Lemma IL_addText st s e : IL st -> IL (addText st s e).
  Proof. intros H. unfold addText. apply IL_plain; [exact H|reflexivity|reflexivity]. Qed.
  Lemma IL_push st kind s e kids (mk : Z -> delim) : IL st -> brk kind = false -> forallb lfb kids = true ->
    IL (setStk (fst (addNode st kind s e kids)) (stk (fst (addNode st kind s e kids)) ++ [mk (snd (addNode st kind s e kids))])).
  Proof. intros H K Hk. apply IL_setStk, IL_plain; assumption. Qed.

  (* ---- tree surgery ---- *)
  Lemma wrap_forest st kind startId endId : IL st -> brk kind = false ->
    forallb (BR (nid st)) (rk (fst (wrap st kind startId endId))) = true /\ snd (wrap st kind startId endId) = nid st /\
    nid (fst (wrap st kind startId endId)) = nid st + 1 /\ isrc (fst (wrap st kind startId endId)) = isrc st /\
    unp (fst (wrap st kind startId endId)) = unp st /\ stk (fst (wrap st kind startId endId)) = stk st.
  Proof.
    intros [A B C D] K. unfold wrap. cbn [fst snd rk nid isrc unp stk bumpId setRk]. repeat split. apply BR_wrapIn; assumption.
  Qed.
  Lemma IL_wrap st kind startId endId : IL st -> brk kind = false -> IL (fst (wrap st kind startId endId)).
  Proof.
    intros H K. destruct (wrap_forest st kind startId endId H K) as (F & _ & En & Es & Eu & _). destruct H as [A B C D].
    constructor; [rewrite En; apply (BRF_mono src (nid st)); [lia|exact F]|lia|congruence|rewrite Eu; exact D].
  Qed.
  Lemma IL_removeNode st id : IL st -> IL (removeNode st id).
  Proof. intros H. unfold removeNode. apply IL_setRk; [exact H|]. apply BR_removeId, (il_g _ H). Qed.
  Lemma IL_updN st id g : IL st -> (forall n, BR (nid st) n = true -> pid n = id -> BR (nid st) (g n) = true) -> IL (updN st id g).
  Proof. intros H Hg. unfold updN. apply IL_setRk; [exact H|]. apply BR_updNode; [exact Hg|exact (il_g _ H)]. Qed.
  Lemma IL_shrinkR st id k : IL st -> 0 <= k -> IL (updN st id (fun n => setSpan n (ps n) (pe n - k))).
  Proof. intros H Hk. apply IL_updN; [exact H|]. intros n Hn _. apply BR_shrink; [lia|lia|exact Hn]. Qed.
  Lemma IL_shrinkL st id k : IL st -> 0 <= k -> IL (updN st id (fun n => setSpan n (ps n + k) (pe n))).
  Proof. intros H Hk. apply IL_updN; [exact H|]. intros n Hn _. apply BR_shrink; [lia|lia|exact Hn]. Qed.

  (* ---- processEmphasis ---- *)
  Ltac lchain :=
    repeat match goal with
    | |- IL (setStk _ _) => apply IL_setStk
    | |- IL (removeNode _ _) => apply IL_removeNode
    end; try assumption.

  Lemma IL_pe_loop : forall fuel st ob cp, IL st -> IL (pe_loop fuel st ob cp).
  Proof.
    induction fuel as [|f IH]; intros st ob cp H; [assumption|]. cbn [pe_loop].
    destruct (_ <? 0); [assumption|].
    destruct (_ <=? _).
    - match goal with |- context [wrap ?A ?K ?X ?Y] =>
        assert (HA : IL A); [| assert (HK : brk K = false); [| pose proof (IL_wrap A K X Y HA HK) as HB; destruct (wrap A K X Y) as [stB wid]]] end.
      + apply IL_shrinkL; [apply IL_shrinkR; [exact H|]|]; destruct (_ && _); lia.
      + destruct (_ && _); reflexivity.
      + cbn [fst] in HB.
        destruct (plen _ =? 0); destruct (plen _ =? 0); apply IH; lchain.
    - destruct (negb _); apply IH; lchain.
  Qed.
  Lemma IL_processEmphasis st sb : IL st -> IL (processEmphasis st sb).
  Proof. intros H. unfold processEmphasis. apply IL_setStk. apply IL_pe_loop, H. Qed.
  Lemma IL_finishLink st kind odi : IL st -> IL (finishLink st kind odi).
  Proof.
    intros H. unfold finishLink.
    assert (H1 : IL (setStk (removeNode (processEmphasis st (odi + 1)) (d_node (nthD (stk st) odi)))
                          (delStack (stk (removeNode (processEmphasis st (odi + 1)) (d_node (nthD (stk st) odi)))) odi (odi + 1)))).
    { lchain. apply IL_processEmphasis, H. }
    destruct (kind =? LinkKind); [|exact H1]. apply IL_setStk. exact H1.
  Qed.
  Lemma IL_lfl : forall fuel st i, IL st -> IL (fst (lfl fuel st i)).
  Proof.
    induction fuel as [|f IH]; intros st i H; [assumption|]. cbn [lfl].
    destruct (i <? 0); [assumption|]. destruct (_ || _); [|apply IH; assumption].
    destruct (negb _); cbn [fst]; [lchain|assumption].
  Qed.
  Lemma IL_parseDelimiterRun st pos : IL st -> IL (fst (parseDelimiterRun st pos)).
  Proof.
    intros H. unfold parseDelimiterRun. cbv zeta.
    match goal with |- context [addNode ?a ?b ?c ?d ?e] =>
      pose proof (fun mk => IL_push a b c d e mk H eq_refl eq_refl) as H1; destruct (addNode a b c d e) as [st1 id] end.
    cbn [fst snd] in *. apply (H1 (fun id => {| d_typ := _; d_flags := _; d_n := _; d_node := id |})).
  Qed.
  Lemma IL_parseBackslash st pos : IL st -> IL (fst (parseBackslash st pos)).
  Proof.
    intros H. unfold parseBackslash. cbv zeta.
    destruct (_ || _ || _).
    - destruct (isLastSpan st); cbn [fst]; [apply IL_addText; assumption|].
      apply IL_plain; [apply IL_setIgn, H|reflexivity|reflexivity].
    - destruct (isASCIIPunctuation _); cbn [fst]; apply IL_addText; assumption.
  Qed.

  (* ---- children collected from the source ---- *)
  Lemma kids_BR b spans tk esc fuel pos e : 1 <= b -> (forall u, In u spans -> entOK u) -> brk tk = false ->
    forallb (BR b) (kidsOf (collectTextNodes fuel (newReader src spans pos) e tk esc)) = true.
  Proof.
    intros Hb Hs K. unfold kidsOf. apply forallb_forall. intros x Hx. apply in_map_iff in Hx. destruct Hx as (i & <- & Hi).
    pose proof (collectTextNodes_kindsL src tk esc fuel (newReader src spans pos) e spans eq_refl (sublist_refl _)) as H.
    rewrite Forall_forall in H. specialize (H i Hi). destruct H as [(s & e' & ->)|[(s & e' & -> & _ & Hr)|(Hin & Hk)]].
    - apply lfb_BR. unfold lfb. cbn. rewrite K. reflexivity.
    - cbn [ofInline mkI map]. apply BR_mk; cbn [pkind ps pe pid pkids]; [exact Hr|intros _; lia|reflexivity].
    - destruct (Hs i Hin) as [Hk0 Hb0]. destruct i as [k s0 e0 ind rf ks]. cbn [ikids ikind] in *. subst ks. apply lfb_BR. unfold lfb. cbn. rewrite Hb0. reflexivity.
  Qed.
  Lemma unpFrom_ent st : IL st -> forall u, In u (unpFrom st) -> entOK u.
  Proof. intros H u Hu. apply (il_unp _ H). unfold unpFrom in Hu. eapply from_in, Hu. Qed.
End St.
