(* ChkF3.v -- T30 follow-up: Fb through the primitives of the line parser. *)
From Coq Require Import List ZArith Lia Bool.
Import ListNotations.
Require Import Base Tree Rdr Link Collect Html Recog LP Rules Starts Driver L2Kind2 L2CC ShapesBase ShEnv GramDefs GramTree
  GramLP Cursor CursorX NoPanic12 BSLine1 ChkW1 ChkW2 ChkW3 ChkE1 ChkE2 ChkE3 ChkF1 ChkF2.
Open Scope Z_scope.

Definition FS (p : lp) : Prop := Fb (Mc p) (lineStart p) (root p) = true.

Lemma FS_tree p p' : root p' = root p -> lineStart p' = lineStart p -> li p <= li p' -> FS p -> FS p'.
Proof. unfold FS, Mc. intros -> -> Hl H. eapply Fb_mono; [|apply Z.le_refl|exact H]. lia. Qed.
Lemma FS_advance p n : FS p -> FS (advance p n).
Proof. apply FS_tree; [apply same_advance|apply (env_src p _ (env_advance p n))|apply li_advance_ge]. Qed.
Lemma FS_consumeLine p : CUR p -> FS p -> FS (consumeLine p).
Proof. intros HC. apply FS_tree; [apply same_consumeLine|apply (env_src p _ (env_consumeLine p))|apply li_consumeLine_ge, HC]. Qed.
Lemma FS_consumeIndent p n : FS p -> FS (consumeIndent p n).
Proof. apply FS_tree; [apply same_consumeIndent|apply (env_src p _ (env_consumeIndent p n))|apply li_consumeIndent_ge]. Qed.
Lemma FS_opened p : FS p -> FS (if state p =? stOpening then withState p stOpenMatched else p).
Proof. destruct (state p =? stOpening); tauto. Qed.

Lemma FS_closeLastChildAt p d e : 0 <= e -> lineStart p <= e -> FS p -> FS (closeLastChildAt p d e).
Proof.
  intros He Hl H. unfold FS, closeLastChildAt, Mc. cbn [root lineStart li withRoot setLP].
  change (fun b : block => match lastBlock b with Some c => set_lastBlocks b (closeBlock (bheight (root p)) (source p) c e) | None => b end)
    with (CLf' (bheight (root p)) (source p) e).
  apply Fb_updAt; [|exact H]. intros x. apply F_CLf; assumption.
Qed.
Lemma FS_openBlock_up : forall fuel p kind, 0 <= lineStart p -> FS p -> FS (openBlock_up fuel p kind).
Proof.
  induction fuel as [|f IH]; intros p kind Hl H; [assumption|]. cbn [openBlock_up].
  destruct (canContain _ _); [assumption|]. destruct (cdepth p); [exact H|].
  apply IH; [exact Hl|]. apply (FS_closeLastChildAt p n (lineStart p) Hl ltac:(lia) H).
Qed.
Lemma Fb_newBlock M U kind pos : pos <= M -> Fb M U (newBlock kind pos) = true.
Proof. intros H. unfold newBlock. apply Fb_mk; [apply floc_mk; [exact H|reflexivity]|reflexivity]. Qed.
Lemma Fb_append M U x nb : Fb M U x = true -> Fb M U nb = true -> Fb M U (set_bkids x (bkids x ++ [nb])) = true.
Proof.
  intros Hx Hn. apply Fb_set_bkids; [exact Hx|]. apply Fb_parts in Hx. rewrite FbL_app, (proj2 Hx). cbn [FbL forallb]. rewrite Hn. reflexivity.
Qed.
Lemma FS_append p nb : Fb (Mc p) (lineStart p) nb = true -> FS p -> FS (updCont p (fun b => set_bkids b (bkids b ++ [nb]))).
Proof.
  intros Hn H. unfold FS, updCont, Mc in *. cbn [root lineStart li withRoot setLP].
  apply Fb_updAt; [|exact H]. intros x Hx. apply Fb_append; assumption.
Qed.
Lemma FS_openBlock p kind : CUR p -> FS p -> FS (openBlock p kind).
Proof.
  intros HC H. unfold openBlock. destruct (_ || _); [exact H|]. cbv zeta.
  set (p0 := if state p =? stOpening then withState p stOpenMatched else p).
  assert (H0 : FS p0) by (apply FS_opened, H).
  assert (L0 : lineStart p0 = lineStart p) by (unfold p0; destruct (state p =? stOpening); reflexivity).
  set (p1 := openBlock_up (S (cdepth p0)) p0 kind).
  assert (Hl : 0 <= lineStart p) by (destruct HC as (_ & B & _); lia).
  assert (H1 : FS p1) by (apply FS_openBlock_up; [lia|exact H0]).
  assert (L1 : lineStart p1 = lineStart p) by (unfold p1; rewrite (proj2 (env_openBlock_up' _ _ _)); exact L0).
  set (p2 := closeLastChildAt p1 (cdepth p1) (lineStart p1)).
  assert (H2 : FS p2) by (apply FS_closeLastChildAt; [lia|lia|exact H1]).
  apply (FS_tree (updCont p2 (fun b => set_bkids b (bkids b ++ [newBlock kind (lineStart p2 + li p2)])))); [reflexivity|reflexivity|cbn; lia|].
  apply FS_append; [|exact H2]. apply Fb_newBlock. unfold Mc. lia.
Qed.
Lemma FS_endBlock p : CUR p -> FS p -> FS (endBlock p).
Proof.
  intros HC H. unfold endBlock. destruct (_ || _); [exact H|]. cbv zeta.
  set (p0 := if state p =? stOpening then withState p stOpenMatched else p).
  assert (H0 : FS p0) by (apply FS_opened, H).
  assert (E0 : lineStart p0 = lineStart p /\ li p0 = li p) by (unfold p0; destruct (state p =? stOpening); split; reflexivity).
  destruct E0 as [E1 E2]. destruct HC as (_ & B & C).
  destruct (cdepth p0) eqn:Ed; [exact H0|].
  apply (FS_tree (closeLastChildAt p0 n (lineStart p0 + li p0))); [reflexivity|reflexivity|cbn; lia|].
  apply FS_closeLastChildAt; [lia|lia|exact H0].
Qed.
Lemma FS_updCont_ext p f : (forall b, bkind (f b) = bkind b /\ bstart (f b) = bstart b /\ bend (f b) = bend b /\ bik (f b) = bik b /\ bkids (f b) = bkids b) ->
  FS p -> FS (updCont p f).
Proof.
  intros Hf H. unfold FS, updCont, Mc. cbn [root lineStart li withRoot setLP].
  apply Fb_updAt; [|exact H]. intros x Hx. destruct (Hf x) as (A0 & A & B & C & D). rewrite (Fb_ext _ _ x (f x) A0 A B C D). exact Hx.
Qed.

(* ---- collectInline fused with the close of the container that follows it ---- *)
Lemma Fb_closed_add M U c extra e : isOpen c = true -> 0 <= e -> U <= e -> Fb M U c = true ->
  (forall u, In u extra -> M <= istart u /\ iend u <= e) ->
  Fb M U (set_bend (set_bik c (bik c ++ extra)) e) = true.
Proof.
  intros Ho He HU H Hx. apply Fb_parts in H. destruct H as (A & C). unfold isOpen in Ho. apply Z.ltb_lt in Ho.
  apply Fb_mk; [|destruct c; exact C].
  destruct (exK (bkind c)) eqn:E; [apply floc_ex; destruct c; exact E|]. destruct (floc_nex M U c E A) as [A1 A2].
  apply floc_mk; [destruct c; exact A1|].
  replace (bstart (set_bend (set_bik c (bik c ++ extra)) e)) with (bstart c) by (destruct c; reflexivity).
  replace (bend (set_bend (set_bik c (bik c ++ extra)) e)) with e by (destruct c; reflexivity).
  replace (bik (set_bend (set_bik c (bik c ++ extra)) e)) with (bik c ++ extra) by (destruct c; reflexivity).
  rewrite forallb_app. apply andb_true_iff. split.
  - rewrite forallb_forall in *. intros u Hu. apply (eb_close _ (bend c)); [exact Ho|exact He|exact HU|apply A2, Hu].
  - apply forallb_forall. intros u Hu. destruct (Hx u Hu) as [X1 X2]. unfold eb. apply orb_true_iff. right.
    replace (e <? 0) with false by (symmetry; apply Z.ltb_ge; lia). apply andb_true_iff. split; apply Z.leb_le; lia.
Qed.

Lemma collect_close_F p kind n d e (q : lp) :
  CUR p -> (state p =? stDescendTerminated) = false -> cdepth p = S d ->
  lineStart p + li (collectInline p kind n) <= e ->
  (forall c, getAt (S d) (root p) = Some c -> isOpen c = true) ->
  root q = root (collectInline p kind n) -> FS p ->
  Fb (lineStart p + li p) (lineStart p) (updAt d (CLf (bheight (root q)) (source q) e) (root q)) = true.
Proof.
  intros HC Hst Hd He Hc Hq HW.
  destruct (collectInline_root_pos p kind n HC Hst) as (extra & Hroot & Hpos).
  assert (Hge : li p <= li (collectInline p kind n)).
  { unfold collectInline. rewrite Hst. cbv zeta. cbn [li updCont withRoot setLP].
    set (p0 := if state p =? stOpening then withState p stOpenMatched else p).
    assert (I0 : li p0 = li p) by (unfold p0; destruct (state p =? stOpening); reflexivity).
    eapply Z.le_trans; [|apply li_advance_ge]. destruct (0 <? indent p0); [|lia].
    cbn [li updCont withRoot setLP]. rewrite <- I0. apply li_advance_ge. }
  destruct HC as (_ & HB & HCl).
  assert (He0 : 0 <= e) by lia. assert (HU : lineStart p <= e) by lia.
  rewrite Hq, Hroot, Hd. rewrite updAt_S, updAt_fuse. change CLf with CLf'.
  set (G := fun c : block => set_bik c (bik c ++ extra)).
  set (h := bheight _). set (s0 := source q).
  apply Fb_updAt_at; [exact HW|]. intros x Hx HEx.
  unfold liftLast, CLf'. destruct (lastBlock x) as [c|] eqn:El; [|rewrite El; exact HEx].
  rewrite lastBlock_set_last by (eapply lastBlock_nonempty; exact El). rewrite set_last_twice_l.
  apply (Fb_set_lastBlocks _ _ x c _ El HEx).
  assert (Hgc : getAt (S d) (root p) = Some c) by (rewrite getAt_S_last, Hx; exact El).
  pose proof (Hc c Hgc) as Ho.
  assert (Eh : exists f', h = S f').
  { unfold h. match goal with |- exists f', bheight ?X = S f' => destruct (bheight_S X) as (f' & E'); exists f'; exact E' end. }
  destruct Eh as (f' & Eh). rewrite Eh.
  apply F_closeBlock_closed; [exact He0|exact HU|destruct c; exact Ho|].
  unfold G. apply Fb_closed_add; try assumption; [eapply Fb_lastBlock; eassumption|].
  intros u Hu. destruct (Hpos u Hu) as [P1 P2]. lia.
Qed.
