(* C14 (i), final newline: two runs of collectTextNodes and transformLinkReferenceSpan (Collect.v) over src / src ++ [10]
   for a range that ends at or before len src. *)
From Coq Require Import List ZArith Lia Bool.
Import ListNotations.
Require Import Base Tables Utf8 Tree Rdr Link Collect LP ShapesBase ShapesR IFBase IFLink IFCollect EolFinalDefs LADef EolGenRdrBase EolGenRdrLink.
Open Scope Z_scope.

(* ---------- bytes ---------- *)
Lemma g_firstn_app10 (x : bytes) n : firstn n (x ++ [10]) = firstn n x \/ firstn n (x ++ [10]) = x ++ [10] /\ firstn n x = x.
Proof.
  destruct (Nat.le_gt_cases n (length x)) as [L|L].
  - left. rewrite firstn_app. replace (n - length x)%nat with 0%nat by lia. cbn [firstn]. apply app_nil_r.
  - right. split; [apply firstn_all2; rewrite app_length; cbn; lia|apply firstn_all2; lia].
Qed.
Lemma g_skipn_app10 (x : bytes) m : skipn m (x ++ [10]) = skipn m x ++ [10] \/ skipn m (x ++ [10]) = [] /\ skipn m x = [].
Proof.
  destruct (Nat.le_gt_cases m (length x)) as [L|L].
  - left. rewrite skipn_app. replace (m - length x)%nat with 0%nat by lia. reflexivity.
  - right. split; [apply skipn_all2; rewrite app_length; cbn; lia|apply skipn_all2; lia].
Qed.
Lemma g_sub_app10_any (src : bytes) s e : sub (src ++ [10]) s e = sub src s e \/ sub (src ++ [10]) s e = sub src s e ++ [10].
Proof.
  unfold sub, upto, from_. destruct (g_skipn_app10 src (Z.to_nat s)) as [->|[-> ->]]; [|left; reflexivity].
  destruct (g_firstn_app10 (skipn (Z.to_nat s) src) (Z.to_nat (e - s))) as [->|[-> ->]]; [left|right]; reflexivity.
Qed.

(* parseCharacterEscape does not see a line feed appended to its text *)
Lemma pce_named_app10 : forall l i acc, pce_named (l ++ [10]) i acc = pce_named l i acc.
Proof. induction l as [|c r IH]; intros i acc; [reflexivity|]. cbn [app pce_named]. rewrite IH. reflexivity. Qed.
Lemma pce_num_app10 p : p 10 = false -> forall l i ds, pce_num p (l ++ [10]) i ds = pce_num p l i ds.
Proof. intros Hp. induction l as [|c r IH]; intros i ds; [cbn [app pce_num]; rewrite Hp; reflexivity|]. cbn [app pce_num]. rewrite IH. reflexivity. Qed.
Lemma pce_num_upto p n : p 10 = false -> forall l i ds, pce_num p (upto (l ++ [10]) n) i ds = pce_num p (upto l n) i ds.
Proof.
  intros Hp l i ds. unfold upto. destruct (g_firstn_app10 l (Z.to_nat n)) as [->|[-> ->]]; [reflexivity|apply pce_num_app10, Hp].
Qed.
Lemma pce_app10 text : parseCharacterEscape (text ++ [10]) = parseCharacterEscape text.
Proof.
  destruct text as [|a [|b [|c rest]]].
  - reflexivity.
  - unfold parseCharacterEscape. reflexivity.
  - unfold parseCharacterEscape. change (len ([a; b] ++ [10]) <? 3) with false. change (len [a; b] <? 3) with true. cbn [orb app].
    change (at_ [a; b; 10] 0) with a. change (at_ [a; b; 10] 1) with b. change (at_ [a; b; 10] 2) with 10.
    destruct (a =? 38); cbn [negb]; [|reflexivity]. destruct (b =? 35); cbn [negb].
    + reflexivity.
    + change (from_ [a; b; 10] 1) with [b; 10]. cbn [pce_named]. destruct (b =? 59); [reflexivity|].
      destruct (negb (isASCIILetter b) && negb (isASCIIDigit b)); reflexivity.
  - unfold parseCharacterEscape.
    assert (E1 : (len ((a :: b :: c :: rest) ++ [10]) <? 3) = false) by (apply Z.ltb_ge; rewrite len_app; unfold len; cbn [length]; lia).
    assert (E2 : (len (a :: b :: c :: rest) <? 3) = false) by (apply Z.ltb_ge; unfold len; cbn [length]; lia).
    rewrite E1, E2. cbn [orb app].
    change (at_ (a :: b :: c :: rest ++ [10]) 0) with a. change (at_ (a :: b :: c :: rest ++ [10]) 1) with b. change (at_ (a :: b :: c :: rest ++ [10]) 2) with c.
    change (at_ (a :: b :: c :: rest) 0) with a. change (at_ (a :: b :: c :: rest) 1) with b. change (at_ (a :: b :: c :: rest) 2) with c.
    change (from_ (a :: b :: c :: rest ++ [10]) 1) with ((b :: c :: rest) ++ [10]). change (from_ (a :: b :: c :: rest) 1) with (b :: c :: rest).
    change (from_ (a :: b :: c :: rest ++ [10]) 3) with (rest ++ [10]). change (from_ (a :: b :: c :: rest) 3) with rest.
    change (from_ (a :: b :: c :: rest ++ [10]) 2) with ((c :: rest) ++ [10]). change (from_ (a :: b :: c :: rest) 2) with (c :: rest).
    rewrite pce_named_app10, !pce_num_upto by reflexivity. reflexivity.
Qed.

Section G.
Variable src : bytes.
Local Notation L := (len src).
Local Notation src2 := (src ++ [10]).
Hypothesis HL : 0 < L.
Hypothesis Hlast : isEOLz (at_ src (L - 1)) = false.
Set Default Proof Using "All".
Local Notation Rin := (Rin src).
Local Notation T0 := (T0 src).
Local Notation T1 := (T1 src).
Local Notation E1 := (E1 src).
Local Notation E2 := (E2 src).
Local Notation A2 := (A2 src).
Local Notation Rel0 := (Rel0 src).
Local Notation Rel := (Rel src).

Ltac stc H c r1' r2' H1 Hc0 Hce Hpc :=
  match type of H with EolGenRdrBase.Rin _ ?r1 ?r2 =>
    let Ec := fresh "Ec" in let c' := fresh "c'" in
    pose proof (Rin_current src HL Hlast r1 r2 H) as (Ec & H1 & Hc0 & Hce);
    pose proof (pos_current r1) as Hpc;
    destruct (current r1) as [c r1']; destruct (current r2) as [c' r2']; cbn [fst snd] in Ec, H1, Hc0, Hce, Hpc; subst c' end.
Ltac stn H ok ok' r1' r2' HN :=
  match type of H with EolGenRdrBase.Rin _ ?r1 ?r2 =>
    pose proof (Rin_next src HL Hlast r1 r2 H) as HN;
    destruct (next r1) as [ok r1']; destruct (next r2) as [ok' r2']; cbn [fst snd] in HN end.

Lemma Rel_next r1 r2 : Rel r1 r2 -> Rel (snd (next r1)) (snd (next r2)).
Proof.
  intros [H|[H|H]].
  - destruct (Rin_next src HL Hlast r1 r2 H) as [(_ & A & _)|(_ & _ & A & _)]; [left; exact A|right; left; exact A].
  - destruct H as (HE & HA & _). rewrite (E1_next src HL Hlast r1 HE). destruct (A2_next src HL Hlast r2 HA) as (r' & -> & He & _). cbn [snd].
    right; right. split; assumption.
  - destruct H as (HE & HE2). rewrite (E1_next src HL Hlast r1 HE), (E2_next src HL Hlast r2 HE2). right; right. split; assumption.
Qed.
Lemma Rel_tail_next r1 r2 : T0 r1 r2 \/ T1 r1 r2 -> fst (next r1) = false /\ fst (next r2) = false.
Proof.
  intros [H|H].
  - destruct H as (HE & HA & _). rewrite (E1_next src HL Hlast r1 HE). destruct (A2_next src HL Hlast r2 HA) as (r' & -> & _). split; reflexivity.
  - destruct H as (HE & HE2). rewrite (E1_next src HL Hlast r1 HE), (E2_next src HL Hlast r2 HE2). split; reflexivity.
Qed.
Lemma Rel_nextN : forall n r1 r2, Rel r1 r2 -> Rel (nextN n r1) (nextN n r2).
Proof. induction n as [|n IH]; intros r1 r2 H; [exact H|]. cbn [nextN]. apply IH, Rel_next, H. Qed.

Lemma Rin_jumped r1 r2 : Rin r1 r2 -> jumped r2 = jumped r1.
Proof. intros H. destruct (Rin_pos src HL Hlast r1 r2 H) as [A _]. destruct (Rin_prev src HL Hlast r1 r2 H) as [B _]. unfold jumped. rewrite A, B. reflexivity. Qed.

Lemma Rin_remaining r1 r2 : Rin r1 r2 ->
  Rin (snd (remainingNodeBytes r1)) (snd (remainingNodeBytes r2)) /\
  parseCharacterEscape (fst (remainingNodeBytes r2)) = parseCharacterEscape (fst (remainingNodeBytes r1)).
Proof.
  intros H. pose proof (Rin_curNode src HL Hlast r1 r2 H) as (Hn & Hr & Hin). unfold remainingNodeBytes.
  destruct (Rin_pos src HL Hlast r1 r2 H) as [Ep _]. assert (Es1 : r_src r1 = src) by apply H. assert (Es2 : r_src r2 = src2) by apply H.
  destruct (curNode r1) as [n ra]. destruct (curNode r2) as [n' ra']. cbn [fst snd] in Hn, Hr, Hin. subst n'.
  destruct n as [node|]; cbn [option_map fst snd]; [|split; [exact Hr|reflexivity]]. split; [exact Hr|].
  rewrite Es1, Es2, Ep. destruct (Hin node eq_refl) as ((G1 & G2 & G3 & G4) & Hpos & _).
  rewrite bumpI_end. destruct (ikind node =? IndentKind).
  - destruct (g_sub_app10_any src (r_pos r1) (iend node)) as [->| ->]; [reflexivity|apply pce_app10].
  - destruct (g_sub_app10_any src (r_pos r1) (bump L (iend node))) as [E|E]; rewrite E; rewrite ?pce_app10; unfold bump;
      (destruct (Z.eqb_spec (iend node) L) as [Ee|Ee]; [|reflexivity]).
    + rewrite Ee. unfold sub. f_equal. unfold upto. rewrite !firstn_all2; [reflexivity| |]; unfold from_; rewrite skipn_length; unfold len; lia.
    + rewrite Ee. unfold sub. f_equal. unfold upto. rewrite !firstn_all2; [reflexivity| |]; unfold from_; rewrite skipn_length; unfold len; lia.
Qed.

(* ---------- collectTextNodes ---------- *)
Lemma collect_exit f r e tk esc ps acc : e <= r_pos r -> collect_loop f r e tk esc ps acc = (acc, ps).
Proof. intros H. destruct f as [|f]; [reflexivity|]. cbn beta iota delta [collect_loop]. destruct (Z.leb_spec e (r_pos r)); [reflexivity|lia]. Qed.

Lemma g_skipSameNode : forall f node r1 r2, ikind node = IndentKind -> Rin r1 r2 ->
  Rel0 (skipSameNode f r1 node) (skipSameNode f r2 node).
Proof.
  induction f as [|f IH]; intros node r1 r2 Hk H; [left; exact H|]. cbn [skipSameNode]. stn H ok ok' ra ra' HN.
  destruct HN as [(Eo & Ha & _)|(Eo1 & Eo2 & HT & _)].
  - subst ok'. destruct (negb ok); [left; exact Ha|]. pose proof (Rin_curNode src HL Hlast ra ra' Ha) as (Hn & Hb & _).
    destruct (curNode ra) as [n rb]. destruct (curNode ra') as [n' rb']. cbn [fst snd] in Hn, Hb. subst n'.
    destruct n as [m|]; cbn [option_map]; [|left; exact Hb]. rewrite bumpI_kind, bumpI_start, bumpI_end.
    destruct (Z.eqb_spec (ikind m) (ikind node)) as [Ek|Nk]; cbn [andb]; [|left; exact Hb].
    rewrite Ek, Hk, Z.eqb_refl. destruct (_ && _); [apply IH; assumption|left; exact Hb].
  - subst ok ok'. cbn [negb]. destruct HT as (HE & HA & Hp). destruct (A2_curNode src HL Hlast ra' HA) as (n & Ec & Ek & _). rewrite Ec.
    replace (ikind n =? ikind node) with false by (rewrite Hk; symmetry; exact Ek). cbn [andb]. right. split; [exact HE|split; assumption].
Qed.

Lemma Rel0_prev r1 r2 : Rel0 r1 r2 -> r_prev r2 = r_prev r1.
Proof. intros [H|H]; [apply (Rin_prev src HL Hlast r1 r2 H)|apply (T0_prev src HL Hlast r1 r2 H)]. Qed.

Lemma g_collect_loop : forall f r1 r2 e tk esc ps acc, e <= L -> Rel0 r1 r2 ->
  collect_loop f r2 e tk esc ps acc = collect_loop f r1 e tk esc ps acc.
Proof.
  induction f as [|f IH]; intros r1 r2 e tk esc ps acc He HR; [reflexivity|].
  destruct HR as [H|HT].
  2:{ destruct (T0_pos src HL Hlast r1 r2 HT) as [P1 P2]. rewrite !collect_exit by lia. reflexivity. }
  cbn beta iota delta [collect_loop]. destruct (Rin_pos src HL Hlast r1 r2 H) as [Ep Hp]. rewrite Ep.
  destruct (e <=? r_pos r1); [reflexivity|].
  pose proof (Rin_curNode src HL Hlast r1 r2 H) as (Hn & H0 & Hin).
  destruct (curNode r1) as [cn r0]. destruct (curNode r2) as [cn' r0']. cbn [fst snd] in Hn, H0, Hin. subst cn'.
  replace (okind (option_map (bumpI L) cn)) with (okind cn) by (destruct cn as [m|]; cbn [option_map okind]; [rewrite bumpI_kind|]; reflexivity).
  destruct (Rin_pos src HL Hlast r0 r0' H0) as [Ep0 Hp0]. destruct (Rin_prev src HL Hlast r0 r0' H0) as [Epv0 _].
  destruct (okind cn =? IndentKind) eqn:Eik.
  { cbv zeta. rewrite Ep0, Epv0. destruct cn as [n|]; [|discriminate Eik]. cbn [okind] in Eik. apply Z.eqb_eq in Eik. cbn [option_map].
    rewrite (bumpI_indentK L n Eik).
    pose proof (g_skipSameNode (S f) n r0 r0' Eik H0) as H1. destruct (Rel0_pos src HL Hlast _ _ H1) as [Ep1 _]. rewrite Ep1. apply IH; assumption. }
  match goal with |- context [let tail := ?T in _] => set (TL := T) end. cbv zeta.
  assert (HTL : forall x x' ps0 acc0, Rel0 x x' -> TL x' ps0 acc0 = TL x ps0 acc0).
  { intros x x' ps0 acc0 [Hx|HT]; unfold TL.
    2:{ destruct (T0_pos src HL Hlast x x' HT) as [P1 P2]. rewrite P1, P2. destruct (Z.leb_spec e L); [reflexivity|lia]. }
    destruct (Rin_pos src HL Hlast x x' Hx) as [Epx _]. rewrite Epx. destruct (e <=? r_pos x); [reflexivity|].
    stn Hx ok ok' y y' HN. destruct HN as [(Eo & Hy & _)|(Eo1 & Eo2 & HT & _ & Epv)].
    - subst ok'. destruct (negb ok); [reflexivity|]. rewrite (Rin_jumped y y' Hy).
      destruct (Rin_pos src HL Hlast y y' Hy) as [Epy _]. destruct (Rin_prev src HL Hlast y y' Hy) as [Epvy _]. rewrite Epy, Epvy.
      destruct (jumped y); apply IH; try assumption; left; exact Hy.
    - subst ok ok'. cbn [negb]. destruct (T0_pos src HL Hlast y y' HT) as [P1 P2]. destruct (T0_prev src HL Hlast y y' HT) as [P3 _].
      unfold jumped. rewrite P2, P3, Epv. replace (1 <? L - (L - 1)) with false by (symmetry; apply Z.ltb_ge; lia). rewrite andb_false_r.
      apply collect_exit. lia. }
  destruct (esc && (okind cn =? UnparsedKind)); [|apply HTL; left; exact H0].
  stc H0 c ra ra' Ha Hc0 Hce Hpc.
  destruct (c =? 92).
  { stn Ha ok ok' rb rb' HN. destruct HN as [(Eo & Hb & _)|(Eo1 & Eo2 & HT & _)].
    - subst ok'. destruct (Rin_pos src HL Hlast rb rb' Hb) as [Epb _]. destruct (Rin_prev src HL Hlast rb rb' Hb) as [Epvb _]. rewrite Epb, Epvb.
      replace (cur rb') with (cur rb) by (symmetry; apply (Rin_current src HL Hlast rb rb' Hb)).
      destruct (ok && _ && _); apply HTL; left; exact Hb.
    - subst ok ok'. destruct (T0_pos src HL Hlast rb rb' HT) as [P1 P2]. rewrite P2. cbn [andb].
      replace (L <? e) with false by (symmetry; apply Z.ltb_ge; lia). cbn [andb]. apply HTL. right. exact HT. }
  destruct (c =? 38); [|apply HTL; left; exact Ha].
  pose proof (Rin_remaining ra ra' Ha) as (Hb & Epce).
  destruct (remainingNodeBytes ra) as [rem rb]. destruct (remainingNodeBytes ra') as [rem' rb']. cbn [fst snd] in Hb, Epce. rewrite Epce.
  destruct (0 <=? parseCharacterEscape rem); [|apply HTL; left; exact Hb].
  destruct (Rin_pos src HL Hlast rb rb' Hb) as [Epb _]. rewrite Epb.
  pose proof (Rel_nextN (Z.to_nat (parseCharacterEscape rem - 1)) rb rb' (or_introl Hb)) as Hc.
  set (rc := nextN _ rb) in *. set (rc' := nextN _ rb') in *. clearbody rc rc'.
  destruct Hc as [Hc|Hc].
  - stn Hc ok ok' rd rd' HN. destruct HN as [(Eo & Hd & _)|(Eo1 & Eo2 & HT & _)].
    + subst ok'. destruct (negb ok); [reflexivity|]. apply IH; [exact He|left; exact Hd].
    + subst ok ok'. cbn [negb]. destruct (T0_pos src HL Hlast rd rd' HT) as [P1 P2]. symmetry. rewrite collect_exit by lia. reflexivity.
  - destruct (Rel_tail_next rc rc' Hc) as [A B]. destruct (next rc) as [ok rd]. destruct (next rc') as [ok' rd']. cbn [fst] in A, B. subst ok ok'. reflexivity.
Qed.

(* a fresh reader over all the entries, placed anywhere: related, or both runs stop at once *)
Lemma g_collectTextNodes f sp p e tk esc : GS src sp -> e <= L ->
  collectTextNodes f (newReader src2 (bsp src sp) p) e tk esc = collectTextNodes f (newReader src sp p) e tk esc.
Proof.
  intros HG He. unfold collectTextNodes. cbn [newReader r_pos]. destruct (Z_lt_le_dec p L) as [Hp|Hp].
  - rewrite (g_collect_loop f (newReader src sp p) (newReader src2 (bsp src sp) p) e tk esc p [] He); [reflexivity|].
    left. apply Rin_new; assumption.
  - rewrite !collect_exit by (cbn [newReader r_pos]; lia). reflexivity.
Qed.

(* ---------- transformLinkReferenceSpan ---------- *)
Lemma tlr_exit f r e acc : e <= r_pos r -> tlr_loop f r e acc = acc.
Proof. intros H. destruct f as [|f]; [reflexivity|]. rewrite tlr_loop_S. destruct (Z.leb_spec e (r_pos r)); [reflexivity|lia]. Qed.

Lemma g_tlr_loop : forall f r1 r2 e acc, e <= L -> Rel0 r1 r2 -> tlr_loop f r2 e acc = tlr_loop f r1 e acc.
Proof.
  induction f as [|f IH]; intros r1 r2 e acc He HR; [reflexivity|].
  destruct HR as [H|HT].
  2:{ destruct (T0_pos src HL Hlast r1 r2 HT) as [P1 P2]. rewrite !tlr_exit by lia. reflexivity. }
  rewrite !tlr_loop_S. destruct (Rin_pos src HL Hlast r1 r2 H) as [Ep Hp]. rewrite Ep. destruct (e <=? r_pos r1); [reflexivity|].
  stc H c ra ra' Ha Hc0 Hce Hpc.
  destruct (isSpaceTabOrLineEnding c).
  - cbv zeta. set (acc' := acc ++ [32]). set (K := fun x : reader => tlr_loop f x e acc').
    assert (HK : forall x x', Rel0 x x' -> K x' = K x) by (intros x x' Hx; unfold K; apply IH; assumption).
    assert (HA : forall k x, e <= r_pos x -> tlr_skip K acc' e k x = acc').
    { intros k x Hx. destruct k as [|k]; [reflexivity|]. cbn [tlr_skip]. destruct (Z.ltb_spec (r_pos x) e); [lia|]. cbn [andb]. unfold K. apply tlr_exit, Hx. }
    assert (HS : forall k x x', Rel0 x x' -> tlr_skip K acc' e k x' = tlr_skip K acc' e k x).
    { induction k as [|k IHk]; intros x x' [Hx|HT]; [reflexivity|reflexivity| |].
      2:{ destruct (T0_pos src HL Hlast x x' HT) as [P1 P2]. rewrite !HA by lia. reflexivity. }
      cbn [tlr_skip]. destruct (Rin_pos src HL Hlast x x' Hx) as [Epx _]. rewrite Epx.
      replace (cur x') with (cur x) by (symmetry; apply (Rin_current src HL Hlast x x' Hx)).
      destruct (_ && _); [|apply HK; left; exact Hx].
      pose proof (Rin_current src HL Hlast x x' Hx) as (_ & Hx1 & _).
      stn Hx1 ok ok' y y' HN. destruct HN as [(Eo & Hy & _)|(Eo1 & Eo2 & HT & _)].
      - subst ok'. destruct ok; [apply IHk; left; exact Hy|apply HK; left; exact Hy].
      - subst ok ok'. destruct (T0_pos src HL Hlast y y' HT) as [P1 P2]. rewrite HA by lia. unfold K. symmetry. apply tlr_exit. lia. }
    stn Ha ok ok' rb rb' HN. destruct HN as [(Eo & Hb & _)|(Eo1 & Eo2 & HT & _)].
    + subst ok'. destruct (negb ok); [reflexivity|]. apply HS. left. exact Hb.
    + subst ok ok'. cbn [negb]. destruct (T0_pos src HL Hlast rb rb' HT) as [P1 P2]. apply HA. lia.
  - cbv zeta. stn Ha ok ok' rb rb' HN. destruct HN as [(Eo & Hb & _)|(Eo1 & Eo2 & HT & _)].
    + subst ok'. destruct (negb ok); [reflexivity|]. apply IH; [exact He|left; exact Hb].
    + subst ok ok'. cbn [negb]. destruct (T0_pos src HL Hlast rb rb' HT) as [P1 P2]. apply tlr_exit. lia.
Qed.
Lemma g_transformLinkReferenceSpan f sp s e : GS src sp -> e <= L ->
  transformLinkReferenceSpan f src2 (bsp src sp) s e = transformLinkReferenceSpan f src sp s e.
Proof.
  intros HG He. unfold transformLinkReferenceSpan. destruct (Z_lt_le_dec s L) as [Hp|Hp].
  - rewrite (g_tlr_loop f (newReader src sp s) (newReader src2 (bsp src sp) s) e [] He); [reflexivity|]. left. apply Rin_new; assumption.
  - rewrite !tlr_exit by (cbn [newReader r_pos]; lia). reflexivity.
Qed.
End G.
Print Assumptions g_collectTextNodes. Print Assumptions g_transformLinkReferenceSpan.
