(* C17weak.v — the two leaf constraints of the side condition (C17chk.v) are necessary for the output invariant ltokb:
   when one fails for a leaf and the output t that follows it, there is a prefix-closed predicate (reject exactly one
   well-formed name) for which the renderer's output has a surviving '<' + letter whose CommonMark tag name is rejected,
   whatever else is rendered to the left of that leaf. *)
From Coq Require Import List ZArith Lia Bool.
Import ListNotations.
Require Import Base Render MainTok C17bytes.
Open Scope Z_scope.

Definition p_exact (N n : bytes) : bool := if list_eq_dec Z.eq_dec n N then true else false.
Lemma p_exact_refl N : p_exact N N = true.
Proof. unfold p_exact. destruct (list_eq_dec Z.eq_dec N N); [reflexivity|contradiction]. Qed.
Lemma p_exact_len N n : length n <> length N -> p_exact N n = false.
Proof. intros H. unfold p_exact. destruct (list_eq_dec Z.eq_dec n N) as [->|]; [contradiction|reflexivity]. Qed.

Lemma nameCh_lower_all N : forallb nameCh N = true -> forallb nameCh (map toLowerASCII N) = true.
Proof.
  induction N as [|x r IH]; [reflexivity|]. cbn [forallb map]. intros H. apply andb_true_iff in H. destruct H as [H1 H2].
  rewrite (IH H2). destruct (name_char_facts x H1) as (_ & _ & H3). change (nameCh (toLowerASCII x)) with (is_name_char (lower x)).
  rewrite H3. reflexivity.
Qed.
Lemma p_exact_prefix_closed N : forallb nameCh N = true -> prefix_closed (p_exact (map toLowerASCII N)).
Proof.
  intros HN n H. unfold p_exact in H. destruct (list_eq_dec Z.eq_dec n (map toLowerASCII N)) as [->|]; [|discriminate].
  rewrite take_while_takeName, takeName_all by (apply nameCh_lower_all; exact HN). apply p_exact_refl.
Qed.

Lemma takeName_allname l : forallb nameCh (takeName l) = true.
Proof. induction l as [|x r IH]; [reflexivity|]. cbn [takeName]. fold (nameCh x). destruct (nameCh x) eqn:E; [|reflexivity]. cbn [forallb]. rewrite E, IH. reflexivity. Qed.
Lemma cmName_allname l : forallb nameCh (cmName l) = true.
Proof. destruct l as [|x r]; [reflexivity|]. unfold cmName. destruct (isASCIILetter x); [apply takeName_allname|reflexivity]. Qed.

Lemma ltokb_suffix p s t : ltokb p (s ++ t) = true -> ltokb p t = true.
Proof. induction s as [|x r IH]; [trivial|]. cbn [app ltokb]. intros H. apply andb_true_iff in H. apply IH, H. Qed.
Lemma ltokb_suffix_false p s t : ltokb p t = false -> ltokb p (s ++ t) = false.
Proof. intros H. destruct (ltokb p (s ++ t)) eqn:E; [|reflexivity]. apply ltokb_suffix in E. congruence. Qed.

(* ---- what a leaf can see of the output that follows it: whether it starts with a letter, and its leading run of name bytes ---- *)
Definition hceq (t t' : bytes) : Prop := startsLetter t = startsLetter t' /\ takeName t = takeName t'.
Lemma hceq_refl t : hceq t t. Proof. split; reflexivity. Qed.
Lemma startsNameCh_takeName t : startsNameCh t = match takeName t with [] => false | _ :: _ => true end.
Proof. destruct t as [|x r]; [reflexivity|]. cbn [startsNameCh takeName]. fold (nameCh x). destruct (nameCh x); reflexivity. Qed.
Lemma hceq_startsNameCh t t' : hceq t t' -> startsNameCh t = startsNameCh t'.
Proof. intros [_ H]. rewrite !startsNameCh_takeName, H. reflexivity. Qed.
Lemma hceq_app_same s t t' : hceq t t' -> hceq (s ++ t) (s ++ t').
Proof.
  intros H. split; [destruct s; [apply H|reflexivity]|]. rewrite !takeName_app. destruct H as [_ ->]. reflexivity.
Qed.
Lemma cmName_alt l : cmName l = if startsLetter l then takeName l else [].
Proof. destruct l; reflexivity. Qed.
Lemma hceq_cmName t t' : hceq t t' -> cmName t = cmName t'.
Proof. intros [H1 H2]. rewrite !cmName_alt, H1, H2. reflexivity. Qed.

(* verbatim source bytes *)
Theorem vsafe_necessary s t : vsafe s t = false ->
  exists N, forallb nameCh N = true /\
    forall pre t', hceq t t' -> ltokb (p_exact (map toLowerASCII N)) (pre ++ s ++ t') = false.
Proof.
  induction s as [|x r IH]; [discriminate|]. cbn [vsafe]. intros H. apply andb_false_iff in H. destruct H as [H|H].
  - apply negb_false_iff in H. apply andb_true_iff in H. destruct H as [H1 H2].
    exists (cmName (r ++ t)). split; [apply cmName_allname|]. intros pre t' Ht. apply ltokb_suffix_false.
    pose proof (hceq_app_same r t t' Ht) as Hr. destruct Hr as [Hr1 Hr2].
    cbn [app ltokb]. rewrite H1, <- Hr1, H2, <- (hceq_cmName _ _ (conj Hr1 Hr2)), p_exact_refl. reflexivity.
  - destruct (IH H) as (N & HN & HF). exists N. split; [exact HN|]. intros pre t' Ht.
    specialize (HF (pre ++ [x]) t' Ht). rewrite <- app_assoc in HF. exact HF.
Qed.

(* raw HTML through filterRaw *)
Lemma nameStable_false r t : nameStable r t = false ->
  startsLetter (r ++ t) = true /\ (length (cmName r) < length (cmName (r ++ t)))%nat.
Proof.
  unfold nameStable. intros H. apply negb_false_iff in H. destruct r as [|a r].
  - cbn [app]. split; [exact H|]. destruct t as [|x t]; [discriminate|]. cbn [startsLetter] in H.
    unfold cmName at 2. rewrite H. cbn [takeName]. rewrite H. cbn [orb cmName length]. lia.
  - apply andb_true_iff in H. destruct H as [H H3]. apply andb_true_iff in H. destruct H as [H1 H2].
    split; [exact H1|]. change ((a :: r) ++ t) with (a :: (r ++ t)). unfold cmName. rewrite H1.
    change (a :: (r ++ t)) with ((a :: r) ++ t). rewrite takeName_app, H2, (takeName_all _ H2), app_length.
    destruct t as [|x t]; [discriminate|]. cbn [startsNameCh] in H3. cbn [takeName]. fold (nameCh x). rewrite H3. cbn [length]. lia.
Qed.

Lemma startsLetter_filterRaw_app c r t : startsLetter (r ++ t) = true -> startsLetter (filterRaw c r ++ t) = true.
Proof.
  destruct r as [|x r]; [trivial|]. cbn [app startsLetter filterRaw]. intros H.
  destruct (Z.eqb_spec x 60) as [->|]; [discriminate|exact H].
Qed.

Theorem joinOK_necessary s t : joinOK s t = false ->
  exists N, forallb nameCh N = true /\
    forall c pre t', filterP c = p_exact (map toLowerASCII N) -> hceq t t' -> ltokb (filterP c) (pre ++ filterRaw c s ++ t') = false.
Proof.
  induction s as [|x r IH]; [discriminate|]. cbn [joinOK]. intros H. apply andb_false_iff in H. destruct H as [H|H].
  - destruct (Z.eqb_spec x 60) as [->|]; [|discriminate].
    destruct (nameStable_false r t H) as [H1 H2].
    exists (cmName (r ++ t)). split; [apply cmName_allname|]. intros c pre t' Hp Ht.
    pose proof (hceq_app_same r t t' Ht) as Hr. rewrite (hceq_cmName _ _ Hr) in *. destruct Hr as [Hr1 _]. rewrite Hr1 in H1. clear IH Hr1 Ht H t.
    rename t' into t. apply ltokb_suffix_false.
    cbn [filterRaw]. rewrite Z.eqb_refl.
    destruct (filterP c (map toLowerASCII (cmName r))) eqn:E.
    { rewrite Hp, p_exact_len in E by (rewrite !map_length; lia). discriminate. }
    cbn [app ltokb].
    rewrite Z.eqb_refl, (startsLetter_filterRaw_app c r t H1), (cmName_filterRaw_app c r t), Hp, p_exact_refl. reflexivity.
  - destruct (IH H) as (N & HN & HF). exists N. split; [exact HN|]. intros c pre t' Hp Ht.
    cbn [filterRaw]. destruct (x =? 60).
    + destruct (filterP c (map toLowerASCII (cmName r))).
      * specialize (HF c (pre ++ [38;108;116;59]) t' Hp Ht). rewrite <- !app_assoc in *. exact HF.
      * specialize (HF c (pre ++ [60]) t' Hp Ht). rewrite <- !app_assoc in *. exact HF.
    + specialize (HF c (pre ++ [x]) t' Hp Ht). rewrite <- !app_assoc in HF. exact HF.
Qed.
Print Assumptions vsafe_necessary.
Print Assumptions joinOK_necessary.
