From Coq Require Import List ZArith Lia Bool.
Import ListNotations.
Require Import Base Tree Rdr Link Collect Html Recog Inl3a Inl3b Inl3c Inl3d Inl3e Driver Props.
Require Import ShapesR ShapesComp ShapesComp3 GI6 IS2 IS6b InlineShapes SpanHypDef ShapeHypDef.
Require EntDefs.
Open Scope Z_scope.

(* The hypothesis of InlineShapes.parseInlines_shapes as an executable condition on a whole pre-inline block tree
   (ShapeHypDef.shapeHypRoots, evaluated by the check on the implementation's own pre-inline trees), and the theorem lifted to
   everything Rewrite does to a root block. *)

Lemma spOKX_eq src : forall sp, spOKX src sp = spOK src sp.
Proof. induction sp as [|i r IH]; [reflexivity|]. cbn [spOKX spOK]. rewrite IH. reflexivity. Qed.
Lemma ibudgetX_eq : forall sp, ibudgetX sp = ibudget sp.
Proof. induction sp as [|i r IH]; [reflexivity|]. cbn [ibudgetX ibudget]. rewrite IH. reflexivity. Qed.
Lemma noCSIX_eq : forall i, noCSIX i = noCSI i.
Proof.
  fix IH 1. intros [k s e ind r ks]. cbn [noCSIX noCSI].
  assert (H : forallb noCSIX ks = forallb noCSI ks).
  { induction ks as [|x l IHl]; [reflexivity|]. cbn [forallb]. rewrite (IH x), IHl. reflexivity. }
  rewrite H. reflexivity.
Qed.
Lemma forallb_ext' {A} (p q : A -> bool) : (forall x, p x = q x) -> forall l, forallb p l = forallb q l.
Proof. intros H l. induction l as [|x r IH]; [reflexivity|]. cbn [forallb]. rewrite H, IH. reflexivity. Qed.
Lemma eokX_eq u : eokX u = eok u.
Proof. unfold eokX, eok. destruct (ikids u); reflexivity. Qed.
Lemma linesOKS_eq src : forall sp, linesOKS src sp = IS6b.linesOK src sp.
Proof. induction sp as [|i r IH]; [reflexivity|]. cbn [linesOKS IS6b.linesOK]. rewrite IH. reflexivity. Qed.
Theorem bikOKX'_eq src b : bikOKX' src b = bikOK' src b.
Proof.
  unfold bikOKX', bikOK', bikOKX, bikOK. rewrite spOKX_eq, ibudgetX_eq, linesOKS_eq.
  rewrite (forallb_ext' _ _ noCSIX_eq), (forallb_ext' _ _ eokX_eq). reflexivity.
Qed.

Lemma bik_set_bik b ks : bik (set_bik b ks) = ks.
Proof. destruct b; reflexivity. Qed.

Theorem rewriteB_inline_shapes : forall fuel src matcher b,
  shapeHypB fuel src b = true -> shapesAfter fuel src matcher b = true.
Proof.
  induction fuel as [|f IH]; intros src matcher b H; [reflexivity|].
  cbn [shapeHypB] in H. cbn [shapesAfter]. destruct (isLeafU b) eqn:E.
  - cbn [rewriteB]. unfold isLeafU in E. rewrite E. rewrite bik_set_bik. apply orb_true_iff in H. destruct H as [H|H].
    + rewrite bikOKX'_eq in H. exact (parseInlines_shapes src matcher b H).
    + change (emptyOneX (bik b)) with (EntDefs.emptyOne (bik b)) in H. rewrite (EntDefs.parseInlines_emptyOne src matcher b H). reflexivity.
  - rewrite forallb_forall in H. apply forallb_forall. intros c Hc. apply IH. apply H. exact Hc.
Qed.

Theorem rewrite_roots_inline_shapes : forall roots matcher, shapeHypRoots roots = true ->
  forallb (fun r => shapesAfter (bheight (rb_blk r)) (rb_src r) matcher (rb_blk r)) roots = true.
Proof.
  intros roots matcher H. unfold shapeHypRoots in H. rewrite forallb_forall in H. apply forallb_forall.
  intros r Hr. apply rewriteB_inline_shapes. apply H. exact Hr.
Qed.

Print Assumptions bikOKX'_eq.
Print Assumptions rewrite_roots_inline_shapes.
