(* LabelNorm.v — property C12: the link-label normalisation of the model (Collect.transformLinkReferenceSpan,
   inlines.go:151) equals the CommonMark 0.30 definition, stated on byte lists without the inline reader.

   Main results (all closed under the global context):
     collapse_ws_cons / collapse_nws_cons   the two defining equations of [collapse] ("a maximal run becomes one space")
     tlr_loop_single                        the reader loop over ONE unparsed span computes [collapse]
     label_norm_single_gen                  transformLinkReferenceSpan = norm_label, weakest side conditions found
     label_norm_single                      the statement exactly as asked in TASK.txt
     collapse_idempotent, trim_collapse_idempotent, trimAsciiWs_idempotent
     label_norm_nul_needed, label_norm_a_nonneg_needed, label_norm_e_le_len_needed
                                            closed counterexamples: the side conditions that remain cannot be dropped *)
From Coq Require Import List ZArith Lia Bool.
Import ListNotations.
Require Import Base Tables Utf8 Tree Rdr Link Collect.
Open Scope Z_scope.

(* ------------------------------------------------------------------------------------------------------------- *)
(* 1. The specification: a function on byte lists that does not mention the reader                                *)
(* ------------------------------------------------------------------------------------------------------------- *)

Notation ws := isSpaceTabOrLineEnding.

(* every maximal run of space / tab / LF / CR bytes is replaced by one space (32): the space is emitted at the LAST
   byte of the run (the look-ahead keeps the recursion structural) *)
Fixpoint collapse (l : bytes) : bytes :=
  match l with
  | [] => []
  | c :: r =>
    if ws c then
      match r with
      | d :: _ => if ws d then collapse r else 32 :: collapse r
      | [] => [32]
      end
    else c :: collapse r
  end.

Definition norm_label (l : bytes) : bytes := foldString (trimAsciiWs (collapse l)).

(* the run-oriented reading of the same function: a whitespace byte emits one space and the rest of its run is dropped *)
Lemma collapse_nil : collapse [] = [].
Proof. reflexivity. Qed.

Lemma collapse_nws_cons c r : ws c = false -> collapse (c :: r) = c :: collapse r.
Proof. intros H. cbn [collapse]. rewrite H. reflexivity. Qed.

Lemma collapse_ws_cons : forall r c, ws c = true -> collapse (c :: r) = 32 :: collapse (dropWhileB ws r).
Proof.
  induction r as [|d r IH]; intros c H.
  - cbn [collapse dropWhileB]. rewrite H. reflexivity.
  - change (collapse (c :: d :: r)) with (if ws c then if ws d then collapse (d :: r) else 32 :: collapse (d :: r) else c :: collapse (d :: r)).
    rewrite H. cbn [dropWhileB]. destruct (ws d) eqn:Ed.
    + apply IH. exact Ed.
    + reflexivity.
Qed.

(* ------------------------------------------------------------------------------------------------------------- *)
(* 2. List facts about sub / dropWhileB                                                                           *)
(* ------------------------------------------------------------------------------------------------------------- *)

Lemma skipn_nth_cons : forall (k : nat) (l : bytes), (k < length l)%nat -> skipn k l = nth k l 0 :: skipn (S k) l.
Proof.
  induction k as [|k IH]; intros l H.
  - destruct l as [|x t]; [cbn in H; lia|reflexivity].
  - destruct l as [|x t]; [cbn in H; lia|]. cbn [length] in H.
    change (skipn (S k) (x :: t)) with (skipn k t). change (skipn (S (S k)) (x :: t)) with (skipn (S k) t).
    change (nth (S k) (x :: t) 0) with (nth k t 0). apply IH. lia.
Qed.

Lemma sub_cons (src : bytes) pos e : 0 <= pos -> pos < e -> e <= len src -> sub src pos e = at_ src pos :: sub src (pos + 1) e.
Proof.
  intros H0 H1 H2. unfold sub, upto, from_, at_, len in *.
  destruct (Z.ltb_spec pos 0) as [L|_]; [lia|].
  rewrite (skipn_nth_cons (Z.to_nat pos) src) by lia.
  replace (Z.to_nat (e - pos)) with (S (Z.to_nat (e - (pos + 1)))) by lia.
  replace (Z.to_nat (pos + 1)) with (S (Z.to_nat pos)) by lia.
  reflexivity.
Qed.

Lemma sub_empty (src : bytes) pos e : e <= pos -> sub src pos e = [].
Proof. intros H. unfold sub, upto. replace (Z.to_nat (e - pos)) with O by lia. reflexivity. Qed.

(* ------------------------------------------------------------------------------------------------------------- *)
(* 3. The reader over one unparsed span                                                                           *)
(* ------------------------------------------------------------------------------------------------------------- *)

Section OneSpan.
  Variables (src : bytes) (a b : Z).
  Hypothesis Ha : 0 <= a.

  Definition R1 (pos v p : Z) : reader := {| r_src := src; r_spans := [mkI UnparsedKind a b]; r_pos := pos; r_vpos := v; r_prev := p |}.
  Definition Rend (pos v p : Z) : reader := {| r_src := src; r_spans := []; r_pos := pos; r_vpos := v; r_prev := p |}.

  Lemma spanHas_n pos : a <= pos -> pos < b -> spanHas (mkI UnparsedKind a b) pos = true.
  Proof.
    intros H1 H2. unfold spanHas. cbn [istart iend mkI].
    rewrite !andb_true_iff. repeat split; try apply Z.leb_le; try apply Z.ltb_lt; lia.
  Qed.

  Lemma curNode_R1 pos v p : a <= pos -> pos < b -> curNode (R1 pos v p) = (Some (mkI UnparsedKind a b), R1 pos v p).
  Proof.
    intros H1 H2. unfold curNode, nodeIndexForPosition, R1. cbn [r_spans r_pos r_src r_vpos r_prev nodeIdx].
    replace (pos <? istart (mkI UnparsedKind a b)) with false by (symmetry; apply Z.ltb_ge; cbn [istart mkI]; lia).
    rewrite (spanHas_n pos H1 H2). reflexivity.
  Qed.

  Lemma current_R1 pos v p : a <= pos -> pos < b -> pos < len src -> at_ src pos <> 0 ->
    current (R1 pos v p) = (at_ src pos, R1 pos v p).
  Proof.
    intros H1 H2 H3 H4. unfold current. rewrite (curNode_R1 pos v p H1 H2).
    cbn [r_src r_pos R1 okind ikind mkI].
    destruct (Z.leb_spec (len src) pos) as [L|_]; [lia|].
    change (UnparsedKind =? IndentKind) with false. cbv iota.
    destruct (Z.eqb_spec (at_ src pos) 0) as [E|_]; [contradiction|reflexivity].
  Qed.

  Lemma next_R1 pos v p : a <= pos -> pos < b -> at_ src pos <> 0 ->
    next (R1 pos v p) = if pos + 1 <? b then (true, R1 (pos + 1) (if at_ src (pos + 1) =? 0 then 0 else v) pos) else (false, Rend (pos + 1) v pos).
  Proof.
    intros H1 H2 H4. unfold next. rewrite (curNode_R1 pos v p H1 H2).
    cbn [r_src r_pos r_vpos r_spans R1 ikind iend mkI tl nextSpan].
    change (UnparsedKind =? IndentKind) with false. cbn [andb negb].
    destruct (Z.eqb_spec (at_ src pos) 0) as [E|_]; [contradiction|]. cbn [andb].
    destruct (pos + 1 <? b); reflexivity.
  Qed.
End OneSpan.

(* ------------------------------------------------------------------------------------------------------------- *)
(* 4. The loop                                                                                                    *)
(* ------------------------------------------------------------------------------------------------------------- *)

(* the anonymous inner loop of tlr_loop (the "skip the rest of the whitespace run" loop), named *)
Definition tskip (f : nat) (e : Z) (acc : bytes) : nat -> reader -> bytes :=
  fix skip (k : nat) (r : reader) : bytes :=
    match k with
    | O => acc
    | S k' =>
      if (r_pos r <? e) && isSpaceTabOrLineEnding (cur r) then
        let '(ok, r') := next (snd (current r)) in if ok then skip k' r' else tlr_loop f r' e acc
      else tlr_loop f r e acc
    end.

Lemma tlr_loop_S f r e acc :
  tlr_loop (S f) r e acc =
    if e <=? r_pos r then acc else
    let '(c, r1) := current r in
    if isSpaceTabOrLineEnding c then
      let '(ok, r2) := next r1 in
      if negb ok then acc ++ [32] else tskip f e (acc ++ [32]) (S f) r2
    else
      let '(ok, r2) := next r1 in
      if negb ok then acc ++ [c] else tlr_loop f r2 e (acc ++ [c]).
Proof. reflexivity. Qed.

Lemma tskip_S f e acc k r :
  tskip f e acc (S k) r =
    if (r_pos r <? e) && isSpaceTabOrLineEnding (cur r) then
      let '(ok, r') := next (snd (current r)) in if ok then tskip f e acc k r' else tlr_loop f r' e acc
    else tlr_loop f r e acc.
Proof. reflexivity. Qed.

Lemma tlr_loop_done : forall f r e acc, e <= r_pos r -> tlr_loop f r e acc = acc.
Proof.
  intros [|f] r e acc H; [reflexivity|]. rewrite tlr_loop_S.
  destruct (Z.leb_spec e (r_pos r)) as [_|L]; [reflexivity|lia].
Qed.

Section Loop.
  Variables (src : bytes) (a b e : Z).
  Hypothesis Ha : 0 <= a.
  Hypothesis Heb : e <= b.
  Hypothesis Hel : e <= len src.

  (* the whitespace-run loop, given the outer loop at fuel f *)
  Lemma tskip_single (f : nat) :
    (forall pos v p acc, a <= pos -> pos <= e -> (forall i, pos <= i < e -> at_ src i <> 0) -> e - pos <= Z.of_nat f ->
        tlr_loop f (R1 src a b pos v p) e acc = acc ++ collapse (sub src pos e)) ->
    forall k pos v p acc, a <= pos -> pos <= e -> (forall i, pos <= i < e -> at_ src i <> 0) ->
      e - pos <= Z.of_nat f -> e - pos < Z.of_nat k ->
      tskip f e acc k (R1 src a b pos v p) = acc ++ collapse (dropWhileB ws (sub src pos e)).
  Proof.
    intros IHf. induction k as [|k IHk]; intros pos v p acc H1 H2 Hnz Hf Hk; [lia|].
    rewrite tskip_S. change (r_pos (R1 src a b pos v p)) with pos.
    destruct (Z.ltb_spec pos e) as [L|L].
    - (* a byte is left *)
      assert (Hz : at_ src pos <> 0) by (apply Hnz; lia).
      unfold cur. rewrite (current_R1 src a b Ha pos v p H1 ltac:(lia) ltac:(lia) Hz). cbn [fst snd andb].
      rewrite (sub_cons src pos e ltac:(lia) L Hel). cbn [dropWhileB].
      destruct (ws (at_ src pos)) eqn:Ew.
      + rewrite (next_R1 src a b Ha pos v p H1 ltac:(lia) Hz).
        destruct (Z.ltb_spec (pos + 1) b) as [Lb|Lb].
        * apply IHk; try lia. intros i Hi. apply Hnz. lia.
        * rewrite tlr_loop_done by (cbn [r_pos Rend]; lia).
          rewrite (sub_empty src (pos + 1) e) by lia. cbn [dropWhileB]. rewrite collapse_nil, app_nil_r. reflexivity.
      + rewrite (IHf pos v p acc H1 H2 Hnz Hf). rewrite (sub_cons src pos e ltac:(lia) L Hel). reflexivity.
    - cbn [andb]. rewrite tlr_loop_done by (cbn [r_pos R1]; lia).
      rewrite (sub_empty src pos e) by lia. cbn [dropWhileB]. rewrite collapse_nil, app_nil_r. reflexivity.
  Qed.

  (* the outer loop: started anywhere inside the span with enough fuel for the remaining bytes, it appends the
     collapsed remaining bytes *)
  Lemma tlr_loop_single : forall (f : nat) pos v p acc,
    a <= pos -> pos <= e -> (forall i, pos <= i < e -> at_ src i <> 0) -> e - pos <= Z.of_nat f ->
    tlr_loop f (R1 src a b pos v p) e acc = acc ++ collapse (sub src pos e).
  Proof.
    induction f as [|f IHf]; intros pos v p acc H1 H2 Hnz Hf.
    - rewrite tlr_loop_done by (cbn [r_pos R1]; lia).
      rewrite (sub_empty src pos e) by lia. rewrite collapse_nil, app_nil_r. reflexivity.
    - rewrite tlr_loop_S. change (r_pos (R1 src a b pos v p)) with pos.
      destruct (Z.leb_spec e pos) as [L|L].
      { rewrite (sub_empty src pos e) by lia. rewrite collapse_nil, app_nil_r. reflexivity. }
      assert (Hz : at_ src pos <> 0) by (apply Hnz; lia).
      rewrite (current_R1 src a b Ha pos v p H1 ltac:(lia) ltac:(lia) Hz).
      rewrite (next_R1 src a b Ha pos v p H1 ltac:(lia) Hz).
      rewrite (sub_cons src pos e ltac:(lia) L Hel).
      assert (Hnz' : forall i, pos + 1 <= i < e -> at_ src i <> 0) by (intros i Hi; apply Hnz; lia).
      destruct (ws (at_ src pos)) eqn:Ew.
      + rewrite (collapse_ws_cons _ _ Ew).
        destruct (Z.ltb_spec (pos + 1) b) as [Lb|Lb]; cbn [negb].
        * rewrite (tskip_single f IHf (S f) (pos + 1) _ pos (acc ++ [32])) by (try assumption; lia).
          rewrite <- app_assoc. reflexivity.
        * rewrite (sub_empty src (pos + 1) e) by lia. cbn [dropWhileB]. rewrite collapse_nil. reflexivity.
      + rewrite (collapse_nws_cons _ _ Ew).
        destruct (Z.ltb_spec (pos + 1) b) as [Lb|Lb]; cbn [negb].
        * rewrite (IHf (pos + 1) _ pos (acc ++ [at_ src pos])) by (try assumption; lia).
          rewrite <- app_assoc. reflexivity.
        * rewrite (sub_empty src (pos + 1) e) by lia. rewrite collapse_nil. reflexivity.
  Qed.
End Loop.

(* ------------------------------------------------------------------------------------------------------------- *)
(* 5. The main theorem                                                                                            *)
(* ------------------------------------------------------------------------------------------------------------- *)

(* General form, with the weakest side conditions found:
     - the span only has to cover the label (e <= b) and the label has to lie inside the source (e <= len src);
       the span itself may extend past the end of the source (b <= len src is NOT needed);
     - fuel only has to cover the label: e - s <= fuel;
     - 0 <= a is needed (spanHas rejects spans with a negative start), NUL-freeness of the label is needed (the reader
       replaces NUL by bytes of U+FFFD), e <= len src is needed (the reader yields 0 past the end): see section 7. *)
Theorem label_norm_single_gen : forall src a b s e (fuel : nat),
  0 <= a <= s -> s <= e -> e <= b -> e <= len src -> e - s <= Z.of_nat fuel ->
  (forall i, s <= i < e -> at_ src i <> 0) ->
  transformLinkReferenceSpan fuel src [mkI UnparsedKind a b] s e = norm_label (sub src s e).
Proof.
  intros src a b s e fuel [Ha Has] Hse Heb Hel Hf Hnz.
  unfold transformLinkReferenceSpan, norm_label.
  change (newReader src [mkI UnparsedKind a b] s) with (R1 src a b s 0 (-1)).
  rewrite (tlr_loop_single src a b e Ha Heb Hel fuel s 0 (-1) [] Has Hse Hnz Hf).
  reflexivity.
Qed.
Print Assumptions label_norm_single_gen.

(* The statement exactly as asked. *)
Theorem label_norm_single : forall src a b s e fuel,
  0 <= a <= s -> s <= e -> e <= b -> b <= len src -> (length src < fuel)%nat ->
  (forall i, s <= i < e -> at_ src i <> 0) ->
  transformLinkReferenceSpan fuel src [mkI UnparsedKind a b] s e = norm_label (sub src s e).
Proof.
  intros src a b s e fuel Ha Hse Heb Hbl Hf Hnz.
  apply label_norm_single_gen; try assumption; unfold len in *; lia.
Qed.
Print Assumptions label_norm_single.

(* The NUL condition as a Forall over the label bytes. *)
Lemma Forall_sub_at (P : Z -> Prop) (src : bytes) e :
  e <= len src -> forall (k : nat) s, Z.to_nat (e - s) = k -> 0 <= s ->
  Forall P (sub src s e) -> forall i, s <= i < e -> P (at_ src i).
Proof.
  intros Hel. induction k as [|k IH]; intros s Hk Hs HF i Hi; [lia|].
  rewrite (sub_cons src s e Hs ltac:(lia) Hel) in HF. inversion HF as [|x t Hx Ht]; subst.
  destruct (Z.eq_dec i s) as [->|Hne]; [exact Hx|].
  apply (IH (s + 1)); try assumption; lia.
Qed.

Theorem label_norm_single_Forall : forall src a b s e (fuel : nat),
  0 <= a <= s -> s <= e -> e <= b -> e <= len src -> e - s <= Z.of_nat fuel ->
  Forall (fun c => c <> 0) (sub src s e) ->
  transformLinkReferenceSpan fuel src [mkI UnparsedKind a b] s e = norm_label (sub src s e).
Proof.
  intros src a b s e fuel Ha Hse Heb Hel Hf HF.
  apply label_norm_single_gen; try assumption.
  apply (Forall_sub_at (fun c => c <> 0) src e Hel (Z.to_nat (e - s)) s eq_refl ltac:(lia) HF).
Qed.
Print Assumptions label_norm_single_Forall.

(* ------------------------------------------------------------------------------------------------------------- *)
(* 6. Idempotence of the whitespace part                                                                          *)
(* ------------------------------------------------------------------------------------------------------------- *)

Definition hd_nws (l : bytes) : Prop := match l with d :: _ => ws d = false | [] => True end.

(* whitespace-normal lists: every whitespace byte is a space and is not followed by a whitespace byte *)
Fixpoint wsnorm (l : bytes) : Prop :=
  match l with
  | [] => True
  | c :: r => (ws c = true -> c = 32 /\ hd_nws r) /\ wsnorm r
  end.

Lemma dropWhileB_hd : forall l, hd_nws (dropWhileB ws l).
Proof.
  induction l as [|c r IH]; [exact I|]. cbn [dropWhileB]. destruct (ws c) eqn:E; [exact IH|exact E].
Qed.

Lemma dropWhileB_id l : hd_nws l -> dropWhileB ws l = l.
Proof. destruct l as [|c r]; [reflexivity|]. cbn [hd_nws dropWhileB]. intros ->. reflexivity. Qed.

Lemma dropWhileB_length : forall l, (length (dropWhileB ws l) <= length l)%nat.
Proof.
  induction l as [|c r IH]; [cbn; lia|]. cbn [dropWhileB]. destruct (ws c); cbn [length] in *; lia.
Qed.

Lemma dropWhileB_split : forall l, exists pre, l = pre ++ dropWhileB ws l.
Proof.
  induction l as [|c r [pre IH]]; [exists []; reflexivity|]. cbn [dropWhileB]. destruct (ws c).
  - exists (c :: pre). cbn [app]. f_equal. exact IH.
  - exists []. reflexivity.
Qed.

Lemma hd_nws_app x y : hd_nws (x ++ y) -> hd_nws x.
Proof. destruct x as [|d x]; [intros _; exact I|]. cbn [app hd_nws]. tauto. Qed.

Lemma collapse_hd l : hd_nws l -> hd_nws (collapse l).
Proof.
  destruct l as [|d r]; [intros _; exact I|]. cbn [hd_nws]. intros E.
  rewrite (collapse_nws_cons d r E). exact E.
Qed.

Lemma ws_32 : ws 32 = true.
Proof. reflexivity. Qed.

Lemma collapse_wsnorm_len : forall (k : nat) l, (length l <= k)%nat -> wsnorm (collapse l).
Proof.
  induction k as [|k IH]; intros l H.
  - destruct l as [|c r]; [exact I|cbn in H; lia].
  - destruct l as [|c r]; [exact I|]. cbn [length] in H. destruct (ws c) eqn:Ec.
    + rewrite (collapse_ws_cons r c Ec). cbn [wsnorm]. split.
      * intros _. split; [reflexivity|]. apply collapse_hd, dropWhileB_hd.
      * apply IH. pose proof (dropWhileB_length r). lia.
    + rewrite (collapse_nws_cons c r Ec). cbn [wsnorm]. split.
      * intros E. congruence.
      * apply IH. lia.
Qed.

Lemma collapse_wsnorm l : wsnorm (collapse l).
Proof. apply (collapse_wsnorm_len (length l)). lia. Qed.

Lemma collapse_fix : forall l, wsnorm l -> collapse l = l.
Proof.
  induction l as [|c r IH]; [reflexivity|]. cbn [wsnorm]. intros [Hc Hr]. destruct (ws c) eqn:Ec.
  - destruct (Hc eq_refl) as [-> Hh]. rewrite (collapse_ws_cons r 32 Ec).
    rewrite (dropWhileB_id r Hh), (IH Hr). reflexivity.
  - rewrite (collapse_nws_cons c r Ec), (IH Hr). reflexivity.
Qed.

Theorem collapse_idempotent : forall l, collapse (collapse l) = collapse l.
Proof. intros l. apply collapse_fix, collapse_wsnorm. Qed.
Print Assumptions collapse_idempotent.

(* the same notion without reference to the direction of the list: used to pass through rev *)
Definition wsnorm2 (l : bytes) : Prop :=
  Forall (fun c => ws c = true -> c = 32) l /\
  (forall l1 c d l2, l = l1 ++ c :: d :: l2 -> ws c = true -> ws d = true -> False).

Lemma wsnorm_wsnorm2 : forall l, wsnorm l -> wsnorm2 l.
Proof.
  induction l as [|c r IH]; intros H.
  - split; [constructor|]. intros [|x l1] c d l2 E; discriminate.
  - cbn [wsnorm] in H. destruct H as [Hc Hr]. destruct (IH Hr) as [F N]. split.
    + constructor; [|exact F]. intros E. apply Hc, E.
    + intros [|x l1] c' d l2 E Ec Ed.
      * cbn [app] in E. inversion E; subst. destruct (Hc Ec) as [_ Hh]. cbn [hd_nws] in Hh. congruence.
      * cbn [app] in E. inversion E; subst. eapply N; [reflexivity|exact Ec|exact Ed].
Qed.

Lemma wsnorm2_wsnorm : forall l, wsnorm2 l -> wsnorm l.
Proof.
  induction l as [|c r IH]; intros [F N]; [exact I|]. cbn [wsnorm]. inversion F as [|x t Hx Ht]; subst. split.
  - intros Ec. split; [apply Hx, Ec|]. destruct r as [|d r']; [exact I|]. cbn [hd_nws].
    destruct (ws d) eqn:Ed; [|reflexivity]. exfalso. apply (N [] c d r' eq_refl Ec Ed).
  - apply IH. split; [exact Ht|]. intros l1 c' d l2 E. apply (N (c :: l1) c' d l2). cbn [app]. f_equal. exact E.
Qed.

Lemma wsnorm2_rev l : wsnorm2 l -> wsnorm2 (rev l).
Proof.
  intros [F N]. split; [apply Forall_rev, F|].
  intros l1 c d l2 E Ec Ed. apply (N (rev l2) d c (rev l1)); [|exact Ed|exact Ec].
  rewrite <- (rev_involutive l), E, rev_app_distr. cbn [rev]. rewrite <- !app_assoc. reflexivity.
Qed.

Lemma wsnorm_rev l : wsnorm l -> wsnorm (rev l).
Proof. intros H. apply wsnorm2_wsnorm, wsnorm2_rev, wsnorm_wsnorm2, H. Qed.

Lemma wsnorm_dropWhileB : forall l, wsnorm l -> wsnorm (dropWhileB ws l).
Proof.
  induction l as [|c r IH]; [intros _; exact I|]. intros H. cbn [dropWhileB]. destruct (ws c); [|exact H].
  apply IH. cbn [wsnorm] in H. apply H.
Qed.

Lemma wsnorm_trim l : wsnorm l -> wsnorm (trimAsciiWs l).
Proof. intros H. unfold trimAsciiWs. apply wsnorm_rev, wsnorm_dropWhileB, wsnorm_rev, wsnorm_dropWhileB, H. Qed.

Theorem trimAsciiWs_idempotent : forall l, trimAsciiWs (trimAsciiWs l) = trimAsciiWs l.
Proof.
  intros l. unfold trimAsciiWs.
  set (u := dropWhileB ws l). set (w := dropWhileB ws (rev u)).
  assert (Hw : hd_nws w) by apply dropWhileB_hd.
  assert (Hrw : hd_nws (rev w)).
  { destruct (dropWhileB_split (rev u)) as [pre E]. fold w in E.
    assert (Hu : hd_nws (rev (rev u))) by (rewrite rev_involutive; apply dropWhileB_hd).
    rewrite E, rev_app_distr in Hu. apply hd_nws_app in Hu. exact Hu. }
  rewrite (dropWhileB_id (rev w) Hrw), rev_involutive, (dropWhileB_id w Hw). reflexivity.
Qed.
Print Assumptions trimAsciiWs_idempotent.

Theorem trim_collapse_idempotent : forall l,
  trimAsciiWs (collapse (trimAsciiWs (collapse l))) = trimAsciiWs (collapse l).
Proof.
  intros l. rewrite (collapse_fix (trimAsciiWs (collapse l))) by apply wsnorm_trim, collapse_wsnorm.
  apply trimAsciiWs_idempotent.
Qed.
Print Assumptions trim_collapse_idempotent.

(* ------------------------------------------------------------------------------------------------------------- *)
(* 7. The remaining side conditions cannot be dropped (closed counterexamples; all other hypotheses hold)          *)
(* ------------------------------------------------------------------------------------------------------------- *)

(* "[Foo  bar\n baz]" : the example of TASK.txt, both sides are "foo bar baz" *)
Definition ex_src : bytes := [91;70;111;111;32;32;98;97;114;10;32;98;97;122;93].
Example label_norm_example :
  transformLinkReferenceSpan 16 ex_src [mkI UnparsedKind 0 15] 1 14 = [102;111;111;32;98;97;114;32;98;97;122]
  /\ norm_label (sub ex_src 1 14) = [102;111;111;32;98;97;114;32;98;97;122].
Proof. split; vm_compute; reflexivity. Qed.

(* a NUL inside the label: the reader yields 239 (first byte of U+FFFD), the specification keeps the 0 *)
Example label_norm_nul_needed :
  transformLinkReferenceSpan 16 [91;70;0;111;93] [mkI UnparsedKind 0 5] 1 4 <> norm_label (sub [91;70;0;111;93] 1 4).
Proof. intros H. vm_compute in H. discriminate H. Qed.

(* a span with a negative start is not recognised by spanHas: the loop stops after the first byte *)
Example label_norm_a_nonneg_needed :
  transformLinkReferenceSpan 16 ex_src [mkI UnparsedKind (-1) 15] 1 14 <> norm_label (sub ex_src 1 14).
Proof. intros H. vm_compute in H. discriminate H. Qed.

(* a label that extends past the end of the source (inside a span that does so too): the reader yields 0 bytes *)
Example label_norm_e_le_len_needed :
  transformLinkReferenceSpan 30 ex_src [mkI UnparsedKind 0 40] 1 17 <> norm_label (sub ex_src 1 17).
Proof. intros H. vm_compute in H. discriminate H. Qed.
