From Coq Require Import List ZArith Lia Bool.
Import ListNotations.
Require Import Base Tree Rdr Link Collect Html Recog LP Rules Starts Driver Rec16 Rec17 Rec18 L2Kind L2CC L2Bnd L2BndS
  BSDef BSTree BSLine10 BSShift BlockSpans ShDef ShSetext ShLine4 BlockShapes StreamFuel BlankPrefix C01b
  TPanicRange TDefs TInv TDesc TLine TLine2 TShift Total
  TilBase TilDefs TilOcp TilStream TilStream2 TilStream3
  EolInv EolCRBytes EolCRLFSimTree EolCRLFSimStream EolFinalDefs EolFinalSimBytes EolFinalSimTree EolFinalGenOcp EolFinalGenTree EolFinalGenClose EolFinalSimStreamBase EolFinalGenStreamInv
  EolFinalGenLine EolFinalGenEof EolFinalGenStream1 EolFinalGenStream2.
Require EolCRLFSimCtDef EolGenCtDef EolGenCtStream EolGenCt.
Require Import Props LADef.
Open Scope Z_scope.

(* C14 (i), final newline, stream level: the whole run. *)

Lemma finRoots_keep n acc : (acc = [] \/ exists a r, acc = a ++ [r] /\ rb_end r < n) -> finRoots n acc = acc.
Proof.
  intros [->|(a & r & -> & H)]; [reflexivity|]. unfold finRoots. rewrite rev_app_distr. cbn [rev app].
  replace (rb_end r =? n) with false by (symmetry; apply Z.eqb_neq; lia). reflexivity.
Qed.
Lemma finRoots_last n a r : rb_end r = n -> finRoots n (a ++ [r]) = a ++ [finRoot r].
Proof. intros H. unfold finRoots. rewrite rev_app_distr. cbn [rev app]. rewrite H, Z.eqb_refl, rev_involutive. reflexivity. Qed.

Lemma allBlocks_done fuel s acc : buf s = [] -> pending s = [] -> bi s = 0 ->
  allBlocks fuel s acc = (acc, match fuel with O => -1 | S _ => 0 end).
Proof.
  intros A B C. destruct fuel as [|f]; [reflexivity|]. cbn [allBlocks]. unfold nextBlock. rewrite B. cbn [makeRoot]. rewrite A. cbn [length Nat.add].
  rewrite skip_empty; [reflexivity|cbn [buf]; apply from_nil_any|reflexivity].
Qed.

Definition TIL (input : bytes) (s : bpst) : Prop := exists pre rest ns, BK input s pre rest /\ NB s ns.

Lemma replaceNul_app a b : C01b.replaceNul (a ++ b) = C01b.replaceNul a ++ C01b.replaceNul b.
Proof. unfold C01b.replaceNul. apply flat_map_app. Qed.
Lemma app_len_eq {A} (a b c d : list A) : a ++ b = c ++ d -> len a = len c -> a = c /\ b = d.
Proof.
  revert c. induction a as [|x a IH]; intros c E Hl; destruct c as [|y c]; unfold len in Hl; cbn [length] in Hl; try lia; [split; [reflexivity|exact E]|].
  cbn [app] in E. inversion E; subst. destruct (IH c H1 ltac:(unfold len; lia)) as [-> ->]. split; reflexivity.
Qed.

Section Sim3.
  Context {HO : OcpFinC}.
  Hypothesis H_tn : forall st K ls src, ccF K = true -> topNoLM K = true -> topNoLM (fst (fst (processLine st K ls src))) = true.
  Hypothesis H_sc : forall st K ls src L SS, EV src SS ls -> len src = L -> 0 <= ls -> ls + len (from_ src ls) = L -> lastOK (from_ src ls) ->
    ccF K = true -> forallb (qB2 L SS src) K = true -> forallb (scB L) (fst (fst (processLine st K ls src))) = true.

  Variable input : bytes.

  (* the last root block of the two runs, from the tiling facts about both *)
  Lemma last_root pre rest s1 s1' r r' (g r1 r2 g' r1' r2' pre' rest' : bytes) :
    input = pre ++ rest -> input ++ [10] = pre' ++ rest' -> len pre' = len pre ->
    rest = g ++ r1 ++ r2 -> rest' = g' ++ r1' ++ r2' ->
    rb_start r = len pre + len g -> rb_end r = rb_start r + len r1 -> rb_src r = C01b.replaceNul r1 ->
    rb_start r' = len pre' + len g' -> rb_end r' = rb_start r' + len r1' -> rb_src r' = C01b.replaceNul r1' ->
    buf s1 = pad r2 -> buf s1' = pad r2' -> RC s1 s1' -> finRaw r r' ->
    r' = finRoot r /\ rb_end r = len input.
  Proof.
    intros Ein Ein' Hlp Er Er' S1 S2 S3 S1' S2' S3' Eb Eb' (A1 & A2 & _) (F1 & F2 & F3 & F4).
    assert (R2 : r2 = []) by (apply pad_nil_inv; rewrite <- Eb; exact A1).
    assert (R2' : r2' = []) by (apply pad_nil_inv; rewrite <- Eb'; exact A2). subst r2 r2'. rewrite app_nil_r in *.
    assert (Epre : pre' = pre /\ rest' = rest ++ [10]).
    { apply app_len_eq; [rewrite <- Ein', Ein, <- app_assoc; reflexivity|exact Hlp]. }
    destruct Epre as [-> ->].
    assert (Hg : len g' = len g) by lia.
    assert (Eg : g' = g /\ r1' = r1 ++ [10]).
    { apply app_len_eq; [rewrite <- Er', Er, <- app_assoc; reflexivity|exact Hg]. }
    destruct Eg as [-> ->].
    assert (Eend : rb_end r = len input) by (rewrite S2, S1, Ein, Er, !fs_len_app; lia).
    split; [|exact Eend].
    destruct r as [l0 s0 e0 src0 b0]. destruct r' as [l1 s1x e1 src1 b1]. cbn [rb_line rb_start rb_end rb_src rb_blk] in *. unfold finRoot. cbn [rb_line rb_start rb_end rb_src rb_blk].
    rewrite F1, F2, F3, F4, S3', S3, replaceNul_app. reflexivity.
  Qed.

  Lemma sim_allBlocks : forall fuel s s' acc, PINV s -> TIL input s -> TIL (input ++ [10]) s' -> (RA s s' \/ RB s s') ->
    (acc = [] \/ exists a r, acc = a ++ [r] /\ rb_end r < len input) ->
    allBlocks fuel s' acc = (finRoots (len input) (fst (allBlocks fuel s acc)), snd (allBlocks fuel s acc)).
  Proof.
    induction fuel as [|f IH]; intros s s' acc HP HT HT' HR Hacc; [cbn [allBlocks fst snd]; rewrite finRoots_keep by exact Hacc; reflexivity|].
    cbn [allBlocks].
    assert (Hbs : 0 <= bi s <= len (buf s) /\ buf s' = buf s ++ [10] /\ boff s' = boff s).
    { destruct HR as [((E1 & E2 & _) & _ & _ & Hb)|((E1 & E2 & _) & Eb & _)]; [split; [lia|split; assumption]|split; [pose proof (len_nonneg (buf s)); lia|split; assumption]]. }
    destruct Hbs as (Hbs & Ebuf & Eoff).
    assert (Hlen : length (buf s') = S (length (buf s))) by (rewrite Ebuf, app_length; cbn [length]; lia).
    rewrite <- (nextBlock_adequate (3 + length (buf s')) s Hbs ltac:(lia)).
    pose proof (sim_nextBlock H_tn H_sc (3 + length (buf s')) s s' HP ltac:(destruct HR; [left|right; left]; assumption)) as Hsim.
    pose proof HP as (HD & (nsJ & HJ) & Htn & (nsX & HSx)).
    pose proof (nextBlock_total s HD) as HD1. rewrite <- (nextBlock_adequate (3 + length (buf s')) s Hbs ltac:(lia)) in HD1.
    pose proof (SJS_nextBlock anyBuf anyBuf_from anyBuf_upto (3 + length (buf s')) s nsJ HJ) as HJ1.
    pose proof (EolGenCtStream.SJx_nextBlock (3 + length (buf s')) s nsX HSx) as HX1.
    destruct HT as (pre & rest & ns & HB & HN). destruct HT' as (pre' & rest' & ns' & HB' & HN').
    pose proof (nextBlock_ok OcpPara_holds OcpSetext_holds input (3 + length (buf s')) s ns pre rest HB HN) as HX.
    pose proof (nextBlock_ok OcpPara_holds OcpSetext_holds (input ++ [10]) (3 + length (buf s')) s' ns' pre' rest' HB' HN') as HX'.
    destruct (nextBlock (3 + length (buf s')) s) as [r t| | |a]; destruct (nextBlock (3 + length (buf s')) s') as [r' t'| | |a']; cbn [relNB] in Hsim; try contradiction.
    - destruct HX as (g & r1 & r2 & Er & Hg & S1 & S2 & S3 & S4 & HBt & (nst & HNt)).
      destruct HX' as (g' & r1' & r2' & Er' & Hg' & S1' & S2' & S3' & S4' & HBt' & (nst' & HNt')).
      destruct HD1 as [HDt _]. destruct HJ1 as [_ (nsJt & HJt)]. destruct HX1 as [_ (nsXt & HXt)].
      destruct Hsim as [(-> & HRt & Htnt)|(Hfin & HRC)].
      + apply IH; [split; [exact HDt|split; [eexists; exact HJt|split; [exact Htnt|exists nsXt; exact HXt]]]|do 3 eexists; split; eassumption|do 3 eexists; split; eassumption|exact HRt|].
        right. exists acc, r. split; [reflexivity|].
        destruct HB as (Ein & _). destruct HBt as (_ & Ebt & _).
        assert (Hne : buf t <> []).
        { destruct HRt as [(_ & _ & _ & Hb)|((_ & _ & _ & Lok & _) & _)]; [intros E; rewrite E in Hb; cbn in Hb; lia|apply lastOK_ne, Lok]. }
        assert (R2 : r2 <> []) by (intros E; apply Hne; rewrite Ebt, E; reflexivity).
        rewrite S2, S1, Ein, Er, !fs_len_app. destruct r2 as [|x r2]; [congruence|]. rewrite len_cons. pose proof (len_nonneg r2). lia.
      + destruct HRC as (A1 & A2 & A3 & A4 & A5 & A6).
        rewrite (allBlocks_done f t (acc ++ [r]) A1 A3 A5), (allBlocks_done f t' (acc ++ [r']) A2 A4 A6). cbn [fst snd].
        destruct HB as (Ein & _ & Eo & _). destruct HB' as (Ein' & _ & Eo' & _). destruct HBt as (_ & Ebt & _). destruct HBt' as (_ & Ebt' & _).
        destruct (last_root pre rest t t' r r' g r1 r2 g' r1' r2' pre' rest' Ein Ein' ltac:(lia) Er Er' S1 S2 S3 S1' S2' S3' Ebt Ebt' (conj A1 (conj A2 (conj A3 (conj A4 (conj A5 A6))))) Hfin) as [-> Eend].
        rewrite (finRoots_last _ acc r Eend). reflexivity.
    - cbn [fst snd]. rewrite finRoots_keep by exact Hacc. reflexivity.
    - cbn [fst snd]. rewrite finRoots_keep by exact Hacc. rewrite Hsim. reflexivity.
  Qed.

  Lemma ends_split (s : bytes) : s <> [] -> endsEol s = false -> lastByte s <> 62 -> exists w c, s = w ++ [c] /\ c <> 10 /\ c <> 13 /\ c <> 62.
  Proof.
    intros Hne He Hl. destruct (@exists_last _ s Hne) as (w & c & ->). exists w, c. split; [reflexivity|].
    unfold endsEol, lastByte in *. rewrite rev_app_distr in *. cbn [rev app] in *. apply orb_false_iff in He. destruct He as [A B].
    apply Z.eqb_neq in A, B. tauto.
  Qed.
  Lemma lastOK_pad (s : bytes) : (exists w c, s = w ++ [c] /\ c <> 10 /\ c <> 13 /\ c <> 62) -> lastOK (pad s).
  Proof.
    intros (w & c & -> & A & B & C). rewrite pad_app. unfold pad at 2. cbn [flat_map]. rewrite app_nil_r. destruct (Z.eqb_spec c 0) as [->|N].
    - exists (pad w ++ [0; 0]), 0. split; [rewrite <- app_assoc; reflexivity|repeat split; discriminate].
    - exists (pad w), c. split; [reflexivity|tauto].
  Qed.

  Theorem final_newline_conditional : input <> [] -> endsEol input = false -> lastByte input <> 62 ->
    parseBlocks (input ++ [10]) = (finRoots (len input) (fst (parseBlocks input)), snd (parseBlocks input)).
  Proof.
    intros Hne He Hl. pose proof (lastOK_pad input (ends_split input Hne He Hl)) as Lok. pose proof (lastOK_pos _ Lok) as Lpos.
    unfold parseBlocks. cbv zeta. rewrite pad_app10.
    set (s0 := {| buf := pad input; bi := 0; boff := 0; bline := 1; pending := [] |}).
    set (s0' := {| buf := pad input ++ [10]; bi := 0; boff := 0; bline := 1; pending := [] |}).
    pose proof (parseBlocks_total input) as Ht. unfold parseBlocks in Ht. cbv zeta in Ht. fold s0 in Ht.
    assert (Hl2 : (S (length (pad input)) <= S (length (pad input ++ [10%Z])))%nat) by (rewrite app_length; cbn [length]; lia).
    rewrite <- (allBlocks_mono (S (length (pad input))) s0 [] ltac:(rewrite Ht; discriminate) _ Hl2).
    pose proof (len_nonneg (pad input)) as Hl0.
    apply sim_allBlocks.
    - (* the single-run invariants of the first run *)
      split; [|split; [exists true|split; [reflexivity|exists true; apply EolGenCt.X_init]]].
      + split; [exists true; unfold SI; cbn [buf bi pending s0]; repeat split; try lia|].
        split; [reflexivity|]. split; [exact I|]. intros pre c E. cbn [pending s0] in E. destruct pre; discriminate.
      + split; [|split; [split; exact I|exact I]]. split; [|split; [reflexivity|split; exact I]].
        unfold SI. cbn [buf bi pending s0]. repeat split; try lia.
    - exists [], input, true. split.
      + unfold BK, s0. cbn [buf boff bline app]. repeat split. apply nosplit_nil_l.
      + unfold NB, s0. cbn [buf bi pending]. split; [|split; [reflexivity|split; [left; reflexivity|split]]].
        * split; [|split; [reflexivity|split; exact I]]. unfold SI. cbn [buf bi pending]. repeat split; try lia.
        * apply KS_nil.
        * intros _. apply blankR_empty. lia.
    - exists [], (input ++ [10]), true. pose proof (len_nonneg (pad input ++ [10])) as Hl1. split.
      + unfold BK, s0'. cbn [buf boff bline app]. rewrite pad_app10. repeat split. apply nosplit_nil_l.
      + unfold NB, s0'. cbn [buf bi pending]. split; [|split; [reflexivity|split; [left; reflexivity|split]]].
        * split; [|split; [reflexivity|split; exact I]]. unfold SI. cbn [buf bi pending]. repeat split; try lia.
        * apply KS_nil.
        * intros _. apply blankR_empty. lia.
    - left. unfold RA, sameBut, s0, s0'. cbn [buf bi boff bline pending]. repeat split; try lia; try assumption.
    - left. reflexivity.
  Qed.
End Sim3.
