(* ItemSimReloc.v -- T65: QS2Reloc.v (T58) with the two-byte prefix "> " replaced by an arbitrary tab-free prefix `pre` of length PW
   (the list marker and its padding on the first line, PW spaces on the other lines); otherwise unchanged.
   ---- header of QS2Reloc.v ----
   QS2Reloc.v -- T58: QuoteSimReloc.v (T51, stage 2: RELOCATION) redone for documents with link reference definitions.
   Changes: the tree invariant ceB admits LinkReferenceDefinition blocks (their entries are mapped by lpMap), says that the entries of
   paragraphs / setext headings are Unparsed, and carries a predicate OP on the open paragraphs (what the reader needs: supplied by the
   driver at the start of the line); the hook equation Hocp is asked only for such blocks; addLineText returns the invariant without OP.
   ---- original header ----
   QuoteSimReloc.v -- T51 (C09, block-quote clause), stage 2: RELOCATION, the operations of the line parser.
   Plain state p: source sD, line ln starting at ls, cursor li.  Relocated state q: source sQ, line "> " ++ ln starting at lsq,
   cursor li + PW (column + PW), root = the root of p with every child mapped by M = rB sg eB lpMap.
   Hypotheses on the maps (Section variables) say how positions of the CURRENT line are mapped:
     sg (ls + x) = lsq + PW + x   for 0 <= x <= lb  (lb: length of the line without its line ending),
     eB ls = lsq,  eB (ls + x) = lsq + PW + x for 0 < x <= len ln,   sg is monotone around the line start.
   R p q is preserved by every operation of LP.v / Rules.v / Starts.v / addLineText. *)
From Coq Require Import List ZArith Lia Bool Arith.
Import ListNotations.
Require Import Base Tree Rdr Link Collect Html Recog LP Rules Starts Driver Cursor CursorX Rec17 Rec18 RecBounds L2Kind L2CC NoPanic47 QuoteSimTree QuoteSimNest QuoteSimMap QuoteSimRecog QuoteSimFuel QuoteSimQLine.
Require L2BndS SpanSmall.
Require Import LADef QuoteSimReloc.
Require QS2Reloc QuoteSimLines.
Require BSOrph.
Open Scope Z_scope.

(* ---- lists with a two-byte prefix; tab-free lists ---- *)
(* the list / column lemmas, noTab, closeBlock_S', kidIn, insideI, kidsIn are those of QuoteSimReloc *)
(* the tree invariants are those of QS2Reloc (they do not depend on the prefix) *)
Notation block_kids_ind2 := QS2Reloc.block_kids_ind2.
Notation lpOK := QS2Reloc.lpOK.
Notation lpOKk := QS2Reloc.lpOKk.
Notation lpOKk_other := QS2Reloc.lpOKk_other.
Notation lpOKk_kind := QS2Reloc.lpOKk_kind.

Section Reloc.
  Variables (sD sQ : bytes) (sg eB : Z -> Z) (lpMap : inline -> inline).
  Variables (ls lsq : Z) (ln : bytes) (lb : Z).
  Variables (pre : bytes) (PW : Z).
  Hypothesis pre_len : len pre = PW.
  Hypothesis pre_notab : noTab pre.
  Hypothesis PW_nonneg : 0 <= PW.
  Hypothesis eB_neg : forall e, e < 0 -> eB e = e.
  Hypothesis eB_pos : forall e, 0 <= e -> 0 <= eB e.
  Hypothesis ln_notab : noTab ln.
  Hypothesis lb_range : 0 <= lb <= len ln.
  Hypothesis sg_line : forall x, 0 <= x <= lb -> sg (ls + x) = lsq + PW + x.
  Hypothesis eB_ls : eB ls = lsq.
  Hypothesis eB_line : forall x, 0 < x <= len ln -> eB (ls + x) = lsq + PW + x.
  Hypothesis monoA : forall x, ls <= x -> lsq <= sg x.
  Hypothesis monoB : forall x, x < ls -> sg x < lsq.
  Hypothesis ls_nonneg : 0 <= ls.
  Hypothesis lsq_nonneg : 0 <= lsq.

  Notation M := (rB sg eB lpMap).
  Notation MR := (rRoot sg eB lpMap).
  Notation MI := (rI sg lpMap).
  Definition lnq : bytes := pre ++ ln.
  Lemma from_pre (l : bytes) i : 0 <= i -> from_ (pre ++ l) (i + PW) = from_ l i.
  Proof. intros H. rewrite <- pre_len. replace (i + len pre) with (len pre + i) by lia. apply QuoteSimLines.from_app_shift. exact H. Qed.
  Lemma at_pre (l : bytes) i : 0 <= i -> at_ (pre ++ l) (i + PW) = at_ l i.
  Proof. intros H. rewrite <- pre_len. replace (i + len pre) with (len pre + i) by lia. apply QuoteSimLines.at_app_shift. exact H. Qed.
  Lemma len_pre (l : bytes) : len (pre ++ l) = len l + PW. Proof. rewrite len_app, pre_len. lia. Qed.
  Lemma sub_pre (l : bytes) x y : 0 <= x -> sub (pre ++ l) (x + PW) (y + PW) = sub l x y.
  Proof. intros H. unfold sub. rewrite from_pre by exact H. replace (y + PW - (x + PW)) with (y - x) by lia. reflexivity. Qed.
  Lemma len_lnq : len lnq = len ln + PW. Proof. apply len_pre. Qed.
  Lemma lnq_notab : noTab lnq. Proof. unfold lnq, noTab. apply Forall_app. split; [exact pre_notab|exact ln_notab]. Qed.

  (* content of the entries: what the closing handlers read through an entry is the same in both sources *)
  Notation ceI := (QuoteSimReloc.ceI sD sQ sg).
  Notation unpK := QS2Reloc.unpK.
  (* P: what is known about the open paragraphs / setext headings *)
  Definition ceBg : (block -> Prop) -> block -> Prop := QS2Reloc.ceBg sD sQ sg.
  Definition ceLg (P : block -> Prop) (l : list block) : Prop := Forall (ceBg P) l.
  Lemma ceBg_eq P b : ceBg P b <-> (bkind b <> LinkReferenceDefinitionKind -> Forall ceI (bik b)) /\ (isParaK (bkind b) = true -> Forall unpK (bik b)) /\
                                   (isParaK (bkind b) = true -> P b) /\ Forall (lpOKk (bkind b)) (bik b) /\ ceLg P (bkids b).
  Proof. exact (QS2Reloc.ceBg_eq sD sQ sg P b). Qed.
  Variable OP : block -> Prop.
  Hypothesis OP_ext : forall x y, bik x = bik y -> bkind x = bkind y -> (isOpen y = true -> isOpen x = true) -> OP x -> OP y.
  Hypothesis OP_nil : forall x, bik x = [] -> OP x.
  Definition ceB (b : block) : Prop := ceBg OP b.
  Definition ceL (l : list block) : Prop := Forall ceB l.
  Definition ceB0 (b : block) : Prop := ceBg (fun _ => True) b.
  Definition ceL0 (l : list block) : Prop := Forall ceB0 l.
  Lemma ceB_eq b : ceB b <-> (bkind b <> LinkReferenceDefinitionKind -> Forall ceI (bik b)) /\ (isParaK (bkind b) = true -> Forall unpK (bik b)) /\
                             (isParaK (bkind b) = true -> OP b) /\ Forall (lpOKk (bkind b)) (bik b) /\ ceL (bkids b).
  Proof. apply ceBg_eq. Qed.
  Lemma ceB0_eq b : ceB0 b <-> (bkind b <> LinkReferenceDefinitionKind -> Forall ceI (bik b)) /\ (isParaK (bkind b) = true -> Forall unpK (bik b)) /\ Forall (lpOKk (bkind b)) (bik b) /\ ceL0 (bkids b).
  Proof. unfold ceB0, ceL0. rewrite ceBg_eq. unfold ceLg. split; [intros (A & B & _ & L4 & D); split; [exact A|split; [exact B|split; [exact L4|exact D]]]|intros (A & B & L4 & D); split; [exact A|split; [exact B|split; [exact (fun _ => I)|split; [exact L4|exact D]]]]]. Qed.
  Lemma ceI_lpOK u : ceI u -> lpOK u.
  Proof. intros (A & _) K. rewrite A in K. discriminate K. Qed.
  Lemma Forall_ceI_lpOK k l : k <> LinkReferenceDefinitionKind -> Forall ceI l -> Forall (lpOKk k) l.
  Proof. intros K. apply Forall_impl. intros u Hu. apply lpOKk_other; [exact K|apply ceI_lpOK, Hu]. Qed.
  Lemma ceB_weak : forall b, ceB b -> ceB0 b.
  Proof.
    apply (block_kids_ind2 (fun b => ceB b -> ceB0 b)). intros b IH H. apply ceB_eq in H. destruct H as (A & B & _ & L4 & D). apply ceB0_eq. split; [exact A|]. split; [exact B|]. split; [exact L4|].
    unfold ceL, ceL0 in *. rewrite Forall_forall in *. intros x Hx. apply IH; [exact Hx|apply D, Hx].
  Qed.

  Definition R (p q : lp) : Prop :=
    source p = sD /\ source q = sQ /\ lineStart p = ls /\ lineStart q = lsq /\ line p = ln /\ line q = lnq /\
    li q = li p + PW /\ col q = col p + PW /\ tabRem p = 0 /\ tabRem q = 0 /\
    state q = state p /\ panicked q = panicked p /\ container q = container p /\ root q = MR (root p) /\
    0 <= li p <= len ln /\ (exists d, container p = Some d /\ getAt d (root p) <> None) /\ ceB (root p).

  Ltac rsplit H :=
    match type of H with R ?p ?q =>
      let Hli := fresh "Hli" in let V := fresh "V" in let C := fresh "C" in
      let src := fresh "src" in let rt := fresh "rt" in let cont := fresh "cont" in let ls0 := fresh "ls0" in let ln0 := fresh "ln0" in
      let i := fresh "i" in let cl := fresh "cl" in let tr := fresh "tr" in let st := fresh "st" in let pn := fresh "pn" in
      let src' := fresh "src'" in let rt' := fresh "rt'" in let cont' := fresh "cont'" in let ls' := fresh "ls'" in let ln' := fresh "ln'" in
      let i' := fresh "i'" in let cl' := fresh "cl'" in let tr' := fresh "tr'" in let st' := fresh "st'" in let pn' := fresh "pn'" in
      destruct p as [src rt cont ls0 ln0 i cl tr st pn]; destruct q as [src' rt' cont' ls' ln' i' cl' tr' st' pn'];
      unfold R in H; cbn [source line root container lineStart li col tabRem state panicked] in H;
      let d := fresh "d" in
      destruct H as (-> & -> & -> & -> & -> & -> & -> & -> & -> & -> & -> & -> & -> & -> & Hli & (d & -> & V) & C) end.

  Lemma R_mk rp d i cl st pn : 0 <= i <= len ln -> getAt d rp <> None -> ceB rp ->
    R {| source := sD; root := rp; container := Some d; lineStart := ls; line := ln; li := i; col := cl; tabRem := 0; state := st; panicked := pn |}
      {| source := sQ; root := MR rp; container := Some d; lineStart := lsq; line := lnq; li := i + PW; col := cl + PW; tabRem := 0; state := st; panicked := pn |}.
  Proof. intros Hi V C. unfold R. flds. repeat split; try reflexivity; try assumption; try lia. exists d. split; [reflexivity|exact V]. Qed.

  (* the same relation with the invariant that does not speak about OP: what holds after the text of the line has been added *)
  Definition R0 (p q : lp) : Prop :=
    source p = sD /\ source q = sQ /\ lineStart p = ls /\ lineStart q = lsq /\ line p = ln /\ line q = lnq /\
    li q = li p + PW /\ col q = col p + PW /\ tabRem p = 0 /\ tabRem q = 0 /\
    state q = state p /\ panicked q = panicked p /\ container q = container p /\ root q = MR (root p) /\
    0 <= li p <= len ln /\ (exists d, container p = Some d /\ getAt d (root p) <> None) /\ ceB0 (root p).
  Lemma R0_mk rp d i cl st pn : 0 <= i <= len ln -> getAt d rp <> None -> ceB0 rp ->
    R0 {| source := sD; root := rp; container := Some d; lineStart := ls; line := ln; li := i; col := cl; tabRem := 0; state := st; panicked := pn |}
       {| source := sQ; root := MR rp; container := Some d; lineStart := lsq; line := lnq; li := i + PW; col := cl + PW; tabRem := 0; state := st; panicked := pn |}.
  Proof. intros Hi V C. unfold R0. flds. repeat split; try reflexivity; try assumption; try lia. exists d. split; [reflexivity|exact V]. Qed.
  Lemma R_weak p q : R p q -> R0 p q.
  Proof. intros H. unfold R in H. unfold R0. destruct H as (A1 & A2 & A3 & A4 & A5 & A6 & A7 & A8 & A9 & A10 & A11 & A12 & A13 & A14 & A15 & A16 & A17). repeat split; try assumption; try apply A15. apply ceB_weak, A17. Qed.
  Lemma R_state p q : R p q -> state q = state p. Proof. intros H. apply H. Qed.
  Lemma R_panicked p q : R p q -> panicked q = panicked p. Proof. intros H. apply H. Qed.
  Lemma R_li p q : R p q -> li q = li p + PW. Proof. intros H. apply H. Qed.
  Lemma R_lineP p q : R p q -> line p = ln. Proof. intros H. apply H. Qed.
  Lemma R_lineQ p q : R p q -> line q = lnq. Proof. intros H. apply H. Qed.
  Lemma R_lsP p q : R p q -> lineStart p = ls. Proof. intros H. apply H. Qed.
  Lemma R_lsQ p q : R p q -> lineStart q = lsq. Proof. intros H. apply H. Qed.
  Lemma R_srcP p q : R p q -> source p = sD. Proof. intros H. apply H. Qed.
  Lemma R_srcQ p q : R p q -> source q = sQ. Proof. intros H. apply H. Qed.
  Lemma R_liR p q : R p q -> 0 <= li p <= len ln. Proof. intros H. apply H. Qed.
  Lemma R_cont p q : R p q -> container q = container p. Proof. intros H. apply H. Qed.
  Lemma R_cdepth p q : R p q -> cdepth q = cdepth p. Proof. intros H. unfold cdepth. rewrite (R_cont _ _ H). reflexivity. Qed.
  Lemma R_root p q : R p q -> root q = MR (root p). Proof. intros H. apply H. Qed.
  Lemma R_ce p q : R p q -> ceB (root p). Proof. intros H. apply H. Qed.
  Lemma R_valid p q : R p q -> getAt (cdepth p) (root p) <> None.
  Proof. intros H. destruct H as (_ & _ & _ & _ & _ & _ & _ & _ & _ & _ & _ & _ & _ & _ & _ & (d & E & V) & _). unfold cdepth. rewrite E. exact V. Qed.
  Lemma R_some p q : R p q -> container p = Some (cdepth p).
  Proof. intros H. destruct H as (_ & _ & _ & _ & _ & _ & _ & _ & _ & _ & _ & _ & _ & _ & _ & (d & E & V) & _). unfold cdepth. rewrite E. reflexivity. Qed.
  Lemma R_tabP p q : R p q -> tabRem p = 0. Proof. intros H. apply H. Qed.

  (* ---- cursor-only operations ---- *)
  Lemma R_withState p q s : R p q -> R (withState p s) (withState q s).
  Proof. intros H. rsplit H. unfold withState. flds. apply R_mk; assumption. Qed.
  Lemma R_panic p q n : R p q -> R (panic p n) (panic q n).
  Proof. intros H. rsplit H. unfold panic. flds. apply R_mk; assumption. Qed.
  Lemma R_opened p q : R p q ->
    R (if state p =? stOpening then withState p stOpenMatched else p) (if state q =? stOpening then withState q stOpenMatched else q).
  Proof. intros H. rewrite (R_state _ _ H). destruct (_ =? _); [apply R_withState, H|exact H]. Qed.
  Lemma R_cursor p q i cl : R p q -> 0 <= i <= len ln -> R (withCursor p i cl 0) (withCursor q (i + PW) (cl + PW) 0).
  Proof. intros H Hi. rsplit H. unfold withCursor. flds. apply R_mk; assumption. Qed.

  Lemma R_rest p q : R p q -> rest q = rest p.
  Proof. intros H. rsplit H. unfold rest. flds. unfold lnq. apply from_pre. lia. Qed.
  Lemma R_bai p q : R p q -> bytesAfterIndent q = bytesAfterIndent p.
  Proof. intros H. unfold bytesAfterIndent. rewrite (R_rest _ _ H). reflexivity. Qed.
  Lemma R_isRestBlank p q : R p q -> isRestBlank q = isRestBlank p.
  Proof. intros H. unfold isRestBlank. rewrite (R_rest _ _ H). reflexivity. Qed.
  Lemma R_indent p q : R p q -> indent q = indent p.
  Proof.
    intros H. rsplit H. unfold indent. flds. unfold lnq. rewrite len_pre, at_pre by lia.
    destruct (Z.leb_spec (len ln) i); destruct (Z.leb_spec (len ln + PW) (i + PW)); try lia. cbv zeta.
    replace (i + PW + 1) with (i + 1 + PW) by lia. rewrite from_pre by lia. rewrite (noTab_at ln i ln_notab).
    destruct (_ =? 32); [|reflexivity]. f_equal. apply columnWidth_notab. apply noTab_upto, noTab_from, ln_notab.
  Qed.

  Lemma R_advance p q n : R p q -> R (advance p n) (advance q n).
  Proof.
    intros H. unfold advance. destruct (Z.ltb_spec n 0); [apply R_panic, H|]. destruct (Z.eqb_spec n 0); [exact H|]. cbv zeta.
    pose proof (R_opened _ _ H) as H1.
    set (p1 := if state p =? stOpening then withState p stOpenMatched else p) in *.
    set (q1 := if state q =? stOpening then withState q stOpenMatched else q) in *. clearbody p1 q1.
    pose proof (R_cursor p1 q1 (li p1 + n) (col p1 + columnWidth (col p1) (sub ln (li p1) (li p1 + n))) H1) as HC.
    rsplit H1. flds. unfold lnq. rewrite len_pre.
    destruct (Z.ltb_spec (len ln) (i + n)); destruct (Z.ltb_spec (len ln + PW) (i + PW + n)); try lia; [unfold panic; flds; apply R_mk; assumption|].
    rewrite at_pre by lia. rewrite (noTab_at ln i ln_notab), !andb_false_r.
    replace (i + PW + n) with (i + n + PW) by lia. rewrite sub_pre by lia.
    rewrite (computeTabRem_notab ln _ _ ln_notab). fold lnq. rewrite (computeTabRem_notab lnq _ _ lnq_notab).
    rewrite (columnWidth_notab (cl + PW) cl) by (apply noTab_sub, ln_notab).
    specialize (HC ltac:(flds; lia)). unfold withCursor in *. flds. fldsin HC.
    replace (cl + PW + columnWidth cl (sub ln i (i + n))) with (cl + columnWidth cl (sub ln i (i + n)) + PW) by lia. exact HC.
  Qed.
  Lemma R_consumeLine p q : R p q -> R (consumeLine p) (consumeLine q).
  Proof.
    intros H. unfold consumeLine. cbv zeta. rewrite (R_lineP _ _ H), (R_lineQ _ _ H), (R_li _ _ H), !len_lnq.
    replace (len ln + PW - (li p + PW)) with (len ln - li p) by lia.
    pose proof (R_advance _ _ (len ln - li p) H) as H1. set (p1 := advance p _) in *. set (q1 := advance q _) in *. clearbody p1 q1.
    rewrite (R_state _ _ H1). destruct (_ || _); [apply R_withState, H1|]. destruct (_ =? stDescending); [apply R_withState, H1|exact H1].
  Qed.
  Lemma R_consumeIndent_loop : forall f f' p q n, R p q -> (len ln - li p < Z.of_nat f) -> (len ln - li p < Z.of_nat f') ->
    R (consumeIndent_loop f p n) (consumeIndent_loop f' q n).
  Proof.
    induction f as [|f IH]; intros f' p q n H Hf Hf'; [pose proof (R_liR _ _ H); lia|]. destruct f' as [|f']; [pose proof (R_liR _ _ H); lia|].
    cbn [consumeIndent_loop]. destruct (n <=? 0); [exact H|]. cbv zeta.
    pose proof (R_opened _ _ H) as H1.
    assert (El : li (if state p =? stOpening then withState p stOpenMatched else p) = li p) by (destruct (_ =? _); reflexivity).
    set (p1 := if state p =? stOpening then withState p stOpenMatched else p) in *.
    set (q1 := if state q =? stOpening then withState q stOpenMatched else q) in *. clearbody p1 q1.
    pose proof (fun i cl Hi => R_cursor p1 q1 i cl H1 Hi) as HC.
    rsplit H1. flds. fldsin El. subst i. unfold lnq. rewrite len_pre, at_pre by lia. fold lnq.
    rewrite (noTab_at ln (li p) ln_notab), !andb_false_r.
    rewrite !(computeTabRem_notab ln _ _ ln_notab), !(computeTabRem_notab lnq _ _ lnq_notab).
    destruct (Z.ltb_spec (li p) (len ln)) as [L|L]; destruct (Z.ltb_spec (li p + PW) (len ln + PW)) as [L'|L']; try lia; cbn [andb].
    - destruct (at_ ln (li p) =? 32).
      + replace (li p + PW + 1) with (li p + 1 + PW) by lia. replace (cl + PW + 1) with (cl + 1 + PW) by lia.
        apply IH; [apply (HC (li p + 1) (cl + 1)); lia|unfold withCursor; flds; lia|unfold withCursor; flds; lia].
      + unfold panic. flds. apply R_mk; assumption.
    - unfold panic. flds. apply R_mk; assumption.
  Qed.
  Lemma R_consumeIndent p q n : R p q -> R (consumeIndent p n) (consumeIndent q n).
  Proof.
    intros H. unfold consumeIndent. rewrite (R_lineP _ _ H), (R_lineQ _ _ H). pose proof (R_liR _ _ H).
    apply R_consumeIndent_loop; [exact H| |]; unfold lnq, len in *; rewrite ?app_length; lia.
  Qed.

  (* ---- the entry map ---- *)
  Hypothesis lp_kind : forall u, ikind (lpMap u) = ikind u.
  Lemma ikind_mvI n u : ikind (mvI n u) = ikind u. Proof. destruct u; reflexivity. Qed.
  Lemma istart_mvI n u : istart (mvI n u) = istart u + n. Proof. destruct u; reflexivity. Qed.
  Lemma iend_mvI n u : iend (mvI n u) = iend u + n. Proof. destruct u; reflexivity. Qed.
  Lemma ikind_MI u : ikind (MI u) = ikind u.
  Proof. unfold rI. destruct (isLinkPart (ikind u)); [apply lp_kind|apply ikind_mvI]. Qed.
  Lemma MI_plain u : isLinkPart (ikind u) = false -> MI u = mvI (sg (istart u) - istart u) u.
  Proof. intros H. unfold rI. rewrite H. reflexivity. Qed.
  Lemma isLinkPart_Text : isLinkPart TextKind = false. Proof. reflexivity. Qed.
  Lemma isLinkPart_Soft : isLinkPart SoftLineBreakKind = false. Proof. reflexivity. Qed.

  (* what a Text entry covers is the same in both sources *)
  Lemma ceI_sub u : ceI u -> ikind u = TextKind -> sub sQ (istart (MI u)) (iend (MI u)) = sub sD (istart u) (iend u).
  Proof.
    intros (Hl & _ & _ & _ & _ & _ & H & _) Hk.
    rewrite (MI_plain u Hl), istart_mvI, iend_mvI. rewrite <- H. f_equal; lia.
  Qed.

  Lemma trimBlankTail_MI : forall rk, Forall ceI rk -> trimBlankTail sQ (map MI rk) = map MI (trimBlankTail sD rk).
  Proof.
    induction rk as [|c r IH]; intros H; [reflexivity|]. inversion H as [|? ? Hc Hr]. cbn [map trimBlankTail]. rewrite ikind_MI.
    destruct (Z.eqb_spec (ikind c) TextKind) as [Ek|Ek]; cbn [andb]; [|reflexivity].
    rewrite (ceI_sub c Hc Ek). destruct (isBlankLine _); [apply IH, Hr|reflexivity].
  Qed.
  Lemma Forall_rev' {A} (P : A -> Prop) l : Forall P l -> Forall P (rev l).
  Proof. intros H. apply Forall_forall. intros x Hx. rewrite Forall_forall in H. apply H, in_rev, Hx. Qed.
  Lemma trimBlankTail_sub' src : forall rk x, In x (trimBlankTail src rk) -> In x rk.
  Proof. induction rk as [|c r IH]; intros x H; [exact H|]. cbn [trimBlankTail] in H. destruct (_ && _); [right; apply IH, H|exact H]. Qed.
  Lemma set_bik_M b ik : set_bik (M b) (map MI ik) = M (set_bik b ik). Proof. destruct b; reflexivity. Qed.

  Lemma onCloseIndented_M b : Forall ceI (bik b) -> onCloseIndented sQ (M b) = M (onCloseIndented sD b).
  Proof.
    intros H. unfold onCloseIndented. cbv zeta. rewrite bik_rB.
    set (ik1 := match rev (bik b) with
                | last :: prev :: r => if (ikind last =? SoftLineBreakKind) && (iend last - istart last =? 0) && (ikind prev =? TextKind) && isBlankLine (sub sD (istart prev) (iend prev)) then rev (prev :: r) else bik b
                | _ => bik b end).
    assert (E1 : match rev (map MI (bik b)) with
                | last :: prev :: r => if (ikind last =? SoftLineBreakKind) && (iend last - istart last =? 0) && (ikind prev =? TextKind) && isBlankLine (sub sQ (istart prev) (iend prev)) then rev (prev :: r) else map MI (bik b)
                | _ => map MI (bik b) end = map MI ik1).
    { unfold ik1. rewrite <- map_rev. pose proof (Forall_rev' _ _ H) as Hr. destruct (rev (bik b)) as [|lst [|prev r]]; try reflexivity. cbn [map].
      inversion Hr as [|? ? Hl Hr1]. inversion Hr1 as [|? ? Hp Hr2]. rewrite !ikind_MI.
      destruct (Z.eqb_spec (ikind lst) SoftLineBreakKind) as [Ek|Ek]; cbn [andb]; [|reflexivity].
      assert (Hll : isLinkPart (ikind lst) = false) by (rewrite Ek; reflexivity).
      rewrite (MI_plain lst Hll), istart_mvI, iend_mvI. replace (iend lst + _ - (istart lst + _)) with (iend lst - istart lst) by lia.
      destruct (_ =? 0); cbn [andb]; [|reflexivity]. destruct (Z.eqb_spec (ikind prev) TextKind) as [Ep|Ep]; cbn [andb]; [|reflexivity].
      rewrite (ceI_sub prev Hp Ep). destruct (isBlankLine _); [|reflexivity].
      change (MI prev :: map MI r) with (map MI (prev :: r)). rewrite <- map_rev. reflexivity. }
    rewrite E1. assert (Hik1 : Forall ceI ik1).
    { unfold ik1. destruct (rev (bik b)) as [|lst [|prev r]] eqn:Er; try exact H. destruct (_ && _ && _ && _); [|exact H].
      apply Forall_forall. intros x Hx. rewrite Forall_forall in H. apply H. apply in_rev. rewrite Er. right. apply in_rev in Hx. exact Hx. }
    rewrite <- map_rev, (trimBlankTail_MI _ (Forall_rev' _ _ Hik1)), <- map_rev. apply set_bik_M.
  Qed.
  Lemma ceB_same b b' : bkind b' = bkind b -> bik b' = bik b -> bkids b' = bkids b -> (isOpen b' = true -> isOpen b = true) -> ceB b -> ceB b'.
  Proof.
    intros E0 E1 E2 Eo H. apply ceB_eq. rewrite E0, E1, E2. apply ceB_eq in H. destruct H as (A & B & C & L4 & D). split; [exact A|]. split; [exact B|]. split; [|split; [exact L4|exact D]].
    intros K. apply (OP_ext b b'); [symmetry; exact E1|symmetry; exact E0|exact Eo|apply C, K].
  Qed.
  Lemma ceB_kids b : ceB b -> ceL (bkids b). Proof. intros H. apply ceB_eq in H. apply H. Qed.
  Lemma ceB_ik b : ceB b -> bkind b <> LinkReferenceDefinitionKind -> Forall ceI (bik b). Proof. intros H K. apply ceB_eq in H. apply H, K. Qed.
  Lemma ceB_set_bkids b ks : ceB b -> ceL ks -> ceB (set_bkids b ks).
  Proof.
    intros H Hk. apply ceB_eq in H. destruct H as (A & B & C & L4 & _). apply ceB_eq.
    assert (E : bkind (set_bkids b ks) = bkind b /\ bik (set_bkids b ks) = bik b /\ bkids (set_bkids b ks) = ks /\ isOpen (set_bkids b ks) = isOpen b) by (destruct b; repeat split).
    destruct E as (E0 & E1 & E2 & E3). rewrite E0, E1, E2. split; [exact A|]. split; [exact B|]. split; [|split; [exact L4|exact Hk]].
    intros K. apply (OP_ext b); [symmetry; exact E1|symmetry; exact E0|rewrite E3; exact (fun h => h)|apply C, K].
  Qed.
  (* the entries of a block that is neither a paragraph nor a definition may be replaced *)
  Lemma ceB_set_bik b ik : ceB b -> isParaK (bkind b) = false -> bkind b <> LinkReferenceDefinitionKind -> Forall ceI ik -> ceB (set_bik b ik).
  Proof.
    intros H Kq Kl Hk. apply ceB_eq in H. destruct H as (_ & _ & _ & _ & D). apply ceB_eq.
    assert (E : bkind (set_bik b ik) = bkind b /\ bik (set_bik b ik) = ik /\ bkids (set_bik b ik) = bkids b) by (destruct b; repeat split).
    destruct E as (E0 & E1 & E2). rewrite E0, E1, E2, Kq. split; [intros _; exact Hk|]. split; [discriminate|]. split; [discriminate|]. split; [apply Forall_ceI_lpOK; [exact Kl|exact Hk]|exact D].
  Qed.
  Lemma onCloseIndented_ce b : ceB b -> bkind b = IndentedCodeBlockKind -> ceB (onCloseIndented sD b).
  Proof.
    intros H K. pose proof (ceB_ik b H ltac:(rewrite K; discriminate)) as Hi. unfold onCloseIndented. cbv zeta.
    apply ceB_set_bik; [exact H|rewrite K; reflexivity|rewrite K; discriminate|].
    apply Forall_forall. intros x Hx. rewrite Forall_forall in Hi. apply Hi.
    apply in_rev in Hx. apply trimBlankTail_sub' in Hx. apply in_rev in Hx.
    destruct (rev (bik b)) as [|lst [|prev r]] eqn:Er; try exact Hx. destruct (_ && _ && _ && _); [|exact Hx].
    apply in_rev. rewrite Er. right. apply in_rev in Hx. exact Hx.
  Qed.
  Lemma ceB_lastBlock b c : ceB b -> lastBlock b = Some c -> ceB c.
  Proof. intros H El. pose proof (ceB_kids _ H) as Hk. unfold ceL in Hk. rewrite Forall_forall in Hk. apply Hk, lastBlock_in, El. Qed.
  Lemma removelast_In' {A} (l : list A) x : In x (removelast l) -> In x l.
  Proof. induction l as [|y l IH]; [exact (fun H => H)|]. destruct l as [|z l]; [intros []|]. intros [->|H]; [left; reflexivity|right; apply IH, H]. Qed.
  Lemma ceB_set_lastBlocks b repl : ceB b -> ceL repl -> ceB (set_lastBlocks b repl).
  Proof.
    intros H Hr. unfold set_lastBlocks. apply ceB_set_bkids; [exact H|]. apply Forall_app. split; [|exact Hr].
    pose proof (ceB_kids _ H) as Hk. unfold ceL in *. rewrite Forall_forall in *. intros x Hx. apply Hk, removelast_In', Hx.
  Qed.
  Lemma ceB_updAt f : forall d b, ceB b -> (forall x, getAt d b = Some x -> ceB x -> ceB (f x)) -> ceB (updAt d f b).
  Proof.
    induction d as [|d IH]; intros b H Hf; cbn [updAt]; [apply Hf; [reflexivity|exact H]|].
    destruct (lastBlock b) as [c|] eqn:El; [|exact H]. apply ceB_set_lastBlocks; [exact H|]. constructor; [|constructor].
    apply IH; [apply (ceB_lastBlock b c H El)|]. intros x Hx. apply Hf. cbn [getAt]. rewrite El. exact Hx.
  Qed.
  Lemma ceB_getAt : forall d b x, ceB b -> getAt d b = Some x -> ceB x.
  Proof.
    induction d as [|d IH]; intros b x H Hx; cbn [getAt] in Hx; [inversion Hx; subst; exact H|].
    destruct (lastBlock b) as [c|] eqn:El; [|discriminate]. apply (IH c x (ceB_lastBlock b c H El) Hx).
  Qed.
  Lemma ceB_onCloseList b : ceB b -> ceB (onCloseList b).
  Proof.
    intros H. unfold onCloseList. cbv zeta. destruct (bloose b || _); [|exact H].
    apply ceB_set_bkids; [apply (ceB_same b); [destruct b; reflexivity|destruct b; reflexivity|destruct b; reflexivity|destruct b; exact (fun h => h)|exact H]|].
    pose proof (ceB_kids _ H) as Hk. unfold ceL in *. rewrite Forall_forall in *. intros x Hx. apply in_map_iff in Hx. destruct Hx as (y & <- & Hy).
    apply (ceB_same y); [destruct y; reflexivity|destruct y; reflexivity|destruct y; reflexivity|destruct y; exact (fun h => h)|apply Hk, Hy].
  Qed.
  Lemma ceB_OP b : ceB b -> isParaK (bkind b) = true -> OP b.
  Proof. intros H K. apply ceB_eq in H. apply H; assumption. Qed.

  (* ---- closing ---- *)
  (* the hook of paragraphs and setext headings: when an open block is closed, and when the setext start looks at an open paragraph *)
  Hypothesis HocpC : forall b e, ceB b -> isParaK (bkind b) = true -> isOpen b = true -> 0 <= e ->
    onCloseParagraph sQ (M (set_bend b e)) = map M (onCloseParagraph sD (set_bend b e)) /\ ceL (onCloseParagraph sD (set_bend b e)).
  Hypothesis HocpP : forall b, ceB b -> bkind b = ParagraphKind -> onCloseParagraph sQ (M b) = map M (onCloseParagraph sD b).
  Lemma set_bend_M b e : set_bend (M b) (eB e) = M (set_bend b e). Proof. destruct b; reflexivity. Qed.

  Lemma closeBlock_M : forall fuel b e, 0 <= e -> ceB b ->
    closeBlock fuel sQ (M b) (eB e) = map M (closeBlock fuel sD b e) /\ ceL (closeBlock fuel sD b e).
  Proof.
    induction fuel as [|f IH]; intros b e He H; [split; [reflexivity|constructor; [exact H|constructor]]|].
    rewrite !closeBlock_S'. rewrite (isOpen_rB sg eB lpMap eB_neg eB_pos). destruct (isOpen b) eqn:Hob; cbn [negb]; [|split; [reflexivity|constructor; [exact H|constructor]]].
    cbv zeta. rewrite set_bend_M, bkind_rB.
    assert (Hcl : isOpen (set_bend b e) = false) by (destruct b; unfold isOpen; cbn [set_bend bend]; apply Z.ltb_ge; exact He).
    assert (H1 : ceB (set_bend b e)) by (apply (ceB_same b); [destruct b; reflexivity|destruct b; reflexivity|destruct b; reflexivity|intros _; exact Hob|exact H]).
    assert (CL : forall x, ceB x ->
              match lastBlock (M x) with Some c => set_lastBlocks (M x) (closeBlock f sQ c (eB e)) | None => M x end =
              M (match lastBlock x with Some c => set_lastBlocks x (closeBlock f sD c e) | None => x end) /\
              ceB (match lastBlock x with Some c => set_lastBlocks x (closeBlock f sD c e) | None => x end)).
    { intros x Hx. rewrite lastBlock_rB. destruct (lastBlock x) as [c|] eqn:El; cbn [option_map]; [|split; [reflexivity|exact Hx]].
      destruct (IH c e He (ceB_lastBlock x c Hx El)) as [E1 E2]. rewrite E1. split; [apply set_lastBlocks_rB|apply ceB_set_lastBlocks; assumption]. }
    assert (Ek1 : bkind (set_bend b e) = bkind b) by (destruct b; reflexivity).
    destruct (Z.eqb_spec (bkind (set_bend b e)) ListKind) as [El|Nl].
    { rewrite (onCloseList_rB sg eB lpMap). destruct (CL (onCloseList (set_bend b e)) (ceB_onCloseList _ H1)) as [E1 E2]. rewrite E1.
      split; [reflexivity|constructor; [exact E2|constructor]]. }
    destruct (Z.eqb_spec (bkind (set_bend b e)) IndentedCodeBlockKind) as [Ei|Ni].
    { rewrite (onCloseIndented_M _ (ceB_ik _ H1 ltac:(rewrite Ei; discriminate))). destruct (CL (onCloseIndented sD (set_bend b e)) (onCloseIndented_ce _ H1 Ei)) as [E1 E2]. rewrite E1.
      split; [reflexivity|constructor; [exact E2|constructor]]. }
    destruct ((bkind (set_bend b e) =? ParagraphKind) || (bkind (set_bend b e) =? SetextHeadingKind)) eqn:Ep.
    { rewrite Ek1 in Ep. apply (HocpC b e H Ep Hob He). }
    destruct (CL (set_bend b e) H1) as [E1 E2]. rewrite E1. split; [reflexivity|constructor; [exact E2|constructor]].
  Qed.

  (* ---- updates on the spine ---- *)
  Lemma R_updAt p q dd f g : R p q -> (dd <= cdepth p)%nat ->
    (dd = O -> g (MR (root p)) = MR (f (root p))) ->
    (forall x, (1 <= dd)%nat -> getAt dd (root p) = Some x -> g (M x) = M (f x)) ->
    (forall x, getAt dd (root p) = Some x -> ceB x -> ceB (f x)) ->
    R (withCont (withRoot p (updAt dd f (root p))) (Some dd)) (withCont (withRoot q (updAt dd g (root q))) (Some dd)).
  Proof.
    intros H Hle H0 H1 Hc. rsplit H. cbn [root cdepth container] in *. unfold withCont, withRoot. flds.
    rewrite (updAt_rRoot sg eB lpMap f g dd rt H0 H1). apply R_mk; [exact Hli| |apply ceB_updAt; assumption].
    destruct (getAt d rt) as [y|] eqn:Ey; [|contradiction].
    destruct (getAt_le _ dd rt y Hle Ey) as (x & Hx). destruct (getAt_updAt_exists f dd rt x Hx) as (z & Hz). rewrite Hz. discriminate.
  Qed.
  Lemma withCont_same p : withCont p (container p) = p. Proof. destruct p; reflexivity. Qed.
  Lemma R_updCont p q f g : R p q ->
    (cdepth p = O -> g (MR (root p)) = MR (f (root p))) ->
    (forall x, (1 <= cdepth p)%nat -> getAt (cdepth p) (root p) = Some x -> g (M x) = M (f x)) ->
    (forall x, getAt (cdepth p) (root p) = Some x -> ceB x -> ceB (f x)) ->
    R (updCont p f) (updCont q g).
  Proof.
    intros H H0 H1 Hc. pose proof (R_updAt p q (cdepth p) f g H (le_n _) H0 H1 Hc) as X.
    pose proof (R_some _ _ H) as Es. pose proof (R_cont _ _ H) as Ec. unfold updCont. rewrite (R_cdepth _ _ H).
    destruct p as [src rt cont ls0 ln0 i cl tr st pn]; destruct q as [src' rt' cont' ls' ln' i' cl' tr' st' pn']. cbn [container cdepth] in *. subst cont'.
    destruct cont as [d|]; [|discriminate]. exact X.
  Qed.

  (* an update of the container that only keeps the invariant without OP *)
  Lemma ceB0_set_lastBlocks b repl : ceB0 b -> ceL0 repl -> ceB0 (set_lastBlocks b repl).
  Proof.
    intros H Hr. apply ceB0_eq in H. destruct H as (A & B & L4 & D). apply ceB0_eq.
    assert (E : bkind (set_lastBlocks b repl) = bkind b /\ bik (set_lastBlocks b repl) = bik b /\ bkids (set_lastBlocks b repl) = removelast (bkids b) ++ repl) by (destruct b; repeat split).
    destruct E as (E0 & E1 & E2). rewrite E0, E1, E2. split; [exact A|]. split; [exact B|]. split; [exact L4|]. apply Forall_app. split; [|exact Hr].
    unfold ceL0 in *. rewrite Forall_forall in *. intros x Hx. apply D, removelast_In', Hx.
  Qed.
  Lemma ceB0_updAt_w f : forall d b, ceB b -> (forall x, getAt d b = Some x -> ceB x -> ceB0 (f x)) -> ceB0 (updAt d f b).
  Proof.
    induction d as [|d IH]; intros b H Hf; cbn [updAt]; [apply Hf; [reflexivity|exact H]|].
    destruct (lastBlock b) as [c|] eqn:El; [|apply ceB_weak, H]. apply ceB0_set_lastBlocks; [apply ceB_weak, H|]. constructor; [|constructor].
    apply IH; [apply (ceB_lastBlock b c H El)|]. intros x Hx. apply Hf. cbn [getAt]. rewrite El. exact Hx.
  Qed.
  Lemma R_updCont0 p q f g : R p q ->
    (cdepth p = O -> g (MR (root p)) = MR (f (root p))) ->
    (forall x, (1 <= cdepth p)%nat -> getAt (cdepth p) (root p) = Some x -> g (M x) = M (f x)) ->
    (forall x, getAt (cdepth p) (root p) = Some x -> ceB x -> ceB0 (f x)) ->
    R0 (updCont p f) (updCont q g).
  Proof.
    intros H H0 H1 Hc. pose proof (R_some _ _ H) as Es. unfold updCont. rewrite (R_cdepth _ _ H).
    rsplit H. cbn [root cdepth container] in *. unfold withRoot. flds.
    rewrite (updAt_rRoot sg eB lpMap f g d rt H0 H1). apply R0_mk; [exact Hli| |apply ceB0_updAt_w; assumption].
    destruct (getAt d rt) as [y|] eqn:Ey; [|contradiction]. destruct (getAt_updAt_exists f d rt y Ey) as (z & Hz). rewrite Hz. discriminate.
  Qed.

  Lemma R_closeAt p q dd e : R p q -> (dd <= cdepth p)%nat -> 0 <= e ->
    R (withCont (closeLastChildAt p dd e) (Some dd)) (withCont (closeLastChildAt q dd (eB e)) (Some dd)).
  Proof.
    intros H Hle He. unfold closeLastChildAt. rewrite (R_srcP _ _ H), (R_srcQ _ _ H), (R_root _ _ H), (bheight_rRoot sg eB lpMap).
    rewrite <- (R_root _ _ H).
    assert (CF : forall x, ceB x ->
              match lastBlock (M x) with Some c => set_lastBlocks (M x) (closeBlock (bheight (root p)) sQ c (eB e)) | None => M x end =
              M (match lastBlock x with Some c => set_lastBlocks x (closeBlock (bheight (root p)) sD c e) | None => x end) /\
              ceB (match lastBlock x with Some c => set_lastBlocks x (closeBlock (bheight (root p)) sD c e) | None => x end)).
    { intros x Hx. rewrite lastBlock_rB. destruct (lastBlock x) as [c|] eqn:El; cbn [option_map]; [|split; [reflexivity|exact Hx]].
      destruct (closeBlock_M (bheight (root p)) c e He (ceB_lastBlock x c Hx El)) as [E1 E2]. rewrite E1.
      split; [apply set_lastBlocks_rB|apply ceB_set_lastBlocks; assumption]. }
    apply (R_updAt p q dd _ _ H Hle).
    - intros _. rewrite lastBlock_rRoot. destruct (lastBlock (root p)) as [c|] eqn:El; cbn [option_map]; [|reflexivity].
      destruct (closeBlock_M (bheight (root p)) c e He (ceB_lastBlock _ c (R_ce _ _ H) El)) as [E1 _]. rewrite E1. apply set_lastBlocks_rRoot.
    - intros x _ Hx. apply CF. apply (ceB_getAt dd (root p) x (R_ce _ _ H) Hx).
    - intros x Hx Hcx. apply CF, Hcx.
  Qed.

  (* ---- the container ---- *)
  Lemma R_withCont p q d : R p q -> getAt d (root p) <> None -> R (withCont p (Some d)) (withCont q (Some d)).
  Proof. intros H V. rsplit H. cbn [root] in V. unfold withCont. flds. apply R_mk; assumption. Qed.
  Lemma R_contBlock_deep p q : R p q -> (1 <= cdepth p)%nat -> contBlock q = M (contBlock p).
  Proof.
    intros H Hd. pose proof (R_valid _ _ H) as V. unfold contBlock. rewrite (R_cdepth _ _ H), (R_root _ _ H).
    destruct (cdepth p) as [|d]; [lia|]. rewrite (getAt_rRoot_S sg eB lpMap). destruct (getAt (S d) (root p)); [reflexivity|contradiction].
  Qed.
  Lemma R_contBlock_top p q : R p q -> cdepth p = O -> contBlock q = MR (contBlock p).
  Proof. intros H Hd. unfold contBlock. rewrite (R_cdepth _ _ H), (R_root _ _ H), Hd. reflexivity. Qed.
  Lemma R_containerKind p q : R p q -> containerKind q = containerKind p.
  Proof.
    intros H. unfold containerKind. destruct (cdepth p) as [|d] eqn:Ed.
    - rewrite (R_contBlock_top _ _ H Ed). apply bkind_rRoot.
    - rewrite (R_contBlock_deep _ _ H) by lia. apply bkind_rB.
  Qed.

  (* ---- openBlock / endBlock ---- *)
  Lemma li_opened p : li (if state p =? stOpening then withState p stOpenMatched else p) = li p.
  Proof. destruct (_ =? _); reflexivity. Qed.
  Lemma li_openBlock_up : forall f p k, li (openBlock_up f p k) = li p.
  Proof.
    induction f as [|f IH]; intros p k; [reflexivity|]. cbn [openBlock_up]. destruct (canContain _ _); [reflexivity|].
    destruct (cdepth p); [reflexivity|]. rewrite IH. reflexivity.
  Qed.

  Lemma R_openBlock_up kind : forall f p q, R p q -> R (openBlock_up f p kind) (openBlock_up f q kind).
  Proof.
    induction f as [|f IH]; intros p q H; [exact H|]. cbn [openBlock_up]. rewrite (R_containerKind _ _ H), (R_cdepth _ _ H).
    destruct (canContain _ _); [exact H|]. destruct (cdepth p) as [|d] eqn:Ed; [apply R_panic, H|].
    rewrite (R_lsP _ _ H), (R_lsQ _ _ H), <- eB_ls. apply IH. apply R_closeAt; [exact H|lia|exact ls_nonneg].
  Qed.

  Lemma newBlock_M k s : M (newBlock k s) = newBlock k (sg s).
  Proof. unfold newBlock. cbn [rB map]. rewrite (eB_neg (-1)) by lia. reflexivity. Qed.
  Lemma append_M x nb : set_bkids (M x) (bkids (M x) ++ [M nb]) = M (set_bkids x (bkids x ++ [nb])).
  Proof. destruct x. cbn [rB bkids set_bkids]. rewrite map_app. reflexivity. Qed.
  Lemma append_MR x nb : set_bkids (MR x) (bkids (MR x) ++ [M nb]) = MR (set_bkids x (bkids x ++ [nb])).
  Proof. destruct x. unfold rRoot. cbn [bkids set_bkids]. rewrite map_app. reflexivity. Qed.
  Lemma ceB_newBlock k s : ceB (newBlock k s).
  Proof. apply ceB_eq. unfold newBlock. cbn [bkind bik bkids]. split; [intros _; constructor|]. split; [intros _; constructor|]. split; [intros _; apply OP_nil; reflexivity|]. split; constructor. Qed.

  Lemma R_closeHere p q e : R p q -> 0 <= e -> R (closeLastChildAt p (cdepth p) e) (closeLastChildAt q (cdepth q) (eB e)).
  Proof.
    intros H He. pose proof (R_closeAt p q (cdepth p) e H (le_n _) He) as X. rewrite (R_cdepth _ _ H).
    pose proof (R_some _ _ H) as Es. pose proof (R_cont _ _ H) as Ec.
    destruct p as [src rt cont ls0 ln0 i cl tr st pn]; destruct q as [src' rt' cont' ls' ln' i' cl' tr' st' pn']. cbn [container cdepth] in *. subst cont'.
    destruct cont as [d|]; [|discriminate]. exact X.
  Qed.

  Lemma R_openBlock p q kind : R p q -> li p <= lb -> kind <> LinkReferenceDefinitionKind -> R (openBlock p kind) (openBlock q kind).
  Proof.
    intros H Hlb Hkr. unfold openBlock. rewrite (R_state _ _ H). destruct (_ || _); [apply R_panic, H|]. cbv zeta.
    pose proof (R_opened _ _ H) as H1. rewrite (R_state _ _ H) in H1. pose proof (li_opened p) as L1.
    set (p1 := if state p =? stOpening then withState p stOpenMatched else p) in *.
    set (q1 := if state p =? stOpening then withState q stOpenMatched else q) in *. clearbody p1 q1.
    rewrite (R_cdepth _ _ H1).
    pose proof (R_openBlock_up kind (S (cdepth p1)) p1 q1 H1) as H2. pose proof (li_openBlock_up (S (cdepth p1)) p1 kind) as L2.
    set (p2 := openBlock_up _ p1 kind) in *. set (q2 := openBlock_up _ q1 kind) in *. clearbody p2 q2.
    pose proof (R_closeHere p2 q2 (lineStart p2) H2 ltac:(rewrite (R_lsP _ _ H2); exact ls_nonneg)) as H3.
    rewrite (R_lsP _ _ H2), eB_ls in H3. rewrite (R_lsQ _ _ H2), (R_lsP _ _ H2). rewrite (R_cdepth _ _ H2) in *.
    set (p3 := closeLastChildAt p2 (cdepth p2) ls) in *. set (q3 := closeLastChildAt q2 (cdepth p2) lsq) in *.
    assert (L3 : li p3 = li p) by (unfold p3; cbn; lia).
    assert (Ec3 : cdepth p3 = cdepth p2) by reflexivity. clearbody p3 q3.
    rewrite (R_lsP _ _ H3), (R_lsQ _ _ H3), (R_li _ _ H3), L3.
    set (nb := newBlock kind (ls + li p)).
    assert (Enb : newBlock kind (lsq + (li p + PW)) = M nb).
    { unfold nb. rewrite newBlock_M, (sg_line (li p)) by (pose proof (R_liR _ _ H); lia). f_equal. lia. }
    rewrite Enb.
    assert (H4 : R (updCont p3 (fun b => set_bkids b (bkids b ++ [nb]))) (updCont q3 (fun b => set_bkids b (bkids b ++ [M nb])))).
    { apply R_updCont; [exact H3| | |].
      - intros _. apply append_MR.
      - intros x _ _. apply append_M.
      - intros x _ Hx. apply ceB_set_bkids; [exact Hx|]. apply Forall_app. split; [apply (ceB_kids _ Hx)|constructor; [apply ceB_newBlock|constructor]]. }
    apply R_withCont; [exact H4|]. pose proof (R_valid _ _ H3) as V3. unfold updCont, withRoot. flds. rewrite Ec3 in *.
    destruct (getAt (cdepth p2) (root p3)) as [x|] eqn:Ex; [|contradiction]. rewrite (getAt_S_append_some nb _ _ x Ex). discriminate.
  Qed.

  Lemma R_endBlock p q : R p q -> 0 < li p -> R (endBlock p) (endBlock q).
  Proof.
    intros H Hpos. unfold endBlock. rewrite (R_state _ _ H). destruct (_ || _); [apply R_panic, H|]. cbv zeta.
    pose proof (R_opened _ _ H) as H1. rewrite (R_state _ _ H) in H1. pose proof (li_opened p) as L1.
    set (p1 := if state p =? stOpening then withState p stOpenMatched else p) in *.
    set (q1 := if state p =? stOpening then withState q stOpenMatched else q) in *. clearbody p1 q1.
    rewrite (R_cdepth _ _ H1). destruct (cdepth p1) as [|d] eqn:Ed; [apply R_panic, H1|].
    rewrite (R_lsP _ _ H1), (R_lsQ _ _ H1), (R_li _ _ H1), L1.
    replace (lsq + (li p + PW)) with (eB (ls + li p)) by (rewrite eB_line by (pose proof (R_liR _ _ H); lia); lia).
    apply R_closeAt; [exact H1|lia|pose proof (R_liR _ _ H); lia].
  Qed.

  (* ---- the sources on the current line ---- *)
  Hypothesis srcD : from_ sD ls = ln.
  Hypothesis srcQ : from_ sQ lsq = lnq.
  Hypothesis lb_eol : lb < len ln -> isSpTab (at_ ln lb) = false.
  Definition dl : Z := lsq + PW - ls.

  Lemma atD i : 0 <= i -> at_ sD (ls + i) = at_ ln i.
  Proof. intros H. rewrite <- srcD. symmetry. apply at_from; lia. Qed.
  Lemma atQ i : 0 <= i -> at_ sQ (lsq + PW + i) = at_ ln i.
  Proof. intros H. replace (lsq + PW + i) with (lsq + (i + PW)) by lia. rewrite <- (at_from sQ lsq (i + PW)) by lia. rewrite srcQ. apply at_pre, H. Qed.
  Lemma subD a b : 0 <= a -> sub sD (ls + a) (ls + b) = sub ln a b.
  Proof. intros H. unfold sub. rewrite <- (from_from sD ls a) by lia. rewrite srcD. f_equal. lia. Qed.
  Lemma subQ a b : 0 <= a -> sub sQ (lsq + PW + a) (lsq + PW + b) = sub ln a b.
  Proof.
    intros H. unfold sub. replace (lsq + PW + a) with (lsq + (a + PW)) by lia. rewrite <- (from_from sQ lsq (a + PW)) by lia. rewrite srcQ.
    unfold lnq. rewrite from_pre by lia. f_equal. lia.
  Qed.
  Lemma atQ' i : ls <= i -> at_ sQ (i + dl) = at_ sD i.
  Proof. intros H. unfold dl. replace (i + (lsq + PW - ls)) with (lsq + PW + (i - ls)) by lia. rewrite atQ by lia. replace i with (ls + (i - ls)) at 2 by lia. rewrite atD by lia. reflexivity. Qed.
  Lemma subQ' i e : ls <= i -> sub sQ (i + dl) (e + dl) = sub sD i e.
  Proof.
    intros H. unfold dl. replace (i + (lsq + PW - ls)) with (lsq + PW + (i - ls)) by lia. replace (e + (lsq + PW - ls)) with (lsq + PW + (e - ls)) by lia.
    rewrite subQ by lia. replace i with (ls + (i - ls)) at 2 by lia. replace e with (ls + (e - ls)) at 2 by lia. rewrite subD by lia. reflexivity.
  Qed.

  (* an entry on the current line *)
  Lemma mkI_mv k s e n : mvI n (mkI k s e) = mkI k (s + n) (e + n). Proof. reflexivity. Qed.
  Lemma sg_cur x : 0 <= x <= lb -> sg (ls + x) - (ls + x) = dl. Proof. intros H. rewrite (sg_line x H). unfold dl. lia. Qed.
  Hypothesis ls_le : ls <= len sD.
  Hypothesis lsq_le : lsq <= len sQ.
  Hypothesis lb_last : lb = len ln \/ (lb = len ln - 1 /\ at_ ln lb = 10).
  Hypothesis ln_pos : 0 < len ln.
  Lemma lenD : ls + len ln = len sD. Proof. rewrite <- srcD, len_from by lia. lia. Qed.
  Lemma lenQ : lsq + PW + len ln = len sQ.
  Proof. pose proof (f_equal (@len Z) srcQ) as E. rewrite len_from in E by lia. unfold lnq in E. rewrite len_pre in E. lia. Qed.
  Lemma ceI_cur u : isLinkPart (ikind u) = false -> insideI u -> kidsIn u -> ls <= istart u -> istart u - ls <= lb -> istart u <= iend u -> iend u - ls <= len ln -> ceI u.
  Proof.
    intros Hk Hin Hkin H1 H2 H3 H4. pose proof lenD as LD. pose proof lenQ as LQ.
    assert (Esg : sg (istart u) = lsq + PW + (istart u - ls)) by (rewrite <- (sg_line (istart u - ls)) by lia; f_equal; lia).
    split; [exact Hk|]. split; [exact Hin|]. split; [lia|]. split; [lia|]. split; [lia|]. split; [lia|].
    split; [|split; [exact Hkin|intros x Hx; rewrite Esg; replace x with (ls + (x - ls)) at 1 by lia; rewrite (sg_line (x - ls)) by (destruct lb_last as [E|[E _]]; lia); lia]].
    replace (istart u) with (ls + (istart u - ls)) at 1 2 by lia. rewrite (sg_line (istart u - ls)) by lia.
    replace (lsq + PW + (istart u - ls) + (iend u - istart u)) with (lsq + PW + (iend u - ls)) by lia. rewrite subQ by lia.
    replace (istart u) with (ls + (istart u - ls)) at 2 by lia. replace (iend u) with (ls + (iend u - ls)) at 2 by lia. rewrite subD by lia. reflexivity.
  Qed.
  Lemma MI_cur u : isLinkPart (ikind u) = false -> ls <= istart u -> istart u - ls <= lb -> MI u = mvI dl u.
  Proof. intros Hk H1 H2. rewrite (MI_plain u Hk). f_equal. replace (istart u) with (ls + (istart u - ls)) by lia. apply sg_cur. lia. Qed.

  (* ---- the info string ---- *)
  Lemma infoString_loop_reloc e : forall fuel i ps acc, ls <= i ->
    infoString_loop fuel sQ (i + dl) (e + dl) (ps + dl) (map (mvI dl) acc) =
    (map (mvI dl) (fst (infoString_loop fuel sD i e ps acc)), snd (infoString_loop fuel sD i e ps acc) + dl).
  Proof.
    induction fuel as [|f IH]; intros i ps acc Hi; [reflexivity|]. cbn [infoString_loop].
    replace (e + dl <=? i + dl) with (e <=? i) by (destruct (Z.leb_spec e i); destruct (Z.leb_spec (e + dl) (i + dl)); lia || reflexivity).
    destruct (e <=? i); [reflexivity|]. cbv zeta. rewrite (atQ' i Hi).
    assert (Eps : (ps + dl <? i + dl) = (ps <? i)) by (destruct (Z.ltb_spec ps i); destruct (Z.ltb_spec (ps + dl) (i + dl)); lia || reflexivity).
    destruct (at_ sD i =? 92).
    - replace (e + dl <=? i + dl + 1) with (e <=? i + 1) by (destruct (Z.leb_spec e (i + 1)); destruct (Z.leb_spec (e + dl) (i + dl + 1)); lia || reflexivity).
      replace (i + dl + 1) with (i + 1 + dl) by lia. rewrite (atQ' (i + 1)) by lia.
      destruct (_ || _); [apply IH; lia|]. rewrite Eps.
      replace (i + 1 + dl + 1) with (i + 2 + dl) by lia. replace (i + dl + 2) with (i + 2 + dl) by lia.
      assert (Ea : (if ps <? i then map (mvI dl) acc ++ [mkI TextKind (ps + dl) (i + dl)] else map (mvI dl) acc) ++ [mkI TextKind (i + 1 + dl) (i + 2 + dl)] =
                   map (mvI dl) ((if ps <? i then acc ++ [mkI TextKind ps i] else acc) ++ [mkI TextKind (i + 1) (i + 2)])).
      { destruct (ps <? i); rewrite !map_app; reflexivity. }
      rewrite Ea. apply IH. lia.
    - destruct (at_ sD i =? 38); [|replace (i + dl + 1) with (i + 1 + dl) by lia; apply IH; lia].
      rewrite (subQ' i e Hi). destruct (Z.ltb_spec (parseCharacterEscape (sub sD i e)) 0) as [Len|Len]; [replace (i + dl + 1) with (i + 1 + dl) by lia; apply IH; lia|].
      rewrite Eps. set (en := parseCharacterEscape (sub sD i e)) in *.
      replace (i + dl + en) with (i + en + dl) by lia.
      assert (Ea : (if ps <? i then map (mvI dl) acc ++ [mkI TextKind (ps + dl) (i + dl)] else map (mvI dl) acc) ++ [mkI CharacterReferenceKind (i + dl) (i + en + dl)] =
                   map (mvI dl) ((if ps <? i then acc ++ [mkI TextKind ps i] else acc) ++ [mkI CharacterReferenceKind i (i + en)])).
      { destruct (ps <? i); rewrite !map_app; reflexivity. }
      rewrite Ea. apply IH. lia.
  Qed.

  Lemma parseInfoString_reloc s e : ls <= s -> parseInfoString sQ (s + dl) (e + dl) = mvI dl (parseInfoString sD s e).
  Proof.
    intros Hs. unfold parseInfoString. replace (e + dl - (s + dl)) with (e - s) by lia.
    pose proof (infoString_loop_reloc e (S (Z.to_nat (e - s))) s s [] Hs) as E. cbn [map] in E. rewrite E.
    destruct (infoString_loop (S (Z.to_nat (e - s))) sD s e s []) as [acc ps]. cbn [fst snd mvI].
    replace (ps + dl <? e + dl) with (ps <? e) by (destruct (Z.ltb_spec ps e); destruct (Z.ltb_spec (ps + dl) (e + dl)); lia || reflexivity).
    destruct (ps <? e); [rewrite map_app|]; reflexivity.
  Qed.
  Lemma infoString_loop_in src s e : forall fuel i ps acc, s <= i -> s <= ps -> Forall (kidIn s) acc ->
    Forall (kidIn s) (fst (infoString_loop fuel src i e ps acc)) /\ s <= snd (infoString_loop fuel src i e ps acc).
  Proof.
    induction fuel as [|f IH]; intros i ps acc Hi Hp Ha; [split; assumption|]. cbn [infoString_loop].
    destruct (e <=? i); [split; assumption|]. cbv zeta.
    assert (Hacc : Forall (kidIn s) (if ps <? i then acc ++ [mkI TextKind ps i] else acc)).
    { destruct (ps <? i); [|exact Ha]. apply Forall_app. split; [exact Ha|]. constructor; [|constructor]. unfold kidIn. cbn. repeat split; lia. }
    destruct (at_ src i =? 92).
    - destruct (_ || _); [apply IH; try assumption; lia|].
      apply IH; [lia|lia|]. apply Forall_app. split; [exact Hacc|]. constructor; [|constructor]. unfold kidIn. cbn. repeat split; lia.
    - destruct (at_ src i =? 38); [|apply IH; try assumption; lia].
      destruct (Z.ltb_spec (parseCharacterEscape (sub src i e)) 0) as [L|L]; [apply IH; try assumption; lia|].
      apply IH; [lia|lia|]. apply Forall_app. split; [exact Hacc|]. constructor; [|constructor]. unfold kidIn. cbn. repeat split; lia.
  Qed.
  Lemma insideI_parseInfoString src s e : s <= e -> insideI (parseInfoString src s e).
  Proof.
    intros Hse. unfold parseInfoString. destruct (infoString_loop_in src s e (S (Z.to_nat (e - s))) s s [] ltac:(lia) ltac:(lia) ltac:(constructor)) as [A B].
    destruct (infoString_loop _ _ _ _ _ _) as [acc ps]. cbn [fst snd] in A, B. unfold insideI. cbn [istart ikids].
    destruct (ps <? e); [|exact A]. apply Forall_app. split; [exact A|]. constructor; [|constructor]. unfold kidIn. cbn. repeat split; lia.
  Qed.
  Lemma len_sub_le (src : bytes) i e : i <= e -> len (sub src i e) <= e - i.
  Proof. intros H. unfold sub, upto, len. rewrite firstn_length. lia. Qed.
  Lemma infoString_loop_kin src s e : forall fuel i ps acc, s <= ps -> ps <= i ->
    Forall (fun k => s <= istart k /\ istart k < iend k /\ iend k <= e) acc ->
    Forall (fun k => s <= istart k /\ istart k < iend k /\ iend k <= e) (fst (infoString_loop fuel src i e ps acc)) /\ s <= snd (infoString_loop fuel src i e ps acc).
  Proof.
    induction fuel as [|f IH]; intros i ps acc Hp Hi Ha; [split; assumption|]. cbn [infoString_loop].
    destruct (Z.leb_spec e i) as [Le|Le]; [split; assumption|]. cbv zeta.
    assert (Hacc : Forall (fun k => s <= istart k /\ istart k < iend k /\ iend k <= e) (if ps <? i then acc ++ [mkI TextKind ps i] else acc)).
    { destruct (Z.ltb_spec ps i); [|exact Ha]. apply Forall_app. split; [exact Ha|]. constructor; [|constructor]. cbn. lia. }
    destruct (at_ src i =? 92).
    - destruct (Z.leb_spec e (i + 1)) as [L1|L1]; cbn [orb]; [apply IH; try assumption; lia|].
      destruct (negb _); [apply IH; try assumption; lia|].
      apply IH; [lia|lia|]. apply Forall_app. split; [exact Hacc|]. constructor; [|constructor]. cbn. lia.
    - destruct (at_ src i =? 38); [|apply IH; try assumption; lia].
      destruct (Z.ltb_spec (parseCharacterEscape (sub src i e)) 0) as [L|L]; [apply IH; try assumption; lia|].
      pose proof (SpanSmall.parseCharacterEscape_bounds _ L) as Hb. pose proof (len_sub_le src i e ltac:(lia)) as Hl.
      apply IH; [lia|lia|]. apply Forall_app. split; [exact Hacc|]. constructor; [|constructor]. cbn. lia.
  Qed.
  Lemma kidsIn_parseInfoString src s e : s <= e -> kidsIn (parseInfoString src s e).
  Proof.
    intros Hse. unfold parseInfoString. destruct (infoString_loop_kin src s e (S (Z.to_nat (e - s))) s s [] ltac:(lia) ltac:(lia) ltac:(constructor)) as [A B].
    destruct (infoString_loop _ _ _ _ _ _) as [acc ps]. cbn [fst snd] in A, B. unfold kidsIn. cbn [istart iend ikids].
    destruct (Z.ltb_spec ps e); [|exact A]. apply Forall_app. split; [exact A|]. constructor; [|constructor]. cbn. lia.
  Qed.
  Lemma ikind_parseInfoString src s e : ikind (parseInfoString src s e) = InfoStringKind.
  Proof. unfold parseInfoString. destruct (infoString_loop _ _ _ _ _ _). reflexivity. Qed.
  Lemma istart_parseInfoString src s e : istart (parseInfoString src s e) = s.
  Proof. unfold parseInfoString. destruct (infoString_loop _ _ _ _ _ _). reflexivity. Qed.
  Lemma iend_parseInfoString src s e : iend (parseInfoString src s e) = e.
  Proof. unfold parseInfoString. destruct (infoString_loop _ _ _ _ _ _). reflexivity. Qed.

  (* spaces never reach past lb *)
  Lemma indentLength_lb : forall k i, 0 <= i -> i <= lb -> Z.of_nat k = lb - i -> i + indentLength (from_ ln i) <= lb.
  Proof.
    induction k as [|k IH]; intros i H0 Hi Hk.
    - assert (i = lb) by lia. subst i. destruct (Z.lt_ge_cases lb (len ln)) as [L|L].
      + rewrite (Rec16.from_cons ln lb) by lia. cbn [indentLength]. rewrite (lb_eol L). lia.
      + rewrite (Rec16.from_nil ln lb) by lia. cbn. lia.
    - assert (i < len ln) by lia. rewrite (Rec16.from_cons ln i) by lia. cbn [indentLength]. destruct (isSpTab (at_ ln i)); [|lia].
      specialize (IH (i + 1) ltac:(lia) ltac:(lia) ltac:(lia)). lia.
  Qed.
  Lemma indentLength_le_lb i : 0 <= i <= lb -> i + indentLength (from_ ln i) <= lb.
  Proof. intros H. apply (indentLength_lb (Z.to_nat (lb - i))); lia. Qed.

  Lemma li_advance_eq p n : 0 <= n -> li p + n <= len (line p) -> li (advance p n) = li p + n.
  Proof.
    intros Hn Hl. unfold advance. destruct (Z.ltb_spec n 0); [lia|]. destruct (Z.eqb_spec n 0); [lia|]. cbv zeta.
    assert (E : li (if state p =? stOpening then withState p stOpenMatched else p) = li p /\ line (if state p =? stOpening then withState p stOpenMatched else p) = line p)
      by (destruct (_ =? _); split; reflexivity). destruct E as [E1 E2]. rewrite E1, E2.
    destruct (Z.ltb_spec (len (line p)) (li p + n)); [lia|]. reflexivity.
  Qed.
  Lemma cdepth_advance p n : cdepth (advance p n) = cdepth p. Proof. apply cd_advance. Qed.

  Lemma add_ik_M x u : set_bik (M x) (bik (M x) ++ [MI u]) = M (set_bik x (bik x ++ [u])).
  Proof. destruct x. cbn [rB bik set_bik]. rewrite map_app. reflexivity. Qed.
  Lemma ceB_add_ik x u : ceB x -> isParaK (bkind x) = false -> bkind x <> LinkReferenceDefinitionKind -> ceI u -> ceB (set_bik x (bik x ++ [u])).
  Proof. intros H Kq Kl Hu. apply ceB_set_bik; [exact H|exact Kq|exact Kl|]. apply Forall_app. split; [apply (ceB_ik _ H Kl)|constructor; [exact Hu|constructor]]. Qed.
  Lemma ck_getAt p x : getAt (cdepth p) (root p) = Some x -> containerKind p = bkind x.
  Proof. intros E. unfold containerKind, contBlock. rewrite E. reflexivity. Qed.
  Lemma ck_advance p n : containerKind (advance p n) = containerKind p.
  Proof. apply L2Kind2.containerKind_same, L2Kind2.same_advance. Qed.
  Lemma ck_opened p : containerKind (if state p =? stOpening then withState p stOpenMatched else p) = containerKind p.
  Proof. destruct (_ =? _); reflexivity. Qed.
  (* an entry is added to a container that is neither a paragraph nor a definition *)
  Lemma R_add_ik p q u : R p q -> (1 <= cdepth p)%nat -> isParaK (containerKind p) = false -> containerKind p <> LinkReferenceDefinitionKind -> ceI u ->
    R (updCont p (fun b => set_bik b (bik b ++ [u]))) (updCont q (fun b => set_bik b (bik b ++ [MI u]))).
  Proof.
    intros H Hd Kq Kl Hu. apply R_updCont; [exact H|intros E0; lia| |].
    - intros x _ _. apply add_ik_M.
    - intros x Ex Hx. rewrite (ck_getAt p x Ex) in Kq, Kl. apply ceB_add_ik; assumption.
  Qed.

  Lemma R_collectInline p q kind n : R p q -> (1 <= cdepth p)%nat -> li p <= lb -> isLinkPart kind = false -> 0 <= n ->
    isParaK (containerKind p) = false -> containerKind p <> LinkReferenceDefinitionKind ->
    R (collectInline p kind n) (collectInline q kind n).
  Proof.
    intros H Hd Hlb Hk Hn Kq Kl. unfold collectInline. rewrite (R_state _ _ H). destruct (_ =? stDescendTerminated); [apply R_panic, H|]. cbv zeta.
    pose proof (R_opened _ _ H) as H1. rewrite (R_state _ _ H) in H1. pose proof (li_opened p) as L1. pose proof (cdepth_opened p) as D1. pose proof (ck_opened p) as C1.
    set (p1 := if state p =? stOpening then withState p stOpenMatched else p) in *.
    set (q1 := if state p =? stOpening then withState q stOpenMatched else q) in *. clearbody p1 q1.
    rewrite (R_indent _ _ H1).
    pose proof (R_liR _ _ H) as Hr.
    match goal with |- R (updCont (advance ?a n) _) (updCont (advance ?b n) _) =>
      assert (H2 : R a b /\ cdepth a = cdepth p /\ li p <= li a <= lb /\ containerKind a = containerKind p) end.
    { destruct (0 <? indent p1); [|split; [exact H1|split; [exact D1|split; [lia|exact C1]]]].
      rewrite (R_lsP _ _ H1), (R_lsQ _ _ H1), (R_li _ _ H1), (R_rest _ _ H1), L1.
      pose proof (R_advance p1 q1 (indentLength (rest p1)) H1) as Ha.
      assert (Ela : li (advance p1 (indentLength (rest p1))) = li p + indentLength (from_ ln (li p))).
      { unfold rest. rewrite (R_lineP _ _ H1), L1. apply (f_equal (fun z => z + indentLength (from_ ln (li p)))) in L1. rewrite <- L1.
        replace (from_ ln (li p)) with (from_ (line p1) (li p1)) by (rewrite (R_lineP _ _ H1); f_equal; lia).
        apply li_advance_eq; [apply indentLength_nonneg|]. pose proof (CursorX.indentLength_le (from_ (line p1) (li p1))) as Hle.
        rewrite len_from in Hle by (rewrite (R_lineP _ _ H1); pose proof (R_liR _ _ H1); lia). lia. }
      pose proof (indentLength_le_lb (li p) ltac:(lia)) as Hb. pose proof (indentLength_nonneg (from_ ln (li p))) as Hnn.
      rewrite (R_lsP _ _ Ha), (R_lsQ _ _ Ha), (R_li _ _ Ha).
      set (u := Inl IndentKind (ls + li p) (ls + li (advance p1 (indentLength (rest p1)))) (indent p1) [] []).
      assert (Eu : Inl IndentKind (lsq + (li p + PW)) (lsq + (li (advance p1 (indentLength (rest p1))) + PW)) (indent p1) [] [] = MI u).
      { rewrite (MI_cur u eq_refl) by (unfold u; cbn [istart]; lia). unfold u. cbn [mvI map]. unfold dl. f_equal; lia. }
      rewrite Eu. split; [|split; [|split]].
      - apply R_add_ik; [exact Ha|rewrite cdepth_advance; lia|rewrite ck_advance, C1; exact Kq|rewrite ck_advance, C1; exact Kl|apply ceI_cur; unfold u; cbn [ikind istart iend]; [reflexivity|apply insideI_leaf|apply kidsIn_leaf|lia|lia|rewrite Ela; lia|rewrite Ela; lia]].
      - rewrite cdepth_updCont, cdepth_advance. exact D1.
      - unfold updCont, withRoot. flds. rewrite Ela. lia.
      - rewrite L2Kind2.containerKind_updCont by (intros b0; destruct b0; reflexivity). rewrite ck_advance. exact C1. }
    match goal with |- R (updCont (advance ?a n) _) (updCont (advance ?b n) _) => set (p2 := a) in *; set (q2 := b) in *; clearbody p2 q2 end.
    destruct H2 as (H2 & D2 & L2 & C2).
    pose proof (R_advance p2 q2 n H2) as H3.
    rewrite (R_lsP _ _ H2), (R_lsQ _ _ H2), (R_li _ _ H2), (R_lsP _ _ H3), (R_lsQ _ _ H3), (R_li _ _ H3), (R_srcP _ _ H3), (R_srcQ _ _ H3).
    set (e3 := li (advance p2 n)).
    set (u := if kind =? InfoStringKind then parseInfoString sD (ls + li p2) (ls + e3) else mkI kind (ls + li p2) (ls + e3)).
    assert (Eu : (if kind =? InfoStringKind then parseInfoString sQ (lsq + (li p2 + PW)) (lsq + (e3 + PW)) else mkI kind (lsq + (li p2 + PW)) (lsq + (e3 + PW))) = MI u).
    { assert (Hku : isLinkPart (ikind u) = false) by (unfold u; destruct (kind =? InfoStringKind); [rewrite ikind_parseInfoString; reflexivity|exact Hk]).
      assert (Hsu : istart u = ls + li p2) by (unfold u; destruct (kind =? InfoStringKind); [apply istart_parseInfoString|reflexivity]).
      rewrite (MI_cur u Hku) by (rewrite Hsu; lia). unfold u. destruct (kind =? InfoStringKind).
      - rewrite <- parseInfoString_reloc by lia. unfold dl. f_equal; lia.
      - rewrite mkI_mv. unfold dl. f_equal; lia. }
    rewrite Eu. apply R_add_ik; [exact H3|rewrite cdepth_advance; lia|rewrite ck_advance, C2; exact Kq|rewrite ck_advance, C2; exact Kl|].
    assert (He3 : li p2 <= e3 <= len ln).
    { unfold e3. pose proof (R_liR _ _ H3) as X. split; [|lia]. unfold advance. destruct (n <? 0); [cbn; lia|]. destruct (Z.eqb_spec n 0); [lia|]. cbv zeta.
      rewrite li_opened, line_opened. destruct (_ <? _); cbn; rewrite ?li_opened; lia. }
    apply ceI_cur; unfold u; destruct (kind =? InfoStringKind); rewrite ?ikind_parseInfoString, ?istart_parseInfoString, ?iend_parseInfoString; cbn [ikind istart iend mkI]; try lia; try reflexivity; try exact Hk; try apply insideI_leaf; try apply kidsIn_leaf.
    - apply insideI_parseInfoString. lia.
    - apply kidsIn_parseInfoString. lia.
  Qed.

  (* ---- the cursor does not pass the line ending (position lb) except by consumeLine ---- *)
  Lemma step_lb x : 0 <= x <= lb -> x < len ln -> at_ ln x <> 10 -> x + 1 <= lb.
  Proof. intros H1 H2 H3. destruct lb_last as [E|[E1 E2]]; [lia|]. destruct (Z.eq_dec x lb) as [->|N]; [contradiction|lia]. Qed.
  Lemma in_lb x : 0 <= x < len ln -> at_ ln x <> 10 -> x + 1 <= lb.
  Proof. intros H1 H2. destruct lb_last as [E|[E1 E2]]; [lia|]. destruct (Z.eq_dec x lb) as [->|N]; [contradiction|lia]. Qed.

  Lemma line_opened' p : line (if state p =? stOpening then withState p stOpenMatched else p) = line p.
  Proof. destruct (_ =? _); reflexivity. Qed.
  Lemma lb_consumeIndent_loop : forall f p n, line p = ln -> 0 <= li p <= lb -> li p <= li (consumeIndent_loop f p n) <= lb.
  Proof.
    induction f as [|f IH]; intros p n Hl Hi; [cbn; lia|]. cbn [consumeIndent_loop]. destruct (n <=? 0); [lia|]. cbv zeta.
    pose proof (li_opened p) as L1. pose proof (line_opened' p) as L2.
    set (p1 := if state p =? stOpening then withState p stOpenMatched else p) in *. clearbody p1. rewrite L1, L2, Hl.
    destruct (Z.ltb_spec (li p) (len ln)) as [L|L]; cbn [andb]; [|unfold panic; flds; lia].
    destruct (Z.eqb_spec (at_ ln (li p)) 32) as [E|E].
    - assert (Hs : li p + 1 <= lb) by (apply step_lb; [lia|lia|rewrite E; discriminate]).
      match goal with |- _ <= li (consumeIndent_loop f ?pp ?nn) <= _ =>
        assert (A1 : line pp = ln) by (unfold withCursor; flds; rewrite L2; exact Hl);
        assert (A2 : li pp = li p + 1) by reflexivity;
        pose proof (IH pp nn A1 ltac:(rewrite A2; lia)) as X; rewrite A2 in X; lia end.
    - destruct (Z.eqb_spec (at_ ln (li p)) 9) as [E9|E9]; [|unfold panic; flds; lia].
      destruct (n <? tabRem p1); [unfold withCursor; flds; lia|].
      assert (Hs : li p + 1 <= lb) by (apply step_lb; [lia|lia|rewrite E9; discriminate]).
      match goal with |- _ <= li (consumeIndent_loop f ?pp ?nn) <= _ =>
        assert (A1 : line pp = ln) by (unfold withCursor; flds; rewrite L2; exact Hl);
        assert (A2 : li pp = li p + 1) by reflexivity;
        pose proof (IH pp nn A1 ltac:(rewrite A2; lia)) as X; rewrite A2 in X; lia end.
  Qed.
  Lemma lb_consumeIndent p n : line p = ln -> 0 <= li p <= lb -> li p <= li (consumeIndent p n) <= lb.
  Proof. apply lb_consumeIndent_loop. Qed.

  (* ---- state and cursor facts of the plain run ---- *)
  Lemma state_consumeIndent_loop : forall f p n, state p <> stOpening -> state (consumeIndent_loop f p n) = state p.
  Proof.
    induction f as [|f IH]; intros p n Hs; [reflexivity|]. cbn [consumeIndent_loop]. destruct (n <=? 0); [reflexivity|]. cbv zeta.
    replace (state p =? stOpening) with false by (symmetry; apply Z.eqb_neq, Hs).
    destruct (_ && (_ =? 32)); [rewrite IH; [reflexivity|exact Hs]|]. destruct (_ && (_ =? 9)); [|reflexivity].
    destruct (n <? _); [reflexivity|rewrite IH; [reflexivity|exact Hs]].
  Qed.
  Lemma state_consumeIndent p n : state p <> stOpening -> state (consumeIndent p n) = state p.
  Proof. apply state_consumeIndent_loop. Qed.
  Lemma state_advance p n : state p <> stOpening -> state (advance p n) = state p.
  Proof.
    intros Hs. unfold advance. destruct (n <? 0); [reflexivity|]. destruct (n =? 0); [reflexivity|]. cbv zeta.
    replace (state p =? stOpening) with false by (symmetry; apply Z.eqb_neq, Hs). destruct (_ <? _); reflexivity.
  Qed.
  Lemma state_consumeLine_desc p : state p = stDescending -> state (consumeLine p) = stDescendTerminated.
  Proof.
    intros Hs. unfold consumeLine. cbv zeta. rewrite (state_advance p _) by (rewrite Hs; discriminate). rewrite Hs. reflexivity.
  Qed.
  Lemma state_collectInline p k n : state p <> stOpening -> state (collectInline p k n) = state p.
  Proof.
    intros Hs. unfold collectInline. destruct (_ =? stDescendTerminated); [reflexivity|]. cbv zeta.
    replace (state p =? stOpening) with false by (symmetry; apply Z.eqb_neq, Hs).
    unfold updCont at 1, withRoot. flds. rewrite state_advance; destruct (0 <? _); unfold updCont, withRoot; flds; rewrite ?state_advance; try reflexivity; exact Hs.
  Qed.
  Lemma li_consumeLine' p : 0 <= li p <= len (line p) -> li (consumeLine p) = len (line p).
  Proof.
    intros H. unfold consumeLine. cbv zeta.
    assert (E : li (advance p (len (line p) - li p)) = len (line p)) by (rewrite li_advance_eq; lia).
    destruct (_ || _); [exact E|]. destruct (_ =? stDescending); exact E.
  Qed.
  Lemma Itab_notab p : line p = ln -> 0 <= li p -> Itab p.
  Proof. intros Hl Hi. split; [exact Hi|]. intros _ E. rewrite Hl in E. pose proof (noTab_at ln (li p) ln_notab) as N. rewrite E in N. discriminate. Qed.

  Lemma lb_eatQuote p : line p = ln -> 0 <= li p <= lb -> hasBytePrefix (bytesAfterIndent p) [62] = true ->
    li (eatQuoteMarker p (indent p)) <= lb.
  Proof.
    intros Hl Hi Hb. unfold eatQuoteMarker. cbv zeta.
    destruct (consume_all p (Itab_notab p Hl ltac:(lia)) ltac:(rewrite Hl; lia)) as (A & B & C & (D & _)).
    set (p1 := consumeIndent p (indent p)) in *.
    assert (Hp1 : li p1 <= lb) by (rewrite B; unfold rest; rewrite Hl; apply indentLength_le_lb; lia).
    destruct (bytesAfterIndent p) as [|c r] eqn:Eb; [discriminate|]. cbn [hasBytePrefix] in Hb. apply andb_true_iff in Hb. destruct Hb as [Hc _]. apply Z.eqb_eq in Hc. subst c.
    assert (Hlt : li p1 < len ln).
    { destruct (Z.lt_ge_cases (li p1) (len ln)) as [L|L]; [exact L|]. rewrite (rest_nil p1) in A by (rewrite D, Hl; lia). discriminate. }
    assert (Hat : at_ ln (li p1) = 62).
    { rewrite (rest_cons p1) in A by (rewrite ?D, ?Hl; pose proof (indentLength_nonneg (rest p)); lia). rewrite D, Hl in A. inversion A. reflexivity. }
    assert (Hs : li p1 + 1 <= lb) by (apply in_lb; [pose proof (indentLength_nonneg (rest p)); lia|rewrite Hat; discriminate]).
    assert (E2 : li (advance p1 1) = li p1 + 1) by (apply li_advance_eq; [lia|rewrite D, Hl; lia]).
    assert (L2 : line (advance p1 1) = ln) by (rewrite line_advance, D; exact Hl).
    destruct (0 <? indent (advance p1 1)); [|lia].
    pose proof (lb_consumeIndent (advance p1 1) 1 L2 ltac:(pose proof (indentLength_nonneg (rest p)); lia)). lia.
  Qed.

  (* ---- the match rules ---- *)
  Definition relBPR (x y : bool * lp) : Prop := fst y = fst x /\ R (snd x) (snd y).
  Lemma relBPR_mk b p q : R p q -> relBPR (b, p) (b, q). Proof. intros H. split; [reflexivity|exact H]. Qed.
  Definition okAfter (p' : lp) : Prop := (state p' = stDescendTerminated /\ 0 < li p') \/ (state p' = stDescending /\ li p' <= lb).

  Lemma R_eatQuoteMarker p q n : R p q -> R (eatQuoteMarker p n) (eatQuoteMarker q n).
  Proof.
    intros H. unfold eatQuoteMarker. cbv zeta. pose proof (R_advance _ _ 1 (R_consumeIndent p q n H)) as H1.
    rewrite (R_indent _ _ H1). destruct (0 <? _); [apply R_consumeIndent, H1|exact H1].
  Qed.

  Lemma state_eatQuote p n : state p <> stOpening -> state (eatQuoteMarker p n) = state p.
  Proof.
    intros Hs. unfold eatQuoteMarker. cbv zeta.
    assert (E1 : state (consumeIndent p n) = state p) by (apply state_consumeIndent, Hs).
    assert (E2 : state (advance (consumeIndent p n) 1) = state p) by (rewrite state_advance; [exact E1|rewrite E1; exact Hs]).
    destruct (0 <? _); [|exact E2]. rewrite state_consumeIndent; [exact E2|rewrite E2; exact Hs].
  Qed.

  Lemma R_matchRule p q : R p q -> (1 <= cdepth p)%nat -> li p <= lb -> state p = stDescending ->
    relBPR (matchRule p) (matchRule q) /\ okAfter (snd (matchRule p)).
  Proof.
    intros H Hd Hlb Hs. pose proof (R_liR _ _ H) as Hr. pose proof (R_lineP _ _ H) as Hl.
    assert (Hns : state p <> stOpening) by (rewrite Hs; discriminate).
    assert (OKp : okAfter p) by (right; split; assumption).
    assert (OKci : forall n, okAfter (consumeIndent p n)).
    { intros n. right. split; [rewrite state_consumeIndent; assumption|]. apply (lb_consumeIndent p n Hl); lia. }
    unfold matchRule. cbv zeta. rewrite (R_containerKind _ _ H).
    destruct (_ || _); [split; [apply relBPR_mk, H|exact OKp]|].
    destruct (_ =? ListItemKind).
    { unfold matchListItem. rewrite (R_isRestBlank _ _ H), (R_containerKind _ _ H), (R_contBlock_deep _ _ H Hd), (R_indent _ _ H), childCount_rB, bindent_rB.
      destruct (isRestBlank p).
      - destruct (negb _); [split; [apply relBPR_mk, H|exact OKp]|split; [apply relBPR_mk, R_consumeIndent, H|apply OKci]].
      - destruct (_ <=? _); [split; [apply relBPR_mk, R_consumeIndent, H|apply OKci]|split; [apply relBPR_mk, H|exact OKp]]. }
    destruct (_ =? BlockQuoteKind).
    { unfold matchBlockQuote. cbv zeta. rewrite (R_indent _ _ H), (R_bai _ _ H).
      destruct (_ <=? _); [split; [apply relBPR_mk, H|exact OKp]|]. destruct (negb (hasBytePrefix _ _)) eqn:Eb; [split; [apply relBPR_mk, H|exact OKp]|].
      split; [apply relBPR_mk, R_eatQuoteMarker, H|]. cbn [snd]. right. split.
      - rewrite state_eatQuote; assumption.
      - apply lb_eatQuote; [exact Hl|lia|apply negb_false_iff, Eb]. }
    destruct (_ =? FencedCodeBlockKind).
    { unfold matchFenced. cbv zeta. rewrite (R_indent _ _ H), (R_bai _ _ H), (R_contBlock_deep _ _ H Hd), bchar_rB, bn_rB, bindent_rB.
      destruct (if _ <? _ then _ else false).
      - split; [apply relBPR_mk, R_consumeLine, H|]. left. split; [apply state_consumeLine_desc, Hs|]. cbn [snd]. rewrite li_consumeLine' by (rewrite Hl; lia). rewrite Hl. exact ln_pos.
      - split; [apply relBPR_mk, R_consumeIndent, H|apply OKci]. }
    destruct (_ =? IndentedCodeBlockKind).
    { unfold matchIndented. cbv zeta. rewrite (R_indent _ _ H), (R_isRestBlank _ _ H).
      destruct (_ <? _); [destruct (negb _); [split; [apply relBPR_mk, H|exact OKp]|split; [apply relBPR_mk, R_consumeIndent, H|apply OKci]]|
                          split; [apply relBPR_mk, R_consumeIndent, H|apply OKci]]. }
    destruct (Z.eqb_spec (containerKind p) HTMLBlockKind) as [Ehk|_].
    { unfold matchHTML. rewrite (R_bai _ _ H), (R_contBlock_deep _ _ H Hd), bn_rB, (R_isRestBlank _ _ H).
      destruct (htmlEnd _ _); [|split; [apply relBPR_mk, H|exact OKp]]. destruct (isRestBlank p); [split; [apply relBPR_mk, H|exact OKp]|].
      assert (Kq : isParaK (containerKind p) = false) by (rewrite Ehk; reflexivity). assert (Kl : containerKind p <> LinkReferenceDefinitionKind) by (rewrite Ehk; discriminate).
      split.
      - apply relBPR_mk, R_consumeLine, R_collectInline; try assumption; [reflexivity|apply len_nonneg].
      - assert (Hc : R (collectInline p RawHTMLKind (len (bytesAfterIndent p))) (collectInline q RawHTMLKind (len (bytesAfterIndent p))))
          by (apply R_collectInline; try assumption; [reflexivity|apply len_nonneg]).
        left. cbn [snd]. split; [apply state_consumeLine_desc; rewrite state_collectInline; assumption|].
        rewrite li_consumeLine' by (rewrite (R_lineP _ _ Hc); apply (R_liR _ _ Hc)). rewrite (R_lineP _ _ Hc). exact ln_pos. }
    rewrite (R_isRestBlank _ _ H). split; [apply relBPR_mk, H|exact OKp].
  Qed.

  (* ---- descendOpenBlocks ---- *)
  Definition safeAfter (p' : lp) : Prop := state p' = stDescendTerminated \/ li p' <= lb.
  Lemma R_valid_le p q d : R p q -> (d <= cdepth p)%nat -> getAt d (root p) <> None.
  Proof.
    intros H Hle. pose proof (R_valid _ _ H) as V. destruct (getAt (cdepth p) (root p)) as [x|] eqn:Ex; [|contradiction].
    destruct (getAt_le _ d (root p) x Hle Ex) as (y & Hy). rewrite Hy. discriminate.
  Qed.

  Lemma R_descend_loop : forall f p q d, R p q -> li p <= lb -> getAt d (root p) <> None ->
    relBPR (descend_loop f p d) (descend_loop f q d) /\ safeAfter (snd (descend_loop f p d)).
  Proof.
    induction f as [|f IH]; intros p q d H Hlb V.
    { cbn [descend_loop]. split; [apply relBPR_mk, R_withCont; assumption|right; exact Hlb]. }
    cbn [descend_loop]. rewrite (R_root _ _ H), (getAt_rRoot_S sg eB lpMap).
    destruct (getAt (S d) (root p)) as [c|] eqn:Ex; cbn [option_map]; [|split; [apply relBPR_mk, R_withCont; assumption|right; exact Hlb]].
    rewrite (isOpen_rB sg eB lpMap eB_neg eB_pos), bkind_rB.
    destruct (negb (isOpen c)); [split; [apply relBPR_mk, R_withCont; assumption|right; exact Hlb]|]. cbv zeta.
    assert (H1 : R (withCont p (Some (S d))) (withCont q (Some (S d)))) by (apply R_withCont; [exact H|rewrite Ex; discriminate]).
    destruct (negb (hasMatch (bkind c))); [split; [apply relBPR_mk; apply (R_withCont _ _ d H1); exact V|right; exact Hlb]|].
    pose proof (R_withState _ _ stDescending H1) as H2.
    destruct (R_matchRule _ _ H2 ltac:(cbn; lia) Hlb eq_refl) as [[Eok H3] OK].
    pose proof (cdepth_matchRule (withState (withCont p (Some (S d))) stDescending)) as Hcd.
    destruct (matchRule (withState (withCont p (Some (S d))) stDescending)) as [ok p3].
    destruct (matchRule (withState (withCont q (Some (S d))) stDescending)) as [ok' q3]. cbn [fst snd] in *. subst ok'.
    change (cdepth (withState (withCont p (Some (S d))) stDescending)) with (S d) in Hcd.
    rewrite (R_state _ _ H3), (R_lsP _ _ H3), (R_lsQ _ _ H3), (R_li _ _ H3).
    destruct OK as [[Et Hpos]|[Et Hl3]].
    - rewrite Et. change (stDescendTerminated =? stDescendTerminated) with true. cbv iota.
      replace (lsq + (li p3 + PW)) with (eB (ls + li p3)) by (rewrite eB_line by (pose proof (R_liR _ _ H3); lia); lia).
      split; [apply relBPR_mk, R_closeAt; [exact H3|lia|pose proof (R_liR _ _ H3); lia]|]. left. cbn [snd]. exact Et.
    - rewrite Et. change (stDescending =? stDescendTerminated) with false. cbv iota.
      assert (V3 : getAt d (root p3) <> None) by (apply (R_valid_le _ _ _ H3); lia).
      destruct (negb ok); [split; [apply relBPR_mk, R_withCont; assumption|right; exact Hl3]|].
      apply IH; [exact H3|exact Hl3|apply (R_valid_le _ _ _ H3); lia].
  Qed.

  (* ---- the block starts ---- *)
  Definition RE (p q : lp) : Prop := E p /\ R p q.
  Definition safeS (p' : lp) : Prop := state p' = stLineConsumed \/ li p' <= lb.

  Lemma RE_advance p q n : RE p q -> RE (advance p n) (advance q n).
  Proof. intros [a b]. split; [apply E_advance, a|apply R_advance, b]. Qed.
  Lemma RE_consumeIndent p q n : RE p q -> RE (consumeIndent p n) (consumeIndent q n).
  Proof. intros [a b]. split; [apply E_consumeIndent, a|apply R_consumeIndent, b]. Qed.
  Lemma RE_consumeLine p q : RE p q -> RE (consumeLine p) (consumeLine q).
  Proof. intros [a b]. split; [apply E_consumeLine, a|apply R_consumeLine, b]. Qed.
  Lemma RE_collectInline p q k n : RE p q -> (1 <= cdepth p)%nat -> li p <= lb -> isLinkPart k = false -> 0 <= n ->
    isParaK (containerKind p) = false -> containerKind p <> LinkReferenceDefinitionKind ->
    RE (collectInline p k n) (collectInline q k n).
  Proof. intros [a b] Hd Hl Hk Hn Kq Kl. split; [apply E_collectInline, a|apply R_collectInline; assumption]. Qed.
  Lemma RE_openBlock p q k : RE p q -> k <> ListItemKind -> li p <= lb -> k <> LinkReferenceDefinitionKind -> RE (openBlock p k) (openBlock q k) /\ (1 <= cdepth (openBlock p k))%nat.
  Proof. intros [a b] Hk Hl Hr. destruct (E_openBlock p k a Hk) as [A B]. split; [split; [exact A|apply R_openBlock; assumption]|exact B]. Qed.
  Lemma RE_openBlock' p q k : RE p q -> canContain (containerKind p) k = true -> li p <= lb -> k = ListItemKind ->
    RE (openBlock p k) (openBlock q k) /\ (1 <= cdepth (openBlock p k))%nat.
  Proof. intros [a b] Hk Hl Ek. destruct (E_openBlock' p k a Hk) as [A B]. split; [split; [exact A|apply R_openBlock; [exact b|exact Hl|rewrite Ek; discriminate]]|exact B]. Qed.
  Lemma RE_endBlock p q : RE p q -> (1 <= cdepth p)%nat -> 0 < li p -> RE (endBlock p) (endBlock q).
  Proof. intros [a b] Hd Hl. split; [apply E_endBlock; assumption|apply R_endBlock; assumption]. Qed.
  Lemma RE_setters p q f : RE p q -> (forall x, cc (f x) = cc x /\ bkind (f x) = bkind x) ->
    (forall x, f (M x) = M (f x)) -> (forall x, bik (f x) = bik x /\ bkids (f x) = bkids x /\ isOpen (f x) = isOpen x) -> (1 <= cdepth p)%nat ->
    RE (updCont p f) (updCont q f).
  Proof.
    intros [a b] H1 H2 H3 Hd. split; [apply E_setters; assumption|]. apply R_updCont; [exact b|intros E0; lia|intros x _ _; apply H2|].
    intros x _ Hx. destruct (H3 x) as (A & B & C). destruct (H1 x) as [_ K]. apply (ceB_same x); try assumption. rewrite C. exact (fun h => h).
  Qed.
  Ltac setters3 := intros x; destruct x; repeat split.
  Ltac settersM := intros x; destruct x; reflexivity.
  Ltac setters2 := intros x; destruct x; split; reflexivity.

  Lemma li_closeLastChildAt p d e : li (closeLastChildAt p d e) = li p. Proof. reflexivity. Qed.
  Lemma li_openBlock p k : li (openBlock p k) = li p.
  Proof.
    unfold openBlock. destruct (_ || _); [reflexivity|]. cbv zeta. unfold withCont, updCont, withRoot. flds.
    rewrite li_closeLastChildAt, li_openBlock_up. apply li_opened.
  Qed.
  Lemma li_endBlock p : li (endBlock p) = li p.
  Proof. unfold endBlock. destruct (_ || _); [reflexivity|]. cbv zeta. destruct (cdepth _); [apply li_opened|]. unfold withCont. flds. rewrite li_closeLastChildAt. apply li_opened. Qed.
  Lemma line_openBlock p k : line (openBlock p k) = line p.
  Proof.
    unfold openBlock. destruct (_ || _); [reflexivity|]. cbv zeta. unfold withCont, updCont, withRoot, closeLastChildAt, withRoot. flds.
    assert (G : forall f pp, line (openBlock_up f pp k) = line pp).
    { induction f as [|f IH]; intros pp; [reflexivity|]. cbn [openBlock_up]. destruct (canContain _ _); [reflexivity|]. destruct (cdepth pp); [reflexivity|]. rewrite IH. reflexivity. }
    rewrite G. apply line_opened'.
  Qed.
  Lemma state_consumeLine_st3 p : L2Kind2.st3 p -> state (consumeLine p) = stLineConsumed.
  Proof.
    intros Hs. unfold consumeLine. cbv zeta.
    pose proof (L2Kind2.st3_advance p (len (line p) - li p) Hs) as H2. set (a := advance p (len (line p) - li p)) in *.
    destruct ((state a =? stOpening) || (state a =? stOpenMatched)) eqn:E1; [reflexivity|].
    apply orb_false_iff in E1. destruct E1 as [E1 E1']. apply Z.eqb_neq in E1, E1'.
    destruct (L2Kind2.st3_cases _ H2) as [Ee|[Ee|Ee]]; try contradiction. rewrite Ee. exact Ee.
  Qed.
  Lemma state_endBlock_consumed p : state p = stLineConsumed -> state (endBlock p) = stLineConsumed.
  Proof.
    intros Hs. unfold endBlock. rewrite Hs. change ((stLineConsumed =? stDescending) || (stLineConsumed =? stDescendTerminated)) with false. cbv iota. cbv zeta.
    change (stLineConsumed =? stOpening) with false. cbv iota. destruct (cdepth p); exact Hs.
  Qed.
  Lemma li_consumeLine_R p q : R p q -> li (consumeLine p) = len ln.
  Proof. intros H. rewrite li_consumeLine' by (rewrite (R_lineP _ _ H); apply (R_liR _ _ H)). rewrite (R_lineP _ _ H). reflexivity. Qed.

  Definition startOKR (f : lp -> lp) : Prop := forall p q, RE p q -> L2Kind2.st_open p -> li p <= lb -> R (f p) (f q) /\ safeS (f p).
  (* the container after openBlock *)
  Lemma ck_openBlock p K : E p -> L2Kind2.st_open p -> K <> ListItemKind -> containerKind (openBlock p K) = K.
  Proof. intros He Hs Hk. destruct (E_openBlock p K He Hk) as [(_ & (Hc & _)) _]. apply (containerKind_of _ K Hc). apply L2Kind2.ckind_openBlock, Hs. Qed.

  (* the cursor after consumeIndent (indent p), when something is left on the line *)
  Lemma after_indent p q c r : R p q -> li p <= lb -> bytesAfterIndent p = c :: r ->
    let p1 := consumeIndent p (indent p) in
    li p <= li p1 <= lb /\ li p1 < len ln /\ at_ ln (li p1) = c /\ rest p1 = c :: r.
  Proof.
    intros H Hlb Hb. cbv zeta. pose proof (R_lineP _ _ H) as Hl. pose proof (R_liR _ _ H) as Hr.
    destruct (consume_all p (Itab_notab p Hl ltac:(lia)) ltac:(rewrite Hl; lia)) as (A & B & C & (D & _)).
    set (p1 := consumeIndent p (indent p)) in *. pose proof (indentLength_nonneg (rest p)) as Hnn.
    assert (Hp1 : li p1 <= lb) by (rewrite B; unfold rest; rewrite Hl; apply indentLength_le_lb; lia).
    rewrite Hb in A.
    assert (Hlt : li p1 < len ln).
    { destruct (Z.lt_ge_cases (li p1) (len ln)) as [L|L]; [exact L|]. rewrite (rest_nil p1) in A by (rewrite D, Hl; lia). discriminate. }
    repeat split; try lia; [|exact A].
    rewrite (rest_cons p1) in A by (rewrite ?D, ?Hl; lia). rewrite D, Hl in A. inversion A. reflexivity.
  Qed.

  Lemma bai_rest_after p : line p = ln -> 0 <= li p <= len ln -> rest (consumeIndent p (indent p)) = bytesAfterIndent p.
  Proof. intros Hl Hr. destruct (consume_all p (Itab_notab p Hl ltac:(lia)) ltac:(rewrite Hl; lia)) as (A & _). exact A. Qed.

  Lemma okR_startBlockQuote : startOKR startBlockQuote.
  Proof.
    intros p q H Hso Hlb. pose proof (proj2 H) as Hr. unfold startBlockQuote. cbv zeta. rewrite (R_indent _ _ Hr), (R_bai _ _ Hr).
    destruct (_ <=? _); [split; [exact Hr|right; exact Hlb]|]. destruct (negb (hasBytePrefix _ _)) eqn:Eb; [split; [exact Hr|right; exact Hlb]|].
    apply negb_false_iff in Eb. destruct (bytesAfterIndent p) as [|c r] eqn:Ebai; [discriminate|].
    cbn [hasBytePrefix] in Eb. apply andb_true_iff in Eb. destruct Eb as [Ec _]. apply Z.eqb_eq in Ec. subst c.
    destruct (after_indent p q 62 r Hr Hlb Ebai) as (A1 & A2 & A3 & A4). cbv zeta in *.
    pose proof (RE_consumeIndent p q (indent p) H) as H1. set (p1 := consumeIndent p (indent p)) in *. set (q1 := consumeIndent q (indent p)) in *.
    destruct (RE_openBlock p1 q1 BlockQuoteKind H1 ltac:(discriminate) ltac:(lia) ltac:(discriminate)) as [H2 D2].
    pose proof (li_openBlock p1 BlockQuoteKind) as L2. pose proof (R_lineP _ _ (proj2 H2)) as Ln2.
    set (p2 := openBlock p1 BlockQuoteKind) in *. set (q2 := openBlock q1 BlockQuoteKind) in *. clearbody p2 q2.
    pose proof (R_advance p2 q2 1 (proj2 H2)) as H3.
    assert (L3 : li (advance p2 1) = li p1 + 1) by (rewrite li_advance_eq; [lia|lia|rewrite Ln2; lia]).
    assert (B3 : li p1 + 1 <= lb) by (apply in_lb; [pose proof (R_liR _ _ Hr); lia|rewrite A3; discriminate]).
    rewrite (R_indent _ _ H3). destruct (0 <? _).
    - split; [apply R_consumeIndent, H3|]. right. apply (lb_consumeIndent _ 1 (R_lineP _ _ H3)). pose proof (R_liR _ _ Hr). lia.
    - split; [exact H3|right; lia].
  Qed.

  Lemma okR_startATX : startOKR startATX.
  Proof.
    intros p q H Hso Hlb. pose proof (proj2 H) as Hr. unfold startATX. cbv zeta. rewrite (R_indent _ _ Hr), (R_bai _ _ Hr).
    destruct (_ <=? _); [split; [exact Hr|right; exact Hlb]|].
    destruct (parseATXHeading (bytesAfterIndent p)) as [[level cs] ce] eqn:Ea. destruct (Z.ltb_spec level 1) as [Lv|Lv]; [split; [exact Hr|right; exact Hlb]|].
    destruct (atx_bounds _ _ _ _ Ea Lv) as (B1 & B2 & _). destruct (atx_prefix _ _ _ _ Ea Lv) as (P1 & P2 & P3).
    pose proof (R_liR _ _ Hr) as Hli. pose proof (R_lineP _ _ Hr) as Hl.
    pose proof (bai_rest_after p Hl Hli) as Erest.
    pose proof (lb_consumeIndent p (indent p) Hl ltac:(lia)) as Hl1.
    pose proof (RE_consumeIndent p q (indent p) H) as H1. set (p1 := consumeIndent p (indent p)) in *. set (q1 := consumeIndent q (indent p)) in *.
    pose proof (R_liR _ _ (proj2 H1)) as Hli1.
    assert (Elen : len (bytesAfterIndent p) = len ln - li p1) by (rewrite <- Erest; unfold rest; rewrite (R_lineP _ _ (proj2 H1)); apply len_from; lia).
    assert (Eat : forall j, 0 <= j -> at_ (bytesAfterIndent p) j = at_ ln (li p1 + j)) by (intros j Hj; rewrite <- Erest; unfold rest; rewrite (R_lineP _ _ (proj2 H1)); apply at_from; lia).
    destruct (RE_openBlock p1 q1 ATXHeadingKind H1 ltac:(discriminate) ltac:(lia) ltac:(discriminate)) as [H2 D2].
    pose proof (li_openBlock p1 ATXHeadingKind) as L2.
    pose proof (ck_openBlock p1 ATXHeadingKind (proj1 H1) (L2Kind2.st_open_consumeIndent p (indent p) Hso) ltac:(discriminate)) as CK2.
    set (p2 := openBlock p1 ATXHeadingKind) in *. set (q2 := openBlock q1 ATXHeadingKind) in *. clearbody p2 q2.
    assert (CK4 : containerKind (advance (updCont p2 (fun b => set_bn b level)) cs) = ATXHeadingKind).
    { rewrite ck_advance, L2Kind2.containerKind_updCont by (intros b0; destruct b0; reflexivity). exact CK2. }
    assert (H3 : RE (updCont p2 (fun b => set_bn b level)) (updCont q2 (fun b => set_bn b level))) by (apply RE_setters; [exact H2|setters|settersM|setters3|exact D2]).
    pose proof (RE_advance _ _ cs H3) as H4.
    assert (L4 : li (advance (updCont p2 (fun b => set_bn b level)) cs) = li p1 + cs).
    { rewrite li_advance_eq; [cbn [li updCont withRoot setLP]; lia|lia|]. rewrite (R_lineP _ _ (proj2 H3)). cbn [li updCont withRoot setLP]. lia. }
    assert (B4 : li p1 + cs <= lb).
    { replace (li p1 + cs) with (li p1 + (cs - 1) + 1) by lia. apply in_lb; [lia|]. rewrite <- Eat by lia. destruct P3 as [E|E]; [rewrite E; discriminate|].
      intros E10. rewrite E10 in E. discriminate. }
    apply (fun X Y => conj X Y).
    - apply R_endBlock; [apply R_consumeLine, R_collectInline; [apply H4|rewrite cd_advance, cdepth_updCont; exact D2|lia|reflexivity|lia|rewrite CK4; reflexivity|rewrite CK4; discriminate]|].
      rewrite (li_consumeLine_R _ _ (R_collectInline _ _ UnparsedKind (ce - cs) (proj2 H4) ltac:(rewrite cd_advance, cdepth_updCont; exact D2) ltac:(lia) eq_refl ltac:(lia) ltac:(rewrite CK4; reflexivity) ltac:(rewrite CK4; discriminate))). exact ln_pos.
    - left. apply state_endBlock_consumed, state_consumeLine_st3. apply L2Kind2.st3_collectInline. apply H4.
  Qed.

  Lemma okR_startFenced : startOKR startFenced.
  Proof.
    intros p q H Hso Hlb. pose proof (proj2 H) as Hr. unfold startFenced. cbv zeta. rewrite (R_indent _ _ Hr), (R_bai _ _ Hr).
    destruct (_ <=? _); [split; [exact Hr|right; exact Hlb]|].
    destruct (parseCodeFence (bytesAfterIndent p)) as [[[fc fnn] is_] ie] eqn:Ef. destruct (Z.eqb_spec fnn 0) as [F0|F0]; [split; [exact Hr|right; exact Hlb]|].
    assert (Fpos : 0 < fnn).
    { destruct (Z.lt_ge_cases 0 fnn) as [L|L]; [exact L|]. pose proof (parseCodeFence_none _ _ _ _ _ Ef L) as E. inversion E. lia. }
    pose proof (R_liR _ _ Hr) as Hli. pose proof (R_lineP _ _ Hr) as Hl.
    pose proof (bai_rest_after p Hl Hli) as Erest.
    pose proof (lb_consumeIndent p (indent p) Hl ltac:(lia)) as Hl1.
    pose proof (RE_consumeIndent p q (indent p) H) as H1. set (p1 := consumeIndent p (indent p)) in *. set (q1 := consumeIndent q (indent p)) in *.
    pose proof (R_liR _ _ (proj2 H1)) as Hli1.
    assert (Elen : len (bytesAfterIndent p) = len ln - li p1) by (rewrite <- Erest; unfold rest; rewrite (R_lineP _ _ (proj2 H1)); apply len_from; lia).
    assert (Eat : forall j, 0 <= j -> at_ (bytesAfterIndent p) j = at_ ln (li p1 + j)) by (intros j Hj; rewrite <- Erest; unfold rest; rewrite (R_lineP _ _ (proj2 H1)); apply at_from; lia).
    destruct (RE_openBlock p1 q1 FencedCodeBlockKind H1 ltac:(discriminate) ltac:(lia) ltac:(discriminate)) as [H2 D2].
    pose proof (li_openBlock p1 FencedCodeBlockKind) as L2.
    pose proof (ck_openBlock p1 FencedCodeBlockKind (proj1 H1) (L2Kind2.st_open_consumeIndent p (indent p) Hso) ltac:(discriminate)) as CK2.
    set (p2 := openBlock p1 FencedCodeBlockKind) in *. set (q2 := openBlock q1 FencedCodeBlockKind) in *. clearbody p2 q2.
    assert (H4 : RE (updCont (updCont p2 (fun b => set_bn (set_bchar b fc) fnn)) (fun b => set_bindent b (indent p)))
                    (updCont (updCont q2 (fun b => set_bn (set_bchar b fc) fnn)) (fun b => set_bindent b (indent p)))).
    { apply RE_setters; [apply RE_setters; [exact H2|setters|settersM|setters3|exact D2]|setters|settersM|setters3|rewrite cdepth_updCont; exact D2]. }
    set (p4 := updCont (updCont p2 _) _) in *. set (q4 := updCont (updCont q2 _) _) in *.
    assert (L4 : li p4 = li p1) by (unfold p4; cbn [li updCont withRoot setLP]; exact L2).
    assert (D4 : (1 <= cdepth p4)%nat) by (unfold p4; rewrite !cdepth_updCont; exact D2).
    assert (CK4 : containerKind p4 = FencedCodeBlockKind) by (unfold p4; rewrite !L2Kind2.containerKind_updCont by (intros b0; destruct b0; reflexivity); exact CK2). clearbody p4 q4.
    assert (H5 : RE (if spanValid (is_, ie) then collectInline (advance p4 is_) InfoStringKind (ie - is_) else p4)
                    (if spanValid (is_, ie) then collectInline (advance q4 is_) InfoStringKind (ie - is_) else q4)).
    { destruct (spanValid (is_, ie)) eqn:Esv; [|exact H4]. unfold spanValid in Esv. cbn [fst snd] in Esv.
      apply andb_true_iff in Esv. destruct Esv as [Esv E3]. apply andb_true_iff in Esv. destruct Esv as [E1 E2]. apply Z.leb_le in E1, E2, E3.
      destruct (parseCodeFence_bounds _ _ _ _ _ Ef Fpos E1) as (G1 & G2 & G3 & G4).
      assert (L5 : li (advance p4 is_) = li p1 + is_) by (rewrite li_advance_eq; [lia|lia|rewrite (R_lineP _ _ (proj2 H4)); lia]).
      apply RE_collectInline; [apply RE_advance, H4|rewrite cd_advance; exact D4| |reflexivity|lia|rewrite ck_advance, CK4; reflexivity|rewrite ck_advance, CK4; discriminate].
      rewrite L5. assert (li p1 + is_ + 1 <= lb); [|lia]. apply in_lb; [lia|]. rewrite <- Eat by lia. intros E10. rewrite E10 in G4. discriminate. }
    split; [apply R_consumeLine, H5|]. left. apply state_consumeLine_st3, H5.
  Qed.

  Lemma R_tipKind p q : R p q -> tipKind q = tipKind p.
  Proof.
    intros H. unfold tipKind. rewrite (R_root _ _ H), (bheight_rRoot sg eB lpMap), (tipDepth_rRoot sg eB lpMap eB_neg eB_pos).
    destruct (tipDepth (bheight (root p)) (root p)) as [|t]; [cbn [getAt]; apply bkind_rRoot|].
    rewrite (getAt_rRoot_S sg eB lpMap). destruct (getAt (S t) (root p)); [apply bkind_rB|reflexivity].
  Qed.

  Lemma okR_startHTML : startOKR startHTML.
  Proof.
    intros p q H Hso Hlb. pose proof (proj2 H) as Hr. unfold startHTML. cbv zeta.
    rewrite (R_indent _ _ Hr), (R_bai _ _ Hr), (R_containerKind _ _ Hr), (R_tipKind _ _ Hr).
    destruct (_ <=? _); [split; [exact Hr|right; exact Hlb]|]. destruct (negb _); [split; [exact Hr|right; exact Hlb]|].
    destruct (_ <? 0); [split; [exact Hr|right; exact Hlb]|]. destruct (negb _ && _); [split; [exact Hr|right; exact Hlb]|].
    destruct (RE_openBlock p q HTMLBlockKind H ltac:(discriminate) Hlb ltac:(discriminate)) as [H2 D2]. pose proof (li_openBlock p HTMLBlockKind) as L2.
    assert (H3 : RE (updCont (openBlock p HTMLBlockKind) (fun b => set_bn b (firstHtmlCond 0 7 (bytesAfterIndent p))))
                    (updCont (openBlock q HTMLBlockKind) (fun b => set_bn b (firstHtmlCond 0 7 (bytesAfterIndent p)))))
      by (apply RE_setters; [exact H2|setters|settersM|setters3|exact D2]).
    set (p3 := updCont (openBlock p HTMLBlockKind) _) in *. set (q3 := updCont (openBlock q HTMLBlockKind) _) in *.
    assert (L3 : li p3 = li p) by (unfold p3; cbn [li updCont withRoot setLP]; exact L2).
    assert (D3 : (1 <= cdepth p3)%nat) by (unfold p3; rewrite cdepth_updCont; exact D2).
    assert (CK3 : containerKind p3 = HTMLBlockKind) by (unfold p3; rewrite L2Kind2.containerKind_updCont by (intros b0; destruct b0; reflexivity); apply (ck_openBlock p HTMLBlockKind (proj1 H) Hso); discriminate). clearbody p3 q3.
    destruct (htmlEnd _ _); [|split; [apply H3|right; lia]].
    rewrite (R_bai _ _ (proj2 H3)).
    assert (H4 : RE (collectInline p3 RawHTMLKind (len (bytesAfterIndent p3))) (collectInline q3 RawHTMLKind (len (bytesAfterIndent p3))))
      by (apply RE_collectInline; [exact H3|exact D3|lia|reflexivity|apply len_nonneg|rewrite CK3; reflexivity|rewrite CK3; discriminate]).
    split.
    - apply R_endBlock; [apply R_consumeLine, H4|]. rewrite (li_consumeLine_R _ _ (proj2 H4)). exact ln_pos.
    - left. apply state_endBlock_consumed, state_consumeLine_st3, H4.
  Qed.

  Lemma okR_startThematic : startOKR startThematic.
  Proof.
    intros p q H Hso Hlb. pose proof (proj2 H) as Hr. unfold startThematic. cbv zeta. rewrite (R_indent _ _ Hr), (R_bai _ _ Hr).
    destruct (_ <=? _); [split; [exact Hr|right; exact Hlb]|]. destruct (_ <? 0); [split; [exact Hr|right; exact Hlb]|].
    pose proof (R_liR _ _ Hr) as Hli. pose proof (R_lineP _ _ Hr) as Hl.
    pose proof (lb_consumeIndent p (indent p) Hl ltac:(lia)) as Hl1.
    pose proof (RE_consumeIndent p q (indent p) H) as H1.
    destruct (RE_openBlock _ _ ThematicBreakKind H1 ltac:(discriminate) ltac:(lia) ltac:(discriminate)) as [H2 D2].
    pose proof (RE_advance _ _ (parseThematicBreak (bytesAfterIndent p)) H2) as H3.
    split.
    - apply R_endBlock; [apply R_consumeLine, H3|]. rewrite (li_consumeLine_R _ _ (proj2 H3)). exact ln_pos.
    - left. apply state_endBlock_consumed, state_consumeLine_st3, H3.
  Qed.

  Lemma okR_startIndented : startOKR startIndented.
  Proof.
    intros p q H Hso Hlb. pose proof (proj2 H) as Hr. unfold startIndented. rewrite (R_indent _ _ Hr), (R_isRestBlank _ _ Hr), (R_tipKind _ _ Hr).
    destruct (_ || _ || _); [split; [exact Hr|right; exact Hlb]|].
    pose proof (R_liR _ _ Hr) as Hli. pose proof (R_lineP _ _ Hr) as Hl.
    pose proof (lb_consumeIndent p codeBlockIndentLimit Hl ltac:(lia)) as Hl1.
    pose proof (RE_consumeIndent p q codeBlockIndentLimit H) as H1.
    destruct (RE_openBlock _ _ IndentedCodeBlockKind H1 ltac:(discriminate) ltac:(lia) ltac:(discriminate)) as [H2 D2].
    split; [apply H2|]. right. rewrite li_openBlock. lia.
  Qed.

  Lemma E_root_doc p : E p -> bkind (root p) = documentKind.
  Proof. intros (_ & (A & _) & _). exact A. Qed.
  Lemma ckPara_deep' p : E p -> containerKind p = ParagraphKind -> (1 <= cdepth p)%nat.
  Proof. intros He Ek. destruct (cdepth p) eqn:Ed; [|lia]. exfalso. rewrite (containerKind_root p Ed), (E_root_doc p He) in Ek. discriminate. Qed.

  Lemma R_contPara p q : R p q -> (1 <= cdepth p)%nat -> containerHasParagraphContent q = containerHasParagraphContent p.
  Proof.
    intros H Hd. unfold containerHasParagraphContent. rewrite (R_containerKind _ _ H). destruct (Z.eqb_spec (containerKind p) ParagraphKind) as [Ekp0|Ekp0]; cbn [negb]; [|reflexivity].
    assert (Ekp0' : bkind (contBlock p) = ParagraphKind) by exact Ekp0.
    rewrite (R_contBlock_deep _ _ H Hd), (R_srcP _ _ H), (R_srcQ _ _ H).
    assert (Hc : ceB (contBlock p)).
    { unfold contBlock. pose proof (R_valid _ _ H) as V. destruct (getAt (cdepth p) (root p)) as [x|] eqn:Ex; [|contradiction]. apply (ceB_getAt _ _ _ (R_ce _ _ H) Ex). }
    rewrite (HocpP _ Hc Ekp0'), <- map_rev. destruct (rev (onCloseParagraph sD (contBlock p))); [reflexivity|cbn [map]; rewrite bkind_rB; reflexivity].
  Qed.

  (* a paragraph that keeps paragraph content may become a setext heading *)
  Hypothesis OP_setext : forall b lvl, OP b -> bkind b = ParagraphKind -> BSOrph.lastIsPara (onCloseParagraph sD b) = true ->
    OP (set_bn (set_bkind b SetextHeadingKind) lvl).
  Lemma okR_startSetext : startOKR startSetext.
  Proof.
    intros p q [He Hr] Hso Hlb. unfold startSetext. cbv zeta. rewrite (R_containerKind _ _ Hr).
    destruct (negb (containerKind p =? ParagraphKind)) eqn:Ek; [split; [exact Hr|right; exact Hlb]|]. apply negb_false_iff, Z.eqb_eq in Ek.
    pose proof (ckPara_deep' p He Ek) as Hd.
    rewrite (R_indent _ _ Hr), (R_bai _ _ Hr). destruct (_ <=? _); [split; [exact Hr|right; exact Hlb]|]. destruct (_ =? 0); [split; [exact Hr|right; exact Hlb]|].
    rewrite (R_contPara _ _ Hr Hd). destruct (negb (containerHasParagraphContent p)) eqn:Ecp; [split; [exact Hr|right; exact Hlb]|]. apply negb_false_iff in Ecp.
    set (f := fun b => set_bn (set_bkind b SetextHeadingKind) (parseSetextHeadingUnderline (bytesAfterIndent p))).
    assert (H1 : R (updCont p f) (updCont q f)).
    { apply R_updCont; [exact Hr|intros E0; lia| |].
      - intros x _ _. unfold f. destruct x; reflexivity.
      - intros x Ex Hx. assert (Kx : bkind x = ParagraphKind) by (rewrite <- (ck_getAt p x Ex); exact Ek).
        assert (Lx : BSOrph.lastIsPara (onCloseParagraph sD x) = true).
        { unfold containerHasParagraphContent in Ecp. rewrite Ek in Ecp. cbn [negb Z.eqb] in Ecp. change (ParagraphKind =? ParagraphKind) with true in Ecp. cbn [negb] in Ecp.
          unfold contBlock in Ecp. rewrite Ex, (R_srcP _ _ Hr) in Ecp. exact Ecp. }
        apply ceB_eq in Hx. destruct Hx as (A & B & C & L4 & D). apply ceB_eq.
        assert (Ef : bkind (f x) = SetextHeadingKind /\ bik (f x) = bik x /\ bkids (f x) = bkids x) by (unfold f; destruct x; repeat split).
        destruct Ef as (F0 & F1 & F2). rewrite F0, F1, F2. split; [intros _; apply A; rewrite Kx; discriminate|]. split; [intros _; apply B; rewrite Kx; reflexivity|]. split; [|split; [apply (lpOKk_kind (bkind x)); [discriminate|exact L4]|exact D]].
        intros _. unfold f. apply OP_setext; [apply C; rewrite Kx; reflexivity|exact Kx|exact Lx]. }
    assert (S1 : L2Kind2.st3 (updCont p f)) by apply He.
    split.
    - apply R_endBlock; [apply R_consumeLine, H1|]. rewrite (li_consumeLine_R _ _ H1). exact ln_pos.
    - left. apply state_endBlock_consumed, state_consumeLine_st3, S1.
  Qed.

  Lemma R_cdelim p q : R p q ->
    (if (containerKind q =? ListKind) || (containerKind q =? ListItemKind) then bchar (contBlock q) else 0) =
    (if (containerKind p =? ListKind) || (containerKind p =? ListItemKind) then bchar (contBlock p) else 0).
  Proof.
    intros H. rewrite (R_containerKind _ _ H). destruct (cdepth p) eqn:Ed.
    - rewrite (R_contBlock_top _ _ H Ed). destruct (contBlock p); reflexivity.
    - rewrite (R_contBlock_deep _ _ H) by lia. rewrite bchar_rB. reflexivity.
  Qed.

  Lemma okR_startListItem : startOKR startListItem.
  Proof.
    intros p q H Hso Hlb. pose proof (proj2 H) as Hr. unfold startListItem. cbv zeta. rewrite (R_indent _ _ Hr), (R_bai _ _ Hr), (R_containerKind _ _ Hr).
    destruct (_ <=? _); [split; [exact Hr|right; exact Hlb]|].
    destruct (parseListMarker (bytesAfterIndent p)) as [[delim n] mend] eqn:Em.
    destruct ((mend <? 0) || _) eqn:Ec1; [split; [exact Hr|right; exact Hlb]|]. destruct (_ && isBlankLine _); [split; [exact Hr|right; exact Hlb]|].
    apply orb_false_iff in Ec1. destruct Ec1 as [Ec1 _]. apply Z.ltb_ge in Ec1.
    destruct (listMarker_last _ _ _ _ Em Ec1) as (M1 & M2 & M3 & _).
    pose proof (R_liR _ _ Hr) as Hli. pose proof (R_lineP _ _ Hr) as Hl.
    pose proof (bai_rest_after p Hl Hli) as Erest.
    pose proof (lb_consumeIndent p (indent p) Hl ltac:(lia)) as Hl1.
    pose proof (RE_consumeIndent p q (indent p) H) as H1. set (p1 := consumeIndent p (indent p)) in *. set (q1 := consumeIndent q (indent p)) in *.
    pose proof (R_liR _ _ (proj2 H1)) as Hli1.
    assert (Elen : len (bytesAfterIndent p) = len ln - li p1) by (rewrite <- Erest; unfold rest; rewrite (R_lineP _ _ (proj2 H1)); apply len_from; lia).
    assert (Eat : forall j, 0 <= j -> at_ (bytesAfterIndent p) j = at_ ln (li p1 + j)) by (intros j Hj; rewrite <- Erest; unfold rest; rewrite (R_lineP _ _ (proj2 H1)); apply at_from; lia).
    clearbody p1 q1.
    rewrite (R_cdelim _ _ (proj2 H1)), (R_containerKind _ _ (proj2 H1)).
    set (cdelim := if (containerKind p1 =? ListKind) || (containerKind p1 =? ListItemKind) then bchar (contBlock p1) else 0).
    match goal with |- R ?X ?Y /\ _ =>
      match X with context [openBlock ?a ListItemKind] => match Y with context [openBlock ?b ListItemKind] => set (p2 := a); set (q2 := b) end end end.
    assert (H2 : RE p2 q2 /\ containerKind p2 = ListKind /\ li p2 = li p1).
    { unfold p2, q2. destruct (negb (containerKind p1 =? ListKind) || negb (cdelim =? delim)) eqn:Ec.
      - destruct (RE_openBlock p1 q1 ListKind H1 ltac:(discriminate) ltac:(lia) ltac:(discriminate)) as [Ho Do].
        assert (Hq : RE (updCont (openBlock p1 ListKind) (fun b => set_bchar b delim)) (updCont (openBlock q1 ListKind) (fun b => set_bchar b delim)))
          by (apply RE_setters; [exact Ho|setters|settersM|setters3|exact Do]).
        split; [exact Hq|]. split.
        + apply containerKind_of; [apply Hq|]. apply ckind_updCont; [intros b; apply bkind_set_bchar|]. apply ckind_openBlock3. apply H1.
        + cbn [li updCont withRoot setLP]. apply li_openBlock.
      - apply orb_false_iff in Ec. destruct Ec as [Ec _]. apply negb_false_iff, Z.eqb_eq in Ec. tauto. }
    destruct H2 as (H2 & K2 & L2). clearbody p2 q2.
    destruct (RE_openBlock' p2 q2 ListItemKind H2 ltac:(rewrite K2; reflexivity) ltac:(lia) eq_refl) as [H3 D3].
    assert (H3' : RE (updCont (openBlock p2 ListItemKind) (fun b => set_bchar b delim)) (updCont (openBlock q2 ListItemKind) (fun b => set_bchar b delim)))
      by (apply RE_setters; [exact H3|setters|settersM|setters3|exact D3]).
    set (p3 := updCont (openBlock p2 ListItemKind) _) in *. set (q3 := updCont (openBlock q2 ListItemKind) _) in *.
    assert (L3 : li p3 = li p1) by (unfold p3; cbn [li updCont withRoot setLP]; rewrite li_openBlock; exact L2).
    assert (K3 : containerKind p3 = ListItemKind).
    { unfold p3. apply containerKind_of; [apply H3'|]. apply ckind_updCont; [intros b; apply bkind_set_bchar|]. apply ckind_openBlock3. apply H2. }
    assert (D3' : (1 <= cdepth p3)%nat) by (unfold p3; rewrite cdepth_updCont; exact D3). clearbody p3 q3.
    destruct (RE_openBlock p3 q3 ListMarkerKind H3' ltac:(discriminate) ltac:(lia) ltac:(discriminate)) as [H4 D4].
    assert (D4' : cdepth (openBlock p3 ListMarkerKind) = S (cdepth p3)) by (apply cdepth_openBlock_can; [apply H3'|rewrite K3; reflexivity]).
    pose proof (li_openBlock p3 ListMarkerKind) as L4.
    set (p4 := openBlock p3 ListMarkerKind) in *. set (q4 := openBlock q3 ListMarkerKind) in *. clearbody p4 q4.
    pose proof (RE_advance p4 q4 mend H4) as H5.
    assert (L5 : li (advance p4 mend) = li p1 + mend) by (rewrite li_advance_eq; [lia|lia|rewrite (R_lineP _ _ (proj2 H4)); lia]).
    assert (B5 : li p1 + mend <= lb).
    { replace (li p1 + mend) with (li p1 + (mend - 1) + 1) by lia. apply in_lb; [lia|]. rewrite <- Eat by lia. exact M3. }
    assert (H6 : RE (endBlock (advance p4 mend)) (endBlock (advance q4 mend))) by (apply RE_endBlock; [exact H5|rewrite cd_advance; lia|lia]).
    assert (L6 : li (endBlock (advance p4 mend)) = li p1 + mend) by (rewrite li_endBlock; exact L5).
    assert (D6 : (1 <= cdepth (endBlock (advance p4 mend)))%nat).
    { rewrite cdepth_endBlock' by (apply L2Kind2.st3_advance, H4). rewrite cd_advance, D4'. cbn. exact D3'. }
    set (p6 := endBlock (advance p4 mend)) in *. set (q6 := endBlock (advance q4 mend)) in *. clearbody p6 q6.
    rewrite (R_isRestBlank _ _ (proj2 H6)), (R_indent _ _ (proj2 H6)).
    destruct (isRestBlank p6).
    { assert (H7 : RE (updCont p6 (fun b => set_bindent b (indent p + mend + 1))) (updCont q6 (fun b => set_bindent b (indent p + mend + 1))))
        by (apply RE_setters; [exact H6|setters|settersM|setters3|exact D6]).
      split; [apply R_consumeLine, H7|left; apply state_consumeLine_st3, H7]. }
    pose proof (R_lineP _ _ (proj2 H6)) as Ln6. pose proof (R_liR _ _ (proj2 H6)) as Hli6.
    destruct (indent p6 <? 1).
    { split; [apply RE_setters; [exact H6|setters|settersM|setters3|exact D6]|right; cbn [li updCont withRoot setLP]; lia]. }
    destruct (4 <? indent p6).
    - pose proof (lb_consumeIndent p6 1 Ln6 ltac:(lia)) as B7.
      split; [apply RE_setters; [apply RE_consumeIndent, H6|setters|settersM|setters3|rewrite cd_consumeIndent; exact D6]|right; cbn [li updCont withRoot setLP]; lia].
    - pose proof (lb_consumeIndent p6 (indent p6) Ln6 ltac:(lia)) as B7.
      split; [apply RE_setters; [apply RE_consumeIndent, H6|setters|settersM|setters3|rewrite cd_consumeIndent; exact D6]|right; cbn [li updCont withRoot setLP]; lia].
  Qed.

  Lemma blockStarts_okR : Forall startOKR blockStarts.
  Proof.
    unfold blockStarts. repeat apply Forall_cons; try apply Forall_nil.
    - exact okR_startBlockQuote. - exact okR_startATX. - exact okR_startFenced. - exact okR_startHTML.
    - exact okR_startSetext. - exact okR_startThematic. - exact okR_startListItem. - exact okR_startIndented.
  Qed.

  (* ---- openNewBlocks ---- *)
  Lemma R_tryStarts : forall fs p q, Forall startOKR fs -> Forall startOKE fs -> F p -> R p q -> li p <= lb ->
    relBPR (tryStarts fs p) (tryStarts fs q) /\ F (snd (tryStarts fs p)) /\
    (if fst (tryStarts fs p) then safeS (snd (tryStarts fs p)) else li (snd (tryStarts fs p)) <= lb).
  Proof.
    induction fs as [|f r IH]; intros p q Hn He Hf H Hlb; [split; [apply relBPR_mk, H|split; [exact Hf|exact Hlb]]|].
    cbn [tryStarts]. cbv zeta. inversion Hn as [|? ? Hn1 Hnr]; subst. inversion He as [|? ? He1 Her]; subst.
    assert (HE : RE (withState p stOpening) (withState q stOpening)) by (split; [split; [left; left; reflexivity|exact Hf]|apply R_withState, H]).
    destruct (Hn1 _ _ HE ltac:(left; reflexivity) Hlb) as [H1 S1]. pose proof (He1 _ (proj1 HE)) as E1.
    rewrite (R_state _ _ H1). destruct ((state (f (withState p stOpening)) =? stOpenMatched) || (state (f (withState p stOpening)) =? stLineConsumed)) eqn:Ec.
    - split; [apply relBPR_mk, H1|split; [apply E1|exact S1]].
    - apply orb_false_iff in Ec. destruct Ec as [_ Ec]. apply Z.eqb_neq in Ec. destruct S1 as [S1|S1]; [contradiction|].
      apply IH; [assumption|assumption|apply E1|exact H1|exact S1].
  Qed.

  Lemma R_opening_loop : forall fuel p q, F p -> R p q -> li p <= lb ->
    relBPR (opening_loop fuel p) (opening_loop fuel q) /\ F (snd (opening_loop fuel p)) /\
    (fst (opening_loop fuel p) = true -> li (snd (opening_loop fuel p)) <= lb).
  Proof.
    induction fuel as [|f IH]; intros p q Hf H Hlb; [split; [apply relBPR_mk, H|split; [exact Hf|intros _; exact Hlb]]|]. cbn [opening_loop].
    rewrite (R_containerKind _ _ H). destruct (_ || _); [|split; [apply relBPR_mk, H|split; [exact Hf|intros _; exact Hlb]]].
    destruct (R_tryStarts blockStarts p q blockStarts_okR blockStarts_okE Hf H Hlb) as ([Eb H1] & F1 & S1).
    destruct (tryStarts blockStarts p) as [b p1]. destruct (tryStarts blockStarts q) as [b' q1]. cbn [fst snd] in *. subst b'.
    destruct b; [|split; [apply relBPR_mk, H1|split; [exact F1|intros _; exact S1]]].
    rewrite (R_state _ _ H1). destruct (Z.eqb_spec (state p1) stLineConsumed) as [Es|Es]; [split; [apply relBPR_mk, H1|split; [exact F1|discriminate]]|].
    destruct S1 as [S1|S1]; [contradiction|]. apply IH; assumption.
  Qed.

  Lemma R_deferredClose p q : R p q -> R (deferredClose p) (deferredClose q).
  Proof.
    intros H. unfold deferredClose. cbv zeta. rewrite (R_isRestBlank _ _ H), (R_root _ _ H), (bheight_rRoot sg eB lpMap), (tipDepth_rRoot sg eB lpMap eB_neg eB_pos).
    set (tp := tipDepth (bheight (root p)) (root p)).
    assert (Ek : match getAt tp (MR (root p)) with Some t => bkind t =? ParagraphKind | None => false end =
                 match getAt tp (root p) with Some t => bkind t =? ParagraphKind | None => false end).
    { destruct tp as [|t]; [cbn [getAt]; rewrite bkind_rRoot; reflexivity|]. rewrite (getAt_rRoot_S sg eB lpMap).
      destruct (getAt (S t) (root p)); [cbn [option_map]; rewrite bkind_rB|]; reflexivity. }
    rewrite Ek. destruct (_ && _); [apply R_withCont; [exact H|apply tipDepth_exists]|].
    rewrite (R_lsP _ _ H), (R_lsQ _ _ H), <- eB_ls. apply R_closeHere; [exact H|exact ls_nonneg].
  Qed.


  Lemma R_openNewBlocks p q am : F p -> R p q -> li p <= lb ->
    relBPR (openNewBlocks p am) (openNewBlocks q am) /\ (fst (openNewBlocks p am) = true -> li (snd (openNewBlocks p am)) <= lb).
  Proof.
    intros Hf H Hlb. unfold openNewBlocks. rewrite (R_lineP _ _ H), (R_lineQ _ _ H), len_lnq.
    destruct (Z.eqb_spec (len ln) 0) as [E0|_]; [lia|]. destruct (Z.eqb_spec (len ln + PW) 0) as [E0|_]; [lia|].
    assert (Ef : opening_loop (S (length ln)) p = opening_loop (S (length lnq)) p).
    { pose proof (R_liR _ _ H) as Hr. apply opening_loop_fuel; [exact Hf|split; [rewrite (R_lineP _ _ H); exact ln_notab|rewrite (R_lineP _ _ H); exact Hr]| |];
        unfold needO; rewrite (R_lineP _ _ H); unfold lnq, len in *; rewrite ?app_length; destruct (guardO p); lia. }
    rewrite Ef.
    destruct (R_opening_loop (S (length lnq)) p q Hf H Hlb) as ([Eb H1] & _ & S1).
    destruct (opening_loop (S (length lnq)) p) as [ht p1]. destruct (opening_loop (S (length lnq)) q) as [ht' q1]. cbn [fst snd] in *. subst ht'.
    destruct am; cbn [fst snd]; [split; [apply relBPR_mk, H1|exact S1]|].
    split; [apply relBPR_mk, R_deferredClose, H1|]. intros Ht. specialize (S1 Ht).
    unfold deferredClose. cbv zeta. destruct (_ && _); cbn; exact S1.
  Qed.

  (* ---- addLineText ---- *)
  Lemma set_blast_M c v : set_blast (M c) v = M (set_blast c v). Proof. destruct c; reflexivity. Qed.
  Lemma qblankF_M x : qblankF (M x) = M (qblankF x).
  Proof.
    unfold qblankF. rewrite lastBlock_rB. destruct (lastBlock x) as [c|]; cbn [option_map]; [|reflexivity].
    rewrite set_blast_M. change [M (set_blast c true)] with (map M [set_blast c true]). apply set_lastBlocks_rB.
  Qed.
  Lemma qblankF_MR x : qblankF (MR x) = MR (qblankF x).
  Proof.
    unfold qblankF. rewrite lastBlock_rRoot. destruct (lastBlock x) as [c|]; cbn [option_map]; [|reflexivity].
    rewrite set_blast_M. change [M (set_blast c true)] with (map M [set_blast c true]). apply set_lastBlocks_rRoot.
  Qed.
  Lemma ceB_qblankF x : ceB x -> ceB (qblankF x).
  Proof.
    intros H. unfold qblankF. destruct (lastBlock x) as [c|] eqn:El; [|exact H]. apply ceB_set_lastBlocks; [exact H|]. constructor; [|constructor].
    apply (ceB_same c); [destruct c; reflexivity|destruct c; reflexivity|destruct c; reflexivity|destruct c; exact (fun h => h)|apply (ceB_lastBlock x c H El)].
  Qed.
  Lemma R_alt_blank p q : R p q -> R (alt_blank p) (alt_blank q).
  Proof.
    intros H. unfold alt_blank. rewrite (R_isRestBlank _ _ H). destruct (isRestBlank p); [|exact H].
    apply R_updCont; [exact H|intros _; apply qblankF_MR|intros x _ _; apply qblankF_M|intros x _ Hx; apply ceB_qblankF, Hx].
  Qed.

  Lemma R_alt_llb p q b : R p q -> bkind (root p) = documentKind -> alt_llb b q = alt_llb b p.
  Proof.
    intros H Hdoc. unfold alt_llb. cbv zeta. rewrite (R_lsP _ _ H), (R_lsQ _ _ H). destruct (cdepth p) as [|d] eqn:Ed.
    - rewrite (R_contBlock_top _ _ H Ed). rewrite bkind_rRoot.
      assert (Ek : bkind (contBlock p) = documentKind) by (unfold contBlock; rewrite Ed; exact Hdoc). rewrite Ek.
      change (documentKind =? ListItemKind) with false. rewrite !andb_false_l. reflexivity.
    - rewrite (R_contBlock_deep _ _ H) by lia. rewrite bkind_rB, childCount_rB, bstart_rB.
      assert (Em : (lsq <=? sg (bstart (contBlock p))) = (ls <=? bstart (contBlock p))).
      { destruct (Z.leb_spec ls (bstart (contBlock p))) as [L|L].
        - apply Z.leb_le, monoA, L.
        - apply Z.leb_gt, monoB, L. }
      rewrite Em. reflexivity.
  Qed.

  Lemma set_blast_MR r v : set_blast (MR r) v = MR (set_blast r v). Proof. destruct r; reflexivity. Qed.
  Lemma SLB_MR v : forall d r, setLastBlankUpTo d v (MR r) = MR (setLastBlankUpTo d v r).
  Proof.
    induction d as [|d IH]; intros r; cbn [setLastBlankUpTo].
    - apply (updAt_rRoot sg eB lpMap (fun b => set_blast b v) (fun b => set_blast b v) O r); [intros _; apply set_blast_MR|intros x Hd; lia].
    - rewrite (updAt_rRoot sg eB lpMap (fun b => set_blast b v) (fun b => set_blast b v) (S d) r); [apply IH|intros E0; discriminate|intros x _ _; apply set_blast_M].
  Qed.
  Lemma ceB_SLB v : forall d r, ceB r -> ceB (setLastBlankUpTo d v r).
  Proof.
    assert (St : forall d r, ceB r -> ceB (updAt d (fun b => set_blast b v) r)).
    { intros d r H. apply ceB_updAt; [exact H|]. intros x _ Hx. apply (ceB_same x); [destruct x; reflexivity|destruct x; reflexivity|destruct x; reflexivity|destruct x; exact (fun h => h)|exact Hx]. }
    induction d as [|d IH]; intros r H; cbn [setLastBlankUpTo]; [apply St, H|apply IH, St, H].
  Qed.
  Lemma R_alt_slb p q v : R p q -> R (alt_slb v p) (alt_slb v q).
  Proof.
    intros H. unfold alt_slb. rewrite (R_cdepth _ _ H). rsplit H. unfold withRoot. flds. cbn [cdepth container]. rewrite SLB_MR. apply R_mk; [exact Hli| |apply ceB_SLB, C].
    destruct (getAt d rt) as [x|] eqn:Ex; [|contradiction]. destruct (SLB_keep v d d rt x Ex) as (y & Hy). rewrite Hy. discriminate.
  Qed.

  Lemma hasEOL_lnq : hasByteSuffixEOL lnq = hasByteSuffixEOL ln.
  Proof.
    unfold lnq. pose proof ln_pos as Hp. destruct ln as [|c r]; [unfold len in Hp; cbn in Hp; lia|]. clear.
    induction pre as [|x w IH]; [reflexivity|]. cbn [app]. rewrite <- IH. destruct (w ++ c :: r) eqn:E; [destruct w; discriminate|reflexivity].
  Qed.
  Lemma noEOL_lb : hasByteSuffixEOL ln = false -> lb = len ln.
  Proof.
    intros H. destruct lb_last as [E|[E1 E2]]; [exact E|]. exfalso.
    rewrite (L2BndS.hasEOL_last ln) in H; [discriminate|lia|]. rewrite <- E1, E2. reflexivity.
  Qed.

  Lemma isCode_kinds k : isCode k = true -> isParaK k = false /\ k <> LinkReferenceDefinitionKind.
  Proof. unfold isCode. intros H. apply orb_true_iff in H. destruct H as [H|H]; apply Z.eqb_eq in H; subst k; split; (reflexivity || discriminate). Qed.

  Definition NLc (p : lp) : Prop := forall x, getAt (cdepth p) (root p) = Some x -> bkind x <> LinkReferenceDefinitionKind.
  Lemma ckind_openBlock3 p K : L2Kind2.st3 p -> L2Kind2.ckind (openBlock p K) K.
  Proof.
    intros Hs. unfold openBlock.
    replace ((state p =? stDescending) || (state p =? stDescendTerminated)) with false by (destruct (L2Kind2.st3_cases p Hs) as [-> | [-> | ->]]; reflexivity).
    cbv zeta. intros b Hb. unfold cdepth, updCont in Hb. cbn [root container withCont withRoot setLP] in Hb.
    match type of Hb with getAt (Datatypes.S ?d) (updAt (cdepth ?q) _ _) = _ => change (cdepth q) with d in Hb end.
    apply L2Kind2.getAt_S_append in Hb. subst b. reflexivity.
  Qed.
  Lemma R_qgoF p q : R p q -> (1 <= cdepth p)%nat -> li p <= lb -> NLc p -> R0 (qgoF p) (qgoF q).
  Proof.
    intros H Hd Hlb Hnl. unfold qgoF. cbv zeta. rewrite (R_containerKind _ _ H), (R_lsP _ _ H), (R_lsQ _ _ H), (R_li _ _ H), (R_lineP _ _ H), (R_lineQ _ _ H), len_lnq.
    pose proof (R_liR _ _ H) as Hr.
    set (ik := if isCode (containerKind p) then TextKind else if containerKind p =? HTMLBlockKind then RawHTMLKind else UnparsedKind).
    assert (Hik : isLinkPart ik = false) by (unfold ik; destruct (isCode _); [reflexivity|destruct (_ =? _); reflexivity]).
    set (u := mkI ik (ls + li p) (ls + len ln)).
    assert (Eu : mkI ik (lsq + (li p + PW)) (lsq + (len ln + PW)) = MI u).
    { rewrite (MI_cur u Hik) by (unfold u; cbn [istart mkI]; lia). unfold u. rewrite mkI_mv. unfold dl. f_equal; lia. }
    rewrite Eu.
    assert (Hcu : ceI u) by (apply ceI_cur; unfold u; cbn [ikind istart iend mkI]; [exact Hik|apply insideI_leaf|apply kidsIn_leaf|lia|lia|lia|lia]).
    destruct (isCode (containerKind p)) eqn:Eic.
    - (* a code block: the strong invariant is kept *)
      destruct (isCode_kinds _ Eic) as [Kq Kl].
      assert (H1 : R (updCont p (fun b => set_bik b (bik b ++ [u]))) (updCont q (fun b => set_bik b (bik b ++ [MI u])))) by (apply R_add_ik; assumption).
      set (p1 := updCont p _) in *. set (q1 := updCont q _) in *.
      assert (D1 : (1 <= cdepth p1)%nat) by (unfold p1; rewrite cdepth_updCont; exact Hd).
      assert (C1 : containerKind p1 = containerKind p) by (unfold p1; apply L2Kind2.containerKind_updCont; intros b0; destruct b0; reflexivity). clearbody p1 q1.
      rewrite (R_lineP _ _ H1), (R_lineQ _ _ H1), hasEOL_lnq, (R_lsP _ _ H1), (R_lsQ _ _ H1), len_lnq. cbn [andb].
      destruct (negb (hasByteSuffixEOL ln)) eqn:Ec; [|apply R_weak, H1].
      apply negb_true_iff in Ec. pose proof (noEOL_lb Ec) as Elb.
      set (v := mkI SoftLineBreakKind (ls + len ln) (ls + len ln)).
      assert (Ev : mkI SoftLineBreakKind (lsq + (len ln + PW)) (lsq + (len ln + PW)) = MI v).
      { rewrite (MI_cur v eq_refl) by (unfold v; cbn [istart mkI]; lia). unfold v. rewrite mkI_mv. unfold dl. f_equal; lia. }
      rewrite Ev. apply R_weak, R_add_ik; [exact H1|exact D1|rewrite C1; exact Kq|rewrite C1; exact Kl|apply ceI_cur; unfold v; cbn [ikind istart iend mkI]; [reflexivity|apply insideI_leaf|apply kidsIn_leaf|lia|lia|lia|lia]].
    - (* a paragraph or an HTML block: one entry; the invariant without OP *)
      cbn [andb]. apply R_updCont0; [exact H|intros E0; lia|intros x _ _; apply add_ik_M|].
      intros x Ex Hx. apply ceB_eq in Hx. destruct Hx as (A & B & _ & L4 & D). apply ceB0_eq.
      assert (E : bkind (set_bik x (bik x ++ [u])) = bkind x /\ bik (set_bik x (bik x ++ [u])) = bik x ++ [u] /\ bkids (set_bik x (bik x ++ [u])) = bkids x) by (destruct x; repeat split).
      destruct E as (E0 & E1 & E2). rewrite E0, E1, E2. rewrite <- (ck_getAt p x Ex).
      split; [intros K; apply Forall_app; split; [apply A; rewrite <- (ck_getAt p x Ex); exact K|constructor; [exact Hcu|constructor]]|].
      split; [|split; [rewrite (ck_getAt p x Ex); apply Forall_app; split; [exact L4|constructor; [apply lpOKk_other; [apply Hnl, Ex|apply ceI_lpOK, Hcu]|constructor]]|unfold ceL0, ceL in *; eapply Forall_impl; [|exact D]; apply ceB_weak]].
      intros K. apply Forall_app. split; [apply B; rewrite <- (ck_getAt p x Ex); exact K|constructor; [|constructor]].
      unfold unpK, u, ik. cbn [ikind mkI]. destruct (Z.eqb_spec (containerKind p) HTMLBlockKind) as [Eh|_]; [rewrite Eh in K; discriminate K|reflexivity].
  Qed.

  Lemma R_alt_tail p q b k : R p q -> (acceptsLines k = true -> (1 <= cdepth p)%nat) -> (acceptsLines k = false -> L2Kind2.st3 p) -> li p <= lb ->
    (acceptsLines k = true -> containerKind p = k) ->
    R0 (alt_tail b k p) (alt_tail b k q).
  Proof.
    intros H Hd Hs Hlb Hck. unfold alt_tail. destruct (acceptsLines k) eqn:Ea.
    - specialize (Hd eq_refl). rewrite (R_li _ _ H), (R_lineP _ _ H), (R_lineQ _ _ H). pose proof (R_liR _ _ H) as Hr.
      unfold lnq at 2. rewrite at_pre by lia. rewrite (noTab_at ln (li p) ln_notab), !andb_false_r. cbn [andb]. apply R_qgoF; try assumption.
      intros x Ex. rewrite <- (ck_getAt p x Ex), (Hck eq_refl). apply L2Kind2.acceptsLines_notref, Ea.
    - destruct (negb b); [|apply R_weak, H]. cbv zeta. specialize (Hs eq_refl).
      pose proof (R_openBlock p q ParagraphKind H Hlb ltac:(discriminate)) as Ho. rewrite (R_indent _ _ Ho).
      pose proof (R_liR _ _ H) as Hr.
      apply R_qgoF; [apply R_consumeIndent, Ho|rewrite cd_consumeIndent; apply cdepth_openBlock, st3_notdesc', Hs| |].
      + pose proof (lb_consumeIndent (openBlock p ParagraphKind) (indent (openBlock p ParagraphKind)) (R_lineP _ _ Ho) ltac:(rewrite li_openBlock; lia)) as X. lia.
      + intros x Ex. pose proof (L2Kind2.ckind_same _ _ ParagraphKind (L2Kind2.same_consumeIndent (openBlock p ParagraphKind) (indent (openBlock p ParagraphKind))) (ckind_openBlock3 p ParagraphKind Hs)) as Hc.
        rewrite (Hc x Ex). discriminate.
  Qed.

  Lemma R_addLineText p q : R p q -> F p -> goodSt' p -> li p <= lb -> R0 (addLineText p) (addLineText q).
  Proof.
    intros H Hf Hg Hlb. rewrite !addLineText_eq. rewrite (R_isRestBlank _ _ H). pose proof (R_alt_blank _ _ H) as H1.
    assert (Hdoc : bkind (root (alt_blank p)) = documentKind).
    { unfold alt_blank. destruct (isRestBlank p); [|apply Hf]. unfold updCont, withRoot. flds. rewrite L2CC.bkind_updAt; [apply Hf|].
      intros _. unfold qblankF. destruct (lastBlock (root p)); [destruct (root p); reflexivity|reflexivity]. }
    rewrite (R_alt_llb _ _ (isRestBlank p) H1 Hdoc), (R_containerKind _ _ H1).
    apply R_alt_tail; [apply R_alt_slb, H1| | | |].
    - intros Ha. change (cdepth (alt_slb (alt_llb (isRestBlank p) (alt_blank p)) (alt_blank p))) with (cdepth (alt_blank p)).
      destruct (cdepth (alt_blank p)) eqn:Ed; [|lia]. exfalso. rewrite (containerKind_root _ Ed), Hdoc in Ha. discriminate.
    - intros Ha. rewrite containerKind_alt_blank in Ha. specialize (Hg Ha). unfold alt_slb, alt_blank. destruct (isRestBlank p); exact Hg.
    - unfold alt_slb, alt_blank. destruct (isRestBlank p); exact Hlb.
    - intros _. unfold alt_slb. unfold containerKind, contBlock, cdepth. cbn [root container withRoot setLP]. fold (cdepth (alt_blank p)).
      match goal with |- bkind (match getAt ?k (setLastBlankUpTo ?d ?v ?r) with _ => _ end) = _ =>
        pose proof (L2Kind2.kindAt_setLastBlankUpTo v d k r) as E0 end.
      destruct (getAt (cdepth (alt_blank p)) (setLastBlankUpTo _ _ _)); destruct (getAt (cdepth (alt_blank p)) (root (alt_blank p))); cbn in E0; try congruence; reflexivity.
  Qed.

  (* ---- one line ---- *)
  Lemma ceB_root ks : ceL ks -> ceB (Blk documentKind 0 (-1) ks [] 0 0 0 false false).
  Proof. intros H. apply ceB_eq. cbn [bik bkids bkind]. split; [intros _; constructor|]. split; [discriminate|]. split; [discriminate|]. split; [constructor|exact H]. Qed.

  Theorem reloc_line ks : ccF ks = true -> ceL ks ->
    processLineAt PW PW stDescending (map M ks) lsq sQ =
      (map M (fst (fst (processLine stDescending ks ls sD))), snd (fst (processLine stDescending ks ls sD)), snd (processLine stDescending ks ls sD)) /\
    ceL0 (fst (fst (processLine stDescending ks ls sD))).
  Proof.
    intros Hcc Hce. rewrite processLine_tail. unfold processLineAt, processTail.
    set (p0 := resetLP stDescending ks ls sD). set (q0 := resetLPAt PW PW stDescending (map M ks) lsq sQ).
    assert (H0 : R p0 q0).
    { unfold p0, q0, resetLP, resetLPAt. cbv zeta. rewrite srcD, srcQ. rewrite (computeTabRem_notab ln 0 0 ln_notab), (computeTabRem_notab lnq PW PW lnq_notab).
      change (Blk documentKind 0 (-1) (map M ks) [] 0 0 0 false false) with (MR (Blk documentKind 0 (-1) ks [] 0 0 0 false false)).
      apply (R_mk (Blk documentKind 0 (-1) ks [] 0 0 0 false false) O 0 0 stDescending 0); [lia|discriminate|apply ceB_root, Hce]. }
    assert (F0 : F p0) by (apply (F_resetLPAt 0 0 stDescending ks ls sD Hcc)).
    unfold descendOpenBlocks. rewrite (R_root _ _ H0), (bheight_rRoot sg eB lpMap).
    destruct (R_descend_loop (bheight (root p0)) p0 q0 O H0 ltac:(cbn; lia) ltac:(discriminate)) as [[Eam H1] S1].
    pose proof (F_descend_loop (bheight (root p0)) p0 O F0 ltac:(eexists; reflexivity)) as F1.
    destruct (descend_loop (bheight (root p0)) p0 0) as [am p1]. destruct (descend_loop (bheight (root p0)) q0 0) as [am' q1]. cbn [fst snd] in *. subst am'.
    rewrite (R_state _ _ H1).
    assert (H2 : relBPR (if negb (state p1 =? stDescendTerminated) then openNewBlocks p1 am else (false, p1))
                        (if negb (state p1 =? stDescendTerminated) then openNewBlocks q1 am else (false, q1)) /\
                 (fst (if negb (state p1 =? stDescendTerminated) then openNewBlocks p1 am else (false, p1)) = true ->
                  goodSt' (snd (if negb (state p1 =? stDescendTerminated) then openNewBlocks p1 am else (false, p1))) /\
                  li (snd (if negb (state p1 =? stDescendTerminated) then openNewBlocks p1 am else (false, p1))) <= lb /\
                  F (snd (if negb (state p1 =? stDescendTerminated) then openNewBlocks p1 am else (false, p1))))).
    { destruct (Z.eqb_spec (state p1) stDescendTerminated) as [Et|Et]; cbn [negb].
      - split; [apply relBPR_mk, H1|cbn; discriminate].
      - destruct S1 as [S1|S1]; [contradiction|]. destruct (R_openNewBlocks p1 q1 am F1 H1 S1) as [A B]. split; [exact A|].
        intros Ht. split; [intros Hacc; left; apply (L2Kind2.openNewBlocks_good p1 am Ht Hacc)|split; [apply B, Ht|apply F_openNewBlocks, F1]]. }
    destruct H2 as [[Eht H2] G2].
    destruct (if negb (state p1 =? stDescendTerminated) then openNewBlocks p1 am else (false, p1)) as [ht p2].
    destruct (if negb (state p1 =? stDescendTerminated) then openNewBlocks q1 am else (false, q1)) as [ht' q2]. cbn [fst snd] in *. subst ht'.
    assert (H3 : R0 (if ht then addLineText p2 else p2) (if ht then addLineText q2 else q2)).
    { destruct ht; [|apply R_weak, H2]. destruct (G2 eq_refl) as (A & B & C). apply R_addLineText; assumption. }
    set (p3 := if ht then addLineText p2 else p2) in *. set (q3 := if ht then addLineText q2 else q2) in *. clearbody p3 q3.
    destruct H3 as (_ & _ & _ & _ & _ & _ & _ & _ & _ & _ & E1 & E2 & _ & E3 & _ & _ & C3).
    rewrite E1, E2, E3, bkids_rRoot. split; [reflexivity|]. apply ceB0_eq in C3. apply C3.
  Qed.
End Reloc.

Check reloc_line.
Print Assumptions reloc_line.
