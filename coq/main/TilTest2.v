From Coq Require Import List ZArith Lia Bool.
Import ListNotations.
Require Import Base Tree LP Driver Props.
Open Scope Z_scope.
(* exhaustive check of the C01 checker and of the result code on all strings over a small alphabet *)
Definition alphabet : list Z := [62; 45; 32; 10; 96; 97; 35; 91; 93; 58; 9; 60; 61; 13; 0; 49; 46].
Definition bad (input : bytes) : bool :=
  let '(rs, code) := parseBlocks input in negb ((code =? 0) && chk_C01 input rs).
Fixpoint counter (n : nat) (w : bytes) : list bytes :=
  (if bad w then [w] else []) ++ match n with O => [] | S k => flat_map (fun c => counter k (c :: w)) alphabet end.
(* the list of counterexamples to "result code 0 and chk_C01" among all strings of length <= 4: empty.
   (counter 5 [] : all 1.5 million strings of length <= 5, about 185 s, also empty.) *)
Time Eval vm_compute in counter 4 [].
