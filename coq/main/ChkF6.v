(* ChkF6.v -- T30 follow-up: Fb through the driver: for EVERY input, every root block satisfies Fb for some bounds. *)
From Coq Require Import List ZArith Lia Bool.
Import ListNotations.
Require Import Base Tables Utf8 Tree Rdr Link Collect Html Recog Inl3a Inl3b Inl3c Inl3d Inl3e LP Rules Starts Driver Render Props Leaf3e RdrBound
  L2Kind L2Kind2 L2CC L2CCfull L2Bnd L2BndS Rec16 Rec17 Rec18 ShapesBase
  BSDef BSRdr BSTree BSOcp BSOrph BSClose BSLine1 BSLine10 BSShift BlockSpans BShDef ShDef BlockShapes GramDefs GramTree GramLP GramLP4 GramBlocks
  C17chk ChkB ChkW1 ChkW7 ChkW8 ChkE1 ChkE2 ChkE3 ChkE4 ChkE5 ChkE6 ChkF1 ChkF2 ChkF3 ChkF4 ChkF5.
Open Scope Z_scope.

Lemma Fb_shift M U n : 0 <= n -> n <= U -> forall b, lbB n b -> Fb M U b = true -> Fb (M - n) (U - n) (shiftB (- n) b) = true.
Proof.
  intros Hn HU. fix IH 1. intros b Hl H. rewrite lbB_eq in Hl. destruct Hl as [Hl1 Hl2]. apply Fb_parts in H. destruct H as (A & C).
  destruct b as [K s e bk ik a nn c l lb]. cbn [bstart bend bik bkids] in *. cbn [shiftB]. apply Fb_mk; cbn [bstart bend bik bkids].
  - destruct (exK K) eqn:E; [apply floc_ex; exact E|]. destruct (floc_nex M U (Blk K s e bk ik a nn c l lb) E A) as [A1 A2]. cbn [bstart bend bik] in *.
    apply floc_mk; cbn [bstart bend bik]; [lia|].
    rewrite forallb_forall in *. intros u Hu. apply in_map_iff in Hu. destruct Hu as (v & <- & Hv). apply eb_shift; try assumption. apply A2, Hv.
  - unfold FbL in *. clear A. induction bk as [|x r IHr]; [reflexivity|]. destruct Hl2 as [L1 L2]. cbn [map forallb] in *.
    apply andb_true_iff in C. destruct C as [C1 C2]. rewrite (IH x L1 C1). apply IHr; assumption.
Qed.
Lemma FbL_shift M U n : 0 <= n -> n <= U -> forall l, allP (lbB n) l -> FbL M U l = true -> FbL (M - n) (U - n) (map (shiftB (- n)) l) = true.
Proof.
  intros Hn HU. induction l as [|c r IH]; intros Hl H; [reflexivity|]. destruct Hl as [L1 L2]. cbn [map FbL forallb] in *.
  apply andb_true_iff in H. destruct H as [A B]. rewrite (Fb_shift M U n Hn HU c L1 A). apply IH; assumption.
Qed.

(* ---- the driver ---- *)
Definition FbX (b : block) : Prop := exists M U, Fb M U b = true.
Definition SJF (s : bpst) (ch : list block) (ns : bool) : Prop := SJ s ch ns /\ gF ch /\ FbL (bi s) (bi s) ch = true.
Definition okJF (x : nb) : Prop :=
  match x with
  | NBBlock r s' => FbX (rb_blk r) /\ exists ns, SJF s' (pending s') ns
  | _ => True
  end.

Lemma SJF_makeRoot s children ns r s' : SJF s children ns -> makeRoot children s = Some (r, s') ->
  FbX (rb_blk r) /\ SJF s' (pending s') ns.
Proof.
  intros (HJ & HgF & HW) Hm. destruct (SJ_makeRoot _ _ _ _ _ HJ Hm) as [_ HJ']. destruct (gF_makeRoot _ _ _ _ HgF Hm) as [_ HgF'].
  destruct HJ as (HS & Hcc & Ha & Hch). destruct HS as (Hb & _).
  unfold makeRoot in Hm. destruct children as [|b rest]; [discriminate|].
  destruct (isOpen b) eqn:Eo; [discriminate|]. inversion Hm; subst. clear Hm.
  unfold isOpen in Eo. apply Z.ltb_ge in Eo. destruct Ha as [Sb Sr]. destruct Hch as (C1 & _ & C3).
  pose proof (sp_bounds _ _ Sb) as Hbd. cbn [rb_blk].
  cbn [FbL forallb] in HW. apply andb_true_iff in HW. destruct HW as [HWb HWr].
  split; [exists (bi s), (bi s); exact HWb|]. split; [exact HJ'|]. split; [exact HgF'|]. cbn [buf bi pending].
  apply FbL_shift; [lia|lia| |exact HWr].
  apply allP_intro. intros x Hx. apply (sp_lbB (bi s)); [eapply allP_In; eassumption|].
  pose proof (chain_starts _ _ _ x C3 Hx). lia.
Qed.

Lemma SJF_lineLoop : forall fuel st children ls s ns, 0 <= ls <= len (buf s) -> bi s = lineEnd (buf s) ls ->
  bndL ls ns children = true -> (ns = false -> ls = len (buf s)) -> ccF children = true -> kidsOK ls children ->
  gbL children = true -> FbL ls ls children = true ->
  okJF (lineLoop fuel st children ls s).
Proof.
  induction fuel as [|f IH]; intros st children ls s ns Hls Hbi Hc Hn Hcc Hk Hgb HW; [exact I|]. cbn [lineLoop].
  destruct (lineEnd_spec (buf s) ls Hls) as [A B]. rewrite <- Hbi in A, B.
  set (ln := from_ (upto (buf s) (bi s)) ls).
  destruct (line_of (buf s) ls (bi s) ltac:(lia) ltac:(lia)) as [Ll _]. fold ln in Ll.
  set (ns' := if ns then hasByteSuffixEOL ln else false).
  assert (Hc' : bndL (bi s) ns' children = true).
  { unfold ns'. destruct ns.
    - pose proof (bndL_mono ls (bi s) children ltac:(lia) Hc) as Hm. destruct (hasByteSuffixEOL ln); [exact Hm|apply bndL_weaken, Hm].
    - rewrite (Hn eq_refl) in *. replace (bi s) with (len (buf s)) by lia. exact Hc. }
  assert (Hn' : ns' = false -> bi s = len (buf s)).
  { unfold ns'. destruct ns; [|intros _; rewrite (Hn eq_refl) in *; lia].
    intros Ee. destruct (Z.lt_ge_cases (bi s) (len (buf s))) as [Lt|Ge]; [|lia].
    exfalso. rewrite Hbi in Lt. pose proof (line_hasEOL (buf s) ls Hls Lt) as Hh. rewrite <- Hbi in Hh. fold ln in Hh. congruence. }
  assert (Hlu : len (upto (buf s) (bi s)) = bi s) by (rewrite ShapesBase.len_upto; lia).
  pose proof (bnd_processLine (bi s) ns' st children ls (upto (buf s) (bi s)) ltac:(lia) ltac:(lia) ltac:(fold ln; lia)
                ltac:(rewrite Hlu; lia) ltac:(unfold ns'; fold ln; destruct ns; [tauto|discriminate]) Hc') as H1.
  pose proof (sp_processLine (bi s) ns' st children ls (upto (buf s) (bi s)) ltac:(lia) ltac:(lia) ltac:(fold ln; lia)
                ltac:(rewrite Hlu; lia) ltac:(unfold ns'; fold ln; destruct ns; [tauto|discriminate]) Hc' Hcc Hk) as H2.
  pose proof (cc_processLine st children ls (upto (buf s) (bi s)) Hcc) as H3.
  pose proof (gb_processLine st children ls (upto (buf s) (bi s)) Hcc Hgb) as H5.
  pose proof (F_processLine st children ls (upto (buf s) (bi s)) ltac:(rewrite Hlu; lia) Hcc Hgb HW) as H4.
  fold ln in H4. replace (ls + len ln) with (bi s) in H4 by lia.
  destruct (processLine st children ls (upto (buf s) (bi s))) as [[children' st'] pn]. cbn [fst] in H1, H2, H3, H4, H5.
  destruct (negb (pn =? 0)); [exact I|].
  assert (HS : SJF s children' ns').
  { split; [split; [repeat split; try lia; assumption|split; assumption]|]. split; [split; assumption|exact H4]. }
  destruct (makeRoot children' s) as [[r s']|] eqn:Em.
  - cbn [okJF]. destruct (SJF_makeRoot _ _ _ _ _ HS Em) as [Hr Hs']. split; [exact Hr|eauto].
  - apply (IH st' children' (bi s) _ ns'); cbn [buf bi]; try assumption; try lia; reflexivity.
Qed.

Lemma SJF_skipLoop : forall fuel s, bi s = 0 -> okJF (skipLoop fuel s).
Proof.
  induction fuel as [|f IH]; intros s Hb; [exact I|]. cbn [skipLoop]. cbv zeta.
  destruct (negb _); [exact I|]. destruct (isBlankLine _); [apply IH; reflexivity|].
  apply (SJF_lineLoop f 0 [] 0 _ true); cbn [buf bi];
    [pose proof (len_nonneg (buf s)); lia|rewrite Hb; reflexivity|reflexivity|discriminate|reflexivity|split; exact I|reflexivity|reflexivity].
Qed.
Lemma SJF_nextBlock fuel s ns : SJF s (pending s) ns -> okJF (nextBlock fuel s).
Proof.
  intros HS. unfold nextBlock. destruct (makeRoot (pending s) s) as [[r s']|] eqn:Em.
  - cbn [okJF]. destruct (SJF_makeRoot _ _ _ _ _ HS Em) as [Hr Hs']. split; [exact Hr|eauto].
  - destruct HS as (((Hb & Hc & Hn) & Hcc & Hk) & [_ Hgb] & HW). destruct (pending s) as [|b0 rest] eqn:Ep; [apply SJF_skipLoop; reflexivity|].
    apply (SJF_lineLoop fuel 0 (b0 :: rest) (bi s) _ ns); cbn [buf bi]; try assumption; try lia; reflexivity.
Qed.

Lemma SJF_allBlocks : forall fuel s acc, (exists ns, SJF s (pending s) ns) -> Forall (fun r => FbX (rb_blk r)) acc ->
  Forall (fun r => FbX (rb_blk r)) (fst (allBlocks fuel s acc)).
Proof.
  induction fuel as [|f IH]; intros s acc (ns & HS) Ha; [exact Ha|]. cbn [allBlocks].
  pose proof (SJF_nextBlock (3 + length (buf s)) s ns HS) as Hn.
  destruct (nextBlock _ s) as [r s'| | |]; try exact Ha.
  destruct Hn as [Hr (ns' & Hs')]. apply IH; [eauto|]. apply Forall_app. split; [exact Ha|constructor; [exact Hr|constructor]].
Qed.

Theorem parseBlocks_FbX input : Forall (fun r => FbX (rb_blk r)) (fst (parseBlocks input)).
Proof.
  unfold parseBlocks. apply SJF_allBlocks; [|constructor]. exists true.
  split; [|split; [split; reflexivity|reflexivity]]. split; [|split; [reflexivity|split; exact I]].
  unfold SI. cbn [buf bi pending]. pose proof (len_nonneg (pad input)). repeat split; try lia.
Qed.
Print Assumptions parseBlocks_FbX.
