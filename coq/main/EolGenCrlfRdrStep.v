From Coq Require Import List ZArith Lia Bool.
Import ListNotations.
Require Import Base Tree Rdr Link Collect ShapesBase ShapesR IFBase EolCRLFDefs EolCRLFSimBytes EolCRLFSimStream EolGenCrlfRdrDefs.
Open Scope Z_scope.

(* C14 (ii), CRLF clause: the multi-span reader over R and over crlf R.
   RR r r' : r' (over crlf R, spans mapped by phiI R) stands where r stands (position mapped by phiP R);
   RM r m  : r stands on an LF inside a node that is not an Indent node, m stands on the LF of the CR LF pair
             (one step ahead: the "stutter" state). *)

Lemma istart_phiI R u : istart (phiI R u) = phiP R (istart u). Proof. destruct u; reflexivity. Qed.
Lemma iend_phiI R u : iend (phiI R u) = phiP R (iend u). Proof. destruct u; reflexivity. Qed.
Lemma ikind_phiI R u : ikind (phiI R u) = ikind u. Proof. destruct u; reflexivity. Qed.
Lemma iindent_phiI R u : iindent (phiI R u) = iindent u. Proof. destruct u; reflexivity. Qed.
Lemma okind_phiI R o : okind (option_map (phiI R) o) = okind o. Proof. destruct o as [u|]; [apply ikind_phiI|reflexivity]. Qed.

Section Step.
  Variable R : bytes.
  Variable Eb : Z.   (* an upper bound for the ends of all spans (the end of the paragraph's last entry) *)
  Hypothesis R13 : ~ In 13 R.
  Notation P := (phiP R).
  Notation R' := (crlf R).
  Notation F := (phiI R).

  (* ---------------------------------------------------------------- positions *)
  Lemma at_nonzero_pos (l : bytes) p : at_ l p <> 0 -> 0 <= p.
  Proof. unfold at_. destruct (Z.ltb_spec p 0) as [L|L]; [intros H; exfalso; apply H; reflexivity|lia]. Qed.
  Lemma at_not13 p : at_ R p <> 13.
  Proof.
    unfold at_. destruct (p <? 0); [discriminate|]. intros E.
    destruct (Nat.lt_ge_cases (Z.to_nat p) (length R)) as [L|L].
    - apply R13. rewrite <- E. apply nth_In. exact L.
    - rewrite nth_overflow in E by exact L. discriminate.
  Qed.
  Lemma P_succ p : P (p + 1) = P p + (if at_ R p =? 10 then 2 else 1).
  Proof.
    destruct (Z.lt_ge_cases p (-1)) as [L|L].
    { rewrite !phiP_neg by lia. unfold at_. destruct (Z.ltb_spec p 0); [reflexivity|lia]. }
    destruct (Z.eq_dec p (-1)) as [->|N].
    { change (-1 + 1) with 0. rewrite phiP_0, phiP_neg by lia. reflexivity. }
    rewrite (phiP_add R p 1) by lia. f_equal. rewrite (at_as_from R p) by lia.
    rewrite phiP_nonneg by lia. unfold upto. change (Z.to_nat 1) with 1%nat.
    destruct (from_ R p) as [|c l]; [reflexivity|]. cbn [firstn count10]. change (at_ (c :: l) 0) with c. destruct (c =? 10); reflexivity.
  Qed.
  Lemma P_succ_n p : at_ R p <> 10 -> P (p + 1) = P p + 1.
  Proof. intros H. rewrite P_succ. destruct (Z.eqb_spec (at_ R p) 10); [contradiction|reflexivity]. Qed.
  Lemma P_succ_lf p : at_ R p = 10 -> P (p + 1) = P p + 2.
  Proof. intros H. rewrite P_succ, H. reflexivity. Qed.
  Lemma at_P p : at_ R' (P p) = if at_ R p =? 10 then 13 else at_ R p.
  Proof.
    destruct (Z.lt_ge_cases p 0) as [L|L]; [|apply at_crlf; exact L].
    rewrite phiP_neg by lia. unfold at_. destruct (Z.ltb_spec p 0); [reflexivity|lia].
  Qed.
  Lemma at_P1 p : at_ R p = 10 -> at_ R' (P p + 1) = 10.
  Proof.
    intros H. assert (Hp : 0 <= p) by (apply (at_nonzero_pos R); rewrite H; discriminate).
    pose proof (phiP_ge R p Hp) as Hg.
    rewrite <- (ShapesBase.at_from R' (P p) 1) by lia. rewrite crlf_from by exact Hp.
    rewrite (at_as_from R p Hp) in H. destruct (from_ R p) as [|c l]; [discriminate H|]. change (at_ (c :: l) 0) with c in H. subst c. reflexivity.
  Qed.
  Lemma at_P0 p : (at_ R' (P p) =? 0) = (at_ R p =? 0).
  Proof. rewrite at_P. destruct (Z.eqb_spec (at_ R p) 10) as [E|E]; [rewrite E; reflexivity|reflexivity]. Qed.

  (* a position pair (q in R, p' in crlf R) that compares with every mapped position as q does *)
  Definition posR (q p' : Z) : Prop := forall x, (p' <? P x) = (q <? x).
  Lemma posR_sync q : posR q (P q). Proof. intros x. apply phiP_ltb. Qed.
  Lemma posR_mid q : at_ R q = 10 -> posR q (P q + 1).
  Proof.
    intros H x. pose proof (P_succ_lf q H) as Hs.
    destruct (Z.ltb_spec q x) as [L|L].
    - apply Z.ltb_lt. pose proof (phiP_mono R (q + 1) x ltac:(lia)). lia.
    - apply Z.ltb_ge. pose proof (phiP_mono R x q L). lia.
  Qed.
  Lemma posR_le q p' x : posR q p' -> (P x <=? p') = (x <=? q).
  Proof. intros H. rewrite !Z.leb_antisym, H. reflexivity. Qed.
  Lemma P_leb a b : (P a <=? P b) = (a <=? b).
  Proof. apply posR_le, posR_sync. Qed.
  Lemma P_eqb a b : (P a =? P b) = (a =? b).
  Proof.
    destruct (Z.eqb_spec a b) as [->|N]; [apply Z.eqb_refl|]. apply Z.eqb_neq. intros E. apply N. eapply phiP_inj; exact E.
  Qed.
  Lemma P_nonneg_b a : (0 <=? P a) = (0 <=? a).
  Proof. rewrite !Z.leb_antisym, phiP_sign. reflexivity. Qed.
  Lemma len_R' : len R' = P (len R). Proof. symmetry. apply phiP_all. Qed.

  (* ---------------------------------------------------------------- curNode *)
  Lemma spanHas_F u q p' : posR q p' -> spanHas (F u) p' = spanHas u q.
  Proof.
    intros H. unfold spanHas. rewrite istart_phiI, iend_phiI, !P_nonneg_b, P_leb, (posR_le q p' _ H), H. reflexivity.
  Qed.
  Lemma nodeIdx_F q p' : posR q p' -> forall sp k, nodeIdx (map F sp) p' k = nodeIdx sp q k.
  Proof.
    intros H. induction sp as [|u sp IH]; intros k; [reflexivity|]. cbn [map nodeIdx].
    rewrite istart_phiI, H, (spanHas_F u q p' H), IH. reflexivity.
  Qed.
  Lemma from_map {A B} (f : A -> B) l k : from_ (map f l) k = map f (from_ l k).
  Proof. unfold from_. apply skipn_map. Qed.
  Lemma hd_error_map {A B} (f : A -> B) l : hd_error (map f l) = option_map f (hd_error l).
  Proof. destruct l; reflexivity. Qed.

  Lemma curNode_F r r' : r_spans r' = map F (r_spans r) -> posR (r_pos r) (r_pos r') ->
    fst (curNode r') = option_map F (fst (curNode r)) /\ r_spans (snd (curNode r')) = map F (r_spans (snd (curNode r))).
  Proof.
    intros Es Hp. unfold curNode. cbv zeta. unfold nodeIndexForPosition. rewrite Es, (nodeIdx_F _ _ Hp).
    destruct (_ <? 0); cbn [fst snd r_spans]; [split; reflexivity|]. rewrite from_map, hd_error_map. split; reflexivity.
  Qed.

  (* ---------------------------------------------------------------- the span invariant *)
  Definition SPI (sp : list inline) : Prop :=
    spW R sp = true /\ forallb readableK sp = true /\ forallb neSp sp = true /\ forallb (indOK1 R) sp = true /\
    forallb (fun u => iend u <=? Eb) sp = true.
  Lemma forallb_app_r {A} (f : A -> bool) pre l : forallb f (pre ++ l) = true -> forallb f l = true.
  Proof. rewrite forallb_app. intros H. apply andb_true_iff in H. apply H. Qed.
  Lemma SPI_app_r pre l : SPI (pre ++ l) -> SPI l.
  Proof.
    intros (A & B & B2 & C & C2). split; [eapply spW_app_r; exact A|]. split; [eapply forallb_app_r; exact B|].
    split; [eapply forallb_app_r; exact B2|]. split; eapply forallb_app_r; eassumption.
  Qed.
  Lemma SPI_nil : SPI []. Proof. split; [reflexivity|]. split; [reflexivity|]. split; [reflexivity|]. split; reflexivity. Qed.
  Lemma SPI_curNode r : SPI (r_spans r) -> SPI (r_spans (snd (curNode r))).
  Proof.
    intros H. destruct (curNode_cases r) as [E|(pre & n & rest & E1 & E & E3)]; rewrite E; cbn [snd withSpans r_spans]; [apply SPI_nil|].
    rewrite E1 in H. apply SPI_app_r in H. exact H.
  Qed.
  Lemma spW_F : forall sp, spW R sp = true -> spW R' (map F sp) = true.
  Proof.
    induction sp as [|u sp IH]; intros H; [reflexivity|]. pose proof (spW_cons _ _ _ H) as (A & B & C & D & G).
    cbn [map spW]. rewrite istart_phiI, iend_phiI, P_nonneg_b, P_leb, len_R', P_leb, (IH G), andb_true_r.
    replace (0 <=? istart u) with true by (symmetry; apply Z.leb_le; lia).
    replace (istart u <=? iend u) with true by (symmetry; apply Z.leb_le; lia).
    replace (iend u <=? len R) with true by (symmetry; apply Z.leb_le; lia). cbn [andb].
    apply forallb_forall. intros j Hj. apply in_map_iff in Hj. destruct Hj as (j0 & <- & Hj0). rewrite istart_phiI, P_leb. apply Z.leb_le, D, Hj0.
  Qed.
  Lemma ibudget_F : forall sp, ibudget (map F sp) = ibudget sp.
  Proof. induction sp as [|u sp IH]; [reflexivity|]. cbn [map ibudget]. rewrite ikind_phiI, iindent_phiI, IH. reflexivity. Qed.

  (* ---------------------------------------------------------------- NUL runs *)
  Lemma nrb_F : forall f f' p, 0 <= p -> p <= Z.of_nat f -> p <= Z.of_nat f' ->
    P p - nulRunBack R' (P p) f' = p - nulRunBack R p f.
  Proof.
    induction f as [|f IH]; intros f' p Hp Hf Hf'.
    - assert (p = 0) by lia. subst p. rewrite phiP_0. destruct f'; cbn [nulRunBack]; reflexivity.
    - cbn [nulRunBack]. destruct (Z.ltb_spec 0 p) as [L|L]; cbn [andb].
      2:{ assert (p = 0) by lia. subst p. rewrite phiP_0. destruct f'; cbn [nulRunBack]; reflexivity. }
      destruct f' as [|f']; [lia|]. cbn [nulRunBack]. pose proof (phiP_ge R p Hp) as Hg.
      destruct (Z.ltb_spec 0 (P p)) as [L'|L']; [|lia]. cbn [andb].
      pose proof (P_succ (p - 1)) as Hs. replace (p - 1 + 1) with p in Hs by lia.
      destruct (Z.eqb_spec (at_ R (p - 1)) 10) as [E10|N10].
      + replace (P p - 1) with (P (p - 1) + 1) by lia. rewrite (at_P1 _ E10), E10. cbn. lia.
      + replace (P p - 1) with (P (p - 1)) by lia. rewrite at_P0. destruct (at_ R (p - 1) =? 0); [|lia].
        pose proof (IH f' (p - 1) ltac:(lia) ltac:(lia) ltac:(lia)) as Hi. lia.
  Qed.
  Lemma cnvp_F p : computeNullVirtualPosition R' (P p) = computeNullVirtualPosition R p.
  Proof.
    unfold computeNullVirtualPosition. rewrite len_R', P_leb, at_P0.
    destruct (Z.leb_spec (len R) p) as [L|L]; cbn [orb]; [reflexivity|]. destruct (at_ R p =? 0); cbn [negb]; [|reflexivity].
    destruct (Z.lt_ge_cases p 0) as [N|N].
    - rewrite phiP_neg by lia. assert (G : forall src f, nulRunBack src p f = p).
      { intros src f. destruct f; cbn [nulRunBack]; [reflexivity|]. destruct (Z.ltb_spec 0 p); [lia|reflexivity]. }
      rewrite !G. reflexivity.
    - f_equal. apply nrb_F; [lia|unfold len in L; lia|].
      pose proof (len_crlf R) as H1. pose proof (count10_nonneg R) as H2. unfold len in *. lia.
  Qed.
  Lemma nextSpan_F : forall sp, nextSpan (map F sp) = option_map (fun x => (F (fst x), map F (snd x))) (nextSpan sp).
  Proof.
    induction sp as [|u sp IH]; [reflexivity|]. cbn [map nextSpan]. rewrite ikind_phiI.
    destruct (_ || _ || _); [reflexivity|exact IH].
  Qed.

  (* ---------------------------------------------------------------- the relations *)
  Definition RR0 (r r' : reader) : Prop :=
    r_src r = R /\ r_src r' = R' /\ r_spans r' = map F (r_spans r) /\ r_pos r' = P (r_pos r) /\ r_vpos r' = r_vpos r /\ SPI (r_spans r).
  Definition PVc (r r' : reader) : Prop := r_prev r' + 1 = P (r_prev r + 1).
  Definition RR (r r' : reader) : Prop := RR0 r r' /\ PVc r r'.
  Definition RM (r m : reader) : Prop :=
    r_src r = R /\ r_src m = R' /\ r_spans m = map F (r_spans (snd (curNode r))) /\ r_pos m = P (r_pos r) + 1 /\ r_vpos m = r_vpos r /\
    SPI (r_spans r) /\ at_ R (r_pos r) = 10 /\ r_prev m = P (r_pos r) /\ (exists node, fst (curNode r) = Some node /\ ikind node <> IndentKind).

  Lemma RR_PL r r' : RR r r' -> PL R r /\ PL R' r'.
  Proof. intros ((A & B & C & _ & _ & (D & _)) & _). split; (split; [assumption|]); [exact D|rewrite C; apply spW_F, D]. Qed.
  Lemma RM_PL r m : RM r m -> PL R r /\ PL R' m.
  Proof.
    intros (A & B & C & _ & _ & D & _). split; (split; [assumption|]); [apply D|]. rewrite C. apply spW_F. apply (SPI_curNode r D).
  Qed.
  Lemma RR_new sp p : SPI sp -> RR (newReader R sp p) (newReader R' (map F sp) (P p)).
  Proof.
    intros H. split; [repeat split; try reflexivity; apply H|]. unfold PVc, newReader. cbn [r_prev]. change (-1 + 1) with 0. rewrite phiP_0. reflexivity.
  Qed.
  Lemma RR_SPI r r' : RR r r' -> SPI (r_spans r). Proof. intros ((_ & _ & _ & _ & _ & D) & _). exact D. Qed.
  Lemma RR_pos r r' : RR r r' -> r_pos r' = P (r_pos r). Proof. intros ((_ & _ & _ & D & _) & _). exact D. Qed.

  Lemma InNode_curNode r : InNode (snd (curNode r)) <-> InNode r.
  Proof. unfold InNode. rewrite curNode_idem. tauto. Qed.

  Lemma RR_curNode r r' : RR r r' ->
    fst (curNode r') = option_map F (fst (curNode r)) /\ RR (snd (curNode r)) (snd (curNode r')).
  Proof.
    intros ((A & B & C & D & E & G) & H).
    destruct (curNode_F r r' C ltac:(rewrite D; apply posR_sync)) as [X Y]. split; [exact X|].
    destruct (curNode_fields r) as (A1 & A2 & A3 & A4). destruct (curNode_fields r') as (B1 & B2 & B3 & B4). cbv zeta in *.
    split; [repeat split; try congruence; apply (SPI_curNode r G)|].
    unfold PVc in *. congruence.
  Qed.

  Lemma nullRepl_ne v : nullRepl v <> 10 /\ nullRepl v <> 32 /\ nullRepl v <> 0.
  Proof. unfold nullRepl. destruct (v =? 0); [repeat split; discriminate|]. destruct (v =? 1); repeat split; discriminate. Qed.

  Lemma RR_current r r' : RR r r' -> cur r' = (if cur r =? 10 then 13 else cur r) /\ RR (snd (current r)) (snd (current r')).
  Proof.
    intros H. pose proof H as ((A & B & C & D & E & G) & _). pose proof (RR_curNode r r' H) as [X Y].
    unfold cur, current. rewrite A, B, D, E, len_R', P_leb.
    destruct (len R <=? r_pos r); [cbn [fst snd]; split; [reflexivity|exact H]|].
    destruct (curNode r) as [n r1]. destruct (curNode r') as [n' r1']. cbn [fst snd] in X, Y. subst n'. rewrite okind_phiI.
    destruct (okind n =? IndentKind); [cbn [fst snd]; split; [reflexivity|exact Y]|]. rewrite at_P0.
    destruct (at_ R (r_pos r) =? 0); cbn [fst snd]; (split; [|exact Y]).
    - destruct (nullRepl_ne (r_vpos r)) as (N & _). destruct (Z.eqb_spec (nullRepl (r_vpos r)) 10); [contradiction|reflexivity].
    - apply at_P.
  Qed.

  (* the byte under the reader *)
  Lemma cur_at r : r_src r = R -> at_ R (r_pos r) = 10 -> okind (fst (curNode r)) <> IndentKind -> cur r = 10.
  Proof.
    intros A H K. unfold cur, current. rewrite A.
    destruct (Z.leb_spec (len R) (r_pos r)) as [L|L].
    { exfalso. unfold at_ in H. destruct (r_pos r <? 0); [discriminate|]. rewrite nth_overflow in H; [discriminate|unfold len in L; lia]. }
    destruct (curNode r) as [n r1]. cbn [fst] in K. destruct (Z.eqb_spec (okind n) IndentKind); [contradiction|].
    rewrite H. reflexivity.
  Qed.
  Lemma cur_10 r : r_src r = R -> cur r = 10 -> at_ R (r_pos r) = 10 /\ okind (fst (curNode r)) <> IndentKind.
  Proof.
    intros A. unfold cur, current. rewrite A. destruct (len R <=? r_pos r); [discriminate|].
    destruct (curNode r) as [n r1]. cbn [fst]. destruct (Z.eqb_spec (okind n) IndentKind); [discriminate|].
    destruct (at_ R (r_pos r) =? 0); cbn [fst]; [intros E; destruct (nullRepl_ne (r_vpos r)) as (N & _); contradiction|]. intros E. split; assumption.
  Qed.
  Lemma cur_indent r : okind (fst (curNode r)) = IndentKind -> cur r = 32 \/ cur r = 0.
  Proof.
    intros K. unfold cur, current. destruct (len (r_src r) <=? r_pos r); [right; reflexivity|].
    destruct (curNode r) as [n r1]. cbn [fst] in K. rewrite K. left. reflexivity.
  Qed.

  Lemma trim_current r : r_spans (snd (curNode (snd (current r)))) = r_spans (snd (curNode r)).
  Proof. destruct (curNode_current r) as [E|E]; rewrite E; reflexivity. Qed.
  Lemma fstcn_current r : fst (curNode (snd (current r))) = fst (curNode r).
  Proof. destruct (curNode_current r) as [E|E]; rewrite E; reflexivity. Qed.
  Lemma SPI_current r : SPI (r_spans r) -> SPI (r_spans (snd (current r))).
  Proof. intros H. destruct (current_snd r) as [E|E]; rewrite E; [exact H|apply SPI_curNode, H]. Qed.
  Lemma RM_cur_l r m : RM r m -> RM (snd (current r)) m.
  Proof.
    destruct (current_fields r) as (A1 & A2 & A3 & A4). cbv zeta in *.
    unfold RM. rewrite trim_current, fstcn_current, A1, A2, A3. intros (H1 & H2 & H3 & H4 & H5 & H6 & H7).
    destruct H7 as (H7 & H8 & H9). pose proof (SPI_current r H6) as H6'. tauto.
  Qed.
  Lemma RM_cur_l_inv r m : SPI (r_spans r) -> RM (snd (current r)) m -> RM r m.
  Proof.
    destruct (current_fields r) as (A1 & A2 & A3 & A4). cbv zeta in *.
    unfold RM. rewrite trim_current, fstcn_current, A1, A2, A3. intros G (H1 & H2 & H3 & H4 & H5 & H6 & H7).
    destruct H7 as (H7 & H8 & H9). tauto.
  Qed.
End Step.
