From Coq Require Import List ZArith Lia Bool.
Import ListNotations.
Require Import Base Tables Utf8 Tree Recog Inl3b Driver Inl3e Render Props ComposeC02 EolFinalDefs EolFinalFullDefs.
Require Import EolCRRenderRE EolFinalRenderBase EolFinalRenderI EolFinalRenderDoc.
Open Scope Z_scope.

(* ====================================================================================================
   C14, final-newline clause, renderer, part 4: LITERAL equality in safe mode with the default soft-break mode
   (ignoreRaw c = true, softBreak c = 0), when the last root's source does not end in two spaces (hb = false:
   no paragraph swallows the appended line ending).
   ==================================================================================================== *)
Section Safe.
  Variable c : cfg.
  Hypothesis Hraw : ignoreRaw c = true.
  Hypothesis Hsb : softBreak c = 0.
  Variable refs : list (bytes * linkDef).
  Variable src : bytes.
  Notation L := (len src).
  Notation src' := (src ++ [10]).
  Notation rI := (fun i => renderI (isize i) c refs src i).
  Notation rI' := (fun i => renderI (isize i) c refs src' i).

  Lemma finCode_render_eq ik : forallb (svI src) ik = true -> flat_map rI' (finCode L ik) = flat_map rI ik.
  Proof.
    intros H. unfold finCode. destruct (rev ik) as [|[k2 s2 e2 n2 r2 ks2] [|[k1 s1 e1 n1 r1 ks1] pre]] eqn:Er; try (apply entries_app, H).
    destruct ((k2 =? SoftLineBreakKind) && (s2 =? L) && (e2 =? L) && (k1 =? TextKind) && (e1 =? L)) eqn:Ec; [|apply entries_app, H].
    rewrite !andb_true_iff in Ec. destruct Ec as ((((C1 & C2) & C3) & C4) & C5). apply Z.eqb_eq in C1, C2, C3, C4, C5. subst.
    pose proof (rev_cons_inv _ _ _ Er) as Ei. cbn [rev] in Ei. rewrite <- app_assoc in Ei. cbn [app] in Ei. rewrite Ei in *.
    destruct (forallb_app_inv _ _ _ H) as [Hp Hl]. cbn [forallb] in Hl. apply andb_true_iff in Hl. destruct Hl as [Ht _].
    rewrite !flat_map_app. f_equal; [apply entries_app, Hp|]. cbn [flat_map]. rewrite !app_nil_r.
    destruct (svI_parts _ _ Ht) as [Hv Hk]. cbn [istart iend ikids] in Hv, Hk. apply span_valid_elim in Hv.
    replace (isize (Inl SoftLineBreakKind L L n2 r2 ks2)) with (S (isize (Inl SoftLineBreakKind L L n2 r2 ks2) - 1)) by (cbn [isize]; lia).
    rewrite sbr_render by (cbn [ikind istart iend]; first [reflexivity|lia]). rewrite (sbr_0 c Hsb).
    replace (isize (Inl TextKind s1 (L + 1) n1 r1 ks1)) with (isize (Inl TextKind s1 L n1 r1 ks1)) by reflexivity.
    set (f := isize (Inl TextKind s1 L n1 r1 ks1)). assert (Hf : f = S (f - 1)) by (unfold f; cbn [isize]; lia). rewrite Hf.
    cbn [renderI]. cbv zeta. cbn [ikind]. change ((TextKind =? TextKind) || (TextKind =? UnparsedKind)) with true. cbv iota.
    unfold spanOf. cbn [istart iend]. rewrite (sub_bump src s1) by lia. apply escapeHTML_snoc.
  Qed.

  Lemma renderB_fin_eq : forall f pt b, svB src b = true -> renderB f c refs src' pt (finFullB L false b) = renderB f c refs src pt b.
  Proof.
    induction f as [|f IH]; intros pt b Hb; [reflexivity|]. rewrite finFullB_eq.
    destruct (bkind b =? ListMarkerKind); [apply renderB_app, Hb|].
    destruct (svB_parts src b Hb) as (_ & Hk & Hi). cbn [renderB]. cbv zeta.
    set (b' := Blk (bkind b) (bstart b) (bump L (bend b)) (map (finFullB L false) (bkids b)) (finE src false (bkind b) (bik b)) (bindent b) (bn b) (bchar b) (bloose b) (blastBlank b)).
    replace (bkind b') with (bkind b) by reflexivity. replace (bn b') with (bn b) by reflexivity.
    replace (isTightList b') with (isTightList b) by reflexivity. replace (isOrdered b') with (isOrdered b) by reflexivity.
    replace (bkids b') with (map (finFullB L false) (bkids b)) by reflexivity. replace (bik b') with (finE src false (bkind b) (bik b)) by reflexivity.
    assert (HkB : flat_map (renderB f c refs src' (isTightList b)) (map (finFullB L false) (bkids b)) = flat_map (renderB f c refs src (isTightList b)) (bkids b)).
    { rewrite flat_map_map. apply flat_map_ext_in. intros k Hkk. apply IH, (forallb_In _ _ _ Hk Hkk). }
    assert (Enum : match map (finFullB L false) (bkids b) with it :: _ => listItemNumber src' it | [] => -1 end = match bkids b with it :: _ => listItemNumber src it | [] => -1 end).
    { destruct (bkids b) as [|it r]; [reflexivity|]. cbn [map]. apply listItemNumber_fin. cbn [forallb] in Hk. apply andb_true_iff in Hk. tauto. }
    destruct (bkind b =? HTMLBlockKind) eqn:Eh.
    { apply Z.eqb_eq in Eh. rewrite Eh. change (HTMLBlockKind =? ParagraphKind) with false. change (HTMLBlockKind =? ThematicBreakKind) with false.
      change (isHeading HTMLBlockKind) with false. change (isCode HTMLBlockKind) with false. change (HTMLBlockKind =? BlockQuoteKind) with false.
      change (HTMLBlockKind =? ListKind) with false. change (HTMLBlockKind =? ListItemKind) with false. change (HTMLBlockKind =? HTMLBlockKind) with true.
      cbv iota. rewrite Hraw. reflexivity. }
    assert (HkI : isCode (bkind b) = false -> finE src false (bkind b) (bik b) = bik b).
    { intros E. unfold finE. unfold isCode in E. rewrite E, Eh, andb_false_r. reflexivity. }
    assert (HK : match map (finFullB L false) (bkids b) with [] => flat_map rI' (finE src false (bkind b) (bik b)) | _ => flat_map (renderB f c refs src' (isTightList b)) (map (finFullB L false) (bkids b)) end =
                 match bkids b with [] => flat_map rI (bik b) | _ => flat_map (renderB f c refs src (isTightList b)) (bkids b) end).
    { destruct (bkids b) as [|k0 kr] eqn:Ek; [|rewrite <- Ek in *; rewrite HkB; destruct (bkids b); [discriminate|reflexivity]].
      cbn [map]. destruct (isCode (bkind b)) eqn:Ec.
      - unfold finE. unfold isCode in Ec. rewrite Ec. apply finCode_render_eq, Hi.
      - rewrite (HkI eq_refl). apply entries_app, Hi. }
    rewrite HK, Enum.
    destruct (isCode (bkind b)) eqn:Ecode; [|rewrite (HkI eq_refl) in *; reflexivity].
    assert (Einfo : infoOf (finE src false (bkind b) (bik b)) = infoOf (bik b)).
    { unfold finE. unfold isCode in Ecode. rewrite Ecode. apply infoOf_finCode. }
    fold (infoOf (finE src false (bkind b) (bik b))). fold (infoOf (bik b)). rewrite Einfo.
    assert (Ecls : forall i0, infoOf (bik b) = Some i0 -> textOfChildren src' i0 = textOfChildren src i0).
    { intros i0 E. unfold infoOf in E. destruct (bik b) as [|j r]; [discriminate|]. destruct (ikind j =? InfoStringKind); [|discriminate].
      inversion E; subst j. cbn [forallb] in Hi. apply andb_true_iff in Hi. destruct Hi as [Hj _]. apply textOfChildren_app, (svI_parts src i0 Hj). }
    destruct (bkind b =? FencedCodeBlockKind); [|reflexivity].
    destruct (infoOf (bik b)) as [i0|] eqn:Ei; [rewrite (Ecls i0 eq_refl); reflexivity|reflexivity].
  Qed.
End Safe.

(* the last root's source ends in two spaces *)
Definition lastHb (roots : list rootB) : bool := match rev roots with r :: _ => hbTail (rb_src r) | [] => false end.

Lemma renderRoots_fin_eq c refs roots n : ignoreRaw c = true -> softBreak c = 0 -> lastHb roots = false ->
  (forall r, In r roots -> svB (rb_src r) (rb_blk r) = true) ->
  renderRoots c refs (finFullRoots n roots) = renderRoots c refs roots.
Proof.
  intros Hraw Hsb Hhb Hv. unfold finFullRoots. unfold lastHb in Hhb. destruct (rev roots) as [|r pre] eqn:Er; [|].
  { destruct roots; [reflexivity|]. apply (f_equal (@length rootB)) in Er. rewrite rev_length in Er. discriminate. }
  destruct (rb_end r =? n); [|reflexivity]. rewrite (rev_cons_inv' _ _ _ Er) in *.
  unfold renderRoots. rewrite !map_app. f_equal. cbn [map]. f_equal.
  unfold finFullRoot. cbn [rb_blk rb_src]. rewrite fin_bheight, Hhb. apply renderB_fin_eq; [exact Hraw|exact Hsb|].
  apply Hv. apply in_or_app. right. left. reflexivity.
Qed.

Definition renderDoc_final_newline_safe_statement : Prop :=
  forall c s, ignoreRaw c = true -> softBreak c = 0 -> s <> [] -> endsEol s = false -> lastByte s <> 62 ->
    lastHb (fst (parseFull s)) = false -> renderDoc c (s ++ [10]) = renderDoc c s.

Theorem renderDoc_final_newline_safe_of : parseFull_final_newline_statement -> renderDoc_final_newline_safe_statement.
Proof.
  intros H c s Hraw Hsb H1 H2 H3 Hhb. rewrite !renderDoc_eq, (H s H1 H2 H3). cbn [fst].
  pose proof (parseFull_valid s) as Hv. rewrite (defsOf_fin _ _ Hv). f_equal. apply renderRoots_fin_eq; assumption.
Qed.
