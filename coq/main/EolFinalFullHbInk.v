From Coq Require Import List ZArith Lia Bool.
Import ListNotations.
Require Import Base Tree Rdr Inl3e Driver Props L2Kind L2CC BSDef BSTree BlockShapesNul ShapesBase EntBase GramInline.
Require Import EolFinalFullHbE4Tree EolFinalFullHbE4Drv.
Require Import EolFinalDefs EolFinalFullDefs EolFinalFullMain EolFinalFullHbYes.
Open Scope Z_scope.

(* ================================================================================================
   T63-F1, D2: the block-level premise paraInk holds for every input (from the invariant E4 = En3 + one clause on the last entry of a
   paragraph), hence the final-newline theorem through the inline pass, exactly as asked.
   ================================================================================================ *)

Lemma en_sub B M : forall d b, subB d b -> en B M b -> en B M d.
Proof.
  induction 1 as [b|d c b Hin Hs IH]; intros Hb; [exact Hb|]. apply IH. rewrite en_eq in Hb. destruct Hb as (_ & C).
  eapply allP_In; [exact C|exact Hin].
Qed.

Theorem paraInk_holds : forall s, paraInk s.
Proof.
  intros s pre r E Ee d Hd HK Hu Hbe.
  assert (Hr : In r (fst (parseBlocks s))) by (rewrite E; apply in_or_app; right; left; reflexivity).
  pose proof (parseBlocks_okRE s) as H1. rewrite Forall_forall in H1. destruct (H1 r Hr) as (B & M & Hn & Es & He & Ht).
  pose proof (en_sub B M d _ Hd He) as Hed. rewrite en_eq in Hed. destruct Hed as ((_ & _ & _ & _ & (_ & A5 & _)) & _).
  assert (Hne : bik d <> []) by (intros E0; unfold hasUnparsed in Hu; rewrite E0 in Hu; discriminate).
  destruct (lastI_nonnil (bik d) Hne) as (L & HL).
  destruct (A5 (or_introl HK) L HL) as [_ Hx]. destruct (Hx HK) as [(i0 & Hi0 & Hnb) Hend].
  pose proof (ShapesBase.len_nonneg (rb_src r)) as Hl0.
  specialize (Hend ltac:(lia)).
  assert (Hlen : len (rb_src r) = bend (rb_blk r)).
  { rewrite Es. rewrite (F2_len _ _ (fill_tri _ Ht)). rewrite ShapesBase.len_upto; lia. }
  unfold lastI in HL. destruct (rev (bik d)) as [|x rr] eqn:Er; [discriminate|]. inversion HL; subst x.
  exists (rev rr), L, i0. split; [rewrite <- (rev_involutive (bik d)), Er; reflexivity|]. split; [lia|]. split; [lia|].
  pose proof (F2_at _ _ i0 (fill_tri _ Ht)) as Hs. rewrite <- Es in Hs.
  assert (Hi : istart L <= i0 < bend (rb_blk r)) by lia.
  assert (H0 : 0 <= i0 \/ i0 < 0) by lia.
  destruct H0 as [H0|H0].
  2:{ rewrite ShapesBase.at_neg by lia. reflexivity. }
  rewrite ShapesBase.at_upto in Hs by lia.
  destruct Hnb as (N32 & N9 & _). destruct Hs as [Hs|[_ Hs]].
  - rewrite (sim_sptab _ _ Hs). unfold isSpTab. apply orb_false_iff. split; apply Z.eqb_neq; assumption.
  - rewrite Hs. reflexivity.
Qed.
Print Assumptions paraInk_holds.

(* ---------- the theorem, exactly as asked ---------- *)
Theorem parseFull_final_newline : forall s, s <> [] -> endsEol s = false -> lastByte s <> 62 ->
  parseFull (s ++ [10]) = (finFullRoots (len s) (fst (parseFull s)), snd (parseFull s)).
Proof. intros s Hne Hn H62. apply parseFull_final_newline_paraInk; try assumption. apply paraInk_holds. Qed.
Print Assumptions parseFull_final_newline.

(* the statement kept in EolFinalFullDefs *)
Theorem parseFull_final_newline_statement_holds : parseFull_final_newline_statement.
Proof. exact parseFull_final_newline. Qed.
Print Assumptions parseFull_final_newline_statement_holds.
