From Coq Require Import List ZArith Lia Bool.
Import ListNotations.
Require Import Base Tables Utf8 Tree Rdr Link Collect Html Recog Inl3a Inl3b Inl3c Inl3d Inl3e Props.
Require Import Leaf3b Leaf3e Leaf3n ShapesBase ShapesR ShapesCS ShapesComp ShapesComp2.
Open Scope Z_scope.

Section St3.
  Variable src : bytes.
  Variable U : list inline.
  Hypothesis HU : Forall (fun u => noCSI u = true) U.
  Hypothesis HOK : spOK src U = true.
  Hypothesis HBud : ibudget U <= len src + 9.
  Notation Inv := (Inv src U).
  Notation InvS := (InvS src U).

  (* ---- parseEndBracket ---- *)
  Ltac kchain :=
    repeat match goal with
    | |- Inv _ (if ?c then _ else _) => destruct c
    | |- Inv _ (appendKid _ _ (PN 0 _ _ _ 0 _ _)) => apply I_appendKid; [ |lia|reflexivity|]
    | |- Inv _ (updN _ _ (fun n => setSpan n _ _)) => apply I_updSpan; [|lia]
    | |- Inv _ (updN _ _ (fun n => setRef (setSpan n _ _) _)) => apply I_updSpanRef; [|lia]
    | |- Inv _ (advanceTo _ _) => apply I_advanceTo
    end.

  Lemma S_parseEndBracket st start : InvS st -> InvS (fst (parseEndBracket st start)).
  Proof.
    intros H. unfold parseEndBracket. cbv zeta.
    assert (H1 : InvS (fst (lookForLinkOrImage st))).
    { unfold lookForLinkOrImage. apply (Inv_S src U (nid st)). apply I_lfl. exact H. }
    destruct (lookForLinkOrImage st) as [st1 odi]. cbn [fst] in H1.
    destruct (odi <? 0). { cbn [fst]. apply S_addText. exact H1. }
    remember (if d_typ (nthD (stk st1) odi) =? tImage then ImageKind else LinkKind) as kind eqn:Ekind.
    assert (Hk : (kind =? CodeSpanKind) = false) by (subst kind; destruct (_ =? tImage); reflexivity).
    destruct (I_wrap src U (nid st1) st1 kind (d_node (nthD (stk st1) odi)) None H1 Hk) as (HK & Hid & Hnid & Hstk).
    assert (Hfail : InvS (setStk (addText st1 start (start + 1)) (delStack (stk st1) odi (odi + 1)))).
    { pose proof (S_addText src U st1 start (start + 1) H1) as HT.
      apply I_setStk_incl; [exact HT|]. rewrite stk_addText. apply delStack_incl. }
    match goal with |- context [match ?X with Some _ => _ | None => _ end] => destruct X as [[[[[ispan dspan] dtext] tspan] ttext]|] end.
    - destruct (wrap st1 kind _ None) as [st2 lid]. cbn [fst snd] in *. subst lid.
      apply (Inv_S src U (nid st1)), I_finishLink. kchain; try exact HK;
        (intros HX; match goal with |- context [if ?c then _ else _] => destruct c end; [|reflexivity];
         apply (kids_csfree U HU); [cbn [newReader r_spans]; eapply unpFrom_sub; exact HX|reflexivity]).
    - match goal with |- InvS (fst (match ?X with pair _ _ => _ end)) => destruct X as [lspan linner] end.
      destruct (_ && _ && _).
      + destruct (negb (matchRef _ _)); [cbn [fst]; assumption|].
        destruct (wrap st1 kind _ None) as [st2 lid]. cbn [fst snd] in *. subst lid.
        apply (Inv_S src U (nid st1)), I_finishLink. kchain; exact HK.
      + destruct (spanValid lspan).
        * destruct (negb (matchRef _ _)); [cbn [fst]; assumption|].
          destruct (wrap st1 kind _ None) as [st2 lid]. cbn [fst snd] in *. subst lid.
          apply (Inv_S src U (nid st1)), I_finishLink. kchain; try exact HK.
          intros _. apply (kids_csfree U HU); [cbn [newReader r_spans]; eapply unpFrom_sub; exact H1|reflexivity].
        * destruct (negb (matchRef _ _)); [cbn [fst]; assumption|].
          destruct (wrap st1 kind _ None) as [st2 lid]. cbn [fst snd] in *. subst lid.
          apply (Inv_S src U (nid st1)), I_finishLink. kchain; exact HK.
  Qed.

  (* ---- collectCodeSpan: the children are childless Text / Indent nodes ---- *)
  Definition flatC (n : pn) : Prop := (pkind n =? CodeSpanKind) = false /\ pkids n = [].
  Lemma flatF_csfree l : Forall flatC l -> forallb csfree l = true.
  Proof.
    intros H. apply forallb_forall. intros x Hx. rewrite Forall_forall in H. destruct (H x Hx) as (A & B).
    destruct x as [i k s e ind r ks]. cbn [pkind pkids csfree] in *. subst ks. rewrite A. reflexivity.
  Qed.
  Lemma cs_addSpan_flat s0 acc s e : Forall flatC acc -> Forall flatC (cs_addSpan s0 acc s e).
  Proof.
    intros H. unfold cs_addSpan. cbv zeta.
    repeat match goal with |- context [if ?c then _ else _] => destruct c end;
      repeat (apply Forall_app; split); try assumption; repeat constructor.
  Qed.
  Lemma flat_setInd n v : flatC n -> flatC (setInd n v). Proof. destruct n; cbn; tauto. Qed.
  Lemma flat_setSpan n s e : flatC n -> flatC (setSpan n s e). Proof. destruct n; cbn; tauto. Qed.
  Lemma Forall_rev' {A} (P : A -> Prop) l : Forall P l -> Forall P (rev l).
  Proof. intros H. rewrite Forall_forall in *. intros x Hx. apply H. apply in_rev. assumption. Qed.

  Lemma strip_flat s0 sl : Forall flatC sl -> Forall flatC (stripCodeSpanSpace s0 sl).
  Proof.
    intros H. unfold stripCodeSpanSpace.
    destruct (negb (existsb _ sl)); [assumption|].
    destruct sl as [|f r]; [assumption|].
    destruct (rev (f :: r)) as [|lst rr] eqn:Er; [assumption|].
    destruct (negb _ || negb _); [assumption|].
    cbv zeta.
    assert (H1 : Forall flatC (if pkind f =? IndentKind
                               then if pind (setInd f (pind f - 1)) =? 0 then r else setInd f (pind f - 1) :: r
                               else if plen (setSpan f (ps f + 1) (pe f)) =? 0 then r else setSpan f (ps f + 1) (pe f) :: r)).
    { inversion H as [|? ? Hf Hr]; subst.
      destruct (pkind f =? IndentKind); [destruct (pind _ =? 0)|destruct (plen _ =? 0)]; try assumption;
        constructor; try assumption; [apply flat_setInd|apply flat_setSpan]; assumption. }
    set (sl1 := if pkind f =? IndentKind then _ else _) in *.
    destruct (rev sl1) as [|l rr'] eqn:Er1; [assumption|].
    assert (H2 : Forall flatC (l :: rr')) by (rewrite <- Er1; apply Forall_rev'; assumption).
    inversion H2 as [|? ? Hl Hrr]; subst.
    destruct (pkind l =? IndentKind); match goal with |- context [if ?c then _ else _] => destruct c end;
      try (apply Forall_rev'; assumption);
      apply (Forall_rev' flatC (_ :: rr')); constructor; try assumption; [apply flat_setInd|apply flat_setSpan]; assumption.
  Qed.

  Lemma S_collectCodeSpan st a b c d : InvS st -> csOK src a b = true -> InvS (collectCodeSpan st a b c d).
  Proof.
    intros H Hc. unfold collectCodeSpan. cbv zeta.
    destruct (nodeIndexForPosition (unpFrom st) d =? 0).
    - apply I_addNode_cs; [assumption|assumption|]. apply flatF_csfree, strip_flat, cs_addSpan_flat. constructor.
    - match goal with |- context [?F (Z.to_nat _) (cs_addSpan (isrc st) [] ?x ?y) (upos st)] =>
        assert (HM : forall k acc up, Forall flatC acc -> Forall flatC (fst (F k acc up))) end.
      { induction k as [|k IHk]; intros acc up Ha; [exact Ha|]. cbn [fst]. apply IHk.
        destruct (ikind _ =? UnparsedKind); [apply cs_addSpan_flat|]; assumption. }
      match goal with |- context [?F (Z.to_nat ?n) (cs_addSpan (isrc st) [] ?x ?y) (upos st)] =>
        specialize (HM (Z.to_nat n) (cs_addSpan (isrc st) [] x y) (upos st) (cs_addSpan_flat _ _ _ _ (Forall_nil _)));
        destruct (F (Z.to_nat n) (cs_addSpan (isrc st) [] x y) (upos st)) as [acc up] end.
      cbn [fst] in HM.
      apply I_addNode_cs; [apply I_setUpos; assumption|assumption|].
      apply flatF_csfree, strip_flat, cs_addSpan_flat. assumption.
  Qed.

  (* ---- one step of the tokeniser ---- *)
  Lemma S_plain st kind s e kids : InvS st -> (kind =? CodeSpanKind) = false -> forallb csfree kids = true ->
    InvS (fst (addNode st kind s e kids)).
  Proof. intros H Hk Hkids. apply (Inv_S src U (nid st)). apply I_addNode_plain; assumption. Qed.
  Lemma S_setIgn st v : InvS st -> InvS (setIgn st v). Proof. intros H; exact H. Qed.
  Lemma S_setUpos st v : InvS st -> InvS (setUpos st v). Proof. intros H; exact H. Qed.
  Lemma S_advanceTo st p : InvS st -> InvS (advanceTo st p).
  Proof. intros H. unfold advanceTo. destruct (0 <=? _); apply S_setUpos; exact H. Qed.
  Lemma S_push st kind s e kids (mk : Z -> delim) : InvS st -> (kind =? CodeSpanKind) = false ->
    forallb csfree kids = true -> (forall id, d_node (mk id) = id) ->
    InvS (setStk (fst (addNode st kind s e kids))
                 (stk (fst (addNode st kind s e kids)) ++ [mk (snd (addNode st kind s e kids))])).
  Proof. intros H Hk Hkids Hmk. apply (Inv_S src U (nid st)). apply I_addNode_push; assumption. Qed.

  Lemma fuel_ok st pos : InvS st -> 0 <= pos ->
    spOK (isrc st) (unpFrom st) = true /\ len (isrc st) - pos + ibudget (unpFrom st) < Z.of_nat (rfuelOf st).
  Proof.
    intros (E1 & E2 & _) Hp. unfold unpFrom. rewrite E1, E2. split; [apply spOK_from, HOK|].
    pose proof (ibudget_skipn (Z.to_nat (upos st)) U) as Hb. unfold from_. unfold rfuelOf. rewrite E1.
    unfold len in *. lia.
  Qed.

  Lemma S_istep st pos pl : InvS st -> InvS (fst (fst (istep st pos pl))).
  Proof.
    intros H. pose proof (proj1 H) as Esrc. unfold istep. cbv zeta.
    assert (HT : InvS (addText st pl pos)) by (apply S_addText; assumption).
    destruct ((_ =? 42) || (_ =? 95)).
    { pose proof (S_parseDelimiterRun src U _ pos HT) as H2. destruct (parseDelimiterRun _ pos) as [st2 e]. exact H2. }
    destruct (_ =? 91).
    { match goal with |- context [addNode ?a ?b ?c ?d ?e] =>
        pose proof (fun mk => S_push a b c d e mk HT eq_refl eq_refl) as H2; destruct (addNode a b c d e) as [st2 id] end.
      cbn [fst snd] in *. apply (H2 (fun id => {| d_typ := _; d_flags := _; d_n := _; d_node := id |})). reflexivity. }
    destruct (_ =? 93).
    { pose proof (S_parseEndBracket _ pos HT) as H2. destruct (parseEndBracket _ pos) as [st2 e]. exact H2. }
    destruct (_ =? 33).
    { destruct (_ || _); [exact H|].
      match goal with |- context [addNode ?a ?b ?c ?d ?e] =>
        pose proof (fun mk => S_push a b c d e mk HT eq_refl eq_refl) as H2; destruct (addNode a b c d e) as [st2 id] end.
      cbn [fst snd] in *. apply (H2 (fun id => {| d_typ := _; d_flags := _; d_n := _; d_node := id |})). reflexivity. }
    destruct (_ =? 32).
    { destruct (parseHardLineBreakSpace _) as [e ok]. destruct (ok && _); [|exact H].
      cbn [fst]. apply S_setIgn. apply S_plain; [assumption|reflexivity|reflexivity]. }
    destruct (Z.eqb_spec (at_ (isrc st) pos) 96) as [E96|E96].
    { assert (Hpos : 0 <= pos) by (pose proof (at_nonzero_lt (isrc st) pos ltac:(lia)); lia).
      destruct (fuel_ok st pos H Hpos) as (Hok & Hfuel).
      destruct (parseCodeSpan (rfuelOf st) st pos) as [[cS cE] sE] eqn:Ep. destruct (Z.leb_spec 0 sE) as [Hse|Hse]; [|exact H].
      cbn [fst]. apply S_collectCodeSpan; [exact HT|].
      destruct (parseCodeSpan_shapeInline (rfuelOf st) st pos cS cE sE Hpos Hok Hfuel Ep Hse) as (Hsh & _).
      unfold csOK. rewrite <- Esrc. exact Hsh. }
    destruct (_ =? 60).
    { destruct (0 <=? parseAutolink _).
      - cbn [fst]. apply S_plain; [assumption|reflexivity|reflexivity].
      - destruct (parseHTMLTag _ _) as [ts te]. destruct (negb _); [exact H|]. cbn [fst].
        apply S_advanceTo.
        assert (HT' : InvS (addText st pl ts)) by (apply S_addText; assumption).
        apply S_plain; [assumption|reflexivity|].
        apply (kids_csfree U HU); [cbn [newReader r_spans]; eapply unpFrom_sub; exact HT'|reflexivity]. }
    destruct (_ =? 92).
    { pose proof (S_parseBackslash src U _ pos HT) as H2. destruct (parseBackslash _ pos) as [st2 e]. exact H2. }
    destruct (_ =? 38).
    { destruct (parseCharacterEscape _ <? 0); [exact H|]. cbn [fst]. apply S_plain; [assumption|reflexivity|reflexivity]. }
    destruct (_ =? 10).
    { cbn [fst]. destruct (negb _); [|assumption]. apply S_plain; [assumption|reflexivity|reflexivity]. }
    destruct (_ =? 13).
    { cbn [fst]. destruct (negb _); [|assumption]. apply S_plain; [assumption|reflexivity|reflexivity]. }
    exact H.
  Qed.

  Lemma S_iloop : forall fuel st pos pl, InvS st -> InvS (fst (iloop fuel st pos pl)).
  Proof.
    induction fuel as [|f IH]; intros st pos pl H; [exact H|]. cbn [iloop].
    destruct (_ && _); [|exact H].
    pose proof (S_istep st pos pl H) as H2. destruct (istep st pos pl) as [[st2 pos2] pl2]. cbn [fst] in H2.
    apply IH. assumption.
  Qed.

  Lemma S_pushU st u : InvS st -> noCSI u = true -> InvS (setRk st (rk st ++ [ofInline u])).
  Proof.
    intros (E1 & E2 & Hn & Hg & Hs) Hu. unfold InvS, ShapesComp.InvS, ShapesComp.Inv, sids, setRk. cbn [isrc unp nid rk stk].
    split; [assumption|]. split; [assumption|]. split; [assumption|]. split; [|assumption].
    rewrite gokF_app. unfold sids in Hg. rewrite Hg. cbn [andb]. unfold gokF. cbn [forallb]. rewrite andb_true_r.
    apply csfree_gok, noCSI_ofInline, Hu.
  Qed.
  Lemma nthU_ok st : InvS st -> noCSI (nth (Z.to_nat (upos st)) (unp st) (mkI 0 0 0)) = true.
  Proof.
    intros (_ & E2 & _). rewrite E2.
    destruct (nth_in_or_default (Z.to_nat (upos st)) U (mkI 0 0 0)) as [Hin|Hd].
    - rewrite Forall_forall in HU. apply HU. assumption.
    - rewrite Hd. reflexivity.
  Qed.

  Lemma S_outer : forall fuel st, InvS st -> InvS (outer fuel st).
  Proof.
    induction fuel as [|f IH]; intros st H; [exact H|]. cbn [outer].
    destruct (len (unp st) <=? upos st); [exact H|].
    apply IH. apply S_setUpos.
    pose proof (nthU_ok st H) as Hu.
    destruct (ikind _ =? 0); [apply S_setIgn; assumption|].
    destruct (ikind _ =? IndentKind).
    { destruct (negb (ign st)); [apply S_pushU; assumption|assumption]. }
    destruct (ikind _ =? UnparsedKind).
    { match goal with |- context [iloop ?a ?b ?c ?d] =>
        pose proof (S_iloop a b c d (S_setIgn st false H)) as H2; destruct (iloop a b c d) as [st2 pl2] end.
      cbn [fst] in H2. apply S_addText. assumption. }
    apply (S_pushU (setIgn st false)); [apply S_setIgn; assumption|assumption].
  Qed.
End St3.

(* ================================================================ the end-to-end statement for CodeSpanKind *)
(* what is assumed of the container's inline list (all three are executable checks):
     spOK src (bik b)              the span list is well formed (see ShapesR.v);
     ibudget (bik b) <= len src+9  the indentation columns replayed by the reader fit the model's fuel 2*len+10;
     forallb noCSI (bik b)         the block parser left no code-span node in it (it never creates one). *)
Definition bikOK (src : bytes) (b : block) : bool :=
  spOK src (bik b) && (ibudget (bik b) <=? len src + 9) && forallb noCSI (bik b).

Theorem parseInlines_codespan_shapes_partial src matcher b :
  bikOK src b = true ->
  forallb (csI src) (parseInlines src matcher b) = true.
Proof.
  unfold bikOK. intros H. apply andb_true_iff in H. destruct H as [H H3]. apply andb_true_iff in H. destruct H as [H1 H2].
  apply Z.leb_le in H2.
  assert (HU : Forall (fun u => noCSI u = true) (bik b)) by (apply Forall_forall; rewrite forallb_forall in H3; exact H3).
  unfold parseInlines.
  set (st0 := {| rk := []; isrc := src; unp := bik b; upos := 0; stk := []; ign := false; nid := 1;
                 rootEnd := bend b; matcher := matcher |}).
  assert (H0 : InvS src (bik b) st0).
  { unfold InvS, Inv. cbn. split; [reflexivity|]. split; [reflexivity|]. split; [lia|]. split; [reflexivity|constructor]. }
  pose proof (S_outer src (bik b) HU H1 H2 (S (length (bik b))) st0 H0) as HO.
  pose proof (I_processEmphasis src (bik b) _ _ 0 HO) as HP.
  destruct HP as (_ & _ & _ & Hg & _).
  rewrite forallb_forall. intros x Hx. apply in_map_iff in Hx. destruct Hx as (n & <- & Hn).
  unfold gokF in Hg. rewrite forallb_forall in Hg. eapply gok_csI. apply Hg, Hn.
Qed.

Print Assumptions parseInlines_codespan_shapes_partial.
