From Coq Require Import List ZArith Lia Bool.
Import ListNotations.
Require Import Base Tree Driver BSTree EolCRLFSimLeDefs EolCRLFSimCtDef EolFinalDefs.
Open Scope Z_scope.

(* C14 (i), final newline: a block all of whose positions lie before L is a fixed point of the tree map;
   with the containment invariant ct (EolCRLFSimCtDef) this covers every block closed before L. *)

Lemma bump_lt L e : e < L -> bump L e = e.
Proof. intros H. unfold bump. destruct (Z.eqb_spec e L); [lia|reflexivity]. Qed.
Lemma leI_fix H L u : H < L -> leI H u = true -> bumpI L u = u.
Proof.
  intros HL Hu. destruct u as [k s e i r ks]. cbn [leI] in Hu. apply andb_true_iff in Hu. destruct Hu as [Hu _]. apply andb_true_iff in Hu. destruct Hu as [_ He].
  apply Z.leb_le in He. unfold bumpI. destruct (k =? IndentKind); [reflexivity|]. rewrite bump_lt by lia. reflexivity.
Qed.
Lemma leIL_fix H L ik : H < L -> forallb (leI H) ik = true -> map (bumpI L) ik = ik.
Proof.
  intros HL. induction ik as [|u r IH]; intros Hi; [reflexivity|]. cbn [forallb] in Hi. apply andb_true_iff in Hi. destruct Hi as [Hu Hr].
  cbn [map]. rewrite (leI_fix H L u HL Hu), (IH Hr). reflexivity.
Qed.
Lemma leIL_finCode H L ik : H < L -> forallb (leI H) ik = true -> finCode L ik = ik.
Proof.
  intros HL Hi. unfold finCode. destruct (rev ik) as [|[k2 s2 e2 i2 r2 ks2] [|[k1 s1 e1 i1 r1 ks1] pre]] eqn:Er; try reflexivity.
  assert (Hin : In (Inl k2 s2 e2 i2 r2 ks2) ik) by (apply in_rev; rewrite Er; left; reflexivity).
  rewrite forallb_forall in Hi. specialize (Hi _ Hin). cbn [leI] in Hi. apply andb_true_iff in Hi. destruct Hi as [Hi _]. apply andb_true_iff in Hi. destruct Hi as [Hs _].
  apply Z.leb_le in Hs. replace (s2 =? L) with false by (symmetry; apply Z.eqb_neq; lia). rewrite andb_false_r. reflexivity.
Qed.
Lemma leB_fix H L : H < L -> forall b, leB H b = true -> finB L b = b.
Proof.
  intros HL. fix IH 1. intros [K s e bk ik a n c l lb] Hb. cbn [leB] in Hb.
  apply andb_true_iff in Hb. destruct Hb as [Hb Hk]. apply andb_true_iff in Hb. destruct Hb as [Hb Hi]. apply andb_true_iff in Hb. destruct Hb as [_ He]. apply Z.leb_le in He.
  assert (Hkids : map (finB L) bk = bk).
  { clear - IH Hk. induction bk as [|x r IHr]; [reflexivity|]. cbn [forallb] in Hk. apply andb_true_iff in Hk. destruct Hk as [Hx Hr]. cbn [map]. rewrite (IH x Hx), (IHr Hr). reflexivity. }
  cbn [finB]. destruct (K =? ListMarkerKind); [reflexivity|]. rewrite Hkids, bump_lt by lia. f_equal.
  unfold finI. destruct (_ || _); [apply (leIL_fix H L ik HL Hi)|]. destruct (_ || _); [apply (leIL_finCode H L ik HL Hi)|reflexivity].
Qed.
Theorem ct_seal M L x : ct M x -> 0 <= bend x < L -> finB L x = x.
Proof. intros Hc [H0 HL]. apply (leB_fix (bend x) L HL). apply (ct_closed_leB M x Hc H0). Qed.
Print Assumptions ct_seal.
