From Coq Require Import List ZArith Lia Bool.
Import ListNotations.
Require Import Base Tree Rdr Link Collect Html Recog LP Rules Starts Driver L2Kind L2CC BSDef BSRdr BSTree BSOcp BSOrph BSClose BSLine1 BSLine2 BSLine3 BSLine4 BSLine5 BSLine7 BSLine8
  GramTree GramLP GramLP2 Cursor CursorX NoPanic12 Rec16 Rec17 Rec18 RecBounds ShDef ShRdr ShClose ShEnv ShLine1 ShLine2 ShFresh ShStarts2.
Require LADef LARec.
Require Import Props ShapesBase ShapesA EntBase EntOcpDefs EntOcp EntTree EntCur EntLP1 EntLP2 EntLP3 EntLP4 EntLP5
  BndDefs BndBDefs BndB1 BndB2 BndB3 BndB4 BndB5.
Open Scope Z_scope.

(* ================================================================== *)
(* BndB6: the ATX heading start, the list item start and the setext    *)
(* heading start.                                                      *)
(* ================================================================== *)

Lemma nt_ascii c : LADef.tx c = false -> c <> 0 /\ c < 128.
Proof.
  unfold LADef.tx, textual. intros H. apply orb_false_iff in H. destruct H as [H H0]. apply Z.eqb_neq in H0.
  apply orb_false_iff in H. destruct H as [H _]. apply orb_false_iff in H. destruct H as [H _]. apply Z.leb_gt in H. lia.
Qed.

Lemma line_eolEnd B p : envB B p -> LARec.eolEnd (line p).
Proof.
  intros He. pose proof He as (_ & _ & A & A' & _ & (_ & _ & _ & Hl & _)). intros j Hj Ej.
  assert (Hz : EntBase.isEOLz (at_ B (lineStart p + j))).
  { rewrite <- (line_at B p j He Hj). unfold LADef.isEOLz in Ej. apply orb_true_iff in Ej. unfold EntBase.isEOLz. destruct Ej as [E|E]; apply Z.eqb_eq in E; lia. }
  destruct (Hl (lineStart p + j) ltac:(lia) Hz) as [E|(E1 & E2 & E3)]; [left; lia|right].
  split; [lia|]. rewrite (line_at B p j He Hj). rewrite (line_at B p (len (line p) - 1) He ltac:(lia)).
  replace (lineStart p + (len (line p) - 1)) with (lineStart p + len (line p) - 1) by lia. tauto.
Qed.
Lemma bai_eolTail B p : envB B p -> 0 <= li p -> LARec.eolTail (bytesAfterIndent p).
Proof.
  intros He Hl. unfold bytesAfterIndent. rewrite trimLeft_from. apply LARec.eolTail_from; [apply indentLength_nonneg|].
  unfold rest. apply LARec.eolTail_from; [exact Hl|]. apply LARec.eolEnd_tail, (line_eolEnd B), He.
Qed.

Section Starts2.
  Variable B : bytes.
  Hypothesis HVB : asciiOK B.
  Hypothesis HV0 : boundary_ok B 0 = true.
  Hypothesis Hocp : OcpG B.
  Notation g := (gdb B).
  Notation XP := (XP B).
  Notation Cg := (Cg B).
  Notation startOKb := (startOKb B).

  (* ---- ATX heading ---- *)
  Lemma sOKb_startATX : startOKb startATX.
  Proof.
    intros p HX Hs Hcl. pose proof HX as [HE Hg]. unfold startATX. cbv zeta.
    destruct (_ <=? _); [left; reflexivity|].
    destruct (parseATXHeading (bytesAfterIndent p)) as [[level cs] ce] eqn:Ea. destruct (Z.ltb_spec level 1); [left; reflexivity|]. right.
    pose proof HE as (A & (A0 & A1) & A2 & A3 & A4).
    destruct (atx_bounds _ _ _ _ Ea ltac:(lia)) as (Bc & Be & _).
    destruct (LARec.atx_nt _ _ _ _ Ea ltac:(lia) (bai_eolTail B p A ltac:(lia))) as (_ & _ & NT1 & NT2).
    destruct (consume_all p A3 ltac:(lia)) as (R1 & L1 & L2 & _).
    set (p1 := consumeIndent p (indent p)) in *.
    assert (H1 : XP p1) by (apply X_consumeIndent, HX).
    assert (S1 : st_open p1) by (eapply st_open_sstep; [apply sstep_consumeIndent|exact Hs]).
    assert (C1 : cleanA p1) by (apply cleanA_consumeIndent, Hcl).
    pose proof (X_obPre B HVB HV0 Hocp p1 ATXHeadingKind H1) as [_ Hgq]. set (q := obPre p1 ATXHeadingKind) in *.
    pose proof (frs_openBlock p1 ATXHeadingKind S1) as F2. fold q in F2.
    set (p2 := openBlock p1 ATXHeadingKind) in *. set (Y0 := newBlock ATXHeadingKind (lineStart p1 + li p1)) in *.
    assert (E2 : state p2 = stOpenMatched) by (apply state_openBlock, S1).
    pose proof (curS_openBlock p1 ATXHeadingKind) as C2. fold p2 in C2.
    pose proof (frs_updCont q p2 Y0 (fun b => set_bn b level) F2) as F3. cbv beta in F3. set (p3 := updCont p2 (fun b => set_bn b level)) in *.
    assert (Hl : line p1 = line p /\ lineStart p1 = lineStart p).
    { destruct (env_parts _ _ (env_consumeIndent p (indent p))) as (_ & X1 & X2). fold p1 in X1, X2. tauto. }
    destruct Hl as [Hl1 Hl2].
    assert (Li3 : li p3 = li p1 /\ line p3 = line p /\ lineStart p3 = lineStart p).
    { destruct C2 as (X1 & X2 & _). split; [exact X1|]. split; [change (line p3) with (line p2); rewrite X2; exact Hl1|].
      destruct (env_parts _ _ (env_openBlock p1 ATXHeadingKind)) as (_ & X3 & _). change (lineStart p3) with (lineStart p2). fold p2 in X3. rewrite X3. exact Hl2. }
    destruct Li3 as (Li3 & Ln3 & Ls3).
    pose proof (indentLength_nonneg (rest p)) as Hnn.
    assert (Hr1 : len (rest p1) = len (line p1) - li p1) by (apply len_rest; rewrite Hl1; lia).
    rewrite R1, Hl1 in Hr1.
    set (p4 := advance p3 cs).
    assert (Li4 : li p4 = li p1 + cs).
    { destruct (Z.eq_dec cs 0) as [->|N0]; [unfold p4, advance; change (0 <? 0) with false; change (0 =? 0) with true; cbv iota; lia|]. unfold p4. rewrite li_advance; [lia|lia|rewrite Li3, Ln3; lia]. }
    assert (F4 : frs q p4 (set_bn Y0 level)) by (eapply frs_cstep; [exact F3|apply cstep_advance]).
    assert (E4 : state p4 = stOpenMatched).
    { destruct (sstep_advance p3 cs) as [X|[X _]]; [fold p4 in X; rewrite X; exact E2|change (state p3) with (state p2) in X; rewrite E2 in X; discriminate]. }
    assert (Ln4 : line p4 = line p /\ lineStart p4 = lineStart p).
    { destruct (env_parts _ _ (env_advance p3 cs)) as (_ & X1 & X2). fold p4 in X1, X2. rewrite X1, X2. tauto. }
    destruct Ln4 as [Ln4 Ls4].
    assert (Hop : (if state p4 =? stOpening then withState p4 stOpenMatched else p4) = p4) by (rewrite E4; reflexivity).
    assert (Hind : indent (if state p4 =? stOpening then withState p4 stOpenMatched else p4) = 0).
    { rewrite Hop. apply indent_nonblank. rewrite Ln4, Li4. intros Hlt.
      rewrite <- Hl1. rewrite <- (rest_at p1 cs) by lia. rewrite R1. apply (atx_cs _ _ _ _ Ea); lia. }
    pose proof (frs_collectInline_plain q p4 (set_bn Y0 level) UnparsedKind (ce - cs) F4 ltac:(rewrite E4; reflexivity) Hind eq_refl) as F5.
    rewrite Hop in F5. set (p5 := collectInline p4 UnparsedKind (ce - cs)) in *.
    set (Y5 := set_bik (set_bn Y0 level) (bik (set_bn Y0 level) ++ [mkI UnparsedKind (lineStart p4 + li p4) (lineStart p4 + li (advance p4 (ce - cs)))])) in *.
    assert (E5 : st_open p5) by (eapply st_open_sstep; [apply sstep_collectInline|right; exact E4]).
    assert (F6 : frs q (consumeLine p5) Y5) by (eapply frs_cstep; [exact F5|apply cstep_consumeLine]).
    assert (E6 : state (consumeLine p5) = stLineConsumed) by (apply LC_consumeLine, E5).
    destruct (frs_endBlock q (consumeLine p5) Y5 F6 ltac:(right; right; exact E6) ltac:(reflexivity) ltac:(reflexivity) ltac:(repeat split; discriminate))
      as (G1 & G2 & G3).
    set (pf := endBlock (consumeLine p5)) in *.
    assert (E7 : state pf = stLineConsumed) by (eapply LC_sstep; [apply sstep_endBlock|exact E6]).
    assert (Li5 : li (consumeLine p5) = len (line p)).
    { assert (X : 0 <= li p5 <= len (line p5)).
      { assert (Lst5 : lstep p p5).
        { unfold p5, p4, p3, p2, p1. eapply lstep_trans; [apply lstep_cstep, cstep_consumeIndent|]. eapply lstep_trans; [apply lstep_openBlock|].
          eapply lstep_trans; [apply lstep_updCont|]. eapply lstep_trans; [apply lstep_cstep, cstep_advance|]. apply lstep_collectInline. }
        destruct (lstep_li p p5 Lst5 ltac:(lia)) as (X1 & _ & X2). exact X1. }
      rewrite (li_consumeLine p5 X). destruct (env_parts _ _ (env_consumeLine p5)) as (_ & _ & X3).
      assert (Lst5 : envOf p5 = envOf p).
      { unfold p5, p4, p3, p2, p1. rewrite env_collectInline, env_advance, env_updCont, env_openBlock, env_consumeIndent. reflexivity. }
      destruct (env_parts _ _ Lst5) as (_ & _ & X4). rewrite X4. reflexivity. }
    assert (Lsc : lineStart (consumeLine p5) = lineStart p).
    { destruct (env_parts _ _ (env_consumeLine p5)) as (_ & X3 & _). rewrite X3. unfold p5.
      destruct (env_parts _ _ (env_collectInline p4 UnparsedKind (ce - cs))) as (_ & X4 & _). rewrite X4. exact Ls4. }
    (* the four positions of the closed heading *)
    assert (Gs : g (lineStart p1 + li p1) = true) by (apply (Cg_clean B HVB HV0 p1 H1 C1)).
    assert (Ge : g (lineStart (consumeLine p5) + li (consumeLine p5)) = true) by (rewrite Lsc, Li5; apply (g_H B HVB), A).
    assert (Hbyte : forall j, 0 <= j < len (bytesAfterIndent p) -> at_ (line p) (li p1 + j) = at_ (bytesAfterIndent p) j).
    { intros j Hj. rewrite <- R1. rewrite rest_at by lia. rewrite Hl1. reflexivity. }
    assert (Ga : g (lineStart p4 + li p4) = true).
    { rewrite Ls4, Li4. destruct (Z.eq_dec cs 0) as [->|N0]; [replace (li p1 + 0) with (li p1) by lia; rewrite <- Hl2; exact Gs|].
      replace (lineStart p + (li p1 + cs)) with (lineStart p + (li p1 + (cs - 1)) + 1) by lia.
      destruct (nt_ascii _ (NT1 (cs - 1) ltac:(lia))) as [N0' N1'].
      apply (g_after B HVB p); [exact A|lia| |]; rewrite Hbyte by lia; assumption. }
    assert (Gb : g (lineStart p4 + li (advance p4 (ce - cs))) = true).
    { destruct (adv_cases p4 (ce - cs)) as [Eb|(Eb1 & Eb2 & Eb3)]; [rewrite Eb; exact Ga|]. rewrite Eb3, Ls4, Li4.
      replace (li p1 + cs + (ce - cs)) with (li p1 + ce) by lia.
      destruct (Z.eq_dec ce (len (bytesAfterIndent p))) as [Ee|Ne].
      - replace (li p1 + ce) with (len (line p)) by lia. apply (g_H B HVB), A.
      - destruct (nt_ascii _ (NT2 ce ltac:(lia))) as [N0' N1'].
        apply (g_at B p); [exact A|lia| |]; rewrite Hbyte by lia; assumption. }
    split; [|left; exact E7].
    rewrite G1. apply gB_updAt; [|exact Hgq]. intros b Hb. apply gB_append; [exact Hb|].
    unfold Y5, Y0, newBlock. cbn [set_bn set_bik set_bend bik app gB gI mkI forallb].
    rewrite Gs, Ge, Ga, Gb. reflexivity.
  Qed.

  (* ---- list item ---- *)
  Lemma digit_ascii c : isASCIIDigit c = true -> c <> 0 /\ c < 128.
  Proof. unfold isASCIIDigit. intros H. apply andb_true_iff in H. destruct H as [H1 H2]. apply Z.leb_le in H1, H2. lia. Qed.
  Lemma marker_bytes R d n e : parseListMarker R = (d, n, e) -> 0 <= e -> forall j, 0 <= j < e -> at_ R j <> 0 /\ at_ R j < 128.
  Proof.
    intros H He j Hj. pose proof (parseListMarker_sound R d n e H He) as Hs. inversion Hs as [c rest Hc _|ds d' rest Hl Hd Hdd _]; subst.
    - replace j with 0 by lia. rewrite at_0. destruct Hc as [->|[->| ->]]; lia.
    - destruct (Z.lt_ge_cases j (len ds)) as [L|L].
      + rewrite at_app_l by lia. apply digit_ascii. apply (at_forallb _ _ Hd). lia.
      + replace j with (len ds) by lia. rewrite at_app_r by lia. replace (len ds - len ds) with 0 by lia. rewrite at_0. destruct Hdd as [-> | ->]; lia.
  Qed.

  Lemma sOKb_startListItem : startOKb startListItem.
  Proof.
    intros p HX Hs Hcl. unfold startListItem. cbv zeta. destruct (_ <=? _); [left; reflexivity|].
    destruct (parseListMarker (bytesAfterIndent p)) as [[delim n] mend] eqn:Elm.
    match goal with |- (if ?c then p else _) = p \/ _ => destruct c eqn:Em end; [left; reflexivity|].
    match goal with |- (if ?c then p else _) = p \/ _ => destruct c end; [left; reflexivity|]. right.
    apply orb_false_iff in Em. destruct Em as [Em _]. apply Z.ltb_ge in Em.
    pose proof HX as [(A & (A0 & A1) & A2 & A3 & A4) Hg].
    destruct (consume_all p A3 ltac:(lia)) as (R1 & L1 & L2 & _).
    set (p1 := consumeIndent p (indent p)) in *.
    assert (H1 : XP p1) by (apply X_consumeIndent, HX).
    assert (S1 : st_open p1) by (eapply st_open_sstep; [apply sstep_consumeIndent|exact Hs]).
    assert (C1 : cleanA p1) by (apply cleanA_consumeIndent, Hcl).
    set (cdelim := if (containerKind p1 =? ListKind) || (containerKind p1 =? ListItemKind) then bchar (contBlock p1) else 0).
    set (p2 := if negb (containerKind p1 =? ListKind) || negb (cdelim =? delim)
               then updCont (openBlock p1 ListKind) (fun b => set_bchar b delim) else p1).
    assert (H2 : XP p2 /\ st_open p2 /\ containerKind p2 = ListKind /\ curS p1 p2 /\ envOf p2 = envOf p1).
    { unfold p2. destruct (negb (containerKind p1 =? ListKind) || negb (cdelim =? delim)) eqn:Ec.
      - pose proof (X_openBlock B HVB HV0 Hocp p1 ListKind H1 S1 (Cg_clean B HVB HV0 p1 H1 C1) ltac:(discriminate) ltac:(discriminate) ltac:(discriminate) ltac:(left; discriminate)) as X1.
        pose proof (X_set_bchar B _ delim X1) as X2. split; [exact X2|]. split; [right; apply state_openBlock, S1|].
        split; [rewrite containerKind_keeps by apply keeps_bchar; apply containerKind_open; [apply X1|exact S1]|].
        split; [eapply curS_trans; [apply curS_openBlock|repeat split]|rewrite env_updCont; apply env_openBlock].
      - apply orb_false_iff in Ec. destruct Ec as [Ec _]. apply negb_false_iff, Z.eqb_eq in Ec. split; [exact H1|]. split; [exact S1|]. split; [exact Ec|]. split; [repeat split|reflexivity]. }
    destruct H2 as (H2 & S2 & K2 & C2 & V2).
    assert (Cl2 : cleanA p2) by (eapply cleanA_curS; eassumption).
    pose proof (X_openBlock B HVB HV0 Hocp p2 ListItemKind H2 S2 (Cg_clean B HVB HV0 p2 H2 Cl2) ltac:(discriminate) ltac:(discriminate) ltac:(discriminate) ltac:(right; rewrite K2; reflexivity)) as H3.
    pose proof (X_set_bchar B _ delim H3) as H3'. set (p3 := updCont (openBlock p2 ListItemKind) (fun b => set_bchar b delim)) in *.
    assert (S3 : st_open p3) by (right; apply (state_openBlock p2 ListItemKind S2)).
    assert (C23 : curS p2 p3) by (eapply curS_trans; [apply (curS_openBlock p2 ListItemKind)|repeat split]).
    assert (Cl3 : cleanA p3) by (eapply cleanA_curS; eassumption).
    pose proof (X_openBlock B HVB HV0 Hocp p3 ListMarkerKind H3' S3 (Cg_clean B HVB HV0 p3 H3' Cl3) ltac:(discriminate) ltac:(discriminate) ltac:(discriminate) ltac:(left; discriminate)) as H4.
    set (p4 := openBlock p3 ListMarkerKind) in *.
    assert (E4 : state p4 = stOpenMatched) by (apply state_openBlock, S3).
    assert (C14 : curS p1 p4).
    { eapply curS_trans; [exact C2|]. eapply curS_trans; [exact C23|]. apply (curS_openBlock p3 ListMarkerKind). }
    assert (Cl4 : cleanA p4) by (eapply cleanA_curS; eassumption).
    assert (Hr4 : rest p4 = bytesAfterIndent p).
    { rewrite <- R1. destruct C14 as (X1 & X2 & _). unfold rest. rewrite X1, X2. reflexivity. }
    set (p5 := advance p4 mend).
    assert (H5 : XP p5) by (apply X_advance, H4).
    assert (S5 : st_open p5) by (eapply st_open_sstep; [apply sstep_advance|right; exact E4]).
    pose proof H4 as [(_ & (_ & A41) & _) _].
    assert (Cl5 : cleanA p5).
    { apply cleanA_advance; [exact A41|exact Cl4|]. intros j Hj. rewrite Hr4. apply (marker_bytes _ _ _ _ Elm Em j Hj). }
    pose proof H5 as [(A5 & A51 & _) _].
    pose proof (X_endBlock B HVB Hocp p5 H5 (bdy_cur B p5 A5 A51 Cl5) (Cg_clean B HVB HV0 p5 H5 Cl5)) as H6.
    set (p6 := endBlock p5) in *.
    assert (Cl6 : cleanA p6) by (eapply cleanA_curS; [apply curS_endBlock|exact Cl5]).
    assert (S6 : st_open p6) by (eapply st_open_sstep; [apply sstep_endBlock|exact S5]).
    destruct (isRestBlank p6).
    - pose proof (X_set_bindent B p6 (indent p + mend + 1) H6) as H7.
      set (p7 := updCont p6 (fun b => set_bindent b (indent p + mend + 1))) in *.
      assert (E8 : state (consumeLine p7) = stLineConsumed) by (apply LC_consumeLine; exact S6).
      split; [rewrite (root_cstep _ _ (cstep_consumeLine p7)); apply H7|left; exact E8].
    - set (pp := if indent p6 <? 1 then (1, p6) else if 4 <? indent p6 then (1, consumeIndent p6 1) else (indent p6, consumeIndent p6 (indent p6))).
      assert (Hpp : XP (snd pp) /\ cleanA (snd pp)).
      { unfold pp. destruct (indent p6 <? 1); [cbn [snd]; tauto|].
        destruct (4 <? indent p6); cbn [snd]; (split; [apply X_consumeIndent, H6|apply cleanA_consumeIndent, Cl6]). }
      destruct pp as [padding p7]. cbn [snd] in Hpp. destruct Hpp as (H7 & Cl7).
      pose proof (X_set_bindent B p7 (indent p + mend + padding) H7) as H8.
      split; [apply H8|right; apply (cleanA_ext p7); [reflexivity|reflexivity|exact Cl7]].
  Qed.

  (* ---- setext heading ---- *)
  Lemma gL_setext_close M H src e n x level : src = upto B H -> H <= len B -> 0 <= e <= H -> M <= e -> bdy B e -> bdy B H ->
    g e = true -> g H = true ->
    en B M x -> gB g x = true -> bkind x = ParagraphKind -> lastIsPara (onCloseParagraph src x) = true ->
    gL g (closeBlock (S n) src (set_bn (set_bkind x SetextHeadingKind) level) e) = true.
  Proof.
    intros Esrc HB He HM Hbe HbH Hge HgH Hx Hgx HK HP.
    set (gx := set_bn (set_bkind x SetextHeadingKind) level).
    assert (F : bkids gx = bkids x /\ bik gx = bik x /\ bstart gx = bstart x /\ bend gx = bend x /\ bkind gx = SetextHeadingKind) by (destruct x; repeat split).
    destruct F as (F1 & F2 & F3 & F4 & F5).
    assert (Hggx : gB g gx = true) by (unfold gx; rewrite gB_set_bn, gB_set_bkind; exact Hgx).
    destruct (Z.ltb_spec (bend x) 0) as [Ho|Hcl].
    2:{ rewrite closeBlock_closed' by (rewrite F4; exact Hcl). unfold gL. cbn [forallb]. rewrite Hggx. reflexivity. }
    set (b1 := set_bend gx e).
    assert (G : bkids b1 = bkids x /\ bik b1 = bik x /\ bstart b1 = bstart x /\ bend b1 = e /\ bkind b1 = SetextHeadingKind).
    { unfold b1. rewrite bk_set_bend, bik_set_bend, bstart_set_bend, bend_set_bend, bkind_set_bend. tauto. }
    destruct G as (G1 & G2 & G3 & G4 & G5).
    pose proof Hx as Hx'. rewrite en_eq in Hx'. destruct Hx' as ((A & _ & _) & C).
    destruct (A (or_introl HK)) as (L1 & L2 & L3). rewrite bound_open in L1 by exact Ho.
    assert (Hgb1 : gB g b1 = true) by (apply gB_set_bend; assumption).
    assert (EL : closeBlock (S n) src gx e = onCloseParagraph src b1).
    { cbn [closeBlock]. unfold isOpen. rewrite F4. destruct (Z.ltb_spec (bend x) 0); [|lia]. cbn [negb]. cbv zeta. fold b1. rewrite G5. reflexivity. }
    rewrite EL. unfold onCloseParagraph in *. rewrite G2. destruct (bik x) as [|first rest] eqn:Eb; [unfold gL; cbn [forallb]; rewrite Hgb1; reflexivity|].
    cbv zeta in *. rewrite HK in HP. change (ParagraphKind =? SetextHeadingKind) with false in HP. cbv iota in HP.
    rewrite G5. change (SetextHeadingKind =? SetextHeadingKind) with true. cbv iota.
    assert (Eik : bik x = bik b1) by (rewrite Eb, G2; reflexivity).
    rewrite Eb in Eik.
    pose proof (ocp_orphan_irrel (S (length (first :: rest))) (2 * length src + 10) src x b1) as Hirr.
    rewrite (Hirr _ _ [] [] ltac:(rewrite Eb; exact Eik) HP).
    assert (Hrun : ocp_loop (S (length (first :: rest))) (2 * length src + 10) src b1 None (newReader src (first :: rest) (istart first)) [] = ocpRun src b1).
    { unfold ocpRun. rewrite G2. reflexivity. }
    rewrite Hrun.
    assert (Hlen : len src = H) by (rewrite Esrc, ShapesBase.len_upto; lia).
    assert (Hls : lines src e (bik b1)).
    { rewrite G2. apply (lines_agree B src H e); [rewrite Esrc; apply agreeTo_upto, HB|lia|exact Hlen|exact HB|]. apply (lines_mono B M e HM), L1. }
    rewrite Esrc in *. apply (Hocp H e b1); [lia|exact HgH|exact Hls|lia| |exact Hgb1].
    rewrite G2, G3. exact L2.
  Qed.

  Lemma sOKb_startSetext : startOKb startSetext.
  Proof.
    intros p HX Hs Hcl0. pose proof HX as [HE Hg]. unfold startSetext. cbv zeta.
    destruct (negb (containerKind p =? ParagraphKind)) eqn:Ek; [left; reflexivity|].
    destruct (_ <=? _); [left; reflexivity|]. destruct (_ =? 0); [left; reflexivity|].
    destruct (containerHasParagraphContent p) eqn:PC; cbn [negb]; [|left; reflexivity]. right.
    apply negb_false_iff, Z.eqb_eq in Ek.
    set (level := parseSetextHeadingUnderline (bytesAfterIndent p)).
    set (gf := fun b : block => set_bn (set_bkind b SetextHeadingKind) level).
    pose proof HE as (A & (A0 & A1) & A2 & A3 & A4). pose proof A2 as D.
    destruct (cdepth p) as [|d] eqn:Ed.
    { exfalso. rewrite (containerKind_root p Ed) in Ek. destruct D as (D1 & _). rewrite D1 in Ek. discriminate. }
    destruct (wf_le p (S d) D ltac:(lia)) as (x & Ex). destruct (wf_le p d D ltac:(lia)) as (y & Ey).
    assert (Kx : bkind x = ParagraphKind) by (rewrite <- Ek; symmetry; apply containerKind_at; rewrite Ed; exact Ex).
    assert (Ly : lastBlock y = Some x) by (rewrite getAt_S_last, Ey in Ex; exact Ex).
    assert (HP : lastIsPara (onCloseParagraph (source p) x) = true).
    { unfold containerHasParagraphContent in PC. rewrite Ek in PC. change (negb (ParagraphKind =? ParagraphKind)) with false in PC. cbv iota zeta in PC.
      unfold contBlock in PC. rewrite Ed, Ex in PC. exact PC. }
    set (q0 := updCont p gf).
    assert (Hc : cstep q0 (if state (consumeLine q0) =? stOpening then withState (consumeLine q0) stOpenMatched else consumeLine q0))
      by (eapply cstep_trans; [apply cstep_consumeLine|apply cstep_opened]).
    assert (ELC : state (consumeLine q0) = stLineConsumed) by (apply LC_consumeLine; exact Hs).
    unfold endBlock. fold q0.
    replace ((state (consumeLine q0) =? stDescending) || (state (consumeLine q0) =? stDescendTerminated)) with false by (rewrite ELC; reflexivity).
    cbv zeta. set (p6 := if state (consumeLine q0) =? stOpening then withState (consumeLine q0) stOpenMatched else consumeLine q0) in *.
    assert (E6s : state p6 = stLineConsumed) by (unfold p6; rewrite ELC; exact ELC).
    destruct Hc as ((E1 & E2) & (E3 & E4 & E5) & E6).
    assert (Ecd : cdepth p6 = S d) by (unfold cdepth; rewrite E2; exact Ed).
    rewrite Ecd.
    change (lineStart q0) with (lineStart p) in E3. change (line q0) with (line p) in E4. change (source q0) with (source p) in E5.
    change (li q0) with (li p) in E6. change (line q0) with (line p) in E6. specialize (E6 A1).
    set (e := lineStart p6 + li p6).
    destruct (src_of B p A) as (S1 & S2 & S3).
    assert (Li6 : li p6 = len (line p)).
    { unfold p6. rewrite ELC. change (stLineConsumed =? stOpening) with false. cbv iota.
      rewrite (li_consumeLine q0) by (change (li q0) with (li p); change (line q0) with (line p); exact A1). reflexivity. }
    set (CB := fun c : block => closeBlock (bheight (root p6)) (source p6) c e).
    assert (Eroot : updAt d (closeF p6 e) (root p6) = updAt d (clG CB gf) (root p)).
    { rewrite E1. change (root q0) with (updAt (cdepth p) gf (root p)). rewrite Ed. change (closeF p6 e) with (clF CB). apply fuse. }
    destruct (bheight_S (root p6)) as (n & En).
    assert (Enx : en B (lineStart p) x) by (eapply en_getAt; eassumption).
    assert (Hgx : gB g x = true) by (eapply gB_getAt; eassumption).
    assert (HCB : gL g (CB (gf x)) = true).
    { unfold CB. rewrite En. apply (gL_setext_close (lineStart p) (lineStart p + len (line p)) (source p6) e n x level).
      - rewrite E5. exact S1.
      - exact S2.
      - unfold e. rewrite E3, Li6. lia.
      - unfold e. rewrite E3, Li6. pose proof (len_nonneg (line p)). lia.
      - unfold e. rewrite E3, Li6. apply bdy_H, A.
      - apply bdy_H, A.
      - unfold e. rewrite E3, Li6. apply (g_H B HVB), A.
      - apply (g_H B HVB), A.
      - exact Enx.
      - exact Hgx.
      - exact Kx.
      - rewrite E5. exact HP. }
    split; [|left; exact E6s].
    change (root (withCont (closeLastChildAt p6 d e) (Some d))) with (root (closeLastChildAt p6 d e)). rewrite root_closeAt, Eroot.
    apply gB_updAt_at; [exact Hg|]. intros y' Ey' Hy'. rewrite Ey in Ey'. inversion Ey'; subst y'.
    unfold clG. rewrite Ly. apply gB_set_lastBlocks; [exact Hy'|exact HCB].
  Qed.
End Starts2.
