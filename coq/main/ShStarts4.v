From Coq Require Import List ZArith Lia Bool.
Import ListNotations.
Require Import Base Tree Rdr Link Collect Html Recog LP Rules Starts Driver Props L2Kind L2CC GramTree GramLP GramLP2 Cursor CursorX NoPanic12
  Rec15 Rec16 Rec17 Rec18 RecBounds EolInv BSDef BSRdr BSTree BSOcp BSOrph BSClose
  BSLine1 BSLine2 BSLine3 BSLine4 BSLine5 BSLine6 BSLine7 BSLine8 BShDef ShDef ShRdr ShClose ShEnv ShLine1 ShLine2 ShFresh ShRecog ShSetext ShStarts1 ShStarts2 ShStarts3.
Open Scope Z_scope.

Lemma lineOK_from l k : lineOK l -> 0 <= k -> lineOK (from_ l k).
Proof.
  intros (body & eol & E & Hb & He) Hk. subst l. destruct (Z.le_gt_cases k (len body)) as [L|L].
  - exists (from_ body k), eol. split; [apply EolInv.from_app_le; exact L|]. split; [|exact He].
    unfold no_eol in *. rewrite Forall_forall in *. intros x Hx. apply Hb. eapply from_sub; exact Hx.
  - exists [], (from_ (body ++ eol) k). split; [reflexivity|split; [constructor|]].
    assert (E : from_ (body ++ eol) k = from_ eol (k - len body)).
    { unfold from_. rewrite skipn_app. rewrite skipn_all2 by (unfold len in L; lia). cbn [app]. f_equal. unfold len in *. lia. }
    rewrite E. assert (Hp : 0 < k - len body) by lia.
    destruct He as [->|[->|[->| ->]]]; unfold from_.
    + rewrite skipn_nil. left; reflexivity.
    + destruct (Z.to_nat (k - len body)) as [|m] eqn:Em; [lia|]. cbn [skipn]. rewrite skipn_nil. left; reflexivity.
    + destruct (Z.to_nat (k - len body)) as [|m] eqn:Em; [lia|]. cbn [skipn]. rewrite skipn_nil. left; reflexivity.
    + destruct (Z.to_nat (k - len body)) as [|[|m]] eqn:Em; [lia| |]; cbn [skipn]; [right; left; reflexivity|rewrite skipn_nil; left; reflexivity].
Qed.

Lemma sub_split (src : bytes) s m : 0 <= s <= m -> m <= len src -> sub src s (len src) = sub src s m ++ from_ src m.
Proof.
  intros Hs Hm. rewrite sub_to_end by lia. unfold sub. pose proof (len_from src s ltac:(lia)) as Hl.
  destruct (split_at (from_ src s) (m - s) ltac:(lia)) as [E _]. rewrite E at 1. f_equal. rewrite from_from by lia. f_equal. lia.
Qed.

(* a result of closing the heading: a definition, or the heading itself, whose span ends with the underline line *)
Lemma setext_res_sh src M ls ln i level y : 0 <= ls <= len src -> ln = from_ src ls -> 0 <= i <= len ln -> lineOK ln ->
  parseSetextHeadingUnderline (trimLeftSpTab (from_ ln i)) = level -> level <> 0 ->
  okRes SetextHeadingKind level (len src) ls y -> sh src M y.
Proof.
  intros Hls Eln Hi Hlk Hp Hn (A & B & C). apply sh_closed_leaf; [exact A|exact B|].
  destruct C as [C|(C1 & C2 & C3 & C4)]; [rewrite C; apply shape_other; discriminate|].
  rewrite C1, C2, C3. rewrite (sub_split src (bstart y) ls) by lia. rewrite <- Eln.
  destruct (split_at ln i Hi) as [E _]. rewrite E at 1. rewrite app_assoc.
  apply shape_setext; [apply lineOK_from; [exact Hlk|lia]|exact Hp|exact Hn].
Qed.

Lemma sOKsh_startSetext : startOKsh startSetext.
Proof.
  intros p Hlk Hs HA HL HSL.
  assert (Same : SR p /\ SC1 p /\ SLI2 p /\ (SLI p \/ ms p)) by (split; [apply HA|split; [apply HA|split; [left; exact HSL|left; exact HSL]]]).
  pose proof HA as (H & HG & Hev & HS & HS1).
  pose proof (ccP_startSetext p ltac:(apply H)) as Hcc. revert Hcc. unfold startSetext. cbv zeta.
  destruct (negb (containerKind p =? ParagraphKind)) eqn:Ek; [intros _; exact Same|].
  destruct (_ <=? _); [intros _; exact Same|].
  destruct (Z.eqb_spec (parseSetextHeadingUnderline (bytesAfterIndent p)) 0) as [E0|N0]; [intros _; exact Same|].
  destruct (containerHasParagraphContent p) eqn:PC; cbn [negb]; [|intros _; exact Same]. clear Same.
  apply negb_false_iff, Z.eqb_eq in Ek.
  set (level := parseSetextHeadingUnderline (bytesAfterIndent p)) in *.
  set (g := fun b : block => set_bn (set_bkind b SetextHeadingKind) level).
  destruct H as [HB H1]. pose proof HB as (A & B & C & D).
  destruct (cdepth p) as [|d] eqn:Ed.
  { exfalso. rewrite (containerKind_root p Ed) in Ek. destruct D as (D1 & _). rewrite D1 in Ek. discriminate. }
  destruct (wf_le p (S d) D ltac:(lia)) as (x & Ex). destruct (wf_le p d D ltac:(lia)) as (y & Ey).
  assert (Kx : bkind x = ParagraphKind) by (rewrite <- Ek; symmetry; apply containerKind_at; rewrite Ed; exact Ex).
  assert (Ox : bend x < 0) by (apply (C (S d) x); [lia|exact Ex]).
  assert (Cx : cc x = true) by (eapply cc_getAt; [apply D|exact Ex]).
  assert (Ly : lastBlock y = Some x) by (rewrite getAt_S_last, Ey in Ex; exact Ex).
  assert (HP : lastIsPara (onCloseParagraph (source p) x) = true).
  { unfold containerHasParagraphContent in PC. rewrite Ek in PC. change (negb (ParagraphKind =? ParagraphKind)) with false in PC. cbv iota zeta in PC.
    unfold contBlock in PC. rewrite Ed, Ex in PC. exact PC. }
  (* the paragraph lies before the line *)
  assert (Spx : sp (lineStart p) x).
  { destruct (HL x ltac:(rewrite Ed; exact Ex)) as [S|W]; [exact S|]. rewrite Kx in W. destruct W as [W|[W|W]]; discriminate. }
  set (q0 := updCont p g).
  assert (Hc : cstep q0 (if state (consumeLine q0) =? stOpening then withState (consumeLine q0) stOpenMatched else consumeLine q0))
    by (eapply cstep_trans; [apply cstep_consumeLine|apply cstep_opened]).
  assert (Nq : nd (consumeLine q0)) by (apply ms_consumeLine, st_open_nd; exact Hs).
  unfold endBlock. fold q0.
  replace ((state (consumeLine q0) =? stDescending) || (state (consumeLine q0) =? stDescendTerminated)) with false
    by (destruct Nq as [-> |[-> | ->]]; reflexivity).
  cbv zeta. set (p6 := if state (consumeLine q0) =? stOpening then withState (consumeLine q0) stOpenMatched else consumeLine q0) in *.
  assert (Hli6 : li p6 = len (line p)).
  { assert (E : li p6 = li (consumeLine q0)) by (unfold p6; destruct (_ =? _); reflexivity). rewrite E.
    change (line p) with (line q0). apply li_consumeLine. exact (proj2 A). }
  destruct Hc as ((E1 & E2) & (E3 & E4 & E5) & E6).
  assert (Ecd : cdepth p6 = S d) by (unfold cdepth; rewrite E2; exact Ed).
  rewrite Ecd. intros Hcc.
  change (lineStart q0) with (lineStart p) in E3. change (line q0) with (line p) in E4. change (source q0) with (source p) in E5.
  pose proof (len_line_src p Hev) as Hll.
  assert (Ee : lineStart p6 + li p6 = len (source p)) by (rewrite E3, Hli6; exact Hll).
  set (F := withCont (closeLastChildAt p6 d (lineStart p6 + li p6)) (Some d)).
  set (CB := fun c : block => closeBlock (bheight (root p6)) (source p6) c (lineStart p6 + li p6)).
  assert (Eroot : root F = updAt d (clG CB g) (root p)).
  { unfold F. rewrite closeLastChildAt_eq. cbn [root withCont withRoot setLP]. rewrite E1. change (root q0) with (updAt (cdepth p) g (root p)). rewrite Ed.
    change (closeF p6 (lineStart p6 + li p6)) with (clF CB). apply fuse. }
  destruct (bheight_S (root p6)) as (n & En).
  (* the results of closing the heading *)
  assert (HL' : allP (okRes SetextHeadingKind level (len (source p)) (lineStart p)) (CB (g x))).
  { unfold CB. rewrite En, Ee, E5.
    set (gx := g x).
    assert (Fg : bkids gx = bkids x /\ bik gx = bik x /\ bstart gx = bstart x /\ bend gx = bend x /\ bkind gx = SetextHeadingKind /\ bn gx = level)
      by (unfold gx, g; destruct x; repeat split).
    destruct Fg as (F1 & F2 & F3 & F4 & F5 & F6).
    pose proof (para_no_kids x Cx Kx) as Hk.
    set (b1 := set_bend gx (len (source p))).
    assert (Gb : bkids b1 = [] /\ bik b1 = bik x /\ bstart b1 = bstart x /\ bend b1 = len (source p) /\ bkind b1 = SetextHeadingKind /\ bn b1 = level).
    { unfold b1. rewrite bk_set_bend, bik_set_bend, bstart_set_bend, bend_set_bend, bkind_set_bend. rewrite F1, Hk. repeat split; try assumption. destruct gx; exact F6. }
    destruct Gb as (G1 & G2 & G3 & G4 & G5 & G6).
    assert (EL : closeBlock (S n) (source p) gx (len (source p)) = onCloseParagraph (source p) b1).
    { cbn [closeBlock]. unfold isOpen. rewrite F4. destruct (Z.ltb_spec (bend x) 0); [|lia]. cbn [negb]. cbv zeta. fold b1. rewrite G5. reflexivity. }
    rewrite EL. pose proof Spx as Spx'. rewrite sp_eq in Spx'. destruct Spx' as (X1 & _ & X3 & _). destruct (X3 Ox) as [_ X4]. specialize (X4 Kx).
    pose proof (len_nonneg (source p)) as Hl0. destruct Hev as (_ & Hls).
    unfold onCloseParagraph in *. destruct (bik x) as [|first rest] eqn:Eb.
    - rewrite G2. split; [|exact I]. unfold okRes. rewrite G1, G3, G4, G5, G6. repeat split; try lia.
    - cbv zeta in *. rewrite Kx in HP. change (ParagraphKind =? SetextHeadingKind) with false in HP. cbv iota in HP.
      rewrite G2, G5. change (SetextHeadingKind =? SetextHeadingKind) with true. cbv iota.
      assert (Eik : bik x = bik b1) by (rewrite Eb, G2; reflexivity).
      rewrite Eb in Eik. rewrite (ocp_orphan_irrel _ _ (source p) x b1 _ _ [] [] ltac:(rewrite Eb; exact Eik) HP).
      pose proof (ocp_res_start SetextHeadingKind level (len (source p)) (lineStart p) (2 * length (source p) + 10) (source p) b1
                    Hl0 ltac:(lia) G1 G4 G5 G6 ltac:(rewrite G3; lia) ltac:(rewrite G3, G2; exact X4) first rest G2) as Hres.
      rewrite G2 in Hres. exact Hres. }
  assert (HU : parseSetextHeadingUnderline (trimLeftSpTab (from_ (line p) (li p))) = level) by reflexivity.
  assert (Hsh : forall M, allP (sh (source p) M) (CB (g x))).
  { intros M. eapply allP_impl; [|exact HL']. intros z Hz.
    eapply (setext_res_sh (source p) M (lineStart p) (line p) (li p) level z); try eassumption; try apply Hev; try apply A. }
  assert (Hclosed : closedL (CB (g x))) by (eapply allP_impl; [|exact HL']; intros z (Hz & _); exact Hz).
  assert (Oy : bend y < 0) by (apply (C d y); [lia|exact Ey]).
  assert (SRF : SR F).
  { unfold SR. rewrite Eroot. change (source F) with (source p6). rewrite E5.
    apply (sh_updAt_at (source p) (len (source p)) (clG CB g) d (root p) HS). intros y' Ey' Sy'. rewrite Ey in Ey'. inversion Ey'; subst y'.
    split; [|rewrite clG_bend; tauto]. unfold clG. rewrite Ly. eapply sh_set_lastBlocks; [exact Sy'|exact Ly|apply Hsh|exact Hclosed]. }
  assert (SC1F : SC1 F).
  { intros z Ez Oz. exfalso. change (cdepth F) with d in Ez. rewrite Eroot, getAt_S_updAt, Ey in Ez.
    unfold clG in Ez. rewrite Ly in Ez. rewrite lastBlock_of_list in Ez by (apply closeBlock_nonnil).
    destruct (rev (CB (g x))) as [|w t] eqn:Er; [discriminate|]. inversion Ez; subst z.
    assert (Hin : In w (CB (g x))) by (apply in_rev; rewrite Er; left; reflexivity).
    pose proof (allP_In _ _ _ Hclosed Hin) as Hw. cbn beta in Hw. lia. }
  assert (SLIF : SLI F).
  { intros z Ez. right. change (cdepth F) with d in Ez. rewrite Eroot, getAt_updAt_same, Ey in Ez. cbn in Ez.
    inversion Ez; subst z. rewrite clG_kind. eapply wide_of_child; [eapply (cc_spine d (root p) y x); [apply D|exact Ey|exact Ex]|rewrite Kx; discriminate]. }
  split; [exact SRF|split; [exact SC1F|split; [left; exact SLIF|left; exact SLIF]]].
Qed.
