From Coq Require Import List ZArith Lia Bool.
Import ListNotations.
Require Import Base Tree Driver Inl3e Render EolCRLFDefs.
Open Scope Z_scope.

(* ====================================================================================================
   C14, CRLF clause, renderer: shared definitions.
   RC a b : "b is a with a CR inserted immediately before some of the LF bytes of a".
   (crlf a is the instance that inserts one before every LF.)
   ==================================================================================================== *)
Inductive RC : bytes -> bytes -> Prop :=
| RC_nil : RC [] []
| RC_same x a b : RC a b -> RC (x :: a) (x :: b)
| RC_ins a b : RC a b -> RC (10 :: a) (13 :: 10 :: b).

(* executable form, used for testing *)
Fixpoint RCb (a b : bytes) : bool :=
  match a, b with
  | [], [] => true
  | x :: a', y :: b' =>
    if y =? x then RCb a' b'
    else if (x =? 10) && (y =? 13) then match b' with z :: b'' => (z =? 10) && RCb a' b'' | [] => false end
    else false
  | _, _ => false
  end.

(* the two normalisations: delete every CR that is immediately followed by LF / delete every CR *)
Fixpoint normCrlf (l : bytes) : bytes :=
  match l with
  | [] => []
  | c :: r => if (c =? 13) && (match r with d :: _ => d =? 10 | [] => false end) then normCrlf r else c :: normCrlf r
  end.
Definition delCR (l : bytes) : bytes := filter (fun c => negb (c =? 13)) l.
(* "l contains no CR LF pair" *)
Fixpoint noCrLfb (l : bytes) : bool :=
  match l with
  | [] => true
  | c :: r => negb ((c =? 13) && (match r with d :: _ => d =? 10 | [] => false end)) && noCrLfb r
  end.

Definition renderDoc_crlf_statement : Prop :=
  forall c s, ~ In 13 s -> 2 * len (crlf (pad s)) + 9 < 999 -> RC (renderDoc c s) (renderDoc c (crlf s)).
(* the naive normalised corollary; FALSE (EolCRLFRender.renderDoc_crlf_norm_naive_counterexample) because the LF rendering
   can itself contain CR bytes (decoded from &#13; into an attribute value) *)
Definition renderDoc_crlf_norm_naive_statement : Prop :=
  forall c s, ~ In 13 s -> 2 * len (crlf (pad s)) + 9 < 999 -> normCrlf (renderDoc c (crlf s)) = normCrlf (renderDoc c s).
