From Coq Require Import List ZArith Lia Bool.
Import ListNotations.
Require Import Base Tables Utf8 Tree Rdr Link Collect Html Recog LP Rules Starts Driver Props.
Require Import Leaf3e RdrBound BSRdr BSOrph GI0 SpanHypDef LADef LA1 LA2 LARec LAR1 LAR2 LAR4 ExOcp DefSpansOcp.
Open Scope Z_scope.

(* ================================================================================================
   T56 (a), part 2 (DefSpansClose): inv3 (DefSpansOcp) through onCloseParagraph and closeBlock; the setters.
   (ExOcp's Close section with locQ3 / locD in the place of locQ / locX.)
   ================================================================================================ *)
Section Close.
  Variable mem : Z -> list inline -> bool.
  Variable src : bytes.
  Variable ls : Z.
  Hypothesis Hmem : forall s ik, mem s ik = true -> GoodP src ls s ik.
  Notation inv3 := (inv3 mem src).
  Notation inv3L := (inv3L mem src).

  Lemma D_onCloseParagraph orig : 0 <= bend orig -> isPSb (bkind orig) = true -> inv3L (bkids orig) = true ->
    nilb (bik orig) || mem (bstart orig) (bik orig) = true -> (bkind orig = SetextHeadingKind -> lpok src (bik orig) = true) ->
    inv3L (onCloseParagraph src orig) = true.
  Proof.
    intros He Hk Hc Hg Hl. unfold onCloseParagraph. destruct (bik orig) as [|first rest] eqn:Eb.
    - cbn [DefSpansOcp.inv3L forallb]. rewrite (inv3_closedPS mem src orig He Hk Hc). reflexivity.
    - cbv zeta. cbn [nilb orb] in Hg. pose proof (Hmem _ _ Hg) as HG.
      assert (HI : DI src (first :: rest) orig (newReader src (first :: rest) (istart first)) first rest).
      { split; [exists []; reflexivity|]. split; [exact Eb|]. split; [|reflexivity].
        destruct HG as (_ & _ & _ & [Hfa _] & _). pose proof (Forall_inv Hfa) as Hf1. destruct Hf1 as (F1 & F2 & _).
        split; [reflexivity|]. split; [exists [], []; split; reflexivity|]. cbn [r_pos r_vpos newReader]. lia. }
      destruct (Z.eqb_spec (bkind orig) SetextHeadingKind) as [Ek|Ek].
      + rewrite (ocp_orphan_irrel _ _ src (paraOf (first :: rest)) orig _ _ [] []).
        * apply (D_ocp mem src (first :: rest) (bstart orig) ls HG _ orig _ first rest [] HI); try assumption. reflexivity.
        * cbn [paraOf bik]. symmetry. exact Eb.
        * specialize (Hl Ek). unfold lpok, onCloseParagraph in Hl. cbn [paraOf bik bkind] in Hl.
          change (ParagraphKind =? SetextHeadingKind) with false in Hl. cbv iota zeta in Hl. exact Hl.
      + apply (D_ocp mem src (first :: rest) (bstart orig) ls HG _ orig _ first rest [] HI); try assumption. reflexivity.
  Qed.

  (* ---- setters ---- *)
  Lemma inv3_set_bn b v : inv3 (set_bn b v) = inv3 b. Proof. destruct b; reflexivity. Qed.
  Lemma inv3_set_bchar b v : inv3 (set_bchar b v) = inv3 b. Proof. destruct b; reflexivity. Qed.
  Lemma inv3_set_bindent b v : inv3 (set_bindent b v) = inv3 b. Proof. destruct b; reflexivity. Qed.
  Lemma inv3_set_bloose b v : inv3 (set_bloose b v) = inv3 b. Proof. destruct b; reflexivity. Qed.
  Lemma inv3_set_blast b v : inv3 (set_blast b v) = inv3 b. Proof. destruct b; reflexivity. Qed.
  Lemma inv3_set_bkids b ks : inv3 b = true -> inv3L ks = true -> inv3 (set_bkids b ks) = true.
  Proof.
    intros H Hk. apply inv3_parts in H. destruct H as (A & B & _). destruct b as [K s e bk ik a n c l lb].
    cbn [set_bkids]. rewrite inv3_eq. cbn [bkids]. rewrite Hk, andb_true_r. apply andb_true_iff. split; [exact A|exact B].
  Qed.
  Lemma inv3_set_bend_open b e : bend b < 0 -> 0 <= e -> inv3 b = true -> inv3 (set_bend b e) = true.
  Proof.
    intros Ho He H. apply inv3_parts in H. destruct H as (A & B & C). destruct b as [K s e0 bk ik a n c l lb]. cbn [bend] in Ho.
    cbn [set_bend]. apply inv3_mk; [| |exact C].
    - unfold locQ3. cbn [bend]. destruct (Z.ltb_spec e 0); [lia|reflexivity].
    - unfold locD in *. cbn [bkind bstart bend bik] in *. destruct (K =? LinkReferenceDefinitionKind); [|reflexivity]. cbn [negb orb] in *.
      destruct (Z.leb_spec 0 s) as [L|L]; [|reflexivity]. cbn [negb orb] in B. apply andb_true_iff in B. destruct B as [B _]. apply andb_true_iff in B. destruct B as [B _]. apply Z.leb_le in B. lia.
  Qed.
  Lemma inv3_set_bik_free b ik' : isPSb (bkind b) = false -> bkind b <> LinkReferenceDefinitionKind -> inv3 b = true -> inv3 (set_bik b ik') = true.
  Proof.
    intros Hp Hr H. apply inv3_parts in H. destruct H as (_ & _ & C). destruct b as [K s e bk ik a n c l lb]. cbn [bkind] in *.
    cbn [set_bik]. apply inv3_mk; [| |exact C].
    - unfold locQ3. cbn [bkind]. rewrite Hp, andb_false_r. reflexivity.
    - unfold locD. cbn [bkind]. apply Z.eqb_neq in Hr. rewrite Hr. reflexivity.
  Qed.
  Lemma inv3_newBlock k s : k <> LinkReferenceDefinitionKind -> inv3 (newBlock k s) = true.
  Proof.
    intros Hr. unfold newBlock. apply inv3_mk; [| |reflexivity].
    - unfold locQ3. cbn [bend bkind bik nilb orb andb]. destruct (Z.eqb_spec k SetextHeadingKind); [|rewrite orb_true_r; reflexivity].
      subst k. apply orb_true_r.
    - unfold locD. cbn [bkind]. apply Z.eqb_neq in Hr. rewrite Hr. reflexivity.
  Qed.

  Lemma forallb_sub {A} (p : A -> bool) l l' : (forall x, In x l' -> In x l) -> forallb p l = true -> forallb p l' = true.
  Proof. intros Hs H. rewrite forallb_forall in *. auto. Qed.
  Lemma removelast_In {A} (l : list A) x : In x (removelast l) -> In x l.
  Proof.
    induction l as [|y l IH]; [intros []|]. destruct l as [|z l]; [intros []|].
    change (removelast (y :: z :: l)) with (y :: removelast (z :: l)). intros [->|H]; [left; reflexivity|right; apply IH, H].
  Qed.
  Lemma inv3L_removelast l : inv3L l = true -> inv3L (removelast l) = true.
  Proof. apply forallb_sub. intros x. apply removelast_In. Qed.
  Lemma lastBlock_In b c : lastBlock b = Some c -> In c (bkids b).
  Proof.
    unfold lastBlock. intros H. destruct (rev (bkids b)) as [|x r] eqn:Er; [discriminate|]. inversion H; subst.
    apply in_rev. rewrite Er. left. reflexivity.
  Qed.
  Lemma inv3_lastBlock b c : inv3 b = true -> lastBlock b = Some c -> inv3 c = true.
  Proof.
    intros H Hl. apply inv3_parts in H. destruct H as (_ & _ & H). unfold DefSpansOcp.inv3L in H. rewrite forallb_forall in H.
    apply H. eapply lastBlock_In. exact Hl.
  Qed.
  Lemma inv3_set_lastBlocks b repl : inv3 b = true -> inv3L repl = true -> inv3 (set_lastBlocks b repl) = true.
  Proof.
    intros H Hr. unfold set_lastBlocks. apply inv3_set_bkids; [assumption|].
    rewrite inv3L_app, Hr, andb_true_r. apply inv3L_removelast. apply inv3_parts in H. tauto.
  Qed.
  Lemma inv3_updAt_at f : forall d b, inv3 b = true ->
    (forall x, getAt d b = Some x -> inv3 x = true -> inv3 (f x) = true) -> inv3 (updAt d f b) = true.
  Proof.
    induction d as [|d IH]; intros b H Hf; [apply Hf; [reflexivity|assumption]|]. cbn [updAt].
    destruct (lastBlock b) as [c|] eqn:El; [|assumption].
    apply inv3_set_lastBlocks; [assumption|]. unfold DefSpansOcp.inv3L. cbn [forallb]. rewrite andb_true_r.
    apply IH; [eapply inv3_lastBlock; eassumption|]. intros x Hx. apply Hf. cbn [getAt]. rewrite El. exact Hx.
  Qed.
  Lemma inv3_updAt f : (forall b, inv3 b = true -> inv3 (f b) = true) -> forall d b, inv3 b = true -> inv3 (updAt d f b) = true.
  Proof. intros Hf d b H. apply inv3_updAt_at; [exact H|]. intros x _. apply Hf. Qed.

  Lemma inv3_onCloseList b : inv3 b = true -> inv3 (onCloseList b) = true.
  Proof.
    intros H. unfold onCloseList. cbv zeta. destruct (bloose b || _); [|assumption].
    apply inv3_set_bkids; [rewrite inv3_set_bloose; assumption|].
    apply inv3_parts in H. destruct H as (_ & _ & H). unfold DefSpansOcp.inv3L in *. rewrite forallb_forall in *.
    intros x Hx. apply in_map_iff in Hx. destruct Hx as (y & <- & Hy). rewrite inv3_set_bloose. apply H, Hy.
  Qed.

  Lemma D_closeBlock e : 0 <= e -> forall fuel b, inv3 b = true -> inv3L (closeBlock fuel src b e) = true.
  Proof.
    intros He. induction fuel as [|f IH]; intros b H; [cbn; rewrite H; reflexivity|]. cbn [closeBlock].
    destruct (isOpen b) eqn:Eo; cbn [negb]; [|cbn; rewrite H; reflexivity]. cbv zeta.
    unfold isOpen in Eo. apply Z.ltb_lt in Eo.
    assert (Hcl : forall x, inv3 x = true ->
              inv3 (match lastBlock x with Some c => set_lastBlocks x (closeBlock f src c e) | None => x end) = true).
    { intros x Hx. destruct (lastBlock x) as [c|] eqn:El; [|assumption].
      apply inv3_set_lastBlocks; [assumption|]. apply IH. eapply inv3_lastBlock; eassumption. }
    assert (H1 : inv3 (set_bend b e) = true) by (apply inv3_set_bend_open; assumption).
    assert (Ek : bkind (set_bend b e) = bkind b) by (destruct b; reflexivity). rewrite Ek.
    destruct (Z.eqb_spec (bkind b) ListKind) as [EL|NL].
    { cbn [DefSpansOcp.inv3L forallb]. rewrite Hcl; [reflexivity|]. apply inv3_onCloseList. assumption. }
    destruct (Z.eqb_spec (bkind b) IndentedCodeBlockKind) as [EI|NI].
    { cbn [DefSpansOcp.inv3L forallb]. rewrite Hcl; [reflexivity|]. unfold onCloseIndented. apply inv3_set_bik_free; [rewrite Ek, EI; reflexivity|rewrite Ek, EI; discriminate|exact H1]. }
    destruct ((bkind b =? ParagraphKind) || (bkind b =? SetextHeadingKind)) eqn:Ep.
    { pose proof H as H'. apply inv3_parts in H'. destruct H' as (A & _ & C). unfold locQ3 in A.
      destruct (Z.ltb_spec (bend b) 0) as [_|]; [|lia]. change ((bkind b =? ParagraphKind) || (bkind b =? SetextHeadingKind)) with (isPSb (bkind b)) in Ep.
      rewrite Ep in A. cbn [andb negb orb] in A. apply andb_true_iff in A. destruct A as [A1 A2].
      apply D_onCloseParagraph.
      - destruct b; cbn [set_bend bend]. exact He.
      - rewrite Ek. exact Ep.
      - destruct b; cbn [set_bend bkids] in *. exact C.
      - destruct b; cbn [set_bend bik bstart] in *. exact A1.
      - rewrite Ek. intros E. replace (bik (set_bend b e)) with (bik b) by (destruct b; reflexivity).
        rewrite E in A2. cbn in A2. exact A2. }
    cbn [DefSpansOcp.inv3L forallb]. rewrite Hcl; [reflexivity|assumption].
  Qed.
End Close.

Print Assumptions D_closeBlock.
